/-
  RdfModel.Spec.JsonLdWriter — the fragment writer `write : Dataset → Choices → Json` of property C10.

  A dataset (list of quads over an arbitrary blank-node carrier `β`, labelled by `name : β → Str`) is
  written as a JSON-LD document in three steps:

  1. `propose`: a *tree* for the dataset — per graph, node objects with their properties grouped by
     predicate; a blank node that is the object of exactly one quad may be embedded at that place and lose
     its identifier (`NodeId.anon`), a well-formed RDF list may become a list value (`Tree.list`, its cell
     nodes lose their identifiers as well). `propose` is a heuristic; its result is *validated*: the
     quads of the tree (`flatForest`, with the original blank nodes) must be a permutation of the
     dataset, the anonymised blank nodes must be pairwise distinct and occur nowhere else (`forestOK`).
  2. `render`: the tree is written under the active context obtained by processing the inline context
     the choices supply (any JSON value; if `processLocal` rejects it, no context is used). Every place
     where a compact form can be chosen — node identifiers, property names, `@type`, values (strings
     under a type coercion, native numbers and booleans, value objects, language maps, list containers,
     `@list`), relative IRI references — is filled with the first candidate, in an order rotated by the
     choices, that the fragment semantics maps back to the intended term: the writer evaluates
     `JL.evalMembers` / `JL.evalItem` / `JL.evalId` on the candidate member (translation validation).
     If no candidate of some place validates, `render` gives up. The choices may also supply a *local
     context* that is put on about every second embedded node object and graph member (not on the top
     level of a single-node document): the active context is extended there (`processLocal` on the
     inherited context) and everything below is rendered under the extended context — inherited terms,
     `@vocab`, `@base` and the default `@language` must survive, overridden ones must change.
     `renderWith` tries: document context + local contexts, document context only, local contexts only,
     neither.
  3. `write` falls back to `writeFlat` — an array with one expanded node object per quad and no
     context — when step 1 or 2 gave up.

  `denoteForest` is what the document must denote: the quads of the tree with `BN.orig (name b)` for
  blank nodes that keep their identifier and `BN.fresh k` for the anonymised ones, `k` in document order.
  Theorems (Props/C10.lean): `toRdf (write d ch) = some out` with `out` isomorphic to `d`.
  Core-only, executable.
-/
import RdfModel.Spec.JsonLdFragment
namespace RdfModel.JL
open RdfModel RdfModel.Desc

/-! ## Trees -/

/-- how a node object identifies its subject -/
inductive NodeId (β : Type) where
  | iri (v : Str)
  | named (b : β)         -- `"@id": "_:" ++ name b`
  | anon (b : β)          -- no `@id`; `b` is the blank node of the dataset this node stands for
  deriving Repr, DecidableEq

inductive Tree (β : Type) where
  | node (id : NodeId β) (groups : List (Str × List (Tree β)))   -- properties grouped by predicate
  | term (t : Term β)                                            -- IRI, literal, named blank node
  | list (cells : List (β × Term β))                             -- RDF list: cell nodes and their items
  deriving Repr

/-- a graph of the document: its name (`none` = default graph) and its node objects -/
abbrev Block (β : Type) := Option (Term β) × List (Tree β)
abbrev Forest (β : Type) := List (Block β)

variable {β : Type}

def NodeId.subj : NodeId β → Term β
  | .iri v => .iri v
  | .named b => .bnode b
  | .anon b => .bnode b

/-- the term a tree stands for at the place where it is a value -/
def Tree.obj : Tree β → Term β
  | .node id _ => id.subj
  | .term t => t
  | .list [] => .iri rdfNil
  | .list ((b, _) :: _) => .bnode b

/-! ### the quads of a tree, with the blank nodes of the dataset -/

/-- `cell rdf:rest …` and the following cells -/
def flatCells (g : Option (Term β)) (cell : β) : List (β × Term β) → List (DQuad β)
  | [] => [⟨⟨.bnode cell, rdfRest, .iri rdfNil⟩, g⟩]
  | (b, x) :: rest =>
    ⟨⟨.bnode cell, rdfRest, .bnode b⟩, g⟩ :: ⟨⟨.bnode b, rdfFirst, x⟩, g⟩ :: flatCells g b rest

mutual
/-- the quads of a tree standing as a value of property `p` of subject `s`: the quads inside it and the
    one linking it -/
def flatVal (g : Option (Term β)) (s : Term β) (p : Str) : Tree β → List (DQuad β)
  | .node id groups => flatGroups g id.subj groups ++ [⟨⟨s, p, id.subj⟩, g⟩]
  | .term t => [⟨⟨s, p, t⟩, g⟩]
  | .list [] => [⟨⟨s, p, .iri rdfNil⟩, g⟩]
  | .list ((b, x) :: rest) => ⟨⟨s, p, .bnode b⟩, g⟩ :: ⟨⟨.bnode b, rdfFirst, x⟩, g⟩ :: flatCells g b rest
def flatGroups (g : Option (Term β)) (s : Term β) : List (Str × List (Tree β)) → List (DQuad β)
  | [] => []
  | (p, vs) :: rest => flatVals g s p vs ++ flatGroups g s rest
def flatVals (g : Option (Term β)) (s : Term β) (p : Str) : List (Tree β) → List (DQuad β)
  | [] => []
  | v :: vs => flatVal g s p v ++ flatVals g s p vs
end

/-- the quads of a node object of the top level or of `@graph` -/
def flatTree (g : Option (Term β)) : Tree β → List (DQuad β)
  | .node id groups => flatGroups g id.subj groups
  | _ => []

def flatNodes (g : Option (Term β)) : List (Tree β) → List (DQuad β)
  | [] => []
  | t :: ts => flatTree g t ++ flatNodes g ts

def flatForest : Forest β → List (DQuad β)
  | [] => []
  | (g, ns) :: rest => flatNodes g ns ++ flatForest rest

/-! ### anonymised and named blank nodes of a tree -/

mutual
/-- blank nodes that lose their identifier, in document order -/
def tagsTree : Tree β → List β
  | .node (.anon b) groups => b :: tagsGroups groups
  | .node _ groups => tagsGroups groups
  | .term _ => []
  | .list cells => cells.map (·.1)
def tagsGroups : List (Str × List (Tree β)) → List β
  | [] => []
  | (_, vs) :: rest => tagsVals vs ++ tagsGroups rest
def tagsVals : List (Tree β) → List β
  | [] => []
  | v :: vs => tagsTree v ++ tagsVals vs
end

def termBN : Term β → List β
  | .bnode b => [b]
  | _ => []

mutual
/-- blank nodes written with their identifier -/
def namedTree : Tree β → List β
  | .node (.named b) groups => b :: namedGroups groups
  | .node _ groups => namedGroups groups
  | .term t => termBN t
  | .list cells => cells.flatMap (fun c => termBN c.2)
def namedGroups : List (Str × List (Tree β)) → List β
  | [] => []
  | (_, vs) :: rest => namedVals vs ++ namedGroups rest
def namedVals : List (Tree β) → List β
  | [] => []
  | v :: vs => namedTree v ++ namedVals vs
end

def tagsNodes : List (Tree β) → List β
  | [] => []
  | t :: ts => tagsTree t ++ tagsNodes ts
def namedNodes : List (Tree β) → List β
  | [] => []
  | t :: ts => namedTree t ++ namedNodes ts

def tagsForest : Forest β → List β
  | [] => []
  | (_, ns) :: rest => tagsNodes ns ++ tagsForest rest
def namedForest : Forest β → List β
  | [] => []
  | (g, ns) :: rest => (match g with | some t => termBN t | none => []) ++ namedNodes ns ++ namedForest rest

/-- shape conditions the semantics of node objects imposes on a tree: top-level entries and graph
    members are node objects -/
def isNode : Tree β → Bool
  | .node _ _ => true
  | _ => false

/-- validation of a proposed forest against the dataset -/
def forestOK [DecidableEq β] (F : Forest β) (d : List (DQuad β)) : Bool :=
  (flatForest F).isPerm d && (tagsForest F).Nodup && (tagsForest F).all (fun b => !(namedForest F).contains b) &&
  F.all (fun blk => blk.2.all isNode)

/-! ### what the rendered tree must denote -/

/-- the term of the result for a term of the dataset that keeps its blank node identifier -/
def outTerm (name : β → Str) (t : Term β) : T := t.map (fun b => BN.orig (name b))

/-- `cell rdf:rest …` and the following cells, numbered from `n` -/
def denCells (name : β → Str) (g : Option T) (cell : T) : List (β × Term β) → Nat → List Q × Nat
  | [], n => ([quad cell rdfRest (.iri rdfNil) g], n)
  | (_, x) :: rest, n =>
    let r := denCells name g (.bnode (.fresh n)) rest (n + 1)
    (quad cell rdfRest (.bnode (.fresh n)) g :: quad (.bnode (.fresh n)) rdfFirst (outTerm name x) g :: r.1, r.2)

/-- a list value of `p`: link, cells -/
def denList (name : β → Str) (g : Option T) (s : T) (p : Str) : List (β × Term β) → Nat → List Q × Nat
  | [], n => ([quad s p (.iri rdfNil) g], n)
  | (_, x) :: rest, n =>
    let r := denCells name g (.bnode (.fresh n)) rest (n + 1)
    (quad s p (.bnode (.fresh n)) g :: quad (.bnode (.fresh n)) rdfFirst (outTerm name x) g :: r.1, r.2)

/-- subject of a node object at counter `n`, and the counter after it -/
def denId (name : β → Str) : NodeId β → Nat → T × Nat
  | .iri v, n => (.iri v, n)
  | .named b, n => (.bnode (.orig (name b)), n)
  | .anon _, n => (.bnode (.fresh n), n + 1)

mutual
/-- a tree as a value of `p` of `s` at counter `n` -/
def denVal (name : β → Str) (g : Option T) (s : T) (p : Str) : Tree β → Nat → List Q × Nat
  | .node id groups, n =>
    let r := denGroups name g (denId name id n).1 groups (denId name id n).2
    (r.1 ++ [quad s p (denId name id n).1 g], r.2)
  | .term t, n => ([quad s p (outTerm name t) g], n)
  | .list cells, n => denList name g s p cells n
def denGroups (name : β → Str) (g : Option T) (s : T) : List (Str × List (Tree β)) → Nat → List Q × Nat
  | [], n => ([], n)
  | (p, vs) :: rest, n =>
    let a := denVals name g s p vs n
    let b := denGroups name g s rest a.2
    (a.1 ++ b.1, b.2)
def denVals (name : β → Str) (g : Option T) (s : T) (p : Str) : List (Tree β) → Nat → List Q × Nat
  | [], n => ([], n)
  | v :: vs, n =>
    let a := denVal name g s p v n
    let b := denVals name g s p vs a.2
    (a.1 ++ b.1, b.2)
end

/-- a node object of the top level or of `@graph` -/
def denNode (name : β → Str) (g : Option T) : Tree β → Nat → List Q × Nat
  | .node id groups, n =>
    let i := denId name id n
    denGroups name g i.1 groups i.2
  | _, n => ([], n)

def denNodes (name : β → Str) (g : Option T) : List (Tree β) → Nat → List Q × Nat
  | [], n => ([], n)
  | t :: ts, n =>
    let a := denNode name g t n
    let b := denNodes name g ts a.2
    (a.1 ++ b.1, b.2)

def denForest (name : β → Str) : Forest β → Nat → List Q × Nat
  | [], n => ([], n)
  | (g, ns) :: rest, n =>
    let a := denNodes name (g.map (outTerm name)) ns n
    let b := denForest name rest a.2
    (a.1 ++ b.1, b.2)

/-! ## Candidates (heuristics; everything they produce is validated before use) -/

def startsWith (p s : Str) : Bool := p.isPrefixOf s

/-- rotate a list: the choices decide which valid candidate comes first -/
def rotate {α : Type} (k : Nat) (l : List α) : List α :=
  if l.length = 0 then l else l.drop (k % l.length) ++ l.take (k % l.length)

/-- a cheap hash so that different places rotate differently -/
def salt (s : Str) : Nat := s.foldl (fun a c => (a * 31 + c) % 65521) 7

/-- text up to and including the last `/` -/
def dirPart (s : Str) : Str := (s.reverse.dropWhile (· != cSlash)).reverse

/-- `scheme://authority` of an IRI that has an authority -/
def rootPart (s : Str) : Str :=
  match splitColon s with
  | some (p, rest) =>
    if rest.take 2 = [cSlash, cSlash] then p ++ [cColon, cSlash, cSlash] ++ (rest.drop 2).takeWhile (fun c => c != cSlash && c != 0x3f && c != 0x23)
    else []
  | none => []

/-- relative references that may resolve to `v` against `b` -/
def relCands (b v : Str) : List Str :=
  let noFrag := b.takeWhile (· != 0x23)
  let noQuery := noFrag.takeWhile (· != 0x3f)
  let dir := dirPart noQuery
  let root := rootPart b
  (if v = noFrag then [[]] else []) ++
  (if startsWith noFrag v && (v.drop noFrag.length).head? = some 0x23 then [v.drop noFrag.length] else []) ++
  (if startsWith noQuery v && (v.drop noQuery.length).head? = some 0x3f then [v.drop noQuery.length] else []) ++
  (if dir ≠ [] && startsWith dir v then [v.drop dir.length, [0x2e, cSlash] ++ v.drop dir.length] else []) ++
  (if dirPart (dir.dropLast) ≠ [] && startsWith (dirPart dir.dropLast) v then [[0x2e, 0x2e, cSlash] ++ v.drop (dirPart dir.dropLast).length] else []) ++
  (if root ≠ [] && startsWith root v then [v.drop root.length, [cSlash, cSlash] ++ v.drop (root.length - (rootPart b).length + ((splitColon b).map (·.1.length + 3)).getD 0)] else [])

/-- strings that may expand to the IRI `v` -/
def iriCands (c : Ctx) (vocab docRel : Bool) (v : Str) : List Str :=
  (if vocab then (c.terms.filter (fun e => e.2.iri == v)).map (·.1) else []) ++
  (match (if vocab then c.vocab else none) with
   | some V => if startsWith V v && V.length < v.length then [v.drop V.length] else []
   | none => []) ++
  ((c.terms.filter (fun e => e.2.pfx && startsWith e.2.iri v)).map (fun e => e.1 ++ [cColon] ++ v.drop e.2.iri.length)) ++
  (match (if docRel then c.base else none) with
   | some b => relCands b v
   | none => []) ++
  [v]

/-- candidates validated by IRI expansion -/
def iriForms (c : Ctx) (vocab docRel : Bool) (k : Nat) (v : Str) : List Str :=
  rotate k ((iriCands c vocab docRel v).filter (fun s => expandIri c vocab docRel s == .iri v))

def bnodeId (name : β → Str) (b : β) : Str := [cUnderscore, cColon] ++ name b

/-- canonical `xsd:integer` lexical forms small enough to be native numbers -/
def parseNat : Str → Option Nat
  | [] => none
  | cs => if cs.all isDigit then some (cs.foldl (fun a c => a * 10 + (c - 0x30)) 0) else none

def intNative (lex : Str) : Option Int :=
  match lex with
  | 0x2d :: ds => (parseNat ds).bind fun n => if n ≤ maxSafe ∧ n ≠ 0 ∧ intLex (-(Int.ofNat n)) = lex then some (-(Int.ofNat n)) else none
  | ds => (parseNat ds).bind fun n => if n ≤ maxSafe ∧ intLex (Int.ofNat n) = lex then some (Int.ofNat n) else none

/-- canonical `xsd:double` lexical forms `[-]d.ddd…E[-]ddd` that denote a number that is not an
    integer below 10^21 and that is exactly the canonical form of the IEEE double it reads as
    (at most 15 significant digits, exponent within ±300): such a literal can be a native number -/
def dblNative (lex : Str) : Bool :=
  let body := match lex with | 0x2d :: r => r | r => r
  match body with
  | d :: 0x2e :: rest =>
    let frac := rest.takeWhile isDigit
    let after := rest.dropWhile isDigit
    match after with
    | 0x45 :: e =>
      let neg := e.head? = some 0x2d
      let ed := if neg then e.drop 1 else e
      match parseNat ed with
      | some ev =>
        let fracDigits := if frac = [0x30] then 0 else frac.length
        0x31 ≤ d && d ≤ 0x39 && frac ≠ [] && (frac = [0x30] || frac.getLast? ≠ some 0x30) &&
        fracDigits + 1 ≤ 15 && ev ≤ 300 && natDigits ev = ed &&
        (neg && ev ≠ 0 || (!neg && (fracDigits > ev || 21 ≤ ev)))
      | none => false
    | _ => false
  | _ => false

/-- JSON values that may denote the term `t` as a value of a property with term definition `td` -/
def valCands (name : β → Str) (c : Ctx) (td : TermDef) (natives : Bool) (k : Nat) (t : Term β) : List Json :=
  match t with
  | .iri v =>
    (if td.typ = .id then (iriForms c false true k v).map Json.str else []) ++
    (if td.typ = .vocab then (iriForms c true true k v).map Json.str else []) ++
    (iriForms c false true k v).map (fun s => Json.obj [(kId, .str s)])
  | .bnode b =>
    (if td.typ = .id || td.typ = .vocab then [Json.str (bnodeId name b)] else []) ++
    [Json.obj [(kId, .str (bnodeId name b))]]
  | .lit lex dt lang =>
    match lang with
    | some l => [Json.str lex, Json.obj [(kValue, .str lex), (kLanguage, .str l)]]
    | none =>
      (if natives && dt = xsdBoolean && lex = asc "true" then [Json.bool true] else []) ++
      (if natives && dt = xsdBoolean && lex = asc "false" then [Json.bool false] else []) ++
      (if natives && dt = xsdInteger then (match intNative lex with | some i => [Json.int i] | none => []) else []) ++
      (if natives && dt = xsdDouble && dblNative lex then [Json.dbl lex] else []) ++
      [Json.str lex] ++
      (if dt = xsdString then [Json.obj [(kValue, .str lex)]] else []) ++
      (iriForms c true true k dt).map (fun s => Json.obj [(kValue, .str lex), (kType, .str s)])

/-- first candidate the semantics maps to exactly `[quad s p o g]` without consuming blank nodes -/
def pickVal (c : Ctx) (td : TermDef) (g : Option T) (s : T) (p : Str) (o : T) (n : Nat) (cands : List Json) : Option Json :=
  cands.find? (fun j => decide (evalItem c td g s p j n = some ([quad s p o g], n)))

/-- property names: strings that classify as the property `p`, with their term definitions -/
def keyForms (c : Ctx) (k : Nat) (p : Str) : List (Str × TermDef) :=
  rotate k ((iriCands c true false p).filterMap (fun s =>
    match classifyKey c s with
    | .prop p' td => if p' = p then some (s, td) else none
    | _ => none))

/-! ## Choices -/

structure Choices where
  mode11 : Bool
  base : Option Str      -- the document base handed to `toRdf`
  context : Option Json  -- inline context to try
  localContext : Option Json -- a further context to put on some embedded node objects and graph members
  nest : Bool            -- embed once-referenced blank nodes
  lists : Bool           -- write RDF lists as list values
  anonTop : Bool         -- unreferenced blank node subjects lose their identifier
  natives : Bool         -- native numbers and booleans
  useType : Bool         -- `@type` for rdf:type with IRI objects
  compactGroups : Bool   -- language maps, list containers, unwrapped single values
  shape : Nat            -- 0: top-level array (only without context); 1: object with @graph; 2: single node object when possible
  seed : Nat             -- rotation of the candidate lists
  deriving Repr

/-! ## Rendering -/

/-- a rendered member together with the counter after it -/
abbrev Rendered := Option (List (Str × Json) × Nat)

/-- whole-member check: under context `c` the member `(k, v)` of a node with subject `s` in graph `g`
    denotes exactly `want` -/
def memberOK (c : Ctx) (g : Option T) (s : T) (k : Str) (v : Json) (n : Nat) (want : List Q × Nat) : Bool :=
  (match classifyKey c k with
   | .prop _ _ => true
   | .type => true
   | _ => false) &&
  decide (evalMembers c g s false [(k, v)] n = some want)

def isTerminal : Tree β → Bool
  | .node _ _ => false
  | _ => true

def langOf : Tree β → Option (Str × Str)
  | .term (.lit lex _ (some l)) => some (l, lex)
  | _ => none

/-- items of a list value: each the first candidate valid as a value of `rdf:first` -/
def listItems (name : β → Str) (c : Ctx) (td : TermDef) (natives : Bool) (k : Nat) (g : Option T) :
    List (β × Term β) → Option (List Json)
  | [] => some []
  | (_, x) :: rest =>
    match pickVal c td g (.iri []) rdfFirst (outTerm name x) 0 (valCands name c td natives k x) with
    | none => none
    | some j => (listItems name c td natives k g rest).map (j :: ·)

/-- compact forms of a group all of whose values are terminal: `@type`, language map, list container,
    single unwrapped value; each validated as a whole member -/
def compactGroup (name : β → Str) (c : Ctx) (ch : Choices) (g : Option T) (s : T) (p : Str) (vs : List (Tree β))
    (n : Nat) (want : List Q × Nat) : Option (Str × Json) :=
  let k := ch.seed + salt p
  let typeForm : List (Str × Json) :=
    if ch.useType && p = rdfType then
      match mapOpt (fun (v : Tree β) => match v with
          | .term (.iri t) => (iriForms c true true k t).head?.map Json.str
          | .term (.bnode b) => some (Json.str (bnodeId name b))
          | _ => none) vs with
      | some js => [(kType, if js.length = 1 && k % 2 = 0 then js.headD .null else .arr js)]
      | none => []
    else []
  let langForm : List (Str × Json) :=
    match mapOpt langOf vs with
    | some ((l, x) :: rest) =>
      -- one member per tag, in order of first occurrence
      let tags := ((l, x) :: rest).map (·.1) |>.eraseDups
      let mp : Json := .obj (tags.map fun t =>
        let xs := (((l, x) :: rest).filter (·.1 == t)).map (fun e => Json.str e.2)
        (t, if xs.length = 1 then xs.headD .null else .arr xs))
      ((keyForms c k p).filter (fun e => e.2.cont = .language)).map (fun e => (e.1, mp))
    | _ => []
  let listForm : List (Str × Json) :=
    match vs with
    | [.list cells] =>
      ((keyForms c k p).filter (fun e => e.2.cont = .list)).filterMap (fun e =>
        (listItems name c e.2 ch.natives k g cells).map fun js => (e.1, Json.arr js))
    | _ => []
  let singleForm : List (Str × Json) :=
    match vs with
    | [.term t] =>
      ((keyForms c k p).filter (fun e => e.2.cont = .none || e.2.cont = .set)).filterMap (fun e =>
        (pickVal c e.2 g s p (outTerm name t) n (valCands name c e.2 ch.natives k t)).map fun j => (e.1, j))
    | _ => []
  (rotate k (typeForm ++ langForm ++ listForm ++ singleForm)).find? (fun m => memberOK c g s m.1 m.2 n want)

mutual
/-- a node object: members and the counter after it -/
def renderNode (name : β → Str) (c0 : Ctx) (ch : Choices) (loc : Option Json) (g : Option T) : Tree β → Nat → Rendered
  | .node id groups, n =>
    -- a local context on this node object (about every second one): the active context is extended for
    -- the node and everything embedded in it
    let lc : Option (Json × Ctx) :=
      if (ch.seed + n + groups.length) % 2 = 0 then loc.bind fun cj => (processLocal c0 cj).map fun c' => (cj, c')
      else none
    let c : Ctx := match lc with
      | some (_, c') => c'
      | none => c0
    let ctxM : List (Str × Json) := match lc with
      | some (cj, _) => [(kContext, cj)]
      | none => []
    let i := denId name id n
    let idM : Option (List (Str × Json)) :=
      match id with
      | .anon _ => some []
      | .iri v =>
        ((iriForms c false true (ch.seed + salt v) v).find? (fun s => decide (evalId c (some (.str s)) n = some (i.1, n)))).map
          fun s => [(kId, .str s)]
      | .named b =>
        if decide (evalId c (some (.str (bnodeId name b))) n = some (i.1, n)) then some [(kId, .str (bnodeId name b))] else none
    match idM with
    | none => none
    | some idM =>
      match renderGroups name c ch loc g i.1 groups i.2 with
      | none => none
      | some (ms, n') => some (ctxM ++ idM ++ ms, n')
  | _, _ => none

def renderGroups (name : β → Str) (c : Ctx) (ch : Choices) (loc : Option Json) (g : Option T) (s : T) :
    List (Str × List (Tree β)) → Nat → Rendered
  | [], n => some ([], n)
  | (p, vs) :: rest, n =>
    let want := denVals name g s p vs n
    let here : Option (Str × Json) :=
      match (if ch.compactGroups && vs.all isTerminal then compactGroup name c ch g s p vs n want else none) with
      | some m => some m
      | none =>
        -- generic form: a name without list/language container, an array of values
        match (keyForms c (ch.seed + salt p) p).find? (fun e => e.2.cont = .none || e.2.cont = .set) with
        | none => none
        | some (k, td) =>
          match renderVals name c ch loc td g s p vs n with
          | none => none
          | some (js, _) => some (k, .arr js)
    match here with
    | none => none
    | some (k, v) =>
      match renderGroups name c ch loc g s rest want.2 with
      | none => none
      | some (ms, n') => some ((k, v) :: ms, n')

/-- the values of one property, one JSON value each -/
def renderVals (name : β → Str) (c : Ctx) (ch : Choices) (loc : Option Json) (td : TermDef) (g : Option T) (s : T) (p : Str) :
    List (Tree β) → Nat → Option (List Json × Nat)
  | [], n => some ([], n)
  | v :: vs, n =>
    let here : Option (Json × Nat) :=
      match v with
      | .node id groups =>
        match renderNode name c ch loc g (.node id groups) n with
        | none => none
        | some (ms, n') => some (.obj ms, n')
      | .term t =>
        (pickVal c td g s p (outTerm name t) n (valCands name c td ch.natives (ch.seed + salt p) t)).map fun j => (j, n)
      | .list cells =>
        let want := denList name g s p cells n
        match listItems name c td ch.natives (ch.seed + salt p) g cells with
        | none => none
        | some js =>
          let j : Json := .obj [(kList, .arr js)]
          if decide (evalItem c td g s p j n = some want) then some (j, want.2) else none
    match here with
    | none => none
    | some (j, n1) =>
      match renderVals name c ch loc td g s p vs n1 with
      | none => none
      | some (js, n2) => some (j :: js, n2)
end

/-- the node objects of one graph -/
def renderNodes (name : β → Str) (c : Ctx) (ch : Choices) (loc : Option Json) (g : Option T) : List (Tree β) → Nat → Option (List Json × Nat)
  | [], n => some ([], n)
  | t :: ts, n =>
    match renderNode name c ch loc g t n with
    | none => none
    | some (ms, n1) =>
      match renderNodes name c ch loc g ts n1 with
      | none => none
      | some (js, n2) => some (.obj ms :: js, n2)

/-- the entries of the top-level array / `@graph`: node objects of default-graph blocks, one graph object
    per named block -/
def renderForest (name : β → Str) (c : Ctx) (ch : Choices) (loc : Option Json) : Forest β → Nat → Option (List Json × Nat)
  | [], n => some ([], n)
  | (none, ns) :: rest, n =>
    match renderNodes name c ch (if ch.shape = 2 then none else loc) none ns n with
    | none => none
    | some (js, n1) =>
      match renderForest name c ch loc rest n1 with
      | none => none
      | some (js', n2) => some (js ++ js', n2)
  | (some gn, ns) :: rest, n =>
    let gt := outTerm name gn
    let idS : Option Str :=
      match gn with
      | .iri v => (iriForms c false true (ch.seed + salt v) v).find? (fun s => decide (evalId c (some (.str s)) n = some (gt, n)))
      | .bnode b => if decide (evalId c (some (.str (bnodeId name b))) n = some (gt, n)) then some (bnodeId name b) else none
      | _ => none
    match idS with
    | none => none
    | some s =>
      match renderNodes name c ch loc (some gt) ns n with
      | none => none
      | some (js, n1) =>
        match renderForest name c ch loc rest n1 with
        | none => none
        | some (js', n2) => some (.obj [(kId, .str s), (kGraph, .arr js)] :: js', n2)

/-! ## Proposing a forest for a dataset (heuristic, validated by `forestOK`) -/

section Propose
variable [DecidableEq β]

def dedup {α : Type} [DecidableEq α] : List α → List α
  | [] => []
  | a :: l => a :: (dedup l).filter (· ≠ a)

/-- number of quads (of the whole dataset) with object `b`, plus uses of `b` as a graph name -/
def refCount (d : List (DQuad β)) (b : β) : Nat :=
  d.countP (fun q => q.t.o = .bnode b) + d.countP (fun q => q.g = some (.bnode b))

/-- graphs in which `b` is a subject -/
def subjGraphs (d : List (DQuad β)) (b : β) : List (Option (Term β)) :=
  dedup ((d.filter (fun q => q.t.s = .bnode b)).map (·.g))

/-- `b` may be embedded where it is referenced: referenced once, by a quad of graph `g` whose subject is not
    `b` itself, and described in `g` only -/
def embeddable (d : List (DQuad β)) (g : Option (Term β)) (b : β) : Bool :=
  refCount d b = 1 && d.any (fun q => q.g = g && q.t.o = .bnode b && q.t.s ≠ .bnode b) &&
  (subjGraphs d b).all (· = g)

/-- the cells of a well-formed list starting at `b` within graph `g`: every cell is embeddable and has
    exactly one `rdf:first` (a term that is not an embeddable node) and one `rdf:rest` -/
def listCellsFrom (d : List (DQuad β)) (g : Option (Term β)) : Nat → β → Option (List (β × Term β))
  | 0, _ => none
  | fuel + 1, b =>
    let mine := d.filter (fun q => q.g = g && q.t.s = .bnode b)
    if !embeddable d g b || mine.length ≠ 2 then none else
    match mine.find? (fun q => q.t.p = rdfFirst), mine.find? (fun q => q.t.p = rdfRest) with
    | some f, some r =>
      let itemOK := match f.t.o with
        | .bnode x => refCount d x ≠ 1
        | _ => true
      if !itemOK then none else
      if r.t.o = .iri rdfNil then some [(b, f.t.o)]
      else match r.t.o with
        | .bnode b' => (listCellsFrom d g fuel b').map ((b, f.t.o) :: ·)
        | _ => none
    | _, _ => none

/-- the node object for `id` in graph `g`; `fuel` bounds the nesting depth -/
def proposeNode (d : List (DQuad β)) (ch : Choices) (g : Option (Term β)) : Nat → NodeId β → Tree β
  | 0, id => .node id []
  | fuel + 1, id =>
    let mine := d.filter (fun q => q.g = g && q.t.s = id.subj)
    let preds := dedup (mine.map (·.t.p))
    .node id (preds.map fun p =>
      (p, ((mine.filter (fun q => q.t.p = p)).map (·.t.o)).map fun o =>
        match o with
        | .bnode b =>
          match (if ch.lists then listCellsFrom d g (d.length + 1) b else none) with
          | some cells => .list cells
          | none =>
            if ch.nest && embeddable d g b && fuel ≠ 0 then proposeNode d ch g fuel (.anon b)
            else .term o
        | _ => .term o))

/-- the node objects of graph `g`: every subject that is not embedded or a list cell -/
def proposeBlock (d : List (DQuad β)) (ch : Choices) (g : Option (Term β)) : Block β :=
  let subjects := dedup ((d.filter (fun q => q.g = g)).map (·.t.s))
  let hidden (s : Term β) : Bool :=
    match s with
    | .bnode b => (ch.nest || ch.lists) && embeddable d g b &&
        -- it is really embedded: nested, or a cell of a list that is written as a list
        (ch.nest || (d.any (fun q => q.g = g && q.t.s = s && q.t.p = rdfFirst)))
    | _ => false
  let tops := subjects.filter (fun s => !hidden s)
  (g, tops.map fun s =>
    let id : NodeId β :=
      match s with
      | .iri v => .iri v
      | .bnode b => if ch.anonTop && refCount d b = 0 && (subjGraphs d b).length ≤ 1 then .anon b else .named b
      | .lit _ _ _ => .iri []
    proposeNode d ch g (d.length + 1) id)

def propose (d : List (DQuad β)) (ch : Choices) : Forest β :=
  (dedup (d.map (·.g))).map (proposeBlock d ch)

/-- the trivial forest: one node object per quad, nothing anonymised -/
def trivialForest (d : List (DQuad β)) : Forest β :=
  d.map fun q =>
    (q.g, [Tree.node (match q.t.s with
                      | .iri v => NodeId.iri v
                      | .bnode b => NodeId.named b
                      | .lit _ _ _ => NodeId.iri []) [(q.t.p, [Tree.term q.t.o])]])

end Propose

/-! ## Documents -/

/-- the document around the entries of the top level -/
def wrap (ch : Choices) (ctx : Option Json) (F : Forest β) (entries : List Json) : Json :=
  match ctx, entries, ch.shape with
  | none, es, 0 => .arr es
  | some cj, [.obj ms], 2 => if F.all (fun b => b.1.isNone) then .obj ((kContext, cj) :: ms) else .obj [(kContext, cj), (kGraph, .arr entries)]
  | none, [.obj ms], 2 => if F.all (fun b => b.1.isNone) then .obj ms else .obj [(kGraph, .arr entries)]
  | some cj, es, _ => .obj [(kContext, cj), (kGraph, .arr es)]
  | none, es, _ => .obj [(kGraph, .arr es)]

/-- counter at which the entries start: an object with `@graph` first takes a blank node for itself -/
def startCounter (ch : Choices) (ctx : Option Json) (F : Forest β) (entries : List Json) : Nat :=
  match wrap ch ctx F entries with
  | .arr _ => 0
  | .obj ms => if hasKey kGraph ms && !hasKey kId ms && ms.all (fun m => m.1 == kContext || m.1 == kGraph) then 1 else 0
  | _ => 0

/-- render `F` under the context `cj` (already known to process to `c`), validate the result as a whole -/
def renderDoc (name : β → Str) (ch : Choices) (cj : Option Json) (c : Ctx) (loc : Option Json) (F : Forest β) : Option Json :=
  -- the entries do not depend on the counter they start from except through the numbering of fresh
  -- nodes, so both possible starts are tried
  [0, 1].findSome? fun n0 =>
    match renderForest name c ch loc F n0 with
    | none => none
    | some (entries, _) =>
      let doc := wrap ch cj F entries
      if startCounter ch cj F entries = n0 && doc.wf &&
         decide (toRdf ch.mode11 ch.base doc = some (denForest name F n0).1) then some doc else none

section Write
variable [DecidableEq β]

/-- `@id` string of a subject or graph name in expanded form -/
def flatId (name : β → Str) : Term β → Str
  | .iri v => v
  | .bnode b => bnodeId name b
  | .lit _ _ _ => []

/-- an object in expanded form: node reference or value object -/
def flatObj (name : β → Str) : Term β → Json
  | .iri v => .obj [(kId, .str v)]
  | .bnode b => .obj [(kId, .str (bnodeId name b))]
  | .lit lex _ (some l) => .obj [(kValue, .str lex), (kLanguage, .str l)]
  | .lit lex dt none => .obj [(kValue, .str lex), (kType, .str dt)]

/-- the node object for one triple -/
def flatNode (name : β → Str) (t : Triple β) : Json :=
  .obj [(kId, .str (flatId name t.s)), (t.p, .arr [flatObj name t.o])]

/-- the top-level entry for one quad -/
def flatEntry (name : β → Str) (q : DQuad β) : Json :=
  match q.g with
  | none => flatNode name q.t
  | some g => .obj [(kId, .str (flatId name g)), (kGraph, .arr [flatNode name q.t])]

/-- the expanded, flattened fallback: no context, one node object per quad -/
def writeFlat (name : β → Str) (d : List (DQuad β)) : Json := .arr (d.map (flatEntry name))

/-- step 1: the proposed forest if it validates, else the trivial one -/
def chooseForest (d : List (DQuad β)) (ch : Choices) : Forest β :=
  if forestOK (propose d ch) d then propose d ch else trivialForest d

/-- rendering under the inline context `cj` of the choices, if it processes -/
def renderCtx (name : β → Str) (ch : Choices) (loc : Option Json) (F : Forest β) : Option Json :=
  match ch.context with
  | none => none
  | some cj =>
    match processLocal (Ctx.initial ch.mode11 ch.base) cj with
    | none => none
    | some c => renderDoc name ch (some cj) c loc F

/-- step 2: with the inline context and the local contexts of the choices if they process and the
    rendering validates; else without local contexts; else without inline context (with, then without
    local contexts) -/
def renderWith (name : β → Str) (ch : Choices) (F : Forest β) : Option Json :=
  match renderCtx name ch ch.localContext F with
  | some doc => some doc
  | none =>
    match renderCtx name ch none F with
    | some doc => some doc
    | none =>
      match renderDoc name ch none (Ctx.initial ch.mode11 ch.base) ch.localContext F with
      | some doc => some doc
      | none => renderDoc name ch none (Ctx.initial ch.mode11 ch.base) none F

/-- steps 1 and 2; `none` = gave up -/
def tryWrite (name : β → Str) (d : List (DQuad β)) (ch : Choices) : Option (Json × Forest β) :=
  if forestOK (chooseForest d ch) d then (renderWith name ch (chooseForest d ch)).map fun doc => (doc, chooseForest d ch)
  else none

def write (name : β → Str) (d : List (DQuad β)) (ch : Choices) : Json :=
  match tryWrite name d ch with
  | some (doc, _) => doc
  | none => writeFlat name d

end Write

end RdfModel.JL
