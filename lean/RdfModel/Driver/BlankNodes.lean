/-
  Driver handler for component `bn` (property C14): one history per line.
    bn.run <op> <op> …      → one result token per operation, space separated
  Operation tokens (fields separated by `:`; arguments refer to earlier results):
    NF | NSF | NB:<a> | NS:<a>:x<hex> | NS:<a>:@r<k> (label = label result k) | NI:x<hex> | NU:x<hex> | GSP:<a>:<a> | GL:<a>:<a> | NM:<a> | MN:<a>:<a> | PR:<a> | EQ:<a>:<a>
    <a> ::= r<k> (result of operation k) | nil | d (rdf.DefaultBlankNodeFactory)
  Result tokens: fac | prov | noprov | map | n<class> | x<hex label> | true | false | unsupported | bad
  Node results are reported as equality classes under `termEquals` (first occurrence numbering);
  the k-th UUID drawn is rendered `<Uk>`. A reference of the wrong kind answers `ill-typed`.
-/
import RdfModel.Driver.Wire
import RdfModel.Model.BlankNodes
namespace RdfModel.Driver.BlankNodes
open RdfModel RdfModel.Wire RdfModel.BN

def parseArg (s : String) : Option Arg :=
  if s = "nil" then some .nil
  else if s = "d" then some .dflt
  else match s.toList with
    | 'r' :: ds => if ds.isEmpty then none else (String.ofList ds).toNat?.map Arg.res
    | _ => none

def parseOp (tok : String) : Option ROp :=
  match tok.splitOn ":" with
  | ["NF"] => some .newFactory
  | ["NSF"] => some .newStringFactory
  | ["NB", a] => (parseArg a).map .newBlankNode
  | ["NS", a, l] => do
    let a ← parseArg a
    match l.toList with
    | '@' :: 'r' :: ds => if ds.isEmpty then none else (String.ofList ds).toNat?.map (fun k => .newStringBlankNode a (.res k))
    | _ => (bytesTok l).map (fun b => .newStringBlankNode a (.lit b))
  | ["NI", f] => (bytesTok f).map .newInt64Provider
  | ["NU", f] => (bytesTok f).map .newUUIDProvider
  | ["GSP", a, b] => do pure (.getStringProvider (← parseArg a) (← parseArg b))
  | ["GL", a, b] => do pure (.getLabel (← parseArg a) (← parseArg b))
  | ["NM", a] => (parseArg a).map .newMapper
  | ["MN", a, b] => do pure (.mapNode (← parseArg a) (← parseArg b))
  | ["PR", a] => (parseArg a).map .propagate
  | ["EQ", a, b] => do pure (.termEquals (← parseArg a) (← parseArg b))
  | _ => none

def showOut (cls : Option Nat) : Out → String
  | .factory _ => "fac"
  | .prov _ => "prov"
  | .noProv => "noprov"
  | .mapper _ => "map"
  | .node _ => "n" ++ toString (cls.getD 0)
  | .label l => tokOfBytes l
  | .bool b => if b then "true" else "false"
  | .unsupported => "unsupported"
  | .bad => "bad"

def handle (op : String) (args : List String) : Option String :=
  match op with
  | "run" => do
    let rops ← args.mapM parseOp
    match runRefs driverU (init 0) [] rops with
    | none => pure "ill-typed"
    | some tr =>
      let outs := tr.map Prod.snd
      let cls := classify [] outs
      pure (String.intercalate " " ((outs.zip cls).map (fun (o, c) => showOut c o)))
  | _ => none

end RdfModel.Driver.BlankNodes
