package main

// W3C corpus: every `@context` value occurring (at any depth) in the input of every test of the two
// W3C suites shipped in /repo, and every expandContext option file.

import (
	"archive/tar"
	"compress/gzip"
	"encoding/json"
	"fmt"
	"io"
	"os"
	"path/filepath"
	"sort"
	"strings"

	"verifharness/vh"
)

const w3cPrefix = "https://w3c.github.io/json-ld-api/tests/"

type w3cTest struct {
	ID     string `json:"@id"`
	Input  string `json:"input"`
	Option struct {
		Base           string `json:"base"`
		ProcessingMode string `json:"processingMode"`
		SpecVersion    string `json:"specVersion"`
		ExpandContext  string `json:"expandContext"`
	} `json:"option"`
}

type corpusCtx struct {
	id   string
	doc  string
	text string
	mode string
	base *string
}

func loadTar(rel, manifest string) (map[string][]byte, []w3cTest, error) {
	f, err := os.Open(filepath.Join(repoDir(), rel))
	if err != nil {
		return nil, nil, err
	}
	defer f.Close()
	gz, err := gzip.NewReader(f)
	if err != nil {
		return nil, nil, err
	}
	files := map[string][]byte{}
	tr := tar.NewReader(gz)
	for {
		hd, err := tr.Next()
		if err == io.EOF {
			break
		}
		if err != nil {
			return nil, nil, err
		}
		if hd.Typeflag != tar.TypeReg {
			continue
		}
		b, err := io.ReadAll(tr)
		if err != nil {
			return nil, nil, err
		}
		files[strings.TrimPrefix(hd.Name, "./")] = b
	}
	var m struct {
		Sequence []w3cTest `json:"sequence"`
	}
	if err := json.Unmarshal(files[manifest], &m); err != nil {
		return nil, nil, fmt.Errorf("%s: %v", manifest, err)
	}
	return files, m.Sequence, nil
}

// contextsOf: the values of every `@context` member, outermost first, in document order of the
// (sorted) member names.
func contextsOf(v any, out *[]any) {
	switch t := v.(type) {
	case map[string]any:
		if c, ok := t["@context"]; ok {
			*out = append(*out, c)
		}
		for _, k := range vh.SortedKeys(t) {
			contextsOf(t[k], out)
		}
	case []any:
		for _, x := range t {
			contextsOf(x, out)
		}
	}
}

var corpusCache []corpusCtx

func (h *harness) corpusContexts() []corpusCtx {
	if corpusCache != nil {
		return corpusCache
	}
	var out []corpusCtx
	for _, suite := range []struct{ rel, manifest, tag string }{
		{"encoding/jsonld/testsuites/w3c-github-json-ld-api-toRdf/testdata.tar.gz", "toRdf-manifest.jsonld", "toRdf"},
		{"encoding/jsonld/internal/jsonldinternal/testsuites/w3c-github-json-ld-api-expand/testdata.tar.gz", "expand-manifest.jsonld", "expand"},
	} {
		files, tests, err := loadTar(suite.rel, suite.manifest)
		if err != nil {
			h.rep.Add(vh.Case{Kind: "disagreement", Detail: "cannot read the W3C corpus " + suite.rel + ": " + err.Error()})
			continue
		}
		sort.Slice(tests, func(i, j int) bool { return tests[i].ID < tests[j].ID })
		for _, t := range tests {
			raw, ok := files[t.Input]
			if !ok {
				continue
			}
			base := t.Option.Base
			if base == "" {
				base = w3cPrefix + t.Input
			}
			mode := "json-ld-1.1"
			switch {
			case t.Option.ProcessingMode != "":
				mode = t.Option.ProcessingMode
			case t.Option.SpecVersion == "json-ld-1.0":
				mode = "json-ld-1.0"
			}
			var ctxs []any
			if t.Option.ExpandContext != "" {
				var ec any
				if json.Unmarshal(files[t.Option.ExpandContext], &ec) == nil {
					if m, ok := ec.(map[string]any); ok {
						if c, ok := m["@context"]; ok {
							ec = c
						}
					}
					ctxs = append(ctxs, ec)
				}
			}
			var doc any
			if json.Unmarshal(raw, &doc) != nil {
				h.rep.Count("corpus:input-not-json")
				continue
			}
			contextsOf(doc, &ctxs)
			for i, c := range ctxs {
				b := base
				out = append(out, corpusCtx{id: fmt.Sprintf("%s%s#%d", suite.tag, t.ID, i), doc: suite.tag + t.ID, text: jtext(c), mode: mode, base: &b})
			}
		}
	}
	corpusCache = out
	return out
}

func (h *harness) corpus() {
	ccs := h.corpusContexts()
	h.rep.Hist["corpus:contexts"] = len(ccs)
	distinct := map[string]bool{}
	byDoc := map[string][]corpusCtx{}
	var docs []string
	for _, cc := range ccs {
		distinct[cc.text] = true
		if _, ok := byDoc[cc.doc]; !ok {
			docs = append(docs, cc.doc)
		}
		byDoc[cc.doc] = append(byDoc[cc.doc], cc)
	}
	h.rep.Hist["corpus:distinct-contexts"] = len(distinct)
	for _, cc := range ccs {
		var v any
		json.Unmarshal([]byte(cc.text), &v)
		for _, mode := range []string{cc.mode, "json-ld-1.0", "json-ld-1.1", "json-ld-1.2"} {
			if mode == cc.mode && mode != "json-ld-1.1" && mode != "json-ld-1.0" {
				continue
			}
			c := hcase{Tag: "corpus " + cc.id, Mode: mode, OrigBase: cc.base, Steps: []step{{Propagate: true, Text: cc.text}}}
			c.Queries = h.battery([]any{v}, 40)
			h.run(c)
			if mode == cc.mode {
				// as a type-scoped context (propagate false) and without a base
				c2 := hcase{Tag: "corpus-scoped " + cc.id, Mode: mode, Steps: []step{{Propagate: false, OverrideProtected: true, Text: cc.text}}}
				c2.Queries = h.battery([]any{v}, 12)
				h.run(c2)
			}
		}
	}
	// the contexts of one document, chained in document order (windows of up to four)
	for _, d := range docs {
		cs := byDoc[d]
		if len(cs) < 2 {
			continue
		}
		for start := 0; start+1 < len(cs); start++ {
			end := start + 4
			if end > len(cs) {
				end = len(cs)
			}
			c := hcase{Tag: "corpus-chain " + d, Mode: cs[0].mode, OrigBase: cs[0].base}
			var vs []any
			for _, cc := range cs[start:end] {
				var v any
				json.Unmarshal([]byte(cc.text), &v)
				vs = append(vs, v)
				c.Steps = append(c.Steps, step{Propagate: true, Text: cc.text})
			}
			c.Queries = h.battery(vs, 24)
			h.run(c)
		}
	}
	h.rep.Exhaustive = append(h.rep.Exhaustive, fmt.Sprintf("every @context value (any depth) and expandContext of the %d W3C toRdf/expand test inputs shipped in /repo: %d values (%d distinct), each alone under its manifest mode and under json-ld-1.0, json-ld-1.1 and an unknown mode, as a non-propagated context, and chained with the other contexts of its document", len(docs), len(ccs), len(distinct)))
}
