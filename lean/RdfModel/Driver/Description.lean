/-
  Line-protocol handler for Model.Description (component `desc`).

  Tokens
    triple   S,P,O          (term tokens of Driver/Wire.lean; P is an `I<hex>` token)
    quad     S,P,O,G        (G = `-` for the default graph)
    list     items joined by `;`, the empty list is `-`
    opts     two characters `<useAnon><inline>` of 0/1
  Ops (every answer starts with `ok:` so that an empty result is still a non-empty line)
    desc.build    <triples>                 → subjects (insertion order) `|` label=refcount …
    desc.export   <opts> <triples>          → resources joined by `;`   | `diverges`
    desc.exportone <opts> <subject> <triples> → one resource             | `diverges`
    desc.flatten  <opts> <triples>          → per resource `S,P,O;…`, resources joined by `|` | `diverges`
    desc.dexport  <opts> <quads>            → `G>resource` joined by `;`
    desc.dflatten <opts> <quads>            → per resource quads, joined by `|`
    desc.acyclic1 <triples>                 → true/false (C17.Acyclic1), then the two finding predicates
    desc.shared   <opts> <quads>            → true/false (C17.NoSharedAnonymized)
    desc.list     <P> <terms>               → statement tree `|` its flattening under subject `<urn:s>`
  The same for the export after patch fix-c17-export-cycles (model functions …V); `<hint>` is a list of
  subject terms: the second loop of ExportResources iterates `hint ++ (the other subjects)` (the harness
  passes the once-referenced blank-node subjects the Go run exported as resources, in Go's order; the
  first loop's order does not influence the result beyond the order of the resources):
    desc.exportv   <opts> <hint> <triples>      desc.flattenv <opts> <hint> <triples>
    desc.exportonev <opts> <subject> <triples>
    desc.dexportv  <opts> <ghint> <quads>       desc.dflattenv <opts> <ghint> <quads>
  with `<ghint>` a list of `G>S` pairs (graph-name token or `-`, then the subject token).
  Histories on one builder (Builder.run / Builder.hout):
    desc.hist <script> <hint> <triples0> <triples1>   → ok:<n₁,n₂,…>#<resources of the last complete export>
  `<script>` is a `;`-list of steps  a0 | a1 (Add batch 0/1)  p<opts>.<k> | w<opts>.<k> (export abandoned
  after k resources: break / writer error)  f<opts> (complete export); nᵢ is the number of resources the
  i-th export step handed over. `<hint>` orders the second loop of the last complete export.
  Export uses insertion order as iteration order and fuel `|T|+1`; the harness sorts what came out of a
  Go map. Resource syntax:  S(term){stmts}  A{stmts}  N{stmts};  stmt: o(P,term)  a(P){stmts}; stmts
  joined by `,`. Fresh blank nodes print as `F<n>`.
-/
import RdfModel.Driver.Wire
import RdfModel.Model.Description
import RdfModel.Props.C17Defs
namespace RdfModel.Driver.Description
open RdfModel RdfModel.Wire RdfModel.Desc

abbrev L := List Nat

def splitList (s : String) : List String := if s = "-" then [] else s.splitOn ";"

def parseIri (s : String) : Option (List Nat) :=
  match parseTerm s with
  | some (some (.iri v)) => some v
  | _ => none

def parseTriple (s : String) : Option (Triple L) :=
  match s.splitOn "," with
  | [a, b, c] => do
    let a ← (← parseTerm a)
    let b ← parseIri b
    let c ← (← parseTerm c)
    pure ⟨a, b, c⟩
  | _ => none

def parseQuad (s : String) : Option (DQuad L) :=
  match s.splitOn "," with
  | [a, b, c, g] => do
    let a ← (← parseTerm a)
    let b ← parseIri b
    let c ← (← parseTerm c)
    let g ← parseTerm g
    pure ⟨⟨a, b, c⟩, g⟩
  | _ => none

def parseTriples (s : String) : Option (List (Triple L)) := (splitList s).mapM parseTriple
def parseQuads (s : String) : Option (List (DQuad L)) := (splitList s).mapM parseQuad

def parseOpts (s : String) : Option Opts :=
  match s.toList with
  | [u, i] => if (u = '0' ∨ u = '1') ∧ (i = '0' ∨ i = '1') then some ⟨u = '1', i = '1'⟩ else none
  | _ => none

def showIri (p : List Nat) : String := "I" ++ hexRunes p

def showBN : Term (BN L) → String
  | .bnode (.orig b) => "B" ++ hexRunes b
  | .bnode (.fresh n) => "F" ++ toString n
  | .iri v => "I" ++ hexRunes v
  | .lit l d t => showTerm (.lit l d t)

mutual
def showStmt : Stmt L → String
  | .obj p o => "o(" ++ showIri p ++ "," ++ showTerm o ++ ")"
  | .anon p l => "a(" ++ showIri p ++ "){" ++ String.intercalate "," (showStmts l) ++ "}"
def showStmts : List (Stmt L) → List String
  | [] => []
  | x :: xs => showStmt x :: showStmts xs
end

def showResource : Resource L → String
  | .subject (some s) st => "S(" ++ showTerm s ++ "){" ++ String.intercalate "," (showStmts st) ++ "}"
  | .subject none st => "N{" ++ String.intercalate "," (showStmts st) ++ "}"
  | .anon st => "A{" ++ String.intercalate "," (showStmts st) ++ "}"

def showTripleBN (t : Triple (BN L)) : String := showBN t.s ++ "," ++ showIri t.p ++ "," ++ showBN t.o

def showQuadBN (q : DQuad (BN L)) : String :=
  showTripleBN q.t ++ "," ++ (match q.g with | some g => showBN g | none => "-")

/-- flatten resource by resource, threading the counter, keeping the groups apart -/
def groups : List (Resource L) → Nat → List (List (Triple (BN L)))
  | [], _ => []
  | r :: rs, n => let a := r.newTriples n; a.1 :: groups rs a.2

def dgroups : List (DResource L) → Nat → List (List (DQuad (BN L)))
  | [], _ => []
  | (g, r) :: rs, n =>
    let a := newQuadsList [(g, r)] n
    a.1 :: dgroups rs a.2

def b2s (b : Bool) : String := if b then "true" else "false"

def parseTerms (s : String) : Option (List (Term L)) :=
  (splitList s).mapM (fun x => do let t ← (← parseTerm x); pure t)

/-- iteration order of the second loop: the hinted subjects first -/
def ord2Of (hint subjects : List (Term L)) : List (Term L) :=
  hint.filter (fun s => subjects.contains s) ++ subjects.filter (fun s => !hint.contains s)

def parseGHint (s : String) : Option (List (Option (Term L) × Term L)) :=
  (splitList s).mapM (fun x =>
    match x.splitOn ">" with
    | [g, t] => do
      let g ← parseTerm g
      let t ← (← parseTerm t)
      pure (g, t)
    | _ => none)

inductive Step where
  | add (i : Nat)
  | exp (opts : Opts) (take : Option Nat)

def parseStep (x : String) : Option Step :=
  match x.toList with
  | ['a', '0'] => some (.add 0)
  | ['a', '1'] => some (.add 1)
  | 'f' :: r => (parseOpts (String.ofList r)).map (fun o => .exp o none)
  | c :: r =>
    if c = 'p' ∨ c = 'w' then
      match (String.ofList r).splitOn "." with
      | [o, k] => do
        let o ← parseOpts o
        let k ← k.toNat?
        pure (.exp o (some k))
      | _ => none
    else none
  | _ => none

/-- run a script on the model: the numbers handed over by the export steps, and the last complete export -/
def runScript (hint : List (Term L)) (b0 b1 : List (Triple L)) (fuel : Nat) :
    List Step → Builder L → List Nat → Option (List (Resource L)) → Option (List Nat × Option (List (Resource L)))
  | [], _, ns, last => some (ns.reverse, last)
  | .add i :: rest, B, ns, last =>
    runScript hint b0 b1 fuel rest (B.hstep (.add (if i = 0 then b0 else b1))) ns last
  | .exp o take :: rest, B, ns, last =>
    let st : HStep L := .exportRs o B.subjects (ord2Of hint B.subjects) take
    match B.hout fuel st with
    | none => none
    | some rs => runScript hint b0 b1 fuel rest (B.hstep st) (rs.length :: ns) (if take.isNone then some rs else last)

def dexportV (opts : Opts) (gh : List (Option (Term L) × Term L)) (Q : List (DQuad L)) : Option (List (DResource L)) :=
  let D := dbuild Q
  D.exportResourcesV opts D.graphNames (fun g => (D.builder g).subjects)
    (fun g => ord2Of ((gh.filter (fun e => e.1 = g)).map (·.2)) (D.builder g).subjects) (Q.length + 1)

def handle (op : String) (args : List String) : Option String :=
  match op, args with
  | "build", [ts] => do
    let T ← parseTriples ts
    let B := build T
    pure ("ok:" ++ String.intercalate ";" (B.subjects.map showTerm) ++ "|" ++
      String.intercalate ";" (B.refs.map (fun e => hexRunes e.1 ++ "=" ++ toString e.2)))
  | "export", [o, ts] => do
    let opts ← parseOpts o
    let T ← parseTriples ts
    let B := build T
    match B.exportResources opts B.subjects (T.length + 1) with
    | some rs => pure ("ok:" ++ String.intercalate ";" (rs.map showResource))
    | none => pure "diverges"
  | "exportone", [o, s, ts] => do
    let opts ← parseOpts o
    let s ← (← parseTerm s)
    let T ← parseTriples ts
    match (build T).exportResource opts (T.length + 1) s with
    | some r => pure ("ok:" ++ showResource r)
    | none => pure "diverges"
  | "flatten", [o, ts] => do
    let opts ← parseOpts o
    let T ← parseTriples ts
    let B := build T
    match B.exportResources opts B.subjects (T.length + 1) with
    | some rs => pure ("ok:" ++ String.intercalate "|"
        ((groups rs 0).map (fun g => String.intercalate ";" (g.map showTripleBN))))
    | none => pure "diverges"
  | "dexport", [o, qs] => do
    let opts ← parseOpts o
    let Q ← parseQuads qs
    let D := dbuild Q
    match D.exportResources opts D.graphNames (fun g => (D.builder g).subjects) (Q.length + 1) with
    | some rs => pure ("ok:" ++ String.intercalate ";"
        (rs.map (fun e => showOptTerm e.1 ++ ">" ++ showResource e.2)))
    | none => pure "diverges"
  | "dflatten", [o, qs] => do
    let opts ← parseOpts o
    let Q ← parseQuads qs
    let D := dbuild Q
    match D.exportResources opts D.graphNames (fun g => (D.builder g).subjects) (Q.length + 1) with
    | some rs => pure ("ok:" ++ String.intercalate "|"
        ((dgroups rs 0).map (fun g => String.intercalate ";" (g.map showQuadBN))))
    | none => pure "diverges"
  | "exportv", [o, h, ts] => do
    let opts ← parseOpts o
    let hint ← parseTerms h
    let T ← parseTriples ts
    let B := build T
    match B.exportResourcesV opts B.subjects (ord2Of hint B.subjects) (T.length + 1) with
    | some rs => pure ("ok:" ++ String.intercalate ";" (rs.map showResource))
    | none => pure "diverges"
  | "exportonev", [o, s, ts] => do
    let opts ← parseOpts o
    let s ← (← parseTerm s)
    let T ← parseTriples ts
    match (build T).exportResourceV1 opts (T.length + 1) s with
    | some r => pure ("ok:" ++ showResource r)
    | none => pure "diverges"
  | "flattenv", [o, h, ts] => do
    let opts ← parseOpts o
    let hint ← parseTerms h
    let T ← parseTriples ts
    let B := build T
    match B.exportResourcesV opts B.subjects (ord2Of hint B.subjects) (T.length + 1) with
    | some rs => pure ("ok:" ++ String.intercalate "|"
        ((groups rs 0).map (fun g => String.intercalate ";" (g.map showTripleBN))))
    | none => pure "diverges"
  | "dexportv", [o, h, qs] => do
    let opts ← parseOpts o
    let gh ← parseGHint h
    let Q ← parseQuads qs
    match dexportV opts gh Q with
    | some rs => pure ("ok:" ++ String.intercalate ";"
        (rs.map (fun e => showOptTerm e.1 ++ ">" ++ showResource e.2)))
    | none => pure "diverges"
  | "dflattenv", [o, h, qs] => do
    let opts ← parseOpts o
    let gh ← parseGHint h
    let Q ← parseQuads qs
    match dexportV opts gh Q with
    | some rs => pure ("ok:" ++ String.intercalate "|"
        ((dgroups rs 0).map (fun g => String.intercalate ";" (g.map showQuadBN))))
    | none => pure "diverges"
  | "hist", [sc, h, t0, t1] => do
    let steps ← (splitList sc).mapM parseStep
    let hint ← parseTerms h
    let b0 ← parseTriples t0
    let b1 ← parseTriples t1
    match runScript hint b0 b1 (b0.length + b1.length + 1) steps Builder.empty [] none with
    | some (ns, last) => pure ("ok:" ++ String.intercalate "," (ns.map toString) ++ "#" ++
        String.intercalate ";" ((last.getD []).map showResource))
    | none => pure "diverges"
  | "acyclic1", [ts] => do
    let T ← parseTriples ts
    pure ("ok:" ++ b2s (decide (C17.Acyclic1 T)) ++ "," ++ b2s (C17.selfReferenceRefcount1 T) ++ "," ++
      b2s (C17.cycleAllRefcount1 T))
  | "shared", [o, qs] => do
    let opts ← parseOpts o
    let Q ← parseQuads qs
    pure ("ok:" ++ b2s (decide (C17.NoSharedAnonymized Q opts)))
  | "list", [p, vs] => do
    let p ← parseIri p
    let vs ← (splitList vs).mapM (fun s => do let t ← (← parseTerm s); pure t)
    let st : Stmt L := listStatement p vs
    let r : Resource L := .subject (some (.iri (asc "urn:s"))) [st]
    pure ("ok:" ++ showStmt st ++ "|" ++ String.intercalate ";" ((r.newTriples 0).1.map showTripleBN))
  | _, _ => none

end RdfModel.Driver.Description
