package main

// hist.go: histories over the WHOLE exported API of iri.ParsedIRI / iri.BaseIRI on one value — the way the
// decoders use it: ParseIRI, then DropFragment (encoding/htmlrdfa on the document location and <base href>,
// encoding/rdfxml on the empty same-document reference), then String / use as a base for Parse /
// ResolveReference, NewBaseIRI on top of it, URL() copies in between.
//
//	D      cur.DropFragment()
//	U      u := cur.URL(); *u overwritten                   (the copy must not alias cur)
//	P:<r>  cur = cur.Parse(r)
//	Q:<r>  x := ParseIRI(r); x.DropFragment(); cur = cur.ResolveReference(x)
//	V:<b>  x := ParseIRI(b); cur = x.ResolveReference(cur)   (a history result used as the REFERENCE)
//	C:<r>  c := cur.Parse(r); c.DropFragment(); cur stays    (mutating a derived value must not alias cur)
//	B:<r>  b := NewBaseIRI(cur): b.String(), b.IsAbs(), the five indices; cur = b.Parse(r) / b.ResolveReference(ParseIRI(r))
//
// Two judgements:
//   - part wrap (C12W): `piri.hist` — every step's String(), private flags, every url.URL field, IsAbs and the
//     BaseIRI indices against the Lean model (Model/ParsedIRI.lean runHist), exact agreement;
//   - part spec (C12): String() of every step against RFC 3986 iterated at string level: Parse / ResolveReference =
//     5.2 resolve, DropFragment = 5.3 recomposition without the fragment component (`piri.dropspec` runs the Lean
//     spec; rfcDropFragment below is the harness rendering). A step that deviates ends the history and is classified
//     like a single pair plus the chain-only class chain-sticky-empty-fragment, whose predicate is unchanged: "the
//     base or an earlier reference ended with '#' and this step's reference has no fragment" — where the list of
//     earlier strings restarts at a DropFragment (which clears the private flag: that is what the code does and what
//     Props/C12WrapDrop.lean proves about the model), so a '#' that survives a DropFragment is NOT excused.
//
// The exported API itself is pinned by the T2 fact RdfModel.C12.gen_parsedIRI_api (go/ast listing of iri/parsed_iri.go
// and iri/base_iri.go against a hand-written expectation): a new exported method breaks the build until it is driven here.

import (
	"fmt"
	"net/url"
	"strings"

	"verifharness/vh"

	"github.com/dpb587/rdfkit-go/iri"
)

type hop struct {
	k   byte
	arg string
}

func (o hop) tok() string {
	if o.k == 'D' || o.k == 'U' {
		return string(o.k)
	}
	return string(o.k) + ":" + vh.XS(o.arg)
}

func hopOfTok(t string) (hop, bool) {
	if t == "D" || t == "U" {
		return hop{k: t[0]}, true
	}
	if len(t) >= 3 && t[1] == ':' && strings.IndexByte("PQVCB", t[0]) >= 0 {
		if b, err := vh.UnX(t[2:]); err == nil {
			return hop{k: t[0], arg: string(b)}, true
		}
	}
	return hop{}, false
}

func histLine(op, b0 string, ops []hop) string {
	toks := []string{vh.XS(b0)}
	for _, o := range ops {
		toks = append(toks, o.tok())
	}
	return op + " " + strings.Join(toks, " ")
}

func rfcDropFragment(s string) string {
	p := rfcSplit(s)
	p.hasFragment, p.fragment = false, ""
	return rfcRecompose(p)
}

// histApply: one step on the real code. next == nil: the step failed with `fail` ("err-ref <class>").
func histApply(cur *iri.ParsedIRI, o hop) (next *iri.ParsedIRI, extra string, fail string) {
	switch o.k {
	case 'D':
		cur.DropFragment()
		return cur, "", ""
	case 'U':
		u := cur.URL()
		*u = url.URL{Scheme: "zz", Host: "mut", Path: "/mut", RawPath: "/m%75t", ForceQuery: true, Fragment: "mut", RawFragment: "m%75t"}
		return cur, "", ""
	case 'P':
		n, err := cur.Parse(o.arg)
		if err != nil {
			return nil, "", "err-ref " + errClass(err)
		}
		return n, "", ""
	case 'Q':
		x, err := iri.ParseIRI(o.arg)
		if err != nil {
			return nil, "", "err-ref " + errClass(err)
		}
		x.DropFragment()
		return cur.ResolveReference(x), "", ""
	case 'V':
		x, err := iri.ParseIRI(o.arg)
		if err != nil {
			return nil, "", "err-ref " + errClass(err)
		}
		return x.ResolveReference(cur), "", ""
	case 'C':
		c, err := cur.Parse(o.arg)
		if err != nil {
			return nil, "", "err-ref " + errClass(err)
		}
		c.DropFragment()
		return cur, "", ""
	case 'B':
		b := iri.NewBaseIRI(cur)
		ix := b.VerifIndices()
		extra = fmt.Sprintf(",%d/%d/%d/%d/%d", ix[0], ix[1], ix[2], ix[3], ix[4])
		if b.String() != cur.String() || b.IsAbs() != (ix[0] != -1) || b.IsAbs() != cur.IsAbs() {
			extra += ",BaseIRI.String/IsAbs-inconsistent"
		}
		var n *iri.ParsedIRI
		if len(o.arg)%2 == 0 {
			var err error
			n, err = b.Parse(o.arg)
			if err != nil {
				return nil, "", "err-ref " + errClass(err)
			}
		} else {
			x, err := iri.ParseIRI(o.arg)
			if err != nil {
				return nil, "", "err-ref " + errClass(err)
			}
			n = b.ResolveReference(x)
		}
		return n, extra, ""
	}
	return nil, "", "err-ref bad-op"
}

func wStateH(p *iri.ParsedIRI) string { return wState(p) + "," + vh.B01(p.IsAbs()) }

func wHist(base string, ops []hop) (res string) {
	steps := []string{}
	defer func() {
		if recover() != nil {
			res = strings.Join(append(steps, "panic"), ";")
		}
	}()
	cur, err := iri.ParseIRI(base)
	if err != nil {
		return "err-base " + errClass(err)
	}
	for _, o := range ops {
		next, extra, fail := histApply(cur, o)
		if next == nil {
			steps = append(steps, fail)
			break
		}
		steps = append(steps, "ok "+wStateH(next)+extra)
		cur = next
	}
	return strings.Join(steps, ";")
}

func (g *run) hist(b0 string, ops []hop) {
	for _, o := range ops {
		g.rep.Count("hist:op-" + string(o.k))
	}
	if doWrap() {
		got := wHist(b0, ops)
		args := []string{}
		for _, o := range ops {
			args = append(args, o.tok())
		}
		g.add("w-hist", histLine("piri.hist", b0, ops), got, b0, strings.Join(args, " "), strings.Count(got, "ok ") > 1)
		g.rep.Count(fmt.Sprintf("w-hist:steps-ok-%d", strings.Count(got, "ok ")))
	}
	if doSpec() {
		g.histSpec(b0, ops)
	}
}

// histSpec: String() of every step against RFC 3986 at string level (see the header).
func (g *run) histSpec(b0 string, ops []hop) {
	op := histLine("iri.hist", b0, ops)
	if *nomodel {
		g.rep.Evaluations++
	} else {
		g.rep.Eval(op, len(ops) > 1)
	}
	g.rep.Count(fmt.Sprintf("hist:length-%d", len(ops)))
	defer func() {
		if p := recover(); p != nil {
			g.violation(op, fmt.Sprintf("panic in history %q %s: %v", b0, op, p), b0, "", "panic", "")
		}
	}()
	if !validIRIRef(b0, true) {
		return
	}
	cur, err := iri.ParseIRI(b0)
	if err != nil {
		return // judged by the single-IRI oracle
	}
	if got := cur.String(); got != b0 {
		return // the base itself is inside a single-IRI deviation (judged by the parse oracle)
	}
	spec := b0
	earlier := []string{b0} // the strings whose trailing '#' set the private flag of cur
	for k, o := range ops {
		hist := fmt.Sprintf("history %q, step %d (%s) on %q", b0, k+1, o.tok(), spec)
		var want, base, ref string // the step as a (base, reference) pair of the spec; D/U/C: no pair
		isPair := false
		var earlierNext []string
		contrib := earlier // the strings whose trailing '#' may have set a private flag taking part in this step
		switch o.k {
		case 'D':
			want = rfcDropFragment(spec)
			switch p := rfcSplit(spec); {
			case p.hasFragment && p.fragment == "":
				g.rep.Count("hist:drop-on-empty-fragment")
			case p.hasFragment:
				g.rep.Count("hist:drop-on-non-empty-fragment")
			default:
				g.rep.Count("hist:drop-without-fragment")
			}
			// the Lean rendering of the same spec function, checked against the harness rendering in flush
			g.add("dropspec", "piri.dropspec "+vh.XS(spec), vh.XS(want), spec, "", rfcSplit(spec).hasFragment)
			earlierNext = []string{want}
		case 'U', 'C':
			want = spec
			earlierNext = earlier
			if o.k == 'C' && !validIRIRef(o.arg, false) {
				g.rep.Count("hist:ended-invalid-input")
				return
			}
		case 'P', 'B':
			isPair, base, ref = true, spec, o.arg
			earlierNext = append(append([]string{}, earlier...), o.arg)
		case 'Q':
			if !validIRIRef(o.arg, false) {
				g.rep.Count("hist:ended-invalid-input")
				return
			}
			isPair, base, ref = true, spec, rfcDropFragment(o.arg)
			earlierNext = append(append([]string{}, earlier...), ref)
		case 'V':
			isPair, base, ref = true, o.arg, spec
			// cur is the reference: its private flag rides along (earlier), the new base contributes its own '#'
			contrib = append(append([]string{}, earlier...), o.arg)
			earlierNext = contrib
		}
		var extra []string
		if isPair {
			if !validIRIRef(base, true) || !validIRIRef(ref, false) {
				g.rep.Count("hist:ended-invalid-input")
				return
			}
			want = rfcResolve(base, ref)
			if t := rfcResolveParts(base, ref); !t.hasAuthority && strings.HasPrefix(t.path, "//") {
				g.rep.Count("hist:ended-ambiguous-target")
				return
			}
			if chainSticky(contrib, ref) {
				extra = append(extra, "chain-sticky-empty-fragment")
			}
			// the two renderings of 5.2 against each other (flush, kind "resolve")
			g.add("resolve", "iri.resolve "+vh.XS(base)+" "+vh.XS(ref), goResolve(base, ref), base, ref, false)
		}
		next, _, fail := histApply(cur, o)
		got := fail
		if next != nil {
			got = vh.XS(next.String())
		}
		if got != vh.XS(want) {
			g.rep.Count(fmt.Sprintf("hist:ended-deviation-step-%d", k+1))
			detail := fmt.Sprintf("%s: got %s, RFC 3986 gives %q", hist, show(got), want)
			if isPair {
				g.violationX(op, detail, base, ref, got, vh.XS(want), extra)
			} else if o.k == 'C' && next == nil {
				// the derived value could not be built: Parse(spec, arg) failed, judged like the pair
				g.violationX(op, detail, spec, o.arg, got, vh.XS(want), nil)
			} else {
				// DropFragment / URL() / a derived value: no (base, reference) class can excuse a deviation
				g.rep.Count("violation")
				g.rep.Add(vh.Case{Kind: "violation", Op: op, Go: got, Model: vh.XS(want), Detail: detail + " (DropFragment = recomposition without the fragment component; no known class applies to this step)"})
			}
			return
		}
		g.rep.Count("hist:step-ok")
		// a history result must behave like the freshly parsed string it prints as
		freshKnownBad := false
		for _, c := range classify("iri.parse", want, "") {
			if _, ok := g.known[c]; ok {
				freshKnownBad = true
			}
		}
		if freshKnownBad {
			g.rep.Count("hist:state-check-skipped-known-class")
		} else if fresh, err := iri.ParseIRI(want); err == nil {
			ff1, _ := iri.VerifFlags(next)
			ff2, _ := iri.VerifFlags(fresh)
			stickyNow := false
			for _, e := range earlierNext {
				stickyNow = stickyNow || strings.HasSuffix(e, "#")
			}
			if effOpaque(next) != effOpaque(fresh) || (ff1 != ff2 && !(stickyNow && ff1 && !ff2 && g.known["chain-sticky-empty-fragment"].Key != "")) {
				g.rep.Add(vh.Case{Kind: "disagreement", Op: op, Go: fmt.Sprintf("opaque=%v forceFragment=%v", effOpaque(next), ff1),
					Model:  fmt.Sprintf("opaque=%v forceFragment=%v", effOpaque(fresh), ff2),
					Detail: hist + ": private state of the history result differs from ParseIRI of its String() " + fmt.Sprintf("%q", want)})
			}
		}
		cur, spec, earlier = next, want, earlierNext
	}
}

// histCorpus: always run first. The first two are what encoding/htmlrdfa (document location ending in '#', then
// base for everything) and encoding/rdfxml (rdf:about="" under a base ending in '#') do.
var histCorpus = []struct {
	b0  string
	ops []hop
}{
	{"http://example.org/dir/doc#", []hop{{'D', ""}, {'P', "other"}, {'P', "../x?y"}}},
	{"http://example.org/dir/doc#", []hop{{'P', ""}, {'D', ""}}},
	{"http://example.org/dir/doc#top", []hop{{'D', ""}, {'B', "/abs/./path"}, {'P', "?q"}}},
	{"http://example.org/dir/doc?#", []hop{{'D', ""}, {'P', "#f"}, {'D', ""}, {'U', ""}, {'P', "//other.example/p"}}},
	{"http://example.org/dir/doc", []hop{{'Q', "x#"}, {'P', "y"}}},
	{"http://example.org/dir/doc", []hop{{'C', "x#"}, {'P', "y"}, {'V', "https://other.example/p/q#"}, {'D', ""}, {'P', "z"}}},
	{"urn:example:doc#", []hop{{'D', ""}, {'P', "#s"}, {'D', ""}, {'B', "http://example.org/a"}}},
	{"http://example.org#", []hop{{'D', ""}, {'P', "?v=1"}, {'P', "#a"}}},
}

// genHist: a base that often carries a fragment (empty, non-empty, after an empty query) and 2-6 operations with at
// least one DropFragment.
func genHist(r *vh.Rng) (string, []hop) {
	b0, refs := genChain(r)
	if r.Chance(45) {
		if i := strings.IndexByte(b0, '#'); i >= 0 {
			b0 = b0[:i]
		}
		b0 += vh.Pick(r, []string{"#", "#", "#", "#f", "#a/b?c"})
	}
	c := gcfg{exotic: r.Chance(10)}
	var ops []hop
	hasD := false
	for _, rf := range refs {
		if r.Chance(35) {
			ops = append(ops, hop{k: 'D'})
			hasD = true
		}
		if r.Chance(30) && !strings.Contains(rf, "#") {
			rf += vh.Pick(r, []string{"#", "#", "#x"})
		}
		switch k := r.Intn(20); {
		case k < 9:
			ops = append(ops, hop{'P', rf})
		case k < 12:
			ops = append(ops, hop{'Q', rf})
		case k < 14:
			ops = append(ops, hop{'C', rf})
		case k < 16:
			ops = append(ops, hop{'B', rf})
		case k < 17:
			ops = append(ops, hop{k: 'U'})
		default:
			b := genAbs(r, c, r.Chance(15))
			if r.Chance(30) && !strings.Contains(b, "#") {
				b += "#"
			}
			ops = append(ops, hop{'V', b})
		}
	}
	if !hasD || r.Chance(30) {
		i := r.Intn(len(ops) + 1)
		ops = append(ops[:i:i], append([]hop{{k: 'D'}}, ops[i:]...)...)
	}
	return b0, ops
}
