/-
  C20 helper lemmas: the model of strconv.ParseUint / ParseInt (base 10) accepts exactly the digit
  strings (with optional sign for ParseInt) whose value fits the bit size, and returns that value.
-/
import RdfModel.Proofs.C20Digits
namespace RdfModel.Proofs.C20
open RdfModel RdfModel.Xsd
open RdfModel.Spec.Xsd (natValue natDigits canonInt intLex signSplit digits1)

theorem digitVal_lt10 {c d : Nat} (h : digitVal c = some d) (hd : d < 10) :
    0x30 ≤ c ∧ c ≤ 0x39 ∧ d = c - 0x30 := by
  unfold digitVal at h
  split at h
  · next hc => simp at h; omega
  · split at h
    · simp at h; omega
    · simp at h

theorem digitVal_digit {c : Nat} (h : 0x30 ≤ c ∧ c ≤ 0x39) : digitVal c = some (c - 0x30) := by
  simp [digitVal, h]

def cutoff10 : Nat := 1844674407370955162

theorem cutoff10_eq : maxUint64 / 10 + 1 = cutoff10 := by decide

theorem loop_sound (M : Nat) (hM : M ≤ maxUint64) (s : Bytes) : ∀ n m, n ≤ M →
    parseUintLoop 10 cutoff10 M n s = .ok m →
    s.all Spec.Xsd.isDigit = true ∧ m = n * 10 ^ s.length + natValue s ∧ m ≤ M := by
  induction s with
  | nil =>
    intro n m hn h
    simp only [parseUintLoop, Except.ok.injEq] at h
    subst h
    simp [natValue_nil, hn]
  | cons c r ih =>
    intro n m hn h
    unfold parseUintLoop at h
    cases hdv : digitVal c with
    | none => simp [hdv] at h
    | some d =>
      simp only [hdv] at h
      by_cases hd : d ≥ 10
      · simp [hd] at h
      · simp only [hd, if_false] at h
        by_cases hc : n ≥ cutoff10
        · simp [hc] at h
        · simp only [hc, if_false] at h
          obtain ⟨hc1, hc2, hdeq⟩ := digitVal_lt10 hdv (by omega)
          have hmu : maxUint64 = 18446744073709551615 := rfl
          have hcut : cutoff10 = 1844674407370955162 := rfl
          by_cases hov : (n * 10 + d) % (maxUint64 + 1) < n * 10 ∨ (n * 10 + d) % (maxUint64 + 1) > M
          · simp [hov] at h
          · simp only [hov, if_false] at h
            have hn1 : (n * 10 + d) % (maxUint64 + 1) = n * 10 + d := by
              rw [hmu] at hov ⊢; omega
            rw [hn1] at h hov
            obtain ⟨h1, h2, h3⟩ := ih (n * 10 + d) m (by omega) h
            refine ⟨?_, ?_, h3⟩
            · simp only [List.all_cons, Bool.and_eq_true]
              exact ⟨(isDigit_iff c).2 ⟨hc1, hc2⟩, h1⟩
            · rw [h2, natValue_cons, ← hdeq]
              simp only [List.length_cons, Nat.pow_succ]
              generalize 10 ^ r.length = p
              grind

theorem loop_complete (M : Nat) (hM : M ≤ maxUint64) (s : Bytes) : ∀ n,
    s.all Spec.Xsd.isDigit = true → n * 10 ^ s.length + natValue s ≤ M →
    parseUintLoop 10 cutoff10 M n s = .ok (n * 10 ^ s.length + natValue s) := by
  induction s with
  | nil => intro n _ _; simp [parseUintLoop, natValue_nil]
  | cons c r ih =>
    intro n hall hle
    simp only [List.all_cons, Bool.and_eq_true] at hall
    obtain ⟨hc, hr⟩ := hall
    have hcd := (isDigit_iff c).1 hc
    have hmu : maxUint64 = 18446744073709551615 := rfl
    have hcut : cutoff10 = 1844674407370955162 := rfl
    have hp : 1 ≤ 10 ^ r.length := Nat.pow_pos (by omega)
    rw [natValue_cons] at hle ⊢
    simp only [List.length_cons, Nat.pow_succ] at hle ⊢
    generalize hpe : 10 ^ r.length = p at hle hp ⊢
    -- the value after this digit
    have hstep : (n * 10 + (c - 0x30)) * p + natValue r = n * (p * 10) + ((c - 0x30) * p + natValue r) := by
      grind
    have hle' : (n * 10 + (c - 0x30)) * p + natValue r ≤ M := by omega
    have hsmall : n * 10 + (c - 0x30) ≤ M := by
      have : n * 10 + (c - 0x30) ≤ (n * 10 + (c - 0x30)) * p := Nat.le_mul_of_pos_right _ hp
      omega
    unfold parseUintLoop
    rw [digitVal_digit hcd]
    have hd : ¬ (c - 0x30 ≥ 10) := by omega
    have hc' : ¬ (n ≥ cutoff10) := by omega
    have hn1 : (n * 10 + (c - 0x30)) % (maxUint64 + 1) = n * 10 + (c - 0x30) := by
      rw [hmu]; omega
    have hov : ¬ ((n * 10 + (c - 0x30)) % (maxUint64 + 1) < n * 10 ∨ (n * 10 + (c - 0x30)) % (maxUint64 + 1) > M) := by
      rw [hn1]; omega
    simp only [hd, hc', hov, if_false]
    rw [hn1, ← hstep, ← hpe]
    exact ih _ hr (by rw [hpe]; exact hle')

theorem two_pow_le (b : Nat) (hb : b ≤ 64) : 2 ^ b - 1 ≤ maxUint64 := by
  have h : 2 ^ b ≤ 2 ^ 64 := Nat.pow_le_pow_right (by omega) hb
  have : (2 : Nat) ^ 64 = 18446744073709551616 := by decide
  have hmu : maxUint64 = 18446744073709551615 := rfl
  omega

theorem digits1_iff (s : Bytes) : digits1 s = true ↔ s ≠ [] ∧ s.all Spec.Xsd.isDigit = true := by
  cases s <;> simp [digits1]

theorem parseUint_sound {s : Bytes} {b n : Nat} (hb1 : 1 ≤ b) (hb : b ≤ 64)
    (h : parseUint s 10 b = .ok n) : digits1 s = true ∧ natValue s = n ∧ n ≤ 2 ^ b - 1 := by
  unfold parseUint at h
  by_cases hs : s = []
  · simp [hs] at h
  · have hb0 : ¬ (b = 0) := by omega
    have hb64 : ¬ (b > 64) := by omega
    simp only [hs, if_false, hb0, hb64] at h
    simp only [show ¬ ((10 : Nat) = 0) by omega, show (2 ≤ 10 ∧ 10 ≤ 36) by omega, if_false, cutoff10_eq] at h
    obtain ⟨h1, h2, h3⟩ := loop_sound (2 ^ b - 1) (two_pow_le b hb) s 0 n (by omega) h
    refine ⟨(digits1_iff s).2 ⟨hs, h1⟩, ?_, h3⟩
    simp [h2]

theorem parseUint_complete {s : Bytes} {b : Nat} (hb1 : 1 ≤ b) (hb : b ≤ 64)
    (hd : digits1 s = true) (hle : natValue s ≤ 2 ^ b - 1) : parseUint s 10 b = .ok (natValue s) := by
  obtain ⟨hs, hall⟩ := (digits1_iff s).1 hd
  unfold parseUint
  have hb0 : ¬ (b = 0) := by omega
  have hb64 : ¬ (b > 64) := by omega
  simp only [hs, if_false, hb0, hb64]
  simp only [show ¬ ((10 : Nat) = 0) by omega, show (2 ≤ 10 ∧ 10 ≤ 36) by omega, if_false, cutoff10_eq]
  have := loop_complete (2 ^ b - 1) (two_pow_le b hb) s 0 hall (by simpa using hle)
  simpa using this

theorem pow_pred_double (b : Nat) (hb : 1 ≤ b) : 2 ^ b = 2 * 2 ^ (b - 1) := by
  have : b = (b - 1) + 1 := by omega
  rw [this, Nat.pow_succ]; simp; omega

/-- sign handling of ParseInt and of the xsd:integer lexical mapping, side by side -/
theorem signSplit_cons (c : Nat) (r : Bytes) :
    signSplit (c :: r) = if c = 0x2D then (true, r) else if c = 0x2B then (false, r) else (false, c :: r) := rfl

theorem parseInt_sound {s : Bytes} {b : Nat} {v : Int} (hb2 : 2 ≤ b) (hb : b ≤ 64)
    (h : parseInt s 10 b = .ok v) :
    intLex s = some v ∧ -((2 ^ (b - 1) : Nat) : Int) ≤ v ∧ v ≤ ((2 ^ (b - 1) : Nat) : Int) - 1 := by
  have hpow := pow_pred_double b (by omega)
  have hP : 2 ≤ 2 ^ (b - 1) := by
    have : 2 ^ 1 ≤ 2 ^ (b - 1) := Nat.pow_le_pow_right (by omega) (by omega)
    simpa using this
  have hcast : ((2 ^ (b - 1) : Nat) : Int) = (2 : Int) ^ (b - 1) := by simp
  cases s with
  | nil => simp [parseInt] at h
  | cons c r =>
    unfold parseInt at h
    have hb0 : ¬ (b = 0) := by omega
    simp only [hb0, if_false] at h
    generalize hs1 : (if c = 0x2B ∨ c = 0x2D then r else c :: r) = s1 at h
    cases hpu : parseUint s1 10 b with
    | error e =>
      rw [hpu] at h
      cases e <;> simp at h
      -- range error: un = 2^b - 1, which is beyond the cutoff on both sides
      all_goals (split at h <;> try (simp at h))
      all_goals (split at h <;> try (simp at h))
      all_goals omega
    | ok un =>
      rw [hpu] at h
      simp only at h
      obtain ⟨hd, hval, hle⟩ := parseUint_sound (by omega) hb hpu
      split at h
      · simp at h
      · split at h
        · simp at h
        · next hn1 hn2 =>
          simp only [Except.ok.injEq] at h
          unfold intLex
          rw [signSplit_cons]
          by_cases hm : c = 0x2D
          · have e : s1 = r := by rw [← hs1]; simp [hm]
            rw [e] at hd hval
            subst hm
            simp [hd, hval] at h ⊢
            subst h
            omega
          · by_cases hp : c = 0x2B
            · have e : s1 = r := by rw [← hs1]; simp [hp]
              rw [e] at hd hval
              subst hp
              simp [hd, hval] at h hn1 ⊢
              subst h
              omega
            · have e : s1 = c :: r := by rw [← hs1]; simp [hm, hp]
              rw [e] at hd hval
              simp [hm, hp, hd, hval] at h hn1 ⊢
              subst h
              omega

theorem parseInt_complete {s : Bytes} {b : Nat} {v : Int} (hb2 : 2 ≤ b) (hb : b ≤ 64)
    (hl : intLex s = some v)
    (hlo : -((2 ^ (b - 1) : Nat) : Int) ≤ v) (hhi : v ≤ ((2 ^ (b - 1) : Nat) : Int) - 1) :
    parseInt s 10 b = .ok v := by
  have hpow := pow_pred_double b (by omega)
  have hP : 2 ≤ 2 ^ (b - 1) := by
    have : 2 ^ 1 ≤ 2 ^ (b - 1) := Nat.pow_le_pow_right (by omega) (by omega)
    simpa using this
  have hcast : ((2 ^ (b - 1) : Nat) : Int) = (2 : Int) ^ (b - 1) := by simp
  have hb0 : ¬ (b = 0) := by omega
  cases s with
  | nil => simp [intLex, signSplit, digits1] at hl
  | cons c r =>
    unfold intLex at hl
    rw [signSplit_cons] at hl
    unfold parseInt
    simp only [hb0, if_false]
    by_cases hm : c = 0x2D
    · subst hm
      simp only [if_true] at hl
      split at hl
      · next hd =>
        simp only [Option.some.injEq] at hl
        have hpu := parseUint_complete (b := b) (by omega) hb hd (by omega)
        have h3 : ¬ (natValue r > 2 ^ (b - 1)) := by omega
        simp [hpu, h3, hl]
      · simp at hl
    · by_cases hp : c = 0x2B
      · subst hp
        simp only [show ¬ ((0x2B : Nat) = 0x2D) by omega, if_false, if_true] at hl
        split at hl
        · next hd =>
          simp only [Bool.false_eq_true, if_false, Option.some.injEq] at hl
          have hpu := parseUint_complete (b := b) (by omega) hb hd (by omega)
          have h3 : natValue r < 2 ^ (b - 1) := by omega
          simp [hpu, h3, hl]
        · simp at hl
      · simp only [hm, hp, if_false] at hl
        split at hl
        · next hd =>
          simp only [Bool.false_eq_true, if_false, Option.some.injEq] at hl
          have hpu := parseUint_complete (b := b) (by omega) hb hd (by omega)
          have h3 : natValue (c :: r) < 2 ^ (b - 1) := by omega
          simp [hm, hp, hpu, h3, hl]
        · simp at hl

end RdfModel.Proofs.C20
