/-
  Helper lemmas about `Next`/`Err`/`Triple` of the RDF/JSON decoder model: index invariant,
  end-state latch, accessor usability, closed form of a full iteration.
-/
import RdfModel.Proofs.C01RJDec
namespace RdfModel.Proofs.C01RJ
open RdfModel RdfModel.RJ RdfModel.C01RJ

/-- `Next()` on a decoder that already holds an error. -/
theorem next_of_err (v : Variant) (toks : List Tok) (e : TEnd) (d : Dec) (h : d.err.isSome = true) :
    next v toks e d = .ret d false := by
  simp [next, h]

/-- `Next()` on a decoder that has parsed (`idx ≠ -1`) and holds no error. -/
theorem next_of_parsed (v : Variant) (toks : List Tok) (e : TEnd) (d : Dec) (h : d.err = none)
    (hi : d.idx ≠ -1) :
    next v toks e d = .ret { d with idx := d.idx + 1 } (decide (d.idx + 1 < (d.stmts.length : Int))) := by
  simp [next, h, hi]

/-- The first `Next()`. -/
theorem next_of_fresh (v : Variant) (toks : List Tok) (e : TEnd) (d : Dec) (h : d.err = none)
    (hi : d.idx = -1) :
    next v toks e d =
      match parseRoot v toks e with
      | .panic => .panic
      | .done ss vd => .ret ⟨vd.toErr, d.stmts ++ ss, 0⟩ (decide ((0 : Int) < ((d.stmts ++ ss).length : Int))) := by
  simp only [next, h, hi]
  cases parseRoot v toks e <;> simp

/-- `statementsIdx ≥ -1` is an invariant. -/
theorem next_idx_inv (v : Variant) (toks : List Tok) (e : TEnd) (d d' : Dec) (b : Bool)
    (hi : -1 ≤ d.idx) (h : next v toks e d = .ret d' b) : -1 ≤ d'.idx := by
  by_cases herr : d.err.isSome = true
  · rw [next_of_err v toks e d herr] at h; cases h; exact hi
  · have hnone : d.err = none := by cases hd : d.err <;> simp_all
    by_cases hidx : d.idx = -1
    · rw [next_of_fresh v toks e d hnone hidx] at h
      split at h
      · cases h
      · cases h; simp
    · rw [next_of_parsed v toks e d hnone hidx] at h
      cases h; simp; omega

/-- The iteration has ended: an error is latched, or every statement has been handed out. -/
def Ended (d : Dec) : Prop := d.err.isSome = true ∨ (d.err = none ∧ 0 ≤ d.idx ∧ (d.stmts.length : Int) ≤ d.idx)

theorem ended_of_false (v : Variant) (toks : List Tok) (e : TEnd) (d d' : Dec)
    (hi : -1 ≤ d.idx) (h : next v toks e d = .ret d' false) : Ended d' := by
  by_cases herr : d.err.isSome = true
  · rw [next_of_err v toks e d herr] at h; cases h; exact .inl herr
  · have hnone : d.err = none := by cases hd : d.err <;> simp_all
    by_cases hidx : d.idx = -1
    · rw [next_of_fresh v toks e d hnone hidx] at h
      split at h
      · cases h
      · next ss vd _ =>
        simp only [NextR.ret.injEq, decide_eq_false_iff_not] at h
        obtain ⟨rfl, h2⟩ := h
        cases vd with
        | clean => right; simp [Verdict.toErr] at h2 ⊢; omega
        | error c => left; simp [Verdict.toErr]
    · rw [next_of_parsed v toks e d hnone hidx] at h
      simp only [NextR.ret.injEq, decide_eq_false_iff_not] at h
      obtain ⟨rfl, h2⟩ := h
      right; simp [hnone]; omega

theorem ended_next (v : Variant) (toks : List Tok) (e : TEnd) (d : Dec) (h : Ended d) :
    ∃ d', next v toks e d = .ret d' false ∧ d'.err = d.err ∧ Ended d' := by
  rcases h with herr | ⟨hnone, h0, hlen⟩
  · exact ⟨d, next_of_err v toks e d herr, rfl, .inl herr⟩
  · refine ⟨{ d with idx := d.idx + 1 }, ?_, rfl, .inr ⟨hnone, ?_, ?_⟩⟩
    · rw [next_of_parsed v toks e d hnone (by omega)]
      simp; omega
    · simp; omega
    · simp; omega

theorem staysEnded_of_ended (v : Variant) (toks : List Tok) (e : TEnd) :
    ∀ k d, Ended d → StaysEnded v toks e d k := by
  intro k
  induction k with
  | zero => intro d _; trivial
  | succ k ih =>
    intro d h
    obtain ⟨d', h1, h2, h3⟩ := ended_next v toks e d h
    exact ⟨d', h1, h2, ih d' h3⟩

/-- `Triple()` right after `Next()` returned true does not index out of range. -/
theorem current_of_true (v : Variant) (toks : List Tok) (e : TEnd) (d d' : Dec)
    (hi : -1 ≤ d.idx) (h : next v toks e d = .ret d' true) :
    ∃ t, current d' = some t ∧ t ∈ d'.stmts := by
  have key : 0 ≤ d'.idx ∧ d'.idx < (d'.stmts.length : Int) := by
    by_cases herr : d.err.isSome = true
    · rw [next_of_err v toks e d herr] at h; cases h
    · have hnone : d.err = none := by cases hd : d.err <;> simp_all
      by_cases hidx : d.idx = -1
      · rw [next_of_fresh v toks e d hnone hidx] at h
        split at h
        · cases h
        · simp only [NextR.ret.injEq, decide_eq_true_eq] at h
          obtain ⟨rfl, h2⟩ := h
          exact ⟨by simp, h2⟩
      · rw [next_of_parsed v toks e d hnone hidx] at h
        simp only [NextR.ret.injEq, decide_eq_true_eq] at h
        obtain ⟨rfl, h2⟩ := h
        exact ⟨by simp; omega, h2⟩
  obtain ⟨h0, h1⟩ := key
  have hlt : d'.idx.toNat < d'.stmts.length := by omega
  refine ⟨d'.stmts[d'.idx.toNat], ?_, List.getElem_mem hlt⟩
  unfold current
  rw [if_neg (by omega)]
  exact List.getElem?_eq_getElem hlt

/-! ## Closed form of a full iteration -/

/-- After a clean parse: the remaining statements are handed out one by one. -/
theorem drive_clean (v : Variant) (toks : List Tok) (e : TEnd) (ss : List (Triple BNode)) :
    ∀ (f i : Nat) (acc : List (Triple BNode)), ss.length ≤ i + 1 + f →
      drive v toks e (f + 1) ⟨none, ss, (i : Int)⟩ acc = .finished (acc.reverse ++ ss.drop (i + 1)) none := by
  intro f
  induction f with
  | zero =>
    intro i acc hlen
    have hn := next_of_parsed v toks e ⟨none, ss, (i : Int)⟩ rfl (by simp <;> omega)
    have hfalse : decide (((i : Int) + 1) < (ss.length : Int)) = false := by first | (simp; omega) | simp | omega
    simp only [hfalse] at hn
    simp only [drive, hn]
    rw [List.drop_eq_nil_of_le (by omega)]; simp
  | succ f ih =>
    intro i acc hlen
    have hn := next_of_parsed v toks e ⟨none, ss, (i : Int)⟩ rfl (by simp <;> omega)
    by_cases hlt : i + 1 < ss.length
    · have htrue : decide (((i : Int) + 1) < (ss.length : Int)) = true := by first | (simp; omega) | simp | omega
      simp only [htrue] at hn
      have hcur : current ⟨none, ss, (i : Int) + 1⟩ = some ss[i + 1] := by
        unfold current
        rw [if_neg (by simp <;> omega)]
        have : ((i : Int) + 1).toNat = i + 1 := by omega
        simp only [this]
        exact List.getElem?_eq_getElem hlt
      rw [drive]
      simp only [hn, hcur]
      have := ih (i + 1) (ss[i + 1] :: acc) (by omega)
      simp only [Int.natCast_add, Int.cast_ofNat_Int] at this
      rw [this]
      simp only [List.reverse_cons, List.append_assoc, List.singleton_append]
      rw [← List.drop_eq_getElem_cons hlt]
    · have hfalse : decide (((i : Int) + 1) < (ss.length : Int)) = false := by first | (simp; omega) | simp | omega
      simp only [hfalse] at hn
      rw [drive]
      simp only [hn]
      rw [List.drop_eq_nil_of_le (by omega)]; simp

theorem run_closed_form (v : Variant) (toks : List Tok) (e : TEnd) :
    run v toks e =
      match parseRoot v toks e with
      | .panic => .panic
      | .done ss vd => .finished (yieldedOf ss vd) vd.toErr := by
  unfold run
  have hfresh := next_of_fresh v toks e {} rfl rfl
  cases hp : parseRoot v toks e with
  | panic =>
    simp only [hp] at hfresh
    simp [drive, hfresh]
  | done ss vd =>
    simp only [hp, List.nil_append] at hfresh
    have hlen : ss.length ≤ toks.length := by
      have := parse_length v e toks .start {} ss vd hp
      simpa using this
    cases ss with
    | nil =>
      simp only [List.length_nil, Int.natCast_zero, Int.lt_irrefl, decide_false] at hfresh
      cases vd <;> simp [drive, hfresh, yieldedOf]
    | cons t ss' =>
      have htrue : decide ((0 : Int) < (((t :: ss').length : Nat) : Int)) = true := by first | (simp; omega) | simp | omega
      simp only [htrue] at hfresh
      have hcur : current ⟨vd.toErr, t :: ss', 0⟩ = some t := by simp [current]
      rw [drive]
      simp only [hfresh, hcur]
      cases vd with
      | clean =>
        have := drive_clean v toks e (t :: ss') toks.length 0 [t] (by simp at hlen ⊢; omega)
        simp only [Int.natCast_zero] at this
        simp only [Verdict.toErr, yieldedOf]
        rw [this]; simp
      | error c =>
        have hn := next_of_err v toks e ⟨some c, t :: ss', 0⟩ rfl
        simp only [Verdict.toErr, yieldedOf]
        rw [drive]
        simp [hn]

end RdfModel.Proofs.C01RJ
