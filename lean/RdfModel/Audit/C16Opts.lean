/-
  Axiom audit for the decoder option-list theorems of C16 (`Props/C16Opts.lean`).
-/
import RdfModel.Props.C16Opts

#print axioms RdfModel.C16Opts.apply_merge
#print axioms RdfModel.C16Opts.compile_append
#print axioms RdfModel.C16Opts.apply_assoc
#print axioms RdfModel.C16Opts.split_irrelevant
#print axioms RdfModel.C16Opts.newDecoder_flatten
#print axioms RdfModel.C16Opts.initial_offset_survives
#print axioms RdfModel.C16Opts.no_writer_without_capture
#print axioms RdfModel.C16Opts.htmldefaults_forward_faithful
#print axioms RdfModel.C16Opts.htmldefaults_forward_fails_legacy
