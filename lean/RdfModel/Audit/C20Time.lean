import RdfModel.Props.C20Time
#print axioms RdfModel.C20Time.gen_time_facts
#print axioms RdfModel.C20Time.time_sound_partial
#print axioms RdfModel.C20Time.gen_time_sound
#print axioms RdfModel.C20Time.time_sound_full_fails
#print axioms RdfModel.C20Time.dev_hour_one_digit
#print axioms RdfModel.C20Time.dev_fraction_comma
#print axioms RdfModel.C20Time.dev_fraction_signed
#print axioms RdfModel.C20Time.dev_tz_out_of_range
#print axioms RdfModel.C20Time.dev_fraction_dropped
#print axioms RdfModel.C20Time.dev_year_range
#print axioms RdfModel.C20Time.dev_end_of_day
#print axioms RdfModel.C20Time.time_termEquals
#print axioms RdfModel.C20Time.time_format_parse
#print axioms RdfModel.C20Time.time_canonical_partial
#print axioms RdfModel.C20Time.dev_signed_unstable
#print axioms RdfModel.C20Time.time_complete_partial
