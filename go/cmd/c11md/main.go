// Command c11md: part C11MD (serves C11, C05, C06) — the Microdata decoder /repo/encoding/htmlmicrodata against its
// executable Lean model lean/RdfModel/Model/MicrodataDecoder.lean (driver component `mdd`).
//
// For every document: parse it in Go through the same entry points the decoder's callers use (ParseDocument with and
// without text offsets, x/net/html.Parse + NewDocument), wire-encode the resulting DOM (every node: type, namespace,
// DataAtom, text data, attributes in order), compute the oracle tables of the model's parameters (ResolveURL,
// url.Parse().String(), the xsdobject mappers; the vocabulary resolver's table is RECORDED from the real run through
// a wrapping resolver), send `mdd.dec` and compare the ORDERED statement list (blank nodes renumbered by first
// occurrence on both sides), the lax-content hook calls (node identities) and the outcome (ok / panic).
// Property oracles on the implementation (no model needed): C05 life cycle (no panic, Next false stays false, Err
// stable and nil, Close nil), C06 well-formedness of every statement, and — on the valid documents of c11's soup —
// nothing else (the denotation comparison stays in go/cmd/c11).
//
// Families:
//
//	corpus    the 70-odd HTML snippets of /repo/encoding/htmlmicrodata/decoder_test.go (WHATWG examples, regressions)
//	soup      go/cmd/c11's valid-Microdata soup (nested items, shared itemref targets, duplicate ids, isolated cycles)
//	wild      unconstrained attribute soup: itemref cycles through ancestors and descendants, self references, many
//	          tokens, duplicate and missing ids, items without itemscope, itemprop outside items, foreign (svg/math)
//	          elements, Unicode / VT whitespace in token lists, relative / empty / padded itemid, junk itemtype
//	clique    k items that all name each other (and themselves) in itemref: the memo / visited-set discipline
//	mutated   byte-level mutations of rendered documents of the families above
//	strings   strings.Fields / strings.TrimSpace / the itemtype regexp loop against the model's byte-level functions:
//	          every byte string of length ≤ 3 over a 20-byte hot alphabet (exhaustive) + random longer ones
package main

import (
	"encoding/hex"
	"encoding/json"
	"errors"
	"flag"
	"fmt"
	"net/url"
	"os"
	"path/filepath"
	"regexp"
	"runtime/debug"
	"sort"
	"strings"

	"verifharness/vh"

	enchtml "github.com/dpb587/rdfkit-go/encoding/html"
	"github.com/dpb587/rdfkit-go/encoding/htmlmicrodata"
	"github.com/dpb587/rdfkit-go/iri"
	"github.com/dpb587/rdfkit-go/ontology/xsd/xsdobject"
	"github.com/dpb587/rdfkit-go/rdf"
	xhtml "golang.org/x/net/html"
)

var (
	tier     = flag.String("tier", "quick", "quick|thorough")
	driver   = flag.String("driver", "/verif/lean/.lake/build/bin/driver", "lean driver binary")
	out      = flag.String("out", "/verif/evidence/.C11MD.c11md.report.json", "report path")
	findings = flag.String("findings", "/verif/known-findings.json", "known findings")
	replay   = flag.String("replay", "", "replay file: JSON written by ./check, or lines `<cfg> <base-hex> <html-hex>`")
	scale    = flag.Int("scale", 1, "multiply generated case counts (search mode uses 10)")
	nomodel  = flag.Bool("nomodel", false, "property oracles on the implementation only")
	hints    = flag.String("hints", "", "unused (accepted for ./check)")
	only     = flag.String("only", "", "comma-separated families (development aid)")
	propName = flag.String("prop", "C11MD", "property id written to the report (C11MD stand-alone; C11 / C05 / C06 when assembled)")
	repoDir  = flag.String("repo", "", "repository checkout holding decoder_test.go (default: $VERIF_REPO or /repo)")
)

// ---------------------------------------------------------------- configuration of one run

type config struct {
	mode     int // 0 ParseDocument, 1 ParseDocument + text offsets, 2 x/net/html.Parse + NewDocument
	resolver int // 0 default (Literal), 1 ItemtypeVocabularyResolver, 2 failing resolver (errors on names containing '!')
	lax      int // 0 unset, 1 use (no hook), 2 hook only (do not use), 3 hook and use
}

func (c config) String() string { return fmt.Sprintf("m%dr%dl%d", c.mode, c.resolver, c.lax) }

func parseConfig(s string) (config, error) {
	var c config
	_, err := fmt.Sscanf(s, "m%dr%dl%d", &c.mode, &c.resolver, &c.lax)
	return c, err
}

// the derived Decoder fields (decoder_config.go newDecoder)
func (c config) laxFlags() (lax, use, hook bool) {
	switch c.lax {
	case 1:
		return true, true, false
	case 2:
		return true, false, true
	case 3:
		return true, true, true
	}
	return false, false, false
}

type failingResolver struct {
	inner htmlmicrodata.VocabularyResolver
}

func (f failingResolver) ResolveMicrodataProperty(itemtypes []string, itemprop string) (string, error) {
	if strings.Contains(itemprop, "!") {
		return "ignored", errors.New("refused")
	}
	return f.inner.ResolveMicrodataProperty(itemtypes, itemprop)
}

type recorder struct {
	inner htmlmicrodata.VocabularyResolver
	table map[string]string
}

func hx(s string) string { return hex.EncodeToString([]byte(s)) }

func (r *recorder) ResolveMicrodataProperty(itemtypes []string, itemprop string) (string, error) {
	v, err := r.inner.ResolveMicrodataProperty(itemtypes, itemprop)
	key := hx(itemprop)
	for _, t := range itemtypes {
		key += ":" + hx(t)
	}
	if err != nil {
		r.table[key] = "!"
	} else {
		r.table[key] = hx(v)
	}
	return v, err
}

// ---------------------------------------------------------------- running the real decoder

type goRun struct {
	parseErr string
	newErr   string
	panic    string
	stack    string
	stmts    []string
	hooks    []int
	life     string // C05 life-cycle violation, "" if none
	wf       string // C06 violation, "" if none
	root     *xhtml.Node
	base     string
	vocab    map[string]string
}

func parseDoc(text, base string, mode int) (*enchtml.Document, error) {
	if mode == 2 {
		root, err := xhtml.Parse(strings.NewReader(text))
		if err != nil {
			return nil, err
		}
		return enchtml.NewDocument(root, base)
	}
	opts := enchtml.DocumentConfig{}
	if base != "" {
		opts = opts.SetLocation(base)
	}
	if mode == 1 {
		opts = opts.SetCaptureTextOffsets(true)
	}
	return enchtml.ParseDocument(strings.NewReader(text), opts)
}

const (
	xsdStringIRI  = "http://www.w3.org/2001/XMLSchema#string"
	rdfLangString = "http://www.w3.org/1999/02/22-rdf-syntax-ns#langString"
	rdfDirLang    = "http://www.w3.org/1999/02/22-rdf-syntax-ns#dirLangString"
)

type bnNames struct {
	ids map[rdf.BlankNodeIdentifier]int
}

func (b *bnNames) name(n rdf.BlankNode) string {
	if _, ok := b.ids[n.Identifier]; !ok {
		b.ids[n.Identifier] = len(b.ids)
	}
	return fmt.Sprintf("B%d", b.ids[n.Identifier])
}

func showLit(l rdf.Literal) string {
	s := "L" + hx(l.LexicalForm) + "." + hx(string(l.Datatype)) + "."
	switch t := l.Tag.(type) {
	case nil:
		s += "-"
	case rdf.LanguageLiteralTag:
		s += hx(t.Language)
	default:
		s += hx(fmt.Sprintf("?%T", t))
	}
	return s
}

// wfTriple: the C06 clauses for one statement
func wfTriple(t rdf.Triple) string {
	switch s := t.Subject.(type) {
	case nil:
		return "nil subject"
	case rdf.IRI:
	case rdf.BlankNode:
		if s.Identifier == nil {
			return "subject blank node without identity"
		}
	default:
		return fmt.Sprintf("subject of kind %T", s)
	}
	switch p := t.Predicate.(type) {
	case nil:
		return "nil predicate"
	case rdf.IRI:
	default:
		return fmt.Sprintf("predicate of kind %T", p)
	}
	switch o := t.Object.(type) {
	case nil:
		return "nil object"
	case rdf.IRI:
	case rdf.BlankNode:
		if o.Identifier == nil {
			return "object blank node without identity"
		}
	case rdf.Literal:
		if o.Datatype == "" {
			return "literal without datatype"
		}
		lt, hasLang := o.Tag.(rdf.LanguageLiteralTag)
		if (string(o.Datatype) == rdfLangString) != (hasLang && lt.Language != "") {
			return "language tag / rdf:langString mismatch"
		}
		if string(o.Datatype) == rdfDirLang {
			return "rdf:dirLangString from Microdata"
		}
		if o.Tag != nil && !hasLang {
			return fmt.Sprintf("literal tag of kind %T", o.Tag)
		}
	default:
		return fmt.Sprintf("object of kind %T", o)
	}
	return ""
}

func preorder(root *xhtml.Node) map[*xhtml.Node]int {
	ids := map[*xhtml.Node]int{}
	var walk func(n *xhtml.Node)
	walk = func(n *xhtml.Node) {
		ids[n] = len(ids)
		for c := n.FirstChild; c != nil; c = c.NextSibling {
			walk(c)
		}
	}
	walk(root)
	return ids
}

func runGo(text, base string, cfg config) (res goRun) {
	defer func() {
		if r := recover(); r != nil {
			res.panic = fmt.Sprint(r)
			res.stack = string(debug.Stack())
		}
	}()
	doc, err := parseDoc(text, base, cfg.mode)
	if err != nil {
		res.parseErr = err.Error()
		return
	}
	res.root = doc.GetRoot()
	res.base = doc.GetInfo().BaseURL
	ids := preorder(res.root)
	var inner htmlmicrodata.VocabularyResolver = htmlmicrodata.LiteralVocabularyResolver
	switch cfg.resolver {
	case 1:
		inner = htmlmicrodata.ItemtypeVocabularyResolver
	case 2:
		inner = failingResolver{htmlmicrodata.ItemtypeVocabularyResolver}
	}
	rec := &recorder{inner: inner, table: map[string]string{}}
	res.vocab = rec.table
	dc := htmlmicrodata.DecoderConfig{}.SetVocabularyResolver(rec)
	hook := func(e htmlmicrodata.DecoderError_LaxContentAttribute) { res.hooks = append(res.hooks, ids[e.Node]) }
	switch cfg.lax {
	case 1:
		dc = dc.SetLaxContentAttribute(true, nil)
	case 2:
		dc = dc.SetLaxContentAttribute(false, hook)
	case 3:
		dc = dc.SetLaxContentAttribute(true, hook)
	}
	d, err := htmlmicrodata.NewDecoder(doc, dc)
	if err != nil {
		res.newErr = err.Error()
		return
	}
	names := &bnNames{ids: map[rdf.BlankNodeIdentifier]int{}}
	term := func(t rdf.Term) string {
		switch v := t.(type) {
		case nil:
			return "-"
		case rdf.IRI:
			return "I" + hx(string(v))
		case rdf.BlankNode:
			return names.name(v)
		case rdf.Literal:
			return showLit(v)
		}
		return fmt.Sprintf("?%T", t)
	}
	for d.Next() {
		t := d.Triple()
		_ = d.Statement()
		_ = d.StatementTextOffsets()
		if w := wfTriple(t); w != "" && res.wf == "" {
			res.wf = fmt.Sprintf("statement %d: %s", len(res.stmts), w)
		}
		p := "-"
		if pi, ok := t.Predicate.(rdf.IRI); ok {
			p = hx(string(pi))
		}
		res.stmts = append(res.stmts, term(t.Subject)+" "+p+" "+term(t.Object))
	}
	e1 := d.Err()
	for i := 0; i < 3; i++ {
		if d.Next() {
			res.life = "Next returned true after false"
		}
		if d.Err() != e1 {
			res.life = "Err changed after the end"
		}
	}
	if e1 != nil {
		res.life = "Err non-nil: " + e1.Error() // the decoder has no error path after construction
	}
	if err := d.Close(); err != nil {
		res.life = "Close: " + err.Error()
	}
	return
}

// ---------------------------------------------------------------- oracle tables for the model's parameters

// resolveURL: evaluationContext.ResolveURL (decoder_ectx.go), the decoder's only use of the document base
func resolveURL(base *iri.ParsedIRI, u string) (string, bool) {
	if base == nil {
		if valid, err := iri.ParseIRI(u); err == nil && valid.IsAbs() {
			return u, true
		}
		return "", false
	}
	parsed, err := base.Parse(u)
	if err != nil {
		return "", false
	}
	return parsed.String(), true
}

var mappers = []func(string) (rdf.ObjectValue, error){
	xsdobject.MapDate, xsdobject.MapTime, xsdobject.MapDateTime, xsdobject.MapGYearMonth, xsdobject.MapGYear, xsdobject.MapDuration,
	xsdobject.MapInteger, xsdobject.MapDecimal,
}

func isRe5(r rune) bool { return r == '\t' || r == '\n' || r == '\f' || r == '\r' || r == ' ' }

func tableWire(m map[string]string) string {
	if len(m) == 0 {
		return "-"
	}
	ks := make([]string, 0, len(m))
	for k := range m {
		ks = append(ks, k)
	}
	sort.Strings(ks)
	var sb strings.Builder
	for i, k := range ks {
		if i > 0 {
			sb.WriteByte(',')
		}
		sb.WriteString(k + "=" + m[k])
	}
	return sb.String()
}

// modelLine builds the `mdd.dec` line for a parsed document
func modelLine(root *xhtml.Node, base string, cfg config, vocab map[string]string) string {
	var baseIRI *iri.ParsedIRI
	if base != "" {
		baseIRI, _ = iri.ParseIRI(base) // NewDecoder succeeded, so this parses
	}
	R, T, M := map[string]string{}, map[string]string{}, map[string]string{}
	addR := func(v string) {
		if r, ok := resolveURL(baseIRI, v); ok {
			R[hx(v)] = hx(r)
		} else {
			R[hx(v)] = "!"
		}
	}
	var toks []string
	var walk func(n *xhtml.Node)
	walk = func(n *xhtml.Node) {
		data := ""
		if n.Type == xhtml.TextNode {
			data = n.Data
		}
		toks = append(toks, fmt.Sprintf("N%d.%s.%s.%s", int(n.Type), hx(n.Namespace), hx(n.DataAtom.String()), hx(data)))
		for _, a := range n.Attr {
			toks = append(toks, "A"+hx(a.Namespace)+"."+hx(a.Key)+"."+hx(a.Val))
			switch a.Key {
			case "itemid", "href", "src", "data":
				addR(a.Val)
				addR(strings.TrimSpace(a.Val))
			case "itemtype":
				for _, t := range strings.FieldsFunc(a.Val, isRe5) {
					if u, err := url.Parse(t); err == nil {
						T[hx(t)] = hx(u.String())
					} else {
						T[hx(t)] = hx(t)
					}
				}
			case "datetime", "value":
				for i, f := range mappers {
					if v, err := f(a.Val); err == nil {
						if l, ok := v.(rdf.Literal); ok && l.Tag == nil {
							M[fmt.Sprintf("%d:%s", i, hx(a.Val))] = "L" + hx(l.LexicalForm) + "." + hx(string(l.Datatype))
						} else {
							M[fmt.Sprintf("%d:%s", i, hx(a.Val))] = "L" + hx(fmt.Sprintf("?%T", v)) + "."
						}
					} else {
						M[fmt.Sprintf("%d:%s", i, hx(a.Val))] = "!"
					}
				}
			}
		}
		for c := n.FirstChild; c != nil; c = c.NextSibling {
			walk(c)
		}
		toks = append(toks, "/")
	}
	walk(root)
	lax, use, hook := cfg.laxFlags()
	return "mdd.dec " + vh.B01(lax) + vh.B01(use) + vh.B01(hook) + " " + tableWire(R) + " " + tableWire(T) + " " + tableWire(vocab) + " " +
		tableWire(M) + " " + strings.Join(toks, " ")
}

// canonModel renumbers the model's blank nodes by first occurrence
func canonModel(ans string) (stmts []string, hooks string, outcome string) {
	if !strings.HasPrefix(ans, "ok ") {
		return nil, "", ans
	}
	body := ans[3:]
	bar := strings.LastIndex(body, "|")
	if bar < 0 {
		return nil, "", "malformed: " + ans
	}
	hooks = body[bar+1:]
	ids := map[string]int{}
	ren := func(t string) string {
		if strings.HasPrefix(t, "B") {
			if _, ok := ids[t]; !ok {
				ids[t] = len(ids)
			}
			return fmt.Sprintf("B%d", ids[t])
		}
		return t
	}
	if body[:bar] != "" {
		for _, s := range strings.Split(body[:bar], ";") {
			f := strings.Split(s, " ")
			if len(f) != 3 {
				return nil, "", "malformed statement: " + s
			}
			stmts = append(stmts, ren(f[0])+" "+f[1]+" "+ren(f[2]))
		}
	}
	return stmts, hooks, "ok"
}

// ---------------------------------------------------------------- harness

type pending struct {
	family, base, text string
	cfg                config
	g                  goRun
	line               string
}

type harness struct {
	r     *vh.Rng
	rep   *vh.Report
	drv   vh.Driver
	fam   map[string]bool
	queue []pending
	pool  []string // rendered documents, for the mutated family
}

func (h *harness) want(f string) bool { return len(h.fam) == 0 || h.fam[f] }

func caseDetail(p pending) string {
	return fmt.Sprintf("family=%s cfg=%s base=%q html=%q replay-line: %s %s %s", p.family, p.cfg, p.base, p.text, p.cfg, hx(p.base), hx(p.text))
}

// one document × one configuration
func (h *harness) one(family, base, text string, cfg config) {
	g := runGo(text, base, cfg)
	h.rep.Count("family:" + family)
	h.rep.Count("cfg:mode" + fmt.Sprint(cfg.mode))
	h.rep.Count("cfg:resolver" + fmt.Sprint(cfg.resolver))
	h.rep.Count("cfg:lax" + fmt.Sprint(cfg.lax))
	p := pending{family: family, base: base, text: text, cfg: cfg, g: g}
	h.rep.Eval(cfg.String()+"|"+base+"|"+text, len(g.stmts) > 0)
	switch {
	case g.panic != "":
		h.rep.Count("go:panic")
		h.rep.Add(vh.Case{Kind: "violation", Op: "C05 no panic", Go: "panic: " + g.panic + "\n" + firstFrames(g.stack), Detail: caseDetail(p)})
		h.rep.Count("fail:panic")
		return
	case g.parseErr != "":
		h.rep.Count("go:parse-error")
		return
	case g.newErr != "":
		h.rep.Count("go:new-error")
		// newDecoder fails exactly when the document base does not parse
		if _, err := iri.ParseIRI(g.base); err == nil || g.base == "" {
			h.rep.Add(vh.Case{Kind: "disagreement", Op: "newDecoder", Go: g.newErr, Model: "ok (base parses)", Detail: caseDetail(p)})
			h.rep.Count("fail:new-error")
		}
		return
	}
	if g.life != "" {
		h.rep.Add(vh.Case{Kind: "violation", Op: "C05 life cycle", Go: g.life, Detail: caseDetail(p)})
		h.rep.Count("fail:life")
	}
	if g.wf != "" {
		h.rep.Add(vh.Case{Kind: "violation", Op: "C06 well-formed", Go: g.wf + " in " + strings.Join(g.stmts, ";"), Detail: caseDetail(p)})
		h.rep.Count("fail:wf")
	}
	h.rep.Count(fmt.Sprintf("statements:%s", bucket(len(g.stmts))))
	if len(g.hooks) > 0 {
		h.rep.Count("hook-called")
	}
	if *nomodel {
		return
	}
	p.line = modelLine(g.root, g.base, cfg, g.vocab)
	p.g.root = nil
	h.queue = append(h.queue, p)
	if len(h.queue) >= 2000 {
		h.flush()
	}
}

func bucket(n int) string {
	switch {
	case n == 0:
		return "0"
	case n <= 3:
		return "1-3"
	case n <= 10:
		return "4-10"
	case n <= 30:
		return "11-30"
	}
	return "31+"
}

func firstFrames(stack string) string {
	lines := strings.Split(stack, "\n")
	var keep []string
	for _, l := range lines {
		if strings.Contains(l, "rdfkit-go") || strings.Contains(l, "inspecthtml") || strings.Contains(l, "cursorio") {
			keep = append(keep, strings.TrimSpace(l))
			if len(keep) >= 6 {
				break
			}
		}
	}
	return strings.Join(keep, " | ")
}

func (h *harness) flush() {
	if len(h.queue) == 0 {
		return
	}
	lines := make([]string, len(h.queue))
	for i, p := range h.queue {
		lines[i] = p.line
	}
	outs, err := h.drv.Run(lines)
	if err != nil {
		fmt.Fprintln(os.Stderr, "driver:", err)
		os.Exit(2)
	}
	for i, p := range h.queue {
		h.rep.Compared++
		stmts, hooks, outcome := canonModel(outs[i])
		goHooks := make([]string, len(p.g.hooks))
		for j, x := range p.g.hooks {
			goHooks[j] = fmt.Sprint(x)
		}
		goS, moS := strings.Join(p.g.stmts, ";"), strings.Join(stmts, ";")
		if outcome != "ok" || goS != moS || strings.Join(goHooks, ",") != hooks {
			h.rep.Count("fail:disagreement:" + p.family)
			h.rep.Add(vh.Case{Kind: "disagreement", Op: truncate(p.line, 4000), Go: "ok " + goS + "|" + strings.Join(goHooks, ","),
				Model: outcome + " " + moS + "|" + hooks, Detail: caseDetail(p)})
		}
	}
	h.queue = h.queue[:0]
}

func truncate(s string, n int) string {
	if len(s) > n {
		return s[:n] + "…"
	}
	return s
}

var mdBases = []string{
	"http://ex.org/dir/page.html", "http://ex.org/dir/sub/", "https://host.example/a/b?q=1", "http://ex.org/", "http://ex.org/a/b/c/d",
	"http://ex.org/dir/page.html#frag", "", "", "relative/location", "urn:x:y", "http://[::1",
}

func (h *harness) randConfig(allowCapture bool) config {
	c := config{mode: h.r.Intn(3), resolver: h.r.Intn(3), lax: 0}
	if !allowCapture && c.mode == 1 {
		c.mode = 2 * h.r.Intn(2)
	}
	if h.r.Chance(40) {
		c.lax = 1 + h.r.Intn(3)
	}
	return c
}

// ---------------------------------------------------------------- families

func (h *harness) corpus(dir string) {
	b, err := os.ReadFile(filepath.Join(dir, "encoding/htmlmicrodata/decoder_test.go"))
	if err != nil {
		h.rep.Count("harness:corpus-missing")
		return
	}
	re := regexp.MustCompile("(?s)Snippet:\\s*`([^`]*)`")
	for _, m := range re.FindAllStringSubmatch(string(b), -1) {
		h.pool = append(h.pool, m[1])
		for mode := 0; mode < 3; mode++ {
			for res := 0; res < 3; res++ {
				for _, base := range []string{"", "http://example.com/dir/page.html"} {
					h.one("corpus", base, m[1], config{mode: mode, resolver: res, lax: (mode + res) % 4})
				}
			}
		}
	}
}

func (h *harness) soupFamily(n int) {
	for i := 0; i < n; i++ {
		base := vh.Pick(h.r, basesNoFragment)
		s := &soup{r: h.r, base: base}
		doc := s.mdDoc()
		l := &layout{r: h.r, plain: h.r.Chance(10)}
		text := l.renderDoc(doc)
		if len(h.pool) < 4000 {
			h.pool = append(h.pool, text)
		}
		h.one("soup", base, text, h.randConfig(true))
	}
}

var wildTags = []string{"div", "div", "span", "span", "section", "a", "link", "meta", "img", "object", "data", "meter", "time", "audio", "video",
	"area", "embed", "source", "track", "iframe", "b", "custom-el", "svg", "math", "template", "ul", "li"}
var wildSpaces = []string{" ", " ", " ", "  ", "\t", "\n", "\f", "\r", "\v", "\u00a0", "\u0085", "\u2003", "\u3000", "\u1680", "\u2028", "\u205f", "\u200b", "\ufeff", "\u202f", "\u200a"}
var wildIDs = []string{"a", "b", "c", "d", "e", "t1", "A", "é"}
var wildNames = []string{"name", "knows", "url", "http://p.example/rel", "http://vocab.example/ns#p1", "urn:p:x", "no!pe", "!", "Name", "a b", "../up", "#frag", "é", "%zz", "http://[::1"}
var wildTypes = []string{"http://schema.org/Person", "http://schema.org/Thing", "http://vocab.example/ns#Other", "relative/type", "HTTP://Upper.Example/T",
	"http://ex.org/a b", "%zz", "http://[::1", "urn:x:y", "http://ex.org/é", "#", "http://ex.org/%41"}
var wildTimes = []string{"2020-01-02", "12:30:00", "2020-01-02T03:04:05Z", "2020-01", "2020", "P1D", "PT1H30M", "soon", "", " 2020-01-02 ", "2020-13-45", "-0001", "24:00:00",
	"2020-01-02T03:04:05+01:00", "P", "1e3"}
var wildValues = []string{"1", "-5", "+7", "1.5", "1e3", "0x10", "", " 3 ", "high", "١٢", "1_000", ".5", "5.", "NaN", "00012", "99999999999999999999999"}

func (h *harness) wildSpace() string { return vh.Pick(h.r, wildSpaces) }

func (h *harness) tokenList(pool []string, max int) string {
	n := 1 + h.r.Intn(max)
	var sb strings.Builder
	if h.r.Chance(15) {
		sb.WriteString(h.wildSpace())
	}
	for i := 0; i < n; i++ {
		if i > 0 {
			sb.WriteString(h.wildSpace())
		}
		sb.WriteString(vh.Pick(h.r, pool))
	}
	if h.r.Chance(15) {
		sb.WriteString(h.wildSpace())
	}
	return sb.String()
}

func (h *harness) wildURL(base string) string {
	opts := []string{vh.Pick(h.r, absIRIs), vh.Pick(h.r, relRefs), vh.Pick(h.r, relRefs), "", " ", " http://ex.org/padded ", "http://[::1", "%zz", "a b", " x "}
	return vh.Pick(h.r, opts)
}

func (h *harness) wildElem(depth int, base string) *Node {
	tag := vh.Pick(h.r, wildTags)
	var attrs []Attr
	if h.r.Chance(40) {
		attrs = append(attrs, Attr{"itemscope", vh.Pick(h.r, []string{"", "", "itemscope", "false"})})
	}
	if h.r.Chance(55) {
		attrs = append(attrs, Attr{"itemprop", h.tokenList(wildNames, 3)})
	}
	if h.r.Chance(25) {
		attrs = append(attrs, Attr{"itemid", h.wildURL(base)})
	}
	if h.r.Chance(30) {
		attrs = append(attrs, Attr{"itemtype", h.tokenList(wildTypes, 3)})
	}
	if h.r.Chance(40) {
		attrs = append(attrs, Attr{"itemref", h.tokenList(wildIDs, 4)})
	}
	if h.r.Chance(45) {
		attrs = append(attrs, Attr{"id", vh.Pick(h.r, wildIDs)})
	}
	if h.r.Chance(30) {
		attrs = append(attrs, Attr{"content", vh.Pick(h.r, lexes)})
	}
	if h.r.Chance(30) {
		attrs = append(attrs, Attr{vh.Pick(h.r, []string{"href", "src", "data"}), h.wildURL(base)})
	}
	if h.r.Chance(25) {
		attrs = append(attrs, Attr{"datetime", vh.Pick(h.r, wildTimes)})
	}
	if h.r.Chance(25) {
		attrs = append(attrs, Attr{"value", vh.Pick(h.r, wildValues)})
	}
	if h.r.Chance(5) {
		attrs = append(attrs, Attr{"xlink:href", "http://x.example/foreign"}, Attr{"xml:lang", "en"})
	}
	n := &Node{Tag: tag, Attrs: attrs}
	if voidTags[tag] {
		return n
	}
	k := h.r.Intn(4)
	if depth >= 4 {
		k = h.r.Intn(2)
	}
	for i := 0; i < k; i++ {
		if h.r.Chance(35) || depth >= 6 {
			n.Kids = append(n.Kids, T(vh.Pick(h.r, lexes)))
		} else {
			n.Kids = append(n.Kids, h.wildElem(depth+1, base))
		}
	}
	return n
}

func (h *harness) wildDoc(base string) *Node {
	var body []*Node
	k := 1 + h.r.Intn(5)
	for i := 0; i < k; i++ {
		body = append(body, h.wildElem(0, base))
	}
	var head []*Node
	if h.r.Chance(15) {
		head = append(head, E("base", []Attr{{"href", vh.Pick(h.r, []string{"http://base.example/b/", "/rooted/", "rel/", "http://[::1", ""})}}))
	}
	if h.r.Chance(15) {
		head = append(head, E("meta", []Attr{{"itemprop", "name"}, {"content", "in head"}}))
	}
	var htmlAttrs []Attr
	if h.r.Chance(10) {
		htmlAttrs = []Attr{{"itemscope", ""}, {"itemtype", "http://schema.org/WebPage"}, {"itemref", vh.Pick(h.r, wildIDs)}}
	}
	return E("html", htmlAttrs, E("head", nil, head...), E("body", nil, body...))
}

func (h *harness) wildFamily(n int) {
	for i := 0; i < n; i++ {
		base := vh.Pick(h.r, mdBases)
		doc := h.wildDoc(base)
		l := &layout{r: h.r, plain: h.r.Chance(30)}
		text := l.renderDoc(doc)
		if len(h.pool) < 8000 {
			h.pool = append(h.pool, text)
		}
		h.one("wild", base, text, h.randConfig(false))
	}
}

// clique: k items naming each other (all, or a random subset, optionally themselves) — with nesting variants
func (h *harness) cliqueFamily(n int, maxK int) {
	for i := 0; i < n; i++ {
		k := 2 + h.r.Intn(maxK-1)
		var body []*Node
		for j := 0; j < k; j++ {
			var refs []string
			for m := 0; m < k; m++ {
				if h.r.Chance(85) {
					refs = append(refs, fmt.Sprintf("i%d", m))
				}
			}
			for x := len(refs) - 1; x > 0; x-- {
				y := h.r.Intn(x + 1)
				refs[x], refs[y] = refs[y], refs[x]
			}
			attrs := []Attr{{"itemscope", ""}, {"id", fmt.Sprintf("i%d", j)}, {"itemref", strings.Join(refs, " ")}}
			if h.r.Chance(80) {
				attrs = append(attrs, Attr{"itemprop", fmt.Sprintf("p%d", j)})
			}
			if h.r.Chance(20) {
				attrs = append(attrs, Attr{"itemid", fmt.Sprintf("http://ex.org/item/%d", j)})
			}
			it := E("div", attrs, E("span", []Attr{{"itemprop", "name"}}, T(fmt.Sprintf("n%d", j))))
			if h.r.Chance(30) && len(body) > 0 {
				last := body[len(body)-1]
				last.Kids = append(last.Kids, it)
			} else {
				body = append(body, it)
			}
		}
		doc := E("html", nil, E("head", nil), E("body", nil, body...))
		l := &layout{r: h.r, plain: true}
		h.one("clique", "", l.renderDoc(doc), h.randConfig(true))
	}
}

var hotHTML = []byte("<>/=\"' \t\nitemscopeitempropitemrefitemiditemtypeid&;#-!")

func (h *harness) mutatedFamily(n int) {
	if len(h.pool) == 0 {
		return
	}
	for i := 0; i < n; i++ {
		b := []byte(vh.Pick(h.r, h.pool))
		k := 1 + h.r.Intn(3)
		for j := 0; j < k; j++ {
			b = h.r.Mutate(b, hotHTML)
		}
		if h.r.Chance(20) && len(b) > 0 {
			b = b[:h.r.Intn(len(b))]
		}
		if h.r.Chance(10) {
			// ill-formed UTF-8 and Unicode spaces inside whatever is there
			pos := h.r.Intn(len(b) + 1)
			ins := vh.Pick(h.r, []string{"\xff", "\xc2", "\xe2\x80", "\u00a0", "\u2000", "\xe1\x9a", "\x00", "\xf0\x9f"})
			b = append(b[:pos:pos], append([]byte(ins), b[pos:]...)...)
		}
		// capture mode excluded: its third-party panics on malformed markup are C05's listed findings D27a/D28
		h.one("mutated", vh.Pick(h.r, mdBases), string(b), h.randConfig(false))
	}
}

// ---------------------------------------------------------------- string functions

var hotBytes = []byte{'a', ' ', '\t', '\n', '\v', '\f', '\r', 0xc2, 0x85, 0xa0, 0xe1, 0x9a, 0x80, 0xe2, 0x81, 0x9f, 0xa8, 0xe3, 0xff, 0x8a}

var reLead = regexp.MustCompile(`^\s+`)
var reTok = regexp.MustCompile(`^[^\s]+`)

// goTypeTokens: the itemtype loop of decoder.go, verbatim
func goTypeTokens(attrVal string) (toks []string, panicked bool) {
	for len(attrVal) > 0 {
		if mm := reLead.FindString(attrVal); len(mm) > 0 {
			attrVal = attrVal[len(mm):]
			continue
		}
		mm := reTok.FindString(attrVal)
		if len(mm) == 0 {
			return toks, true
		}
		toks = append(toks, mm)
		attrVal = attrVal[len(mm):]
	}
	return toks, false
}

func hexJoin(l []string) string {
	p := make([]string, len(l))
	for i, s := range l {
		p[i] = hx(s)
	}
	return strings.Join(p, ",")
}

func (h *harness) stringsFamily(random int) {
	var inputs []string
	var rec func(prefix []byte, left int)
	rec = func(prefix []byte, left int) {
		inputs = append(inputs, string(prefix))
		if left == 0 {
			return
		}
		for _, c := range hotBytes {
			rec(append(append([]byte{}, prefix...), c), left-1)
		}
	}
	rec(nil, 3)
	exhaustive := len(inputs)
	for i := 0; i < random; i++ {
		n := 4 + h.r.Intn(12)
		b := make([]byte, n)
		for j := range b {
			if h.r.Chance(5) {
				b[j] = byte(h.r.Intn(256))
			} else {
				b[j] = vh.Pick(h.r, hotBytes)
			}
		}
		inputs = append(inputs, string(b))
	}
	h.rep.Exhaustive = append(h.rep.Exhaustive, fmt.Sprintf("strings.Fields / strings.TrimSpace / itemtype regexp loop vs model: all %d byte strings of length ≤ 3 over the %d-byte hot alphabet (ASCII spaces incl. VT, every byte of every multi-byte unicode.IsSpace rune, 0xFF)", exhaustive, len(hotBytes)))
	if *nomodel {
		return
	}
	var lines []string
	for _, s := range inputs {
		lines = append(lines, "mdd.fields "+vh.XS(s), "mdd.trim "+vh.XS(s), "mdd.types "+vh.XS(s))
	}
	outs, err := h.drv.Run(lines)
	if err != nil {
		fmt.Fprintln(os.Stderr, "driver:", err)
		os.Exit(2)
	}
	for i, s := range inputs {
		h.rep.Eval("str|"+s, len(s) > 0)
		h.rep.Count("family:strings")
		h.rep.Compared++
		tt, pan := goTypeTokens(s)
		want := []string{hexJoin(strings.Fields(s)), vh.XS(strings.TrimSpace(s)), hexJoin(tt)}
		if pan {
			h.rep.Add(vh.Case{Kind: "violation", Op: "C05 no panic", Go: "itemtype loop: empty match", Detail: fmt.Sprintf("itemtype=%q", s)})
		}
		for j, op := range []string{"fields", "trim", "types"} {
			if outs[3*i+j] != want[j] {
				h.rep.Count("fail:disagreement:strings")
				h.rep.Add(vh.Case{Kind: "disagreement", Op: "mdd." + op + " " + vh.XS(s), Go: want[j], Model: outs[3*i+j], Detail: fmt.Sprintf("%q", s)})
			}
		}
	}
}

// ---------------------------------------------------------------- replay

func (h *harness) replayFile(path string) {
	b, err := os.ReadFile(path)
	if err != nil {
		fmt.Fprintln(os.Stderr, "replay:", err)
		os.Exit(2)
	}
	var lines []string
	var js struct {
		Cases []vh.Case `json:"cases"`
	}
	if json.Unmarshal(b, &js) == nil && len(js.Cases) > 0 {
		for _, c := range js.Cases {
			if i := strings.Index(c.Detail, "replay-line: "); i >= 0 {
				lines = append(lines, c.Detail[i+len("replay-line: "):])
			}
		}
	} else {
		lines = strings.Split(string(b), "\n")
	}
	for _, l := range lines {
		f := strings.Fields(l)
		if len(f) != 3 || strings.HasPrefix(l, "#") {
			continue
		}
		cfg, err := parseConfig(f[0])
		base, e1 := hex.DecodeString(f[1])
		text, e2 := hex.DecodeString(f[2])
		if err != nil || e1 != nil || e2 != nil {
			continue
		}
		h.one("replay", string(base), string(text), cfg)
	}
	h.flush()
}

func main() {
	flag.Parse()
	seed := vh.SeedFromEnv()
	rep := vh.NewReport(*propName, *tier, seed, "HTML documents (decoder_test.go snippets; c11's valid Microdata soup; unconstrained attribute soup with itemref cycles, duplicate/missing ids, Unicode/VT whitespace, foreign elements; itemref cliques; byte-mutated renderings) x parse path (ParseDocument, +text offsets, x/net/html+NewDocument) x vocabulary resolver (literal, itemtype, failing) x lax-content setting x document location; each parsed DOM is run through the real decoder and through the Lean model (ordered statements, hook calls, outcome); non-trivial = the real decoder yields at least one statement (documents), non-empty input (string functions); distinct = by (configuration, location, document bytes)")
	if _, err := vh.LoadFindings(*findings); err != nil {
		fmt.Fprintln(os.Stderr, "findings:", err)
		os.Exit(2)
	}
	h := &harness{r: vh.NewRng(seed), rep: rep, drv: vh.Driver{Path: *driver}, fam: map[string]bool{}}
	if *only != "" {
		for _, f := range strings.Split(*only, ",") {
			h.fam[f] = true
		}
	}
	dir := *repoDir
	if dir == "" {
		dir = os.Getenv("VERIF_REPO")
	}
	if dir == "" {
		dir = "/repo"
	}
	if *replay != "" {
		h.replayFile(*replay)
	} else {
		n := 60000
		if *tier == "thorough" {
			n = 1500000
		}
		n *= *scale
		if h.want("strings") {
			h.stringsFamily(n / 4)
		}
		if h.want("corpus") {
			h.corpus(dir)
		}
		for done := 0; done < n; {
			b := min(n-done, 20000)
			done += b
			if h.want("soup") {
				h.soupFamily(b * 20 / 100)
			}
			if h.want("wild") {
				h.wildFamily(b * 45 / 100)
			}
			if h.want("clique") {
				h.cliqueFamily(b*5/100, 7)
			}
			if h.want("mutated") {
				h.mutatedFamily(b * 30 / 100)
			}
			h.flush()
		}
		if h.want("clique") {
			// the memo at work: 9..12 items all naming each other; without it the walk is factorial
			h.cliqueFamily(8, 12)
		}
		h.flush()
	}
	if rep.Cases == nil {
		rep.Cases = []vh.Case{}
	}
	if err := rep.Write(*out); err != nil {
		fmt.Fprintln(os.Stderr, err)
		os.Exit(2)
	}
	fmt.Printf("c11md: %d evaluations (%d distinct non-trivial), %d compared with the model, %d failures\n", rep.Evaluations, rep.Distinct, rep.Compared, rep.Failures())
	for _, k := range vh.SortedKeys(rep.Hist) {
		if strings.HasPrefix(k, "fail:") || strings.HasPrefix(k, "harness:") {
			fmt.Printf("  %s = %d\n", k, rep.Hist[k])
		}
	}
	if rep.Failures() > 0 {
		os.Exit(1)
	}
}
