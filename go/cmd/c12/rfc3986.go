package main

// Independent string-level implementation of RFC 3986 section 5.2 (strict), Appendix B splitting
// and section 5.3 recomposition. No use of net/url. This is the property oracle evaluated on the
// Go side; the Lean driver runs Spec.RFC3986 on the same inputs, so the two independent
// renderings of the RFC also check each other.

import "strings"

type parts struct {
	scheme, authority, path, query, fragment string
	hasScheme, hasAuthority, hasQuery, hasFragment bool
}

func span(s string, stop string) int {
	for i := 0; i < len(s); i++ {
		if strings.IndexByte(stop, s[i]) >= 0 {
			return i
		}
	}
	return len(s)
}

// rfcSplit: ^(([^:/?#]+):)?(//([^/?#]*))?([^?#]*)(\?([^#]*))?(#(.*))?
func rfcSplit(s string) parts {
	var p parts
	if i := span(s, ":/?#"); i > 0 && i < len(s) && s[i] == ':' {
		p.scheme, p.hasScheme = s[:i], true
		s = s[i+1:]
	}
	if strings.HasPrefix(s, "//") {
		s = s[2:]
		i := span(s, "/?#")
		p.authority, p.hasAuthority = s[:i], true
		s = s[i:]
	}
	i := span(s, "?#")
	p.path, s = s[:i], s[i:]
	if strings.HasPrefix(s, "?") {
		s = s[1:]
		i := span(s, "#")
		p.query, p.hasQuery = s[:i], true
		s = s[i:]
	}
	if strings.HasPrefix(s, "#") {
		p.fragment, p.hasFragment = s[1:], true
	}
	return p
}

func rfcRecompose(p parts) string {
	var sb strings.Builder
	if p.hasScheme {
		sb.WriteString(p.scheme)
		sb.WriteByte(':')
	}
	if p.hasAuthority {
		sb.WriteString("//")
		sb.WriteString(p.authority)
	}
	sb.WriteString(p.path)
	if p.hasQuery {
		sb.WriteByte('?')
		sb.WriteString(p.query)
	}
	if p.hasFragment {
		sb.WriteByte('#')
		sb.WriteString(p.fragment)
	}
	return sb.String()
}

// rfcRemoveDotSegments: section 5.2.4, steps 2A-2E.
func rfcRemoveDotSegments(in string) string {
	out := ""
	for in != "" {
		switch {
		case strings.HasPrefix(in, "../"):
			in = in[3:]
		case strings.HasPrefix(in, "./"):
			in = in[2:]
		case strings.HasPrefix(in, "/./"):
			in = in[2:]
		case in == "/.":
			in = "/"
		case strings.HasPrefix(in, "/../") || in == "/..":
			if in == "/.." {
				in = "/"
			} else {
				in = in[3:]
			}
			if i := strings.LastIndexByte(out, '/'); i >= 0 {
				out = out[:i]
			} else {
				out = ""
			}
		case in == "." || in == "..":
			in = ""
		default:
			i := 0
			if in[0] == '/' {
				i = 1
			}
			j := strings.IndexByte(in[i:], '/')
			if j < 0 {
				out, in = out+in, ""
			} else {
				out, in = out+in[:i+j], in[i+j:]
			}
		}
	}
	return out
}

func rfcMerge(b parts, ref string) string {
	if b.hasAuthority && b.path == "" {
		return "/" + ref
	}
	return b.path[:strings.LastIndexByte(b.path, '/')+1] + ref
}

func rfcResolve(base, ref string) string { return rfcRecompose(rfcResolveParts(base, ref)) }

// rfcResolveParts: the target components of 5.2.2 before recomposition.
func rfcResolveParts(base, ref string) parts {
	b, r := rfcSplit(base), rfcSplit(ref)
	var t parts
	switch {
	case r.hasScheme:
		t = r
		t.path = rfcRemoveDotSegments(r.path)
	case r.hasAuthority:
		t = r
		t.path = rfcRemoveDotSegments(r.path)
		t.scheme, t.hasScheme = b.scheme, b.hasScheme
	default:
		t = b
		if r.path == "" {
			if r.hasQuery {
				t.query, t.hasQuery = r.query, true
			}
		} else {
			if strings.HasPrefix(r.path, "/") {
				t.path = rfcRemoveDotSegments(r.path)
			} else {
				t.path = rfcRemoveDotSegments(rfcMerge(b, r.path))
			}
			t.query, t.hasQuery = r.query, r.hasQuery
		}
		t.fragment, t.hasFragment = r.fragment, r.hasFragment
	}
	return t
}
