/-
  Part C12W of property C12 — resolution through the model of `iri.ParsedIRI` equals RFC 3986 section 5.2 on
  a delimited sub-language (statement; lemmas in Proofs/C12WrapResolve*.lean, C12WrapTarget.lean).
-/
import RdfModel.Props.C12Wrap
import RdfModel.Proofs.C12WrapResolveRef
import RdfModel.Proofs.C12WrapAbs
namespace RdfModel.C12W
open RdfModel.GoUrlFull RdfModel.PIRI
open RdfModel.Spec.RFC3986 (split recompose resolve resolveParts)

/-- Full-strength statement of property C12 for the code: for every (absolute base, reference) pair of the
    grammar `valid` (RFC 3987 recogniser, go/cmd/c12/gen.go) outside the known deviation classes,
    `ParseIRI(b).Parse(r).String()` is the RFC 3986 5.2 target. NOT proved. -/
def ResolveEqRfc (valid : Str → Str → Prop) : Prop :=
  ∀ b r : Str, valid b r → C12.classes false b r = [] → resolveS b r = some (resolve b r)

/-- Proved part. For a base `scheme://host[:port]/path[?query]` and a RELATIVE reference (no scheme, no
    authority: path-absolute, path-relative with any dot segments, empty path, query-only, fragment-only), both
    inside `InLang` and with '%'-free paths, outside the classes base-fragment-inherited (base without
    fragment), base-dot-segments-empty-path-reference and dotdot-then-empty-segment:
    `ParseIRI(b)` and `.Parse(r)` succeed and `String()` of the result is exactly the string RFC 3986 5.2
    (strict, with remove_dot_segments, no normalisation) produces.
    Missing relative to `ResolveEqRfc`: references with a scheme or an authority, bases without authority or
    with an empty path (opaque / rootless bases), '%' in paths, non-ASCII bytes, userinfo, IP literals, and
    chained histories (the witness `deviates_chain_sticky` shows the chained statement is false as it stands). -/
theorem resolve_eq_rfc_partial (b r : Str) (h : ResolveLang (split b) (split r) = true) :
    resolveStr b r = .ok (some (resolve b r)) := by
  have hf := rlFacts h
  obtain ⟨hb1, _⟩ := parseIRI_eq_pOf (split b) hf.inB
  obtain ⟨hr1, _⟩ := parseIRI_eq_pOf (split r) hf.inR
  obtain ⟨_, ht2⟩ := parseIRI_eq_pOf (tgt (split b) (split r)) (tgt_inLang hf)
  rw [C12.recompose_split] at hb1 hr1
  unfold resolveStr ParsedIRI.parseRef
  rw [hb1]
  simp only [hr1, resolve_pOf hf, ht2]
  rw [← resolveParts_eq_tgt hf]
  rfl

theorem resolveS_eq_rfc_partial (b r : Str) (h : ResolveLang (split b) (split r) = true) :
    resolveS b r = some (resolve b r) := by
  simp [resolveS, resolve_eq_rfc_partial b r h]

-- non-trivial members: dot segments that climb above the root, empty and absent query/fragment, query-only and
-- fragment-only references, escapes in the fragment, a port, sub-delims that set RawPath
example : ResolveLang (split (S "http://a/b/c/d;p?q")) (split (S "../../../g/./h/..?y#s%41")) = true := by decide +kernel
example : ResolveLang (split (S "x-y.z+1://h:80/(a)/b!?")) (split (S "?#")) = true := by decide +kernel
example : ResolveLang (split (S "https://example.org/a/b")) (split (S "")) = true ∧
    ResolveLang (split (S "https://example.org/a/b?q")) (split (S "#")) = true ∧
    ResolveLang (split (S "file://h/a/b")) (split (S "/.//x/../y")) = true := by decide +kernel
-- and pairs outside
example : ResolveLang (split (S "http://h/a#f")) (split (S "b")) = false ∧
    ResolveLang (split (S "http://h/a/./b")) (split (S "#f")) = false ∧
    ResolveLang (split (S "http://h/a")) (split (S "..//x")) = false ∧
    ResolveLang (split (S "http://h")) (split (S "a")) = false ∧
    ResolveLang (split (S "urn:a/b")) (split (S "c")) = false := by decide +kernel

/-- a consequence in the property's own words: an absolute-path reference without dot segments against any base
    of the sub-language keeps the base's scheme and authority and is otherwise returned unchanged -/
example : resolveS (S "http://a/b/c/d;p?q") (S "../../../g/./h/..?y#s%41") = some (S "http://a/g/?y#s%41") := by
  decide +kernel

/-- The property's "in particular an absolute IRI without dot segments is returned unchanged", for the code:
    against a base of ANY shape inside `InLang` (hierarchical or opaque, with or without authority, with or
    without query and non-empty fragment — only a base ending in an empty fragment '#' is excluded, class
    base-fragment-inherited), a reference of `InLang` that has a scheme and no dot segment in its path resolves to
    itself: `ParseIRI(b).Parse(r).String() = r`, which is also what RFC 3986 5.2 gives. -/
theorem resolve_abs_identity_partial (b r : Str) (h : AbsLang (split b) (split r) = true) :
    resolveStr b r = .ok (some r) ∧ resolve b r = r := by
  have hf := absFacts h
  refine ⟨?_, ?_⟩
  · obtain ⟨hb1, _⟩ := parseIRI_eq_pOf (split b) hf.inB
    obtain ⟨hr1, hr2⟩ := parseIRI_eq_pOf (split r) hf.inR
    rw [C12.recompose_split] at hb1 hr1 hr2
    unfold resolveStr ParsedIRI.parseRef
    rw [hb1]
    simp only [hr1, resolve_abs_pOf hf, hr2]
  · apply C12.resolve_abs_nodots b r hf.rs
    intro s hs
    have := hf.nd
    unfold C12.hasDotSegment at this
    have := List.any_eq_false.mp this s hs
    simpa using this

example : AbsLang (split (S "urn:x:y")) (split (S "http://a.example/b/c%2e/..d?q#f")) = true ∧
    AbsLang (split (S "http://h/a/./b?q#f")) (split (S "mailto:a@b.example")) = true ∧
    AbsLang (split (S "../rel")) (split (S "file:/etc/passwd")) = true := by decide +kernel
example : AbsLang (split (S "http://h/a#")) (split (S "http://o/")) = false ∧
    AbsLang (split (S "http://h/a")) (split (S "http://o/a/../b")) = false := by decide +kernel

end RdfModel.C12W
