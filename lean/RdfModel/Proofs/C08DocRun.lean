/-
  C08, document level — runs of the statement machine on printed productions: object, object list,
  predicate-object list (generic in a predicate `ObjGood` on objects, so that the nested cases can
  reuse them), then triples, directives, graph blocks and documents in `Proofs/C08DocTop.lean`.
-/
import RdfModel.Proofs.C08DocStep
set_option linter.unusedSimpArgs false
set_option linter.unusedSectionVars false
set_option linter.unusedVariables false
namespace RdfModel.C08
open RdfModel RdfModel.TA RdfModel.C02 RdfModel.Ttl RdfModel.Spec.TtlPrint RdfModel.TtlDoc

theorem slot_ok {ch : Choices} (hch : choicesOK ch = true) (i : Nat) : slotOK (ch.at i) = true := by
  unfold Choices.at
  rw [List.getD_eq_getElem?_getD]
  cases h : ch[i]? with
  | none => rfl
  | some s =>
    simp only [Option.getD_some]
    have hm : s ∈ ch := List.mem_of_getElem? h
    simp only [choicesOK, List.all_eq_true] at hch
    exact hch s hm

theorem printLocal_isSome_indep (T : Tables) (l : List Nat) : ∀ (first : Bool) (cs : List Choice),
    (printLocalFrom T first cs l).isSome = (printLocalFrom T first [] l).isSome := by
  induction l with
  | nil => intro f cs; rfl
  | cons c l ih =>
    intro f cs
    unfold printLocalFrom
    simp only [List.head?_nil, Option.getD_none, List.tail_nil]
    have e1 := ih false cs.tail
    have e2 := ih false []
    split <;> split <;> (try split) <;> (try split) <;> (try split) <;> simp_all [Option.isSome_map]

theorem pname_printable {T : Tables} {p l : List Nat} (cs : List Choice) (h : (printLocal T [] l).isSome = true) :
    ∃ out, printPrefixedName T cs p l = some out := by
  have : (printLocal T cs l).isSome = true := by
    unfold printLocal at h ⊢
    rw [printLocal_isSome_indep]; exact h
  obtain ⟨lo, hlo⟩ := Option.isSome_iff_exists.1 this
  exact ⟨p ++ 0x3a :: lo, by simp [printPrefixedName, hlo]⟩

theorem scalars_of_B {s : List Nat} (h : scalarsB s = true) : Scalars s := by
  intro c hc
  simp only [scalarsB, List.all_eq_true] at h
  exact (isScalarB_iff c).1 (h c hc)

section
variable {T : Tables} (hT : TablesOK T) (hT2 : TablesOK2 T) {C : Cfg} (hC : CfgOK T C)
variable {ch : Choices} (hch : choicesOK ch = true)

theorem layHead_ne {h : Nat} (hh : layHead h = true) : h ≠ 0x40 ∧ h ≠ 0x5e := by
  simp only [layHead, isWsRune, Bool.or_eq_true, decide_eq_true_eq] at hh
  rcases hh with (((hh | hh) | hh) | hh) | hh <;> subst hh <;> decide

theorem after_head (k : Prev) (s : Slot) {rest : List Nat} {c : Nat} {r : List Nat} (hf : Follows C rest c r)
    (h1 : c ≠ 0x40) (h2 : c ≠ 0x5e) : ∃ a A', after T k s rest = a :: A' ∧ a ≠ 0x40 ∧ a ≠ 0x5e := by
  unfold after
  split
  · exact ⟨0x20, rest, rfl, by decide, by decide⟩
  · rcases renderLay_head rest.isEmpty s.lay with h0 | ⟨h, t, ht, hh⟩
    · rw [h0, hf.1]; exact ⟨c, r, rfl, h1, h2⟩
    · rw [ht]; exact ⟨h, t ++ rest, rfl, layHead_ne hh⟩

include hT2 hC in
/-- a scan call on the first token of `text`, followed by a run -/
theorem Steps.tok {f : Frame} {s : List Frame} {inp text : List Nat} {env : Env} {c : Nat} {tl : List Nat} {o : Out}
    {ss : List Stmt} {cf : Conf} (hin : SkEq C inp text) (htext : text = c :: tl) (hsolid : solid T c = true)
    (h23 : c ≠ 0x23) (hfn : stepFn C .eof f.k f.x env (.rune c tl) = .ok o)
    (hrest : Steps C .eof ⟨o.cur.toList ++ (if o.term then [] else o.push.reverse ++ s), o.inp, o.env⟩ ss cf) :
    Steps C .eof ⟨f :: s, inp, env⟩ (o.emit.toList ++ ss) cf := by
  apply Steps.first (a := c) (r := tl) _ hfn hrest
  rw [hin, htext]
  exact skipWs_solid hT2 hC hsolid h23 tl

include hT2 hC in
/-- … when the token rune is what `inp` is known to continue with -/
theorem Steps.fol {f : Frame} {s : List Frame} {inp rest : List Nat} {env : Env} {c : Nat} {tl : List Nat} {o : Out}
    {ss : List Stmt} {cf : Conf} (hin : SkEq C inp rest) (hf : Follows C rest c tl)
    (hfn : stepFn C .eof f.k f.x env (.rune c tl) = .ok o)
    (hrest : Steps C .eof ⟨o.cur.toList ++ (if o.term then [] else o.push.reverse ++ s), o.inp, o.env⟩ ss cf) :
    Steps C .eof ⟨f :: s, inp, env⟩ (o.emit.toList ++ ss) cf := by
  apply Steps.first (a := c) (r := tl) _ hfn hrest
  rw [hin]; exact hf.2


/-! ### objects -/

/-- The run of `reader_scan_Object` over a printed object: the statement linking it to its context,
    then the statements inside it. -/
def ObjGood (T : Tables) (C : Cfg) (ch : Choices) (o : Obj) : Prop :=
  ∀ (i : Nat) (x : Ectx) (s : List Frame) (inp rest : List Nat) (c : Nat) (r : List Nat) (g : Option TermB)
    (st st' : DState) (t : TermB) (qs : List QuadB),
    Follows C rest c r → c ≠ 0x40 → c ≠ 0x5e → x.subj.isSome = true → x.graph = g.map toT →
    dObj C.resolve g st o = some (t, qs, st') →
    SkEq C inp (pObj ⟨T, ch⟩ i o rest) →
    ∃ inp', SkEq C inp' rest ∧
      Steps C .eof ⟨⟨x, .object⟩ :: s, inp, envOf st⟩ (mkStmt x (toT t) :: qs.map toStmt) ⟨s, inp', envOf st'⟩

theorem iriOf_ref (st : DState) (r : List Nat) : iriOf C.resolve st (.ref r) = resolveIRI C (envOf st) r := rfl

theorem iriOf_pn (R : Resolver) (st : DState) (p l : List Nat) : iriOf R st (.pn p l) = (envOf st).expand p l := by
  simp [iriOf, Env.expand, envOf, lookupNs_eq]

include hT hT2 hC hch in
theorem objGood_iri (x0 : IriS) (hwf : iriWf T x0 = true) (hnb : objNoBoolPfx (.iri x0) = true) :
    ObjGood T C ch (.iri x0) := by
  intro i x s inp rest c r g st st' t qs hf h40 h5e hxsome hg hd hin
  cases x0 with
  | ref rr =>
    simp only [dObj, Option.map_eq_some_iff] at hd
    obtain ⟨ii, hii, heq⟩ := hd
    simp only [Prod.mk.injEq] at heq
    obtain ⟨rfl, rfl, rfl⟩ := heq
    have hs : Scalars rr := scalars_of_B (by simpa [iriWf] using hwf)
    have hres : resolveIRI C (envOf st) rr = some ii := by rw [← iriOf_ref]; exact hii
    have hA := after_skip (T := T) hC .punct (ch.at i) (slot_ok hch i) rest
    refine ⟨_, hA, ?_⟩
    have htext : printIRIREF (ch.at i).cs rr ++ after T .punct (ch.at i) rest =
        0x3c :: (printIriBody (ch.at i).cs rr ++ [0x3e] ++ after T .punct (ch.at i) rest) := by simp [printIRIREF]
    have := Steps.tok hT2 hC (f := ⟨x, .object⟩) (s := s) (env := envOf st) hin htext
      (solid_delim (by decide) (by decide)) (by decide)
      (fn_object_iriref hT hC x (envOf st) _ rr ii _ _ _ htext hs hres) (Steps.refl _)
    simpa [toT, Term.map] using this
  | pn p l =>
    simp only [dObj, Option.map_eq_some_iff] at hd
    obtain ⟨ii, hii, heq⟩ := hd
    simp only [Prod.mk.injEq] at heq
    obtain ⟨rfl, rfl, rfl⟩ := heq
    simp only [iriWf, Bool.and_eq_true] at hwf
    obtain ⟨⟨⟨hp, hps⟩, hls⟩, hpl⟩ := hwf
    obtain ⟨out, hout⟩ := pname_printable (p := p) (ch.at i).cs hpl
    have hb : boolPrefixed p = false := by simpa [objNoBoolPfx] using hnb
    have hex : (envOf st).expand p l = some ii := by rw [← iriOf_pn]; exact hii
    have hA := after_skip (T := T) hC .name (ch.at i) (slot_ok hch i) rest
    have hcl := after_noclash hT2 .name (ch.at i) rest (T := T)
    refine ⟨_, hA, ?_⟩
    obtain ⟨lo, hlo⟩ := pname_shape hout
    have htx : pObj ⟨T, ch⟩ i (.iri (.pn p l)) rest = out ++ after T .name (ch.at i) rest := by
      simp [pObj, pIri, iriText, iriKind, hout]
    obtain ⟨c0, tl0, htext⟩ : ∃ c0 tl0, out ++ after T .name (ch.at i) rest = c0 :: tl0 := by
      rw [hlo]; cases p <;> simp
    have htext' : p ++ 0x3a :: (lo ++ after T .name (ch.at i) rest) = c0 :: tl0 := by rw [← htext, hlo]; simp
    have hns := prefix_head hp _ c0 tl0 htext'
    obtain ⟨hso, h23⟩ := nameStart_solid hT2 hns
    have s2 := Steps.tok hT2 hC (f := ⟨x, .objectPName⟩) (s := s) (env := envOf st) (inp := c0 :: tl0) SkEq.rfl' rfl
      hso h23 (fn_objectPName hT hC x (envOf st) _ p l out ii _ c0 tl0 htext hp (scalars_of_B hps) (scalars_of_B hls) hout hcl hex)
      (Steps.refl _)
    have s1 := Steps.tok hT2 hC (f := ⟨x, .object⟩) (s := s) (env := envOf st) (hin.trans (by rw [htx]; exact SkEq.rfl')) htext
      hso h23 (fn_object_pname hT2 hC x (envOf st) hp hb _ c0 tl0 htext') (by simpa using s2)
    simpa [toT, Term.map] using s1

include hT hT2 hC hch in
theorem objGood_bn (l : List Nat) (hwf : labelWf T l = true) : ObjGood T C ch (.bn l) := by
  intro i x s inp rest c r g st st' t qs hf h40 h5e hxsome hg hd hin
  simp only [dObj, Option.some.injEq, Prod.mk.injEq] at hd
  obtain ⟨rfl, rfl, rfl⟩ := hd
  simp only [labelWf, Bool.and_eq_true] at hwf
  have hA := after_skip (T := T) hC .label (ch.at i) (slot_ok hch i) rest
  have hcl := after_noclash hT2 .label (ch.at i) rest (T := T)
  refine ⟨_, hA, ?_⟩
  have := Steps.tok hT2 hC (f := ⟨x, .object⟩) (s := s) (env := envOf st) hin
    (show pObj ⟨T, ch⟩ i (.bn l) rest = 0x5f :: (0x3a :: l ++ after T .label (ch.at i) rest) by simp [pObj, pBNode])
    (solid_pn (hT2.u_sub 0x5f hT2.us) (by decide)) (by decide)
    (fn_object_bnode hT hC x (envOf st) l _ (scalars_of_B hwf.1) hwf.2 hcl) (Steps.refl _)
  simpa [toT, Term.map, toBN] using this

include hT hT2 hC hch in
theorem objGood_anon : ObjGood T C ch .anon := by
  intro i x s inp rest c r g st st' t qs hf h40 h5e hxsome hg hd hin
  simp only [dObj, Option.some.injEq, Prod.mk.injEq] at hd
  obtain ⟨rfl, rfl, rfl⟩ := hd
  have hA1 := after_skip (T := T) hC .punct (ch.at i) (slot_ok hch i) (0x5d :: after T .punct (ch.at (i + 1)) rest)
  have hA2 := after_skip (T := T) hC .punct (ch.at (i + 1)) (slot_ok hch (i + 1)) rest
  refine ⟨_, hA2, ?_⟩
  have hf5d : ∀ tl, Follows C (0x5d :: tl) 0x5d tl := fun tl => follows_solid hT2 hC (solid_delim (by decide) (by decide)) (by decide) tl
  -- `]` closes the property list
  have s4 := Steps.fol hT2 hC (f := ⟨{ x with subj := some (envOf st).fresh.1, pred := none }, .bnplEnd⟩) (s := s)
    (env := (envOf st).fresh.2) (inp := 0x5d :: after T .punct (ch.at (i + 1)) rest) SkEq.rfl' (hf5d _)
    (fn_bnplEnd _ _ _) (Steps.refl _)
  have s3 := Steps.fol hT2 hC (f := ⟨{ x with subj := some (envOf st).fresh.1, pred := none }, .polContinue⟩)
    (s := ⟨{ x with subj := some (envOf st).fresh.1, pred := none }, .bnplEnd⟩ :: s)
    (env := (envOf st).fresh.2) (inp := 0x5d :: after T .punct (ch.at (i + 1)) rest) SkEq.rfl' (hf5d _)
    (fn_polContinue_pop _ _ _ _ (by decide)) (by simpa using s4)
  have s2 := Steps.fol hT2 hC (f := ⟨{ x with subj := some (envOf st).fresh.1, pred := none }, .pol⟩)
    (s := ⟨{ x with subj := some (envOf st).fresh.1, pred := none }, .polContinue⟩ ::
          ⟨{ x with subj := some (envOf st).fresh.1, pred := none }, .bnplEnd⟩ :: s)
    (env := (envOf st).fresh.2) (inp := after T .punct (ch.at i) (0x5d :: after T .punct (ch.at (i + 1)) rest)) hA1 (hf5d _)
    (fn_pol_pop hT2 hC _ _ _ _ (Or.inr (Or.inl rfl))) (by simpa using s3)
  have s1 := Steps.tok hT2 hC (f := ⟨x, .object⟩) (s := s) (env := envOf st) hin
    (show pObj ⟨T, ch⟩ i .anon rest = 0x5b :: after T .punct (ch.at i) (0x5d :: after T .punct (ch.at (i + 1)) rest) by
      simp [pObj, pPunct])
    (solid_delim (by decide) (by decide)) (by decide) (fn_object_bracket x (envOf st) _) (by simpa using s2)
  simpa [envOf_fresh] using s1

include hT hT2 hC hch in
theorem objGood_nil : ObjGood T C ch (.coll []) := by
  intro i x s inp rest c r g st st' t qs hf h40 h5e hxsome hg hd hin
  simp only [dObj, Option.some.injEq, Prod.mk.injEq] at hd
  obtain ⟨rfl, rfl, rfl⟩ := hd
  have hA1 := after_skip (T := T) hC .punct (ch.at i) (slot_ok hch i) (0x29 :: after T .punct (ch.at (i + 1)) rest)
  have hA2 := after_skip (T := T) hC .punct (ch.at (i + 1)) (slot_ok hch (i + 1)) rest
  refine ⟨_, hA2, ?_⟩
  have s2 := Steps.fol hT2 hC (f := ⟨x, .collOpenObj⟩) (s := s) (env := envOf st)
    (inp := after T .punct (ch.at i) (0x29 :: after T .punct (ch.at (i + 1)) rest)) hA1
    (follows_solid hT2 hC (solid_delim (by decide) (by decide)) (by decide) _)
    (fn_collOpenObj_close x (envOf st) _) (Steps.refl _)
  have s1 := Steps.tok hT2 hC (f := ⟨x, .object⟩) (s := s) (env := envOf st) hin
    (show pObj ⟨T, ch⟩ i (.coll []) rest = 0x28 :: after T .punct (ch.at i) (0x29 :: after T .punct (ch.at (i + 1)) rest) by
      simp [pObj, pPunct, pItems, itemsSlots])
    (solid_delim (by decide) (by decide)) (by decide) (fn_object_paren x (envOf st) _) (by simpa using s2)
  simpa [envOf_fresh, toT, Term.map, TA.rdfNil, TtlDoc.rdfNil, TA.rdfNS, TtlDoc.rdfNS] using s1

theorem delim_solid (T : Tables) (st : Style) : solid T st.delim = true := by
  cases st <;> simp [Style.delim, solid, delims, isWsRune]

theorem delim_ne23 (st : Style) : st.delim ≠ 0x23 := by
  cases st <;> simp [Style.delim]

theorem rdfNil_eq : TA.rdfNil = TtlDoc.rdfNil := rfl
theorem rdfType_eq : TA.rdfType = TtlDoc.rdfType := rfl

include hT hT2 hC hch in
theorem objGood_lit (l : Lit) (hwf : litWf T l = true) : ObjGood T C ch (.lit l) := by
  intro i x s inp rest c r g st st' t qs hf h40 h5e hxsome hg hd hin
  simp only [dObj, Option.map_eq_some_iff] at hd
  obtain ⟨tt, htt, heq⟩ := hd
  simp only [Prod.mk.injEq] at heq
  obtain ⟨rfl, rfl, rfl⟩ := heq
  cases l with
  | plain lex =>
    simp only [litOf, Option.some.injEq] at htt
    subst htt
    have hs : Scalars lex := scalars_of_B (by simpa [litWf] using hwf)
    have hA := after_skip (T := T) hC (strKind (ch.at i).sty lex) (ch.at i) (slot_ok hch i) rest
    have hcl := after_noclash hT2 (strKind (ch.at i).sty lex) (ch.at i) rest (T := T)
    obtain ⟨a, A', hAe, ha1, ha2⟩ := after_head (T := T) (strKind (ch.at i).sty lex) (ch.at i) hf h40 h5e
    refine ⟨_, hA, ?_⟩
    obtain ⟨c0, tl0, htext⟩ : ∃ c0 tl0, printString (ch.at i).sty (ch.at i).cs lex ++ a :: A' = c0 :: tl0 := by
      cases hsty : (ch.at i).sty <;> simp [printString, quotes, Style.long, Style.delim]
    have hc0 := printString_head _ _ _ _ c0 tl0 htext
    rw [hAe] at hcl
    have := Steps.tok hT2 hC (f := ⟨x, .object⟩) (s := s) (env := envOf st) hin
      (show pObj ⟨T, ch⟩ i (.lit (.plain lex)) rest = c0 :: tl0 by simp [pObj, pLit, hAe, htext])
      (by rw [hc0]; exact delim_solid T _) (by rw [hc0]; exact delim_ne23 _)
      (fn_object_plain hT hC x (envOf st) _ _ lex c0 tl0 a A' htext hs hcl ha1 ha2) (Steps.refl _)
    simpa [toT, Term.map, hAe] using this
  | lang lex tag =>
    simp only [litOf, Option.some.injEq] at htt
    subst htt
    simp only [litWf, Bool.and_eq_true] at hwf
    have hs : Scalars lex := scalars_of_B hwf.1
    have hA := after_skip (T := T) hC .lang (ch.at i) (slot_ok hch i) rest
    have hcl := after_noclash hT2 .lang (ch.at i) rest (T := T)
    refine ⟨_, hA, ?_⟩
    obtain ⟨c0, tl0, htext⟩ : ∃ c0 tl0, printString (ch.at i).sty (ch.at i).cs lex ++ 0x40 :: (tag ++ after T .lang (ch.at i) rest) = c0 :: tl0 := by
      cases hsty : (ch.at i).sty <;> simp [printString, quotes, Style.long, Style.delim]
    have hc0 := printString_head _ _ _ _ c0 tl0 htext
    have := Steps.tok hT2 hC (f := ⟨x, .object⟩) (s := s) (env := envOf st) hin
      (show pObj ⟨T, ch⟩ i (.lit (.lang lex tag)) rest = c0 :: tl0 by simp [pObj, pLit, htext])
      (by rw [hc0]; exact delim_solid T _) (by rw [hc0]; exact delim_ne23 _)
      (fn_object_lang hT hT2 hC x (envOf st) _ _ lex tag c0 tl0 _ htext hs hwf.2 hcl) (Steps.refl _)
    simpa [toT, Term.map] using this
  | typed lex dt =>
    simp only [litOf] at htt
    cases hdt : iriOf C.resolve st dt with
    | none => simp [hdt] at htt
    | some ii =>
      simp only [hdt] at htt
      split at htt
      · cases htt
      · next hnl =>
        simp only [Option.some.injEq] at htt
        subst htt
        simp only [litWf, Bool.and_eq_true] at hwf
        have hs : Scalars lex := scalars_of_B hwf.1
        cases dt with
        | ref rr =>
          have hrs : Scalars rr := scalars_of_B (by simpa [iriWf] using hwf.2)
          have hres : resolveIRI C (envOf st) rr = some ii := by rw [← iriOf_ref]; exact hdt
          have hA := after_skip (T := T) hC .punct (ch.at (i + 1)) (slot_ok hch (i + 1)) rest
          refine ⟨_, hA, ?_⟩
          have hiri := iriIRIREF_print hT hC (envOf st) (ch.at (i + 1)).cs rr ii (after T .punct (ch.at (i + 1)) rest) hrs hres
          have hpr : printIRIREF (ch.at (i + 1)).cs rr ++ after T .punct (ch.at (i + 1)) rest =
              0x3c :: (printIriBody (ch.at (i + 1)).cs rr ++ [0x3e] ++ after T .punct (ch.at (i + 1)) rest) := by
            simp [printIRIREF]
          rw [hpr] at hiri
          obtain ⟨c0, tl0, htext⟩ : ∃ c0 tl0, printString (ch.at i).sty (ch.at i).cs lex ++ 0x5e :: 0x5e :: 0x3c ::
              (printIriBody (ch.at (i + 1)).cs rr ++ [0x3e] ++ after T .punct (ch.at (i + 1)) rest) = c0 :: tl0 := by
            cases hsty : (ch.at i).sty <;> simp [printString, quotes, Style.long, Style.delim]
          have hc0 := printString_head _ _ _ _ c0 tl0 htext
          have := Steps.tok hT2 hC (f := ⟨x, .object⟩) (s := s) (env := envOf st) hin
            (show pObj ⟨T, ch⟩ i (.lit (.typed lex (.ref rr))) rest = c0 :: tl0 by
              rw [← htext]; simp [pObj, pLit, pIri, iriText, iriKind, printIRIREF])
            (by rw [hc0]; exact delim_solid T _) (by rw [hc0]; exact delim_ne23 _)
            (fn_object_typed hT hC x (envOf st) _ _ lex c0 tl0 0x3c _ ii _ htext hs (by simpa using hiri) hnl) (Steps.refl _)
          simpa [toT, Term.map] using this
        | pn p l =>
          simp only [iriWf, Bool.and_eq_true] at hwf
          obtain ⟨_, ⟨⟨hp, hps⟩, hls⟩, hpl⟩ := hwf
          obtain ⟨out, hout⟩ := pname_printable (p := p) (ch.at (i + 1)).cs hpl
          have hex : (envOf st).expand p l = some ii := by rw [← iriOf_pn]; exact hdt
          have hA := after_skip (T := T) hC .name (ch.at (i + 1)) (slot_ok hch (i + 1)) rest
          have hcl := after_noclash hT2 .name (ch.at (i + 1)) rest (T := T)
          refine ⟨_, hA, ?_⟩
          obtain ⟨lo, hlo⟩ := pname_shape hout
          obtain ⟨c2, tl2, htext2⟩ : ∃ c2 tl2, out ++ after T .name (ch.at (i + 1)) rest = c2 :: tl2 := by
            rw [hlo]; cases p <;> simp
          have htext2' : p ++ 0x3a :: (lo ++ after T .name (ch.at (i + 1)) rest) = c2 :: tl2 := by rw [← htext2, hlo]; simp
          have hns := prefix_head hp _ c2 tl2 htext2'
          have hne : c2 ≠ 0x3c := nameStart_ne hT2 hns (by decide) (by decide)
          have hiri := iriPName_print hT hC (envOf st) (ch.at (i + 1)).cs p l out ii _ hp (scalars_of_B hps) (scalars_of_B hls) hout hcl hex
          rw [htext2] at hiri
          obtain ⟨c0, tl0, htext⟩ : ∃ c0 tl0, printString (ch.at i).sty (ch.at i).cs lex ++ 0x5e :: 0x5e :: c2 :: tl2 = c0 :: tl0 := by
            cases hsty : (ch.at i).sty <;> simp [printString, quotes, Style.long, Style.delim]
          have hc0 := printString_head _ _ _ _ c0 tl0 htext
          have := Steps.tok hT2 hC (f := ⟨x, .object⟩) (s := s) (env := envOf st) hin
            (show pObj ⟨T, ch⟩ i (.lit (.typed lex (.pn p l))) rest = c0 :: tl0 by
              rw [← htext, ← htext2]; simp [pObj, pLit, pIri, iriText, iriKind, hout])
            (by rw [hc0]; exact delim_solid T _) (by rw [hc0]; exact delim_ne23 _)
            (fn_object_typed hT hC x (envOf st) _ _ lex c0 tl0 c2 tl2 ii (after T .name (ch.at (i + 1)) rest) htext hs
              (by rw [if_neg hne]; exact hiri) hnl) (Steps.refl _)
          simpa [toT, Term.map] using this
  | num lex =>
    simp only [litOf] at htt
    cases hb : bareLiteralDatatype lex with
    | none => simp [hb] at htt
    | some dt =>
      simp only [hb] at htt
      split at htt
      · cases htt
      · next hnb =>
        simp only [Option.some.injEq] at htt
        subst htt
        have hA := after_skip (T := T) hC .num (ch.at i) (slot_ok hch i) rest
        have hcl := after_noclash hT2 .num (ch.at i) rest (T := T)
        refine ⟨_, hA, ?_⟩
        obtain ⟨c0, lt, hlex, hcls⟩ := num_head lex dt hb hnb
        have hsol : solid T c0 = true ∧ c0 ≠ 0x23 := by
          rcases hcls with (h | h | h) | ⟨h, _⟩
          · subst h; exact ⟨solid_delim (by decide) (by decide), by decide⟩
          · subst h
            exact ⟨solid_pn hT2.minus (by decide), by decide⟩
          · exact ⟨solid_pn (hT.pn_digit c0 h) (by simp [isDigit, NQ.isDigit] at h; omega), fun hh => by subst hh; simp [isDigit, NQ.isDigit] at h⟩
          · subst h; exact ⟨solid_delim (by decide) (by decide), by decide⟩
        have := Steps.tok hT2 hC (f := ⟨x, .object⟩) (s := s) (env := envOf st) hin
          (show pObj ⟨T, ch⟩ i (.lit (.num lex)) rest = c0 :: (lt ++ after T .num (ch.at i) rest) by simp [pObj, pLit, hlex])
          hsol.1 hsol.2
          (fn_object_num hC x (envOf st) lex dt _ c0 _ (by simp [hlex]) hb hnb hcl) (Steps.refl _)
        simpa [toT, Term.map] using this
  | bool b =>
    simp only [litOf, Option.some.injEq] at htt
    subst htt
    have hA := after_skip (T := T) hC .name (ch.at i) (slot_ok hch i) rest
    refine ⟨_, hA, ?_⟩
    obtain ⟨c0, tl0, htext, hal⟩ : ∃ c0 tl0, boolText b ++ after T .name (ch.at i) rest = c0 :: tl0 ∧ isAlpha c0 = true := by
      cases b
      · exact ⟨0x66, 0x61 :: 0x6c :: 0x73 :: 0x65 :: after T .name (ch.at i) rest, by simp [boolText, Proofs.C02Tok.asc_false], by decide⟩
      · exact ⟨0x74, 0x72 :: 0x75 :: 0x65 :: after T .name (ch.at i) rest, by simp [boolText, Proofs.C02Tok.asc_true], by decide⟩
    have hpn := pnB_pn hT2 (hT2.alpha c0 hal)
    have := Steps.tok hT2 hC (f := ⟨x, .object⟩) (s := s) (env := envOf st) hin
      (show pObj ⟨T, ch⟩ i (.lit (.bool b)) rest = c0 :: tl0 by simp [pObj, pLit, htext])
      (solid_pn hpn (by simp [isAlpha, NQ.isAlpha] at hal; omega)) (fun hh => by subst hh; simp [isAlpha, NQ.isAlpha] at hal)
      (fn_object_bool hC x (envOf st) b _ c0 tl0 htext) (Steps.refl _)
    simpa [toT, Term.map, boolText] using this

include hT hT2 hC hch in
/-- every object of the nesting-free fragment -/
theorem objGood_flat (o : Obj) (hwf : objWf T o = true) (hfl : objFlat o = true) (hnb : objNoBoolPfx o = true) :
    ObjGood T C ch o := by
  cases o with
  | iri x0 => exact objGood_iri hT hT2 hC hch x0 (by simpa [objWf] using hwf) hnb
  | bn l => exact objGood_bn hT hT2 hC hch l (by simpa [objWf] using hwf)
  | anon => exact objGood_anon hT hT2 hC hch
  | lit l => exact objGood_lit hT hT2 hC hch l (by simpa [objWf] using hwf)
  | bnpl pos => simp [objFlat] at hfl
  | coll items =>
    cases items with
    | nil => exact objGood_nil hT hT2 hC hch
    | cons a b => simp [objFlat] at hfl

/-! ### object lists -/

def ObjsGood (T : Tables) (C : Cfg) (ch : Choices) (os : List Obj) : Prop :=
  ∀ (i : Nat) (x : Ectx) (s : List Frame) (inp rest : List Nat) (c : Nat) (r : List Nat) (g : Option TermB)
    (st st' : DState) (qs : List QuadB) (sS pP : TermB),
    Follows C rest c r → c ≠ 0x40 → c ≠ 0x5e → c ≠ 0x2c →
    x.subj = some (toT sS) → x.pred = some (toT pP) → x.graph = g.map toT → os ≠ [] →
    dObjs C.resolve sS pP g st os = some (qs, st') →
    SkEq C inp (pObjs ⟨T, ch⟩ i os rest) →
    ∃ inp', SkEq C inp' rest ∧
      Steps C .eof ⟨⟨x, .object⟩ :: ⟨x, .objListContinue⟩ :: s, inp, envOf st⟩ (qs.map toStmt) ⟨s, inp', envOf st'⟩

theorem mkStmt_toStmt {x : Ectx} {sS pP : TermB} {g : Option TermB} (hs : x.subj = some (toT sS))
    (hp : x.pred = some (toT pP)) (hg : x.graph = g.map toT) (t : TermB) :
    mkStmt x (toT t) = toStmt ⟨sS, pP, t, g⟩ := by
  simp [mkStmt, toStmt, hs, hp, hg, toT]
  cases g <;> rfl

include hT2 hC hch in
theorem objsGood (os : List Obj) (h : ∀ o ∈ os, ObjGood T C ch o) : ObjsGood T C ch os := by
  induction os with
  | nil => intro i x s inp rest c r g st st' qs sS pP _ _ _ _ _ _ _ hne; exact absurd rfl hne
  | cons o os ih =>
    intro i x s inp rest c r g st st' qs sS pP hf h40 h5e h2c hs hp hg _ hd hin
    have hgo := h o List.mem_cons_self
    simp only [dObjs] at hd
    cases hdo : dObj C.resolve g st o with
    | none => simp [hdo] at hd
    | some res =>
      obtain ⟨t, qs1, st1⟩ := res
      simp only [hdo] at hd
      cases hdr : dObjs C.resolve sS pP g st1 os with
      | none => simp [hdr] at hd
      | some res2 =>
        obtain ⟨qs2, st2⟩ := res2
        simp only [hdr, Option.some.injEq, Prod.mk.injEq] at hd
        obtain ⟨rfl, rfl⟩ := hd
        cases os with
        | nil =>
          simp only [dObjs, Option.some.injEq, Prod.mk.injEq] at hdr
          obtain ⟨rfl, rfl⟩ := hdr
          obtain ⟨inp1, he1, s1⟩ := hgo i x (⟨x, .objListContinue⟩ :: s) inp rest c r g st st1 t qs1 hf h40 h5e (by simp [hs]) hg hdo
            (by simpa [pObjs] using hin)
          refine ⟨c :: r, by rw [hf.1]; exact SkEq.rfl', ?_⟩
          have s2 := Steps.fol hT2 hC (f := ⟨x, .objListContinue⟩) (s := s) (env := envOf st1) he1 hf
            (fn_objListContinue_pop x _ c r h2c) (Steps.refl _)
          have := s1.trans (by simpa using s2)
          simpa [mkStmt_toStmt hs hp hg] using this
        | cons o' os' =>
          have hfc : Follows C (pPunct ⟨T, ch⟩ (i + objSlots o) 0x2c (pObjs ⟨T, ch⟩ (i + objSlots o + 1) (o' :: os') rest)) 0x2c
              (after T .punct (ch.at (i + objSlots o)) (pObjs ⟨T, ch⟩ (i + objSlots o + 1) (o' :: os') rest)) :=
            follows_solid hT2 hC (solid_delim (by decide) (by decide)) (by decide) _
          obtain ⟨inp1, he1, s1⟩ := hgo i x (⟨x, .objListContinue⟩ :: s) inp _ 0x2c _ g st st1 t qs1 hfc (by decide) (by decide)
            (by simp [hs]) hg hdo (by simpa [pObjs] using hin)
          obtain ⟨inp2, he2, s3⟩ := ih (fun o2 ho2 => h o2 (List.mem_cons_of_mem _ ho2)) (i + objSlots o + 1) x s
            (after T .punct (ch.at (i + objSlots o)) (pObjs ⟨T, ch⟩ (i + objSlots o + 1) (o' :: os') rest)) rest c r g st1 st2 qs2
            sS pP hf h40 h5e h2c hs hp hg (by simp) hdr (after_skip hC .punct _ (slot_ok hch _) _)
          refine ⟨inp2, he2, ?_⟩
          have s2 := Steps.fol hT2 hC (f := ⟨x, .objListContinue⟩) (s := s) (env := envOf st1) he1 hfc
            (fn_objListContinue_comma x _ _) (by simpa using s3)
          have := s1.trans (by simpa using s2)
          simpa [mkStmt_toStmt hs hp hg] using this

/-! ### semicolons -/

theorem semis_head (P : PCtx) (j k : Nat) (R : List Nat) : ∃ tl, semis P j (k + 1) R = 0x3b :: tl := by
  cases k with
  | zero => exact ⟨_, rfl⟩
  | succ k => exact ⟨_, rfl⟩

include hT2 hC hch in
/-- at least one `;`: the run stops right after the last one, with `reader_scan_PredicateObjectList` next -/
theorem semis_more (x : Ectx) (s : List Frame) (env : Env) (j : Nat) (R : List Nat) : ∀ (k : Nat) (inp : List Nat),
    SkEq C inp (semis ⟨T, ch⟩ j (k + 1) R) →
    ∃ inp', SkEq C inp' R ∧
      Steps C .eof ⟨⟨x, .polContinue⟩ :: s, inp, env⟩ [] ⟨⟨x, .pol⟩ :: ⟨x, .polContinue⟩ :: s, inp', env⟩ := by
  intro k
  induction k with
  | zero =>
    intro inp hin
    refine ⟨_, after_skip hC .punct (ch.at j) (slot_ok hch j) R, ?_⟩
    have := Steps.tok hT2 hC (f := ⟨x, .polContinue⟩) (s := s) (env := env) hin
      (show semis ⟨T, ch⟩ j 1 R = 0x3b :: after T .punct (ch.at j) R from rfl)
      (solid_delim (by decide) (by decide)) (by decide) (fn_polContinue_semi x env _) (Steps.refl _)
    simpa using this
  | succ k ih =>
    intro inp hin
    obtain ⟨tl, htl⟩ := semis_head ⟨T, ch⟩ j k R
    have hsk : SkEq C (renderLay false (ch.at j).lay2 ++ semis ⟨T, ch⟩ j (k + 1) R) (semis ⟨T, ch⟩ j (k + 1) R) :=
      renderLay_skip_false hC _ _
    have hfs : Follows C (semis ⟨T, ch⟩ j (k + 1) R) 0x3b tl := by
      rw [htl]; exact follows_solid hT2 hC (solid_delim (by decide) (by decide)) (by decide) tl
    obtain ⟨inp', he, s3⟩ := ih (0x3b :: tl) (by rw [htl]; exact SkEq.rfl')
    refine ⟨inp', he, ?_⟩
    have s2 := Steps.fol hT2 hC (f := ⟨x, .pol⟩) (s := ⟨x, .polContinue⟩ :: s) (env := env) hsk hfs
      (fn_pol_pop hT2 hC x env _ _ (Or.inr (Or.inr (Or.inr rfl)))) (by simpa using s3)
    have := Steps.tok hT2 hC (f := ⟨x, .polContinue⟩) (s := s) (env := env) hin
      (show semis ⟨T, ch⟩ j (k + 2) R = 0x3b :: (renderLay false (ch.at j).lay2 ++ semis ⟨T, ch⟩ j (k + 1) R) from rfl)
      (solid_delim (by decide) (by decide)) (by decide) (fn_polContinue_semi x env _) (by simpa using s2)
    simpa using this

include hT2 hC hch in
/-- any number of `;` before `.`, `]` or `}`: the predicate-object list ends -/
theorem semis_close (x : Ectx) (s : List Frame) (env : Env) (j k : Nat) (inp rest : List Nat) (c : Nat) (r : List Nat)
    (hf : Follows C rest c r) (hc : c = 0x2e ∨ c = 0x5d ∨ c = 0x7d) (hin : SkEq C inp (semis ⟨T, ch⟩ j k rest)) :
    ∃ inp', SkEq C inp' rest ∧ Steps C .eof ⟨⟨x, .polContinue⟩ :: s, inp, env⟩ [] ⟨s, inp', env⟩ := by
  have hne : c ≠ 0x3b := by rcases hc with h | h | h <;> subst h <;> decide
  have hpop : ∀ inp1, SkEq C inp1 rest → Steps C .eof ⟨⟨x, .polContinue⟩ :: s, inp1, env⟩ [] ⟨s, c :: r, env⟩ := by
    intro inp1 h1
    have := Steps.fol hT2 hC (f := ⟨x, .polContinue⟩) (s := s) (env := env) h1 hf
      (fn_polContinue_pop x env c r hne) (Steps.refl _)
    simpa using this
  refine ⟨c :: r, by rw [hf.1]; exact SkEq.rfl', ?_⟩
  cases k with
  | zero => exact hpop inp hin
  | succ k =>
    obtain ⟨inp1, he1, s1⟩ := semis_more hT2 hC hch x s env j rest k inp hin
    have s2 := Steps.fol hT2 hC (f := ⟨x, .pol⟩) (s := ⟨x, .polContinue⟩ :: s) (env := env) he1 hf
      (fn_pol_pop hT2 hC x env c r (by rcases hc with h | h | h <;> simp [h]))
      (by simpa using hpop (c :: r) (by rw [hf.1]; exact SkEq.rfl'))
    simpa using s1.trans (by simpa using s2)

/-! ### verbs and predicate-object lists -/

include hT hT2 hC hch in
theorem verb_step (v : Verb) (hwf : verbWf T v = true) (req : Bool) (x : Ectx) (s : List Frame) (i : Nat)
    (inp R : List Nat) (st : DState) (p : TermB) (hv : verbOf C.resolve st v = some p)
    (hin : SkEq C inp (pVerb ⟨T, ch⟩ i v R)) :
    ∃ inp', SkEq C inp' R ∧
      Steps C .eof ⟨⟨x, if req then .polRequired else .pol⟩ :: s, inp, envOf st⟩ []
        ⟨⟨{ x with pred := some (toT p) }, .object⟩ :: ⟨{ x with pred := some (toT p) }, .objListContinue⟩ :: s, inp', envOf st⟩ := by
  cases v with
  | a =>
    simp only [verbOf, Option.some.injEq] at hv
    subst hv
    rcases afterKw_form (T := T) hC false (ch.at i) (slot_ok hch i) R with ⟨w, tl, hform, hw, hsk⟩ | ⟨hlt, _⟩
    · refine ⟨tl, hsk, ?_⟩
      have hfn := (fn_pol_of x (envOf st) 0x61 (w :: tl) _ tl req (stepPOL_a hC x (envOf st) w tl hw)).trans (polGo_eq _ _ _ _)
      have := Steps.tok hT2 hC (f := ⟨x, if req then .polRequired else .pol⟩) (s := s) (env := envOf st) hin
        (show pVerb ⟨T, ch⟩ i .a R = 0x61 :: (w :: tl) by simp [pVerb, hform])
        (solid_pn (pnB_pn hT2 (hT2.alpha 0x61 (by decide))) (by decide)) (by decide) hfn (Steps.refl _)
      simpa [toT, Term.map, rdfType_eq] using this
    · cases hlt
  | iri x0 =>
    simp only [verbOf, Option.map_eq_some_iff] at hv
    obtain ⟨ii, hii, rfl⟩ := hv
    cases x0 with
    | ref rr =>
      have hs : Scalars rr := scalars_of_B (by simpa [verbWf, iriWf] using hwf)
      have hres : resolveIRI C (envOf st) rr = some ii := by rw [← iriOf_ref]; exact hii
      refine ⟨_, after_skip (T := T) hC .punct (ch.at i) (slot_ok hch i) R, ?_⟩
      have htext : printIRIREF (ch.at i).cs rr ++ after T .punct (ch.at i) R =
          0x3c :: (printIriBody (ch.at i).cs rr ++ [0x3e] ++ after T .punct (ch.at i) R) := by simp [printIRIREF]
      have hfn := (fn_pol_of x (envOf st) 0x3c _ _ _ req
        (stepPOL_iriref hT hC x (envOf st) _ rr ii _ _ _ htext hs hres)).trans (polGo_eq _ _ _ _)
      have := Steps.tok hT2 hC (f := ⟨x, if req then .polRequired else .pol⟩) (s := s) (env := envOf st) hin
        (show pVerb ⟨T, ch⟩ i (.iri (.ref rr)) R = _ by simpa [pVerb, pIri, iriText, iriKind] using htext)
        (solid_delim (by decide) (by decide)) (by decide) hfn (Steps.refl _)
      simpa [toT, Term.map] using this
    | pn p l =>
      simp only [verbWf, iriWf, Bool.and_eq_true] at hwf
      obtain ⟨⟨⟨hp, hps⟩, hls⟩, hpl⟩ := hwf
      obtain ⟨out, hout⟩ := pname_printable (p := p) (ch.at i).cs hpl
      have hex : (envOf st).expand p l = some ii := by rw [← iriOf_pn]; exact hii
      have hcl := after_noclash hT2 .name (ch.at i) R (T := T)
      refine ⟨_, after_skip (T := T) hC .name (ch.at i) (slot_ok hch i) R, ?_⟩
      obtain ⟨lo, hlo⟩ := pname_shape hout
      obtain ⟨c0, tl0, htext⟩ : ∃ c0 tl0, out ++ after T .name (ch.at i) R = c0 :: tl0 := by
        rw [hlo]; cases p <;> simp
      have htext' : p ++ 0x3a :: (lo ++ after T .name (ch.at i) R) = c0 :: tl0 := by rw [← htext, hlo]; simp
      obtain ⟨hso, h23⟩ := nameStart_solid hT2 (prefix_head hp _ c0 tl0 htext')
      have hfn := (fn_pol_of x (envOf st) c0 tl0 _ _ req
        (stepPOL_pname hT hT2 hC x (envOf st) _ p l out ii _ c0 tl0 htext hp (scalars_of_B hps) (scalars_of_B hls) hout hcl hex)).trans
        (polGo_eq _ _ _ _)
      have := Steps.tok hT2 hC (f := ⟨x, if req then .polRequired else .pol⟩) (s := s) (env := envOf st) hin
        (show pVerb ⟨T, ch⟩ i (.iri (.pn p l)) R = c0 :: tl0 by simp [pVerb, pIri, iriText, iriKind, hout, htext])
        hso h23 hfn (Steps.refl _)
      simpa [toT, Term.map] using this

def POsGood (T : Tables) (C : Cfg) (ch : Choices) (pos : List PO) : Prop :=
  ∀ (i : Nat) (x : Ectx) (s : List Frame) (inp rest : List Nat) (c : Nat) (r : List Nat) (g : Option TermB)
    (st st' : DState) (qs : List QuadB) (sS : TermB) (req : Bool),
    Follows C rest c r → (c = 0x2e ∨ c = 0x5d ∨ c = 0x7d) →
    x.subj = some (toT sS) → x.graph = g.map toT → pos ≠ [] →
    dPOs C.resolve sS g st pos = some (qs, st') →
    SkEq C inp (pPOs ⟨T, ch⟩ i pos rest) →
    ∃ inp', SkEq C inp' rest ∧
      Steps C .eof ⟨⟨x, if req then .polRequired else .pol⟩ :: ⟨x, .polContinue⟩ :: s, inp, envOf st⟩ (qs.map toStmt)
        ⟨s, inp', envOf st'⟩

/-- a predicate-object pair is fit for the run lemma: well-formed verb, non-empty list of good objects -/
def POFit (T : Tables) (C : Cfg) (ch : Choices) : PO → Prop
  | .mk v os => verbWf T v = true ∧ os ≠ [] ∧ ∀ o ∈ os, ObjGood T C ch o

include hT hT2 hC hch in
theorem posGood (pos : List PO) (h : ∀ po ∈ pos, POFit T C ch po) : POsGood T C ch pos := by
  induction pos with
  | nil => intro i x s inp rest c r g st st' qs sS req _ _ _ _ hne; exact absurd rfl hne
  | cons po pos ih =>
    intro i x s inp rest c r g st st' qs sS req hf hc hs hg _ hd hin
    obtain ⟨v, os⟩ := po
    obtain ⟨hvw, hone, hgood⟩ := h (.mk v os) List.mem_cons_self
    simp only [dPOs, dPO] at hd
    cases hv : verbOf C.resolve st v with
    | none => simp [hv] at hd
    | some p =>
      simp only [hv] at hd
      cases hdo : dObjs C.resolve sS p g st os with
      | none => simp [hdo] at hd
      | some res =>
        obtain ⟨qs1, st1⟩ := res
        simp only [hdo] at hd
        cases hdr : dPOs C.resolve sS g st1 pos with
        | none => simp [hdr] at hd
        | some res2 =>
          obtain ⟨qs2, st2⟩ := res2
          simp only [hdr, Option.some.injEq, Prod.mk.injEq] at hd
          obtain ⟨rfl, rfl⟩ := hd
          have hne3 : c ≠ 0x40 ∧ c ≠ 0x5e ∧ c ≠ 0x2c := by rcases hc with h | h | h <;> subst h <;> decide
          -- the frames of the objects
          let x' : Ectx := { x with pred := some (toT p) }
          have hx's : x'.subj = some (toT sS) := hs
          have hx'g : x'.graph = g.map toT := hg
          cases pos with
          | nil =>
            simp only [dPOs, Option.some.injEq, Prod.mk.injEq] at hdr
            obtain ⟨rfl, rfl⟩ := hdr
            -- text: verb, objects, `n % 3` semicolons
            let j := i + poSlots (.mk v os) - 1
            let k := (ch.at j).n % 3
            have htx : pPOs ⟨T, ch⟩ i [.mk v os] rest =
                pVerb ⟨T, ch⟩ i v (pObjs ⟨T, ch⟩ (i + 1) os (semis ⟨T, ch⟩ j k rest)) := by simp [pPOs, pPO, j, k]
            obtain ⟨inp1, he1, s1⟩ := verb_step hT hT2 hC hch v hvw req x (⟨x, .polContinue⟩ :: s) i inp _ st p hv
              (by rw [← htx]; exact hin)
            -- what follows the objects
            have hfo : ∃ c1 r1, Follows C (semis ⟨T, ch⟩ j k rest) c1 r1 ∧ c1 ≠ 0x40 ∧ c1 ≠ 0x5e ∧ c1 ≠ 0x2c := by
              cases hk : k with
              | zero => exact ⟨c, r, by simpa [semis] using hf, hne3⟩
              | succ k' =>
                obtain ⟨tl, htl⟩ := semis_head ⟨T, ch⟩ j k' rest
                exact ⟨0x3b, tl, by rw [htl]; exact follows_solid hT2 hC (solid_delim (by decide) (by decide)) (by decide) tl,
                  by decide, by decide, by decide⟩
            obtain ⟨c1, r1, hf1, n1, n2, n3⟩ := hfo
            obtain ⟨inp2, he2, s2⟩ := objsGood hT2 hC hch os hgood (i + 1) x' (⟨x, .polContinue⟩ :: s) inp1 _ c1 r1 g st st1 qs1
              sS p hf1 n1 n2 n3 hx's rfl hx'g hone hdo he1
            obtain ⟨inp3, he3, s3⟩ := semis_close hT2 hC hch x s (envOf st1) j k inp2 rest c r hf hc he2
            refine ⟨inp3, he3, ?_⟩
            simpa using s1.trans (s2.trans s3)
          | cons po' pos' =>
            let j := i + poSlots (.mk v os) - 1
            let k := (ch.at j).n % 3
            have htx : pPOs ⟨T, ch⟩ i (.mk v os :: po' :: pos') rest =
                pVerb ⟨T, ch⟩ i v (pObjs ⟨T, ch⟩ (i + 1) os (semis ⟨T, ch⟩ j (1 + k)
                  (pPOs ⟨T, ch⟩ (i + poSlots (.mk v os)) (po' :: pos') rest))) := by simp [pPOs, pPO, j, k]
            obtain ⟨inp1, he1, s1⟩ := verb_step hT hT2 hC hch v hvw req x (⟨x, .polContinue⟩ :: s) i inp _ st p hv
              (by rw [← htx]; exact hin)
            have h1k : 1 + k = k + 1 := Nat.add_comm 1 k
            obtain ⟨tl, htl⟩ := semis_head ⟨T, ch⟩ j k (pPOs ⟨T, ch⟩ (i + poSlots (.mk v os)) (po' :: pos') rest)
            have hf1 : Follows C (semis ⟨T, ch⟩ j (1 + k) (pPOs ⟨T, ch⟩ (i + poSlots (.mk v os)) (po' :: pos') rest)) 0x3b tl := by
              rw [h1k, htl]; exact follows_solid hT2 hC (solid_delim (by decide) (by decide)) (by decide) tl
            obtain ⟨inp2, he2, s2⟩ := objsGood hT2 hC hch os hgood (i + 1) x' (⟨x, .polContinue⟩ :: s) inp1 _ 0x3b tl g st st1 qs1
              sS p hf1 (by decide) (by decide) (by decide) hx's rfl hx'g hone hdo he1
            obtain ⟨inp3, he3, s3⟩ := semis_more hT2 hC hch x s (envOf st1) j
              (pPOs ⟨T, ch⟩ (i + poSlots (.mk v os)) (po' :: pos') rest) k inp2 (by rw [← h1k]; exact he2)
            obtain ⟨inp4, he4, s4⟩ := ih (fun po2 hpo2 => h po2 (List.mem_cons_of_mem _ hpo2)) (i + poSlots (.mk v os)) x s inp3 rest
              c r g st1 st2 qs2 sS false hf hc hs hg (by simp) hdr he3
            refine ⟨inp4, he4, ?_⟩
            have := s1.trans (s2.trans (s3.trans (by simpa using s4)))
            simpa using this

end
end RdfModel.C08
