/-
  C18 helper lemmas, part 3: adapters, the triples-target behaviour, and the composition
  decode → adapters → label → encode → decode for the line-based targets (from C01's round trip).
-/
import RdfModel.Proofs.C18Labels
import RdfModel.Proofs.C01
namespace RdfModel.Proofs.C18
open RdfModel RdfModel.Pipe RdfModel.C18 RdfModel.BN RdfModel.C14 RdfModel.NQ RdfModel.C01

variable {β γ : Type}

/-! ### adapters -/

theorem quadAsTriple_map (f : β → γ) (q : Quad β) : quadAsTriple (q.map f) = (quadAsTriple q).map f := by
  simp [quadAsTriple, Quad.map]

theorem getQuadsEncoder_map (f : β → γ) (k : Kind) (q : Quad β) :
    getQuadsEncoder k (q.map f) = (getQuadsEncoder k q).map f := by
  cases k <;> simp [getQuadsEncoder, quadAsTriple, Quad.map]

theorem getQuadsDecoder_map (f : β → γ) (k : Kind) (qs : List (Quad β)) :
    getQuadsDecoder k (qs.map (Quad.map f)) = (getQuadsDecoder k qs).map (Quad.map f) := by
  cases k <;> simp [getQuadsDecoder, tripleAsQuad, Quad.map, Function.comp_def]

theorem pipeStatements_map (f : β → γ) (src tgt : Kind) (qs : List (Quad β)) :
    pipeStatements src tgt (qs.map (Quad.map f)) = (pipeStatements src tgt qs).map (Quad.map f) := by
  simp only [pipeStatements, getQuadsDecoder_map, List.map_map]
  congr 1
  funext q
  simp [getQuadsEncoder_map]

theorem pipeStatements_triples (src : Kind) (qs : List (Quad β)) :
    pipeStatements src .triples qs = qs.map quadAsTriple := by
  cases src <;> simp [pipeStatements, getQuadsDecoder, getQuadsEncoder, quadAsTriple, tripleAsQuad, Function.comp_def]

theorem getQuadsEncoder_quads : getQuadsEncoder (β := β) .quads = id := by
  funext q; rfl

theorem pipeStatements_quads_quads (qs : List (Quad β)) : pipeStatements .quads .quads qs = qs := by
  simp [pipeStatements, getQuadsDecoder, getQuadsEncoder_quads]

theorem pipeStatements_triples_quads (qs : List (Quad β)) :
    pipeStatements .triples .quads qs = qs.map tripleAsQuad := by
  simp [pipeStatements, getQuadsDecoder, getQuadsEncoder_quads]

theorem pipeStatements_g_none (src : Kind) (qs : List (Quad β)) :
    ∀ q ∈ pipeStatements src .triples qs, q.g = none := by
  rw [pipeStatements_triples]
  intro q hq
  obtain ⟨q0, _, rfl⟩ := List.mem_map.mp hq
  rfl

theorem wf_getQuadsEncoder (urlOk : List Nat → Bool) (k : Kind) (q : Quad β) (h : WFQuad urlOk q) :
    WFQuad urlOk (getQuadsEncoder k q) := by
  cases k with
  | quads => exact h
  | triples => exact ⟨h.s, h.p, h.o, by intro g hg; simp [getQuadsEncoder, quadAsTriple] at hg⟩

theorem wf_pipeStatements (urlOk : List Nat → Bool) (src tgt : Kind) (qs : List (Quad β))
    (h : ∀ q ∈ qs, WFQuad urlOk q) : ∀ q ∈ pipeStatements src tgt qs, WFQuad urlOk q := by
  intro q hq
  simp only [pipeStatements, List.mem_map] at hq
  obtain ⟨q1, hq1, rfl⟩ := hq
  apply wf_getQuadsEncoder
  cases src with
  | quads => exact h q1 hq1
  | triples =>
    simp only [getQuadsDecoder, List.mem_map] at hq1
    obtain ⟨q0, hq0, rfl⟩ := hq1
    have h0 := h q0 hq0
    exact ⟨h0.s, h0.p, h0.o, by intro g hg; simp [tripleAsQuad] at hg⟩

/-! ### blank nodes under `map` -/

theorem termNodes_map (f : β → γ) (t : Term β) : termNodes (t.map f) = (termNodes t).map f := by
  cases t <;> simp [termNodes, Term.map]

theorem quadNodes_map (f : β → γ) (q : Quad β) : quadNodes (q.map f) = (quadNodes q).map f := by
  obtain ⟨s, p, o, g⟩ := q
  cases g <;> simp [quadNodes, Quad.map, termNodes_map]

theorem nodesOf_map (f : β → γ) (qs : List (Quad β)) : nodesOf (qs.map (Quad.map f)) = (nodesOf qs).map f := by
  induction qs with
  | nil => rfl
  | cons q rest ih =>
    simp only [nodesOf, List.map_cons, List.flatMap_cons, List.map_append] at ih ⊢
    rw [quadNodes_map, ih]

/-! ### the encoder on relabelled statements -/

theorem writeNode_map (T : Tables) (ascii : Bool) (σ : β → List Nat) (t : Term β) :
    writeNode T ascii id (t.map σ) = writeNode T ascii σ t := by
  cases t <;> simp [writeNode, Term.map]

theorem writeObject_map (T : Tables) (ascii : Bool) (σ : β → List Nat) (t : Term β) :
    writeObject T ascii id (t.map σ) = writeObject T ascii σ t := by
  cases t <;> simp [writeObject, writeNode, Term.map]

theorem writePredicate_map (T : Tables) (ascii : Bool) (σ : β → List Nat) (t : Term β) :
    writePredicate (β := List Nat) T ascii (t.map σ) = writePredicate T ascii t := by
  cases t <;> simp [writePredicate, Term.map]

theorem encodeQuad_map (T : Tables) (ascii quads : Bool) (σ : β → List Nat) (q : Quad β) :
    encodeQuad T ascii id quads (q.map σ) = encodeQuad T ascii σ quads q := by
  obtain ⟨s, p, o, g⟩ := q
  unfold encodeQuad
  simp only [Quad.map, writeNode_map, writeObject_map, writePredicate_map]
  cases quads <;> cases g <;> simp [writeNode_map]

theorem encodeDoc_map (T : Tables) (ascii quads : Bool) (σ : β → List Nat) (qs : List (Quad β)) :
    encodeDoc T ascii id quads (qs.map (Quad.map σ)) = encodeDoc T ascii σ quads qs := by
  simp [encodeDoc, List.flatMap_map, encodeQuad_map]

/-! ### the loop -/

theorem pipeLoop_ok (T : Tables) (ascii quads : Bool) (U : Nat → Bytes) (p : ProvRef) (l : List (Quad Node)) :
    ∀ (k : Nat) (s : State) (acc : List Nat) (out : List (Quad Bytes)),
      (labelQuads U p s l).2 = some out →
      (∀ q ∈ out, (encodeQuad T ascii id quads q).isSome) →
      pipeLoop T ascii quads U p k s l acc = .ok (acc ++ encodeDoc T ascii id quads out) := by
  induction l with
  | nil =>
    intro k s acc out h _
    simp only [labelQuads] at h
    cases h
    simp [pipeLoop, encodeDoc]
  | cons q rest ih =>
    intro k s acc out h henc
    simp only [labelQuads] at h
    obtain ⟨x, xs, hx, hxs, rfl⟩ := consOpt_some h
    have hsome := henc x (by simp)
    obtain ⟨line, hline⟩ := Option.isSome_iff_exists.mp hsome
    have hstep : labelQuad U p s q = ((labelQuad U p s q).1, some x) := by rw [← hx]
    rw [pipeLoop, hstep]
    simp only [hline]
    rw [ih (k + 1) _ (acc ++ line) xs hxs (fun q' hq' => henc q' (by simp [hq']))]
    simp [encodeDoc, hline, List.append_assoc]

/-! ### composition with C01 -/

/-- Everything the round-trip theorems need, derived from the labels theorem:
    the pipe writes `encodeDoc σ` of the adapted statements for an injective, well-formed `σ`. -/
theorem pipe_writes (T : Tables) (urlOk : List Nat → Bool) (ascii quads : Bool)
    (U : Nat → Bytes) (hU : Function.Injective U) (hUok : ∀ k, labelOK T (U k) = true)
    (s : State) (hI : Inv s) (j : Nat) (hj : j < s.strfs.length)
    (node : β → Node) (hnode : Function.Injective node) (src : Kind) (qs : List (Quad β))
    (hocc : ∀ b, b ∈ nodesOf (pipeStatements src (if quads then .quads else .triples) qs))
    (hscope : ∀ b v, node b = some (.bnString j v) → labelOK T v = true ∧ ∀ k, v ≠ U k)
    (hwf : ∀ q ∈ qs, WFQuad urlOk q) :
    ∃ σ : β → List Nat, LabelsOK T σ ∧
      pipeNQ T ascii quads U s (some (.strf j)) src (qs.map (Quad.map node)) =
        .ok (encodeDoc T ascii σ quads (pipeStatements src (if quads then .quads else .triples) qs)) := by
  generalize hps : pipeStatements src (if quads then Kind.quads else Kind.triples) qs = ps at hocc
  have hwfps : ∀ q ∈ ps, WFQuad urlOk q := by rw [← hps]; exact wf_pipeStatements urlOk _ _ qs hwf
  have hcol : ∀ v, some (.bnString j v) ∈ nodesOf (ps.map (Quad.map node)) → ∀ k, v ≠ U k := by
    intro v hv
    rw [nodesOf_map] at hv
    obtain ⟨b, _, hb⟩ := List.mem_map.mp hv
    exact (hscope b v hb).2
  obtain ⟨p, s1, σN, hprov, hlab, hinj, hown, hU'⟩ := pipe_labels U hU s hI j hj (ps.map (Quad.map node)) hcol
  have hmem : ∀ b, node b ∈ nodesOf (ps.map (Quad.map node)) := by
    intro b; rw [nodesOf_map]; exact List.mem_map.mpr ⟨b, hocc b, rfl⟩
  refine ⟨σN ∘ node, ⟨?_, ?_⟩, ?_⟩
  · intro a b hab
    exact hnode (hinj _ (hmem a) _ (hmem b) hab)
  · intro b
    rcases hU' _ (hmem b) with ⟨v, hv⟩ | ⟨k, hk⟩
    · simp only [Function.comp]
      rw [hv, hown v]
      exact (hscope b v hv).1
    · simp only [Function.comp]
      rw [hk]; exact hUok k
  · have hmap : (ps.map (Quad.map node)).map (Quad.map σN) = ps.map (Quad.map (σN ∘ node)) := by
      simp only [List.map_map]
      congr 1
      funext q
      obtain ⟨a, b, c, d⟩ := q
      cases a <;> cases b <;> cases c <;> cases d <;> simp [Quad.map, Term.map] <;>
        (rename_i g; cases g <;> simp)
    rw [hmap] at hlab
    simp only [pipeNQ, hprov, pipeStatements_map, hps]
    rw [pipeLoop_ok T ascii quads U p _ 0 s1 [] _ hlab]
    · simp [encodeDoc_map]
    · intro q' hq'
      obtain ⟨q0, hq0, rfl⟩ := List.mem_map.mp hq'
      rw [encodeQuad_map, Proofs.C01.encodeQuad_wf T ascii _ urlOk quads q0 (hwfps q0 hq0)]
      rfl

theorem dropGraph_of_g_none (q : Quad β) (h : q.g = none) : C01.Quad.dropGraph q = q := by
  obtain ⟨s, p, o, g⟩ := q
  simp only at h
  subst h
  rfl

end RdfModel.Proofs.C18
