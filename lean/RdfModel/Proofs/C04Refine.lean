/-
  Proofs.C04Refine — the canonicalization algorithm as a whole: a result of the Go code (model) is the
  result of the specification (same fuel, corresponding enumeration of permutations).
-/
import RdfModel.Proofs.C04NDegree
import RdfModel.Proofs.C04Cover
import RdfModel.Proofs.C04Tables
namespace RdfModel.Proofs.C04
open RdfModel RdfModel.Proofs.StrOrd RdfModel.C04

set_option linter.unusedSectionVars false

variable {β : Type} [DecidableEq β]

theorem encOK_of_tables (T : NQ.Tables) (hT : TablesCanon T) : EncOK T :=
  ⟨fun v h => canonical_iri T v h, fun l d t h => canonical_literal_escaping T hT l d t h⟩

/-! ### step 5.2 -/

theorem hashPathList_rel (T : NQ.Tables) (henc : EncOK T) (H : Str → Str)
    {st : Rdfcanon.State β} {sb : Spec.RDFC10.B2Q β} {cs : Spec.RDFC10.Issuer β}
    (hb : BRel T st.b2q sb) (hc : CRel st.canon cs) (lim : Rdfcanon.Limits)
    (perms : List β → List (List β)) (hperms : PermsAgree lim.maxPermutations perms) :
    ∀ (l : List β) mrs, Rdfcanon.hashPathList H st lim l = .ok mrs →
    ∃ zs : List (Rdfcanon.NDResult β × Spec.RDFC10.NDResult β), mrs = zs.map (·.1) ∧
      Spec.RDFC10.hashPathList H perms sb cs (lim.maxRecursionDepth + 1) l = some (zs.map (·.2)) ∧
      ∀ z ∈ zs, NDRel z.1 z.2
  | [], mrs, h => by
    simp only [Rdfcanon.hashPathList, Rdfcanon.Res.ok.injEq] at h
    subst h
    exact ⟨[], rfl, by simp [Spec.RDFC10.hashPathList], by simp⟩
  | n :: rest, mrs, h => by
    unfold Rdfcanon.hashPathList at h
    unfold Spec.RDFC10.hashPathList
    rw [hc.getIfKnown n] at h
    cases hk : cs.get? n with
    | some id =>
      simp only [hk] at h
      simp only [Option.isSome_some, if_true]
      exact hashPathList_rel T henc H hb hc lim perms hperms rest mrs h
    | none =>
      simp only [hk] at h
      simp only [Option.isSome_none, Bool.false_eq_true, if_false]
      have htmp : IRel ((Rdfcanon.newTemporaryIssuer : Rdfcanon.Issuer β).get n).2
          ((Spec.RDFC10.Issuer.new [0x62]).issue n).2 := (IRel.init.get n).2
      cases hnd : Rdfcanon.hashNDegree H st lim.maxPermutations (lim.maxRecursionDepth + 1) n
          ((Rdfcanon.newTemporaryIssuer : Rdfcanon.Issuer β).get n).2 with
      | limit l => rw [hnd] at h; simp at h
      | panic => rw [hnd] at h; simp at h
      | ok r =>
        rw [hnd] at h
        simp only at h
        obtain ⟨sr, hs1, hs2⟩ := hashNDegree_rel T henc H hb hc lim.maxPermutations perms hperms
          (lim.maxRecursionDepth + 1) n _ _ htmp r hnd
        rw [hs1]
        simp only
        cases hrest : Rdfcanon.hashPathList H st lim rest with
        | limit l => rw [hrest] at h; simp at h
        | panic => rw [hrest] at h; simp at h
        | ok rs =>
          rw [hrest] at h
          simp only [Rdfcanon.Res.ok.injEq] at h
          obtain ⟨zs, hz1, hz2, hz3⟩ := hashPathList_rel T henc H hb hc lim perms hperms rest rs hrest
          refine ⟨(r, sr) :: zs, ?_, ?_, ?_⟩
          · rw [← h, hz1]; rfl
          · rw [hz2]; rfl
          · intro z hz
            simp only [List.mem_cons] at hz
            rcases hz with hz | hz
            · subst hz; exact hs2
            · exact hz3 z hz

/-! ### step 5 -/

theorem foldl_issue_rel : ∀ (zs : List (Rdfcanon.NDResult β × Spec.RDFC10.NDResult β))
    (cm : Rdfcanon.Issuer β) (cs : Spec.RDFC10.Issuer β), CRel cm cs → (∀ z ∈ zs, NDRel z.1 z.2) →
    CRel ((zs.map (·.1)).foldl (fun c r => Rdfcanon.issueAll c r.issuer.order) cm)
      ((zs.map (·.2)).foldl (fun c r => Spec.RDFC10.issueAll c (r.issuer.issued.map (·.1))) cs)
  | [], cm, cs, hc, _ => hc
  | z :: zs, cm, cs, hc, hz => by
    simp only [List.map_cons, List.foldl_cons]
    have hz0 := hz z (by simp)
    rw [hz0.2.order]
    exact foldl_issue_rel zs _ _ (hc.issueAll _) (fun z' hz' => hz z' (by simp [hz']))

theorem step5_rel (T : NQ.Tables) (henc : EncOK T) (H : Str → Str) {sb : Spec.RDFC10.B2Q β}
    (lim : Rdfcanon.Limits) (perms : List β → List (List β)) (hperms : PermsAgree lim.maxPermutations perms) :
    ∀ (gs : List (Str × List β)) (st : Rdfcanon.State β) (cs : Spec.RDFC10.Issuer β),
    BRel T st.b2q sb → CRel st.canon cs →
    ∀ st', Rdfcanon.step5 H lim gs st = .ok st' →
    ∃ cs', Spec.RDFC10.step5 H perms sb (lim.maxRecursionDepth + 1) gs cs = some cs' ∧
      CRel st'.canon cs' ∧ st'.b2q = st.b2q ∧ st'.all = st.all
  | [], st, cs, _, hc, st', h => by
    simp only [Rdfcanon.step5, Rdfcanon.Res.ok.injEq] at h
    subst h
    exact ⟨cs, by simp [Spec.RDFC10.step5], hc, rfl, rfl⟩
  | (hsh, ids) :: rest, st, cs, hb, hc, st', h => by
    unfold Rdfcanon.step5 at h
    unfold Spec.RDFC10.step5
    cases hh : Rdfcanon.hashPathList H st lim ids with
    | limit l => rw [hh] at h; simp at h
    | panic => rw [hh] at h; simp at h
    | ok mrs =>
      rw [hh] at h
      simp only at h
      obtain ⟨zs, hz1, hz2, hz3⟩ := hashPathList_rel T henc H hb hc lim perms hperms ids mrs hh
      rw [hz2]
      simp only
      -- sort the pairs once; both sorted lists are projections of it
      let zsorted := zs.mergeSort (fun a b => strLe a.1.hash b.1.hash)
      have hm1 : (zs.map (·.1)).mergeSort (fun a b => strLe a.hash b.hash) = zsorted.map (·.1) := by
        refine (List.map_mergeSort (r := fun (a b : Rdfcanon.NDResult β × Spec.RDFC10.NDResult β) => strLe a.1.hash b.1.hash)
          (s := fun (a b : Rdfcanon.NDResult β) => strLe a.hash b.hash) (f := fun (z : Rdfcanon.NDResult β × Spec.RDFC10.NDResult β) => z.1) ?_).symm
        intro a _ b _
        rfl
      have hm2 : (zs.map (·.2)).mergeSort (fun a b => strLe a.hash b.hash) = zsorted.map (·.2) := by
        refine (List.map_mergeSort (r := fun (a b : Rdfcanon.NDResult β × Spec.RDFC10.NDResult β) => strLe a.1.hash b.1.hash)
          (s := fun (a b : Spec.RDFC10.NDResult β) => strLe a.hash b.hash) (f := fun (z : Rdfcanon.NDResult β × Spec.RDFC10.NDResult β) => z.2) ?_).symm
        intro a ha b hb
        rw [(hz3 a ha).1, (hz3 b hb).1]
      rw [hz1, hm1] at h
      rw [hm2]
      have hzs : ∀ z ∈ zsorted, NDRel z.1 z.2 := fun z hz => hz3 z (List.mem_mergeSort.mp hz)
      have hc' := foldl_issue_rel zsorted st.canon cs hc hzs
      obtain ⟨cs', h1, h2, h3, h4⟩ := step5_rel T henc H lim perms hperms rest
        { st with canon := (zsorted.map (·.1)).foldl (fun c r => Rdfcanon.issueAll c r.issuer.order) st.canon }
        _ hb hc' st' h
      exact ⟨cs', h1, h2, h3, h4⟩

end RdfModel.Proofs.C04
