/-
  Part C10D (serves C10, C05, C06): theorems about `Model.JsonLdToRdf`, the executable model of the
  deserialize-to-RDF stage of /repo's JSON-LD decoder (the driver op `jld.run` runs these definitions).

  Termination: `decodeElement` and its seven companions are defined by structural recursion on the
  expanded tree (no fuel, no well-founded recursion), so the model is a total function: for EVERY
  tree the inductive type `Exp` admits, every option and every evaluation context it returns one of
  `ok` / `err` / `panic` — accepted by Lean's termination checker; nothing to assume.
-/
import RdfModel.Props.C10DDefs
import RdfModel.Props.C10Defs
import RdfModel.Proofs.C10DPanic
import RdfModel.Proofs.C10DFlat
import RdfModel.Proofs.C10DWf
namespace RdfModel.C10D
open RdfModel RdfModel.Desc RdfModel.JLD

/-- **C05, deserialize stage.** On every expanded tree in which no scalar primitive carries a nil
    inspectjson.Value and no value makes AsBuiltin/json.Encode panic (`ExpOK`, checked by the harness on
    every output of the real expansion), under every rdfDirection setting (also the ones newDecoder
    rejects) and from every evaluation context, decodeElement does not panic. -/
theorem jld_tordf_no_panic (cfg : Cfg) (c : ECtx) (e : Exp) (n : Nat) (h : ExpOK e = true) :
    decodeElement cfg c e n ≠ .panic :=
  Proofs.C10D.decodeElement_np cfg c e n h

/-- the whole run (parseRoot after expansion + the Next protocol) does not panic -/
theorem jld_run_no_panic (cfg : Cfg) (e : Exp) (h : ExpOK e = true) : run cfg e ≠ .panic := by
  have := jld_tordf_no_panic cfg ECtx.root e 0 h
  unfold run decodeRoot
  split <;> simp_all

/-- a tree with several node objects, a list, a typed value and a native number satisfying `ExpOK` -/
def okTree : Exp :=
  .arr [.obj [(kId, .prim (.str (asc "http://e/s")) .absent),
              (asc "http://e/p", .arr [.obj [(kList, .arr [.obj [(kValue, .prim (.num (.fin false [1, 5] 0)) (.text (asc "1.5")))]])],
                                       .obj [(kType, .prim (.str (asc "@json")) .absent), (kValue, .prim .object (.text (asc "{}")))]])]]

example : ExpOK okTree = true := by decide
example : (run ⟨.none⟩ okTree matches .done (_ :: _ :: _ :: _) none) = true := by decide

/-- The invariant is needed: a value object whose `@value` primitive holds a nil inspectjson.Value makes
    the model (and, replayed through the hook, the Go code: `valuePrimitive.GetGrammarName()` on a nil
    interface in the `default:` case of decodeValueNode) panic. -/
def nilValueTree : Exp := .obj [(asc "http://e/p", .arr [.obj [(kValue, .prim .nil .absent)]])]

theorem jld_panics_without_expok : ExpOK nilValueTree = false ∧ run ⟨.none⟩ nilValueTree = .panic := by decide

/-- … and so does `@type: @json` over a value on which AsBuiltin panics. -/
theorem jld_json_panics_without_expok :
    run ⟨.none⟩ (.obj [(asc "http://e/p", .arr [.obj [(kType, .prim (.str kJson) .absent), (kValue, .prim .object .panics)]])]) = .panic := by
  decide


/-- Theorem (3) of the task, full statement: on the expansion of every flattened expanded document
    (`JL.writeFlat`, whose fragment denotation is the dataset itself by `C10.writeFlat_denotes`) the decoder
    model yields exactly the dataset's quads, blank nodes labelled by `name`, in order, under every
    rdfDirection. NOT PROVED in this round (no `…_partial` theorem either): only the decided instance
    `Witness.flat_roundtrip` / `Witness.flat_spec` below; the harness checks the equation on every flat
    case (stage `flat`: model output = dataset, expandFlat = real expansion). -/
def jld_refines_fragment : Prop :=
  ∀ (cfg : Cfg) (name : Nat → Str), (∀ b, name b ≠ []) → ∀ d : List (DQuad Nat), C10.WFDataset d →
    run cfg (expandFlat (JL.writeFlat name d)) = .done (d.map (toRQ name)) none

namespace Witness
def name (n : Nat) : Str := JL.natDigits n
def d : List (DQuad Nat) :=
  [⟨⟨.iri (asc "http://e.org/s"), asc "http://e.org/p", .bnode 1⟩, none⟩,
   ⟨⟨.bnode 1, asc "http://e.org/q", .lit (asc "chat") rdfLangString (some (asc "fr"))⟩, some (.iri (asc "http://e.org/g"))⟩,
   ⟨⟨.bnode 1, asc "http://e.org/q", .lit (asc "1") (asc "http://www.w3.org/2001/XMLSchema#integer") none⟩, some (.bnode 2)⟩]
theorem wf : C10.WFDataset d := by decide
theorem flat_roundtrip : run ⟨.none⟩ (expandFlat (JL.writeFlat name d)) = .done (d.map (toRQ name)) none := by decide
theorem flat_sorted : (expandFlat (JL.writeFlat name d)).membersSorted = true := by decide
theorem flat_spec : (JL.toRdf true none (JL.writeFlat name d)).map (·.map fun q => (⟨some q.t.s, q.t.p, some q.t.o, q.g⟩ : RQ)) = some (d.map (toRQ name)) := by decide
end Witness

/-- C06 for the deserialize stage, full statement (NOT proved in this round; checked by the harness on
    every statement the real decoder yields: `illFormed` in go/cmd/c10d mirrors `WfRQ`). -/
def jld_emits_wf : Prop :=
  ∀ (cfg : Cfg) (c : ECtx) (e : Exp) (n : Nat), cfg.dir ≠ .other → ECtx.ok c = true →
    ∀ q ∈ R.quads (decodeElement cfg c e n), WfRQ q = true

def wfTree : Exp :=
  .arr [.obj [(kId, .prim (.str (asc "_:s")) .absent), (kType, .arr [.prim (.str (asc "http://e/T")) .absent]),
              (asc "http://e/p", .arr [.obj [(kList, .arr [.obj [(kValue, .prim (.num (.fin false [1, 5] 0)) (.text (asc "1.5")))], .obj []])],
                                       .obj [(kDirection, .prim (.str (asc "rtl")) .absent), (kLanguage, .prim (.str (asc "EN")) .absent), (kValue, .prim (.str (asc "x")) .absent)]])]]

theorem wf_witness : ∀ d ∈ [RdfDir.none, .i18n, .compound], ∀ q ∈ R.quads (decodeRoot ⟨d⟩ wfTree), WfRQ q = true := by decide

/-- `cfg.dir ≠ .other` is needed: with an rdfDirection outside the two documented values (rejected by
    newDecoder) a value object with `@direction` but no `@language` yields rdf:dirLangString with an empty language -/
theorem wf_fails_for_other :
    decodeRoot ⟨.other⟩ (.obj [(asc "http://e/p", .arr [.obj [(kDirection, .prim (.str (asc "ltr")) .absent), (kValue, .prim (.str (asc "x")) .absent)]])]) =
      .ok [⟨some (.bnode (.fresh 0)), asc "http://e/p", some (.lit (asc "x") rdfDirLangString (some (asc "--ltr"))), none⟩] 1 := by decide

end RdfModel.C10D
