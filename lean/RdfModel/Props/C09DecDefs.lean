/-
  Definitions used by the statements of Props/C09Dec.lean (shape of emitted statements).
-/
import RdfModel.Model.RdfXmlDecoder
namespace RdfModel.C09Dec
open RdfModel RdfModel.Desc RdfModel.RX RdfModel.RXD

/-- subject position: an IRI or a blank node (blank nodes carry their identity by type) -/
def WFSubj : Term BN → Prop
  | .lit _ _ _ => False
  | _ => True

/-- object position: a literal always has a datatype IRI (by type); it carries a language tag exactly when the
    datatype is rdf:langString, the tag is then non-empty, and the datatype is never rdf:dirLangString (the
    decoder has no way to produce a direction) -/
def WFObj : Term BN → Prop
  | .lit _ dt lang => (lang.isSome ↔ dt = rdfLangString) ∧ (∀ l, lang = some l → l ≠ []) ∧ dt ≠ rdfDirLangString
  | _ => True

/-- the predicate is an IRI by type -/
def WFTriple (t : T) : Prop := WFSubj t.s ∧ WFObj t.o

/-- everything appended to `d.statements`, observable or not -/
def emitted : Result → List T
  | .ok ts => ts
  | .err _ ts => ts
  | .panic => []

/-! ## The LEAF fragment of plans (for `rxd_decode_render_leaf`)

  Everything except the nesting productions and what makes the decoder's statement ORDER differ from the
  order of `flatDoc`:
    * node elements: typed or rdf:Description, rdf:about / rdf:nodeID / anonymous subject (NOT rdf:ID), xml:base and
      xml:lang, literal property attributes outside the RDF namespace (NOT rdf:type="…" or other rdf: names
      as attributes: the decoder emits those in a different position);
    * property elements: literal, typed literal (rdf:datatype), empty, rdf:resource, rdf:nodeID (the last two
      without property attributes), parseType="Literal"/other with opaque content; any of them with xml:base /
      xml:lang, written as rdf:li or by name, with or without rdf:ID (reification);
    * NOT: resourcePropertyElt (nested node element), parseType="Resource", parseType="Collection", empty
      property elements with property attributes or with rdf:datatype only. -/

def plainPAttr : PAttr → Bool
  | .lit ns _ _ _ => decide (ns ≠ rdfNS) && decide (ns ≠ xmlnsSpace)
  | .type _ _ => false

def leafProp : PProp → Bool
  | .lit _ _ _ _ _ => true
  | .typed _ _ _ _ _ _ => true
  | .empty _ _ _ _ => true
  | .res _ _ _ _ _ pattrs => pattrs.isEmpty
  | .bref _ _ _ _ pattrs => pattrs.isEmpty
  | .ptLit _ _ _ _ _ => true
  | _ => false

def leafSubj : Subj → Bool
  | .id _ _ => false
  | _ => true

def leafNode : PNode → Bool
  | .mk _ subj _ pattrs props => leafSubj subj && pattrs.all plainPAttr && props.all leafProp

def leafDoc (d : PDoc) : Bool := d.nodes.all leafNode

/-! ## The STRIPED fragment (for `rxd_decode_render_striped`): the leaf fragment plus the two nesting productions
  whose blank-node numbering the decoder shares with the denotation — resourcePropertyElt (a nested node
  element, recursively) and parseType="Resource" (a nested property list, recursively).  The decoder emits
  the statement of a resourcePropertyElt AFTER the nested node's statements, so the result is a
  permutation of the intended triples, not the same list.  Also included here: empty property elements with
  literal property attributes (outside the RDF namespace) and/or rdf:resource / rdf:nodeID / a lone rdf:datatype
  (the decoder emits the property-attribute statements BEFORE the element's own statement: permutation again).
  Still NOT included: parseType="Collection" (cell/item numbering differs: needs a renaming), rdf:ID on node
  elements, rdf:type="…" and other rdf:-namespace property attributes. -/

mutual
def stripedNode : PNode → Bool
  | .mk _ subj _ pattrs props => leafSubj subj && pattrs.all plainPAttr && stripedProps props
def stripedProps : List PProp → Bool
  | [] => true
  | p :: ps => stripedProp p && stripedProps ps
def stripedProp : PProp → Bool
  | .lit _ _ _ _ _ => true
  | .typed _ _ _ _ _ _ => true
  | .empty _ _ _ _ => true
  | .res _ _ _ _ _ pattrs => pattrs.all plainPAttr
  | .bref _ _ _ _ pattrs => pattrs.all plainPAttr
  | .ptLit _ _ _ _ _ => true
  | .node _ _ _ n => stripedNode n
  | .ptRes _ _ _ _ props => stripedProps props
  | .banon _ _ _ _ _ pattrs => pattrs.all plainPAttr
  | .ptColl _ _ _ _ _ => false
end

def stripedNodes : List PNode → Bool
  | [] => true
  | n :: ns => stripedNode n && stripedNodes ns

def stripedDoc (d : PDoc) : Bool := stripedNodes d.nodes

end RdfModel.C09Dec
