/-
  Proofs.C07Tok — token level of "every N-Triples document is Turtle": what the N-Triples/N-Quads
  scanners (Model/NQuads.lean) accept, the Turtle/TriG producers read the same way.
-/
import RdfModel.Props.C02TokensDefs
import RdfModel.Proofs.C02TokA
namespace RdfModel.Proofs.C07Tok
open RdfModel RdfModel.Ttl RdfModel.C02

/-- IRI bodies: the two scanners are the same function (up to `string(decoded)`). -/
theorem scanIRI_sub (Tn : NQ.Tables) (T : Tables) (hhex : Tn.hexDec = T.hexDec) (e : End)
    (inp : List Nat) : ∀ (st : SState) (acc v r : List Nat),
      NQ.scanIRI Tn e st inp acc = .ok v r → scanIRIREF T e st inp acc = .ok (goString v) r := by
  induction inp with
  | nil => intro st acc v r h; simp [NQ.scanIRI] at h
  | cons c rest ih =>
    intro st acc v r h
    cases st with
    | body =>
      rw [NQ.scanIRI] at h
      rw [scanIRIREF]
      by_cases h1 : c = 0x3e
      · simp only [h1, if_true] at h ⊢
        cases h; rfl
      · simp only [h1, if_false] at h ⊢
        by_cases h2 : c = 0x5c
        · simp only [h2, if_true] at h ⊢
          exact ih _ _ _ _ h
        · simp only [h2, if_false] at h ⊢
          split at h
          · cases h
          · next hf =>
            have : iriForbidden c = false := by
              simp only [iriForbidden, Bool.or_eq_false_iff, decide_eq_false_iff_not]
              omega
            simp only [this, Bool.false_eq_true, if_false]
            exact ih _ _ _ _ h
    | esc =>
      rw [NQ.scanIRI] at h
      rw [scanIRIREF]
      by_cases h1 : c = 0x75
      · simp only [h1, if_true] at h ⊢; exact ih _ _ _ _ h
      · simp only [h1, if_false] at h ⊢
        by_cases h2 : c = 0x55
        · simp only [h2, if_true] at h ⊢; exact ih _ _ _ _ h
        · simp only [h2, if_false] at h; cases h
    | hex ms x =>
      cases ms with
      | nil => simp [NQ.scanIRI] at h
      | cons m ms =>
        rw [NQ.scanIRI] at h
        rw [scanIRIREF, ← hhex]
        cases hd : lookup Tn.hexDec 0 c with
        | zero => simp [hd] at h
        | succ d =>
          simp only [hd] at h ⊢
          by_cases hm : d > m
          · simp [hm] at h
          · simp only [hm, if_false] at h ⊢
            cases ms with
            | nil => exact ih _ _ _ _ h
            | cons m' ms' => exact ih _ _ _ _ h

/-- Literal bodies: the N-Triples scanner is the short-`"` case of the Turtle string scanner. -/
theorem scanLit_sub (Tn : NQ.Tables) (T : Tables) (hhex : Tn.hexDec = T.hexDec) (e : End)
    (inp : List Nat) : ∀ (st : SState) (acc v r : List Nat),
      NQ.scanLit Tn e st inp acc = .ok v r →
      scanString T e 0x22 false st inp acc = .ok (goString v) r := by
  induction inp with
  | nil => intro st acc v r h; simp [NQ.scanLit] at h
  | cons c rest ih =>
    intro st acc v r h
    cases st with
    | body =>
      rw [NQ.scanLit] at h
      conv => lhs; unfold scanString
      by_cases h1 : c = 0x22
      · simp only [h1, if_true] at h
        cases h
        subst h1
        simp
      · simp only [h1, if_false] at h
        by_cases h2 : c = 0x5c
        · simp only [h2, if_true] at h
          have := ih _ _ _ _ h
          subst h2
          simpa using this
        · simp only [h2, if_false] at h
          have := ih _ _ _ _ h
          by_cases h3 : c = 0x27
          · subst h3; simpa using this
          · simpa [h1, h2, h3] using this
    | esc =>
      rw [NQ.scanLit] at h
      conv => lhs; unfold scanString
      by_cases h1 : c = 0x75
      · simp only [h1, if_true] at h ⊢; exact ih _ _ _ _ h
      · simp only [h1, if_false] at h ⊢
        by_cases h2 : c = 0x55
        · simp only [h2, if_true] at h ⊢; exact ih _ _ _ _ h
        · simp only [h2, if_false] at h ⊢
          cases hd : NQ.echarDecode c with
          | none => simp [hd] at h
          | some d =>
            simp only [hd] at h
            simp only [echarDecode, hd]
            exact ih _ _ _ _ h
    | hex ms x =>
      cases ms with
      | nil => simp [NQ.scanLit] at h
      | cons m ms =>
        rw [NQ.scanLit] at h
        conv => lhs; unfold scanString
        rw [← hhex]
        cases hd : lookup Tn.hexDec 0 c with
        | zero => simp [hd] at h
        | succ d =>
          simp only [hd] at h ⊢
          by_cases hm : d > m
          · simp [hm] at h
          · simp only [hm, if_false] at h ⊢
            cases ms with
            | nil => exact ih _ _ _ _ h
            | cons m' ms' => exact ih _ _ _ _ h

end RdfModel.Proofs.C07Tok
