/-
  Props.C11Ra — property theorems about the executable model of the Go RDFa decoder (Model/RdfaDecoder.lean, the model
  the driver op `rdfa.dec` runs).  Part C11RA: serves C05 (no panic), C06 (well-formed statements), C11 (the decoder
  against the RDFa fragment semantics).

  Hypotheses that occur:
    `EnvOK E`   the six xsdobject time mappers (parameters of the model) return typed literals without a tag, with a
                datatype other than the two language-string datatypes.  (The harness checks this on every oracle entry.)
    `RootOK d`  the start node is not a `head` / `body` element: x/net/html's Parse returns a DocumentNode (DataAtom 0).
                Without it the Go code does crash (`rootless_body_panics` below): html.NewDocument accepts any node,
                and rdfa-in-html rule 8 asserts `ectx.ParentObject.(rdf.SubjectValue)` on the nil parent object.

  Termination ("bounded time"): `walk` / `walkKids` are defined by structural recursion on the DOM tree (no fuel); each
  node is entered exactly once, and per node every loop runs over an attribute value's tokens, the attribute list, the
  pending incomplete triples or the pending list items.  Property copying is a triple join over the statements (cubic;
  C05's known finding C05X-rdfa-pattern-copy is about exactly that) — time bounds are not part of the theorem.
-/
import RdfModel.Proofs.C11RaWalk
import RdfModel.Proofs.C11RaBlocks
import RdfModel.Proofs.C11RaFragment
import RdfModel.Driver.RdfaDec
namespace RdfModel.C11Ra
open RdfModel RdfModel.Rdfad
open RdfModel.Mdd (Node Attr Bytes Subj fields trimSpace)

/-- C05 for the RDFa decoder: on EVERY tree, configuration and oracle the modelled NewDecoder + Next neither crashes
    (`panic`) nor builds a statement / list item with a nil subject or object (`nilTerm`); it ends in `ok stmts`,
    `err` (xml render failed: Next = false, Err set, no statement) or `newErr` (document base did not parse). -/
theorem rdfa_terminates_no_panic (E : Env) (hE : EnvOK E) (cfg : Cfg) (doc : Node) (h : RootOK doc) :
    decode E cfg doc ≠ .panic ∧ decode E cfg doc ≠ .nilTerm := by
  unfold decode
  cases hr : run E cfg doc with
  | none => simp
  | some st =>
    have i := run_inv E hE cfg doc h st hr
    obtain ⟨⟨h1, h2⟩, _, _⟩ := i
    simp only
    cases hb : st.bad with
    | none => simp
    | some b => cases b <;> simp_all

/-- the three outcomes that remain -/
theorem rdfa_outcomes (E : Env) (hE : EnvOK E) (cfg : Cfg) (doc : Node) (h : RootOK doc) :
    (∃ ss u, decode E cfg doc = .ok ss u) ∨ decode E cfg doc = .err ∨ decode E cfg doc = .newErr := by
  have := rdfa_terminates_no_panic E hE cfg doc h
  cases hd : decode E cfg doc with
  | ok ss u => exact Or.inl ⟨ss, u, rfl⟩
  | newErr => exact Or.inr (Or.inr rfl)
  | err => exact Or.inr (Or.inl rfl)
  | panic => rw [hd] at this; exact absurd rfl this.1
  | nilTerm => rw [hd] at this; exact absurd rfl this.2

/-- C06 for the RDFa decoder.  A statement of the model has a subject that is an IRI or a blank node with an identity
    (`Subj`), a predicate that is an IRI (`Bytes`) and an object that is an IRI, blank node or literal (`Obj`) BY TYPE —
    the nil-able positions of the Go code are the `Option`s that `St.emit` turns into the `nilTerm` outcome, excluded by
    `rdfa_terminates_no_panic`.  What remains is the literal shape: every literal object has a non-empty datatype, never
    rdf:dirLangString, and a language tag (non-empty) exactly when the datatype is rdf:langString.
    Absoluteness of IRIs is NOT guaranteed by the code and not claimed: resolveIRI returns `rdf.IRI(value)` unchanged for
    a `prefix:reference` whose prefix is unknown, `rdf.IRI(vocab + term)` for whatever @vocab says (a relative @vocab
    gives relative predicates), and `base.Parse(ref)` is relative whenever the document base is (an empty location). -/
theorem rdfa_emits_wf (E : Env) (hE : EnvOK E) (cfg : Cfg) (doc : Node) (h : RootOK doc) (ss : List Stmt) (u : Bool)
    (hd : decode E cfg doc = .ok ss u) : ∀ t ∈ ss, WFObj t.o := by
  unfold decode at hd
  cases hr : run E cfg doc with
  | none => rw [hr] at hd; cases hd
  | some st =>
    rw [hr] at hd
    have i := run_inv E hE cfg doc h st hr
    simp only at hd
    cases hb : st.bad with
    | none =>
      rw [hb] at hd
      simp only [Outcome.ok.injEq] at hd
      rw [← hd.1]; exact i.2.1
    | some b => rw [hb] at hd; cases b <;> cases hd

/-! ### `EnvOK` for the oracle the driver runs: no hypothesis left on the environment -/

theorem timeEntry_ok (h : String) (lex dt : Bytes) (he : Driver.RdfaDec.timeEntry h = some (lex, dt)) :
    dt ≠ [] ∧ dt ≠ rdfLangString ∧ dt ≠ rdfDirLangString := by
  unfold Driver.RdfaDec.timeEntry at he
  split at he
  · split at he
    · split at he
      · cases he
      · rename_i hn
        simp only [Option.some.injEq, Prod.mk.injEq] at he
        rw [← he.2]
        simp only [not_or] at hn
        exact hn
    · cases he
  · cases he

theorem timeOf_ok (t : Driver.RdfaDec.Table) (k : Nat) (v lex dt : Bytes)
    (he : Driver.RdfaDec.timeOf t k v = some (lex, dt)) : dt ≠ [] ∧ dt ≠ rdfLangString ∧ dt ≠ rdfDirLangString := by
  unfold Driver.RdfaDec.timeOf at he
  split at he
  · cases he
  · exact timeEntry_ok _ lex dt he
  · cases he

/-- the oracle built from ANY table satisfies `EnvOK` -/
theorem driver_env_ok (t : Driver.RdfaDec.Table) : EnvOK (Driver.RdfaDec.envOf t) := by
  intro f hf v lex dt hv
  simp only [Driver.RdfaDec.envOf, List.mem_cons, List.mem_nil_iff, or_false] at hf
  rcases hf with rfl | rfl | rfl | rfl | rfl | rfl <;> exact timeOf_ok t _ v lex dt hv

/-- C05 / C06 for what `rdfa.dec` executes: for every oracle table, configuration and tree whose root is not a head / body
    element the run neither panics nor builds a nil term, and every literal it yields is well-formed — no hypothesis on the
    environment. -/
theorem rdfa_driver_no_panic_wf (t : Driver.RdfaDec.Table) (cfg : Cfg) (doc : Node) (h : RootOK doc) :
    decode (Driver.RdfaDec.envOf t) cfg doc ≠ .panic ∧ decode (Driver.RdfaDec.envOf t) cfg doc ≠ .nilTerm ∧
      ∀ ss u, decode (Driver.RdfaDec.envOf t) cfg doc = .ok ss u → ∀ s ∈ ss, WFObj s.o :=
  ⟨(rdfa_terminates_no_panic _ (driver_env_ok t) cfg doc h).1, (rdfa_terminates_no_panic _ (driver_env_ok t) cfg doc h).2,
   fun ss u hd => rdfa_emits_wf _ (driver_env_ok t) cfg doc h ss u hd⟩

/-! ### the hypotheses are satisfiable, and needed -/

/-- an oracle whose first time mapper recognises one date -/
def exEnv : Env :=
  { parseBase := fun v => some v, xmlBase := fun _ v => some v, resolve := fun b v => some (b ++ v), lower := id,
    timeMaps := [fun v => if v = asc "2020-01-02" then some (v, asc "http://www.w3.org/2001/XMLSchema#date") else none],
    xmlRender := fun _ => some [], htmlRender := fun _ => some [] }

example : EnvOK exEnv := by
  intro f hf v lex dt hv
  simp only [exEnv, List.mem_singleton] at hf
  subst hf
  simp only at hv
  split at hv
  · simp only [Option.some.injEq, Prod.mk.injEq] at hv
    rw [← hv.2]; decide
  · cases hv

/-- `<#document><html><body><span about="_:a" property="http://p/" content="x" lang="en">` -/
def exDoc : Node :=
  .mk 0 2 [] [] [] []
    [.mk 0 3 [] (asc "html") [] []
      [.mk 0 3 [] (asc "body") [] []
        [.mk 0 3 [] (asc "span") [] [⟨[], asc "about", asc "_:a"⟩, ⟨[], asc "property", asc "http://p/"⟩,
            ⟨[], asc "content", asc "x"⟩, ⟨[], asc "lang", asc "en"⟩] []]]]

example : RootOK exDoc := by unfold RootOK; decide

example : decode exEnv { base := asc "http://ex.org/" } exDoc =
    .ok [⟨.bn 0, asc "http://p/", .lit (asc "x") rdfLangString (some (asc "en"))⟩] false := by decide

/-- Without `RootOK`: a document handed to the decoder as a bare `<body>` element (html.NewDocument accepts any root) under
    an explicitly active profile makes rule 8 assert on the nil parent object. -/
theorem rootless_body_panics :
    decode exEnv { profile := 0b111110 } (.mk 0 3 [] (asc "body") [] [] []) = .panic := by decide

/-! ### C11: the model decoder against the fragment semantics (partial)

  `Spec.Rdfa.denote` (Spec/RdfaFragment.lean) is the denotation the writer round trip `C11.rdfa_roundtrip` is proved
  for; its fallback markup of one triple is `Spec.Rdfa.canon`:  `<span about property content lang>` for a plain or
  language-tagged literal object, `<span about rel resource>` for a resource object, and `C11.rdfa_canonical_block`
  proves that in every context without pending incomplete triples the denotation of such a block is exactly that triple
  (subject = what @about resolves to, predicate = the single IRI @property/@rel resolves to).

  The two theorems below prove the SAME for the model of the Go decoder: on the DOM element of such a block (attributes
  in the writer's order; attribute order is covered by the T3 tie only), in every evaluation context without pending
  incomplete triples and with an empty list mapping, under every profile and configuration, `walk` appends exactly that
  one statement and does not fail.  Hypotheses `hS`/`hO`/`hP` say what the attribute values resolve to in the model
  (`resolveIRI` / `resolveTokens`, without allocating a blank node — true for IRIs and for `_:l` labels already seen);
  they are the model-side counterparts of `okRes` / `okPred` of the denotation.

  Proved (element level): about + property + content + lang; about + rel + resource.
  MISSING for the full `rdfa_refines_denote`: agreement of the two resolvers (`resolveIRI` vs `resSCI`/`resTCA`) as a
  theorem instead of a hypothesis; @datatype; @typeof; chaining (@rel/@rev with incomplete triples, inherited subjects);
  @inlist; @prefix/@vocab scoping; the html/head/body skeleton and the composition over a document (hence no composed
  statement with `rdfa_roundtrip` yet); first allocation of a `_:l` blank node; attribute order.  All of these are tied by
  T3 only (go/cmd/c11ra: model = Go; go/cmd/c11: Go = denotation). -/

/-- the model decoder on the literal canonical block `<span about=s property=pv content=c lang=lg>` -/
theorem rdfa_refines_denote_partial (E : Env) (cfg : Cfg) (ctx : Ctx) (st : St) (i : Nat) (s pv c lg : Bytes) (S : Subj)
    (p : Bytes) (hbad : st.bad = none) (hinc : ctx.incomplete = []) (hmap : st.getMap ctx.listMapping = [])
    (hS : ∀ m, resolveIRI E { st with maps := m } ctx.prefixes s (some ctx.base) (some ctx.vocab) true true =
      (some S, { st with maps := m }))
    (hP : ∀ m, resolveTokens E ctx.prefixes (some ctx.vocab) true (fields (trimSpace pv)) { st with maps := m } =
      ([p], { st with maps := m })) :
    (walk E cfg false ctx st (litBlock i s pv c lg)).bad = none ∧
    (walk E cfg false ctx st (litBlock i s pv c lg)).out = st.out ++ [⟨S, p, plainLit c lg⟩] :=
  literal_block E cfg ctx st i s pv c lg S p hbad hinc hmap hS hP

/-- the model decoder on the resource canonical block `<span about=s rel=pv resource=r>` -/
theorem rdfa_refines_denote_resource_partial (E : Env) (cfg : Cfg) (ctx : Ctx) (st : St) (i : Nat) (s pv r : Bytes)
    (S O : Subj) (p : Bytes) (hbad : st.bad = none) (hinc : ctx.incomplete = []) (hmap : st.getMap ctx.listMapping = [])
    (hS : ∀ m, resolveIRI E { st with maps := m } ctx.prefixes s (some ctx.base) (some ctx.vocab) true true =
      (some S, { st with maps := m }))
    (hO : ∀ m, resolveIRI E { st with maps := m } ctx.prefixes r (some ctx.base) (some ctx.vocab) true true =
      (some O, { st with maps := m }))
    (hP : ∀ m, resolveTokens E ctx.prefixes (some ctx.vocab) true (fields (trimSpace pv)) { st with maps := m } =
      ([p], { st with maps := m })) :
    (walk E cfg false ctx st (resBlock i s pv r)).bad = none ∧
    (walk E cfg false ctx st (resBlock i s pv r)).out = st.out ++ [⟨S, p, O.term⟩] :=
  resource_block E cfg ctx st i s pv r S O p hbad hinc hmap hS hO hP

/-! #### on the attribute TEXT (resolver hypotheses discharged)

  `refIRI prefixes v = some i`: the text `v` is an absolute IRI whose scheme is not a prefix in scope (then `i = v`) or a CURIE
  whose prefix is in scope (then `i` = expansion ++ reference) — decidable on the text and the in-scope mapping alone;
  `resolveIRI_ref` proves that the decoder's resolveIRI then returns `i` whatever the base, vocabulary, term mappings, oracle and
  state are.  `predIRI` / `typeIRI`: a one-token @property/@rel / @typeof value with such a token.  Blank-node references
  (`_:l`: they change the label map), terms, relative references (oracle-dependent) and bracketed CURIEs stay outside. -/

/-- resolveIRI on the text of an absolute IRI / in-scope CURIE -/
theorem rdfa_resolve_text (E : Env) (st : St) (prefixes : List (Bytes × Bytes)) (v : Bytes) (base : Option Bytes)
    (dv : Option Vocab) (safe terms : Bool) (i : Bytes) (h : refIRI prefixes v = some i) :
    resolveIRI E st prefixes v base dv safe terms = (some (.iri i), st) :=
  resolveIRI_ref E st prefixes v base dv safe terms i h

/-- `<span about=s property=pv content=c lang=lg>` ↦ `S p "c"(@lg)` -/
theorem rdfa_refines_denote_literal_text_partial (E : Env) (cfg : Cfg) (ctx : Ctx) (st : St) (i : Nat)
    (s pv c lg S p : Bytes) (hbad : st.bad = none) (hinc : ctx.incomplete = []) (hmap : st.getMap ctx.listMapping = [])
    (hs : refIRI ctx.prefixes s = some S) (hp : predIRI ctx.prefixes pv = some p) :
    (walk E cfg false ctx st (litBlock i s pv c lg)).bad = none ∧
    (walk E cfg false ctx st (litBlock i s pv c lg)).out = st.out ++ [⟨.iri S, p, plainLit c lg⟩] :=
  literal_block_text E cfg ctx st i s pv c lg S p hbad hinc hmap hs hp

/-- `<span about=s rel=pv resource=r>` ↦ `S p O` -/
theorem rdfa_refines_denote_resource_text_partial (E : Env) (cfg : Cfg) (ctx : Ctx) (st : St) (i : Nat)
    (s pv r S O p : Bytes) (hbad : st.bad = none) (hinc : ctx.incomplete = []) (hmap : st.getMap ctx.listMapping = [])
    (hs : refIRI ctx.prefixes s = some S) (ho : refIRI ctx.prefixes r = some O) (hp : predIRI ctx.prefixes pv = some p) :
    (walk E cfg false ctx st (resBlock i s pv r)).bad = none ∧
    (walk E cfg false ctx st (resBlock i s pv r)).out = st.out ++ [⟨.iri S, p, .iri O⟩] :=
  resource_block_text E cfg ctx st i s pv r S O p hbad hinc hmap hs ho hp

/-- @datatype + @content: `<span about=s property=pv content=c datatype=d lang="">` ↦ `S p "c"^^dt` for every datatype other
    than the two language-string datatypes, rdf:XMLLiteral and rdf:HTML (which the decoder treats differently) -/
theorem rdfa_refines_denote_typed_partial (E : Env) (cfg : Cfg) (ctx : Ctx) (st : St) (i : Nat) (s pv c d S p dt : Bytes)
    (hbad : st.bad = none) (hinc : ctx.incomplete = []) (hmap : st.getMap ctx.listMapping = [])
    (hs : refIRI ctx.prefixes s = some S) (hp : predIRI ctx.prefixes pv = some p) (hd : refIRI ctx.prefixes d = some dt)
    (hd0 : dt ≠ []) (hd1 : dt ≠ rdfLangString) (hd2 : dt ≠ rdfDirLangString) (hd3 : dt ≠ rdfXMLLiteral) (hd4 : dt ≠ rdfHTML) :
    (walk E cfg false ctx st (typedBlock i s pv c d)).bad = none ∧
    (walk E cfg false ctx st (typedBlock i s pv c d)).out = st.out ++ [⟨.iri S, p, .lit c dt none⟩] :=
  typed_block_text E cfg ctx st i s pv c d S p dt hbad hinc hmap hs hp hd hd0 hd1 hd2 hd3 hd4

/-- @typeof: `<span about=s typeof=ty>` ↦ `S rdf:type T` (typed resource = the @about subject) -/
theorem rdfa_refines_denote_typeof_partial (E : Env) (cfg : Cfg) (ctx : Ctx) (st : St) (i : Nat) (s ty S T : Bytes)
    (hbad : st.bad = none) (hinc : ctx.incomplete = []) (hmap : st.getMap ctx.listMapping = [])
    (hs : refIRI ctx.prefixes s = some S) (ht : typeIRI ctx.prefixes ty = some T) :
    (walk E cfg false ctx st (typeofBlock i s ty)).bad = none ∧
    (walk E cfg false ctx st (typeofBlock i s ty)).out = st.out ++ [⟨.iri S, rdfType, .iri T⟩] :=
  typeof_block_text E cfg ctx st i s ty S T hbad hinc hmap hs ht

/-- chaining with an incomplete triple across one nesting level:
    `<div about=s rel=pv><span about=o property=qv content=c lang=lg/></div>` ↦ `O q "c" . S p O`, in that order (the order
    `C11.rdfa_chaining` gives for the denotation); the hanging @rel's blank node is made and never mentioned -/
theorem rdfa_refines_denote_chaining_partial (E : Env) (cfg : Cfg) (ctx : Ctx) (st : St) (i j : Nat)
    (s pv o qv c lg S p O q : Bytes) (hbad : st.bad = none) (hinc : ctx.incomplete = [])
    (hmap : st.getMap ctx.listMapping = [])
    (hs : refIRI ctx.prefixes s = some S) (hp : predIRI ctx.prefixes pv = some p)
    (ho : refIRI ctx.prefixes o = some O) (hq : predIRI ctx.prefixes qv = some q) :
    (walk E cfg false ctx st (chainBlock i j s pv o qv c lg)).bad = none ∧
    (walk E cfg false ctx st (chainBlock i j s pv o qv c lg)).out =
      st.out ++ [⟨.iri O, q, plainLit c lg⟩, ⟨.iri S, p, .iri O⟩] :=
  chain_block_text E cfg ctx st i j s pv o qv c lg S p O q hbad hinc hmap hs hp ho hq

/-- @rev chaining across one nesting level: `<div about=s rev=pv><span about=o property=qv content=c lang=lg/></div>` ↦
    `O q "c" . O p S` -/
theorem rdfa_refines_denote_rev_chaining_partial (E : Env) (cfg : Cfg) (ctx : Ctx) (st : St) (i j : Nat)
    (s pv o qv c lg S p O q : Bytes) (hbad : st.bad = none) (hinc : ctx.incomplete = [])
    (hmap : st.getMap ctx.listMapping = [])
    (hs : refIRI ctx.prefixes s = some S) (hp : predIRI ctx.prefixes pv = some p)
    (ho : refIRI ctx.prefixes o = some O) (hq : predIRI ctx.prefixes qv = some q) :
    (walk E cfg false ctx st (revChainBlock i j s pv o qv c lg)).bad = none ∧
    (walk E cfg false ctx st (revChainBlock i j s pv o qv c lg)).out =
      st.out ++ [⟨.iri O, q, plainLit c lg⟩, ⟨.iri O, p, .iri S⟩] :=
  rev_chain_block_text E cfg ctx st i j s pv o qv c lg S p O q hbad hinc hmap hs hp ho hq

/-- @inlist: `<span about=s property=pv content=c lang=lg inlist>` whose subject differs from the parent subject (so that step 8
    starts a new list mapping and step 14 of this element emits it) ↦ a one-cell list `b first "c" . b rest nil . S p b` with
    `b` the next blank node.  `hlm`, `hfresh`: the context's list mapping exists and does not mention the list id about to be
    allocated (heap well-formedness; true for every state `walk` reaches — not proved here). -/
theorem rdfa_refines_denote_inlist_partial (E : Env) (cfg : Cfg) (ctx : Ctx) (st : St) (i : Nat) (s pv c lg S p : Bytes)
    (hbad : st.bad = none) (hinc : ctx.incomplete = [])
    (hps : ∀ z, ctx.parentSubject = some z → subjEq z (.iri S) = false)
    (hlm : ctx.listMapping < st.maps.length) (hfresh : alookup p (st.getMap ctx.listMapping) ≠ some st.lists.length)
    (hs : refIRI ctx.prefixes s = some S) (hp : predIRI ctx.prefixes pv = some p) :
    (walk E cfg false ctx st (inlistBlock i s pv c lg)).bad = none ∧
    (walk E cfg false ctx st (inlistBlock i s pv c lg)).out =
      st.out ++ [⟨.bn st.nextBn, rdfFirst, plainLit c lg⟩, ⟨.bn st.nextBn, rdfRest, .iri rdfNil⟩,
                 ⟨.iri S, p, .bnode st.nextBn⟩] :=
  inlist_block_text E cfg ctx st i s pv c lg S p hbad hinc hps hlm hfresh hs hp

/-- the text-level hypotheses are decidable and hold for ordinary markup: an absolute IRI, a CURIE with `ex` in scope -/
example : refIRI [(asc "ex", asc "http://v/")] (asc "http://a.example/x") = some (asc "http://a.example/x") ∧
    predIRI [(asc "ex", asc "http://v/")] (asc " ex:p ") = some (asc "http://v/p") ∧
    typeIRI [(asc "ex", asc "http://v/")] (asc "ex:T") = some (asc "http://v/T") ∧
    refIRI [(asc "ex", asc "http://v/")] (asc "ex") = none ∧ refIRI [(asc "ex", asc "http://v/")] (asc "_:b") = none := by decide

/-- the hypotheses of the two block theorems hold for a non-trivial context: an absolute IRI subject and object, a CURIE
    predicate, under the example oracle -/
example :
    let ctx : Ctx := { base := asc "http://ex.org/", listMapping := 0, prefixes := [(asc "ex", asc "http://v/")],
                       parentSubject := some (.iri (asc "http://ex.org/")), parentObject := some (.iri (asc "http://ex.org/")) }
    (walk exEnv {} false ctx (initSt {}) (resBlock 7 (asc "http://a/") (asc "ex:p") (asc "http://b/"))).out =
      [⟨.iri (asc "http://a/"), asc "http://v/p", .iri (asc "http://b/")⟩] := by decide

end RdfModel.C11Ra
