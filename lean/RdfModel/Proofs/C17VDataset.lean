/-
  C17 helper lemmas, part 12: the dataset builder over the repaired export.
-/
import RdfModel.Proofs.C17Dataset
import RdfModel.Proofs.C17VMain
namespace RdfModel.Proofs.C17
open RdfModel RdfModel.Desc RdfModel.C17

variable {β : Type} [DecidableEq β]

/-- C17 for datasets, repaired export: only the cross-graph hypothesis remains. -/
theorem dataset_flatten_exportV (Q : List (DQuad β)) (opts : Opts) (gord : List (Option (Term β)))
    (sord1 sord2 : Option (Term β) → List (Term β))
    (hg : gord.Perm (dbuild Q).graphNames)
    (hs1 : ∀ g ∈ gord, (sord1 g).Perm ((dbuild Q).builder g).subjects)
    (hs2 : ∀ g ∈ gord, (sord2 g).Perm ((dbuild Q).builder g).subjects)
    (hsh : NoSharedAnonymized Q opts) (n : Nat) :
    ∃ rs, (dbuild Q).exportResourcesV opts gord sord1 sord2 (Q.length + 1) = some rs ∧
      Spec.IsoQ (newQuadsList rs n).1 Q := by
  apply dataset_iso Q opts gord
    (fun g => ((dbuild Q).builder g).exportResourcesV opts (sord1 g) (sord2 g) (Q.length + 1)) hg _ hsh n
  intro g hgm
  have h1 := hs1 g hgm
  have h2 := hs2 g hgm
  rw [builder_dbuild] at h1 h2 ⊢
  exact graph_strongV (graphTriples Q g) opts (sord1 g) (sord2 g) h1 h2 (Q.length + 1)
    (by have := graphTriples_length_le Q g; omega)

end RdfModel.Proofs.C17
