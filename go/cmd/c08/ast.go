package main

// Go mirror of lean/RdfModel/Spec/TurtleAbstract.lean: abstract syntax `Doc`, the slot numbering
// (`objSlots` … `blockSlots`: one slot per token in document order, slot 0 = layout before the first
// token) and the wire format of `ttlp.doc` (lean/RdfModel/Driver/TtlP.lean).  The printer itself is
// NOT mirrored: the text always comes from the Lean driver.  What is mirrored is only what the
// harness needs to aim choices at particular tokens and to decide the known-finding predicates:
// which token owns which slot and whether that token is written.

import (
	"encoding/hex"
	"fmt"
	"strconv"
	"strings"
	"unicode/utf8"
)

// ---------------------------------------------------------------- abstract syntax

type iriS struct {
	pn   bool
	r    string // IRIREF: the reference
	p, l string // PrefixedName: prefix label, local name (unescaped value)
}

func ref(r string) iriS   { return iriS{r: r} }
func pn(p, l string) iriS { return iriS{pn: true, p: p, l: l} }

const (
	lPlain = iota
	lLang
	lTyped
	lNum
	lBool
)

type lit struct {
	kind int
	lex  string // lexical form / numeric token
	tag  string
	dt   iriS
	b    bool
}

const (
	oIRI = iota
	oBN
	oAnon
	oLit
	oBnpl
	oColl
)

type obj struct {
	kind  int
	iri   iriS
	label string
	lit   lit
	pos   []po  // oBnpl
	items []obj // oColl
}

type po struct {
	a    bool // verb `a`
	v    iriS
	objs []obj
}

type triples struct {
	s   obj // never oLit
	pos []po
}

const (
	dPrefixAt = iota
	dBaseAt
	dPrefixKw
	dBaseKw
)

type dir struct {
	kind int
	p, r string
}

const (
	bDir = iota
	bTriples
	bGraph
)

type block struct {
	kind  int
	d     dir
	t     triples
	kw    bool
	label *obj // graph label: nil = `{ … }`; oIRI / oBN / oAnon
	body  []triples
}

type doc []block

func (d doc) hasGraph() bool {
	for _, b := range d {
		if b.kind == bGraph {
			return true
		}
	}
	return false
}

// ---------------------------------------------------------------- wire format of the document

func hx(s string) string { return hex.EncodeToString([]byte(s)) }

func (i iriS) wire() string {
	if i.pn {
		return "N" + hx(i.p) + "." + hx(i.l)
	}
	return "R" + hx(i.r)
}

func (l lit) wire(out *[]string) {
	switch l.kind {
	case lPlain:
		*out = append(*out, "S"+hx(l.lex))
	case lLang:
		*out = append(*out, "G"+hx(l.lex)+"."+hx(l.tag))
	case lTyped:
		*out = append(*out, "D"+hx(l.lex), l.dt.wire())
	case lNum:
		*out = append(*out, "M"+hx(l.lex))
	default:
		if l.b {
			*out = append(*out, "T")
		} else {
			*out = append(*out, "F")
		}
	}
}

func (o obj) wire(out *[]string) {
	switch o.kind {
	case oIRI:
		*out = append(*out, o.iri.wire())
	case oBN:
		*out = append(*out, "B"+hx(o.label))
	case oAnon:
		*out = append(*out, "A")
	case oLit:
		o.lit.wire(out)
	case oBnpl:
		*out = append(*out, "["+strconv.Itoa(len(o.pos)))
		for _, p := range o.pos {
			p.wire(out)
		}
	case oColl:
		*out = append(*out, "("+strconv.Itoa(len(o.items)))
		for _, x := range o.items {
			x.wire(out)
		}
	}
}

func (p po) wire(out *[]string) {
	*out = append(*out, "P"+strconv.Itoa(len(p.objs)))
	if p.a {
		*out = append(*out, "a")
	} else {
		*out = append(*out, p.v.wire())
	}
	for _, o := range p.objs {
		o.wire(out)
	}
}

func (t triples) wire(out *[]string) {
	*out = append(*out, "t"+strconv.Itoa(len(t.pos)))
	t.s.wire(out)
	for _, p := range t.pos {
		p.wire(out)
	}
}

func (b block) wire(out *[]string) {
	switch b.kind {
	case bDir:
		switch b.d.kind {
		case dPrefixAt:
			*out = append(*out, "p"+hx(b.d.p)+"."+hx(b.d.r))
		case dBaseAt:
			*out = append(*out, "b"+hx(b.d.r))
		case dPrefixKw:
			*out = append(*out, "q"+hx(b.d.p)+"."+hx(b.d.r))
		default:
			*out = append(*out, "c"+hx(b.d.r))
		}
	case bTriples:
		b.t.wire(out)
	default:
		kw := "0"
		if b.kw {
			kw = "1"
		}
		*out = append(*out, "g"+kw+strconv.Itoa(len(b.body)))
		if b.label == nil {
			*out = append(*out, "-")
		} else {
			b.label.wire(out)
		}
		for _, t := range b.body {
			t.wire(out)
		}
	}
}

func (d doc) wire() string {
	if len(d) == 0 {
		return "-"
	}
	var out []string
	for _, b := range d {
		b.wire(&out)
	}
	return strings.Join(out, ",")
}

// ---------------------------------------------------------------- parsing the wire form back (replay)

type docParser struct {
	toks []string
	pos  int
	err  error
}

func (p *docParser) fail(f string, a ...any) {
	if p.err == nil {
		p.err = fmt.Errorf(f, a...)
	}
}

func (p *docParser) next() string {
	if p.pos >= len(p.toks) {
		p.fail("document ends early")
		return ""
	}
	p.pos++
	return p.toks[p.pos-1]
}

func (p *docParser) unhex(s string) string {
	b, err := hex.DecodeString(s)
	if err != nil {
		p.fail("bad hex %q", s)
	}
	return string(b)
}

func (p *docParser) pair(s string) (string, string) {
	f := strings.Split(s, ".")
	if len(f) != 2 {
		p.fail("bad pair %q", s)
		return "", ""
	}
	return p.unhex(f[0]), p.unhex(f[1])
}

func (p *docParser) iriTok(t string) (iriS, bool) {
	if strings.HasPrefix(t, "R") {
		return ref(p.unhex(t[1:])), true
	}
	if strings.HasPrefix(t, "N") {
		a, b := p.pair(t[1:])
		return pn(a, b), true
	}
	return iriS{}, false
}

func (p *docParser) num(s string) int {
	n, err := strconv.Atoi(s)
	if err != nil || n < 0 || n > 10000 {
		p.fail("bad count %q", s)
		return 0
	}
	return n
}

func (p *docParser) object() obj {
	t := p.next()
	if p.err != nil {
		return obj{}
	}
	switch {
	case t == "A":
		return obj{kind: oAnon}
	case t == "T" || t == "F":
		return obj{kind: oLit, lit: lit{kind: lBool, b: t == "T"}}
	case t[0] == 'B':
		return obj{kind: oBN, label: p.unhex(t[1:])}
	case t[0] == '[':
		n := p.num(t[1:])
		o := obj{kind: oBnpl}
		for i := 0; i < n && p.err == nil; i++ {
			o.pos = append(o.pos, p.po())
		}
		return o
	case t[0] == '(':
		n := p.num(t[1:])
		o := obj{kind: oColl}
		for i := 0; i < n && p.err == nil; i++ {
			o.items = append(o.items, p.object())
		}
		return o
	case t[0] == 'S':
		return obj{kind: oLit, lit: lit{kind: lPlain, lex: p.unhex(t[1:])}}
	case t[0] == 'G':
		a, b := p.pair(t[1:])
		return obj{kind: oLit, lit: lit{kind: lLang, lex: a, tag: b}}
	case t[0] == 'M':
		return obj{kind: oLit, lit: lit{kind: lNum, lex: p.unhex(t[1:])}}
	case t[0] == 'D':
		lex := p.unhex(t[1:])
		dt, ok := p.iriTok(p.next())
		if !ok {
			p.fail("datatype expected")
		}
		return obj{kind: oLit, lit: lit{kind: lTyped, lex: lex, dt: dt}}
	}
	if i, ok := p.iriTok(t); ok {
		return obj{kind: oIRI, iri: i}
	}
	p.fail("bad object token %q", t)
	return obj{}
}

func (p *docParser) po() po {
	t := p.next()
	if p.err != nil || t[0] != 'P' {
		p.fail("P expected, got %q", t)
		return po{}
	}
	n := p.num(t[1:])
	v := p.next()
	var r po
	if v == "a" {
		r.a = true
	} else if i, ok := p.iriTok(v); ok {
		r.v = i
	} else {
		p.fail("verb expected, got %q", v)
	}
	for i := 0; i < n && p.err == nil; i++ {
		r.objs = append(r.objs, p.object())
	}
	return r
}

func (p *docParser) triples() triples {
	t := p.next()
	if p.err != nil || t[0] != 't' {
		p.fail("t expected, got %q", t)
		return triples{}
	}
	n := p.num(t[1:])
	r := triples{s: p.object()}
	if r.s.kind == oLit {
		p.fail("literal subject")
	}
	for i := 0; i < n && p.err == nil; i++ {
		r.pos = append(r.pos, p.po())
	}
	return r
}

func parseDoc(s string) (doc, error) {
	if s == "-" {
		return nil, nil
	}
	p := &docParser{toks: strings.Split(s, ",")}
	var d doc
	for p.pos < len(p.toks) && p.err == nil {
		t := p.toks[p.pos]
		if t == "" {
			p.fail("empty token")
			break
		}
		switch t[0] {
		case 'p', 'q':
			p.pos++
			a, b := p.pair(t[1:])
			k := dPrefixAt
			if t[0] == 'q' {
				k = dPrefixKw
			}
			d = append(d, block{kind: bDir, d: dir{kind: k, p: a, r: b}})
		case 'b', 'c':
			p.pos++
			k := dBaseAt
			if t[0] == 'c' {
				k = dBaseKw
			}
			d = append(d, block{kind: bDir, d: dir{kind: k, r: p.unhex(t[1:])}})
		case 'g':
			p.pos++
			if len(t) < 3 {
				p.fail("bad graph token %q", t)
				break
			}
			b := block{kind: bGraph, kw: t[1] == '1'}
			n := p.num(t[2:])
			if p.pos < len(p.toks) && p.toks[p.pos] == "-" {
				p.pos++
			} else {
				l := p.object()
				if l.kind != oIRI && l.kind != oBN && l.kind != oAnon {
					p.fail("bad graph label")
				}
				b.label = &l
			}
			for i := 0; i < n && p.err == nil; i++ {
				b.body = append(b.body, p.triples())
			}
			d = append(d, b)
		default:
			d = append(d, block{kind: bTriples, t: p.triples()})
		}
	}
	return d, p.err
}

// ---------------------------------------------------------------- choices

// litem is one layout item: ws >= 0 (0 SP, 1 TAB, 2 LF, 3 CR) or a comment (ws < 0).
type litem struct {
	ws   int
	text string
	eol  int // 0 LF, 1 CR LF, 2 lone CR, 3 nothing at the very end (LF otherwise)
}

func wsItem(c int) litem                 { return litem{ws: c} }
func comment(text string, eol int) litem { return litem{ws: -1, text: text, eol: eol} }

type slot struct {
	lay  []litem
	cs   string // one letter per rune: r e u l U L
	sty  int
	n    int
	glue bool
	lay2 []litem
}

type choices []slot

func (c choices) at(i int) slot {
	if i < len(c) {
		return c[i]
	}
	return slot{}
}

func layWire(l []litem) string {
	if len(l) == 0 {
		return ""
	}
	parts := make([]string, len(l))
	for i, it := range l {
		if it.ws >= 0 {
			parts[i] = "w" + strconv.Itoa(it.ws)
		} else {
			parts[i] = "c" + strconv.Itoa(it.eol) + hx(it.text)
		}
	}
	return strings.Join(parts, "_")
}

func (s slot) wire() string {
	var sb strings.Builder
	sb.WriteString(layWire(s.lay))
	sb.WriteByte(':')
	sb.WriteString(s.cs)
	sb.WriteByte(':')
	if s.sty != 0 {
		sb.WriteString(strconv.Itoa(s.sty))
	}
	sb.WriteByte(':')
	if s.n != 0 {
		sb.WriteString(strconv.Itoa(s.n))
	}
	sb.WriteByte(':')
	if s.glue {
		sb.WriteByte('1')
	}
	sb.WriteByte(':')
	sb.WriteString(layWire(s.lay2))
	return sb.String()
}

func (c choices) wire() string {
	// trailing default slots are dropped (`Choices.at` defaults them)
	n := len(c)
	for n > 0 && c[n-1].wire() == ":::::" {
		n--
	}
	if n == 0 {
		return "-"
	}
	parts := make([]string, n)
	for i := 0; i < n; i++ {
		parts[i] = c[i].wire()
	}
	return strings.Join(parts, "/")
}

func parseLay(s string) ([]litem, error) {
	if s == "" {
		return nil, nil
	}
	var out []litem
	for _, f := range strings.Split(s, "_") {
		switch {
		case len(f) == 2 && f[0] == 'w':
			out = append(out, wsItem(int(f[1]-'0')))
		case len(f) >= 2 && f[0] == 'c':
			b, err := hex.DecodeString(f[2:])
			if err != nil {
				return nil, err
			}
			out = append(out, comment(string(b), int(f[1]-'0')))
		default:
			return nil, fmt.Errorf("bad layout item %q", f)
		}
	}
	return out, nil
}

func parseChoices(s string) (choices, error) {
	if s == "-" {
		return nil, nil
	}
	var out choices
	for _, f := range strings.Split(s, "/") {
		p := strings.Split(f, ":")
		if len(p) != 6 {
			return nil, fmt.Errorf("bad slot %q", f)
		}
		l, err := parseLay(p[0])
		if err != nil {
			return nil, err
		}
		l2, err := parseLay(p[5])
		if err != nil {
			return nil, err
		}
		sl := slot{lay: l, cs: p[1], glue: p[4] == "1", lay2: l2}
		sl.sty, _ = strconv.Atoi(p[2])
		if sl.sty < 0 || sl.sty > 3 {
			sl.sty = 0
		}
		sl.n, _ = strconv.Atoi(p[3])
		out = append(out, sl)
	}
	return out, nil
}

// ---------------------------------------------------------------- slot numbering

type slotKind int

const (
	skStart    slotKind = iota // slot 0: layout before the first token
	skIRIREF                   // cs
	skPName                    // cs (local name)
	skBNode                    //
	skOpen                     // `[` `(` `{`
	skClose                    // `]` `)` `}`
	skString                   // cs, sty; layout used unless a datatype follows
	skNum                      //
	skBool                     //
	skA                        // keyword `a`: glue
	skKwPrefix                 // PREFIX: n (letter cases), glue
	skKwBase                   // BASE
	skKwGraph                  // GRAPH (written iff the block says so)
	skAtPrefix                 // `@prefix`
	skAtBase                   // `@base`
	skNs                       // PNAME_NS of a directive
	skComma                    // after every object of an object list; written unless last
	skSemi                     // after every predicate-object pair: n%3 (+1 unless last) semicolons, lay2 between them
	skDot                      // statement terminator; the last one inside `{ }` is written iff n is odd
	skDirDot                   // `.` of @prefix / @base
)

type slotInfo struct {
	kind    slotKind
	runes   int    // number of runes the `cs` choices apply to
	text    string // token value (reference, local name, lexical form, label, numeric token, namespace label)
	last    bool   // skComma: after the last object; skSemi: after the last pair; skDot: last statement of a `{ }` body
	written bool   // skKwGraph: the keyword is written; skString: followed by `^^` (its layout is not used)
	tag     string // skString with a language tag
	inBnplS bool   // skSemi: belongs to the outer predicate-object list of a top-level triples whose subject is `[ pol ]`
	depth   int    // nesting depth of the token (0 = statement level)
}

type walker struct {
	slots []slotInfo
	depth int
}

func (w *walker) add(s slotInfo) int {
	s.depth = w.depth
	w.slots = append(w.slots, s)
	return len(w.slots) - 1
}

func (w *walker) iri(i iriS) {
	if i.pn {
		w.add(slotInfo{kind: skPName, runes: utf8.RuneCountInString(i.l), text: i.p + ":" + i.l})
	} else {
		w.add(slotInfo{kind: skIRIREF, runes: utf8.RuneCountInString(i.r), text: i.r})
	}
}

func (w *walker) lit(l lit) {
	switch l.kind {
	case lPlain:
		w.add(slotInfo{kind: skString, runes: utf8.RuneCountInString(l.lex), text: l.lex})
	case lLang:
		w.add(slotInfo{kind: skString, runes: utf8.RuneCountInString(l.lex), text: l.lex, tag: l.tag})
	case lTyped:
		w.add(slotInfo{kind: skString, runes: utf8.RuneCountInString(l.lex), text: l.lex, written: true})
		w.iri(l.dt)
	case lNum:
		w.add(slotInfo{kind: skNum, text: l.lex})
	default:
		t := "false"
		if l.b {
			t = "true"
		}
		w.add(slotInfo{kind: skBool, text: t})
	}
}

func (w *walker) obj(o obj) {
	switch o.kind {
	case oIRI:
		w.iri(o.iri)
	case oBN:
		w.add(slotInfo{kind: skBNode, text: o.label})
	case oAnon:
		w.add(slotInfo{kind: skOpen, text: "["})
		w.add(slotInfo{kind: skClose, text: "]"})
	case oLit:
		w.lit(o.lit)
	case oBnpl:
		w.add(slotInfo{kind: skOpen, text: "["})
		w.depth++
		w.pos(o.pos, false)
		w.depth--
		w.add(slotInfo{kind: skClose, text: "]"})
	case oColl:
		w.add(slotInfo{kind: skOpen, text: "("})
		w.depth++
		for _, x := range o.items {
			w.obj(x)
		}
		w.depth--
		w.add(slotInfo{kind: skClose, text: ")"})
	}
}

func (w *walker) pos(pos []po, bnplS bool) {
	for i, p := range pos {
		if p.a {
			w.add(slotInfo{kind: skA, text: "a"})
		} else {
			w.iri(p.v)
		}
		for j, o := range p.objs {
			w.obj(o)
			w.add(slotInfo{kind: skComma, last: j == len(p.objs)-1})
		}
		w.add(slotInfo{kind: skSemi, last: i == len(pos)-1, inBnplS: bnplS})
	}
}

func (w *walker) triples(t triples, top, lastInBody bool) {
	w.obj(t.s)
	w.pos(t.pos, top && t.s.kind == oBnpl)
	w.add(slotInfo{kind: skDot, last: lastInBody})
}

// slotsOf lists the slots of a document in the numbering of `TA.blockSlots`.
func slotsOf(d doc) []slotInfo {
	w := &walker{}
	w.add(slotInfo{kind: skStart})
	for _, b := range d {
		switch b.kind {
		case bDir:
			switch b.d.kind {
			case dPrefixAt:
				w.add(slotInfo{kind: skAtPrefix, text: "@prefix"})
				w.add(slotInfo{kind: skNs, text: b.d.p + ":"})
				w.add(slotInfo{kind: skIRIREF, runes: utf8.RuneCountInString(b.d.r), text: b.d.r})
				w.add(slotInfo{kind: skDirDot})
			case dBaseAt:
				w.add(slotInfo{kind: skAtBase, text: "@base"})
				w.add(slotInfo{kind: skIRIREF, runes: utf8.RuneCountInString(b.d.r), text: b.d.r})
				w.add(slotInfo{kind: skDirDot})
			case dPrefixKw:
				w.add(slotInfo{kind: skKwPrefix, text: "PREFIX"})
				w.add(slotInfo{kind: skNs, text: b.d.p + ":"})
				w.add(slotInfo{kind: skIRIREF, runes: utf8.RuneCountInString(b.d.r), text: b.d.r})
			default:
				w.add(slotInfo{kind: skKwBase, text: "BASE"})
				w.add(slotInfo{kind: skIRIREF, runes: utf8.RuneCountInString(b.d.r), text: b.d.r})
			}
		case bTriples:
			w.triples(b.t, true, false)
		default:
			w.add(slotInfo{kind: skKwGraph, text: "GRAPH", written: b.kw})
			if b.label != nil {
				w.obj(*b.label)
			}
			w.add(slotInfo{kind: skOpen, text: "{"})
			w.depth++
			for i, t := range b.body {
				w.triples(t, false, i == len(b.body)-1)
			}
			w.depth--
			w.add(slotInfo{kind: skClose, text: "}"})
		}
	}
	return w.slots
}

// semis is the number of `;` written for a skSemi slot.
func semis(si slotInfo, s slot) int {
	if si.last {
		return s.n % 3
	}
	return 1 + s.n%3
}

// tokenWritten: does the token that owns slot i appear in the text?
func tokenWritten(si slotInfo, s slot) bool {
	switch si.kind {
	case skStart:
		return false
	case skComma:
		return !si.last
	case skSemi:
		return semis(si, s) > 0
	case skDot:
		return !si.last || s.n%2 == 1
	case skKwGraph:
		return si.written
	}
	return true
}

// layUsed: is the slot's `lay` printed?  (slot 0 always; a string followed by `^^` never.)
func layUsed(si slotInfo, s slot) bool {
	if si.kind == skStart {
		return true
	}
	if si.kind == skString && si.written {
		return false
	}
	return tokenWritten(si, s)
}

// firstRuneOfToken: the first rune of the text of the token of slot i ("" = unknown / not written).
func firstRuneOfToken(si slotInfo, s slot) rune {
	switch si.kind {
	case skIRIREF:
		return '<'
	case skPName, skNs, skBool, skNum, skA, skOpen, skClose:
		r, _ := utf8.DecodeRuneInString(si.text)
		return r
	case skBNode:
		return '_'
	case skString:
		if s.sty == 1 || s.sty == 3 {
			return '\''
		}
		return '"'
	case skComma:
		return ','
	case skSemi:
		return ';'
	case skDot, skDirDot:
		return '.'
	case skAtPrefix, skAtBase:
		return '@'
	case skKwPrefix:
		if s.n%2 == 1 {
			return 'p'
		}
		return 'P'
	case skKwBase:
		if s.n%2 == 1 {
			return 'b'
		}
		return 'B'
	case skKwGraph:
		if s.n%2 == 1 {
			return 'g'
		}
		return 'G'
	}
	return 0
}

// nextWritten: index of the next slot after i whose token is written (-1 = none).
func nextWritten(si []slotInfo, ch choices, i int) int {
	for j := i + 1; j < len(si); j++ {
		if tokenWritten(si[j], ch.at(j)) {
			return j
		}
	}
	return -1
}
