package main

// Input side of `-mode dec`: the W3C archive and replay files.

import (
	"archive/tar"
	"compress/gzip"
	"encoding/json"
	"io"
	"os"
	"path"
	"sort"
	"strings"

	"verifharness/vh"
)

type w3cFile struct {
	name string
	doc  []byte
}

func loadW3C() []w3cFile {
	repo := os.Getenv("VERIF_REPO")
	if repo == "" {
		repo = "/repo"
	}
	f, err := os.Open(path.Join(repo, "encoding/rdfxml/testsuites/w3-2013-RDFXMLTests/testdata.tar.gz"))
	if err != nil {
		return nil
	}
	defer f.Close()
	gz, err := gzip.NewReader(f)
	if err != nil {
		return nil
	}
	var out []w3cFile
	tr := tar.NewReader(gz)
	for {
		hd, err := tr.Next()
		if err != nil {
			break
		}
		name := strings.TrimPrefix(hd.Name, "./")
		if strings.HasPrefix(path.Base(name), "._") || hd.Typeflag != tar.TypeReg || !strings.HasSuffix(name, ".rdf") {
			continue
		}
		b, _ := io.ReadAll(tr)
		out = append(out, w3cFile{name, b})
	}
	sort.Slice(out, func(i, j int) bool { return out[i].name < out[j].name })
	return out
}

// decReplayCases reads `decdoc <xBASE|-> <eof|io> <xDOCUMENT>` lines, or a replay file written by ./check
// (the `op` of every recorded case).
func decReplayCases(p string) []*decCase {
	b, err := os.ReadFile(p)
	if err != nil {
		return nil
	}
	text := string(b)
	if strings.HasPrefix(strings.TrimSpace(text), "{") {
		var rf struct {
			Violations    []vh.Case `json:"violations"`
			Disagreements []vh.Case `json:"disagreements"`
		}
		if json.Unmarshal(b, &rf) == nil {
			var ls []string
			for _, c := range append(rf.Violations, rf.Disagreements...) {
				ls = append(ls, c.Op)
			}
			text = strings.Join(ls, "\n")
		}
	}
	var out []*decCase
	for _, l := range strings.Split(text, "\n") {
		f := strings.Fields(l)
		if len(f) != 4 || f[0] != "decdoc" {
			continue
		}
		doc, err := vh.UnX(f[3])
		if err != nil {
			continue
		}
		c := &decCase{origin: "replay", doc: doc, failing: f[2] == "io"}
		if f[1] != "-" {
			bb, err := vh.UnX(f[1])
			if err != nil {
				continue
			}
			s := string(bb)
			c.base = &s
		}
		out = append(out, c)
	}
	return out
}

// decCorpus: hand-picked documents for paths the generators rarely reach (xml.Encoder errors inside
// parseType="Literal" content, before and after a tokenizer error; nested elements, comments, CDATA and a directive
// inside such content; duplicate rdf:ID on parseType="Literal" elements).
var decCorpus = []string{
	`<rdf:RDF xmlns:rdf="http://www.w3.org/1999/02/22-rdf-syntax-ns#" xmlns:e="http://e/"><rdf:Description><e:p rdf:parseType="Literal">a<?xml version="1.0"?>b</e:p></rdf:Description></rdf:RDF>`,
	`<rdf:RDF xmlns:rdf="http://www.w3.org/1999/02/22-rdf-syntax-ns#" xmlns:e="http://e/"><rdf:Description><e:p rdf:parseType="Literal">a<?xml version="1.0"?>b</e:p></rdf:Description>`,
	`<rdf:RDF xmlns:rdf="http://www.w3.org/1999/02/22-rdf-syntax-ns#" xmlns:e="http://e/"><rdf:Description><e:p rdf:parseType="Literal" rdf:ID="x"><e:q e:a="1">t<!-- c --></e:q><![CDATA[<&]]></e:p><e:p rdf:parseType="Literal" rdf:ID="x"/></rdf:Description></rdf:RDF>`,
	`<rdf:RDF xmlns:rdf="http://www.w3.org/1999/02/22-rdf-syntax-ns#" xmlns:e="http://e/"><rdf:Description><e:p rdf:parseType="Literal"><!DOCTYPE x></e:p></rdf:Description></rdf:RDF>`,
	`<rdf:RDF xmlns:rdf="http://www.w3.org/1999/02/22-rdf-syntax-ns#" xmlns:e="http://e/"><rdf:Description><e:p rdf:parseType="Literal"><e:q><e:r>`,
	`<rdf:RDF xmlns:rdf="http://www.w3.org/1999/02/22-rdf-syntax-ns#" xmlns:e="http://e/"><rdf:Description><e:p rdf:parseType="other" rdf:ID="a" xml:base="http://o/">x<e:q/>y</e:p><e:p rdf:parseType="Resource" rdf:ID="a"><rdf:li rdf:ID="a"/></e:p></rdf:Description></rdf:RDF>`,
}
