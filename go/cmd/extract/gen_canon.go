package main

// T2 (structural facts) for rdfcanon: constants and expressions of /repo/rdfcanon/*.go read with
// go/ast and emitted as Lean data (Gen/CanonFacts.lean). Small `decide` theorems in
// Props/C04Facts.lean compare them with the constants the hand-written model uses. When the walker
// meets a shape it does not understand it emits "unknown" and the consuming theorem fails.

import (
	"fmt"
	"go/ast"
	"go/parser"
	"go/printer"
	"go/token"
	"os"
	"path/filepath"
	"sort"
	"strconv"
	"strings"
)

func init() { generators["canon"] = genCanon }

func canonRepo() string {
	if v := os.Getenv("VERIF_REPO"); v != "" {
		return v
	}
	return "/repo"
}

func canonExprString(fset *token.FileSet, e ast.Node) string {
	var sb strings.Builder
	printer.Fprint(&sb, fset, e)
	return sb.String()
}

func canonLeanStr(s string) string { return strconv.Quote(s) }

func genCanon(leanRoot string) {
	dir := filepath.Join(canonRepo(), "rdfcanon")
	fset := token.NewFileSet()
	parse := func(name string) *ast.File {
		f, err := parser.ParseFile(fset, filepath.Join(dir, name), nil, 0)
		if err != nil {
			fmt.Fprintln(os.Stderr, "canon facts:", err)
			os.Exit(2)
		}
		return f
	}
	unknown := "unknown"

	// --- algorithm_hash_first_degree_quads.go: the string literals written for blank nodes
	var placeholders []string
	ast.Inspect(parse("algorithm_hash_first_degree_quads.go"), func(n ast.Node) bool {
		if bl, ok := n.(*ast.BasicLit); ok && bl.Kind == token.STRING {
			if s, err := strconv.Unquote(bl.Value); err == nil && strings.Contains(s, "_:") {
				placeholders = append(placeholders, s)
			}
		}
		return true
	})
	sort.Strings(placeholders)

	// --- algorithm_hash_related_blank_node.go: what is appended for position != "g", the string literals
	relatedAppend, relatedCond := unknown, unknown
	var relatedLits []string
	ast.Inspect(parse("algorithm_hash_related_blank_node.go"), func(n ast.Node) bool {
		switch v := n.(type) {
		case *ast.ImportSpec:
			return false
		case *ast.IfStmt:
			if be, ok := v.Cond.(*ast.BinaryExpr); ok && canonExprString(fset, be.X) == "a.position" {
				relatedCond = canonExprString(fset, v.Cond)
				if len(v.Body.List) == 1 {
					if as, ok := v.Body.List[0].(*ast.AssignStmt); ok && as.Tok == token.ADD_ASSIGN && len(as.Rhs) == 1 {
						relatedAppend = canonExprString(fset, as.Rhs[0])
					}
				}
			}
		case *ast.BasicLit:
			if v.Kind == token.STRING {
				if s, err := strconv.Unquote(v.Value); err == nil {
					relatedLits = append(relatedLits, s)
				}
			}
		}
		return true
	})
	sort.Strings(relatedLits)

	// --- algorithm_hash_n_degree_quads.go: positions passed to eachComponent, the two limit tests,
	// the pruning condition(s), the final choice condition
	var positions, limitTests, pruneConds []string
	chooseCond := unknown
	ast.Inspect(parse("algorithm_hash_n_degree_quads.go"), func(n ast.Node) bool {
		switch v := n.(type) {
		case *ast.CallExpr:
			if id, ok := v.Fun.(*ast.Ident); ok && id.Name == "eachComponent" && len(v.Args) == 2 {
				if bl, ok := v.Args[1].(*ast.BasicLit); ok {
					if s, err := strconv.Unquote(bl.Value); err == nil {
						positions = append(positions, s)
					}
				}
			}
		case *ast.IfStmt:
			c := canonExprString(fset, v.Cond)
			if strings.Contains(c, "maxRecursionDepth") || strings.Contains(c, "maxPermutations") {
				limitTests = append(limitTests, c)
			}
			if len(v.Body.List) == 1 {
				if br, ok := v.Body.List[0].(*ast.BranchStmt); ok && br.Tok == token.GOTO {
					pruneConds = append(pruneConds, c)
				}
			}
			if len(v.Body.List) == 2 && strings.Contains(c, "chosenPath") {
				if as, ok := v.Body.List[0].(*ast.AssignStmt); ok && canonExprString(fset, as.Lhs[0]) == "chosenPath" {
					chooseCond = c
				}
			}
		}
		return true
	})

	// --- canonicalize.go: Clone, GetBlankNodeString of the temporary issuer
	cloneKnown, cloneOrder, tempID := unknown, unknown, unknown
	ast.Inspect(parse("canonicalize.go"), func(n ast.Node) bool {
		fd, ok := n.(*ast.FuncDecl)
		if !ok || fd.Recv == nil {
			return true
		}
		switch fd.Name.Name {
		case "Clone":
			ast.Inspect(fd, func(m ast.Node) bool {
				if kv, ok := m.(*ast.KeyValueExpr); ok {
					switch canonExprString(fset, kv.Key) {
					case "knownIdentifiers":
						cloneKnown = canonExprString(fset, kv.Value)
					case "issuedOrder":
						cloneOrder = canonExprString(fset, kv.Value)
					}
				}
				return true
			})
		case "GetBlankNodeString":
			ast.Inspect(fd, func(m ast.Node) bool {
				if as, ok := m.(*ast.AssignStmt); ok && as.Tok == token.ASSIGN && len(as.Lhs) == 1 &&
					canonExprString(fset, as.Lhs[0]) == "id" && strings.Contains(canonExprString(fset, as.Rhs[0]), "prefix") {
					tempID = canonExprString(fset, as.Rhs[0])
				}
				return true
			})
		}
		return true
	})

	// --- canonicalize_config.go: limits, canonical label format
	maxPerm, maxDepth, c14nFmt := unknown, unknown, unknown
	ast.Inspect(parse("canonicalize_config.go"), func(n ast.Node) bool {
		switch v := n.(type) {
		case *ast.KeyValueExpr:
			switch canonExprString(fset, v.Key) {
			case "maxPermutations":
				maxPerm = canonExprString(fset, v.Value)
			case "maxRecursionDepth":
				maxDepth = canonExprString(fset, v.Value)
			}
		case *ast.CallExpr:
			if canonExprString(fset, v.Fun) == "blanknodes.NewInt64StringProvider" && len(v.Args) == 1 {
				if bl, ok := v.Args[0].(*ast.BasicLit); ok {
					if s, err := strconv.Unquote(bl.Value); err == nil {
						c14nFmt = s
					}
				}
			}
		}
		return true
	})

	// --- algorithm_canonicalization.go: prefix of the temporary issuer
	tempPrefix := unknown
	ast.Inspect(parse("algorithm_canonicalization.go"), func(n ast.Node) bool {
		if v, ok := n.(*ast.CompositeLit); ok && canonExprString(fset, v.Type) == "identifierIssuer" {
			for _, e := range v.Elts {
				if kv, ok := e.(*ast.KeyValueExpr); ok && canonExprString(fset, kv.Key) == "prefix" {
					if bl, ok := kv.Value.(*ast.BasicLit); ok {
						if s, err := strconv.Unquote(bl.Value); err == nil {
							tempPrefix = s
						}
					}
				}
			}
		}
		return true
	})

	// --- every `if … { continue | break | goto L }` of the four algorithm files, in source order: loop control
	var loopBranches []string
	for _, name := range []string{"algorithm_canonicalization.go", "algorithm_hash_first_degree_quads.go", "algorithm_hash_n_degree_quads.go", "algorithm_hash_related_blank_node.go"} {
		ast.Inspect(parse(name), func(n ast.Node) bool {
			if v, ok := n.(*ast.IfStmt); ok && len(v.Body.List) == 1 {
				if br, ok := v.Body.List[0].(*ast.BranchStmt); ok {
					c := ""
					if v.Init != nil {
						c = canonExprString(fset, v.Init) + "; "
					}
					c += canonExprString(fset, v.Cond)
					t := br.Tok.String()
					if br.Label != nil {
						t += " " + br.Label.Name
					}
					loopBranches = append(loopBranches, strings.Join(strings.Fields(c), " ")+" => "+t)
				}
			}
			return true
		})
	}
	// any break/continue/goto that is NOT the sole statement of an if body (none expected)
	otherBranches := 0
	for _, name := range []string{"algorithm_canonicalization.go", "algorithm_hash_first_degree_quads.go", "algorithm_hash_n_degree_quads.go", "algorithm_hash_related_blank_node.go"} {
		total := 0
		ast.Inspect(parse(name), func(n ast.Node) bool {
			if br, ok := n.(*ast.BranchStmt); ok && br.Tok != token.FALLTHROUGH {
				total++
			}
			return true
		})
		otherBranches += total
	}
	otherBranches -= len(loopBranches)

	// --- every slices.SortFunc call of the four algorithm files, in source order: what is sorted and by what
	var sortCalls []string
	for _, name := range []string{"algorithm_canonicalization.go", "algorithm_hash_first_degree_quads.go", "algorithm_hash_n_degree_quads.go", "algorithm_hash_related_blank_node.go"} {
		ast.Inspect(parse(name), func(n ast.Node) bool {
			if v, ok := n.(*ast.CallExpr); ok && canonExprString(fset, v.Fun) == "slices.SortFunc" && len(v.Args) == 2 {
				cmp := strings.Join(strings.Fields(canonExprString(fset, v.Args[1])), " ")
				sortCalls = append(sortCalls, canonExprString(fset, v.Args[0])+" by "+cmp)
			}
			return true
		})
	}

	nat := func(s string) string {
		if _, err := strconv.Atoi(s); err != nil {
			return "0 -- unknown: " + s
		}
		return s
	}
	list := func(xs []string) string {
		q := make([]string, len(xs))
		for i, x := range xs {
			q[i] = canonLeanStr(x)
		}
		return "[" + strings.Join(q, ", ") + "]"
	}
	var sb strings.Builder
	sb.WriteString("-- GENERATED by /verif/go/cmd/extract (gen_canon.go) from /repo/rdfcanon/*.go (T2: go/ast facts). Do not edit.\n")
	sb.WriteString("namespace RdfModel.Gen.CanonFacts\n\n")
	fmt.Fprintf(&sb, "/-- string literals containing `_:` in algorithm_hash_first_degree_quads.go, sorted -/\ndef firstDegreeLabels : List String := %s\n\n", list(placeholders))
	fmt.Fprintf(&sb, "/-- algorithm_hash_related_blank_node.go: the guarded append and its guard; every string literal of the file -/\ndef relatedCond : String := %s\ndef relatedAppend : String := %s\ndef relatedLiterals : List String := %s\n\n", canonLeanStr(relatedCond), canonLeanStr(relatedAppend), list(relatedLits))
	fmt.Fprintf(&sb, "/-- algorithm_hash_n_degree_quads.go -/\ndef positions : List String := %s\ndef limitTests : List String := %s\ndef pruneConds : List String := %s\ndef chooseCond : String := %s\n\n", list(positions), list(limitTests), list(pruneConds), canonLeanStr(chooseCond))
	fmt.Fprintf(&sb, "/-- canonicalize.go: identifierIssuer.Clone and the identifier of a temporary issuer -/\ndef cloneKnown : String := %s\ndef cloneOrder : String := %s\ndef tempIdentifier : String := %s\n\n", canonLeanStr(cloneKnown), canonLeanStr(cloneOrder), canonLeanStr(tempID))
	fmt.Fprintf(&sb, "/-- canonicalize_config.go -/\ndef maxPermutations : Nat := %s\ndef maxRecursionDepth : Nat := %s\ndef c14nFormat : String := %s\n\n", nat(maxPerm), nat(maxDepth), canonLeanStr(c14nFmt))
	fmt.Fprintf(&sb, "/-- algorithm_canonicalization.go -/\ndef tempPrefix : String := %s\n\n/-- slices.SortFunc calls of the algorithm files -/\ndef sortCalls : List String := %s\n\n", canonLeanStr(tempPrefix), list(sortCalls))
	fmt.Fprintf(&sb, "/-- loop control of the algorithm files: every `if cond { continue|break|goto }`, and the number of branch statements elsewhere -/\ndef loopBranches : List String := %s\ndef otherBranches : Nat := %d\n\n", list(loopBranches), otherBranches)
	sb.WriteString("end RdfModel.Gen.CanonFacts\n")
	writeIfChanged(filepath.Join(leanRoot, "RdfModel", "Gen", "CanonFacts.lean"), sb.String())
}
