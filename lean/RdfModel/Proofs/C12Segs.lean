/-
  Helper lemmas for C12: path segments, `popSegment`, `firstSegment`, prefixes.
-/
import RdfModel.Proofs.C12Split
namespace RdfModel.Proofs.C12
open RdfModel.Spec.RFC3986

abbrev NoSlash (s : Str) : Prop := ∀ c ∈ s, c ≠ cSlash

theorem beginsWith_iff (pre inp : Str) : beginsWith pre inp = true ↔ ∃ t, inp = pre ++ t := by
  unfold beginsWith
  rw [List.isPrefixOf_iff_prefix]
  constructor
  · rintro ⟨t, h⟩; exact ⟨t, h.symm⟩
  · rintro ⟨t, h⟩; exact ⟨t, h.symm⟩

/-! ### segments -/

theorem segments_ne_nil (p : Str) : segments p ≠ [] := by
  cases p with
  | nil => simp [segments]
  | cons c r =>
    unfold segments
    split
    · simp
    · split <;> simp

theorem segments_cons_slash (r : Str) : segments (cSlash :: r) = [] :: segments r := by
  simp [segments]

theorem segments_cons_ne {c : Nat} (hc : c ≠ cSlash) (r : Str) :
    ∃ s ss, segments r = s :: ss ∧ segments (c :: r) = (c :: s) :: ss := by
  cases h : segments r with
  | nil => exact absurd h (segments_ne_nil r)
  | cons s ss => exact ⟨s, ss, rfl, by simp [segments, hc, h]⟩

theorem segments_noSlash {s : Str} (h : NoSlash s) : segments s = [s] := by
  induction s with
  | nil => rfl
  | cons c r ih =>
    have hc : c ≠ cSlash := h c (by simp)
    have hr : NoSlash r := fun x hx => h x (by simp [hx])
    obtain ⟨s, ss, h1, h2⟩ := segments_cons_ne hc r
    rw [h2]
    rw [ih hr] at h1
    injection h1 with h1 h3
    subst h1 h3; rfl

theorem segments_append_slash (a b : Str) : segments (a ++ cSlash :: b) = segments a ++ segments b := by
  induction a with
  | nil => simp [segments]
  | cons c r ih =>
    by_cases hc : c = cSlash
    · subst hc
      simp only [List.cons_append, segments_cons_slash, ih]
    · obtain ⟨s, ss, h1, h2⟩ := segments_cons_ne hc r
      obtain ⟨s', ss', h1', h2'⟩ := segments_cons_ne hc (r ++ cSlash :: b)
      simp only [List.cons_append]
      rw [h2', h2]
      rw [ih, h1] at h1'
      simp only [List.cons_append] at h1'
      injection h1' with e1 e2
      subst e1 e2; rfl

theorem segments_mem_noSlash : ∀ (p : Str) (s : Str), s ∈ segments p → NoSlash s := by
  intro p
  induction p with
  | nil => intro s hs; simp [segments] at hs; subst hs; intro c hc; simp at hc
  | cons c r ih =>
    intro s hs
    by_cases hc : c = cSlash
    · subst hc
      rw [segments_cons_slash] at hs
      rcases List.mem_cons.mp hs with h | h
      · subst h; intro c hc; simp at hc
      · exact ih s h
    · obtain ⟨s0, ss, h1, h2⟩ := segments_cons_ne hc r
      rw [h2] at hs
      rcases List.mem_cons.mp hs with h | h
      · subst h
        have : NoSlash s0 := ih s0 (by rw [h1]; simp)
        intro x hx
        rcases List.mem_cons.mp hx with hx | hx
        · subst hx; exact hc
        · exact this x hx
      · exact ih s (by rw [h1]; simp [h])

theorem noDot_nil : NoDotSegments [] := by
  intro s hs; simp [segments] at hs; subst hs; rfl

/-! ### takeWhile / dropWhile up to the next slash -/

def ns (c : Nat) : Bool := c != cSlash

theorem takeWhile_ns_noSlash (l : Str) : NoSlash (l.takeWhile (· != cSlash)) := by
  induction l with
  | nil => intro c hc; simp at hc
  | cons x r ih =>
    intro c hc
    by_cases hx : x = cSlash
    · simp [hx] at hc
    · have e : (x :: r).takeWhile (· != cSlash) = x :: r.takeWhile (· != cSlash) := by
        simp [hx]
      rw [e] at hc
      rcases List.mem_cons.mp hc with h | h
      · subst h; exact hx
      · exact ih c h

theorem dropWhile_ns_shape (l : Str) :
    l.dropWhile (· != cSlash) = [] ∨ ∃ t, l.dropWhile (· != cSlash) = cSlash :: t := by
  cases hd : l.dropWhile (· != cSlash) with
  | nil => left; rfl
  | cons c t =>
    right
    have := dropWhile_head_false hd
    simp at this
    exact ⟨t, by rw [this]⟩

theorem takeWhile_ns_append {s : Str} (hs : NoSlash s) (t : Str) :
    (s ++ cSlash :: t).takeWhile (· != cSlash) = s := by
  induction s with
  | nil => simp
  | cons c r ih =>
    have hc : c ≠ cSlash := hs c (by simp)
    have hr : NoSlash r := fun x hx => hs x (by simp [hx])
    simp [hc, ih hr]

theorem dropWhile_ns_append {s : Str} (hs : NoSlash s) (t : Str) :
    (s ++ cSlash :: t).dropWhile (· != cSlash) = cSlash :: t := by
  induction s with
  | nil => simp
  | cons c r ih =>
    have hc : c ≠ cSlash := hs c (by simp)
    have hr : NoSlash r := fun x hx => hs x (by simp [hx])
    simp [hc, ih hr]

theorem takeWhile_ns_self {s : Str} (hs : NoSlash s) : s.takeWhile (· != cSlash) = s := by
  induction s with
  | nil => rfl
  | cons c r ih =>
    have hc : c ≠ cSlash := hs c (by simp)
    have hr : NoSlash r := fun x hx => hs x (by simp [hx])
    simp [hc, ih hr]

theorem dropWhile_ns_self {s : Str} (hs : NoSlash s) : s.dropWhile (· != cSlash) = [] := by
  induction s with
  | nil => rfl
  | cons c r ih =>
    have hc : c ≠ cSlash := hs c (by simp)
    have hr : NoSlash r := fun x hx => hs x (by simp [hx])
    simp [hc, ih hr]

/-- every string is `s` or `s ++ "/" ++ t` with `s` free of slashes -/
theorem split_at_slash (l : Str) :
    ∃ s, NoSlash s ∧ s = l.takeWhile (· != cSlash) ∧ (l = s ∨ ∃ t, l = s ++ cSlash :: t) := by
  refine ⟨l.takeWhile (· != cSlash), takeWhile_ns_noSlash l, rfl, ?_⟩
  have h := List.takeWhile_append_dropWhile (p := (· != cSlash)) (l := l)
  rcases dropWhile_ns_shape l with hd | ⟨t, hd⟩
  · left; rw [hd] at h; simpa using h.symm
  · right; rw [hd] at h; exact ⟨t, h.symm⟩

/-! ### popSegment -/

theorem popSegment_noSlash {s : Str} (hs : NoSlash s) : popSegment s = [] := by
  unfold popSegment
  have : NoSlash s.reverse := fun c hc => hs c (by simpa using hc)
  rw [dropWhile_ns_self this]; rfl

theorem popSegment_append {s : Str} (hs : NoSlash s) (a : Str) : popSegment (a ++ cSlash :: s) = a := by
  unfold popSegment
  have : NoSlash s.reverse := fun c hc => hs c (by simpa using hc)
  have e : (a ++ cSlash :: s).reverse = s.reverse ++ cSlash :: a.reverse := by simp
  rw [e, dropWhile_ns_append this]
  simp

/-- every string is slash-free or `a ++ "/" ++ s` with `s` slash-free (split at the last slash) -/
theorem split_at_last_slash (l : Str) : NoSlash l ∨ ∃ a s, NoSlash s ∧ l = a ++ cSlash :: s := by
  obtain ⟨s, hs, _, h⟩ := split_at_slash l.reverse
  rcases h with h | ⟨t, h⟩
  · left
    intro c hc
    exact (h ▸ hs) c (by simpa using hc)
  · right
    refine ⟨t.reverse, s.reverse, fun c hc => hs c (by simpa using hc), ?_⟩
    have := congrArg List.reverse h
    simpa using this

theorem noDot_popSegment {out : Str} (h : NoDotSegments out) : NoDotSegments (popSegment out) := by
  rcases split_at_last_slash out with hs | ⟨a, s, hs, rfl⟩
  · rw [popSegment_noSlash hs]; exact noDot_nil
  · rw [popSegment_append hs]
    intro x hx
    apply h
    rw [segments_append_slash]
    exact List.mem_append_left _ hx

/-! ### firstSegment / afterFirstSegment -/

theorem firstSegment_append_after (inp : Str) : firstSegment inp ++ afterFirstSegment inp = inp := by
  cases inp with
  | nil => rfl
  | cons c r =>
    unfold firstSegment afterFirstSegment
    by_cases hc : c = cSlash
    · simp only [hc, if_true, List.cons_append]
      rw [List.takeWhile_append_dropWhile]
    · simp only [hc, if_false]
      rw [List.takeWhile_append_dropWhile]

theorem firstSegment_ne_nil {inp : Str} (h : inp ≠ []) : firstSegment inp ≠ [] := by
  cases inp with
  | nil => exact absurd rfl h
  | cons c r =>
    unfold firstSegment
    by_cases hc : c = cSlash
    · simp [hc]
    · simp [hc]

theorem afterFirstSegment_length {inp : Str} (h : inp ≠ []) : (afterFirstSegment inp).length < inp.length := by
  have e := congrArg List.length (firstSegment_append_after inp)
  have : (firstSegment inp).length > 0 := List.length_pos_iff.mpr (firstSegment_ne_nil h)
  simp only [List.length_append] at e
  omega

theorem afterFirstSegment_shape (inp : Str) :
    afterFirstSegment inp = [] ∨ ∃ t, afterFirstSegment inp = cSlash :: t := by
  cases inp with
  | nil => left; rfl
  | cons c r =>
    unfold afterFirstSegment
    by_cases hc : c = cSlash
    · simp only [hc, if_true]; exact dropWhile_ns_shape r
    · simp only [hc, if_false]; exact dropWhile_ns_shape (c :: r)

end RdfModel.Proofs.C12
