/-
  RdfModel.Spec.XsdDecimal — value side of xsd:decimal and the shape of the numeral forms, written
  from XSD 1.1 Part 2 (§3.3.3 decimal, Appendix E.1 ·decimalLexicalMap·, ·decimalCanonicalMap·)
  independently of the Go code. Core-only, executable.

  * `decimalLex s`      — ·decimalLexicalMap·: `some (neg, n, k)` iff `s` matches
                           `(\+|-)?([0-9]+(\.[0-9]*)?|\.[0-9]+)`; the value denoted is `± n / 10^k`
                           (`n` = the digits read as one integer, `k` = number of fraction digits).
  * `DecEq`              — two such pairs denote the same number.
  * `isCanonDecimal s`   — `s` has the shape ·decimalCanonicalMap· produces: optional `-`, an integer
                           part without superfluous leading zeros, and either nothing more (integers are
                           written without a point in XSD 1.1) or a point followed by a non-empty
                           fraction without trailing zero; zero is unsigned.
-/
import RdfModel.Spec.XsdLexical
namespace RdfModel.Spec.Xsd

/-- ·decimalLexicalMap·: sign, unscaled value, scale -/
def decimalLex (s : Bytes) : Option (Bool × Nat × Nat) :=
  let (neg, r) := signSplit s
  let (i, r1) := spanDigits r
  match r1 with
  | [] => if i.isEmpty then none else some (neg, natValue i, 0)
  | c :: r2 =>
    if c = 0x2E then
      let (f, r3) := spanDigits r2
      if r3.isEmpty && !(i.isEmpty && f.isEmpty) then some (neg, natValue (i ++ f), f.length) else none
    else none

/-- `n₁/10^k₁ = n₂/10^k₂` -/
def DecEq (a b : Nat × Nat) : Prop := a.1 * 10 ^ b.2 = b.1 * 10 ^ a.2

instance (a b : Nat × Nat) : Decidable (DecEq a b) := by unfold DecEq; exact inferInstance

/-- shape of the canonical representation of a decimal (XSD 1.1 ·decimalCanonicalMap·) -/
def isCanonDecimal (s : Bytes) : Bool :=
  let neg := s.head? == some 0x2D
  let r := if neg then s.drop 1 else s
  let (i, r1) := spanDigits r
  let intOK := digits1 i && (i.head? != some 0x30 || i.length == 1)
  match r1 with
  | [] => intOK && !(neg && i == [0x30])
  | c :: f => c == 0x2E && intOK && digits1 f && f.getLast? != some 0x30

end RdfModel.Spec.Xsd
