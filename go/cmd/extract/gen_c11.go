package main

// T2 generator for property C11  ->  lean/RdfModel/Gen/HtmlFacts.lean
//
// go/ast facts (checkout named by VERIF_REPO, default /repo):
//   * encoding/html/htmldefaults/decoder.go  (*Decoder).init: the three `<pkg>.NewDecoder(...)` calls, whether
//     any expression inside their arguments mentions a blank-node factory setter (a selector whose name
//     contains "BlankNode"), the vocabulary resolver handed to Microdata, and the order of the iterator
//     slice the function returns;
//   * where each sub-decoder gets its factory from when none is configured:
//       htmlrdfa/decoder_config.go  newDecoder: `if w.bnStringFactory == nil { w.bnStringFactory = blanknodes.NewStringFactory() }`
//       jsonld/decoder_config.go    newDecoder: `if b.bnStringFactory == nil { d.bnStringFactory = blanknodes.NewStringFactory() }`
//       htmlmicrodata/decoder.go    Next:       `BlankNodeFactory: rdf.NewBlankNodeFactory()`
//       htmljsonld/decoder.go       walkNode:   one `jsonld.NewDecoder(...)` per script element, no factory setter in the function
//   * htmlrdfa/decoder_html_util.go: the two term-mapping tables (string map literals);
//     htmlrdfa/decoder.go: the host default vocabulary literal.
// Evaluated (public API): rdfacontext.NewWidelyUsedInitialContext().GetPrefixMappings() (the prefix mappings
// htmlrdfa's newDecoder installs when no default prefixes are configured — checked syntactically too).
// A shape the walker does not recognise is reported in `unknowns`; `C11.factories_not_shared` then fails.

import (
	"fmt"
	"go/ast"
	"go/parser"
	"go/token"
	"os"
	"path/filepath"
	"sort"
	"strconv"
	"strings"

	"github.com/dpb587/rdfkit-go/iri/rdfacontext"
)

func init() { generators["c11"] = genC11 }

func c11Parse(repo, rel string) (*ast.File, *token.FileSet, error) {
	fset := token.NewFileSet()
	f, err := parser.ParseFile(fset, filepath.Join(repo, rel), nil, 0)
	return f, fset, err
}

func c11Func(f *ast.File, recv, name string) *ast.FuncDecl {
	for _, d := range f.Decls {
		fd, ok := d.(*ast.FuncDecl)
		if !ok || fd.Name.Name != name {
			continue
		}
		if recv == "" {
			if fd.Recv == nil {
				return fd
			}
			continue
		}
		if fd.Recv == nil || len(fd.Recv.List) != 1 {
			continue
		}
		t := fd.Recv.List[0].Type
		if s, ok := t.(*ast.StarExpr); ok {
			t = s.X
		}
		if id, ok := t.(*ast.Ident); ok && id.Name == recv {
			return fd
		}
	}
	return nil
}

// mentionsBlankNode reports whether any selector or identifier below n has "BlankNode" or "bnStringFactory" in its name.
func c11MentionsFactory(n ast.Node) bool {
	found := false
	ast.Inspect(n, func(x ast.Node) bool {
		switch v := x.(type) {
		case *ast.SelectorExpr:
			if strings.Contains(v.Sel.Name, "BlankNode") || strings.Contains(v.Sel.Name, "bnStringFactory") {
				found = true
			}
		case *ast.Ident:
			if strings.Contains(v.Name, "BlankNode") || strings.Contains(v.Name, "bnStringFactory") {
				found = true
			}
		}
		return true
	})
	return found
}

func c11SelName(e ast.Expr) string {
	if s, ok := e.(*ast.SelectorExpr); ok {
		if id, ok := s.X.(*ast.Ident); ok {
			return id.Name + "." + s.Sel.Name
		}
	}
	return ""
}

// c11NilDefault recognises  `if <x>.bnStringFactory == nil { <y>.bnStringFactory = blanknodes.NewStringFactory() }`  in fd.
func c11NilDefault(fd *ast.FuncDecl) bool {
	ok := false
	ast.Inspect(fd, func(x ast.Node) bool {
		is, isIf := x.(*ast.IfStmt)
		if !isIf || is.Init != nil || is.Else != nil || len(is.Body.List) != 1 {
			return true
		}
		be, isBin := is.Cond.(*ast.BinaryExpr)
		if !isBin || be.Op != token.EQL {
			return true
		}
		l, lok := be.X.(*ast.SelectorExpr)
		r, rok := be.Y.(*ast.Ident)
		if !lok || !rok || l.Sel.Name != "bnStringFactory" || r.Name != "nil" {
			return true
		}
		as, isAs := is.Body.List[0].(*ast.AssignStmt)
		if !isAs || len(as.Lhs) != 1 || len(as.Rhs) != 1 {
			return true
		}
		lhs, lhok := as.Lhs[0].(*ast.SelectorExpr)
		call, cok := as.Rhs[0].(*ast.CallExpr)
		if lhok && cok && lhs.Sel.Name == "bnStringFactory" && c11SelName(call.Fun) == "blanknodes.NewStringFactory" && len(call.Args) == 0 {
			ok = true
		}
		return true
	})
	return ok
}

func c11StringMap(f *ast.File, name string) ([][2]string, bool) {
	for _, d := range f.Decls {
		gd, ok := d.(*ast.GenDecl)
		if !ok || gd.Tok != token.VAR {
			continue
		}
		for _, sp := range gd.Specs {
			vs := sp.(*ast.ValueSpec)
			for i, n := range vs.Names {
				if n.Name != name || i >= len(vs.Values) {
					continue
				}
				cl, ok := vs.Values[i].(*ast.CompositeLit)
				if !ok {
					return nil, false
				}
				var out [][2]string
				for _, e := range cl.Elts {
					kv, ok := e.(*ast.KeyValueExpr)
					if !ok {
						return nil, false
					}
					k, kok := kv.Key.(*ast.BasicLit)
					v, vok := kv.Value.(*ast.BasicLit)
					if !kok || !vok || k.Kind != token.STRING || v.Kind != token.STRING {
						return nil, false
					}
					ks, _ := strconv.Unquote(k.Value)
					vsx, _ := strconv.Unquote(v.Value)
					out = append(out, [2]string{ks, vsx})
				}
				sort.Slice(out, func(a, b int) bool { return out[a][0] < out[b][0] })
				return out, true
			}
		}
	}
	return nil, false
}

func c11LeanStr(s string) string {
	var sb strings.Builder
	sb.WriteString("[")
	for i, r := range []rune(s) {
		if i > 0 {
			sb.WriteString(", ")
		}
		fmt.Fprintf(&sb, "%d", r)
	}
	sb.WriteString("]")
	return sb.String()
}

func c11Pairs(name, doc string, ps [][2]string) string {
	var sb strings.Builder
	fmt.Fprintf(&sb, "/-- %s -/\ndef %s : List (List Nat × List Nat) := [\n", doc, name)
	for i, p := range ps {
		sep := ","
		if i == len(ps)-1 {
			sep = ""
		}
		fmt.Fprintf(&sb, "  -- %q ↦ %q\n  (%s, %s)%s\n", p[0], p[1], c11LeanStr(p[0]), c11LeanStr(p[1]), sep)
	}
	sb.WriteString("]\n\n")
	return sb.String()
}

func genC11(leanRoot string) {
	repo := os.Getenv("VERIF_REPO")
	if repo == "" {
		repo = "/repo"
	}
	var unknowns []string
	unk := func(format string, a ...any) { unknowns = append(unknowns, fmt.Sprintf(format, a...)) }

	// ---- htmldefaults init
	type sub struct {
		name, pkg     string
		found         bool
		passesFactory bool
		defaultFresh  bool
		perScript     bool
	}
	subs := []*sub{{name: "jsonld", pkg: "htmljsonld"}, {name: "microdata", pkg: "htmlmicrodata"}, {name: "rdfa", pkg: "htmlrdfa"}}
	varOf := map[string]string{} // local variable -> sub name
	var order []string
	mdResolver := "unknown"
	if f, _, err := c11Parse(repo, "encoding/html/htmldefaults/decoder.go"); err != nil {
		unk("htmldefaults: %v", err)
	} else if fd := c11Func(f, "Decoder", "init"); fd == nil {
		unk("htmldefaults: (*Decoder).init not found")
	} else {
		for _, st := range fd.Body.List {
			as, ok := st.(*ast.AssignStmt)
			if !ok || len(as.Rhs) != 1 || len(as.Lhs) < 1 {
				continue
			}
			call, ok := as.Rhs[0].(*ast.CallExpr)
			if !ok {
				continue
			}
			for _, s := range subs {
				if c11SelName(call.Fun) == s.pkg+".NewDecoder" {
					if s.found {
						unk("htmldefaults: %s.NewDecoder called twice", s.pkg)
					}
					s.found = true
					if id, ok := as.Lhs[0].(*ast.Ident); ok {
						varOf[id.Name] = s.name
					}
					for _, arg := range call.Args[1:] {
						if c11MentionsFactory(arg) {
							s.passesFactory = true
						}
					}
					if s.name == "microdata" {
						ast.Inspect(call, func(x ast.Node) bool {
							if c, ok := x.(*ast.CallExpr); ok {
								if se, ok := c.Fun.(*ast.SelectorExpr); ok && se.Sel.Name == "SetVocabularyResolver" && len(c.Args) == 1 {
									mdResolver = c11SelName(c.Args[0])
								}
							}
							return true
						})
					}
				}
			}
		}
		// return []nestedIterator{ a, encodingutil.NewTripleAsQuadDecoder(b, nil), ... }, nil
		last, ok := fd.Body.List[len(fd.Body.List)-1].(*ast.ReturnStmt)
		if !ok || len(last.Results) != 2 {
			unk("htmldefaults: final return not recognised")
		} else if cl, ok := last.Results[0].(*ast.CompositeLit); !ok {
			unk("htmldefaults: returned iterator list is not a composite literal")
		} else {
			for _, e := range cl.Elts {
				switch v := e.(type) {
				case *ast.Ident:
					order = append(order, varOf[v.Name])
				case *ast.CallExpr:
					if c11SelName(v.Fun) == "encodingutil.NewTripleAsQuadDecoder" && len(v.Args) == 2 {
						if id, ok := v.Args[0].(*ast.Ident); ok {
							if g, ok := v.Args[1].(*ast.Ident); ok && g.Name == "nil" {
								order = append(order, varOf[id.Name])
								continue
							}
						}
					}
					order = append(order, "")
				default:
					order = append(order, "")
				}
			}
		}
		// any other mention of a factory anywhere in the file (a package-level shared factory, say)
		if c11MentionsFactory(f) {
			unk("htmldefaults: the file mentions a blank-node factory")
		}
	}
	for _, s := range subs {
		if !s.found {
			unk("htmldefaults: no %s.NewDecoder call", s.pkg)
		}
	}
	for _, o := range order {
		if o == "" {
			unk("htmldefaults: iterator list element not recognised")
		}
	}

	// ---- defaults of the sub-decoders
	if f, _, err := c11Parse(repo, "encoding/htmlrdfa/decoder_config.go"); err != nil {
		unk("htmlrdfa: %v", err)
	} else if fd := c11Func(f, "DecoderConfig", "newDecoder"); fd == nil {
		unk("htmlrdfa: newDecoder not found")
	} else {
		subs[2].defaultFresh = c11NilDefault(fd)
	}
	if f, _, err := c11Parse(repo, "encoding/jsonld/decoder_config.go"); err != nil {
		unk("jsonld: %v", err)
	} else if fd := c11Func(f, "DecoderConfig", "newDecoder"); fd == nil {
		unk("jsonld: newDecoder not found")
	} else {
		subs[0].defaultFresh = c11NilDefault(fd)
	}
	if f, _, err := c11Parse(repo, "encoding/htmljsonld/decoder.go"); err != nil {
		unk("htmljsonld: %v", err)
	} else if fd := c11Func(f, "Decoder", "walkNode"); fd == nil {
		unk("htmljsonld: walkNode not found")
	} else {
		n := 0
		ast.Inspect(fd, func(x ast.Node) bool {
			if c, ok := x.(*ast.CallExpr); ok && c11SelName(c.Fun) == "jsonld.NewDecoder" {
				n++
			}
			return true
		})
		subs[0].perScript = n == 1 && !c11MentionsFactory(f)
		if !subs[0].perScript {
			unk("htmljsonld: expected exactly one jsonld.NewDecoder call in walkNode and no factory mention (calls: %d)", n)
		}
	}
	if f, _, err := c11Parse(repo, "encoding/htmlmicrodata/decoder.go"); err != nil {
		unk("htmlmicrodata: %v", err)
	} else if fd := c11Func(f, "Decoder", "Next"); fd == nil {
		unk("htmlmicrodata: Next not found")
	} else {
		n := 0
		ast.Inspect(fd, func(x ast.Node) bool {
			if kv, ok := x.(*ast.KeyValueExpr); ok {
				if k, ok := kv.Key.(*ast.Ident); ok && k.Name == "BlankNodeFactory" {
					if c, ok := kv.Value.(*ast.CallExpr); ok && c11SelName(c.Fun) == "rdf.NewBlankNodeFactory" && len(c.Args) == 0 {
						n++
					} else {
						n += 100
					}
				}
			}
			return true
		})
		subs[1].defaultFresh = n == 1
		// the config type must not offer a factory setter at all
		if cf, _, err := c11Parse(repo, "encoding/htmlmicrodata/decoder_config.go"); err != nil || c11MentionsFactory(cf) {
			subs[1].defaultFresh = false
			unk("htmlmicrodata: decoder_config.go mentions a blank-node factory")
		}
	}

	// ---- RDFa initial context
	var terms11, termsXhtml [][2]string
	hostVocab := ""
	if f, _, err := c11Parse(repo, "encoding/htmlrdfa/decoder_html_util.go"); err != nil {
		unk("htmlrdfa: %v", err)
	} else {
		var ok1, ok2 bool
		terms11, ok1 = c11StringMap(f, "w3_2011_rdfacontext_rdfa11_TermMappings")
		termsXhtml, ok2 = c11StringMap(f, "w3_2011_rdfacontext_xhtmlrdfa11_TermMappings")
		if !ok1 || !ok2 {
			unk("htmlrdfa: term mapping tables not recognised")
		}
	}
	widely := false
	if f, _, err := c11Parse(repo, "encoding/htmlrdfa/decoder_config.go"); err == nil {
		ast.Inspect(f, func(x ast.Node) bool {
			if as, ok := x.(*ast.AssignStmt); ok && len(as.Lhs) == 1 && len(as.Rhs) == 1 {
				if l, ok := as.Lhs[0].(*ast.SelectorExpr); ok && l.Sel.Name == "defaultPrefixes" {
					if c, ok := as.Rhs[0].(*ast.CallExpr); ok && c11SelName(c.Fun) == "rdfacontext.NewWidelyUsedInitialContext" {
						widely = true
					}
				}
			}
			return true
		})
	}
	if !widely {
		unk("htmlrdfa: newDecoder does not default to rdfacontext.NewWidelyUsedInitialContext()")
	}
	if f, _, err := c11Parse(repo, "encoding/htmlrdfa/decoder.go"); err == nil {
		ast.Inspect(f, func(x ast.Node) bool {
			if kv, ok := x.(*ast.KeyValueExpr); ok {
				if k, ok := kv.Key.(*ast.Ident); ok && k.Name == "HostDefaultVocabulary" {
					if c, ok := kv.Value.(*ast.CallExpr); ok && c11SelName(c.Fun) == "ptr.Value" && len(c.Args) == 1 {
						if b, ok := c.Args[0].(*ast.BasicLit); ok && b.Kind == token.STRING {
							hostVocab, _ = strconv.Unquote(b.Value)
						}
					}
				}
			}
			return true
		})
	}
	if hostVocab == "" {
		unk("htmlrdfa: HostDefaultVocabulary literal not found")
	}
	var prefixes [][2]string
	for _, m := range rdfacontext.NewWidelyUsedInitialContext().GetPrefixMappings() {
		prefixes = append(prefixes, [2]string{m.Prefix, m.Expanded})
	}
	sort.Slice(prefixes, func(a, b int) bool { return prefixes[a][0] < prefixes[b][0] })

	// ---- emit
	b01 := func(b bool) string {
		if b {
			return "true"
		}
		return "false"
	}
	var sb strings.Builder
	sb.WriteString("-- GENERATED by /verif/go/cmd/extract (gen_c11.go) from /repo (T2: go/ast facts + the public initial-context API). Do not edit.\n")
	sb.WriteString("namespace RdfModel.Gen.HtmlFacts\n\n")
	sb.WriteString("/-- the three sub-decoders of encoding/html/htmldefaults -/\ninductive Sub where\n  | jsonld | microdata | rdfa | unknown\n  deriving DecidableEq, Repr\n\n")
	sb.WriteString("structure SubFact where\n  sub : Sub\n  /-- htmldefaults' init hands the sub-decoder's constructor an expression that mentions a blank-node factory -/\n  passesFactory : Bool\n  /-- with no factory configured, the sub-decoder makes a new one of its own (NewStringFactory / NewBlankNodeFactory) -/\n  defaultFresh : Bool\n  deriving DecidableEq, Repr\n\n")
	sb.WriteString("def subFacts : List SubFact := [\n")
	for i, s := range subs {
		sep := ","
		if i == len(subs)-1 {
			sep = ""
		}
		fmt.Fprintf(&sb, "  { sub := .%s, passesFactory := %s, defaultFresh := %s }%s\n", s.name, b01(s.passesFactory), b01(s.defaultFresh), sep)
	}
	sb.WriteString("]\n\n")
	fmt.Fprintf(&sb, "/-- htmljsonld makes one jsonld.Decoder (hence one factory) per script element -/\ndef jsonldDecoderPerScript : Bool := %s\n\n", b01(subs[0].perScript))
	sb.WriteString("/-- order of the iterator slice returned by (*Decoder).init -/\ndef chainOrder : List Sub := [")
	for i, o := range order {
		if i > 0 {
			sb.WriteString(", ")
		}
		if o == "" {
			o = "unknown"
		}
		sb.WriteString("." + o)
	}
	sb.WriteString("]\n\n")
	fmt.Fprintf(&sb, "/-- vocabulary resolver htmldefaults configures for Microdata -/\ndef microdataResolverIsItemtype : Bool := %s\n\n", b01(mdResolver == "htmlmicrodata.ItemtypeVocabularyResolver"))
	fmt.Fprintf(&sb, "/-- shapes the walker did not recognise (must be empty) -/\ndef unknowns : List String := [")
	for i, u := range unknowns {
		if i > 0 {
			sb.WriteString(", ")
		}
		sb.WriteString(strconv.Quote(u))
	}
	sb.WriteString("]\n\n")
	sb.WriteString(c11Pairs("initialPrefixes", "rdfacontext.NewWidelyUsedInitialContext(): prefix ↦ namespace", prefixes))
	sb.WriteString(c11Pairs("terms11", "htmlrdfa w3_2011_rdfacontext_rdfa11_TermMappings", terms11))
	sb.WriteString(c11Pairs("termsXhtml", "htmlrdfa w3_2011_rdfacontext_xhtmlrdfa11_TermMappings (XHTML1 profile only)", termsXhtml))
	fmt.Fprintf(&sb, "/-- htmlrdfa HostDefaultVocabulary: %q -/\ndef hostDefaultVocabulary : List Nat := %s\n\n", hostVocab, c11LeanStr(hostVocab))
	sb.WriteString("end RdfModel.Gen.HtmlFacts\n")
	writeIfChanged(filepath.Join(leanRoot, "RdfModel", "Gen", "HtmlFacts.lean"), sb.String())
}
