// Mode `-mode dec` of command c09 (part C09D): T3 correspondence for Model/RdfXmlDecoder.lean, the
// executable Lean model of encoding/rdfxml/decoder.go over an abstract XML token stream.
//
// For each document: tokenize the bytes with encoding/xml exactly as the decoder does (xml.NewDecoder(r).Token()
// until an error), send the token stream and its terminator to the driver op `rxd.dec`, and compare the model's
// ordered triple list (blank nodes by first occurrence) / error class / panic with what the real decoder
// (text-offset capture off) does on the same bytes. Any difference is a disagreement (T3 broken).
//
// The two parameters of the model are handled as follows:
//   - xmlRender (encoding/xml's Encoder): for every element carrying an rdf:parseType attribute the harness runs
//     the same Encoder loop on the element's content tokens and sends the result as an `R` item;
//   - reference resolution: the driver uses RFC 3986; a document is only sent when iri.ParsedIRI agrees with
//     RFC 3986 on every (base in scope, attribute value / "#"+value / "") pair of the document (counted under
//     skip:*; the difference is property C12's subject).
//
// Documents: the W3C RDF/XML suite shipped in the repository and every truncation of each at a token boundary;
// the grammar-directed plans of plan.go and the trees written by the Lean writer (rx.write), serialised by
// tree.go; tree-level mutations of those (attribute soup, misplaced rdf: attributes, parseType variants,
// reserved element names, rdf:li / rdf:_n, duplicate rdf:ID, xml:base / xml:lang nesting, reification ids,
// stray text, duplicated / moved / deleted children, second root elements), byte-level mutations and
// truncations (unterminated elements), with and without a default base, a reader failing after the last byte.
//
// Independently of the model the Go result is checked against C05 (no panic) and C06 (statement shape).
package main

import (
	"bytes"
	"encoding/xml"
	"errors"
	"fmt"
	"io"
	"os"
	"runtime"
	"sort"
	"strings"
	"sync"

	"verifharness/vh"

	"github.com/dpb587/rdfkit-go/encoding/rdfxml"
	"github.com/dpb587/rdfkit-go/iri"
	"github.com/dpb587/rdfkit-go/rdf"
)

// ---------------------------------------------------------------- the real decoder

type decOut struct {
	line  string // "ok <canon>" | "err:<class>" | "panic"
	msg   string // error text / panic value
	n     int    // statements
	wf    string // "" or the first C06 shape defect
	latch string // "" or a C05 latch defect
}

func decErrClass(err error) string {
	var se *xml.SyntaxError
	if errors.As(err, &se) {
		return "xml-syntax"
	}
	if errors.Is(err, vh.ErrInjected) {
		return "io"
	}
	if errors.Is(err, rdfxml.ErrDirectivesNotSupported) {
		return "directive"
	}
	var e1 rdfxml.ElementNotAllowedError
	if errors.As(err, &e1) {
		return "element-not-allowed"
	}
	var e2 rdfxml.AttributeNotAllowedError
	if errors.As(err, &e2) {
		return "attribute-not-allowed"
	}
	var e3 rdfxml.InvalidNameError
	if errors.As(err, &e3) {
		return "invalid-name"
	}
	var e4 rdfxml.DuplicateScopedNameError
	if errors.As(err, &e4) {
		return "duplicate-name"
	}
	if errors.Is(err, io.EOF) || errors.Is(err, io.ErrUnexpectedEOF) {
		return "eof-inside"
	}
	m := err.Error()
	if strings.Contains(m, "xml: unsupported version") || strings.Contains(m, "xml: encoding ") {
		return "xml-syntax" // tokenizer errors that are not *xml.SyntaxError
	}
	// xmlRender wraps the tokenizer error with %v: only the text is left
	for _, k := range [][2]string{
		{"read token: XML syntax error", "xml-syntax"}, {"read token: " + vh.ErrInjected.Error(), "io"}, {"read token: EOF", "eof-inside"},
		{"multiple name attributes", "multiple-names"}, {"unexpected attr", "unexpected-attr"}, {"parse base", "parse-base"},
		{"rdf:resource cannot be used", "resource-on-literal"}, {"already found property value", "already-found"},
		{"datatype requires a language tag", "datatype-needs-lang"}, {"render xml: write token", "render"}, {"render xml: flush", "render"}} {
		if strings.Contains(m, k[0]) {
			return k[1]
		}
	}
	return "other(" + m + ")"
}

func shapeDefect(t rdf.Triple) string {
	switch s := t.Subject.(type) {
	case nil:
		return "nil subject"
	case rdf.IRI:
	case rdf.BlankNode:
		if s.Identifier == nil {
			return "subject blank node without identity"
		}
	default:
		return fmt.Sprintf("subject %T", s)
	}
	if _, ok := t.Predicate.(rdf.IRI); !ok {
		return fmt.Sprintf("predicate %T", t.Predicate)
	}
	switch o := t.Object.(type) {
	case nil:
		return "nil object"
	case rdf.IRI:
	case rdf.BlankNode:
		if o.Identifier == nil {
			return "object blank node without identity"
		}
	case rdf.Literal:
		lang := ""
		tagged := false
		switch tag := o.Tag.(type) {
		case nil:
		case rdf.LanguageLiteralTag:
			tagged, lang = true, tag.Language
		default:
			return fmt.Sprintf("literal tag %T", tag)
		}
		isLS := string(o.Datatype) == rdfNS+"langString"
		if tagged != isLS {
			return "language tag present iff rdf:langString violated"
		}
		if tagged && lang == "" {
			return "empty language tag"
		}
		if string(o.Datatype) == rdfNS+"dirLangString" {
			return "rdf:dirLangString without direction"
		}
	default:
		return fmt.Sprintf("object %T", o)
	}
	return ""
}

// decodeReal runs rdfxml.Decoder (capture off). base == nil: no default base. failing: the reader reports
// vh.ErrInjected instead of io.EOF after the last byte.
func decodeReal(doc []byte, base *string, failing bool) (res decOut) {
	defer func() {
		if p := recover(); p != nil {
			res = decOut{line: "panic", msg: fmt.Sprint(p)}
		}
	}()
	cfg := rdfxml.DecoderConfig{}
	if base != nil {
		cfg = cfg.SetDefaultBase(*base)
	}
	var rd io.Reader = bytes.NewReader(doc)
	if failing {
		rd = &vh.EndReader{B: append([]byte(nil), doc...), Fail: true}
	}
	d, err := rdfxml.NewDecoder(rd, cfg)
	if err != nil {
		return decOut{line: "err:new", msg: err.Error()}
	}
	var ts []rdf.Triple
	for d.Next() {
		t := d.Triple()
		ts = append(ts, t)
		if res.wf == "" {
			res.wf = shapeDefect(t)
		}
	}
	res.n = len(ts)
	// C05: the end is sticky — Next keeps returning false, Err does not change, Close succeeds
	e0 := d.Err()
	for k := 0; k < 3; k++ {
		if d.Next() {
			res.latch = "Next returned true after it had returned false"
		}
		if d.Err() != e0 {
			res.latch = "Err changed after the end of the iteration"
		}
	}
	if err := d.Close(); err != nil {
		res.latch = "Close failed: " + err.Error()
	}
	if e := d.Err(); e != nil {
		res.line, res.msg = "err:"+decErrClass(e), e.Error()
		if len(ts) > 0 {
			res.msg = fmt.Sprintf("%d statements AND error: %s", len(ts), e.Error())
			res.line = "err+stmts:" + decErrClass(e)
		}
		return
	}
	c := canon(ts)
	if c == "" {
		c = "-"
	}
	res.line = "ok " + c
	return
}

// ---------------------------------------------------------------- tokens

type tokStream struct {
	toks []xml.Token
	ends []int64 // input offset after each token
	fin  string
}

func tokenize(doc []byte, failing bool) tokStream {
	var rd io.Reader = bytes.NewReader(doc)
	if failing {
		rd = &vh.EndReader{B: append([]byte(nil), doc...), Fail: true}
	}
	dec := xml.NewDecoder(rd)
	var ts tokStream
	for {
		t, err := dec.Token()
		if err != nil {
			var se *xml.SyntaxError
			switch {
			case err == io.EOF:
				ts.fin = "eof"
			case errors.As(err, &se):
				ts.fin = "syntax"
			case errors.Is(err, vh.ErrInjected):
				ts.fin = "io"
			default:
				ts.fin = "syntax" // "xml: unsupported version", "xml: encoding … declared but Decoder.CharsetReader is nil"
			}
			return ts
		}
		ts.toks = append(ts.toks, xml.CopyToken(t))
		ts.ends = append(ts.ends, dec.InputOffset())
	}
}

func hasParseType(t xml.StartElement) bool {
	for _, a := range t.Attr {
		if a.Name.Space == rdfNS && a.Name.Local == "parseType" {
			return true
		}
	}
	return false
}

// renderItems replicates xmlRender (decoder_literal_util.go) on the content of element i.
func renderItems(toks []xml.Token, i int, sb *strings.Builder) {
	var buf bytes.Buffer
	enc := xml.NewEncoder(&buf)
	depth := 0
	for k := i + 1; k < len(toks); k++ {
		switch toks[k].(type) {
		case xml.StartElement:
			depth++
		case xml.EndElement:
			if depth == 0 {
				if err := enc.Flush(); err != nil {
					fmt.Fprintf(sb, " R n%d n%d !", i+1, k-(i+1))
				} else {
					fmt.Fprintf(sb, " R n%d n%d %s", i+1, k-(i+1), vh.X(buf.Bytes()))
				}
				return
			}
			depth--
		}
		if err := enc.EncodeToken(toks[k]); err != nil {
			fmt.Fprintf(sb, " R n%d n%d !", i+1, k-(i+1)+1)
			return
		}
	}
}

func (ts tokStream) wire(base *string) string {
	var sb strings.Builder
	sb.WriteString("rxd.dec ")
	if base == nil {
		sb.WriteString("-")
	} else {
		sb.WriteString(vh.XS(*base))
	}
	sb.WriteString(" " + ts.fin)
	for _, t := range ts.toks {
		switch v := t.(type) {
		case xml.StartElement:
			sb.WriteString(" S " + vh.XS(v.Name.Space) + " " + vh.XS(v.Name.Local))
			for _, a := range v.Attr {
				sb.WriteString(" A " + vh.XS(a.Name.Space) + " " + vh.XS(a.Name.Local) + " " + vh.XS(a.Value))
			}
		case xml.EndElement:
			sb.WriteString(" E " + vh.XS(v.Name.Space) + " " + vh.XS(v.Name.Local))
		case xml.CharData:
			sb.WriteString(" C " + vh.X(v))
		case xml.Comment:
			sb.WriteString(" M " + vh.X(v))
		case xml.ProcInst:
			sb.WriteString(" P " + vh.XS(v.Target) + " " + vh.X(v.Inst))
		case xml.Directive:
			sb.WriteString(" D " + vh.X(v))
		}
	}
	for i, t := range ts.toks {
		if se, ok := t.(xml.StartElement); ok && hasParseType(se) {
			renderItems(ts.toks, i, &sb)
		}
	}
	return sb.String()
}

// resolverAgrees: on every (base in scope, value) pair of the stream iri.ParsedIRI computes what RFC 3986 does.
func resolverAgrees(ts tokStream, base *string) (bool, string) {
	type fr struct {
		base *string
	}
	agree := func(b *string, v string) bool {
		if b == nil {
			return true // ResolveIRI returns v unchanged
		}
		bi, err := iri.ParseIRI(*b)
		if err != nil {
			return false
		}
		var got string
		if v == "" {
			r, _ := bi.Parse("")
			r.DropFragment()
			got = r.String()
		} else {
			r, err := bi.Parse(v)
			if err != nil {
				return false // the model's resolve is total
			}
			got = r.String()
		}
		return got == rfcResolve(*b, v)
	}
	if base != nil {
		bi, err := iri.ParseIRI(*base)
		if err != nil || bi.String() != *base {
			return false, "default-base"
		}
	}
	stack := []*string{base}
	for _, t := range ts.toks {
		switch v := t.(type) {
		case xml.StartElement:
			parent := stack[len(stack)-1]
			cur := parent
			for _, a := range v.Attr {
				if a.Name.Space == xmlNS && a.Name.Local == "base" {
					if !agree(cur, a.Value) {
						return false, "xml:base"
					}
					var nb string
					if cur == nil {
						nb = a.Value
					} else {
						nb = rfcResolve(*cur, a.Value)
					}
					// ectx.Base = ParseIRI(resolved); later results print through String()
					bi, err := iri.ParseIRI(nb)
					if err != nil || bi.String() != nb {
						return false, "xml:base-reparse"
					}
					cur = &nb
				}
			}
			for _, b := range []*string{parent, cur} {
				for _, a := range v.Attr {
					// the attribute values decoder.go passes to ResolveIRI
					if a.Name.Space != rdfNS {
						continue
					}
					switch a.Name.Local {
					case "about", "resource", "datatype", "type":
						if !agree(b, a.Value) {
							return false, "rdf:" + a.Name.Local
						}
					case "ID":
						if !agree(b, "#"+a.Value) {
							return false, "rdf:ID"
						}
					}
				}
				if !agree(b, "") {
					return false, "empty-ref"
				}
				if b == cur {
					break
				}
			}
			stack = append(stack, cur)
		case xml.EndElement:
			if len(stack) > 1 {
				stack = stack[:len(stack)-1]
			}
		}
	}
	return true, ""
}

// ---------------------------------------------------------------- tree mutations

func cloneTree(n *Node) *Node {
	c := *n
	c.Attrs = append([]Attr(nil), n.Attrs...)
	c.Kids = make([]*Node, len(n.Kids))
	for i, k := range n.Kids {
		c.Kids[i] = cloneTree(k)
	}
	return &c
}

func elements(n *Node, out *[]*Node) {
	if n.Kind != 'e' {
		return
	}
	*out = append(*out, n)
	for _, k := range n.Kids {
		elements(k, out)
	}
}

var (
	rdfAttrNames = []string{"ID", "about", "nodeID", "resource", "datatype", "parseType", "type", "li", "Description", "RDF", "bagID",
		"aboutEach", "aboutEachPrefix", "_1", "_7", "value", "foo", "Seq", "subject"}
	rdfElemNames = []string{"li", "li", "Description", "RDF", "ID", "about", "parseType", "resource", "nodeID", "datatype", "bagID",
		"aboutEach", "aboutEachPrefix", "_1", "_12", "Seq", "Bag", "type", "value", "Statement", "foo"}
	attrVals = []string{"a", "b", "a", "x1", "1x", "a:b", "", "Literal", "Resource", "Collection", "literal", "Other", "http://e/x", "http://e/x#f",
		"#f", "rel/p", "../up", "?q", "//h/p", "en", "de-CH", "http://www.w3.org/1999/02/22-rdf-syntax-ns#langString",
		"http://www.w3.org/1999/02/22-rdf-syntax-ns#dirLangString", "http://www.w3.org/2001/XMLSchema#int", "é", "-x", "_", "a.b-c", "x y"}
	otherNS = []string{"http://e/", "http://e/ns#", "http://www.w3.org/2000/01/rdf-schema#", "urn:x:", ""}
)

// mutateTree applies one random edit; it returns the kind of edit.
func mutateTree(r *vh.Rng, root *Node) string {
	var els []*Node
	elements(root, &els)
	if len(els) == 0 {
		return "none"
	}
	e := vh.Pick(r, els)
	switch r.Intn(16) {
	case 0, 1, 2:
		e.Attrs = append(e.Attrs, Attr{rdfNS, vh.Pick(r, rdfAttrNames), vh.Pick(r, attrVals)})
		return "add-rdf-attr"
	case 3:
		e.Attrs = append(e.Attrs, Attr{xmlNS, vh.Pick(r, []string{"lang", "base", "space", "id"}), vh.Pick(r, attrVals)})
		return "add-xml-attr"
	case 4:
		ns := vh.Pick(r, otherNS)
		e.Attrs = append(e.Attrs, Attr{ns, vh.Pick(r, []string{"p", "q", "about", "ID", "type", "lang", "xmlfoo"}), vh.Pick(r, attrVals)})
		return "add-other-attr"
	case 5:
		e.NS, e.Name = rdfNS, vh.Pick(r, rdfElemNames)
		return "rename-rdf"
	case 6:
		if len(e.Attrs) > 0 {
			i := r.Intn(len(e.Attrs))
			if r.Bool() {
				e.Attrs = append(e.Attrs[:i:i], e.Attrs[i+1:]...)
				return "del-attr"
			}
			e.Attrs[i].Val = vh.Pick(r, attrVals)
			return "change-attr-value"
		}
		return "none"
	case 7:
		if len(e.Attrs) > 0 {
			a := vh.Pick(r, e.Attrs)
			if r.Bool() {
				a.Val = vh.Pick(r, attrVals)
			}
			e.Attrs = append(e.Attrs, a) // a duplicate attribute: encoding/xml does not reject it
			return "dup-attr"
		}
		return "none"
	case 8:
		if len(e.Kids) > 0 {
			k := vh.Pick(r, e.Kids)
			e.Kids = append(e.Kids, cloneTree(k))
			return "dup-child"
		}
		return "none"
	case 9:
		if len(e.Kids) > 0 {
			i := r.Intn(len(e.Kids))
			e.Kids = append(e.Kids[:i:i], e.Kids[i+1:]...)
			return "del-child"
		}
		return "none"
	case 10:
		t := &Node{Kind: 't', Text: vh.Pick(r, []string{"x", " ", "text & more", "\n\t", "é"})}
		i := r.Intn(len(e.Kids) + 1)
		e.Kids = append(e.Kids[:i:i], append([]*Node{t}, e.Kids[i:]...)...)
		return "insert-text"
	case 11:
		// move a subtree from elsewhere under e
		o := vh.Pick(r, els)
		if o != e && o != root {
			var sub []*Node
			elements(o, &sub)
			for _, s := range sub {
				if s == e {
					return "none"
				}
			}
			e.Kids = append(e.Kids, cloneTree(o))
			return "graft"
		}
		return "none"
	case 12:
		// wrap the children in a new element
		w := &Node{Kind: 'e', NS: vh.Pick(r, []string{rdfNS, "http://e/"}), Name: vh.Pick(r, []string{"Description", "li", "p", "Bag", "w"}), Kids: e.Kids}
		e.Kids = []*Node{w}
		return "wrap-children"
	case 13:
		// an rdf:ID that is already used somewhere (or plants one to be duplicated later)
		var ids []string
		for _, x := range els {
			if v, ok := x.attr(rdfNS, "ID"); ok {
				ids = append(ids, v)
			}
		}
		v := "dupid"
		if len(ids) > 0 {
			v = vh.Pick(r, ids)
		}
		e.Attrs = append(e.Attrs, Attr{rdfNS, "ID", v})
		return "reuse-id"
	case 14:
		e.Attrs = append(e.Attrs, Attr{rdfNS, "parseType", vh.Pick(r, []string{"Literal", "Resource", "Collection", "Other", ""})})
		return "add-parseType"
	default:
		e.Kids = append(e.Kids, &Node{Kind: 'e', NS: vh.Pick(r, []string{rdfNS, "http://e/"}), Name: vh.Pick(r, rdfElemNames),
			Attrs: []Attr{{rdfNS, vh.Pick(r, rdfAttrNames), vh.Pick(r, attrVals)}}})
		return "add-child"
	}
}

// ---------------------------------------------------------------- running

type decCase struct {
	origin  string
	doc     []byte
	base    *string
	failing bool
	line    string
	real    decOut
	skip    string
}

type decHarness struct {
	rep *vh.Report
	mu  sync.Mutex
}

func (h *decHarness) count(k string) {
	h.mu.Lock()
	h.rep.Hist[k]++
	h.mu.Unlock()
}

func (c *decCase) replayLine() string {
	b := "-"
	if c.base != nil {
		b = vh.XS(*c.base)
	}
	f := "eof"
	if c.failing {
		f = "io"
	}
	return "decdoc " + b + " " + f + " " + vh.X(c.doc)
}

// prepare tokenizes, filters and runs the real decoder (parallel part).
func (h *decHarness) prepare(c *decCase) {
	ts := tokenize(c.doc, c.failing)
	if ok, why := resolverAgrees(ts, c.base); !ok {
		c.skip = "skip:resolver-deviation(" + why + ")"
		return
	}
	c.line = ts.wire(c.base)
	c.real = decodeReal(c.doc, c.base, c.failing)
	h.mu.Lock()
	h.rep.Hist["tokens:fin="+ts.fin]++
	for _, t := range ts.toks {
		switch v := t.(type) {
		case xml.StartElement:
			h.rep.Hist["tok:start"]++
			h.rep.Hist["tok:attr"] += len(v.Attr)
		case xml.EndElement:
			h.rep.Hist["tok:end"]++
		case xml.CharData:
			h.rep.Hist["tok:chardata"]++
		case xml.Comment:
			h.rep.Hist["tok:comment"]++
		case xml.ProcInst:
			h.rep.Hist["tok:procinst"]++
		case xml.Directive:
			h.rep.Hist["tok:directive"]++
		}
	}
	if strings.Contains(c.line, " R n") {
		h.rep.Hist["docs-with-render-entries"]++
	}
	h.mu.Unlock()
}

func originClass(o string) string {
	if i := strings.Index(o, ":"); i > 0 && strings.HasPrefix(o, "w3c") {
		return o[:i]
	}
	return o
}

func (h *decHarness) runBatch(cases []*decCase, d vh.Driver) {
	var wg sync.WaitGroup
	nw := runtime.NumCPU()
	for w := 0; w < nw; w++ {
		wg.Add(1)
		go func(w int) {
			defer wg.Done()
			for i := w; i < len(cases); i += nw {
				h.prepare(cases[i])
			}
		}(w)
	}
	wg.Wait()
	var lines []string
	var idx []int
	for i, c := range cases {
		if c.skip != "" {
			h.rep.Hist[c.skip]++
			continue
		}
		lines = append(lines, c.line)
		idx = append(idx, i)
	}
	var res []string
	if !*nomodel && len(lines) > 0 {
		var err error
		res, err = runChunks(d, lines)
		if err != nil {
			fmt.Fprintln(os.Stderr, err)
			os.Exit(2)
		}
	}
	for k, i := range idx {
		c := cases[i]
		h.rep.Hist["docs"]++
		h.rep.Hist["origin:"+originClass(c.origin)]++
		outcome := c.real.line
		if strings.HasPrefix(outcome, "ok ") {
			outcome = "ok"
			if c.real.n == 0 {
				outcome = "ok(no statements)"
			}
		}
		h.rep.Hist["go:"+outcome]++
		nontrivial := c.real.n > 0 || (strings.HasPrefix(c.real.line, "err:") && c.real.line != "err:xml-syntax")
		h.rep.Eval(c.line, nontrivial)
		// property oracles on the implementation
		if c.real.line == "panic" {
			h.rep.Add(vh.Case{Kind: "violation", Op: c.replayLine(), Go: "panic: " + c.real.msg, Detail: "C05: rdfxml.Decoder panicked (" + c.origin + ") on " + short(c.doc)})
		}
		if c.real.latch != "" {
			h.rep.Add(vh.Case{Kind: "violation", Op: c.replayLine(), Go: c.real.latch, Detail: "C05: terminal state of rdfxml.Decoder not sticky (" + c.origin + ") on " + short(c.doc)})
		}
		if c.real.wf != "" {
			h.rep.Add(vh.Case{Kind: "violation", Op: c.replayLine(), Go: c.real.wf, Detail: "C06: ill-formed statement from rdfxml.Decoder (" + c.origin + ") on " + short(c.doc)})
		}
		if strings.HasPrefix(c.real.line, "err+stmts:") {
			h.rep.Add(vh.Case{Kind: "disagreement", Op: c.replayLine(), Go: c.real.msg, Detail: "the decoder yielded statements and an error; the model (and decoder.go's Next) yield none on error"})
		}
		if res == nil {
			continue
		}
		h.rep.Compared++
		if res[k] != c.real.line {
			h.rep.Add(vh.Case{Kind: "disagreement", Op: c.replayLine(), Model: clip(res[k]), Go: clip(c.real.line) + " " + clip(c.real.msg),
				Detail: "rxd.dec (Model/RdfXmlDecoder.lean) differs from rdfxml.Decoder, capture off (" + c.origin + ") on " + short(c.doc)})
		}
	}
}

// runChunks spreads the lines over up to 8 driver processes (vh.Driver.RunParallel only does so from 20000
// lines on; the lines here are long and the batches smaller).
func runChunks(d vh.Driver, lines []string) ([]string, error) {
	n := minInt(runtime.NumCPU(), 8)
	if len(lines) < 64 || n < 2 {
		return d.Run(lines)
	}
	chunk := (len(lines) + n - 1) / n
	out := make([]string, len(lines))
	var wg sync.WaitGroup
	var mu sync.Mutex
	var firstErr error
	for i := 0; i < len(lines); i += chunk {
		j := minInt(i+chunk, len(lines))
		wg.Add(1)
		go func(i, j int) {
			defer wg.Done()
			res, err := d.Run(lines[i:j])
			mu.Lock()
			defer mu.Unlock()
			if err != nil {
				if firstErr == nil {
					firstErr = err
				}
				return
			}
			copy(out[i:j], res)
		}(i, j)
	}
	wg.Wait()
	return out, firstErr
}

func clip(s string) string {
	if len(s) > 1500 {
		return s[:1500] + "…"
	}
	return s
}

var decBases = []string{"http://b.example/d/doc", "http://b.example/d/e/f.rdf", "http://other.example/", "http://b.example/d/doc?q=1", "http://b.example/d/doc#frag",
	// the CONFIGURED default base goes to the model as it is (rxd.dec <base>): boundary shapes — authority with empty path, with
	// (empty) query, empty fragment — so that any rewriting of the default base in DecoderConfig.newDecoder shows as a disagreement
	"http://c.example", "http://c.example", "http://c.example?v=0", "http://c.example?", "http://c.example#", "http://b.example/d/doc?", "http://b.example/d/doc#"}

// variants of one tree: serialisation, mutations, truncations
func (h *decHarness) fromTree(r *vh.Rng, origin string, tree *Node, base string, out *[]*decCase, mutants, truncs int) {
	b := base
	add := func(o string, doc []byte) {
		c := &decCase{origin: o, doc: doc, base: &b}
		if r.Chance(6) {
			c.base = nil
			c.origin += "/nobase"
		} else if r.Chance(8) {
			nb := vh.Pick(r, decBases)
			c.base = &nb
		}
		if r.Chance(3) {
			c.failing = true
		}
		*out = append(*out, c)
	}
	doc := Serialise(r, tree, false, nil)
	add(origin, doc)
	for k := 0; k < mutants; k++ {
		m := cloneTree(tree)
		kinds := []string{}
		for e := 1 + r.Intn(3); e > 0; e-- {
			kinds = append(kinds, mutateTree(r, m))
		}
		for _, kd := range kinds {
			h.count("mut:" + kd)
		}
		if r.Chance(5) {
			// a second root element
			d1 := Serialise(r, m, false, nil)
			d2 := Serialise(r, tree, true, nil)
			add(origin+"+mut+2roots", append(append(d1, '\n'), d2...))
			continue
		}
		add(origin+"+mut", Serialise(r, m, false, nil))
	}
	if truncs > 0 {
		ts := tokenize(doc, false)
		for k := 0; k < truncs && len(ts.ends) > 0; k++ {
			cut := int(ts.ends[r.Intn(len(ts.ends))])
			if r.Chance(30) && cut > 0 {
				cut -= r.Intn(minInt(cut, 6)) // inside a token
			}
			add(origin+"+trunc", doc[:cut])
		}
	}
	if r.Chance(25) {
		add(origin+"+bytes", r.Mutate(doc, []byte("<>/&;\"'= :#?![]-")))
	}
	if r.Chance(6) {
		// a directive / an XML declaration / a comment at a token boundary (directives are refused by decodeRoot and
		// ignored elsewhere; an XML declaration inside parseType="Literal" content makes xml.Encoder fail)
		ts := tokenize(doc, false)
		if len(ts.ends) > 0 {
			cut := int(ts.ends[r.Intn(len(ts.ends))])
			if r.Chance(40) {
				cut = 0
			}
			ins := vh.Pick(r, []string{"<!DOCTYPE rdf:RDF [<!ENTITY e 'v'>]>", "<!ELEMENT x ANY>", "<?xml version=\"1.0\"?>", "<?xml version='1.0' encoding='UTF-8'?>", "<!-- c -->", "<![CDATA[cd]]>"})
			nd := append(append(append([]byte(nil), doc[:cut]...), ins...), doc[cut:]...)
			add(origin+"+inject", nd)
		}
	}
}

func minInt(a, b int) int {
	if a < b {
		return a
	}
	return b
}

func mainDec() {
	seed := vh.SeedFromEnv()
	rep := vh.NewReport("C09D", *tier, seed, "token streams of encoding/xml for: the W3C RDF/XML test documents shipped in the repository and every truncation of each at a token boundary; grammar-directed RDF/XML plans (plan.go) and trees written by the Lean writer rx.write, serialised with random lexical choices (tree.go); 1-3 tree-level edits of those (added / duplicated / changed rdf:, xml: and other attributes incl. rdf:ID reuse and parseType variants, reserved element names, rdf:li / rdf:_n, stray text, duplicated / deleted / grafted / wrapped children, a second root element); truncations at and inside token boundaries; byte-level mutations; with a default base, another default base, or none; a reader failing after the last byte. Each document: model (driver op rxd.dec on the tokens + graph of xml.Encoder for parseType content) vs rdfxml.Decoder with capture off: ordered triples with blank nodes by first occurrence, error class, panic. non-trivial = the decoder yields at least one statement or reports an error of its own (not a tokenizer syntax error)")
	h := &decHarness{rep: rep}
	d := vh.Driver{Path: *driver}
	root := vh.NewRng(seed)
	if fs, err := vh.LoadFindings(*findings); err == nil {
		for c := range vh.KnownKeys(fs, "C12") {
			c12KnownClasses[c] = true // the planner stays outside the known classes of C12 (c12classes.go); what is left is filtered by resolverAgrees
		}
	}

	if *replay != "" || *hints != "" {
		var cases []*decCase
		for _, p := range []string{*hints, *replay} {
			if p == "" {
				continue
			}
			for _, c := range decReplayCases(p) {
				cases = append(cases, c)
			}
		}
		h.runBatch(cases, d)
		if *replay != "" {
			finishDec(rep)
			return
		}
	}

	// ---- W3C corpus: every document and every truncation at a token boundary
	var cases []*decCase
	for _, doc := range decCorpus {
		b := decBases[0]
		cases = append(cases, &decCase{origin: "corpus", doc: []byte(doc), base: &b}, &decCase{origin: "corpus/nobase", doc: []byte(doc)})
	}
	for _, f := range loadW3C() {
		b := w3cPrefix + f.name
		cases = append(cases, &decCase{origin: "w3c:" + f.name, doc: f.doc, base: &b})
		cases = append(cases, &decCase{origin: "w3c-nobase:" + f.name, doc: f.doc})
		ts := tokenize(f.doc, false)
		for _, e := range ts.ends {
			if int(e) < len(f.doc) {
				cases = append(cases, &decCase{origin: "w3c-trunc:" + f.name, doc: f.doc[:e], base: &b})
			}
		}
		r := root.Fork()
		if tree, err := parseXMLTree(f.doc); err == nil {
			h.fromTree(r, "w3c-tree", tree, b, &cases, 3**scale, 0)
		}
	}
	h.runBatch(cases, d)
	rep.Exhaustive = append(rep.Exhaustive, "every W3C RDF/XML test document shipped in the repository, with and without a default base, and every truncation of each document at every token boundary of encoding/xml")

	plans := 3000 * *scale
	if *tier == "thorough" {
		plans = 80000 * *scale
	}
	const batch = 5000
	feat := map[string]int{}
	for done := 0; done < plans; done += batch {
		m := minInt(batch, plans-done)
		cases = cases[:0]
		for i := 0; i < m; i++ {
			r := root.Fork()
			p, base, _, _ := genPlan(r, feat)
			h.fromTree(r, "plan", p.Render(), base, &cases, 2, 1)
		}
		h.runBatch(cases, d)
	}
	// trees written by the Lean writer
	if !*nomodel {
		graphs := plans / 3
		for done := 0; done < graphs; done += batch {
			m := minInt(batch, graphs-done)
			lines := make([]string, m)
			bases := make([]string, m)
			rngs := make([]*vh.Rng, m)
			for i := 0; i < m; i++ {
				rngs[i] = root.Fork()
				lines[i], bases[i], _, _ = genGraph(rngs[i])
			}
			res, err := d.RunParallel(lines)
			if err != nil {
				fmt.Fprintln(os.Stderr, err)
				os.Exit(2)
			}
			cases = cases[:0]
			for i := 0; i < m; i++ {
				f := strings.Split(res[i], " | ")
				if len(f) != 3 {
					continue
				}
				sx, err := parseSexp(strings.Fields(f[1]))
				if err != nil {
					continue
				}
				tree, err := treeOfSexp(sx)
				if err != nil {
					continue
				}
				h.fromTree(rngs[i], "graph", tree, bases[i], &cases, 1, 1)
			}
			h.runBatch(cases, d)
		}
	}
	for k, v := range feat {
		rep.Hist["gen:"+k] += v
	}
	finishDec(rep)
}

func finishDec(rep *vh.Report) {
	if rep.Cases == nil {
		rep.Cases = []vh.Case{}
	}
	sort.SliceStable(rep.Cases, func(i, j int) bool { return rep.Cases[i].Kind > rep.Cases[j].Kind })
	if err := rep.Write(*out); err != nil {
		fmt.Fprintln(os.Stderr, err)
		os.Exit(2)
	}
	fmt.Printf("c09 -mode dec: %d documents evaluated, %d compared with the model, %d skipped (resolver), %d failures\n",
		rep.Evaluations, rep.Compared, skipped(rep), rep.Failures())
	if rep.Failures() > 0 {
		os.Exit(1)
	}
}

func skipped(rep *vh.Report) int {
	n := 0
	for k, v := range rep.Hist {
		if strings.HasPrefix(k, "skip:") {
			n += v
		}
	}
	return n
}
