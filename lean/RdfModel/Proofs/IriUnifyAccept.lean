/-
  RdfModel.Proofs.IriUnifyAccept — the acceptance model of `net/url.Parse` (Model/GoUrl.lean) agrees with the
  acceptance read off the full model (Model/GoUrlFull.lean) on every input the full model covers
  (everything but `PErr.unmodelled`: '%' inside an IP literal).
-/
import RdfModel.Model.IriUnify
namespace RdfModel.Proofs.IriUnify
open RdfModel RdfModel.GoUrlFull

/-- the result is a success -/
def okE {α : Type} : Except PErr α → Bool
  | .ok _ => true
  | .error _ => false

/-- the result is the `unmodelled` refusal -/
def unm {α : Type} : Except PErr α → Bool
  | .error .unmodelled => true
  | _ => false

theorem unm_error {α : Type} (e : PErr) : unm (.error e : Except PErr α) = true ↔ e = .unmodelled := by
  cases e <;> simp [unm]

theorem unm_error_ty {α β : Type} (e : PErr) :
    unm (.error e : Except PErr α) = unm (.error e : Except PErr β) := by
  cases e <;> rfl

@[simp] theorem unm_ok {α : Type} (x : α) : unm (.ok x : Except PErr α) = false := rfl
@[simp] theorem unm_unmodelled {α : Type} : unm (.error .unmodelled : Except PErr α) = true := rfl
@[simp] theorem okE_ok {α : Type} (x : α) : okE (.ok x : Except PErr α) = true := rfl
@[simp] theorem okE_error {α : Type} (e : PErr) : okE (.error e : Except PErr α) = false := rfl

/-! ### 1. helpers that are literally the same function -/

theorem cut_eq (sep : Nat) (s : List Nat) : GoUrl.cut sep s = GoUrlFull.cut sep s := by
  induction s with
  | nil => rfl
  | cons c rest ih =>
    unfold GoUrl.cut GoUrlFull.cut
    rw [ih]

theorem hasCTL_eq (s : List Nat) : GoUrl.hasCTL s = GoUrlFull.hasCTL s := by
  unfold GoUrl.hasCTL GoUrlFull.hasCTL
  congr 1

theorem isDigitC_eq (c : Nat) : GoUrl.isDigitC c = GoUrlFull.isDigitC c := rfl

theorem isHexC_eq (c : Nat) : GoUrl.isHexC c = GoUrlFull.ishex c := rfl

theorem isAlphaC_eq (c : Nat) : GoUrl.isAlphaC c = (isLowerC c || isUpperC c) := rfl

theorem validOptionalPort_eq (s : List Nat) : GoUrl.validOptionalPort s = GoUrlFull.validOptionalPort s := by
  cases s with
  | nil => rfl
  | cons c rest =>
    simp [GoUrl.validOptionalPort, GoUrlFull.validOptionalPort]
    rfl

theorem validUserinfo_eq (s : List Nat) : GoUrl.validUserinfo s = GoUrlFull.validUserinfo s := by
  unfold GoUrl.validUserinfo GoUrlFull.validUserinfo
  congr 1

theorem getSchemeAux_eq (whole s : List Nat) (i : Nat) :
    GoUrl.getSchemeAux whole s i = GoUrlFull.getSchemeAux whole s i := by
  induction s generalizing i with
  | nil => rfl
  | cons c rest ih =>
    unfold GoUrl.getSchemeAux GoUrlFull.getSchemeAux
    simp only [isAlphaC_eq, isDigitC_eq, ih, beq_iff_eq, decide_eq_true_eq, Bool.or_eq_true]

theorem getScheme_eq (s : List Nat) : GoUrl.getScheme s = GoUrlFull.getScheme s :=
  getSchemeAux_eq s s 0

/-! ### 3. `unescape` -/

theorem unm_unescape (mode : Mode) (s : List Nat) : unm (unescape mode s) = false := by
  fun_induction unescape mode s <;> simp_all [unm]

theorem okE_unescape_pct (mode : Mode) (hm : mode ≠ .host) (s : List Nat) :
    okE (unescape mode s) = GoUrl.pctOk s := by
  fun_induction GoUrl.pctOk s with
  | case1 => simp [unescape, okE]
  | case2 a b rest ih =>
    unfold unescape
    simp [hm, isHexC_eq]
    rw [← ih]
    by_cases h : ishex a = true ∧ ishex b = true
    · rw [if_pos h]; cases unescape mode rest <;> simp [okE, h.1, h.2]
    · rw [if_neg h]
      have : (ishex a && ishex b) = false := by simpa using h
      simp [okE, this]
  | case3 tl hx =>
    unfold unescape
    match tl with
    | [] => simp [okE]
    | [_] => simp [okE]
    | a :: b :: r => exact absurd rfl (hx a b r)
  | case4 c rest _ hc ih =>
    unfold unescape
    have hc' : ¬ c = 37 := hc
    rw [← ih]
    cases unescape mode rest <;> simp [okE, hm, hc']

theorem hostCharOk_low : ∀ c, c < 128 → GoUrl.hostCharOk c = !(shouldEscape c .host) := by
  decide

theorem hostCharOk_eq (c : Nat) :
    GoUrl.hostCharOk c = !(decide (c < 0x80) && shouldEscape c .host) := by
  by_cases h : c < 128
  · rw [hostCharOk_low c h]; simp [h]
  · have : c ≥ 128 := by omega
    simp [GoUrl.hostCharOk, h, this]

theorem unhexC_eq (c : Nat) (h : ishex c = true) : GoUrl.unhexC c = unhex c := by
  unfold GoUrl.unhexC unhex
  unfold ishex at h
  rw [isDigitC_eq]
  split
  · rfl
  · split
    · rfl
    · simp_all

theorem okE_unescape_host (s : List Nat) : okE (unescape .host s) = GoUrl.hostEscOk s := by
  fun_induction GoUrl.hostEscOk s with
  | case1 => simp [unescape, okE]
  | case2 a b rest ih =>
    unfold unescape
    simp [isHexC_eq]
    rw [← ih]
    by_cases h : ishex a = true ∧ ishex b = true
    · rw [if_pos h, unhexC_eq a h.1]
      by_cases h2 : unhex a < 8 ∧ (¬a = 50 ∨ ¬b = 53)
      · rw [if_pos h2]
        have : (decide (8 ≤ unhex a) || decide (a = 50) && decide (b = 53)) = false := by
          rcases h2 with ⟨h3, h4⟩
          have : ¬ 8 ≤ unhex a := by omega
          rcases h4 with h4 | h4 <;> simp [this, h4]
        simp [okE, this]
      · rw [if_neg h2]
        have : (decide (8 ≤ unhex a) || decide (a = 50) && decide (b = 53)) = true := by
          by_cases h3 : 8 ≤ unhex a
          · simp [h3]
          · have h5 : unhex a < 8 := by omega
            have : ¬ (¬a = 50 ∨ ¬b = 53) := fun h6 => h2 ⟨h5, h6⟩
            have h7 : a = 50 ∧ b = 53 := by omega
            simp [h7.1, h7.2]
        cases unescape Mode.host rest <;> simp [okE, this, h.1, h.2]
    · rw [if_neg h]
      have : (ishex a && ishex b) = false := by simpa using h
      simp [okE, this]
  | case3 tl hx =>
    unfold unescape
    match tl with
    | [] => simp [okE]
    | [_] => simp [okE]
    | a :: b :: r => exact absurd rfl (hx a b r)
  | case4 c rest _ hc ih =>
    unfold unescape
    have hc' : ¬ c = 37 := hc
    rw [← ih, hostCharOk_eq]
    by_cases h : c < 128 ∧ shouldEscape c .host = true
    · cases unescape .host rest <;> simp [okE, hc', h.1, h.2]
    · have : (!decide (c < 128) || !shouldEscape c Mode.host) = true := by
        by_cases h1 : c < 128
        · have : ¬ shouldEscape c .host = true := fun h2 => h ⟨h1, h2⟩
          simp [this]
        · simp [h1]
      cases unescape .host rest <;> simp [okE, hc', h, this]

theorem unescape_nopct (mode : Mode) (s r : List Nat) (hs : s.contains 0x25 = false)
    (h : unescape mode s = .ok r) : r = s := by
  induction s generalizing r with
  | nil => simp [unescape] at h; exact h
  | cons c rest ih =>
    simp only [List.contains_cons, Bool.or_eq_false_iff, beq_eq_false_iff_ne] at hs
    have hc : ¬ c = 37 := fun e => hs.1 e.symm
    unfold unescape at h
    rw [if_neg hc] at h
    split at h
    · cases h
    · cases h2 : unescape mode rest with
      | error e => rw [h2] at h; cases h
      | ok r' =>
        rw [h2] at h
        have := ih r' hs.2 h2
        simp at h
        rw [← h, this]

/-! ### 4. `lastIndexOf` -/

theorem lastIndexOf_go (c : Nat) (xs : List Nat) (i : Nat) (acc : Option Nat) :
    GoUrl.lastIndexOf.go c xs i acc =
      match GoUrlFull.lastIndexOf c xs with
      | some j => some (i + j)
      | none => acc := by
  induction xs generalizing i acc with
  | nil => simp [GoUrl.lastIndexOf.go, GoUrlFull.lastIndexOf]
  | cons x xs ih =>
    unfold GoUrl.lastIndexOf.go GoUrlFull.lastIndexOf
    rw [ih]
    cases GoUrlFull.lastIndexOf c xs with
    | some j => simp; omega
    | none => by_cases h : x = c <;> simp [h]

theorem lastIndexOf_eq (c : Nat) (s : List Nat) : GoUrl.lastIndexOf c s = GoUrlFull.lastIndexOf c s := by
  unfold GoUrl.lastIndexOf
  rw [lastIndexOf_go]
  cases GoUrlFull.lastIndexOf c s <;> simp

theorem indexPct25_nopct (s : List Nat) (hs : s.contains 0x25 = false) : GoUrl.indexPct25 s = none := by
  induction s with
  | nil => rfl
  | cons c rest ih =>
    simp only [List.contains_cons, Bool.or_eq_false_iff, beq_eq_false_iff_ne] at hs
    have hc : ¬ c = 37 := fun e => hs.1 e.symm
    unfold GoUrl.indexPct25
    simp [ih hs.2]
    intro e; exact absurd e hs.1

/-! ### 5. `parseHost` -/

theorem parseHost_rel (host : List Nat) :
    unm (parseHost host) = true ∨ okE (parseHost host) = GoUrl.parseHostOk host := by
  unfold parseHost GoUrl.parseHostOk
  simp only [lastIndexOf_eq, validOptionalPort_eq]
  cases GoUrlFull.lastIndexOf 0x5b host with
  | none =>
    right
    simp only
    cases GoUrlFull.lastIndexOf 0x3a host with
    | none => simp [okE_unescape_host]
    | some i =>
      simp only
      by_cases hv : GoUrlFull.validOptionalPort (host.drop i) = true
      · simp [hv, okE_unescape_host]
      · simp [hv, okE]
  | some ob =>
    simp only
    cases GoUrlFull.lastIndexOf 0x5d host with
    | none => right; simp [okE]
    | some cb =>
      simp only
      generalize List.drop (cb + 1) host = colonPort
      generalize List.drop (ob + 1) (List.take cb host) = hostname
      cases hvp : GoUrlFull.validOptionalPort colonPort with
      | false => right; simp [okE]
      | true =>
        have h1 := okE_unescape_host colonPort
        cases hcp : unescape Mode.host colonPort with
        | error e =>
          right
          rw [hcp] at h1
          simp [okE] at h1 ⊢
          simp [h1]
        | ok ucp =>
          rw [hcp] at h1
          simp only [okE] at h1
          rw [← h1]
          by_cases hlt : cb < ob + 1
          · right
            have : ¬ cb > ob := by omega
            simp [okE, hlt, this]
          · have hgt : cb > ob := by omega
            cases hpc : hostname.contains 37 with
            | true => left; simp [unm, hlt]
            | false =>
              right
              have h2 := okE_unescape_host hostname
              simp only [GoUrl.ipLiteralOk, indexPct25_nopct hostname hpc, hpc]
              cases hh : unescape Mode.host hostname with
              | error e =>
                rw [hh] at h2
                simp [okE] at h2 ⊢
                simp [h2, hlt]
              | ok uh =>
                rw [hh] at h2
                have := unescape_nopct _ _ _ hpc hh
                subst this
                simp only [okE] at h2
                simp [← h2, hlt, hgt, okE]
                cases parseAddrIs6 uh uh <;> simp

/-! ### 6. `parseAuthority` -/

theorem pctOk_cons_ne (c : Nat) (hc : ¬ c = 37) (rest : List Nat) :
    GoUrl.pctOk (c :: rest) = GoUrl.pctOk rest := by
  rw [GoUrl.pctOk.eq_4]
  · intro a b r h; exact absurd h hc
  · exact hc

theorem isHex_colon : ishex 0x3a = false := by decide

theorem pctOk_cut (s : List Nat) :
    GoUrl.pctOk s =
      (GoUrl.pctOk (GoUrlFull.cut 0x3a s).1 && GoUrl.pctOk ((GoUrlFull.cut 0x3a s).2.getD [])) := by
  fun_induction GoUrl.pctOk s with
  | case1 => simp [GoUrlFull.cut, GoUrl.pctOk]
  | case2 a b rest ih =>
    by_cases ha : a = 0x3a
    · subst ha; simp [GoUrlFull.cut, GoUrl.pctOk, isHexC_eq, isHex_colon]
    · by_cases hb : b = 0x3a
      · subst hb; simp [GoUrlFull.cut, GoUrl.pctOk, isHexC_eq, isHex_colon, ha]
      · simp [GoUrlFull.cut, ha, hb, GoUrl.pctOk]
        rw [ih]
        simp [Bool.and_assoc]
  | case3 tl hx =>
    match tl with
    | [] => simp [GoUrlFull.cut, GoUrl.pctOk]
    | [a] => by_cases ha : a = 0x3a <;> simp [GoUrlFull.cut, GoUrl.pctOk, ha]
    | a :: b :: r => exact absurd rfl (hx a b r)
  | case4 c rest _ hc ih =>
    have hc' : ¬ c = 37 := hc
    by_cases h : c = 0x3a
    · subst h; simp [GoUrlFull.cut, GoUrl.pctOk]
    · simp [GoUrlFull.cut, h, pctOk_cons_ne c hc']
      exact ih

theorem parseAuthority_rel (a : List Nat) :
    unm (parseAuthority a) = true ∨ okE (parseAuthority a) = GoUrl.parseAuthorityOk a := by
  unfold parseAuthority GoUrl.parseAuthorityOk
  simp only [lastIndexOf_eq, validUserinfo_eq]
  cases GoUrlFull.lastIndexOf 0x40 a with
  | none =>
    simp only
    rcases parseHost_rel a with h | h
    · left
      cases hp : parseHost a with
      | ok x => rw [hp] at h; simp at h
      | error e => rw [hp] at h; have := (unm_error e).1 h; subst this; simp
    · right; rw [← h]; cases hp : parseHost a <;> simp [okE]
  | some i =>
    simp only
    generalize List.drop (i + 1) a = hs
    generalize List.take i a = ui
    rcases parseHost_rel hs with h | h
    · left
      cases hp : parseHost hs with
      | ok x => rw [hp] at h; simp at h
      | error e => rw [hp] at h; have := (unm_error e).1 h; subst this; simp
    · rw [← h]
      right
      cases hp : parseHost hs with
      | error e => simp [okE]
      | ok host =>
        simp only [okE, Bool.true_and]
        cases hv : GoUrlFull.validUserinfo ui with
        | false => simp
        | true =>
          simp only [Bool.true_and, Bool.not_true, Bool.false_eq_true, if_false]
          have hu := okE_unescape_pct .userPassword (by decide)
          cases hc : ui.contains 0x3a with
          | false =>
            simp only [Bool.not_false, if_true]
            rw [← hu ui]
            cases unescape Mode.userPassword ui <;> simp [okE]
          | true =>
            simp only [Bool.not_true, Bool.false_eq_true, if_false]
            rw [pctOk_cut ui, ← hu, ← hu]
            cases unescape Mode.userPassword (GoUrlFull.cut 0x3a ui).1 with
            | error e => simp [okE]
            | ok un =>
              cases unescape Mode.userPassword ((GoUrlFull.cut 0x3a ui).2.getD []) <;> simp [okE]

/-! ### 7. the cuts of `parse`, `setPath`, `setFragment` -/

theorem cut_append_sep (c : Nat) (ys : List Nat) (h : ys.contains c = false) :
    GoUrlFull.cut c (ys ++ [c]) = (ys, some []) := by
  induction ys with
  | nil => simp [GoUrlFull.cut]
  | cons y ys ih =>
    simp only [List.contains_cons, Bool.or_eq_false_iff, beq_eq_false_iff_ne] at h
    have hy : ¬ y = c := fun e => h.1 e.symm
    simp [GoUrlFull.cut, hy, ih h.2]

theorem countByte_zero (c : Nat) (ys : List Nat) (h : countByte c ys = 0) : ys.contains c = false := by
  induction ys with
  | nil => rfl
  | cons y ys ih =>
    unfold countByte at h ih
    by_cases hy : y = c
    · subst hy; simp at h
    · have hy' : ¬ c = y := fun e => hy e.symm
      simp [hy] at h
      simp [hy']
      simpa using ih (by simpa using h)

theorem queryCut_fst (r : List Nat) : (queryCut r).1 = (GoUrlFull.cut 0x3f r).1 := by
  unfold queryCut
  split
  · rename_i h
    simp only [Bool.and_eq_true, beq_iff_eq] at h
    obtain ⟨ys, rfl⟩ := List.getLast?_eq_some_iff.1 h.1
    have h2 := h.2
    have : countByte 0x3f ys = 0 := by
      unfold countByte at h2 ⊢
      simp [List.filter_append] at h2
      simpa using h2
    rw [cut_append_sep _ _ (countByte_zero _ _ this)]
    simp
  · rfl

/-- the path that follows the authority -/
def pathOf : Option (List Nat) → List Nat
  | some t => 0x2f :: t
  | none => []

theorem authCut_cons (x : Nat) (xs : List Nat) :
    authCut (x :: xs) = if x = 0x2f then ([], x :: xs) else (x :: (authCut xs).1, (authCut xs).2) := by
  unfold authCut
  by_cases h : x = 0x2f
  · simp [indexOf, h]
  · simp only [indexOf, h, if_false]
    cases indexOf 0x2f xs <;> simp

theorem authCut_eq (a : List Nat) :
    authCut a = ((GoUrlFull.cut 0x2f a).1, pathOf (GoUrlFull.cut 0x2f a).2) := by
  induction a with
  | nil => simp [authCut, indexOf, GoUrlFull.cut, pathOf]
  | cons x xs ih =>
    rw [authCut_cons]
    by_cases h : x = 0x2f
    · simp [h, GoUrlFull.cut, pathOf]
    · simp [h, GoUrlFull.cut, ih]

theorem okE_setPath (u : URL) (p : List Nat) : okE (setPath u p) = GoUrl.pctOk p := by
  unfold setPath
  rw [← okE_unescape_pct .path (by decide) p]
  cases unescape .path p <;> simp

theorem unm_setPath (u : URL) (p : List Nat) : unm (setPath u p) = false := by
  unfold setPath
  have := unm_unescape .path p
  cases h : unescape .path p with
  | ok x => simp
  | error e => rw [h] at this; simp only; rw [unm_error_ty (β := Str)]; exact this

theorem setPath_scheme (u u' : URL) (p : List Nat) (h : setPath u p = .ok u') : u'.scheme = u.scheme := by
  unfold setPath at h
  cases h2 : unescape .path p with
  | ok x => rw [h2] at h; simp at h; rw [← h]
  | error e => rw [h2] at h; simp at h

theorem okE_setFragment (u : URL) (p : List Nat) : okE (setFragment u p) = GoUrl.pctOk p := by
  unfold setFragment
  rw [← okE_unescape_pct .fragment (by decide) p]
  cases unescape .fragment p <;> simp

theorem unm_setFragment (u : URL) (p : List Nat) : unm (setFragment u p) = false := by
  unfold setFragment
  have := unm_unescape .fragment p
  cases h : unescape .fragment p with
  | ok x => simp
  | error e => rw [h] at this; simp only; rw [unm_error_ty (β := Str)]; exact this

theorem setFragment_scheme (u u' : URL) (p : List Nat) (h : setFragment u p = .ok u') :
    u'.scheme = u.scheme := by
  unfold setFragment at h
  cases h2 : unescape .fragment p with
  | ok x => rw [h2] at h; simp at h; rw [← h]
  | error e => rw [h2] at h; simp at h

/-! ### 8. `parse(u, false)` -/

/-- the two models agree on a result: the full model declines, or both fail, or both succeed with schemes
    that are empty together -/
def Rel (r : Except PErr URL) (o : Option (List Nat)) : Prop :=
  unm r = true ∨
    (okE r = o.isSome ∧ ∀ u sch, r = .ok u → o = some sch → u.scheme.isEmpty = sch.isEmpty)

theorem Rel_error (e : PErr) : Rel (.error e) none := by
  right; constructor
  · simp
  · intro u sch h; cases h

theorem Rel_ok (u : URL) (sch : List Nat) (h : u.scheme.isEmpty = sch.isEmpty) : Rel (.ok u) (some sch) := by
  right; constructor
  · simp
  · intro u' sch' h1 h2; cases h1; cases h2; exact h

theorem Rel_setPath (u : URL) (p sch : List Nat) (h : u.scheme.isEmpty = sch.isEmpty) :
    Rel (setPath u p) (if GoUrl.pctOk p then some sch else none) := by
  right; constructor
  · rw [okE_setPath]; cases GoUrl.pctOk p <;> simp
  · intro u' sch' h1 h2
    rw [setPath_scheme u u' p h1, h]
    cases hp : GoUrl.pctOk p <;> simp [hp] at h2
    rw [h2]

theorem startsWith_eq (p s : List Nat) : GoUrl.startsWith p s = GoUrlFull.startsWith p s := rfl

/-- the body of `GoUrl.parseNoFrag` after `getScheme` -/
def oldRest (scheme rest0 : List Nat) : Option (List Nat) :=
  let rest := (GoUrlFull.cut 0x3f rest0).1
  if !startsWith [0x2f] rest then
    if !scheme.isEmpty then some scheme
    else if ((GoUrlFull.cut 0x2f rest).1).contains 0x3a then none
    else (if GoUrl.pctOk rest then some scheme else none)
  else if (!scheme.isEmpty || !startsWith [0x2f, 0x2f, 0x2f] rest) && startsWith [0x2f, 0x2f] rest then
    if GoUrl.parseAuthorityOk (GoUrlFull.cut 0x2f (rest.drop 2)).1 &&
        GoUrl.pctOk (pathOf (GoUrlFull.cut 0x2f (rest.drop 2)).2) then some scheme else none
  else if GoUrl.pctOk rest then some scheme else none

theorem parseNoFrag_old (u : List Nat) :
    GoUrl.parseNoFrag u =
      if hasCTL u then none
      else if u = [0x2a] then some []
      else match getScheme u with
        | none => none
        | some (scheme, rest0) => oldRest scheme rest0 := by
  unfold GoUrl.parseNoFrag oldRest
  simp only [cut_eq, hasCTL_eq, getScheme_eq, startsWith_eq]
  by_cases h1 : hasCTL u = true
  · simp [h1]
  · by_cases h2 : u = [0x2a]
    · simp [h2]
    · simp only [h1, h2, if_false]
      cases hg : getScheme u with
      | none => rfl
      | some pr =>
        obtain ⟨scheme, rest0⟩ := pr
        simp only
        generalize (GoUrlFull.cut 0x3f rest0).1 = rest
        rcases hc : GoUrlFull.cut 0x2f (List.drop 2 rest) with ⟨authority, tail⟩
        cases tail <;> simp [pathOf]

theorem startsWith2_1 (rest : List Nat) (h : startsWith [0x2f] rest = false) :
    startsWith [0x2f, 0x2f] rest = false := by
  cases rest with
  | nil => rfl
  | cons c r =>
    simp only [startsWith, List.isPrefixOf, Bool.and_true, beq_eq_false_iff_ne, ne_eq] at h
    have : (47 == c) = false := by simpa using h
    simp [startsWith, List.isPrefixOf, this]

theorem parseRest_rel (sch' scheme rest0 : List Nat) (he : sch'.isEmpty = scheme.isEmpty) :
    Rel (parseRest sch' rest0) (oldRest scheme rest0) := by
  unfold parseRest oldRest
  simp only [queryCut_fst]
  generalize (GoUrlFull.cut 0x3f rest0).1 = rest
  generalize (queryCut rest0).2.1 = fq
  generalize (queryCut rest0).2.2 = rq
  cases hs : startsWith [0x2f] rest with
  | false =>
    cases hse : scheme.isEmpty with
    | false =>
      rw [hse] at he
      simp only [he, Bool.not_false, Bool.and_self, if_true]
      exact Rel_ok _ _ (by simp [he, hse])
    | true =>
      rw [hse] at he
      simp only [he, Bool.not_false, Bool.not_true, Bool.and_false, Bool.false_eq_true, if_false, if_true,
        Bool.true_and, Bool.false_or, startsWith2_1 rest hs, Bool.and_false]
      cases hcol : ((GoUrlFull.cut 0x2f rest).1).contains 0x3a with
      | true => simp only [if_true]; exact Rel_error _
      | false =>
        simp only [Bool.false_eq_true, if_false]
        exact Rel_setPath _ _ _ (by simp [he, hse])
  | true =>
    simp only [Bool.not_true, Bool.false_and, Bool.false_eq_true, if_false]
    rw [he]
    split
    · rw [authCut_eq]
      simp only
      generalize (GoUrlFull.cut 0x2f (List.drop 2 rest)).1 = auth
      generalize pathOf (GoUrlFull.cut 0x2f (List.drop 2 rest)).2 = path
      rcases parseAuthority_rel auth with h | h
      · left
        cases hp : parseAuthority auth with
        | ok x => rw [hp] at h; simp at h
        | error e => rw [hp] at h; have := (unm_error e).1 h; subst this; simp
      · rw [← h]
        cases hp : parseAuthority auth with
        | error e => simp only [okE_error, Bool.false_and, Bool.false_eq_true, if_false]; exact Rel_error _
        | ok x =>
          obtain ⟨user, host⟩ := x
          simp only [okE_ok, Bool.true_and]
          exact Rel_setPath _ _ _ (by simp [he])
    · exact Rel_setPath _ _ _ (by simp [he])

theorem parseNoFrag_rel (u : List Nat) : Rel (GoUrlFull.parseNoFrag u) (GoUrl.parseNoFrag u) := by
  rw [parseNoFrag_old]
  unfold GoUrlFull.parseNoFrag
  by_cases h1 : hasCTL u = true
  · simp only [h1, if_true]; exact Rel_error _
  · by_cases h2 : u = [0x2a]
    · simp only [h2, if_true]; exact Rel_ok _ _ rfl
    · simp only [h1, h2, if_false]
      cases hg : getScheme u with
      | none => exact Rel_error _
      | some pr =>
        obtain ⟨scheme, rest0⟩ := pr
        exact parseRest_rel _ _ _ (by simp)

/-! ### `url.Parse` -/

/-- acceptance and `IsAbs` of a result of the full model -/
def absE : Except PErr URL → Bool
  | .ok u => u.isAbs
  | .error _ => false

theorem parse_main (s : List Nat) (h : unm (parse s) = false) :
    GoUrl.parseOk s = okE (parse s) ∧ GoUrl.parseAbsOk s = absE (parse s) := by
  unfold GoUrl.parseOk GoUrl.parseAbsOk
  unfold parse at h ⊢
  rw [cut_eq]
  rcases hc : GoUrlFull.cut 0x23 s with ⟨u, frag⟩
  rw [hc] at h
  simp only at h ⊢
  rcases parseNoFrag_rel u with hr | ⟨hr1, hr2⟩
  · exfalso
    cases hp : GoUrlFull.parseNoFrag u with
    | ok x => rw [hp] at hr; simp at hr
    | error e =>
      rw [hp] at hr h
      have := (unm_error e).1 hr
      subst this
      simp at h
  · cases hp : GoUrlFull.parseNoFrag u with
    | error e =>
      rw [hp] at hr1
      cases ho : GoUrl.parseNoFrag u with
      | some sch => rw [ho] at hr1; simp at hr1
      | none => simp [absE]
    | ok x =>
      rw [hp] at hr1
      cases ho : GoUrl.parseNoFrag u with
      | none => rw [ho] at hr1; simp at hr1
      | some sch =>
        have hsch := hr2 x sch hp ho
        simp only
        cases frag with
        | none => simp [absE, URL.isAbs, hsch]
        | some f =>
          simp only
          by_cases hf : f.isEmpty = true
          · have : f = [] := by simpa using hf
            subst this
            simp [absE, URL.isAbs, hsch, GoUrl.pctOk]
          · simp only [hf]
            rw [← okE_setFragment x f]
            cases hsf : setFragment x f with
            | error e => simp [absE]
            | ok x' =>
              have := setFragment_scheme x x' f hsf
              simp [absE, URL.isAbs, this, hsch]

theorem fullUnmodelled_eq (s : List Nat) : RdfModel.IriUnify.fullUnmodelled s = unm (parse s) := by
  unfold RdfModel.IriUnify.fullUnmodelled
  cases parse s with
  | ok u => rfl
  | error e => cases e <;> rfl

theorem fullOk_eq (s : List Nat) : RdfModel.IriUnify.fullOk s = okE (parse s) := by
  unfold RdfModel.IriUnify.fullOk
  cases parse s <;> rfl

theorem fullAbsOk_eq (s : List Nat) : RdfModel.IriUnify.fullAbsOk s = absE (parse s) := by
  unfold RdfModel.IriUnify.fullAbsOk
  cases parse s <;> rfl

/-- `GoUrl.parseAbsOk` (acceptance model) = acceptance + `IsAbs` of the full model, wherever the full model
    answers -/
theorem parseAbsOk_eq_full (s : List Nat) (h : RdfModel.IriUnify.fullUnmodelled s = false) :
    RdfModel.GoUrl.parseAbsOk s = RdfModel.IriUnify.fullAbsOk s := by
  rw [fullUnmodelled_eq] at h
  rw [fullAbsOk_eq]
  exact (parse_main s h).2

/-- `GoUrl.parseOk` (acceptance model) = acceptance of the full model, wherever the full model answers -/
theorem parseOk_eq_full (s : List Nat) (h : RdfModel.IriUnify.fullUnmodelled s = false) :
    RdfModel.GoUrl.parseOk s = RdfModel.IriUnify.fullOk s := by
  rw [fullUnmodelled_eq] at h
  rw [fullOk_eq]
  exact (parse_main s h).1

/-- the byte-level acceptance the decoders use IS the acceptance model, unconditionally -/
theorem absOkBytes_eq (s : List Nat) :
    RdfModel.IriUnify.absOkBytes s = RdfModel.GoUrl.parseAbsOk s := by
  cases hu : RdfModel.IriUnify.fullUnmodelled s with
  | false =>
    rw [parseAbsOk_eq_full s hu]
    unfold RdfModel.IriUnify.fullUnmodelled at hu
    unfold RdfModel.IriUnify.absOkBytes RdfModel.IriUnify.fullAbsOk
    cases hp : parse s with
    | ok u => rfl
    | error e => rw [hp] at hu; cases e <;> first | rfl | simp at hu
  | true =>
    unfold RdfModel.IriUnify.fullUnmodelled at hu
    unfold RdfModel.IriUnify.absOkBytes
    cases hp : parse s with
    | ok u => rw [hp] at hu; simp at hu
    | error e => rw [hp] at hu; cases e <;> first | rfl | simp at hu

end RdfModel.Proofs.IriUnify
