/-
  Helper lemmas for C12: `removeDotSegments` leaves dot-free paths alone, never outputs a dot
  segment, and is idempotent.
-/
import RdfModel.Proofs.C12Segs
namespace RdfModel.Proofs.C12
open RdfModel.Spec.RFC3986

/-! ### the conditions A–D of one step, as shapes of the input buffer -/

/-- conditions 2A–2D of section 5.2.4 -/
def stepAD (inp : Str) : Prop :=
  (∃ t, inp = [cDot, cDot, cSlash] ++ t) ∨ (∃ t, inp = [cDot, cSlash] ++ t) ∨
  (∃ t, inp = [cSlash, cDot, cSlash] ++ t) ∨ inp = [cSlash, cDot] ∨
  (∃ t, inp = [cSlash, cDot, cDot, cSlash] ++ t) ∨ inp = [cSlash, cDot, cDot] ∨
  inp = [cDot] ∨ inp = [cDot, cDot]

theorem rdsStep_E {inp : Str} (h : ¬ stepAD inp) (out : Str) :
    rdsStep inp out = (afterFirstSegment inp, out ++ firstSegment inp) := by
  unfold stepAD at h
  simp only [not_or] at h
  obtain ⟨h1, h2, h3, h4, h5, h6, h7, h8⟩ := h
  have b1 : beginsWith [cDot, cDot, cSlash] inp = false := by
    rw [Bool.eq_false_iff]; intro hb; exact h1 ((beginsWith_iff _ _).mp hb)
  have b2 : beginsWith [cDot, cSlash] inp = false := by
    rw [Bool.eq_false_iff]; intro hb; exact h2 ((beginsWith_iff _ _).mp hb)
  have b3 : beginsWith [cSlash, cDot, cSlash] inp = false := by
    rw [Bool.eq_false_iff]; intro hb; exact h3 ((beginsWith_iff _ _).mp hb)
  have b5 : beginsWith [cSlash, cDot, cDot, cSlash] inp = false := by
    rw [Bool.eq_false_iff]; intro hb; exact h5 ((beginsWith_iff _ _).mp hb)
  unfold rdsStep
  simp [b1, b2, b3, b5, h4, h6, h7, h8]

/-- a fired condition A–D exhibits a dot segment in the input -/
theorem stepAD_has_dot {inp : Str} (h : stepAD inp) : ¬ NoDotSegments inp := by
  intro hn
  have key : ∀ s, s ∈ segments inp → isDotSegment s = true → False := by
    intro s hs hd; have := hn s hs; rw [hd] at this; exact absurd this (by decide)
  rcases h with ⟨t, h⟩ | ⟨t, h⟩ | ⟨t, h⟩ | h | ⟨t, h⟩ | h | h | h
  · apply key [cDot, cDot] _ (by decide)
    rw [h, show [cDot, cDot, cSlash] ++ t = [cDot, cDot] ++ cSlash :: t from rfl, segments_append_slash]
    exact List.mem_append_left _ (by decide)
  · apply key [cDot] _ (by decide)
    rw [h, show [cDot, cSlash] ++ t = [cDot] ++ cSlash :: t from rfl, segments_append_slash]
    exact List.mem_append_left _ (by decide)
  · apply key [cDot] _ (by decide)
    rw [h, show [cSlash, cDot, cSlash] ++ t = [cSlash, cDot] ++ cSlash :: t from rfl, segments_append_slash]
    exact List.mem_append_left _ (by decide)
  · apply key [cDot] _ (by decide); rw [h]; decide
  · apply key [cDot, cDot] _ (by decide)
    rw [h, show [cSlash, cDot, cDot, cSlash] ++ t = [cSlash, cDot, cDot] ++ cSlash :: t from rfl, segments_append_slash]
    exact List.mem_append_left _ (by decide)
  · apply key [cDot, cDot] _ (by decide); rw [h]; decide
  · apply key [cDot] _ (by decide); rw [h]; decide
  · apply key [cDot, cDot] _ (by decide); rw [h]; decide

theorem noDot_afterFirstSegment {inp : Str} (h : NoDotSegments inp) : NoDotSegments (afterFirstSegment inp) := by
  rcases afterFirstSegment_shape inp with ha | ⟨t, ha⟩
  · rw [ha]; exact noDot_nil
  · have e := firstSegment_append_after inp
    rw [ha] at e
    rw [ha]
    intro s hs
    rw [segments_cons_slash] at hs
    rcases List.mem_cons.mp hs with hs | hs
    · subst hs; rfl
    · apply h
      rw [← e, segments_append_slash]
      exact List.mem_append_right _ hs

theorem rdsLoop_noDot : ∀ (n : Nat) (inp out : Str), inp.length < n → NoDotSegments inp →
    rdsLoop n inp out = out ++ inp := by
  intro n
  induction n with
  | zero => intro inp out h; omega
  | succ n ih =>
    intro inp out hl hn
    unfold rdsLoop
    by_cases he : inp = []
    · simp [he]
    · rw [if_neg he, rdsStep_E (fun h => stepAD_has_dot h hn)]
      simp only
      rw [ih _ _ (by have := afterFirstSegment_length he; omega) (noDot_afterFirstSegment hn)]
      rw [List.append_assoc, firstSegment_append_after]

/-- a path without dot segments is returned unchanged -/
theorem rds_noDot_id {p : Str} (h : NoDotSegments p) : removeDotSegments p = p := by
  unfold removeDotSegments
  rw [rdsLoop_noDot _ _ _ (by omega) h]; rfl

/-! ### the output never contains a dot segment -/

/-- loop invariant: the output buffer is dot-free, and while it is non-empty the input buffer is
    empty or starts with "/" -/
def Inv (inp out : Str) : Prop :=
  NoDotSegments out ∧ (out = [] ∨ inp = [] ∨ ∃ t, inp = cSlash :: t)

theorem isDot_cases {s : Str} (h : isDotSegment s = true) : s = [cDot] ∨ s = [cDot, cDot] := by
  unfold isDotSegment at h
  simpa using h

theorem firstSegment_slash (r : Str) : firstSegment (cSlash :: r) = cSlash :: r.takeWhile (· != cSlash) := by
  simp [firstSegment]

theorem firstSegment_ne {c : Nat} (hc : c ≠ cSlash) (r : Str) :
    firstSegment (c :: r) = (c :: r).takeWhile (· != cSlash) := by
  simp [firstSegment, hc]

/-- in step E the segment moved to the output is not a dot segment -/
theorem stepE_noDot {inp out : Str} (hne : inp ≠ []) (hAD : ¬ stepAD inp) (hI : Inv inp out) :
    NoDotSegments (out ++ firstSegment inp) := by
  obtain ⟨hno, hshape⟩ := hI
  cases inp with
  | nil => exact absurd rfl hne
  | cons c r =>
    by_cases hc : c = cSlash
    · subst hc
      rw [firstSegment_slash]
      obtain ⟨s, hs, hse, hr⟩ := split_at_slash r
      rw [← hse]
      intro x hx
      rw [segments_append_slash, segments_noSlash hs] at hx
      rcases List.mem_append.mp hx with hx | hx
      · exact hno x hx
      · simp only [List.mem_singleton] at hx
        subst hx
        cases hd : isDotSegment x with
        | false => rfl
        | true =>
          exfalso
          apply hAD
          unfold stepAD
          rcases isDot_cases hd with hx | hx
          · subst hx
            rcases hr with hr | ⟨t, hr⟩
            · right; right; right; left; rw [hr]
            · right; right; left; exact ⟨t, by rw [hr]; rfl⟩
          · subst hx
            rcases hr with hr | ⟨t, hr⟩
            · right; right; right; right; right; left; rw [hr]
            · right; right; right; right; left; exact ⟨t, by rw [hr]; rfl⟩
    · have hout : out = [] := by
        rcases hshape with h | h | ⟨t, h⟩
        · exact h
        · exact absurd h hne
        · injection h with h _; exact absurd h hc
      subst hout
      rw [firstSegment_ne hc, List.nil_append]
      obtain ⟨s, hs, hse, hr⟩ := split_at_slash (c :: r)
      rw [← hse]
      intro x hx
      rw [segments_noSlash hs] at hx
      simp only [List.mem_singleton] at hx
      subst hx
      cases hd : isDotSegment x with
      | false => rfl
      | true =>
        exfalso
        apply hAD
        unfold stepAD
        rcases isDot_cases hd with hx | hx
        · subst hx
          rcases hr with hr | ⟨t, hr⟩
          · right; right; right; right; right; right; left; exact hr
          · right; left; exact ⟨t, by rw [hr]; rfl⟩
        · subst hx
          rcases hr with hr | ⟨t, hr⟩
          · right; right; right; right; right; right; right; exact hr
          · left; exact ⟨t, by rw [hr]; rfl⟩

theorem rdsStep_inv {inp out : Str} (hne : inp ≠ []) (hI : Inv inp out) :
    Inv (rdsStep inp out).1 (rdsStep inp out).2 ∧ (rdsStep inp out).1.length < inp.length := by
  have hds : cDot ≠ cSlash := by decide
  by_cases hAD : stepAD inp
  · have hout : (∀ t, inp ≠ cSlash :: t) → out = [] := by
      intro hns
      rcases hI.2 with h | h | ⟨t, h⟩
      · exact h
      · exact absurd h hne
      · exact absurd h (hns t)
    rcases hAD with ⟨t, h⟩ | ⟨t, h⟩ | ⟨t, h⟩ | h | ⟨t, h⟩ | h | h | h
    · subst h
      have := hout (by intro t h; injection h with h _; exact absurd h (by decide))
      subst this
      simp [rdsStep, beginsWith, Inv, noDot_nil] <;> omega
    · subst h
      have := hout (by intro t h; injection h with h _; exact absurd h (by decide))
      subst this
      simp [rdsStep, beginsWith, Inv, hds, noDot_nil] <;> omega
    · subst h
      simp [rdsStep, beginsWith, Inv, hds, hI.1] <;> omega
    · subst h
      simp [rdsStep, beginsWith, Inv, hds, hI.1] <;> omega
    · subst h
      simp [rdsStep, beginsWith, Inv, hds, noDot_popSegment hI.1] <;> omega
    · subst h
      simp [rdsStep, beginsWith, Inv, hds, noDot_popSegment hI.1] <;> omega
    · subst h
      simp [rdsStep, beginsWith, Inv, hds, hI.1] <;> omega
    · subst h
      simp [rdsStep, beginsWith, Inv, hds, hI.1] <;> omega
  · rw [rdsStep_E hAD]
    refine ⟨⟨stepE_noDot hne hAD hI, ?_⟩, afterFirstSegment_length hne⟩
    rcases afterFirstSegment_shape inp with h | ⟨t, h⟩
    · right; left; exact h
    · right; right; exact ⟨t, h⟩

theorem rdsLoop_inv : ∀ (n : Nat) (inp out : Str), inp.length < n → Inv inp out →
    NoDotSegments (rdsLoop n inp out) := by
  intro n
  induction n with
  | zero => intro inp out h; omega
  | succ n ih =>
    intro inp out hl hI
    unfold rdsLoop
    by_cases he : inp = []
    · simp [he]; exact hI.1
    · rw [if_neg he]
      obtain ⟨h1, h2⟩ := rdsStep_inv he hI
      rcases hst : rdsStep inp out with ⟨i', o'⟩
      rw [hst] at h1 h2
      exact ih _ _ (by simp only at h2; omega) h1

/-- the output of remove_dot_segments has no dot segment -/
theorem rds_no_dots (p : Str) : NoDotSegments (removeDotSegments p) := by
  unfold removeDotSegments
  exact rdsLoop_inv _ _ _ (by omega) ⟨noDot_nil, Or.inl rfl⟩

theorem rds_idempotent (p : Str) : removeDotSegments (removeDotSegments p) = removeDotSegments p :=
  rds_noDot_id (rds_no_dots p)

end RdfModel.Proofs.C12
