package main

// T1/T2 generator for property C09: facts about encoding/rdfxml  ->  lean/RdfModel/Gen/RdfXmlFacts.lean
//
// Purely syntactic (go/ast) over the checkout named by VERIF_REPO (default /repo), plus one exhaustive
// evaluation:
//   - T2: the constants of encoding/rdfxml/internal/namespace.go (namespace and reserved local names);
//   - T2: every `switch tokenT.Name { case xml.Name{…}, …: return …ElementNotAllowedError… }` of decoder.go
//     (the forbidden element names of each production) and every `case internal.Local_…: return
//     …AttributeNotAllowedError…` of a switch over attr.Name.Local (the forbidden attribute names), with
//     the enclosing function;
//   - T2: the tokenizer chosen by parseAll for each value of captureTextOffsets;
//   - T1: the pattern of reXmlNamespaceName (package.go) is compiled and, together with the ':' rule of
//     validateID (whose body is reported as text), evaluated for every code point as first and as later
//     character of an rdf:ID / rdf:nodeID value.
// Code outside the shapes understood here is reported as `unknown` and makes the consuming theorem fail.

import (
	"fmt"
	"go/ast"
	"go/parser"
	"go/token"
	"os"
	"path/filepath"
	"regexp"
	"sort"
	"strconv"
	"strings"
)

func init() { generators["c09"] = genC09 }

func c09Str(s string) string {
	var parts []string
	for _, c := range s {
		parts = append(parts, fmt.Sprintf("0x%x", c))
	}
	return "[" + strings.Join(parts, ", ") + "]"
}

func genC09(leanRoot string) {
	repo := os.Getenv("VERIF_REPO")
	if repo == "" {
		repo = "/repo"
	}
	dir := filepath.Join(repo, "encoding", "rdfxml")
	fset := token.NewFileSet()
	parse := func(rel string) *ast.File {
		f, err := parser.ParseFile(fset, filepath.Join(dir, rel), nil, 0)
		if err != nil {
			fmt.Fprintln(os.Stderr, "c09:", err)
			os.Exit(2)
		}
		return f
	}
	// ---- constants of the internal package
	consts := map[string]string{}
	var constNames []string
	for _, d := range parse("internal/namespace.go").Decls {
		gd, ok := d.(*ast.GenDecl)
		if !ok || gd.Tok != token.CONST {
			continue
		}
		for _, sp := range gd.Specs {
			vs := sp.(*ast.ValueSpec)
			for i, n := range vs.Names {
				if i < len(vs.Values) {
					if bl, ok := vs.Values[i].(*ast.BasicLit); ok && bl.Kind == token.STRING {
						v, _ := strconv.Unquote(bl.Value)
						consts[n.Name] = v
						constNames = append(constNames, n.Name)
					}
				}
			}
		}
	}
	sort.Strings(constNames)
	local := func(e ast.Expr) (string, bool) { // internal.Local_X -> value
		se, ok := e.(*ast.SelectorExpr)
		if !ok {
			return "", false
		}
		if id, ok := se.X.(*ast.Ident); !ok || id.Name != "internal" {
			return "", false
		}
		v, ok := consts[se.Sel.Name]
		return v, ok
	}
	// ---- forbidden names per function
	type sw struct {
		fn    string
		kind  string // element | attribute
		names []string
	}
	var sws []sw
	tokenizer := "unknown"
	dec := parse("decoder.go")
	returnsErr := func(body []ast.Stmt, typ string) bool {
		found := false
		for _, st := range body {
			ast.Inspect(st, func(n ast.Node) bool {
				if cl, ok := n.(*ast.CompositeLit); ok {
					if id, ok := cl.Type.(*ast.Ident); ok && id.Name == typ {
						found = true
					}
				}
				return true
			})
		}
		if len(body) == 0 {
			return false
		}
		_, isRet := body[len(body)-1].(*ast.ReturnStmt)
		return found && isRet
	}
	for _, d := range dec.Decls {
		fd, ok := d.(*ast.FuncDecl)
		if !ok || fd.Body == nil {
			continue
		}
		ast.Inspect(fd.Body, func(n ast.Node) bool {
			ss, ok := n.(*ast.SwitchStmt)
			if !ok {
				return true
			}
			for _, c := range ss.Body.List {
				cc := c.(*ast.CaseClause)
				switch {
				case returnsErr(cc.Body, "ElementNotAllowedError"):
					s := sw{fn: fd.Name.Name, kind: "element"}
					for _, e := range cc.List {
						cl, ok := e.(*ast.CompositeLit)
						okShape := ok && len(cl.Elts) == 2
						if okShape {
							var space, loc string
							for _, el := range cl.Elts {
								kv, ok := el.(*ast.KeyValueExpr)
								if !ok {
									okShape = false
									break
								}
								k := kv.Key.(*ast.Ident).Name
								if k == "Space" {
									if se, ok := kv.Value.(*ast.SelectorExpr); ok && se.Sel.Name == "Space" {
										space = consts["Space"]
									}
								}
								if k == "Local" {
									if v, ok := local(kv.Value); ok {
										loc = v
									}
								}
							}
							if space == "" || loc == "" {
								okShape = false
							}
							if okShape {
								s.names = append(s.names, loc)
							}
						}
						if !okShape {
							s.names = append(s.names, "unknown")
						}
					}
					sort.Strings(s.names)
					sws = append(sws, s)
				case returnsErr(cc.Body, "AttributeNotAllowedError"):
					s := sw{fn: fd.Name.Name, kind: "attribute"}
					for _, e := range cc.List {
						if v, ok := local(e); ok {
							s.names = append(s.names, v)
						} else {
							s.names = append(s.names, "unknown")
						}
					}
					if len(cc.List) == 0 { // `default:` that rejects everything else
						s.names = append(s.names, "default")
					}
					sort.Strings(s.names)
					sws = append(sws, s)
				}
			}
			return true
		})
		if fd.Name.Name == "parseAll" {
			ast.Inspect(fd.Body, func(n ast.Node) bool {
				is, ok := n.(*ast.IfStmt)
				if !ok || is.Else == nil {
					return true
				}
				se, ok := is.Cond.(*ast.SelectorExpr)
				if !ok || se.Sel.Name != "captureTextOffsets" {
					return true
				}
				ctor := func(b ast.Node) string {
					out := "unknown"
					ast.Inspect(b, func(n ast.Node) bool {
						if ce, ok := n.(*ast.CallExpr); ok {
							if f, ok := ce.Fun.(*ast.SelectorExpr); ok && f.Sel.Name == "NewDecoder" {
								if id, ok := f.X.(*ast.Ident); ok {
									out = id.Name + ".NewDecoder"
								}
							}
						}
						return true
					})
					return out
				}
				tokenizer = "on:" + ctor(is.Body) + " off:" + ctor(is.Else)
				return false
			})
		}
	}
	// ---- rdf:ID / rdf:nodeID validity
	pattern, validateBody := "", "unknown"
	for _, d := range parse("package.go").Decls {
		if gd, ok := d.(*ast.GenDecl); ok && gd.Tok == token.VAR {
			for _, sp := range gd.Specs {
				vs := sp.(*ast.ValueSpec)
				if len(vs.Names) == 1 && vs.Names[0].Name == "reXmlNamespaceName" && len(vs.Values) == 1 {
					if ce, ok := vs.Values[0].(*ast.CallExpr); ok && len(ce.Args) == 1 {
						if bl, ok := ce.Args[0].(*ast.BasicLit); ok {
							pattern, _ = strconv.Unquote(bl.Value)
						}
					}
				}
			}
		}
	}
	for _, d := range dec.Decls {
		if fd, ok := d.(*ast.FuncDecl); ok && fd.Name.Name == "validateID" && len(fd.Body.List) > 0 {
			if is, ok := fd.Body.List[0].(*ast.IfStmt); ok {
				validateBody = c13Src(fset, is.Cond)
			}
		}
	}
	re, err := regexp.Compile(pattern)
	if err != nil || pattern == "" {
		fmt.Fprintln(os.Stderr, "c09: cannot compile reXmlNamespaceName")
		os.Exit(2)
	}
	valid := func(v string) bool { return re.MatchString(v) && !strings.Contains(v, ":") } // = !validateBody
	scalar := func(r rune) bool { return r < 0xD800 || r > 0xDFFF }

	var sb strings.Builder
	sb.WriteString("-- GENERATED by /verif/go/cmd/extract (gen_c09.go) from encoding/rdfxml (T2: go/ast; T1: rdf:ID validity over 0..0x10FFFF). Do not edit.\n")
	sb.WriteString("import RdfModel.Model.Rune\nnamespace RdfModel.Gen.RX\nopen RdfModel\n\n")
	fmt.Fprintf(&sb, "/-- internal.Space -/\ndef space : List Nat := %s\n\n", c09Str(consts["Space"]))
	sb.WriteString("/-- internal.Local_* -/\ndef locals : List (String × List Nat) := [\n")
	for i, n := range constNames {
		if n == "Space" {
			continue
		}
		sep := ","
		if i == len(constNames)-1 {
			sep = ""
		}
		fmt.Fprintf(&sb, "  (%q, %s)%s\n", n, c09Str(consts[n]), sep)
	}
	sb.WriteString("]\n\n")
	emit := func(name, kind string) {
		fmt.Fprintf(&sb, "def %s : List (String × List (List Nat)) := [\n", name)
		first := true
		for _, s := range sws {
			if s.kind != kind {
				continue
			}
			if !first {
				sb.WriteString(",\n")
			}
			first = false
			var ns []string
			for _, n := range s.names {
				ns = append(ns, c09Str(n))
			}
			fmt.Fprintf(&sb, "  (%q, [%s])", s.fn, strings.Join(ns, ", "))
		}
		sb.WriteString("\n]\n\n")
	}
	sb.WriteString("/-- per function: the element names rejected with ElementNotAllowedError (all in the RDF namespace), sorted -/\n")
	emit("forbiddenElements", "element")
	sb.WriteString("/-- per function: the RDF-namespace attribute names rejected with AttributeNotAllowedError, sorted -/\n")
	emit("forbiddenAttributes", "attribute")
	fmt.Fprintf(&sb, "/-- parseAll: tokenizer constructor for captureTextOffsets on / off -/\ndef tokenizer : String := %q\n\n", tokenizer)
	fmt.Fprintf(&sb, "/-- validateID rejects when this holds -/\ndef validateIDRejects : String := %q\n\n", validateBody)
	fmt.Fprintf(&sb, "/-- code points c such that validateID(string(c)) accepts -/\ndef idStart : RangeSet :=\n  %s\n\n", set(func(r rune) bool { return scalar(r) && valid(string(r)) }))
	fmt.Fprintf(&sb, "/-- code points c such that validateID(\"A\" + string(c)) accepts -/\ndef idChar : RangeSet :=\n  %s\n\n", set(func(r rune) bool { return scalar(r) && valid("A"+string(r)) }))
	sb.WriteString("end RdfModel.Gen.RX\n")
	writeIfChanged(filepath.Join(leanRoot, "RdfModel", "Gen", "RdfXmlFacts.lean"), sb.String())
}
