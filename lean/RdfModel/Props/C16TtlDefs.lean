/-
  Definitions used by the Turtle/TriG token-producer theorems of C16 (`Props/C16Ttl.lean`).
-/
import RdfModel.Model.TurtleOffsets
import RdfModel.Props.C16Defs
namespace RdfModel.C16Ttl
open RdfModel RdfModel.TW RdfModel.NQO RdfModel.TtlO

/-- What a successful producer call did to the bookkeeping, relative to the state `s` before the
    caller read the first rune and the input `inp` (first rune included):

    * it consumed exactly `pre ++ body` (`inp = pre ++ body ++ rest`, `rest` = what is left in the rune
      buffer and reader, handed-back runes included), and the rune buffer's byte offset advanced by
      exactly the size of that text;
    * capture mode is unchanged; with a writer, the runes committed during the call, in order, are
      exactly `pre ++ body` — every consumed rune once, nothing else (`committed`);
    * with a writer the reported range is `(fr, un)` where the writer history `fr` holds everything
      committed before the call plus `pre`, and `un` additionally `body`: the range delimits exactly
      `body`; without a writer no range is reported. -/
structure Consumed (s : S) (inp pre body : List RP) (rg : Option SRange) (s' : S) (rest : List RP) : Prop where
  split : inp = pre ++ body ++ rest
  bo : s'.bo = s.bo + size (pre ++ body)
  capture : s'.doc.isSome = s.doc.isSome
  committed : ∀ h, s.doc = some h → ∃ h', s'.doc = some h' ∧ histRunes h' = histRunes h ++ (pre ++ body)
  range : ∀ h, s.doc = some h → ∃ fr un, rg = some (fr, un) ∧ histRunes fr = histRunes h ++ pre ∧
    histRunes un = histRunes h ++ (pre ++ body)
  norange : s.doc = none → rg = none

/-- The writer is in step with the rune buffer: everything the buffer has handed out has been
    committed (the situation at every call of a producer from the statement layer, where white space
    and the previous tokens have been committed). Only needed for the error-offset bound. -/
def InStep (s : S) : Prop := ∀ h, s.doc = some h → size (histRunes h) = s.bo

end RdfModel.C16Ttl
