/-
  Proofs.C01 — the proofs referenced by Props/C01.lean (helper lemmas in Proofs/C01*.lean).
-/
import RdfModel.Proofs.C01Round
import RdfModel.Proofs.C01Ascii
import RdfModel.Proofs.C01Grammar
namespace RdfModel.Proofs.C01
open RdfModel RdfModel.NQ RdfModel.C01

variable {β : Type}

theorem nquads_roundtrip (T : Tables) (hT : TablesOK T) (urlOk : List Nat → Bool) (ascii : Bool)
    (label : β → List Nat) (hl : LabelsOK T label) (qs : List (Quad β))
    (hwf : ∀ q ∈ qs, WFQuad urlOk q) :
    run T urlOk .eof true (encodeDoc T ascii label true qs) = (qs.map (Quad.map label), .clean) := by
  rw [run_roundtrip T hT urlOk ascii label hl true qs hwf]
  rfl

theorem ntriples_roundtrip (T : Tables) (hT : TablesOK T) (urlOk : List Nat → Bool) (ascii : Bool)
    (label : β → List Nat) (hl : LabelsOK T label) (qs : List (Quad β))
    (hwf : ∀ q ∈ qs, WFQuad urlOk q) :
    run T urlOk .eof false (encodeDoc T ascii label false qs)
      = (qs.map (fun q => Quad.map label (Quad.dropGraph q)), .clean) := by
  rw [run_roundtrip T hT urlOk ascii label hl false qs hwf]
  rfl

theorem term_map_injective (label : β → List Nat) (hinj : Function.Injective label) :
    Function.Injective (Term.map label) := by
  intro a b h
  cases a <;> cases b <;> simp_all [Term.map]
  exact hinj h

theorem relabel_injective (label : β → List Nat) (hinj : Function.Injective label) :
    Function.Injective (Quad.map label) := by
  have hT := term_map_injective label hinj
  intro a b h
  obtain ⟨s1, p1, o1, g1⟩ := a
  obtain ⟨s2, p2, o2, g2⟩ := b
  simp only [Quad.map, Quad.mk.injEq] at h ⊢
  obtain ⟨h1, h2, h3, h4⟩ := h
  refine ⟨hT h1, hT h2, hT h3, ?_⟩
  cases g1 <;> cases g2 <;> simp_all
  exact hT h4

end RdfModel.Proofs.C01
