/-
  C17 helper lemmas, part 9: the repaired export (`…V`, with the `inlined` set) — local correspondence.
-/
import RdfModel.Proofs.C17Main
namespace RdfModel.Proofs.C17
open RdfModel RdfModel.Desc RdfModel.C17

variable {β : Type} [DecidableEq β]

/-- blank node of a term, if it is one -/
def bn? : Term β → Option β
  | .bnode b => some b
  | _ => none

/-- the blank nodes in object position, in order -/
def bobjs (W : List (Triple β)) : List β := (W.map (·.o)).filterMap bn?

omit [DecidableEq β] in
theorem bobjs_append (W₁ W₂ : List (Triple β)) : bobjs (W₁ ++ W₂) = bobjs W₁ ++ bobjs W₂ := by
  simp [bobjs, List.filterMap_append]

omit [DecidableEq β] in
theorem bobjs_nil : bobjs ([] : List (Triple β)) = [] := rfl

def ownB (B : Builder β) (b : β) : List (Triple β) := own B (Term.bnode b)

theorem exportStatementsV_succ (B : Builder β) (opts : Opts) (k : Nat) (s : Term β) (V : List β) :
    B.exportStatementsV opts (k + 1) s V =
      B.foldStmtsV opts (B.exportStatementsV opts k) (B.stmts s) (markSubject V s) := rfl

theorem isInlV_spec {B : Builder β} {opts : Opts} {V : List β} {x : Term β} (h : B.isInlV opts V x = true) :
    ∃ b, x = Term.bnode b ∧ B.isInl opts x = true ∧ b ∉ V := by
  cases x with
  | bnode b =>
    simp only [Builder.isInlV, Bool.and_eq_true, beq_iff_eq, Bool.not_eq_true', decide_eq_false_iff_not] at h
    exact ⟨b, rfl, by simp [Builder.isInl, h.1.1, h.1.2], h.2⟩
  | iri v => simp [Builder.isInlV] at h
  | lit l d t => simp [Builder.isInlV] at h

/-- What is known after the loop of exportResourceStatements ran over the statements `l` of subject `y`
    starting from the set `V0`: `L` the statements built, `W` their name-reusing flattening, `al` the
    blank nodes inlined (in allocation order), `nm` the blank nodes referenced by name, `V'` the set afterwards. -/
structure GoodV (B : Builder β) (opts : Opts) (l : List (PO β)) (y : Term β) (V0 : List β)
    (L : List (Stmt β)) (W : List (Triple β)) (al nm : List β) (V' : List β) : Prop where
  marks : V' = al.reverse ++ V0
  fresh : ∀ b ∈ al, b ∉ V0
  nodup : al.Nodup
  inl : ∀ b ∈ al, B.isInl opts (Term.bnode b) = true
  perm : W.Perm (l.map (tr y) ++ al.flatMap (ownB B))
  objs : (bobjs W).Perm (al ++ nm)
  count : ∀ (x : Term (BN β)) (n : Nat), (stmtsNewTriples x L n).2 = n + al.length
  image : ∀ (x : Term (BN β)) (n : Nat) (σ : β → BN β), y.map σ = x →
    al.map σ = (List.range' n al.length).map BN.fresh →
    (∀ b ∈ nm, σ b = BN.orig b) →
    (stmtsNewTriples x L n).1 = W.map (Triple.map σ)

theorem localV_inner (B : Builder β) (opts : Opts) (k : Nat)
    (ih : ∀ y V L V', B.exportStatementsV opts k y V = some (L, V') →
      ∃ W al nm, GoodV B opts (B.stmts y) y (markSubject V y) L W al nm V')
    (y : Term β) :
    ∀ (l : List (PO β)) (V0 : List β) (L : List (Stmt β)) (V' : List β),
      B.foldStmtsV opts (B.exportStatementsV opts k) l V0 = some (L, V') →
      ∃ W al nm, GoodV B opts l y V0 L W al nm V' := by
  intro l
  induction l with
  | nil =>
    intro V0 L V' h
    simp only [Builder.foldStmtsV, Option.some.injEq, Prod.mk.injEq] at h
    obtain ⟨rfl, rfl⟩ := h
    refine ⟨[], [], [], ⟨by simp, by simp, by simp, by simp, by simp, by simp [bobjs_nil], ?_, ?_⟩⟩
    · intro x n; simp [stmtsNewTriples_nil]
    · intro x n σ _ _ _; simp [stmtsNewTriples_nil]
  | cons po rest ihl =>
    intro V0 L V' h
    simp only [Builder.foldStmtsV] at h
    by_cases hin : B.isInlV opts V0 po.2 = true
    · -- inlined
      simp only [hin, if_true] at h
      obtain ⟨b, hb, hinl, hbV⟩ := isInlV_spec hin
      cases hrec : B.exportStatementsV opts k po.2 V0 with
      | none => simp [hrec] at h
      | some r =>
        obtain ⟨lb, V1⟩ := r
        simp only [hrec] at h
        cases hfold : B.foldStmtsV opts (B.exportStatementsV opts k) rest V1 with
        | none => simp [hfold] at h
        | some r2 =>
          obtain ⟨l', V2⟩ := r2
          simp only [hfold, Option.some.injEq, Prod.mk.injEq] at h
          obtain ⟨rfl, rfl⟩ := h
          obtain ⟨Wb, alb, nmb, gb⟩ := ih po.2 V0 lb V1 hrec
          obtain ⟨W', al', nm', g'⟩ := ihl V1 l' V2 hfold
          have hV0b : markSubject V0 po.2 = b :: V0 := by
            rw [hb]; simp [markSubject, mark, hbV]
          have hmarks_b := gb.marks
          rw [hV0b] at hmarks_b
          have hfresh_b : ∀ c ∈ alb, c ∉ b :: V0 := by
            intro c hc; have := gb.fresh c hc; rwa [hV0b] at this
          have hfresh' : ∀ c ∈ al', c ∉ V1 := g'.fresh
          refine ⟨Wb ++ [tr y po] ++ W', b :: (alb ++ al'), nmb ++ nm', ⟨?_, ?_, ?_, ?_, ?_, ?_, ?_, ?_⟩⟩
          · -- marks
            rw [g'.marks, hmarks_b]
            simp [List.reverse_append]
          · -- fresh
            intro c hc
            rcases List.mem_cons.1 hc with rfl | hc
            · exact hbV
            · rcases List.mem_append.1 hc with hc | hc
              · exact fun h => hfresh_b c hc (List.mem_cons_of_mem _ h)
              · intro h
                apply hfresh' c hc
                rw [hmarks_b]; simp [h]
          · -- nodup
            rw [List.nodup_cons, List.nodup_append]
            refine ⟨?_, gb.nodup, g'.nodup, ?_⟩
            · intro hc
              rcases List.mem_append.1 hc with hc | hc
              · exact hfresh_b b hc (by simp)
              · apply hfresh' b hc
                rw [hmarks_b]; simp
            · intro c hc d hd hcd
              subst hcd
              apply hfresh' c hd
              rw [hmarks_b]; simp [hc]
          · -- inl
            intro c hc
            rcases List.mem_cons.1 hc with rfl | hc
            · rw [← hb]; exact hinl
            · rcases List.mem_append.1 hc with hc | hc
              · exact gb.inl c hc
              · exact g'.inl c hc
          · -- perm
            have p1 := gb.perm
            have p2 := g'.perm
            simp only [List.map_cons, List.flatMap_cons, List.flatMap_append]
            -- Wb ++ [t] ++ W' ~ t :: rest' ++ (ownB b ++ (fb ++ f'))
            have e1 : (Wb ++ [tr y po] ++ W').Perm (tr y po :: (Wb ++ W')) := by
              rw [List.append_assoc]; exact List.perm_middle
            refine e1.trans ?_
            simp only [List.cons_append]
            refine List.Perm.cons _ ?_
            have e2 : (Wb ++ W').Perm ((List.map (tr po.2) (B.stmts po.2) ++ List.flatMap (ownB B) alb) ++
                (List.map (tr y) rest ++ List.flatMap (ownB B) al')) := List.Perm.append p1 p2
            refine e2.trans ?_
            have : ownB B b = List.map (tr po.2) (B.stmts po.2) := by rw [hb]; rfl
            rw [this]
            -- (A ++ Fb) ++ (R ++ F') ~ R ++ (A ++ (Fb ++ F'))
            rw [List.perm_iff_count]
            intro a
            simp only [List.count_append]
            omega
          · -- objs
            have o1 := gb.objs
            have o2 := g'.objs
            simp only [bobjs_append]
            have : bobjs [tr y po] = [b] := by simp [bobjs, tr, hb, bn?]
            rw [this]
            -- (bW_b ++ [b]) ++ bW' ~ b :: (alb ++ al') ++ (nmb ++ nm')
            have e : ((bobjs Wb ++ [b]) ++ bobjs W').Perm (b :: ((alb ++ nmb) ++ (al' ++ nm'))) := by
              rw [List.append_assoc]
              refine List.perm_middle.trans (List.Perm.cons _ (List.Perm.append o1 o2))
            refine e.trans ?_
            simp only [List.cons_append]
            refine List.Perm.cons _ ?_
            simp only [List.append_assoc]
            refine List.Perm.append_left _ ?_
            rw [← List.append_assoc, ← List.append_assoc]
            exact List.Perm.append_right _ List.perm_append_comm
          · -- count
            intro x n
            rw [stmtsNewTriples_cons, newTriples_anon]
            simp only [gb.count, g'.count, List.length_cons, List.length_append]
            omega
          · -- image
            intro x n σ hy hal hnm
            have hal' : ([b] ++ (alb ++ al')).map σ =
                (List.range' n ([b].length + (alb ++ al').length)).map BN.fresh := by
              simpa [Nat.add_comm] using hal
            obtain ⟨hσb, hal2⟩ := (split_alloc σ [b] (alb ++ al') n).1 hal'
            simp only [List.length_append] at hal2
            obtain ⟨halb, hal'2⟩ := (split_alloc σ alb al' (n + [b].length)).1 hal2
            simp only [List.map_cons, List.map_nil, List.length_cons, List.length_nil, Nat.zero_add,
              List.range'_one, List.cons.injEq, and_true] at hσb
            simp only [List.length_cons, List.length_nil, Nat.zero_add] at halb hal'2
            rw [stmtsNewTriples_cons, newTriples_anon]
            simp only [gb.count]
            have e1 := gb.image (Term.bnode (BN.fresh n)) (n + 1) σ (by rw [hb]; simp [Term.map, hσb]) halb
              (fun c hc => hnm c (by simp [hc]))
            have e2 := g'.image x (n + 1 + alb.length) σ hy hal'2 (fun c hc => hnm c (by simp [hc]))
            rw [e1, e2]
            simp only [List.map_append, List.map_cons, List.map_nil, List.append_assoc]
            congr 2
            simp only [tr, Triple.map, hy]
            rw [hb]; simp [Term.map, hσb]
    · -- by name
      have hin' : B.isInlV opts V0 po.2 = false := by simpa using hin
      simp only [hin', Bool.false_eq_true, if_false] at h
      cases hfold : B.foldStmtsV opts (B.exportStatementsV opts k) rest V0 with
      | none => simp [hfold] at h
      | some r2 =>
        obtain ⟨l', V2⟩ := r2
        simp only [hfold, Option.some.injEq, Prod.mk.injEq] at h
        obtain ⟨rfl, rfl⟩ := h
        obtain ⟨W', al', nm', g'⟩ := ihl V0 l' V2 hfold
        refine ⟨tr y po :: W', al', (bn? po.2).toList ++ nm', ⟨g'.marks, g'.fresh, g'.nodup, g'.inl, ?_, ?_, ?_, ?_⟩⟩
        · simp only [List.map_cons, List.cons_append]
          exact List.Perm.cons _ g'.perm
        · have : bobjs (tr y po :: W') = (bn? po.2).toList ++ bobjs W' := by
            simp only [bobjs, List.map_cons, tr]
            cases h2 : bn? po.2 <;> simp [h2]
          rw [this]
          refine (List.Perm.append_left _ g'.objs).trans ?_
          rw [← List.append_assoc, ← List.append_assoc]
          exact List.Perm.append_right _ List.perm_append_comm
        · intro x n
          rw [stmtsNewTriples_cons, newTriples_obj]
          exact g'.count x n
        · intro x n σ hy hal hnm
          rw [stmtsNewTriples_cons, newTriples_obj]
          simp only [g'.image x n σ hy hal (fun c hc => hnm c (by simp [hc])), List.map_cons,
            List.cons_append, List.nil_append, List.cons.injEq, and_true]
          simp only [tr, Triple.map, hy]
          congr 1
          apply term_map_congr
          intro b' hb'
          symm
          apply hnm b'
          simp [hb', bn?]

/-- Local correspondence for the repaired export. -/
theorem localV (B : Builder β) (opts : Opts) :
    ∀ k y V L V', B.exportStatementsV opts k y V = some (L, V') →
      ∃ W al nm, GoodV B opts (B.stmts y) y (markSubject V y) L W al nm V' := by
  intro k
  induction k with
  | zero => intro y V L V' h; simp [Builder.exportStatementsV] at h
  | succ k ih =>
    intro y V L V' h
    rw [exportStatementsV_succ] at h
    exact localV_inner B opts k ih y (B.stmts y) (markSubject V y) L V' h

end RdfModel.Proofs.C17
