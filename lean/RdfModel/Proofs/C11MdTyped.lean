/-
  Proofs/C11MdTyped — Proofs/C11MdFlat generalised to items WITH `itemtype`: one rdf:type statement per type token,
  property names resolved against the first type (`Spec.Microdata.predicate`, the library's
  ItemtypeVocabularyResolver).  Item-list documents as before (no itemref, no nesting, canonical property elements).
-/
import RdfModel.Proofs.C11MdFlat
set_option linter.unusedSimpArgs false
set_option linter.unusedSectionVars false
namespace RdfModel.Mdd.Typed
open RdfModel RdfModel.Desc RdfModel.Spec.Html RdfModel.Spec.Microdata RdfModel.Mdd

section
variable {β : Type} [DecidableEq β]

/-- the item's types as the fragment semantics reads them -/
def typesOf (a : Attrs) : List Str := match a.itemtype with | some v => Spec.Html.fields v | none => []

def itemOkT (x : Attrs × List (Triple β)) : Prop :=
  x.1.itemscope = true ∧ x.1.itemref = none ∧ ∀ t ∈ x.2, leafOk t

/-! ## the denotation of typed item lists (generalises Proofs/C11Microdata.itemTriples_simple / denote_items) -/

theorem itemTriples_typed (base : Str) (doc : Tree) (here : Path) (tag : Tag) (a : Attrs) (ts : List (Triple β))
    (hnode : nodeAt doc here = some (.elem tag a (ts.map canonLeaf)))
    (href : a.itemref = none) (hts : ∀ t ∈ ts, leafOk t) :
    itemTriples base doc here =
      (typesOf a).map (fun ty => (⟨subject base a here, Spec.Microdata.rdfType, .iri ty⟩ : Tr)) ++
      ts.map (fun t => (⟨subject base a here, predicate (typesOf a) t.p, valueOf base t.o⟩ : Tr)) := by
  have hfilter : (List.map (fun j => here ++ [j]) (List.range' 0 ts.length)).filter (fun q => q != here) =
      List.map (fun j => here ++ [j]) (List.range' 0 ts.length) := by
    apply List.filter_eq_self.mpr
    intro q hq
    obtain ⟨j, _, rfl⟩ := List.mem_map.mp hq
    simp
  simp only [itemTriples, hnode, props, href, visitKids_leaves here 0 ts hts, List.flatMap_nil, List.append_nil,
    hfilter, List.flatMap_map]
  congr 1
  rw [range_flatMap ts 0 _ (fun t => [(⟨subject base a here, predicate (typesOf a) t.p, valueOf base t.o⟩ : Tr)])]
  · exact flatMap_single _ _
  · intro j t hj
    have hmem : t ∈ ts := List.mem_of_getElem? hj
    obtain ⟨tg, at', h1, h2, h3, h4⟩ := canonLeaf_shape t (hts t hmem)
    have hn : nodeAt doc (here ++ [0 + j]) = some (canonLeaf t) := by
      rw [nodeAt_append, hnode]
      simp [nodeAt, kidAt_eq, hj]
    simp only [hn, h1, h3, h4, List.map_cons, List.map_nil, typesOf]
    rfl

theorem itemsKids_itemsT (here : Path) (k : Nat) (L : List (Attrs × List (Triple β))) (h : ∀ x ∈ L, itemOkT x) :
    itemsKids here k (L.map mkItem) = (List.range' k L.length).map (fun j => here ++ [j]) := by
  induction L generalizing k with
  | nil => simp [itemsKids]
  | cons x xs ih =>
    obtain ⟨h1, _, h4⟩ := h x (by simp)
    simp [itemsKids, mkItem, itemsNode, h1, itemsKids_leaves _ 0 x.2 h4, ih (k + 1) (fun y hy => h y (by simp [hy])),
      List.range'_succ]

theorem denote_itemsT (base : Str) (L : List (Attrs × List (Triple β))) (h : ∀ x ∈ L, itemOkT x) :
    denote base (docOf (L.map mkItem)) =
      L.zipIdx.flatMap (fun xj =>
        (typesOf xj.1.1).map (fun ty => (⟨subject base xj.1.1 [1, xj.2], Spec.Microdata.rdfType, .iri ty⟩ : Tr)) ++
        xj.1.2.map (fun t => (⟨subject base xj.1.1 [1, xj.2], predicate (typesOf xj.1.1) t.p, valueOf base t.o⟩ : Tr))) := by
  have hitems : itemsNode [] (docOf (L.map mkItem)) = (List.range' 0 L.length).map (fun j => [1, j]) := by
    simp [docOf, itemsNode, itemsKids, itemsKids_itemsT [1] 0 L h]
  rw [denote, hitems, List.flatMap_map]
  have hlen : L.length = L.zipIdx.length := by simp
  rw [hlen]
  apply range_flatMap
  intro j xj hj
  obtain ⟨x, j'⟩ := xj
  have hx : L[j]? = some x ∧ j' = j := by
    simp [List.getElem?_zipIdx] at hj
    obtain ⟨a, b, hy, hxy, hjj⟩ := hj
    subst hxy; subst hjj
    exact ⟨hy, rfl⟩
  obtain ⟨hx, rfl⟩ := hx
  obtain ⟨_, h2, h4⟩ := h x (List.mem_of_getElem? hx)
  have hn : nodeAt (docOf (L.map mkItem)) [1, 0 + j'] = some (mkItem x) := by
    simp [docOf, nodeAt, kidAt, kidAt_eq, hx]
  simpa using itemTriples_typed base _ [1, 0 + j'] .div x.1 x.2 hn h2 h4

/-! ## the model on typed items -/

theorem typeTokens_eq_fields (s : Str) : typeTokens s = Spec.Html.fields s := by
  have h : ∀ (s acc : Str), typeTokensGo s acc = fieldsAux s acc := by
    intro s
    induction s with
    | nil => intro acc; simp [typeTokensGo, fieldsAux, flush]
    | cons c r ih =>
      intro acc
      unfold typeTokensGo fieldsAux
      have e : isReSpace c = isWs c := by
        unfold isReSpace isWs
        generalize (c == 9) = b1; generalize (c == 10) = b2; generalize (c == 12) = b3
        generalize (c == 13) = b4; generalize (c == 32) = b5
        cases b1 <;> cases b2 <;> cases b3 <;> cases b4 <;> cases b5 <;> rfl
      rw [e]
      cases hw : isWs c
      · simp [ih]
      · simp only [↓reduceIte, ih, flush]
        cases acc <;> simp
  exact h s []

theorem emitTypes_spec (base : Str) (tm mm : List (Bytes → Option (Term Nat))) (s : Subj) (toks : List Str)
    (hne : ∀ tok ∈ toks, tok ≠ []) (st : St) :
    emitTypes (specEnv base tm mm) s toks st =
      (toks, { st with out := (toks.map (fun ty => (⟨s.term, Mdd.rdfType, .iri ty⟩ : Stmt))).reverse ++ st.out }) := by
  induction toks generalizing st with
  | nil => rfl
  | cons tok rest ih =>
    have h0 : tok.isEmpty = false := by
      have := hne tok (by simp)
      cases tok <;> simp_all
    unfold emitTypes
    simp only [h0, Bool.false_eq_true, ↓reduceIte]
    rw [ih (fun t ht => hne t (by simp [ht]))]
    simp [specEnv, St.emit]

theorem propNames_typed (base : Str) (tm mm : List (Bytes → Option (Term Nat))) (types : List Str) (p : Str)
    (h1 : Mdd.fields (trimSpace p) = [p]) (h2 : p ≠ []) :
    propNames (specEnv base tm mm) types p = [predicate types p] := by
  unfold propNames
  rw [h1]
  have : p.isEmpty = false := by cases p <;> simp_all
  simp [propNamesGo, this, specEnv]

def leafStmtT (base : Str) (cur : Subj) (types : List Str) (t : Triple β) : Stmt :=
  ⟨cur.term, predicate types t.p, valueN base t.o⟩

theorem walk_leafT (base : Str) (tm mm : List (Bytes → Option (Term Nat))) (doc : Node) (f : Nat) (ctx : Ctx) (cur : Subj)
    (hc : ctx.subj = some cur) (m : Nat) (t : Triple β) (ht : LeafTok t) (st : St) :
    walk (specEnv base tm mm) doc (f + 1) ctx (relabelFrom m (ofSpec (canonLeaf t))).1 st =
      { st with steps := st.steps + 1, out := leafStmtT base cur ctx.types t :: st.out } ∧
    (relabelFrom m (ofSpec (canonLeaf t))).2 = m + 1 := by
  obtain ⟨s, p, o⟩ := t
  obtain ⟨h1, h2, h3⟩ := ht
  simp only at h1 h2 h3
  have hp := propNames_typed base tm mm ctx.types p h1 h2
  cases o with
  | bnode b => exact absurd rfl (h3 b)
  | lit lex dt lang =>
    refine ⟨?_, by simp [canonLeaf, ofSpec, ofSpecL, relabelFrom, relabelL]⟩
    simp only [canonLeaf, ofSpec, ofSpecL, relabelFrom, relabelL, walk, walkStep, Node.ns, Node.attrs, Node.kids,
      scan_attrsOf, walkKidsWith, List.foldl_nil, propElem, hc, itemValue, Node.atom, atomOf, kind_meta,
      findAttr_content, Option.getD_some, Option.getD_none]
    simp [hp, emitAll, St.emit, valueN, h2, leafStmtT]
  | iri i =>
    refine ⟨?_, by simp [canonLeaf, ofSpec, ofSpecL, relabelFrom, relabelL]⟩
    simp only [canonLeaf, ofSpec, ofSpecL, relabelFrom, relabelL, walk, walkStep, Node.ns, Node.attrs, Node.kids,
      scan_attrsOf, walkKidsWith, List.foldl_nil, propElem, hc, itemValue, Node.atom, atomOf, kind_link,
      findAttr_href, Option.getD_some, Option.getD_none]
    simp [hp, emitAll, St.emit, valueN, iriValue_spec, h2, leafStmtT]

theorem walk_leavesT (base : Str) (tm mm : List (Bytes → Option (Term Nat))) (doc : Node) (f : Nat) (ctx : Ctx) (cur : Subj)
    (hc : ctx.subj = some cur) (ts : List (Triple β)) (hts : ∀ t ∈ ts, LeafTok t) (m : Nat) (st : St) :
    walkKidsWith (walk (specEnv base tm mm) doc (f + 1)) ctx (relabelL m (ofSpecL (ts.map canonLeaf))).1 st =
      { st with steps := st.steps + ts.length, out := (ts.map (leafStmtT base cur ctx.types)).reverse ++ st.out } ∧
    (relabelL m (ofSpecL (ts.map canonLeaf))).2 = m + ts.length := by
  induction ts generalizing m st with
  | nil => simp [ofSpecL, relabelL, walkKidsWith]
  | cons t ts ih =>
    obtain ⟨hw, hn⟩ := walk_leafT base tm mm doc f ctx cur hc m t (hts t (by simp)) st
    obtain ⟨ihw, ihn⟩ := ih (fun u hu => hts u (by simp [hu])) (m + 1)
      { st with steps := st.steps + 1, out := leafStmtT base cur ctx.types t :: st.out }
    simp only [List.map_cons, ofSpecL, relabelL, walkKidsWith, List.foldl_cons] at ihw ⊢
    rw [hn, hw]
    rw [ihw, ihn]
    refine ⟨?_, by simp; omega⟩
    simp [Nat.add_assoc, Nat.add_comm 1]

/-- the statements of one item: types, then properties -/
def itemStmts (base : Str) (s : Subj) (x : Attrs × List (Triple β)) : List Stmt :=
  (typesOf x.1).map (fun ty => (⟨s.term, Mdd.rdfType, .iri ty⟩ : Stmt)) ++ x.2.map (leafStmtT base s (typesOf x.1))

theorem walk_itemT (base : Str) (tm mm : List (Bytes → Option (Term Nat))) (doc : Node) (f : Nat) (ctx : Ctx)
    (hc : ctx.subj = none) (m : Nat) (x : Attrs × List (Triple β)) (hx : itemOkT x) (hx2 : ItemTok x) (st : St)
    (hun : lookupR st.resolved m = none) :
    walk (specEnv base tm mm) doc (f + 2) ctx (relabelFrom m (ofSpec (mkItem x))).1 st =
      { st with resolved := (m, (subjN base x.1 st.nextBn).1) :: st.resolved, nextBn := (subjN base x.1 st.nextBn).2,
                steps := st.steps + 1 + x.2.length, expansions := st.expansions + 1,
                out := (itemStmts base (subjN base x.1 st.nextBn).1 x).reverse ++ st.out } ∧
    (relabelFrom m (ofSpec (mkItem x))).2 = m + 1 + x.2.length := by
  obtain ⟨a, ts⟩ := x
  obtain ⟨h1, h2, _⟩ := hx
  obtain ⟨hid, hts⟩ := hx2
  simp only at h1 h2 hid hts hun ⊢
  have hsubj : itemSubject (specEnv base tm mm)
      { itemid := a.itemid.getD [], itemprop := a.itemprop.getD [], itemref := [], itemscope := true,
        itemtype := a.itemtype.getD [] }
      none { st with steps := st.steps + 1 } =
      ((subjN base a st.nextBn).1, { st with steps := st.steps + 1, nextBn := (subjN base a st.nextBn).2 }) := by
    unfold itemSubject subjN
    cases hv : a.itemid with
    | none => simp
    | some v =>
      by_cases hv0 : v = []
      · simp [hv0]
      · have := hid v hv
        simp [hv0, specEnv, resolveUrl]
        by_cases hb : base = [] <;> simp [hb]
  -- the rdf:type statements
  have htypes : ∀ s0 : St,
      (if a.itemtype.getD [] ≠ [] then
        emitTypes (specEnv base tm mm) (subjN base a st.nextBn).1 (typeTokens (a.itemtype.getD [])) s0 else ([], s0)) =
      (typesOf a, { s0 with out := ((typesOf a).map (fun ty => (⟨(subjN base a st.nextBn).1.term, Mdd.rdfType, .iri ty⟩ : Stmt))).reverse ++ s0.out }) := by
    intro s0
    cases hv : a.itemtype with
    | none => simp [typesOf, hv]
    | some v =>
      by_cases hv0 : v = []
      · subst hv0; simp [typesOf, hv, Spec.Html.fields, fieldsAux]
      · simp only [Option.getD_some, ne_eq, hv0, not_false_eq_true, ↓reduceIte]
        rw [emitTypes_spec base tm mm _ _ (typeTokens_ne v)]
        simp [typesOf, hv, typeTokens_eq_fields]
  rw [walk_succ]
  simp only [mkItem, ofSpec, relabelFrom, walkStep, Node.ns, Node.attrs, Node.kids, Node.id, scan_attrsOf,
    h1, h2, Option.getD_none, visitItem, St.lookup]
  have hl' : (List.find? (fun e => e.1 == m) st.resolved) = none := by
    unfold lookupR at hun
    split at hun
    · simp at hun
    · assumption
  simp only [ne_eq, not_true_eq_false, ↓reduceIte, hl']
  rw [hsubj]
  simp only [linkItem, hc, expandItem]
  have hsame : (if a.itemprop.getD [] ≠ [] then
      ({ st with steps := st.steps + 1, nextBn := (subjN base a st.nextBn).2 } : St)
      else { st with steps := st.steps + 1, nextBn := (subjN base a st.nextBn).2 }) =
      { st with steps := st.steps + 1, nextBn := (subjN base a st.nextBn).2 } := by split <;> rfl
  rw [hsame, htypes]
  simp only [ne_eq, not_true_eq_false, ↓reduceIte, Node.kids, Node.id]
  obtain ⟨hw, hn⟩ := walk_leavesT base tm mm doc f
    { ctx with subj := some (subjN base a st.nextBn).1, types := typesOf a } (subjN base a st.nextBn).1 rfl ts hts (m + 1)
    { st with steps := st.steps + 1, nextBn := (subjN base a st.nextBn).2,
              resolved := (m, (subjN base a st.nextBn).1) :: st.resolved, expansions := st.expansions + 1,
              out := ((typesOf a).map (fun ty => (⟨(subjN base a st.nextBn).1.term, Mdd.rdfType, .iri ty⟩ : Stmt))).reverse ++ st.out }
  refine ⟨?_, by rw [hn]⟩
  rw [hw]
  simp [itemStmts, Nat.add_assoc]

def itemsOutT (base : Str) : Nat → List (Attrs × List (Triple β)) → List Stmt
  | _, [] => []
  | cnt, x :: xs => itemStmts base (subjN base x.1 cnt).1 x ++ itemsOutT base (subjN base x.1 cnt).2 xs

theorem walk_itemsT (base : Str) (tm mm : List (Bytes → Option (Term Nat))) (doc : Node) (f : Nat) (ctx : Ctx)
    (hc : ctx.subj = none) (L : List (Attrs × List (Triple β))) (hL : ∀ x ∈ L, itemOkT x ∧ ItemTok x) (m : Nat) (st : St)
    (hlt : ∀ e ∈ st.resolved, e.1 < m) :
    (walkKidsWith (walk (specEnv base tm mm) doc (f + 2)) ctx (relabelL m (ofSpecL (L.map mkItem))).1 st).out =
      (itemsOutT base st.nextBn L).reverse ++ st.out ∧
    (walkKidsWith (walk (specEnv base tm mm) doc (f + 2)) ctx (relabelL m (ofSpecL (L.map mkItem))).1 st).hooks = st.hooks := by
  induction L generalizing m st with
  | nil => simp [ofSpecL, relabelL, walkKidsWith, itemsOutT]
  | cons x xs ih =>
    obtain ⟨hx1, hx2⟩ := hL x (by simp)
    obtain ⟨hw, hn⟩ := walk_itemT base tm mm doc f ctx hc m x hx1 hx2 st (lookupR_none_of_lt _ _ hlt)
    simp only [List.map_cons, ofSpecL, relabelL, walkKidsWith, List.foldl_cons]
    rw [hw, hn]
    have ih' := ih (fun y hy => hL y (by simp [hy])) (m + 1 + x.2.length)
      { st with resolved := (m, (subjN base x.1 st.nextBn).1) :: st.resolved, nextBn := (subjN base x.1 st.nextBn).2,
                steps := st.steps + 1 + x.2.length, expansions := st.expansions + 1,
                out := (itemStmts base (subjN base x.1 st.nextBn).1 x).reverse ++ st.out }
      (by
        intro e he
        simp only [List.mem_cons] at he
        rcases he with rfl | he
        · simp; omega
        · have := hlt e he; omega)
    unfold walkKidsWith at ih'
    rw [ih'.1, ih'.2]
    simp [itemsOutT]

theorem run_itemDocT (base : Str) (tm mm : List (Bytes → Option (Term Nat))) (L : List (Attrs × List (Triple β)))
    (hL : ∀ x ∈ L, itemOkT x ∧ ItemTok x) :
    decode (specEnv base tm mm) (ofSpecDoc (docOf (L.map mkItem))) = .ok (itemsOutT base 0 L) [] := by
  have hbad := run_bad_none (specEnv base tm mm) (relabel (ofSpecDoc (docOf (L.map mkItem))))
  obtain ⟨f, hf⟩ : ∃ f, fuelFor (relabel (ofSpecDoc (docOf (L.map mkItem)))) = f + 5 := by
    refine ⟨fuelFor (relabel (ofSpecDoc (docOf (L.map mkItem)))) - 5, ?_⟩
    have h1 : 4 ≤ (subnodes (relabel (ofSpecDoc (docOf (L.map mkItem))))).length := by
      rw [relabel_size]
      simp [ofSpecDoc, docOf, ofSpec, ofSpecL, subnodes, subnodesL]
    have h2 : 5 ≤ ((subnodes (relabel (ofSpecDoc (docOf (L.map mkItem))))).length + 1) *
        (height (relabel (ofSpecDoc (docOf (L.map mkItem)))) + 1) :=
      Nat.le_trans (by omega) (Nat.le_mul_of_pos_right _ (Nat.succ_pos _))
    unfold fuelFor
    omega
  have hitems := walk_itemsT base tm mm (relabel (ofSpecDoc (docOf (L.map mkItem)))) f {} rfl L hL 4
    { steps := 4 } (by intro e he; simp at he)
  unfold decode finish
  rw [hbad]
  simp only
  unfold run
  rw [hf]
  generalize hd : relabel (ofSpecDoc (docOf (L.map mkItem))) = d at hitems ⊢
  have hshape : d = .mk 0 2 [] [] [] [] [.mk 1 3 [] (asc "html") [] [] [.mk 2 3 [] (asc "head") [] [] [],
      .mk 3 3 [] (asc "body") [] [] (relabelL 4 (ofSpecL (L.map mkItem))).1]] := by
    rw [← hd]
    simp [relabel, ofSpecDoc, docOf, ofSpec, ofSpecL, relabelFrom, relabelL, atomOf, attrsOf, optAttr]
  have e0 : scanAttrs [] {} = ({} : ItemAttrs) := rfl
  have hrun : walk (specEnv base tm mm) d (f + 5) {} d {} =
      walkKidsWith (walk (specEnv base tm mm) d (f + 2)) {} (relabelL 4 (ofSpecL (L.map mkItem))).1 { steps := 4 } := by
    conv => lhs; arg 5; rw [hshape]
    simp only [walk_succ, walkStep, Node.ns, Node.attrs, Node.kids, e0, walkKidsWith, List.foldl_cons, List.foldl_nil,
      propElem, ne_eq, not_true_eq_false, ↓reduceIte, Bool.false_eq_true]
  rw [hrun, hitems.1, hitems.2]
  simp

theorem denoteItems_mapT (base : Str) (σ : Path → Nat) (L : List (Attrs × List (Triple β)))
    (hL : ∀ x ∈ L, ItemTok x) (k cnt : Nat)
    (hσ : ∀ j x, L[j]? = some x → σ [1, k + j] = itemsCnt base cnt (L.take j)) :
    ((L.zipIdx k).flatMap (fun xj =>
        (typesOf xj.1.1).map (fun ty => (⟨subject base xj.1.1 [1, xj.2], Spec.Microdata.rdfType, .iri ty⟩ : Tr)) ++
        xj.1.2.map (fun t => (⟨subject base xj.1.1 [1, xj.2], predicate (typesOf xj.1.1) t.p, valueOf base t.o⟩ : Tr)))).map
      (Triple.map σ) = itemsOutT base cnt L := by
  induction L generalizing k cnt with
  | nil => rfl
  | cons x xs ih =>
    obtain ⟨hid, hts⟩ := hL x (by simp)
    have h0 : σ [1, k] = cnt := by simpa [itemsCnt] using hσ 0 x (by simp)
    have ih' := ih (fun y hy => hL y (by simp [hy])) (k + 1) (subjN base x.1 cnt).2 (by
      intro j y hy
      have := hσ (j + 1) y (by simpa using hy)
      simpa [itemsCnt, Nat.add_assoc, Nat.add_comm 1] using this)
    simp only [List.zipIdx_cons, List.flatMap_cons, List.map_append, itemsOutT, itemStmts]
    rw [ih']
    congr 1
    congr 1
    · simp only [List.map_map]
      apply List.map_congr_left
      intro ty _
      simp only [Function.comp, Triple.map]
      rw [subject_map base σ x.1 [1, k] cnt hid h0]
      rfl
    · simp only [List.map_map]
      apply List.map_congr_left
      intro t ht
      simp only [Function.comp, Triple.map, leafStmtT]
      rw [subject_map base σ x.1 [1, k] cnt hid h0, valueOf_map base σ t.o (hts t ht).2.2]

theorem decode_eq_denoteT (base : Str) (tm mm : List (Bytes → Option (Term Nat)))
    (L : List (Attrs × List (Triple β))) (hL : ∀ x ∈ L, itemOkT x ∧ ItemTok x) :
    decode (specEnv base tm mm) (ofSpecDoc (docOf (L.map mkItem))) =
      .ok ((denote base (docOf (L.map mkItem))).map (Triple.map (sigmaL base L))) [] := by
  rw [run_itemDocT base tm mm L hL, denote_itemsT base L (fun x hx => (hL x hx).1)]
  rw [denoteItems_mapT base (sigmaL base L) L (fun x hx => (hL x hx).2) 0 0 (by intro j x _; simp [sigmaL])]

end
end RdfModel.Mdd.Typed
