/-
  Helper lemmas for property C13 — bases with an authority and an empty path ("http://e"): the branch
  of `goResolve` that deviates from RFC 3986 is never the one that lets a candidate through.
-/
import RdfModel.Proofs.C13Rel
namespace RdfModel.Proofs.C13
open RdfModel.Spec.RFC3986Lite RdfModel.Prefix RdfModel.C13

theorem split_scheme_clean (s x : Str) (h : (split s).scheme = some x) : ∀ c ∈ x, pathStop c = false := by
  have h' : (splitScheme s).1 = some x := h
  unfold splitScheme at h'
  cases h1 : upTo schemeStop s with
  | nil => rw [h1] at h'; simp at h'
  | cons c cs =>
    rw [h1] at h'
    cases h2 : from_ schemeStop s with
    | nil => rw [h2] at h'; simp at h'
    | cons d rest =>
      rw [h2] at h'
      simp only at h'
      split at h'
      · simp only [Option.some.injEq] at h'
        subst h'
        intro y hy
        have := upTo_clean schemeStop s y (by rw [h1]; exact hy)
        simp [schemeStop] at this
        simp [pathStop, this]
      · simp at h'

theorem split_authority_clean (s x : Str) (h : (split s).authority = some x) : ∀ c ∈ x, pathStop c = false := by
  have h' : (splitAuthority (splitScheme s).2).1 = some x := h
  generalize (splitScheme s).2 = t at h'
  unfold splitAuthority at h'
  match t, h' with
  | [], h' => simp at h'
  | [_], h' => simp at h'
  | a :: b :: rest, h' =>
    simp only at h'
    split at h'
    · simp only [Option.some.injEq] at h'
      subst h'
      intro y hy
      have := upTo_clean authStop rest y hy
      simp [authStop] at this
      simp [pathStop, this]
    · simp at h'

theorem split_query_clean (s x : Str) (h : (split s).query = some x) : ∀ c ∈ x, queryStop c = false := by
  have h' : (splitQuery (from_ pathStop (splitAuthority (splitScheme s).2).2)).1 = some x := h
  generalize from_ pathStop (splitAuthority (splitScheme s).2).2 = t at h'
  unfold splitQuery at h'
  match t, h' with
  | [], h' => simp at h'
  | a :: rest, h' =>
    simp only at h'
    split at h'
    · simp only [Option.some.injEq] at h'
      subst h'
      exact upTo_clean queryStop rest
    · simp at h'

/-- scheme and authority of a string, recomposed: free of `?` and `#` -/
theorem head_clean (b : Str) :
    ∀ c ∈ schemePart (split b).scheme ++ authorityPart (split b).authority, pathStop c = false := by
  intro c hc
  rcases List.mem_append.mp hc with hc | hc
  · cases hs : (split b).scheme with
    | none => rw [hs] at hc; simp [schemePart] at hc
    | some x =>
      rw [hs] at hc
      simp only [schemePart, List.mem_append, List.mem_singleton] at hc
      rcases hc with hc | rfl
      · exact split_scheme_clean b x hs c hc
      · decide
  · cases hs : (split b).authority with
    | none => rw [hs] at hc; simp [authorityPart] at hc
    | some x =>
      rw [hs] at hc
      simp only [authorityPart, List.cons_append, List.nil_append, List.mem_cons] at hc
      rcases hc with rfl | rfl | hc
      · decide
      · decide
      · exact split_authority_clean b x hs c hc

/-- a base with an empty path is `scheme://authority` followed by query and fragment -/
theorem base_nopath_eq (b : Str) (hp : (split b).path = []) :
    b = schemePart (split b).scheme ++ authorityPart (split b).authority ++
        (queryPart (split b).query ++ fragmentPart (split b).fragment) := by
  have := recompose_split b
  unfold recompose at this
  rw [hp] at this
  simp only [List.append_nil, List.append_assoc] at this ⊢
  exact this.symm

theorem nopath_resourceIndex (b : Str) (hp : (split b).path = []) :
    (newBaseIRI b).resourceIndex = (schemePart (split b).scheme ++ authorityPart (split b).authority).length := by
  have hb := base_nopath_eq b hp
  have hS := head_clean b
  generalize hSd : schemePart (split b).scheme ++ authorityPart (split b).authority = S at hb hS
  simp only [newBaseIRI]
  have h1 := cut_at (fun c => c == cHash) (S ++ queryPart (split b).query) (fragmentPart (split b).fragment)
    (by intro c hc
        rcases List.mem_append.mp hc with hc | hc
        · have := hS c hc; simp [pathStop] at this; simp [this.2]
        · cases hq : (split b).query with
          | none => rw [hq] at hc; simp [queryPart] at hc
          | some x =>
            rw [hq] at hc
            simp only [queryPart, List.mem_cons] at hc
            rcases hc with rfl | hc
            · decide
            · have := split_query_clean b x hq c hc; simpa [queryStop] using this)
    (by cases (split b).fragment with
        | none => left; rfl
        | some y => right; exact ⟨cHash, y, rfl, by simp⟩)
  have h2 := cut_at (fun c => c == cQuest) S (queryPart (split b).query)
    (by intro c hc; have := hS c hc; simp [pathStop] at this; simp [this.1])
    (by cases (split b).query with
        | none => left; rfl
        | some y => right; exact ⟨cQuest, y, rfl, by simp⟩)
  have e : b = S ++ queryPart (split b).query ++ fragmentPart (split b).fragment := by
    rw [List.append_assoc]; exact hb
  conv => lhs; rw [e]
  rw [h1.1, h2.1]

/-- `Parse("./")` for a base with authority and empty path: the deviating branch, no trailing slash -/
theorem nopath_dir (b : Str) (ha : (split b).authority.isSome) (hp : (split b).path = []) :
    goResolve b [cDot, cSlash] = schemePart (split b).scheme ++ authorityPart (split b).authority := by
  have hR : split [cDot, cSlash] = ⟨none, none, [cDot, cSlash], none, none⟩ := by decide
  have hrds : removeDotSegments (cSlash :: [cDot, cSlash]) = [cSlash] := by decide
  unfold goResolve
  rw [hR]
  have hh : ¬ (cDot = cSlash) := by decide
  simp [ha, hp, hh, hrds, recompose, queryPart, fragmentPart]

/-- `Parse("/")` for such a base -/
theorem nopath_root (b : Str) (hp : (split b).path = []) :
    goResolve b [cSlash] = schemePart (split b).scheme ++ authorityPart (split b).authority ++ [cSlash] := by
  have hR : split [cSlash] = ⟨none, none, [cSlash], none, none⟩ := by decide
  have hrds : removeDotSegments [cSlash] = [cSlash] := by decide
  unfold goResolve resolve
  rw [hR]
  simp [hp, transform, hrds, recompose, queryPart, fragmentPart]

theorem path_of_hash_ref (f : Str) : (split (cHash :: f)).path = [] := by rw [split_fragment_ref]
theorem path_of_quest_ref (q : Str) : (split (cQuest :: q)).path = [] := by rw [split_query_ref]
theorem path_of_empty_ref : (split []).path = [] := by decide

theorem path_of_stop_ref (c : Nat) (t : Str) (hc : pathStop c = true) : (split (c :: t)).path = [] := by
  simp [pathStop] at hc
  rcases hc with rfl | rfl
  · exact path_of_quest_ref t
  · exact path_of_hash_ref t

theorem drop_cons_of_get (v : Str) (n c : Nat) (h : v[n]? = some c) : ∃ t, v.drop n = c :: t := by
  have hn : n < v.length := by
    rcases Nat.lt_or_ge n v.length with h' | h'
    · exact h'
    · rw [List.getElem?_eq_none h'] at h; cases h
  refine ⟨v.drop (n + 1), ?_⟩
  rw [List.drop_eq_getElem_cons hn]
  rw [List.getElem?_eq_getElem hn] at h
  cases h; rfl

/-- With an authority-only base, a candidate whose path is non-empty is never one that the deviating
    branch of `goResolve` (empty result path) would map back to the IRI. -/
theorem quirk1_absurd (b v r : Str) (hcand : candidate (newBaseIRI b) v = .some r)
    (hroot : (newBaseIRI b).root.isSome) (ha : (split b).authority.isSome) (hp : (split b).path = [])
    (hrp : (split r).path ≠ [])
    (hv : v = schemePart (split b).scheme ++ authorityPart (split b).authority ++
      (queryPart (split r).query ++ fragmentPart (split r).fragment)) : False := by
  have hb := base_nopath_eq b hp
  have hS := head_clean b
  have hres := nopath_resourceIndex b hp
  have hdir := nopath_dir b ha hp
  have hrootv := nopath_root b hp
  generalize hSd : schemePart (split b).scheme ++ authorityPart (split b).authority = S at hb hS hres hdir hrootv hv
  have horig : (newBaseIRI b).original = b := rfl
  have hrt : (newBaseIRI b).root = some (S.length + 1, S.length) := by
    have hsch : (split b).scheme.isSome = true := by
      simp only [newBaseIRI] at hroot
      split at hroot
      · assumption
      · simp at hroot
    simp [newBaseIRI, hsch, hdir, hrootv]
  -- v = b: the candidate is the empty reference
  by_cases hbv : b = v
  · subst hbv
    rcases candidate_self b with hc | hc
    · rw [hc] at hcand; cases hcand; exact hrp path_of_empty_ref
    · rw [hc] at hcand; cases hcand
  have hbl : S.length ≤ b.length := by rw [hb]; simp
  rcases queryPart_head (split r).query (split r).fragment with ht | ⟨c, t', ht, hc⟩
  · -- v = scheme://authority exactly, b is longer: the root test fails
    rw [ht, List.append_nil] at hv
    have hblen : S.length < b.length := by
      rcases Nat.lt_or_ge S.length b.length with h | h
      · exact h
      · exfalso; apply hbv
        have : (queryPart (split b).query ++ fragmentPart (split b).fragment).length = 0 := by
          have hl : b.length = S.length + (queryPart (split b).query ++ fragmentPart (split b).fragment).length := by
            conv => lhs; rw [hb]
            exact List.length_append
          omega
        have h0 := List.eq_nil_of_length_eq_zero this
        rw [hb, h0, hv]; simp
    unfold candidate at hcand
    rw [hrt] at hcand
    simp only [horig] at hcand
    have hn : ¬ (b.length < v.length) := by rw [hv]; omega
    simp only [hn, false_and, if_false] at hcand
    have hpre : ¬ ((b.take (min (S.length + 1) b.length)).isPrefixOf v = true) := by
      rw [List.isPrefixOf_iff_prefix]
      intro hpf
      have := hpf.length_le
      rw [List.length_take, hv] at this
      omega
    simp [hpre] at hcand
  · -- v = scheme://authority ++ c :: t' with c one of ? #
    rw [ht] at hv
    have hvl : v.length = S.length + (t'.length + 1) := by rw [hv]; simp
    have hget : v[S.length]? = some c := by
      rw [hv, List.getElem?_append_right (Nat.le_refl _)]; simp
    have hdrop : v.drop S.length = c :: t' := by rw [hv, List.drop_left' rfl]
    have hSpre : (b.take S.length).isPrefixOf v = true := by
      rw [List.isPrefixOf_iff_prefix, hb, List.take_left' rfl, hv]
      exact List.prefix_append _ _
    unfold candidate at hcand
    rw [hrt] at hcand
    simp only [horig] at hcand
    split at hcand
    · -- suffix form
      next r' hfirst =>
      cases hcand
      split at hfirst
      · split at hfirst
        · next hh =>
          cases hfirst
          obtain ⟨t, ht⟩ := drop_cons_of_get v b.length cHash hh
          rw [ht] at hrp
          exact hrp (path_of_hash_ref t)
        · split at hfirst
          · next hh =>
            cases hfirst
            obtain ⟨t, ht⟩ := drop_cons_of_get v b.length cQuest hh.2
            rw [ht] at hrp
            exact hrp (path_of_quest_ref t)
          · cases hfirst
      · cases hfirst
    · split at hcand
      · cases hcand
      · unfold candidateAbs at hcand
        rw [hres] at hcand
        have h1 : S.length < v.length := by omega
        have h2 : ¬ b.length < S.length := by omega
        simp only [horig, h1, h2, hSpre, hget, if_true, if_false, Option.some.injEq] at hcand
        have h3 : ¬ v.length < S.length := by omega
        simp [pathStop] at hc
        rcases hc with rfl | rfl
        · have hne : ¬ (cQuest = cHash) := by decide
          simp only [hne, if_false, if_true, hdrop] at hcand
          cases hcand
          exact hrp (path_of_quest_ref t')
        · simp only [if_true, h3, if_false, hdrop] at hcand
          cases hcand
          exact hrp (path_of_hash_ref t')

/-- RFC 3986 soundness for every base: the only exclusion is the empty reference for a base with a fragment -/
theorem relativize_sound_all (b v r : Str) (h : relativize b v = .some r)
    (h2 : (split b).fragment = none ∨ r ≠ []) : resolve b r = v := by
  obtain ⟨_, hchk, hcand⟩ := relativize_checked b v r h
  cases hroot : (newBaseIRI b).root with
  | none =>
    obtain ⟨hv, hf, hr⟩ := candidate_rel_base b v r hroot hcand
    have hnh := no_hash_of_fragmentIndex b hf
    rcases hr with ⟨f, rfl⟩ | ⟨hq, q, rfl⟩
    · rw [hv]; exact resolve_hash_suffix b f hnh
    · rw [hv]; exact resolve_quest_suffix b q hnh (no_quest_of_queryIndex b hf hq)
  | some rd =>
    have hrs : (newBaseIRI b).root.isSome := by rw [hroot]; rfl
    have hg := (hchk hrs).2
    unfold goResolve at hg
    simp only at hg
    split at hg
    · next hq1 =>
      exfalso
      apply quirk1_absurd b v r hcand hrs hq1.2.2.1 hq1.2.2.2.1 hq1.2.2.2.2.1
      rw [← hg]
      simp [recompose]
    · split at hg
      · next hq2 =>
        exfalso
        rw [recompose_split] at hg
        subst hg
        rcases h2 with h2 | h2
        · rw [h2] at hq2; simp at hq2
        · rcases candidate_self b with hc | hc
          · rw [hc] at hcand; cases hcand; exact h2 rfl
          · rw [hc] at hcand; cases hcand
      · exact hg

end RdfModel.Proofs.C13
