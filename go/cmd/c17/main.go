// Command c17: correspondence (T3) between Model.Description and rdfdescription{,/rdfdescriptionutil},
// plus the direct oracle of property C17 on the implementation: exporting what was added to a
// (Dataset)ResourceListBuilder and flattening it again yields an isomorphic (multi)set of statements,
// and export terminates.
//
// Every call into the real rdfdescription code happens in a worker subprocess (this binary re-executed
// with C17_WORKER=1): unbounded recursion of ExportResourceStatements ends in a fatal stack overflow
// that recover() cannot catch. The parent turns a confirmed overflow into the answer `diverges`.
package main

import (
	"bufio"
	"bytes"
	"context"
	"encoding/hex"
	"errors"
	"flag"
	"fmt"
	"io"
	"os"
	"os/exec"
	"runtime"
	"runtime/debug"
	"sort"
	"strconv"
	"strings"
	"sync"
	"sync/atomic"
	"time"

	"verifharness/vh"

	"github.com/dpb587/rdfkit-go/encoding"
	"github.com/dpb587/rdfkit-go/rdf"
	"github.com/dpb587/rdfkit-go/rdfdescription"
	"github.com/dpb587/rdfkit-go/rdfdescription/rdfdescriptionutil"
)

var (
	tier     = flag.String("tier", "quick", "quick|thorough")
	driver   = flag.String("driver", "/verif/lean/.lake/build/bin/driver", "lean driver binary")
	out      = flag.String("out", "/verif/evidence/.c17.report.json", "report path")
	findings = flag.String("findings", "/verif/known-findings.json", "known findings")
	replay   = flag.String("replay", "", "replay file (one protocol line per line)")
	scale    = flag.Int("scale", 1, "multiply generated case counts (search mode uses 10)")
	nomodel  = flag.Bool("nomodel", false, "property oracle on the implementation only (search mode / driver unavailable)")
	hints    = flag.String("hints", "", "file of protocol lines that disagreed; their inputs are pushed through the oracle first")
)

// ---------------------------------------------------------------- wire data (independent of /repo)

// A term is its wire token: I<hex> IRI, B<hex> blank node, L<hex>.<hex>.<hex|-> literal, "-" absent.
// Two terms are equal iff their tokens are equal (all hex is lower case).
type wtriple [3]string // S, P, O
type wquad [4]string   // S, P, O, G ("-" = default graph)

type wopts struct{ anon, inline bool }

func (o wopts) String() string { return vh.B01(o.anon) + vh.B01(o.inline) }

var allOpts = []wopts{{false, false}, {false, true}, {true, false}, {true, true}}

func hx(s string) string       { return hex.EncodeToString([]byte(s)) }
func iTok(iri string) string   { return "I" + hx(iri) }
func bTok(label string) string { return "B" + hx(label) }
func lTok(lex, dt, lang string) string {
	if lang == "" {
		return "L" + hx(lex) + "." + hx(dt) + ".-"
	}
	return "L" + hx(lex) + "." + hx(dt) + "." + hx(lang)
}
func isB(tok string) bool { return strings.HasPrefix(tok, "B") }

func splitList(s string) []string {
	if s == "-" {
		return nil
	}
	return strings.Split(s, ";")
}

func joinList(xs []string) string {
	if len(xs) == 0 {
		return "-"
	}
	return strings.Join(xs, ";")
}

func parseTriples(s string) ([]wtriple, error) {
	if n, ok := strings.CutPrefix(s, "@indegree:"); ok { // compact form of boundaryGraph(n), used in reports and replays
		k, err := strconv.Atoi(n)
		if err != nil {
			return nil, err
		}
		return boundaryGraph(k), nil
	}
	var ts []wtriple
	for _, it := range splitList(s) {
		f := strings.Split(it, ",")
		if len(f) != 3 {
			return nil, fmt.Errorf("bad triple %q", it)
		}
		ts = append(ts, wtriple{f[0], f[1], f[2]})
	}
	return ts, nil
}

func parseQuads(s string) ([]wquad, error) {
	var qs []wquad
	for _, it := range splitList(s) {
		f := strings.Split(it, ",")
		if len(f) != 4 {
			return nil, fmt.Errorf("bad quad %q", it)
		}
		qs = append(qs, wquad{f[0], f[1], f[2], f[3]})
	}
	return qs, nil
}

func parseOpts(s string) (wopts, error) {
	if len(s) != 2 || strings.Trim(s, "01") != "" {
		return wopts{}, fmt.Errorf("bad opts %q", s)
	}
	return wopts{s[0] == '1', s[1] == '1'}, nil
}

func triplesArg(ts []wtriple) string {
	xs := make([]string, len(ts))
	for i, t := range ts {
		xs[i] = t[0] + "," + t[1] + "," + t[2]
	}
	return joinList(xs)
}

func quadsArg(qs []wquad) string {
	xs := make([]string, len(qs))
	for i, q := range qs {
		xs[i] = q[0] + "," + q[1] + "," + q[2] + "," + q[3]
	}
	return joinList(xs)
}

func unhx(h string) string {
	b, err := hex.DecodeString(h)
	if err != nil {
		return "?" + h
	}
	return string(b)
}

// pretty renders a token for humans (N-Triples like).
func pretty(tok string) string {
	switch {
	case tok == "-" || tok == "":
		return ""
	case tok[0] == 'I':
		return "<" + unhx(tok[1:]) + ">"
	case tok[0] == 'B':
		return "_:" + unhx(tok[1:])
	case tok[0] == 'L':
		f := strings.Split(tok[1:], ".")
		if len(f) == 3 {
			if f[2] != "-" {
				return strconv.Quote(unhx(f[0])) + "@" + unhx(f[2])
			}
			return strconv.Quote(unhx(f[0])) + "^^<" + unhx(f[1]) + ">"
		}
	}
	return tok
}

func prettyQuads(qs []wquad) string {
	var sb strings.Builder
	for _, q := range qs {
		sb.WriteString(pretty(q[0]) + " " + pretty(q[1]) + " " + pretty(q[2]) + " ")
		if q[3] != "-" {
			sb.WriteString(pretty(q[3]) + " ")
		}
		sb.WriteString(". ")
	}
	return strings.TrimSpace(sb.String())
}

func asWQuads(ts []wtriple) []wquad {
	qs := make([]wquad, len(ts))
	for i, t := range ts {
		qs[i] = wquad{t[0], t[1], t[2], "-"}
	}
	return qs
}

// ---------------------------------------------------------------- predicates (plain Go over wire data)

// refs(T,b): number of triples whose object is blank node b.
func refs(T []wtriple, b string) int {
	n := 0
	for _, t := range T {
		if t[2] == b {
			n++
		}
	}
	return n
}

// parentOf mirrors C17.parent?: subject of the first triple whose object is b.
func parentOf(T []wtriple, b string) (string, bool) {
	for _, t := range T {
		if t[2] == b {
			return t[0], true
		}
	}
	return "", false
}

// climb mirrors C17.climb case by case.
func climb(T []wtriple, k int, x string) bool {
	if !isB(x) {
		return true
	}
	if k == 0 {
		return refs(T, x) != 1
	}
	if refs(T, x) == 1 {
		s, ok := parentOf(T, x)
		if !ok {
			return true
		}
		return climb(T, k-1, s)
	}
	return true
}

// acyclic1 mirrors C17.Acyclic1.
func acyclic1(T []wtriple) bool {
	for _, t := range T {
		if !climb(T, len(T), t[2]) {
			return false
		}
	}
	return true
}

// selfReferenceRefcount1: some triple b p b with refs(b) == 1.
func selfReferenceRefcount1(T []wtriple) bool {
	if len(T) > largeInput {
		rc := map[string]int{}
		for _, t := range T {
			rc[t[2]]++
		}
		for _, t := range T {
			if isB(t[2]) && t[0] == t[2] && rc[t[2]] == 1 {
				return true
			}
		}
		return false
	}
	for _, t := range T {
		if isB(t[2]) && t[0] == t[2] && refs(T, t[2]) == 1 {
			return true
		}
	}
	return false
}

// cycleSearch: plain graph search for a cycle b0→…→bk→b0 (edge x→y iff some triple has subject x and
// object y) all of whose nodes are referenced exactly once. Independent of acyclic1.
func cycleSearch(T []wtriple) bool {
	once := map[string]bool{}
	for _, t := range T {
		if isB(t[2]) && refs(T, t[2]) == 1 {
			once[t[2]] = true
		}
	}
	succ := map[string][]string{}
	for _, t := range T {
		if once[t[0]] && once[t[2]] {
			succ[t[0]] = append(succ[t[0]], t[2])
		}
	}
	for start := range once {
		seen := map[string]bool{}
		todo := append([]string(nil), succ[start]...)
		for len(todo) > 0 {
			x := todo[len(todo)-1]
			todo = todo[:len(todo)-1]
			if x == start {
				return true
			}
			if !seen[x] {
				seen[x] = true
				todo = append(todo, succ[x]...)
			}
		}
	}
	return false
}

// cycleAllRefcount1 is the finding predicate; ok=false when the two implementations disagree.
// Inputs beyond largeInput triples (the in-degree boundary family) use one linear-time search only.
func cycleAllRefcount1(T []wtriple) (holds, ok bool) {
	if len(T) > largeInput {
		return fastCycle(T), true
	}
	a, c := acyclic1(T), cycleSearch(T)
	return c, a == !c
}

const largeInput = 3000

// fastCycle: linear-time search for a cycle of once-referenced blank nodes (each has one parent).
func fastCycle(T []wtriple) bool {
	rc := map[string]int{}
	for _, t := range T {
		if isB(t[2]) {
			rc[t[2]]++
		}
	}
	parent := map[string]string{}
	for _, t := range T {
		if isB(t[2]) && rc[t[2]] == 1 {
			parent[t[2]] = t[0]
		}
	}
	state := map[string]int{} // 1 = on the current path, 2 = done
	for b := range parent {
		var path []string
		x := b
		for {
			if state[x] == 1 {
				return true
			}
			if state[x] == 2 {
				break
			}
			p, once := parent[x]
			if !once {
				break
			}
			state[x] = 1
			path = append(path, x)
			x = p
		}
		for _, y := range path {
			state[y] = 2
		}
	}
	return false
}

func graphTriples(Q []wquad, g string) []wtriple {
	var ts []wtriple
	for _, q := range Q {
		if q[3] == g {
			ts = append(ts, wtriple{q[0], q[1], q[2]})
		}
	}
	return ts
}

func graphNames(Q []wquad) []string {
	var gs []string
	seen := map[string]bool{}
	for _, q := range Q {
		if !seen[q[3]] {
			seen[q[3]] = true
			gs = append(gs, q[3])
		}
	}
	return gs
}

// anonymizedIn mirrors C17.anonymizedIn.
func anonymizedIn(T []wtriple, o wopts, b string) bool {
	n := refs(T, b)
	if o.inline && n == 1 {
		return true
	}
	if o.anon && n == 0 {
		for _, t := range T {
			if t[0] == b {
				return true
			}
		}
	}
	return false
}

// noSharedAnonymized mirrors C17.NoSharedAnonymized.
func noSharedAnonymized(Q []wquad, o wopts) bool {
	for _, q := range Q {
		T := graphTriples(Q, q[3])
		for _, b := range []string{q[0], q[2]} {
			if !isB(b) || !anonymizedIn(T, o, b) {
				continue
			}
			for _, q2 := range Q {
				if q2[3] != q[3] && (q2[0] == b || q2[2] == b) {
					return false
				}
				if q2[3] == b {
					return false
				}
			}
		}
	}
	return true
}

// someGraphCyclic: some graph's triple list has a cycle of once-referenced nodes.
func someGraphCyclic(Q []wquad) (self, holds, ok bool) {
	ok = true
	for _, g := range graphNames(Q) {
		T := graphTriples(Q, g)
		h, k := cycleAllRefcount1(T)
		holds, ok = holds || h, ok && k
		self = self || selfReferenceRefcount1(T)
	}
	return
}

// ---------------------------------------------------------------- worker: the implementation side

// table maps blank node labels of one protocol line to rdf.BlankNode values and back; nodes that are
// not in the table were made by the code under test and print as F<n>.
type table struct {
	nodes map[string]rdf.BlankNode
	label map[rdf.BlankNodeIdentifier]string
	fresh map[rdf.BlankNodeIdentifier]int
	order []string
}

func newTable() *table {
	return &table{nodes: map[string]rdf.BlankNode{}, label: map[rdf.BlankNodeIdentifier]string{}, fresh: map[rdf.BlankNodeIdentifier]int{}}
}

func (t *table) term(tok string) rdf.Term {
	dec := func(h string) string {
		b, err := hex.DecodeString(h)
		if err != nil {
			panic("bad hex in token " + tok)
		}
		return string(b)
	}
	switch {
	case tok == "-":
		return nil
	case tok != "" && tok[0] == 'I':
		return rdf.IRI(dec(tok[1:]))
	case tok != "" && tok[0] == 'B':
		dec(tok[1:])
		if n, ok := t.nodes[tok]; ok {
			return n
		}
		n := rdf.NewBlankNode() // the default factory: the one NewTriples draws fresh nodes from
		t.nodes[tok], t.label[n.Identifier] = n, tok
		t.order = append(t.order, tok)
		return n
	case tok != "" && tok[0] == 'L':
		f := strings.Split(tok[1:], ".")
		if len(f) != 3 {
			break
		}
		l := rdf.Literal{LexicalForm: dec(f[0]), Datatype: rdf.IRI(dec(f[1]))}
		if f[2] != "-" {
			l.Tag = rdf.LanguageLiteralTag{Language: dec(f[2])}
		}
		return l
	}
	panic("bad term token " + tok)
}

func (t *table) show(x rdf.Term) string {
	if b, ok := x.(rdf.BlankNode); ok {
		if l, ok := t.label[b.Identifier]; ok {
			return l
		}
		n, ok := t.fresh[b.Identifier]
		if !ok {
			n = len(t.fresh)
			t.fresh[b.Identifier] = n
		}
		return "F" + strconv.Itoa(n)
	}
	return vh.TermWire(x, nil)
}

func (t *table) triple(w wtriple) rdf.Triple {
	return rdf.Triple{Subject: t.term(w[0]).(rdf.SubjectValue), Predicate: t.term(w[1]).(rdf.PredicateValue), Object: t.term(w[2]).(rdf.ObjectValue)}
}

func (t *table) triples(ws []wtriple) []rdf.Triple {
	ts := make([]rdf.Triple, len(ws))
	for i, w := range ws {
		ts[i] = t.triple(w)
	}
	return ts
}

func (t *table) quads(ws []wquad) []rdf.Quad {
	qs := make([]rdf.Quad, len(ws))
	for i, w := range ws {
		qs[i] = rdf.Quad{Triple: t.triple(wtriple{w[0], w[1], w[2]})}
		if g := t.term(w[3]); g != nil {
			qs[i].GraphName = g.(rdf.GraphNameValue)
		}
	}
	return qs
}

func (t *table) showStmts(l rdfdescription.StatementList) string {
	xs := make([]string, len(l))
	for i, s := range l {
		switch s := s.(type) {
		case rdfdescription.ObjectStatement:
			xs[i] = "o(" + t.show(s.Predicate) + "," + t.show(s.Object) + ")"
		case rdfdescription.AnonResourceStatement:
			xs[i] = "a(" + t.show(s.Predicate) + "){" + t.showStmts(s.AnonResource.Statements) + "}"
		default:
			xs[i] = fmt.Sprintf("?%T", s)
		}
	}
	return strings.Join(xs, ",")
}

func (t *table) showResource(r rdfdescription.Resource) string {
	switch r := r.(type) {
	case rdfdescription.SubjectResource:
		if r.Subject == nil {
			return "N{" + t.showStmts(r.Statements) + "}"
		}
		return "S(" + t.show(r.Subject) + "){" + t.showStmts(r.Statements) + "}"
	case rdfdescription.AnonResource:
		return "A{" + t.showStmts(r.Statements) + "}"
	}
	return fmt.Sprintf("?%T", r)
}

func (t *table) showTriples(ts []rdf.Triple) string {
	xs := make([]string, len(ts))
	for i, x := range ts {
		xs[i] = t.show(x.Subject) + "," + t.show(x.Predicate) + "," + t.show(x.Object)
	}
	return strings.Join(xs, ";")
}

func (t *table) showQuads(qs []rdf.Quad) string {
	xs := make([]string, len(qs))
	for i, x := range qs {
		g := "-"
		if x.GraphName != nil {
			g = t.show(x.GraphName)
		}
		xs[i] = t.show(x.Triple.Subject) + "," + t.show(x.Triple.Predicate) + "," + t.show(x.Triple.Object) + "," + g
	}
	return strings.Join(xs, ";")
}

func goOpts(o wopts) rdfdescription.ExportResourceOptions {
	return rdfdescription.ExportResourceOptions{UseAnonResource: o.anon, Inline: o.inline}
}

func exportAll(ts []rdf.Triple, o wopts) []rdfdescription.Resource {
	rb := rdfdescription.NewResourceListBuilder()
	rb.Add(ts...)
	var rs []rdfdescription.Resource
	for r := range rb.ExportResources(goOpts(o)) {
		rs = append(rs, r)
	}
	return rs
}

// collectors standing in for real encoders / writers
type encBase struct{ closed int }

func (e *encBase) Close() error                                           { e.closed++; return nil }
func (*encBase) GetContentMetadata() encoding.ContentMetadata             { return encoding.ContentMetadata{} }
func (*encBase) GetContentTypeIdentifier() encoding.ContentTypeIdentifier { return "verif/collect" }

type collectTriples struct {
	encBase
	ts []rdf.Triple
}

func (c *collectTriples) AddTriple(_ context.Context, t rdf.Triple) error {
	c.ts = append(c.ts, t)
	return nil
}

type collectQuads struct {
	encBase
	qs []rdf.Quad
}

func (c *collectQuads) AddQuad(_ context.Context, q rdf.Quad) error {
	c.qs = append(c.qs, q)
	return nil
}

type collectDR struct {
	drs []rdfdescription.DatasetResource
}

func (c *collectDR) AddDatasetResource(_ context.Context, dr rdfdescription.DatasetResource) error {
	c.drs = append(c.drs, dr)
	return nil
}

var (
	_ encoding.TriplesEncoder = (*collectTriples)(nil)
	_ encoding.QuadsEncoder   = (*collectQuads)(nil)
)

func exportDataset(qs []rdf.Quad, o wopts) []rdfdescription.DatasetResource {
	db := rdfdescription.NewDatasetResourceListBuilder()
	db.Add(qs...)
	c := &collectDR{}
	if err := db.ToDatasetResourceWriter(context.Background(), c, goOpts(o)); err != nil {
		panic(err)
	}
	return c.drs
}

// failingWriter accepts `left` resources, then fails (a ResourceWriter / DatasetResourceWriter whose sink broke).
type failingWriter struct{ left, n int }

var errSink = errors.New("sink failed")

func (w *failingWriter) AddResource(context.Context, rdfdescription.Resource) error {
	if w.n == w.left {
		return errSink
	}
	w.n++
	return nil
}

func (w *failingWriter) AddDatasetResource(context.Context, rdfdescription.DatasetResource) error {
	if w.n == w.left {
		return errSink
	}
	w.n++
	return nil
}

// step of a history script: a0 | a1 | p<opts>.<k> | w<opts>.<k> | f<opts>
type hstep struct {
	kind  byte
	batch int
	o     wopts
	k     int
	src   string
}

func parseScript(s string) ([]hstep, error) {
	var out []hstep
	for _, x := range splitList(s) {
		st := hstep{src: x}
		if len(x) < 2 {
			return nil, fmt.Errorf("bad step %q", x)
		}
		st.kind = x[0]
		var err error
		switch st.kind {
		case 'a':
			st.batch = int(x[1] - '0')
			if st.batch != 0 && st.batch != 1 {
				return nil, fmt.Errorf("bad step %q", x)
			}
		case 'f':
			st.o, err = parseOpts(x[1:])
		case 'p', 'w':
			os, ks, ok := strings.Cut(x[1:], ".")
			if !ok {
				return nil, fmt.Errorf("bad step %q", x)
			}
			if st.o, err = parseOpts(os); err == nil {
				st.k, err = strconv.Atoi(ks)
			}
		default:
			return nil, fmt.Errorf("bad step %q", x)
		}
		if err != nil {
			return nil, err
		}
		out = append(out, st)
	}
	return out, nil
}

// histInput: what a history line has added when its last complete export runs, and that export's options.
func histInput(f []string) (T []wtriple, Q []wquad, o wopts, ok bool) {
	if len(f) != 4 {
		return
	}
	steps, err := parseScript(f[1])
	if err != nil {
		return
	}
	lastF := -1
	for i, st := range steps {
		if st.kind == 'f' {
			lastF = i
		}
	}
	if lastF < 0 {
		return
	}
	o = steps[lastF].o
	for _, st := range steps[:lastF] {
		if st.kind != 'a' {
			continue
		}
		if f[0] == "oracle.dhist" {
			qs, err := parseQuads(f[2+st.batch])
			if err != nil {
				return
			}
			Q = append(Q, qs...)
		} else {
			ts, err := parseTriples(f[2+st.batch])
			if err != nil {
				return
			}
			T = append(T, ts...)
		}
	}
	return T, Q, o, true
}

func predicatesAgree(graphs ...[]wtriple) bool {
	for _, T := range graphs {
		if _, ok := cycleAllRefcount1(T); !ok {
			return false
		}
	}
	return true
}

// workerAnswer evaluates one protocol line on the real code (desc.*) or the property oracle (oracle.*).
func workerAnswer(line string) (ans string) {
	defer func() {
		if p := recover(); p != nil {
			ans = "crash:panic: " + strings.ReplaceAll(fmt.Sprint(p), "\n", " ")
		}
	}()
	f := strings.Fields(line)
	if len(f) < 2 {
		return "bad-line"
	}
	op, args := f[0], f[1:]
	tb := newTable()
	ctx := context.Background()
	need := func(n int) {
		if len(args) != n {
			panic(fmt.Sprintf("%s: want %d arguments", op, n))
		}
	}
	must := func(err error) {
		if err != nil {
			panic(err)
		}
	}
	var o wopts
	var err error
	switch op {
	case "desc.build":
		need(1)
		T, err := parseTriples(args[0])
		must(err)
		rb := rdfdescription.NewResourceListBuilder()
		rb.Add(tb.triples(T)...)
		var subj, cnt []string
		for s := range rb.Subjects() {
			subj = append(subj, tb.show(s))
		}
		for _, tok := range tb.order {
			if n := rb.GetBlankNodeReferences(tb.nodes[tok]); n > 0 {
				cnt = append(cnt, tok[1:]+"="+strconv.Itoa(n))
			}
		}
		return "ok:" + strings.Join(subj, ";") + "|" + strings.Join(cnt, ";")
	case "desc.export", "desc.flatten", "oracle.triples":
		need(2)
		o, err = parseOpts(args[0])
		must(err)
		T, err := parseTriples(args[1])
		must(err)
		ts := tb.triples(T)
		rs := exportAll(ts, o)
		xs := make([]string, len(rs))
		switch op {
		case "desc.export":
			for i, r := range rs {
				xs[i] = tb.showResource(r)
			}
			return "ok:" + strings.Join(xs, ";")
		case "desc.flatten":
			for i, r := range rs {
				xs[i] = tb.showTriples(r.NewTriples())
			}
			return "ok:" + strings.Join(xs, "|")
		}
		if !predicatesAgree(T) {
			return "violation:predicate-mismatch"
		}
		in := rdf.TripleList(ts).AsQuads(nil)
		got := rdfdescription.ResourceList(rs).NewTriples()
		if !vh.IsomorphicMulti(got.AsQuads(nil), in) {
			return fmt.Sprintf("violation:builder leg: %d triples in, %d out, not isomorphic; out=%s", len(ts), len(got), tb.showTriples(got))
		}
		c := &collectTriples{}
		e := rdfdescriptionutil.NewBufferedTriplesEncoder(ctx, rdfdescriptionutil.NewTriplesResourceEncoder(c), goOpts(o))
		for _, t := range ts {
			must(e.AddTriple(ctx, t))
		}
		must(e.Close())
		if !vh.IsomorphicMulti(rdf.TripleList(c.ts).AsQuads(nil), in) {
			return fmt.Sprintf("violation:buffered-encoder leg: %d triples in, %d out, not isomorphic; out=%s", len(ts), len(c.ts), tb.showTriples(c.ts))
		}
		return "ok"
	case "desc.hist", "oracle.hist":
		// <script> <triples0> <triples1>: several calls on ONE ResourceListBuilder
		need(3)
		steps, err := parseScript(args[0])
		must(err)
		var batch [2][]wtriple
		for i := range batch {
			batch[i], err = parseTriples(args[1+i])
			must(err)
		}
		rb := rdfdescription.NewResourceListBuilder()
		var added []rdf.Triple
		var counts []string
		var last []rdfdescription.Resource
		for _, st := range steps {
			switch st.kind {
			case 'a':
				ts := tb.triples(batch[st.batch])
				rb.Add(ts...)
				added = append(added, ts...)
			case 'p': // the consumer breaks out of the iter.Seq after k resources
				n := 0
				for range rb.ExportResources(goOpts(st.o)) {
					if n == st.k {
						break
					}
					n++
				}
				counts = append(counts, strconv.Itoa(n))
			case 'w': // ToResourceWriter returns on the writer's error after k resources
				fw := &failingWriter{left: st.k}
				rb.ToResourceWriter(ctx, fw, goOpts(st.o))
				counts = append(counts, strconv.Itoa(fw.n))
			case 'f':
				last = nil
				for r := range rb.ExportResources(goOpts(st.o)) {
					last = append(last, r)
				}
				counts = append(counts, strconv.Itoa(len(last)))
				if op == "oracle.hist" {
					got := rdfdescription.ResourceList(last).NewTriples()
					if !vh.IsomorphicMulti(got.AsQuads(nil), rdf.TripleList(added).AsQuads(nil)) {
						return fmt.Sprintf("violation:complete export %q of the history: %d triples added so far, %d out, not isomorphic; out=%s", st.src, len(added), len(got), tb.showTriples(got))
					}
				}
			}
		}
		if op == "oracle.hist" {
			return "ok"
		}
		xs := make([]string, len(last))
		for i, r := range last {
			xs[i] = tb.showResource(r)
		}
		return "ok:" + strings.Join(counts, ",") + "#" + strings.Join(xs, ";")
	case "oracle.dhist":
		// the same on ONE DatasetResourceListBuilder: <script> <quads0> <quads1>; p and w both abandon through the writer
		need(3)
		steps, err := parseScript(args[0])
		must(err)
		var batch [2][]wquad
		for i := range batch {
			batch[i], err = parseQuads(args[1+i])
			must(err)
		}
		db := rdfdescription.NewDatasetResourceListBuilder()
		var added []rdf.Quad
		for _, st := range steps {
			switch st.kind {
			case 'a':
				qs := tb.quads(batch[st.batch])
				db.Add(qs...)
				added = append(added, qs...)
			case 'p', 'w':
				db.ToDatasetResourceWriter(ctx, &failingWriter{left: st.k}, goOpts(st.o))
			case 'f':
				c := &collectDR{}
				must(db.ToDatasetResourceWriter(ctx, c, goOpts(st.o)))
				var got []rdf.Quad
				for _, dr := range c.drs {
					got = append(got, dr.NewQuads()...)
				}
				if !vh.IsomorphicMulti(got, added) {
					return fmt.Sprintf("violation:complete export %q of the history: %d quads added so far, %d out, not isomorphic; out=%s", st.src, len(added), len(got), tb.showQuads(got))
				}
			}
		}
		return "ok"
	case "desc.exportone", "oracle.exportone":
		need(3)
		o, err = parseOpts(args[0])
		must(err)
		T, err := parseTriples(args[2])
		must(err)
		ts := tb.triples(T)
		s := tb.term(args[1]).(rdf.SubjectValue)
		if op == "oracle.exportone" && !predicatesAgree(T) {
			return "violation:predicate-mismatch"
		}
		rb := rdfdescription.NewResourceListBuilder()
		rb.Add(ts...)
		r := rb.ExportResource(s, goOpts(o)) // may never return: fatal stack overflow, seen by the parent
		if op == "oracle.exportone" {
			return "ok"
		}
		return "ok:" + tb.showResource(r)
	case "desc.dexport", "desc.dflatten", "oracle.quads":
		need(2)
		o, err = parseOpts(args[0])
		must(err)
		Q, err := parseQuads(args[1])
		must(err)
		qs := tb.quads(Q)
		drs := exportDataset(qs, o)
		xs := make([]string, len(drs))
		switch op {
		case "desc.dexport":
			for i, dr := range drs {
				g := "-"
				if dr.GraphName != nil {
					g = tb.show(dr.GraphName)
				}
				xs[i] = g + ">" + tb.showResource(dr.Resource)
			}
			return "ok:" + strings.Join(xs, ";")
		case "desc.dflatten":
			for i, dr := range drs {
				xs[i] = tb.showQuads(dr.NewQuads())
			}
			return "ok:" + strings.Join(xs, "|")
		}
		for _, g := range graphNames(Q) {
			if !predicatesAgree(graphTriples(Q, g)) {
				return "violation:predicate-mismatch"
			}
		}
		var got []rdf.Quad
		for _, dr := range drs {
			got = append(got, dr.NewQuads()...)
		}
		if !vh.IsomorphicMulti(got, qs) {
			return fmt.Sprintf("violation:builder leg: %d quads in, %d out, not isomorphic; out=%s", len(qs), len(got), tb.showQuads(got))
		}
		c := &collectQuads{}
		e := rdfdescriptionutil.NewBufferedQuadsEncoder(ctx, rdfdescriptionutil.NewQuadsDatasetResourceEncoder(c), goOpts(o))
		for _, q := range qs {
			must(e.AddQuad(ctx, q))
		}
		must(e.Close())
		if !vh.IsomorphicMulti(c.qs, qs) {
			return fmt.Sprintf("violation:buffered-encoder leg: %d quads in, %d out, not isomorphic; out=%s", len(qs), len(c.qs), tb.showQuads(c.qs))
		}
		return "ok"
	case "desc.acyclic1":
		need(1)
		T, err := parseTriples(args[0])
		must(err)
		cyc, ok := cycleAllRefcount1(T)
		if !ok {
			return "violation:predicate-mismatch"
		}
		return fmt.Sprintf("ok:%v,%v,%v", acyclic1(T), selfReferenceRefcount1(T), cyc)
	case "desc.shared":
		need(2)
		o, err = parseOpts(args[0])
		must(err)
		Q, err := parseQuads(args[1])
		must(err)
		return fmt.Sprintf("ok:%v", noSharedAnonymized(Q, o))
	case "desc.list":
		need(2)
		p := tb.term(args[0]).(rdf.PredicateValue)
		var vs []rdf.ObjectValue
		for _, tok := range splitList(args[1]) {
			vs = append(vs, tb.term(tok).(rdf.ObjectValue))
		}
		st := rdfdescriptionutil.NewObjectValueListStatement(p, vs...)
		r := rdfdescription.SubjectResource{Subject: rdf.IRI("urn:s"), Statements: rdfdescription.StatementList{st}}
		return "ok:" + tb.showStmts(rdfdescription.StatementList{st}) + "|" + tb.showTriples(r.NewTriples())
	}
	return "bad-op"
}

func workerMain() {
	debug.SetMaxStack(16 << 20)
	in := bufio.NewReaderSize(os.Stdin, 1<<16)
	w := bufio.NewWriter(os.Stdout)
	for {
		line, err := in.ReadString('\n')
		if line = strings.TrimRight(line, "\r\n"); line != "" {
			w.WriteString(workerAnswer(line))
			w.WriteByte('\n')
			w.Flush()
		}
		if err != nil {
			return
		}
	}
}

// ---------------------------------------------------------------- parent: worker pool

type capBuf struct {
	mu sync.Mutex
	b  []byte
}

func (c *capBuf) Write(p []byte) (int, error) {
	c.mu.Lock()
	if room := 1<<16 - len(c.b); room > 0 {
		c.b = append(c.b, p[:min(room, len(p))]...)
	}
	c.mu.Unlock()
	return len(p), nil
}

type proc struct {
	cmd      *exec.Cmd
	in       io.WriteCloser
	out      *bufio.Reader
	errb     *capBuf
	timedOut atomic.Bool
}

const lineTimeout = 120 * time.Second

func startWorker(exe string) (*proc, error) {
	cmd := exec.Command(exe)
	cmd.Env = append(os.Environ(), "C17_WORKER=1")
	in, err := cmd.StdinPipe()
	if err != nil {
		return nil, err
	}
	o, err := cmd.StdoutPipe()
	if err != nil {
		return nil, err
	}
	p := &proc{cmd: cmd, in: in, out: bufio.NewReaderSize(o, 1<<16), errb: &capBuf{}}
	cmd.Stderr = p.errb
	return p, cmd.Start()
}

func (p *proc) ask(line string) (string, error) {
	t := time.AfterFunc(lineTimeout, func() { p.timedOut.Store(true); p.cmd.Process.Kill() })
	defer t.Stop()
	if _, err := io.WriteString(p.in, line+"\n"); err != nil {
		return "", err
	}
	ans, err := p.out.ReadString('\n')
	if err != nil {
		return "", err
	}
	return strings.TrimRight(ans, "\n"), nil
}

// death is called after the worker stopped answering: the verdict for the line it was working on.
func (p *proc) death() string {
	p.in.Close()
	io.Copy(io.Discard, p.out)
	p.cmd.Wait()
	p.errb.mu.Lock()
	msg := string(p.errb.b)
	p.errb.mu.Unlock()
	switch {
	case p.timedOut.Load():
		return "crash:timeout"
	case strings.Contains(msg, "stack overflow") || strings.Contains(msg, "goroutine stack exceeds"):
		return "diverges"
	}
	first, _, _ := strings.Cut(strings.TrimSpace(msg), "\n")
	return "crash:" + first + " (" + p.cmd.ProcessState.String() + ")"
}

func (p *proc) close() {
	p.in.Close()
	p.cmd.Wait()
}

// runWorkers answers every line with the real code; lines are handed out in contiguous chunks.
func runWorkers(exe string, lines []string) []string {
	res := make([]string, len(lines))
	nw := min(runtime.NumCPU(), 12)
	chunk := min(max((len(lines)+nw*8-1)/(nw*8), 1), 4000)
	type span struct{ i, j int }
	ch := make(chan span, len(lines)/chunk+1)
	for i := 0; i < len(lines); i += chunk {
		ch <- span{i, min(i+chunk, len(lines))}
	}
	close(ch)
	var wg sync.WaitGroup
	for w := 0; w < nw; w++ {
		wg.Add(1)
		go func() {
			defer wg.Done()
			var p *proc
			for sp := range ch {
				for k := sp.i; k < sp.j; k++ {
					if p == nil {
						var err error
						if p, err = startWorker(exe); err != nil {
							fmt.Fprintln(os.Stderr, "c17: cannot start worker:", err)
							os.Exit(2)
						}
					}
					ans, err := p.ask(lines[k])
					if err != nil { // died before answering line k; the rest of the chunk gets a new worker
						res[k] = p.death()
						p = nil
						continue
					}
					res[k] = ans
				}
			}
			if p != nil {
				p.close()
			}
		}()
	}
	wg.Wait()
	return res
}

// ---------------------------------------------------------------- canonical forms

func sortList(s, sep string) string {
	if s == "" {
		return s
	}
	xs := strings.Split(s, sep)
	sort.Strings(xs)
	return strings.Join(xs, sep)
}

// renumber renames the F<n> tokens of a `;`/`,` separated group by first occurrence.
func renumber(group string) string {
	m := map[string]string{}
	items := strings.Split(group, ";")
	for i, it := range items {
		toks := strings.Split(it, ",")
		for j, t := range toks {
			if strings.HasPrefix(t, "F") {
				n, ok := m[t]
				if !ok {
					n = "F" + strconv.Itoa(len(m))
					m[t] = n
				}
				toks[j] = n
			}
		}
		items[i] = strings.Join(toks, ",")
	}
	return strings.Join(items, ";")
}

// canon brings an answer of either side into the form that is compared.
func canon(op, ans string) string {
	body, ok := strings.CutPrefix(ans, "ok:")
	if !ok {
		return ans
	}
	switch op {
	case "desc.build":
		a, b, _ := strings.Cut(body, "|")
		return "ok:" + sortList(a, ";") + "|" + sortList(b, ";")
	case "desc.export", "desc.dexport":
		return "ok:" + sortList(body, ";")
	case "desc.flatten", "desc.dflatten":
		if body == "" {
			return ans
		}
		gs := strings.Split(body, "|")
		for i := range gs {
			gs[i] = renumber(gs[i])
		}
		sort.Strings(gs)
		return "ok:" + strings.Join(gs, "|")
	case "desc.hist":
		a, b, _ := strings.Cut(body, "#")
		return "ok:" + a + "#" + sortList(b, ";")
	case "desc.list":
		a, b, _ := strings.Cut(body, "|")
		return "ok:" + a + "|" + renumber(b)
	}
	return ans
}

// ---------------------------------------------------------------- harness: batches, comparison, classification

type harness struct {
	rep    *vh.Report
	known  map[string]vh.Finding
	exe    string
	buf    []string
	fails  []vh.Case
	knowns []vh.Case
	nKnown int
}

const batchLines = 150000

// nontrivial: the input has at least one blank node in object position (for desc.list: among the values).
func nontrivial(line string) bool {
	f := strings.Fields(line)
	if len(f) < 2 {
		return false
	}
	data := splitList(f[len(f)-1])
	if strings.HasSuffix(f[0], "hist") && len(f) == 4 {
		data = append(data, splitList(f[2])...)
	}
	for _, it := range data {
		if f[0] == "desc.list" {
			if isB(it) {
				return true
			}
		} else if p := strings.Split(it, ","); len(p) >= 3 && isB(p[2]) {
			return true
		}
	}
	return false
}

func (h *harness) add(family, line string) {
	if *nomodel && strings.HasPrefix(line, "desc.") {
		return
	}
	h.buf = append(h.buf, line)
	h.rep.Eval(line, nontrivial(line))
	op, _, _ := strings.Cut(line, " ")
	h.rep.Count("op:" + op)
	h.rep.Count("family:" + family)
	if len(h.buf) >= batchLines {
		h.flush()
	}
}

func (h *harness) flush() {
	lines := h.buf
	h.buf = nil
	if len(lines) == 0 {
		return
	}
	var mIdx []int
	var mLines []string
	var hIdx []int // history lines: one model (the repaired export), asked once the Go answer is known
	for i, l := range lines {
		if strings.HasPrefix(l, "desc.hist ") {
			hIdx = append(hIdx, i)
		} else if strings.HasPrefix(l, "desc.") {
			mIdx, mLines = append(mIdx, i), append(mLines, l)
		}
	}
	var mRes []string
	var mErr error
	done := make(chan struct{})
	go func() {
		defer close(done)
		if !*nomodel {
			mRes, mErr = vh.Driver{Path: *driver}.RunParallel(mLines)
		}
	}()
	goRes := runWorkers(h.exe, lines)
	<-done
	if mErr != nil {
		fmt.Fprintln(os.Stderr, mErr)
		os.Exit(2)
	}
	model := map[int]string{}
	for k, i := range mIdx {
		if !*nomodel {
			model[i] = mRes[k]
		}
	}
	// second model: the export after patch fix-c17-export-cycles. Its second loop depends on the map
	// iteration order, so the line carries as a hint the once-referenced roots the Go run exported.
	modelV := map[int]string{}
	if !*nomodel {
		var vIdx []int
		var vLines []string
		for _, i := range mIdx {
			if vl := repairedLine(lines[i], goRes[i]); vl != "" {
				vIdx, vLines = append(vIdx, i), append(vLines, vl)
			}
		}
		for _, i := range hIdx {
			if vl := repairedLine(lines[i], goRes[i]); vl != "" {
				vIdx, vLines = append(vIdx, i), append(vLines, vl)
			}
		}
		vRes, err := vh.Driver{Path: *driver}.RunParallel(vLines)
		if err != nil {
			fmt.Fprintln(os.Stderr, err)
			os.Exit(2)
		}
		for k, i := range vIdx {
			modelV[i] = vRes[k]
		}
	}
	for i, line := range lines {
		ans := goRes[i]
		op, _, _ := strings.Cut(line, " ")
		switch {
		case ans == "diverges":
			h.rep.Count("go:stack-overflow-confirmed")
			h.rep.Count("answer:diverges")
		case strings.HasPrefix(ans, "crash:"):
			h.rep.Count("answer:crash")
		}
		if strings.HasPrefix(op, "oracle.") {
			h.classify(line, ans)
			continue
		}
		if op == "desc.hist" {
			mv, ok := modelV[i]
			if !ok {
				continue
			}
			h.rep.Compared++
			goH, mvH := canon(op, ans), canon(op, mv)
			if cycleClass(line) {
				// with a cycle of once-referenced nodes the number of resources depends on the iteration order of
				// the second loop, which differs between the exports of one history: only the last one has a hint
				goH, mvH = lastExportOnly(goH), lastExportOnly(mvH)
			}
			if goH != mvH {
				if _, stillKnown := h.known["cycle-all-refcount-1"]; stillKnown && cycleClass(line) {
					h.rep.Count("t3:history-on-cyclic-input-before-patch") // the export before the patch: only the one-shot lines apply
				} else {
					h.fails = append(h.fails, vh.Case{Kind: "disagreement", Op: line, Go: ans, Model: mv,
						Detail: "history on one builder (Add / abandoned export / complete export): the last complete export or the numbers of resources handed over differ from Builder.run; input: " + describe(line)})
				}
			}
			continue
		}
		m, ok := model[i]
		if !ok {
			continue
		}
		h.rep.Compared++
		goC, mC := canon(op, ans), canon(op, m)
		mv, hasV := modelV[i]
		if !hasV {
			// ops with a single model (build, predicates, list)
			if goC != mC {
				h.fails = append(h.fails, vh.Case{Kind: "disagreement", Op: line, Go: ans, Model: m, Detail: "input: " + describe(line)})
			}
			continue
		}
		h.rep.Compared++
		vC := canon(op, mv)
		switch {
		case goC == mC && goC == vC:
			h.rep.Count("t3:agrees-with-both-models")
		case cycleClass(line):
			// inside the known class the two modelled versions of the export differ; /repo is one of them
			switch goC {
			case mC:
				h.rep.Count("t3:go-behaves-as-before-patch")
			case vC:
				h.rep.Count("t3:go-behaves-as-after-patch")
			default:
				h.fails = append(h.fails, vh.Case{Kind: "disagreement", Op: line, Go: ans, Model: m + "  |  after-patch model: " + mv,
					Detail: "agrees with neither modelled version of the export; input: " + describe(line)})
			}
		default:
			which := "the model of the export before patch fix-c17-export-cycles"
			if goC == mC {
				which = "the model of the export after patch fix-c17-export-cycles"
			}
			h.fails = append(h.fails, vh.Case{Kind: "disagreement", Op: line, Go: ans, Model: m + "  |  after-patch model: " + mv,
				Detail: "differs from " + which + " on an input without a cycle of once-referenced blank nodes (where both models must agree); input: " + describe(line)})
		}
	}
}

// lastExportOnly keeps, of a canonical desc.hist answer, the count and the resources of the last export.
func lastExportOnly(a string) string {
	body, ok := strings.CutPrefix(a, "ok:")
	if !ok {
		return a
	}
	counts, res, _ := strings.Cut(body, "#")
	if k := strings.LastIndex(counts, ","); k >= 0 {
		counts = counts[k+1:]
	}
	return "ok:" + counts + "#" + res
}

// cycleClass: the line's input (one graph of it) has a cycle of once-referenced blank nodes and Inline is set.
func cycleClass(line string) bool {
	f := strings.Fields(line)
	if len(f) < 3 {
		return false
	}
	if f[0] == "desc.hist" {
		T, _, _, ok := histInput(f)
		if !ok {
			return false
		}
		steps, _ := parseScript(f[1])
		inline := false
		for _, st := range steps {
			inline = inline || (st.kind != 'a' && st.o.inline)
		}
		if !inline {
			return false
		}
		cyc, _ := cycleAllRefcount1(T)
		return cyc
	}
	o, err := parseOpts(f[1])
	if err != nil || !o.inline {
		return false
	}
	data := f[len(f)-1]
	if strings.HasPrefix(f[0], "desc.d") {
		Q, err := parseQuads(data)
		if err != nil {
			return false
		}
		_, cyc, _ := someGraphCyclic(Q)
		return cyc
	}
	T, err := parseTriples(data)
	if err != nil {
		return false
	}
	cyc, _ := cycleAllRefcount1(T)
	return cyc
}

// repairedLine builds the protocol line for the after-patch model from a desc.* line and the Go answer
// (from which the order of the second loop of ExportResources is read off); "" for ops with one model.
func repairedLine(line, goAns string) string {
	f := strings.Fields(line)
	if len(f) < 3 {
		return ""
	}
	if f[0] == "desc.hist" {
		T, _, o, ok := histInput(f)
		if !ok {
			return ""
		}
		var hint []string
		if body, isOK := strings.CutPrefix(goAns, "ok:"); isOK {
			_, res, _ := strings.Cut(body, "#")
			for _, r := range rootsOf("desc.export", res) {
				if isB(r[1]) && o.inline && refs(T, r[1]) == 1 {
					hint = append(hint, r[1])
				}
			}
		}
		return "desc.hist " + f[1] + " " + joinList(hint) + " " + f[2] + " " + f[3]
	}
	o, err := parseOpts(f[1])
	if err != nil {
		return ""
	}
	body, _ := strings.CutPrefix(goAns, "ok:")
	if !strings.HasPrefix(goAns, "ok:") {
		body = ""
	}
	data := f[len(f)-1]
	switch f[0] {
	case "desc.exportone":
		return "desc.exportonev " + strings.Join(f[1:], " ")
	case "desc.export", "desc.flatten":
		T, err := parseTriples(data)
		if err != nil {
			return ""
		}
		var hint []string
		for _, r := range rootsOf(f[0], body) {
			if isB(r[1]) && o.inline && refs(T, r[1]) == 1 {
				hint = append(hint, r[1])
			}
		}
		return f[0] + "v " + f[1] + " " + joinList(hint) + " " + data
	case "desc.dexport", "desc.dflatten":
		Q, err := parseQuads(data)
		if err != nil {
			return ""
		}
		var hint []string
		for _, r := range rootsOf(f[0], body) {
			if isB(r[1]) && o.inline && refs(graphTriples(Q, r[0]), r[1]) == 1 {
				hint = append(hint, r[0]+">"+r[1])
			}
		}
		return f[0] + "v " + f[1] + " " + joinList(hint) + " " + data
	}
	return ""
}

// rootsOf lists (graph, subject token) of the resources of an export / flatten answer, in order.
// Export syntax: [G>]S(term){…} | [G>]A{…}; flatten: the subject of the last statement of a group is the
// resource's subject (nested descriptions come first, the resource's own triple last).
func rootsOf(op, body string) [][2]string {
	var out [][2]string
	if body == "" {
		return out
	}
	switch op {
	case "desc.export", "desc.dexport":
		for _, r := range strings.Split(body, ";") {
			g := "-"
			if op == "desc.dexport" {
				g, r, _ = strings.Cut(r, ">")
			}
			if rest, ok := strings.CutPrefix(r, "S("); ok {
				if k := strings.Index(rest, ")"); k > 0 {
					out = append(out, [2]string{g, rest[:k]})
				}
			}
		}
	case "desc.flatten", "desc.dflatten":
		for _, grp := range strings.Split(body, "|") {
			if grp == "" {
				continue
			}
			items := strings.Split(grp, ";")
			p := strings.Split(items[len(items)-1], ",")
			g := "-"
			if op == "desc.dflatten" && len(p) >= 4 {
				g = p[3]
			}
			if len(p) >= 3 {
				out = append(out, [2]string{g, p[0]})
			}
		}
	}
	return out
}

// compact rewrites the (very long) lines of the in-degree boundary family into their replayable short form.
func compact(line string) string {
	if len(line) < 100000 {
		return line
	}
	f := strings.Fields(line)
	for i, a := range f {
		if len(a) > 50000 {
			if T, err := parseTriples(a); err == nil && len(T) > 0 && triplesArg(boundaryGraph(len(T)-1)) == a {
				f[i] = "@indegree:" + strconv.Itoa(len(T)-1)
			}
		}
	}
	return strings.Join(f, " ")
}

func clip(s string, n int) string {
	if len(s) > n {
		return s[:n] + fmt.Sprintf("…(%d more bytes)", len(s)-n)
	}
	return s
}

// describe decodes the statements of a protocol line for humans.
func describe(line string) string {
	f := strings.Fields(line)
	if len(f) < 2 {
		return line
	}
	if strings.HasSuffix(f[0], "hist") && len(f) == 4 {
		return "script " + f[1] + "; batch 0: " + describe("x "+f[2]) + "; batch 1: " + describe("x "+f[3])
	}
	data := f[len(f)-1]
	if Q, err := parseQuads(data); err == nil && len(Q) > 0 {
		return prettyQuads(Q)
	}
	if T, err := parseTriples(data); err == nil {
		return prettyQuads(asWQuads(T))
	}
	return data
}

// classify judges the answer of an oracle line: ok, known finding, or violation.
func (h *harness) classify(line, ans string) {
	f := strings.Fields(line)
	bad := func(why string) {
		h.fails = append(h.fails, vh.Case{Kind: "violation", Op: line, Go: ans, Detail: why})
	}
	if len(f) < 3 {
		bad("malformed oracle line")
		return
	}
	var o wopts
	var err error
	var holds []string
	var Q []wquad
	if f[0] == "oracle.hist" || f[0] == "oracle.dhist" {
		T, Qh, oh, ok := histInput(f)
		if !ok {
			bad("malformed history line")
			return
		}
		o = oh
		// rewrite to the one-shot form for the predicates below
		if f[0] == "oracle.hist" {
			f = []string{"oracle.triples", o.String(), triplesArg(T)}
		} else {
			f = []string{"oracle.quads", o.String(), quadsArg(Qh)}
		}
	} else if o, err = parseOpts(f[1]); err != nil {
		bad(err.Error())
		return
	}
	// the finding predicates that hold for this input, most specific first
	switch f[0] {
	case "oracle.triples", "oracle.exportone":
		T, err := parseTriples(f[len(f)-1])
		if err != nil {
			bad(err.Error())
			return
		}
		Q = asWQuads(T)
		if cyc, _ := cycleAllRefcount1(T); cyc && o.inline {
			if selfReferenceRefcount1(T) {
				holds = append(holds, "self-reference-refcount-1")
			}
			holds = append(holds, "cycle-all-refcount-1")
		}
	case "oracle.quads":
		if Q, err = parseQuads(f[2]); err != nil {
			bad(err.Error())
			return
		}
		if !noSharedAnonymized(Q, o) {
			holds = append(holds, "cross-graph-single-ref")
		}
		if self, cyc, _ := someGraphCyclic(Q); cyc && o.inline {
			if self {
				holds = append(holds, "self-reference-refcount-1")
			}
			holds = append(holds, "cycle-all-refcount-1")
		}
	default:
		bad("unknown oracle op")
		return
	}
	if ans == "ok" {
		// converse: an input of a known class that passes (harmless instance or upstream repair) is
		// counted, never failed. exportone passes whenever the subject does not lead into the cycle.
		suffix := ""
		if f[0] == "oracle.exportone" {
			suffix = "(exportone)"
		}
		for _, p := range holds {
			if p != "self-reference-refcount-1" {
				h.rep.Count("known-class-but-ok:" + p + suffix)
			}
		}
		return
	}
	if !strings.HasPrefix(ans, "crash:") {
		for _, p := range holds {
			if fd, ok := h.known[p]; ok {
				h.nKnown++
				h.rep.Count("known:" + fd.Key)
				if h.rep.Hist["known:"+fd.Key] <= 12 { // a dozen witnesses per finding in the report, all of them in the histogram
					h.knowns = append(h.knowns, vh.Case{Kind: "known", Key: fd.Key, Op: line, Detail: fd.What + " — " + ans})
				}
				return
			}
		}
	}
	what := "export then flatten is not isomorphic to the input"
	switch {
	case ans == "diverges":
		what = "export does not terminate (fatal stack overflow confirmed in the worker)"
	case strings.HasPrefix(ans, "crash:"):
		what = "worker crashed"
	}
	bad(fmt.Sprintf("%s: %s; useAnon=%v inline=%v; classes that hold: %v; input: %s", what, ans, o.anon, o.inline, holds, prettyQuads(Q)))
}

// ---------------------------------------------------------------- generators

const rdfNS = "http://www.w3.org/1999/02/22-rdf-syntax-ns#"

var (
	labels   = []string{"a", "c", "d", "e", "f", "g"} // the pool is the first four; shapes may need two more
	bn       = func() []string { return mapS(labels, bTok) }()
	iris     = []string{iTok("urn:i0"), iTok("urn:i1"), iTok("urn:i2")}
	pP, pQ   = iTok("urn:p"), iTok("urn:q")
	pFirst   = iTok(rdfNS + "first")
	pRest    = iTok(rdfNS + "rest")
	pType    = iTok(rdfNS + "type")
	rdfNil   = iTok(rdfNS + "nil")
	rdfList  = iTok(rdfNS + "List")
	literals = []string{lTok("x", vh.XSDString, ""), lTok("1", vh.XSD+"integer", ""), lTok("y", vh.RDFLangString, "en")}
	graphs   = []string{"-", iTok("urn:g1"), bTok("a")}
)

func mapS(xs []string, f func(string) string) []string {
	ys := make([]string, len(xs))
	for i, x := range xs {
		ys[i] = f(x)
	}
	return ys
}

type gen struct {
	r *vh.Rng
	h *harness
}

// graphLines emits the lines of one triple list; subjects are the arguments of exportone.
func (g *gen) graphLines(family string, T []wtriple, subjects []string) {
	arg := triplesArg(T)
	g.h.rep.Count(fmt.Sprintf("shape:acyclic1=%v", acyclic1(T)))
	g.h.add(family, "desc.build "+arg)
	g.h.add(family, "desc.acyclic1 "+arg)
	for _, o := range allOpts {
		g.h.add(family, "desc.export "+o.String()+" "+arg)
		g.h.add(family, "desc.flatten "+o.String()+" "+arg)
		g.h.add(family, "oracle.triples "+o.String()+" "+arg)
		for _, s := range subjects {
			g.h.add(family, "desc.exportone "+o.String()+" "+s+" "+arg)
			g.h.add(family, "oracle.exportone "+o.String()+" "+s+" "+arg)
		}
	}
}

func (g *gen) datasetLines(family string, Q []wquad) {
	arg := quadsArg(Q)
	g.h.rep.Count(fmt.Sprintf("dataset-graphs:%d", len(graphNames(Q))))
	for _, o := range allOpts {
		g.h.rep.Count(fmt.Sprintf("shape:no-shared-anonymized=%v", noSharedAnonymized(Q, o)))
		g.h.add(family, "desc.dexport "+o.String()+" "+arg)
		g.h.add(family, "desc.dflatten "+o.String()+" "+arg)
		g.h.add(family, "desc.shared "+o.String()+" "+arg)
		g.h.add(family, "oracle.quads "+o.String()+" "+arg)
	}
}

// subjectsOf: distinct subjects and blank objects, in order of appearance, at most n.
func subjectsOf(T []wtriple, n int) []string {
	var xs []string
	seen := map[string]bool{}
	for _, t := range T {
		for _, x := range []string{t[0], t[2]} {
			if (x == t[0] || isB(x)) && !seen[x] && len(xs) < n {
				seen[x] = true
				xs = append(xs, x)
			}
		}
	}
	return xs
}

// F1: every graph over the first n blank nodes and one predicate with at most maxEdges edges.
func (g *gen) exhaustive(n, maxEdges, exportoneNodes int) int {
	count := 0
	for mask := 0; mask < 1<<(n*n); mask++ {
		var T []wtriple
		for e := 0; e < n*n; e++ {
			if mask>>e&1 == 1 {
				T = append(T, wtriple{bn[e/n], pP, bn[e%n]})
			}
		}
		if len(T) > maxEdges {
			continue
		}
		count++
		g.graphLines(fmt.Sprintf("F1-exhaustive-%dnodes", n), T, bn[:exportoneNodes])
	}
	return count
}

// F2: random mixed graph over the whole pool.
func (g *gen) randomTriples(maxN int) []wtriple {
	r := g.r
	n := r.Intn(maxN + 1)
	var T []wtriple
	for len(T) < n {
		if len(T) > 0 && r.Chance(10) { // exact duplicate
			T = append(T, vh.Pick(r, T))
			continue
		}
		var t wtriple
		if r.Chance(65) {
			t[0] = vh.Pick(r, bn[:4])
		} else {
			t[0] = vh.Pick(r, iris)
		}
		switch x := r.Intn(100); {
		case x < 55:
			t[1] = pP
		case x < 80:
			t[1] = pQ
		default:
			t[1] = vh.Pick(r, []string{pFirst, pRest, pType})
		}
		switch x := r.Intn(100); {
		case x < 60:
			t[2] = vh.Pick(r, bn[:4])
		case x < 80:
			t[2] = vh.Pick(r, iris)
		default:
			t[2] = vh.Pick(r, literals)
		}
		T = append(T, t)
	}
	return T
}

func (g *gen) random(n int) {
	for i := 0; i < n; i++ {
		T := g.randomTriples(8)
		g.h.rep.Count(fmt.Sprintf("size:F2=%d", len(T)))
		var subj []string
		if s := subjectsOf(T, 8); len(s) > 0 {
			subj = []string{vh.Pick(g.r, s)}
		} else {
			subj = []string{vh.Pick(g.r, bn[:4])}
		}
		g.graphLines("F2-random", T, subj)
	}
}

// F3: shaped graphs.
type shape struct {
	name string
	T    []wtriple
}

func cycle(k int) []wtriple {
	var T []wtriple
	for i := 0; i < k; i++ {
		T = append(T, wtriple{bn[i], pP, bn[(i+1)%k]})
	}
	return T
}

func chain(root string, depth int, leaf string) []wtriple {
	T := []wtriple{{root, pP, bn[0]}}
	for i := 0; i+1 < depth; i++ {
		T = append(T, wtriple{bn[i], pQ, bn[i+1]})
	}
	if leaf != "" {
		T = append(T, wtriple{bn[depth-1], pP, leaf})
	}
	return T
}

// rdfListCells: cells[0] … cells[len-1] hold vals, the last cell's rest is tail.
func rdfListCells(cells, vals []string, tail string) []wtriple {
	var T []wtriple
	for i, c := range cells {
		rest := tail
		if i+1 < len(cells) {
			rest = cells[i+1]
		}
		T = append(T, wtriple{c, pFirst, vals[i%len(vals)]}, wtriple{c, pRest, rest})
	}
	return T
}

func with(T []wtriple, extra ...wtriple) []wtriple {
	return append(append([]wtriple(nil), T...), extra...)
}

func shapes() []shape {
	var ss []shape
	add := func(name string, T []wtriple) { ss = append(ss, shape{name, T}) }
	lit := literals[0]
	for k := 1; k <= 4; k++ {
		c := cycle(k)
		add(fmt.Sprintf("cycle%d-pure", k), c)
		add(fmt.Sprintf("cycle%d-iri-inbound", k), with(c, wtriple{iris[0], pP, bn[0]}))
		add(fmt.Sprintf("cycle%d-bnode-inbound", k), with(c, wtriple{bn[4], pQ, bn[0]}))
		add(fmt.Sprintf("cycle%d-tail", k), with(c, wtriple{bn[0], pQ, bn[4]}, wtriple{bn[4], pQ, lit}))
		add(fmt.Sprintf("cycle%d-literal", k), with(c, wtriple{bn[k-1], pQ, lit}))
		add(fmt.Sprintf("cycle%d-tail-and-inbound", k), with(c, wtriple{bn[0], pQ, bn[4]}, wtriple{iris[1], pP, bn[k-1]}))
		add(fmt.Sprintf("cycle%d-double-edge", k), with(c, c[0]))
	}
	add("two-2-cycles", []wtriple{{bn[0], pP, bn[1]}, {bn[1], pP, bn[0]}, {bn[2], pQ, bn[3]}, {bn[3], pQ, bn[2]}})
	add("cycle3-chord", with(cycle(3), wtriple{bn[0], pQ, bn[2]}))
	add("cycle2-entered-from-chain", []wtriple{{iris[0], pP, bn[2]}, {bn[2], pP, bn[0]}, {bn[0], pP, bn[1]}, {bn[1], pP, bn[0]}})
	for d := 1; d <= 6; d++ {
		add(fmt.Sprintf("chain%d-from-iri", d), chain(iris[0], d, lit))
		add(fmt.Sprintf("chain%d-from-iri-open", d), chain(iris[0], d, ""))
		if d < 6 {
			add(fmt.Sprintf("chain%d-from-bnode", d), chain(bn[5], d, iris[1]))
		}
	}
	add("tree", []wtriple{{iris[0], pP, bn[0]}, {bn[0], pP, bn[1]}, {bn[0], pQ, bn[2]}, {bn[1], pP, bn[3]}, {bn[1], pQ, bn[4]}, {bn[2], pP, bn[5]}, {bn[5], pQ, lit}})
	add("tree-bnode-root", []wtriple{{bn[0], pP, bn[1]}, {bn[0], pQ, bn[2]}, {bn[1], pP, bn[3]}, {bn[2], pP, literals[2]}})
	add("once-undescribed", []wtriple{{iris[0], pP, bn[0]}})
	add("twice", []wtriple{{iris[0], pP, bn[0]}, {iris[1], pP, bn[0]}, {bn[0], pQ, lit}})
	add("twice-same-subject", []wtriple{{iris[0], pP, bn[0]}, {iris[0], pQ, bn[0]}, {bn[0], pQ, lit}})
	add("duplicate-reference", []wtriple{{iris[0], pP, bn[0]}, {iris[0], pP, bn[0]}, {bn[0], pQ, lit}})
	add("subject-only", []wtriple{{bn[0], pP, lit}, {bn[0], pQ, iris[0]}})
	add("two-subject-only", []wtriple{{bn[0], pP, lit}, {bn[1], pP, lit}})
	add("diamond", []wtriple{{bn[0], pP, bn[1]}, {bn[0], pQ, bn[2]}, {bn[1], pP, bn[3]}, {bn[2], pP, bn[3]}, {bn[3], pQ, lit}})
	add("diamond-iri-root", []wtriple{{iris[0], pP, bn[1]}, {iris[0], pQ, bn[2]}, {bn[1], pP, bn[3]}, {bn[2], pP, bn[3]}})
	vals := []string{literals[1], iris[1], bn[5]}
	for n := 1; n <= 3; n++ {
		l := with(rdfListCells(bn[:n], vals, rdfNil), wtriple{iris[0], pP, bn[0]})
		add(fmt.Sprintf("list%d", n), l)
		add(fmt.Sprintf("list%d-typed", n), with(l, wtriple{bn[n-1], pType, rdfList}))
		add(fmt.Sprintf("list%d-headless", n), rdfListCells(bn[:n], vals, rdfNil))
	}
	add("list-shared-tail", with(append(rdfListCells(bn[:1], vals, bn[2]), append(rdfListCells(bn[1:2], vals[1:], bn[2]), rdfListCells(bn[2:4], vals, rdfNil)...)...),
		wtriple{iris[0], pP, bn[0]}, wtriple{iris[1], pP, bn[1]}))
	add("list-circular", with(rdfListCells(bn[:2], vals, bn[0]), wtriple{iris[0], pP, bn[0]}))
	add("list-circular-unrooted", rdfListCells(bn[:2], vals, bn[0]))
	return ss
}

// relabel applies a permutation of the six blank node labels.
func relabel(T []wtriple, perm []int) []wtriple {
	m := map[string]string{}
	for i, b := range bn {
		m[b] = bn[perm[i]]
	}
	out := make([]wtriple, len(T))
	for i, t := range T {
		out[i] = t
		for j := range out[i] {
			if n, ok := m[out[i][j]]; ok {
				out[i][j] = n
			}
		}
	}
	return out
}

func shuffle[T any](r *vh.Rng, xs []T) []T {
	out := append([]T(nil), xs...)
	for i := len(out) - 1; i > 0; i-- {
		j := r.Intn(i + 1)
		out[i], out[j] = out[j], out[i]
	}
	return out
}

// variants of a shape: as written, reversed, and n shuffled relabelled copies (some with one extra random triple).
func (g *gen) variants(T []wtriple, n int) [][]wtriple {
	rev := append([]wtriple(nil), T...)
	for i, j := 0, len(rev)-1; i < j; i, j = i+1, j-1 {
		rev[i], rev[j] = rev[j], rev[i]
	}
	vs := [][]wtriple{T, rev}
	for i := 0; i < n; i++ {
		v := shuffle(g.r, relabel(T, shuffle(g.r, []int{0, 1, 2, 3, 4, 5})))
		if g.r.Chance(30) {
			v = append(v, g.randomTriples(1)...)
		}
		vs = append(vs, v)
	}
	return vs
}

func (g *gen) shaped(nVariants int) {
	for _, s := range shapes() {
		for _, T := range g.variants(s.T, nVariants) {
			g.h.rep.Count("shape:" + s.name)
			g.graphLines("F3-shaped", T, subjectsOf(T, 4))
		}
	}
}

// F4: datasets.
func (g *gen) distribute(T []wtriple) []wquad {
	Q := make([]wquad, len(T))
	home := vh.Pick(g.r, graphs)
	for i, t := range T {
		gname := home
		if g.r.Chance(35) {
			gname = vh.Pick(g.r, graphs)
		}
		Q[i] = wquad{t[0], t[1], t[2], gname}
	}
	return Q
}

func crossGraphShapes() [][]wquad {
	d, g1, ga := graphs[0], graphs[1], graphs[2]
	a, c, e := bn[0], bn[1], bn[3]
	lit := literals[0]
	return [][]wquad{
		{{iris[0], pP, c, g1}, {c, pQ, iris[1], d}},                                         // referenced once in g1, described in the default graph
		{{iris[0], pP, c, g1}, {c, pQ, iris[1], ga}},                                        // … described in a blank-named graph
		{{c, pP, iris[0], g1}, {iris[1], pP, c, d}},                                         // subject-only in g1, referenced from another graph
		{{a, pP, iris[0], ga}},                                                              // blank graph name that is a subject in its own graph
		{{iris[0], pP, a, ga}},                                                              // … that is referenced once in its own graph
		{{iris[0], pP, a, ga}, {iris[1], pP, a, ga}},                                        // … referenced twice: kept
		{{iris[0], pP, c, ga}, {c, pQ, lit, ga}},                                            // blank graph name not used as a node
		{{a, pP, iris[0], d}, {iris[0], pP, iris[1], ga}},                                   // node in the default graph names another graph
		{{iris[0], pP, c, d}, {iris[0], pP, c, g1}},                                         // the same triple in two graphs
		{{iris[0], pP, c, g1}, {iris[1], pP, c, g1}, {iris[0], pP, c, d}},                   // twice in g1, once in the default graph
		{{iris[0], pP, c, g1}, {iris[1], pP, c, g1}, {c, pP, lit, d}},                       // twice in g1, subject-only elsewhere
		{{a, pP, c, g1}, {c, pP, a, g1}},                                                    // single-reference cycle inside one graph
		{{a, pP, c, g1}, {c, pP, a, d}},                                                     // the cycle split over two graphs
		{{e, pP, e, g1}, {iris[0], pP, iris[1], d}},                                         // self reference in one graph
		{{iris[0], pP, c, g1}, {c, pQ, e, g1}, {e, pQ, lit, g1}, {iris[1], pP, iris[2], d}}, // clean: chain in g1 only
		{{c, pP, lit, d}, {c, pP, lit, g1}},                                                 // subject-only node in two graphs
	}
}

func (g *gen) datasets(n, nVariants int) {
	for _, Q := range crossGraphShapes() {
		g.h.rep.Count("shape:cross-graph-handmade")
		g.datasetLines("F4-datasets-handmade", Q)
		for i := 0; i < nVariants; i++ {
			extra := g.distribute(g.randomTriples(2))
			g.datasetLines("F4-datasets-handmade", shuffle(g.r, append(append([]wquad(nil), Q...), extra...)))
		}
	}
	for _, s := range shapes() {
		all := make([]wquad, len(s.T))
		for i, t := range s.T {
			all[i] = wquad{t[0], t[1], t[2], graphs[1]}
		}
		g.datasetLines("F4-datasets-shaped", all)
		for i := 0; i < nVariants; i++ {
			g.datasetLines("F4-datasets-shaped", g.distribute(s.T))
		}
	}
	for i := 0; i < n; i++ {
		Q := g.distribute(g.randomTriples(8))
		g.h.rep.Count(fmt.Sprintf("size:F4=%d", len(Q)))
		g.datasetLines("F4-datasets-random", Q)
	}
}

// F6: histories on one builder. For a graph T split into two batches: an export abandoned after k resources
// (every k up to the number of subjects, by break and by writer error) between or after the Adds, then a
// complete export; two complete exports in a row; complete exports with different options in a row.
func (g *gen) historyLines(family string, T []wtriple, full bool) {
	nsub := len(subjectsOf(T, 1000))
	splits := []int{len(T)}
	if len(T) > 1 {
		splits = append(splits, len(T)/2)
	}
	if full && len(T) > 2 {
		splits = append(splits, 1)
	}
	emit := func(script string, b0, b1 []wtriple) {
		g.h.add(family, "desc.hist "+script+" "+triplesArg(b0)+" "+triplesArg(b1))
		g.h.add(family, "oracle.hist "+script+" "+triplesArg(b0)+" "+triplesArg(b1))
	}
	for _, cut := range splits {
		b0, b1 := T[:cut], T[cut:]
		for _, o := range allOpts {
			if !full && !o.inline {
				continue // the working set only matters with Inline; the quick tier keeps one non-inline pass below
			}
			os := o.String()
			for k := 0; k <= nsub && k <= 4; k++ {
				ks := strconv.Itoa(k)
				emit("a0;p"+os+"."+ks+";a1;f"+os, b0, b1)
				emit("a0;a1;w"+os+"."+ks+";f"+os, b0, b1)
				if full {
					emit("a0;w"+os+"."+ks+";a1;f"+os, b0, b1)
					emit("a0;a1;p"+os+"."+ks+";f"+os+";f"+os, b0, b1)
				}
			}
			emit("a0;a1;f"+os+";f"+os, b0, b1)
			emit("a0;f"+os+";a1;f"+os, b0, b1)
			for _, o2 := range allOpts {
				if o2 != o {
					emit("a0;a1;f"+os+";f"+o2.String(), b0, b1)
					if full {
						emit("a0;p"+os+".0;a1;f"+o2.String(), b0, b1)
					}
				}
			}
		}
		emit("a0;p00.0;a1;f00", b0, b1)
	}
}

func (g *gen) datasetHistoryLines(family string, Q []wquad) {
	cut := len(Q) / 2
	for _, o := range []wopts{{true, true}, {false, true}} {
		os := o.String()
		for k := 0; k <= 3; k++ {
			g.h.add(family, "oracle.dhist a0;w"+os+"."+strconv.Itoa(k)+";a1;f"+os+" "+quadsArg(Q[:cut])+" "+quadsArg(Q[cut:]))
			g.h.add(family, "oracle.dhist a0;a1;w"+os+"."+strconv.Itoa(k)+";f"+os+";f"+os+" "+quadsArg(Q[:cut])+" "+quadsArg(Q[cut:]))
		}
	}
}

func (g *gen) histories(nRandom, exhaustiveNodes int) int {
	for _, s := range shapes() {
		g.historyLines("F6-histories-shaped", s.T, true)
		all := make([]wquad, len(s.T))
		for i, t := range s.T {
			all[i] = wquad{t[0], t[1], t[2], graphs[1]}
		}
		g.datasetHistoryLines("F6-histories-datasets", all)
		g.datasetHistoryLines("F6-histories-datasets", g.distribute(s.T))
	}
	for i := 0; i < nRandom; i++ {
		g.historyLines("F6-histories-random", g.randomTriples(8), g.r.Chance(25))
	}
	// every one-predicate graph over a few blank nodes, rooted at an IRI so that the first loop inlines
	count := 0
	n := exhaustiveNodes
	for mask := 0; mask < 1<<(n*n); mask++ {
		T := []wtriple{{iris[0], pP, bn[0]}}
		for e := 0; e < n*n; e++ {
			if mask>>e&1 == 1 {
				T = append(T, wtriple{bn[e/n], pP, bn[e%n]})
			}
		}
		count++
		g.historyLines(fmt.Sprintf("F6-histories-exhaustive-%dnodes", n), T, false)
	}
	return count
}

// F7: in-degree boundaries. One blank node referenced by n triples with distinct IRI subjects (and described by
// one triple of its own); the reference count decides between AnonResource (0), inlining (1) and a labelled
// SubjectResource (several), so a narrowed or saturating counter shows at n = 2^8, 2^9, 2^16 (+-1).
func boundaryGraph(n int) []wtriple {
	T := make([]wtriple, 0, n+1)
	for i := 0; i < n; i++ {
		T = append(T, wtriple{iTok("urn:s" + strconv.Itoa(i)), pP, bn[0]})
	}
	return append(T, wtriple{bn[0], pQ, literals[0]})
}

func (g *gen) boundaries(sizes []int) {
	for _, n := range sizes {
		arg := triplesArg(boundaryGraph(n))
		if n <= 1024 { // the model's association lists are quadratic: the model side takes part up to 2^10
			g.h.add("F7-indegree-boundary", "desc.build "+arg)
		}
		for _, o := range allOpts {
			if n <= 1024 {
				g.h.add("F7-indegree-boundary", "desc.export "+o.String()+" "+arg)
				g.h.add("F7-indegree-boundary", "desc.flatten "+o.String()+" "+arg)
				g.h.add("F7-indegree-boundary", "desc.hist a0;a1;f"+o.String()+";f"+o.String()+" "+arg+" -")
			}
			g.h.add("F7-indegree-boundary", "oracle.triples "+o.String()+" "+arg)
		}
		g.h.rep.Count(fmt.Sprintf("indegree:%d", n))
	}
}

// F5: NewObjectValueListStatement.
func (g *gen) lists(n int) {
	pool := append(append(append([]string(nil), bn[:4]...), iris...), literals...)
	pool = append(pool, rdfNil)
	g.h.add("F5-list", "desc.list "+pP+" -")
	for _, v := range pool {
		g.h.add("F5-list", "desc.list "+pQ+" "+v)
	}
	for i := 0; i < n; i++ {
		vs := make([]string, g.r.Intn(5))
		for j := range vs {
			vs[j] = vh.Pick(g.r, pool)
		}
		g.h.rep.Count(fmt.Sprintf("size:F5=%d", len(vs)))
		g.h.add("F5-list", "desc.list "+vh.Pick(g.r, []string{pP, pQ, pFirst})+" "+joinList(vs))
	}
}

// oracleFor maps a desc.* line to the oracle line over the same input ("" if there is none).
func oracleFor(line string) string {
	f := strings.Fields(line)
	switch {
	case len(f) == 3 && (f[0] == "desc.export" || f[0] == "desc.flatten"):
		return "oracle.triples " + f[1] + " " + f[2]
	case len(f) == 4 && f[0] == "desc.exportone":
		return "oracle.exportone " + f[1] + " " + f[2] + " " + f[3]
	case len(f) == 3 && (f[0] == "desc.dexport" || f[0] == "desc.dflatten"):
		return "oracle.quads " + f[1] + " " + f[2]
	case len(f) == 4 && f[0] == "desc.hist":
		return "oracle.hist " + f[1] + " " + f[2] + " " + f[3]
	}
	return ""
}

func readLines(path string) ([]string, error) {
	b, err := os.ReadFile(path)
	if err != nil {
		return nil, err
	}
	var ls []string
	for _, l := range strings.Split(string(b), "\n") {
		if l = strings.TrimSpace(l); l != "" {
			ls = append(ls, l)
		}
	}
	return ls, nil
}

// ---------------------------------------------------------------- main

func main() {
	if os.Getenv("C17_WORKER") == "1" {
		workerMain()
		return
	}
	flag.Parse()
	if *tier != "quick" && *tier != "thorough" {
		fmt.Fprintln(os.Stderr, "c17: -tier must be quick or thorough")
		os.Exit(2)
	}
	if err := vh.IsomorphSelfTest(); err != nil {
		fmt.Fprintln(os.Stderr, "c17:", err)
		os.Exit(2)
	}
	exe, err := os.Executable()
	if err != nil {
		exe = os.Args[0]
	}
	seed := vh.SeedFromEnv()
	rep := vh.NewReport("C17", *tier, seed, "triple lists and datasets over a pool of 4(+2) blank nodes, 3 IRIs, 5 predicates (incl. rdf:first/rest/type) and 3 literals: every one-predicate blank-node graph up to a size bound, random mixed graphs with duplicates, shaped graphs (single-reference cycles with and without legalising extra references, chains, trees, diamonds, rdf lists), their distributions over the default, an IRI-named and a blank-named graph incl. hand-made cross-graph sharing, and NewObjectValueListStatement inputs; each under all four ExportResourceOptions; non-trivial = the input has at least one blank node in object position")
	fs, err := vh.LoadFindings(*findings)
	if err != nil {
		fmt.Fprintln(os.Stderr, "findings:", err)
		os.Exit(2)
	}
	h := &harness{rep: rep, known: vh.KnownKeys(fs, "C17"), exe: exe}
	for _, k := range []string{"known-class-but-ok:cycle-all-refcount-1", "known-class-but-ok:cross-graph-single-ref", "go:stack-overflow-confirmed"} {
		rep.Hist[k] = 0 // always present in the report, also when zero
	}
	g := &gen{r: vh.NewRng(seed), h: h}

	if *replay != "" {
		ls, err := readLines(*replay)
		if err != nil {
			fmt.Fprintln(os.Stderr, err)
			os.Exit(2)
		}
		for _, l := range ls {
			h.add("replay", l)
		}
	} else {
		if *hints != "" {
			if ls, err := readLines(*hints); err == nil {
				for _, l := range ls {
					if ol := oracleFor(l); ol != "" {
						h.add("hints", ol)
					}
				}
			}
		}
		n := g.exhaustive(3, 9, 3)
		rep.Exhaustive = append(rep.Exhaustive, fmt.Sprintf("all %d directed graphs (self loops allowed) over 3 blank nodes and one predicate: build, acyclic1, and export/flatten/oracle under all 4 options, exportone from every node", n))
		if *tier == "thorough" {
			n = g.exhaustive(4, 5, 2)
			rep.Exhaustive = append(rep.Exhaustive, fmt.Sprintf("all %d directed graphs over 4 blank nodes and one predicate with at most 5 edges: the same lines, exportone from the first two nodes (every shape occurs under every relabelling)", n))
			g.shaped(12 * *scale)
			g.random(12000 * *scale)
			g.datasets(10000**scale, 6**scale)
			g.lists(3000 * *scale)
			nh := g.histories(1500**scale, 3)
			rep.Exhaustive = append(rep.Exhaustive, fmt.Sprintf("histories on one builder (Add, export abandoned after k resources for every k by break and by writer error, Add, complete export; two complete exports in a row; option changes between exports) over all %d one-predicate graphs on 3 blank nodes rooted at an IRI, all shapes, and random graphs", nh))
			g.boundaries([]int{254, 255, 256, 257, 258, 511, 512, 513, 65535, 65536, 65537})
			rep.Exhaustive = append(rep.Exhaustive, "in-degree boundaries 254..258, 511..513, 65535..65537 of one blank node under all 4 options (model side up to 513)")
		} else {
			g.shaped(2 * *scale)
			g.random(600 * *scale)
			g.datasets(600**scale, 1**scale)
			g.lists(300 * *scale)
			nh := g.histories(150**scale, 2)
			rep.Exhaustive = append(rep.Exhaustive, fmt.Sprintf("histories on one builder (Add, export abandoned after k resources for every k by break and by writer error, Add, complete export; two complete exports in a row; option changes between exports) over all %d one-predicate graphs on 2 blank nodes rooted at an IRI, all shapes, and random graphs", nh))
			g.boundaries([]int{254, 255, 256, 257, 258, 511, 512, 513, 65535, 65536, 65537})
			rep.Exhaustive = append(rep.Exhaustive, "in-degree boundaries 254..258, 511..513, 65535..65537 of one blank node under all 4 options (model side up to 513)")
		}
	}
	h.flush()
	if rep.Hist["t3:go-behaves-as-before-patch"] > 0 && rep.Hist["t3:go-behaves-as-after-patch"] > 0 {
		h.fails = append(h.fails, vh.Case{Kind: "disagreement", Op: "desc.export*", Detail: fmt.Sprintf(
			"on inputs with a cycle of once-referenced blank nodes the implementation matched the before-patch model %d times and the after-patch model %d times: it is neither version consistently",
			rep.Hist["t3:go-behaves-as-before-patch"], rep.Hist["t3:go-behaves-as-after-patch"])})
	}

	for i := range h.fails {
		c := &h.fails[i]
		c.Op, c.Go, c.Model, c.Detail = compact(c.Op), clip(c.Go, 4000), clip(c.Model, 4000), clip(c.Detail, 4000)
		rep.Add(*c)
	}
	for _, c := range h.knowns {
		c.Op, c.Detail = compact(c.Op), clip(c.Detail, 4000)
		rep.Add(c)
	}
	if err := rep.Write(*out); err != nil {
		fmt.Fprintln(os.Stderr, err)
		os.Exit(2)
	}
	var sum bytes.Buffer
	for _, k := range vh.SortedKeys(rep.Hist) {
		if strings.HasPrefix(k, "known") || strings.HasPrefix(k, "go:") || strings.HasPrefix(k, "answer:") || strings.HasPrefix(k, "t3:") {
			fmt.Fprintf(&sum, " %s=%d", k, rep.Hist[k])
		}
	}
	if sum.Len() > 0 {
		fmt.Println("c17:" + sum.String())
	}
	for i, c := range h.fails {
		if i < 10 {
			fmt.Printf("c17: %s: %s\n    go:    %s\n    model: %s\n    %s\n", strings.ToUpper(c.Kind), c.Op, c.Go, c.Model, c.Detail)
		}
	}
	if *nomodel {
		fmt.Printf("c17 (oracle only): %d evaluations, %d failures, %d known\n", rep.Evaluations, len(h.fails), h.nKnown)
	} else {
		fmt.Printf("c17: %d evaluations, %d compared with the model, %d failures, %d known\n", rep.Evaluations, rep.Compared, len(h.fails), h.nKnown)
	}
	if len(h.fails) > 0 {
		os.Exit(1)
	}
}
