/-
  Proofs.C03Model — consequences of `canon_structure` for the Go canonicalizer (model): no panic on
  well-formed input, shape of the output (sorted lines, original indices, issued identifiers).
-/
import RdfModel.Proofs.C04Final
import RdfModel.Proofs.C04Fuel
import RdfModel.Proofs.C03Simple
namespace RdfModel.Proofs.C03
open RdfModel RdfModel.Proofs.StrOrd RdfModel.C04 RdfModel.Proofs.C04

set_option linter.unusedSectionVars false

variable {β : Type} [DecidableEq β]

/-! ### the model never panics after ingestion -/

theorem permLoop_ne_panic (mrec : β → Rdfcanon.Issuer β → Rdfcanon.Res (Rdfcanon.NDResult β))
    (cm issuer : Rdfcanon.Issuer β) :
    ∀ (ps : List (List β)) (budget : Nat) (cp : Str) (ci : Rdfcanon.Issuer β),
    Rdfcanon.permLoop mrec cm issuer ps budget cp ci ≠ .panic
  | [], _, _, _ => by simp [Rdfcanon.permLoop]
  | _ :: _, 0, _, _ => by simp [Rdfcanon.permLoop]
  | p :: ps, budget + 1, cp, ci => by
    unfold Rdfcanon.permLoop
    split
    · exact permLoop_ne_panic mrec cm issuer ps budget _ _
    · split
      · simp
      · exact permLoop_ne_panic mrec cm issuer ps budget _ _
      · split
        · exact permLoop_ne_panic mrec cm issuer ps budget _ _
        · exact permLoop_ne_panic mrec cm issuer ps budget _ _

theorem groupLoop_ne_panic (mrec : β → Rdfcanon.Issuer β → Rdfcanon.Res (Rdfcanon.NDResult β))
    (cm : Rdfcanon.Issuer β) (maxPerm : Nat) :
    ∀ (gs : List (Str × List β)) (data : Str) (issuer : Rdfcanon.Issuer β),
    Rdfcanon.groupLoop mrec cm maxPerm gs data issuer ≠ .panic
  | [], _, _ => by simp [Rdfcanon.groupLoop]
  | (rh, bl) :: rest, data, issuer => by
    unfold Rdfcanon.groupLoop
    cases hp : Rdfcanon.permLoop mrec cm issuer (Rdfcanon.heapPerms (maxPerm + 1) bl) maxPerm [] Rdfcanon.zeroIssuer with
    | limit l => simp
    | panic => exact absurd hp (permLoop_ne_panic _ _ _ _ _ _ _)
    | ok x =>
      obtain ⟨a, b⟩ := x
      exact groupLoop_ne_panic mrec cm maxPerm rest _ _

theorem hashNDegree_ne_panic (H : Str → Str) (st : Rdfcanon.State β) (maxPerm : Nat) :
    ∀ (fuel : Nat) (b : β) (i : Rdfcanon.Issuer β), Rdfcanon.hashNDegree H st maxPerm fuel b i ≠ .panic
  | 0, _, _ => by simp [Rdfcanon.hashNDegree]
  | fuel + 1, b, i => by
    unfold Rdfcanon.hashNDegree
    simp only
    cases hg : Rdfcanon.groupLoop (Rdfcanon.hashNDegree H st maxPerm fuel) st.canon maxPerm
        (sortByKey (Rdfcanon.hashToRelated H st i b)) [] i with
    | limit l => simp
    | panic => exact absurd hg (groupLoop_ne_panic _ _ _ _ _ _)
    | ok x => simp

theorem hashPathList_ne_panic (H : Str → Str) (st : Rdfcanon.State β) (lim : Rdfcanon.Limits) :
    ∀ (l : List β), Rdfcanon.hashPathList H st lim l ≠ .panic
  | [] => by simp [Rdfcanon.hashPathList]
  | n :: rest => by
    unfold Rdfcanon.hashPathList
    cases st.canon.getIfKnown n with
    | some _ => exact hashPathList_ne_panic H st lim rest
    | none =>
      simp only
      cases hn : Rdfcanon.hashNDegree H st lim.maxPermutations (lim.maxRecursionDepth + 1) n
          ((Rdfcanon.newTemporaryIssuer : Rdfcanon.Issuer β).get n).2 with
      | limit l => simp
      | panic => exact absurd hn (hashNDegree_ne_panic _ _ _ _ _ _)
      | ok r =>
        simp only
        cases hr : Rdfcanon.hashPathList H st lim rest with
        | limit l => simp
        | panic => exact absurd hr (hashPathList_ne_panic H st lim rest)
        | ok rs => simp

theorem step5_ne_panic (H : Str → Str) (lim : Rdfcanon.Limits) :
    ∀ (gs : List (Str × List β)) (st : Rdfcanon.State β), Rdfcanon.step5 H lim gs st ≠ .panic
  | [], _ => by simp [Rdfcanon.step5]
  | (hsh, ids) :: rest, st => by
    unfold Rdfcanon.step5
    cases hh : Rdfcanon.hashPathList H st lim ids with
    | limit l => simp
    | panic => exact absurd hh (hashPathList_ne_panic _ _ _ _)
    | ok hpl => exact step5_ne_panic H lim rest _

/-- On well-formed input the Go canonicalizer returns a result or one of its two limit errors. -/
theorem canon_ne_panic (T : NQ.Tables) (H : Str → Str) (lim : Rdfcanon.Limits) (ord : List β → List β)
    (qs : List (Quad β)) (hwf : ∀ q ∈ qs, WFQuad T q) : Rdfcanon.canon T H lim ord qs ≠ .panic := by
  obtain ⟨st0, hi1, _⟩ := ingest_wf T qs 0 ⟨[], Rdfcanon.newCanonicalIssuer, []⟩ hwf (by simp)
  rw [canon_unfold T H lim ord qs st0 hi1]
  cases h5 : Rdfcanon.step5 H lim ((sortByKey (h2bM H ord st0.b2q)).filter (fun e => e.2.length > 1))
      { st0 with canon := (sortByKey (h2bM H ord st0.b2q)).foldl step4M st0.canon } with
  | limit l => simp
  | panic => exact absurd h5 (step5_ne_panic _ _ _ _)
  | ok st => simp

/-! ### shape of the output -/

/-- The renaming applied: blank node ↦ issued canonical identifier. -/
def labelOf (out : Rdfcanon.Out β) (b : β) : Str := (assoc out.issued b).getD []

theorem issued_eq {cm : Rdfcanon.Issuer β} {cs : Spec.RDFC10.Issuer β} (hc : CRel cm cs) :
    cm.order.map (fun b => (b, (assoc cm.known b).getD [])) = cs.issued := by
  rw [hc.order, List.map_map]
  have hself : ∀ e ∈ cs.issued, ((fun b => (b, (assoc cm.known b).getD [])) ∘ fun x => x.1) e = e := by
    intro e he
    obtain ⟨k, v⟩ := e
    simp only [Function.comp, hc.look k, assoc_of_mem_nodup _ hc.nodup k v he, Option.getD_some]
  rw [List.map_congr_left hself]
  simp

theorem assoc_mem (l : List (β × Str)) (b : β) (v : Str) (h : assoc l b = some v) : (b, v) ∈ l := by
  induction l with
  | nil => simp [assoc] at h
  | cons e rest ih =>
    obtain ⟨k, w⟩ := e
    by_cases hk : k = b
    · simp [assoc, hk] at h; subst hk; subst h; simp
    · simp only [assoc, hk, if_false] at h
      exact List.mem_cons_of_mem _ (ih h)

theorem mem_lineList (lab : β → Str) : ∀ (qs : List (Quad β)) (idx : Nat) (l : Rdfcanon.Line),
    l ∈ lineList lab qs idx → ∃ i q, qs[i]? = some q ∧ l = ⟨idx + i, Spec.RDFC10.nquad lab q⟩
  | [], _, l, h => by simp [lineList] at h
  | q :: rest, idx, l, h => by
    simp only [lineList, List.mem_cons] at h
    rcases h with h | h
    · exact ⟨0, q, by simp, by simpa using h⟩
    · obtain ⟨i, q', h1, h2⟩ := mem_lineList lab rest (idx + 1) l h
      exact ⟨i + 1, q', by simpa using h1, by rw [h2]; congr 1; omega⟩

theorem lineList_idx (lab : β → Str) : ∀ (qs : List (Quad β)) (idx : Nat),
    (lineList lab qs idx).map (·.idx) = List.range' idx qs.length
  | [], _ => rfl
  | q :: rest, idx => by simp [lineList, lineList_idx lab rest (idx + 1), List.range'_succ]

/-- Everything the C03 theorems need about a result, in one place. -/
structure Shape (T : NQ.Tables) (qs : List (Quad β)) (out : Rdfcanon.Out β) : Prop where
  lines : out.lines = (lineList (labelOf out) qs 0).mergeSort (fun a b => strLe a.encoded b.encoded)
  total : ∀ q ∈ qs, ∀ b ∈ Spec.RDFC10.quadBnodes q, (assoc out.issued b).isSome
  inj : ∀ b b' v, assoc out.issued b = some v → assoc out.issued b' = some v → b = b'
  ident : ∀ b v, assoc out.issued b = some v → out.identifier b = v
  form : ∀ b v, assoc out.issued b = some v → ∃ k, v = Spec.RDFC10.c14nPrefix ++ decimal k

theorem shape_of_ok (T : NQ.Tables) (hT : TablesCanon T) (H : Str → Str) (lim : Rdfcanon.Limits)
    (ord : List β → List β) (hord : OrdOK ord) (qs : List (Quad β)) (hwf : ∀ q ∈ qs, WFQuad T q)
    (out : Rdfcanon.Out β) (h : Rdfcanon.canon T H lim ord qs = .ok out) : Shape T qs out := by
  obtain ⟨cs5, _, hc, hknown, hlines⟩ := canon_structure T hT H lim ord hord
    (Rdfcanon.heapPerms (lim.maxPermutations + 1)) (fun _ _ => rfl) qs hwf out h
  have hiss : out.issued = cs5.issued := issued_eq hc
  have hlab : (fun b => (cs5.get? b).getD []) = labelOf out := by
    funext b; simp [labelOf, hiss, Spec.RDFC10.Issuer.get?]
  constructor
  · rw [hlines, hlab]
  · intro q hq b hb
    rw [hiss]; exact hknown q hq b hb
  · intro b b' v h1 h2
    rw [hiss] at h1 h2
    have hvals : (cs5.issued.map (·.2)).Nodup := by
      rw [hc.seq]
      have hr : (List.range cs5.counter).Nodup := List.nodup_range
      unfold List.Nodup at hr ⊢
      rw [List.pairwise_map]
      exact hr.imp (fun {x y} hxy heq => hxy (decimal_injective (List.append_cancel_left heq)))
    have := inj_of_nodup_map (fun e : β × Str => e.2) cs5.issued hvals (b, v) (assoc_mem _ _ _ h1)
      (b', v) (assoc_mem _ _ _ h2) rfl
    exact (Prod.mk.inj this).1
  · intro b v h1
    rw [hiss] at h1
    unfold Rdfcanon.Out.identifier
    rw [hc.get_known b v h1]
  · intro b v h1
    rw [hiss] at h1
    have hm : v ∈ cs5.issued.map (·.2) := List.mem_map.mpr ⟨(b, v), assoc_mem _ _ _ h1, rfl⟩
    rw [hc.seq, hc.cpfx] at hm
    obtain ⟨k, _, hk⟩ := List.mem_map.mp hm
    exact ⟨k, hk.symm⟩

/-! ### sortedness, original indices -/

theorem lines_sorted {T : NQ.Tables} {qs : List (Quad β)} {out : Rdfcanon.Out β} (hs : Shape T qs out) :
    (out.lines.map (·.encoded)).Pairwise (fun a b => strLe a b = true) := by
  rw [hs.lines, List.pairwise_map]
  exact List.pairwise_mergeSort (le := fun (a b : Rdfcanon.Line) => strLe a.encoded b.encoded)
    (fun a b c => strLe_trans a.encoded b.encoded c.encoded) (fun a b => strLe_total a.encoded b.encoded) _

theorem lines_encoded {T : NQ.Tables} {qs : List (Quad β)} {out : Rdfcanon.Out β} (hs : Shape T qs out) :
    out.lines.map (·.encoded) = sortStr (qs.map (Spec.RDFC10.nquad (labelOf out))) := by
  rw [hs.lines, List.map_mergeSort (s := strLe) (f := fun (l : Rdfcanon.Line) => l.encoded) (fun a _ b _ => rfl),
    lineList_encoded]
  rfl

theorem original_index {T : NQ.Tables} {qs : List (Quad β)} {out : Rdfcanon.Out β} (hs : Shape T qs out) :
    (∀ l ∈ out.lines, ∃ q, qs[l.idx]? = some q ∧ l.encoded = Spec.RDFC10.nquad (labelOf out) q) ∧
    (out.lines.map (·.idx)).Perm (List.range qs.length) := by
  constructor
  · intro l hl
    rw [hs.lines, List.mem_mergeSort] at hl
    obtain ⟨i, q, h1, h2⟩ := mem_lineList _ qs 0 l hl
    exact ⟨q, by rw [h2]; simpa using h1, by rw [h2]⟩
  · rw [hs.lines]
    refine ((List.mergeSort_perm _ _).map _).trans ?_
    rw [lineList_idx, List.range_eq_range']

/-! ### limits; the simple case -/

theorem h2bM_eq_h2bS (T : NQ.Tables) (henc : EncOK T) (H : Str → Str) (ord : List β → List β)
    {mb : List (β × List (Rdfcanon.CQuad β))} {sb : Spec.RDFC10.B2Q β} (hb : BRel T mb sb) :
    h2bM H ord mb = h2bS H ord sb := by
  unfold h2bM h2bS
  have hkeys : mb.map (·.1) = sb.map (·.1) := by rw [← hb.b2q, keys_forget]
  rw [hkeys]
  apply foldl_ext_mem
  intro n _ acc
  rw [hashFirstDegree_eq T henc H hb n]

/-- With distinct first-degree hashes the Go canonicalizer never reaches its work limits. -/
theorem canon_ok_of_allDistinct (T : NQ.Tables) (hT : TablesCanon T) (H : Str → Str) (lim : Rdfcanon.Limits)
    (ord : List β → List β) (hord : OrdOK ord) (qs : List (Quad β)) (hwf : ∀ q ∈ qs, WFQuad T q)
    (hd : AllDistinct H qs) : ∃ out, Rdfcanon.canon T H lim ord qs = .ok out := by
  have henc := encOK_of_tables T hT
  obtain ⟨st0, hi1, hi2, hi3, hi4, hi5⟩ := ingest_wf T qs 0 ⟨[], Rdfcanon.newCanonicalIssuer, []⟩ hwf (by simp)
  have hsb : forget st0.b2q = Spec.RDFC10.bnodeToQuads true qs := by
    rw [hi4, bnodeToQuads_eq]; rfl
  have hb0 : BRel T st0.b2q (Spec.RDFC10.bnodeToQuads true qs) := ⟨hsb, hi5⟩
  rw [canon_unfold T H lim ord qs st0 hi1, h2bM_eq_h2bS T henc H ord hb0]
  have hd' : ((ord ((Spec.RDFC10.bnodeToQuads true qs).map (·.1))).map
      (Spec.RDFC10.hashFirstDegree H (Spec.RDFC10.bnodeToQuads true qs))).Nodup := by
    have : ((Spec.RDFC10.bnodeToQuads true qs).map (·.1)).map
          (Spec.RDFC10.hashFirstDegree H (Spec.RDFC10.bnodeToQuads true qs))
        = (Spec.RDFC10.bnodeToQuads true qs).map
          (fun e => Spec.RDFC10.hashFirstDegree H (Spec.RDFC10.bnodeToQuads true qs) e.1) := by
      simp [List.map_map, Function.comp_def]
    exact ((hord _).map _).symm.nodup (this ▸ hd)
  have h3 : h2bS H ord (Spec.RDFC10.bnodeToQuads true qs)
      = [] ++ (ord ((Spec.RDFC10.bnodeToQuads true qs).map (·.1))).map
        (fun n => (Spec.RDFC10.hashFirstDegree H (Spec.RDFC10.bnodeToQuads true qs) n, [n])) := by
    unfold h2bS
    exact foldl_addToMap_fresh (Spec.RDFC10.hashFirstDegree H (Spec.RDFC10.bnodeToQuads true qs))
      (ord ((Spec.RDFC10.bnodeToQuads true qs).map (·.1))) [] (by simpa using hd')
  have hfil : (sortByKey (h2bS H ord (Spec.RDFC10.bnodeToQuads true qs))).filter
      (fun e => e.2.length > 1) = [] := by
    rw [List.filter_eq_nil_iff]
    intro e he
    have he' : e ∈ h2bS H ord (Spec.RDFC10.bnodeToQuads true qs) := by simpa [sortByKey] using he
    rw [h3] at he'
    simp only [List.nil_append, List.mem_map] at he'
    obtain ⟨n, _, hn⟩ := he'
    rw [← hn]; simp
  rw [hfil]
  simp only [Rdfcanon.step5]
  exact ⟨_, rfl⟩

theorem wfQuad_map {γ : Type} (T : NQ.Tables) (σ : β → γ) (q : Quad β) (h : WFQuad T q) :
    WFQuad T (q.map σ) := by
  obtain ⟨s, p, o, g⟩ := q
  obtain ⟨hs, hp, ho, hg⟩ := h
  refine ⟨?_, ?_, ?_, ?_⟩
  · cases s <;> simp_all [Quad.map, Term.map, WFNode]
  · cases p <;> simp_all [Quad.map, Term.map, WFPredicate]
  · cases o <;> simp_all [Quad.map, Term.map, WFObject, WFNode]
  · intro g' hg'
    cases g with
    | none => simp [Quad.map] at hg'
    | some g0 =>
      simp only [Quad.map, Option.map_some, Option.some.injEq] at hg'
      subst hg'
      have := hg g0 rfl
      cases g0 <;> simp_all [Term.map, WFNode]

theorem bytes_eq_flatten (out : Rdfcanon.Out β) : out.bytes = (specView out).lines.flatten := rfl

/-- **C03, simple case**: all first-degree hashes distinct ⇒ the Go canonicalizer's bytes do not
    depend on the order of the quads, the names of the blank nodes, Go's map iteration order or the
    limits. -/
theorem canon_invariant_simple {γ : Type} [DecidableEq γ] (T : NQ.Tables) (hT : TablesCanon T)
    (H : Str → Str) (σ : β → γ) (hσ : Function.Injective σ) (qs : List (Quad β)) (qs' : List (Quad γ))
    (hp : qs'.Perm (qs.map (Quad.map σ))) (hwf : ∀ q ∈ qs, WFQuad T q) (hd : AllDistinct H qs)
    (lim lim' : Rdfcanon.Limits) (ord : List β → List β) (ord' : List γ → List γ)
    (hord : OrdOK ord) (hord' : OrdOK ord') :
    ∃ out out', Rdfcanon.canon T H lim ord qs = .ok out ∧ Rdfcanon.canon T H lim' ord' qs' = .ok out' ∧
      out.bytes = out'.bytes ∧
      (∀ b ∈ qs.flatMap Spec.RDFC10.quadBnodes, labelOf out' (σ b) = labelOf out b) := by
  have hwf' : ∀ q ∈ qs', WFQuad T q := by
    intro q hq
    obtain ⟨q0, hq0, rfl⟩ := List.mem_map.mp (hp.subset hq)
    exact wfQuad_map T σ q0 (hwf q0 hq0)
  have hd' := allDistinct_transport H σ hσ qs qs' hp hd
  obtain ⟨out, ho⟩ := canon_ok_of_allDistinct T hT H lim ord hord qs hwf hd
  obtain ⟨out', ho'⟩ := canon_ok_of_allDistinct T hT H lim' ord' hord' qs' hwf' hd'
  have hr := canon_refines_spec T hT H lim ord hord (Rdfcanon.heapPerms (lim.maxPermutations + 1))
    (fun _ _ => rfl) qs hwf out ho
  have hr' := canon_refines_spec T hT H lim' ord' hord' (Rdfcanon.heapPerms (lim'.maxPermutations + 1))
    (fun _ _ => rfl) qs' hwf' out' ho'
  obtain ⟨r, r', h1, h2, h3, h4, _⟩ := spec_invariant_simple H σ hσ qs qs' hp hd ord ord' hord hord'
    (Rdfcanon.heapPerms (lim.maxPermutations + 1)) (Rdfcanon.heapPerms (lim'.maxPermutations + 1))
    (lim.maxRecursionDepth + 1) (lim'.maxRecursionDepth + 1)
  rw [hr] at h1
  rw [hr'] at h2
  have e1 : specView out = r := Option.some.inj h1
  have e2 : specView out' = r' := Option.some.inj h2
  refine ⟨out, out', ho, ho', ?_, ?_⟩
  · rw [bytes_eq_flatten, bytes_eq_flatten, e1, e2, h3]
  · intro b hb
    have := h4 b hb
    rw [← e1, ← e2] at this
    simp only [labelOf]
    show (assoc (specView out').issued (σ b)).getD [] = (assoc (specView out).issued b).getD []
    rw [this]

/-- **C03, limits**: on well-formed input the only outcomes are one of the two limit errors, or a result
    that is the specification's result (for every recursion bound at least as large) with the shape
    the other theorems describe. Never a panic, never a different answer. -/
theorem limit_never_wrong (T : NQ.Tables) (hT : TablesCanon T) (H : Str → Str) (lim : Rdfcanon.Limits)
    (ord : List β → List β) (hord : OrdOK ord) (qs : List (Quad β)) (hwf : ∀ q ∈ qs, WFQuad T q) :
    (∃ l, Rdfcanon.canon T H lim ord qs = .limit l) ∨
    (∃ out, Rdfcanon.canon T H lim ord qs = .ok out ∧ Shape T qs out ∧
      ∀ perms, PermsAgree lim.maxPermutations perms → ∀ fuel, lim.maxRecursionDepth + 1 ≤ fuel →
        Spec.RDFC10.canonFuel H ord perms true fuel qs = some (specView out)) := by
  cases h : Rdfcanon.canon T H lim ord qs with
  | limit l => exact Or.inl ⟨l, rfl⟩
  | panic => exact absurd h (canon_ne_panic T H lim ord qs hwf)
  | ok out =>
    refine Or.inr ⟨out, rfl, shape_of_ok T hT H lim ord hord qs hwf out h, ?_⟩
    intro perms hperms fuel hfuel
    exact canonFuel_mono H ord perms true qs
      (canon_refines_spec T hT H lim ord hord perms hperms qs hwf out h) hfuel

end RdfModel.Proofs.C03
