package main

// Seed corpora: every W3C test-suite archive shipped in the repository (testdata.tar.gz), by format.

import (
	"archive/tar"
	"compress/gzip"
	"io"
	"os"
	"path/filepath"
	"sort"
	"strings"
)

type seed struct {
	name string
	b    []byte
}

func repoRoot() string {
	if v := os.Getenv("VERIF_REPO"); v != "" {
		return v
	}
	return "/repo"
}

func readTarGz(path string, f func(name string, b []byte)) error {
	fh, err := os.Open(path)
	if err != nil {
		return err
	}
	defer fh.Close()
	gz, err := gzip.NewReader(fh)
	if err != nil {
		return err
	}
	tr := tar.NewReader(gz)
	for {
		h, err := tr.Next()
		if err == io.EOF {
			return nil
		}
		if err != nil {
			return err
		}
		if h.Typeflag != tar.TypeReg || strings.Contains(h.Name, "/._") {
			continue
		}
		b, err := io.ReadAll(tr)
		if err != nil {
			return err
		}
		f(strings.TrimPrefix(h.Name, "./"), b)
	}
}

// loadCorpus: format -> documents. "htmlsrc" documents serve rdfa, microdata, htmljsonld and html.
func loadCorpus() (map[string][]seed, error) {
	root := repoRoot()
	by := map[string][]seed{}
	var archives []string
	filepath.Walk(root, func(p string, info os.FileInfo, err error) error {
		if err != nil {
			return nil
		}
		if info.IsDir() && (info.Name() == ".git" || info.Name() == "node_modules") {
			return filepath.SkipDir
		}
		if !info.IsDir() && info.Name() == "testdata.tar.gz" {
			archives = append(archives, p)
		}
		return nil
	})
	sort.Strings(archives)
	for _, a := range archives {
		rel, _ := filepath.Rel(root, a)
		suite := filepath.Base(filepath.Dir(a))
		isRdfa := strings.Contains(rel, "htmlrdfa")
		err := readTarGz(a, func(name string, b []byte) {
			full := suite + "/" + name
			add := func(f string) { by[f] = append(by[f], seed{full, b}) }
			switch strings.ToLower(filepath.Ext(name)) {
			case ".ttl":
				if !isRdfa || len(by["ttl"])%16 == 0 { // the RDFa suite ships 1584 expected-result files
					add("ttl")
				}
				if !isRdfa {
					add("trig") // Turtle documents are TriG documents
				}
			case ".trig":
				add("trig")
			case ".nt":
				add("ttl")
				add("trig")
			case ".nq":
				add("trig")
			case ".rdf":
				add("rdfxml")
			case ".jsonld":
				add("jsonld")
			case ".json":
				if strings.Contains(rel, "jsonld") {
					add("jsonld")
				}
			case ".html", ".xhtml", ".svg", ".xml", ".htm":
				add("htmlsrc")
			}
		})
		if err != nil {
			return nil, err
		}
	}
	return by, nil
}

func corpusFor(by map[string][]seed, format string) []seed {
	if htmlFamily[format] {
		return by["htmlsrc"]
	}
	return by[format]
}
