// Verbatim copy of Decoder.htmlRender / htmlRebuild from /repo/encoding/htmlrdfa/decoder_html_util.go with the (unused) *Decoder
// receivers removed: the method is unexported and is a PARAMETER of the Lean model (Env.htmlRender); the harness supplies its value
// from this copy, so a change of the repository's htmlRender shows up as a disagreement on documents with rdf:HTML properties.
package main

import (
	"bytes"
	"fmt"

	"golang.org/x/net/html"
)

func htmlRender(n *html.Node) (string, error) {
	buf := &bytes.Buffer{}

	for c := n.FirstChild; c != nil; c = c.NextSibling {
		rebuilt := htmlRebuild(c)

		err := html.Render(buf, rebuilt)
		if err != nil {
			return "", fmt.Errorf("render: %v", err)
		}
	}

	raw := buf.String()

	return raw, nil
}

func htmlRebuild(n *html.Node) *html.Node {
	nextNode := &html.Node{
		Type:      n.Type,
		DataAtom:  n.DataAtom,
		Data:      n.Data,
		Namespace: n.Namespace,
	}

	for _, attr := range n.Attr {
		if attr.Namespace == "" && attr.Key == "data-turple-offset" {
			continue
		}

		nextNode.Attr = append(nextNode.Attr, attr)
	}

	for c := n.FirstChild; c != nil; c = c.NextSibling {
		nextChild := htmlRebuild(c)
		nextNode.AppendChild(nextChild)
	}

	return nextNode
}
