/-
  Driver handler for component `pm` (property C13): PrefixManager histories, CURIE scope, BaseIRI.
  Token forms (besides `x<hex>` bytes of Driver/Wire.lean):
    maps    `-` (empty) or `m<phex>=<ehex>,m<phex>=<ehex>…`
    keys    `-` (empty) or `k<hex>,k<hex>…`
    curie   `<safe01><default01>:<phex>:<rhex>`
  `pm.run <op>…` with op tokens  N:<maps>  K<h>  A<h>:<maps>  D<h>:<keys>  (mutations on a store of managers)
  and observations  G<h>  C<h>:<hex>  E<h>:<phex>=<rhex>  U<h>; the answer is the `;`-joined list of
  observation results (`!` appended when a call panicked; the rest of the history is then skipped).
-/
import RdfModel.Driver.Wire
import RdfModel.Model.Prefix
namespace RdfModel.Driver.Prefix
open RdfModel RdfModel.Wire RdfModel.Prefix

def hexOpt (s : String) : Option (List Nat) := unhexChars s.toList

def parseMapping (s : String) : Option Mapping :=
  match s.toList with
  | 'm' :: rest =>
    match (String.ofList rest).splitOn "=" with
    | [p, e] => do pure ⟨← hexOpt p, ← hexOpt e⟩
    | _ => none
  | _ => none

def parseMaps (s : String) : Option (List Mapping) :=
  if s = "-" then some [] else (s.splitOn ",").mapM parseMapping

def parseKey (s : String) : Option (List Nat) :=
  match s.toList with
  | 'k' :: rest => unhexChars rest
  | _ => none

def parseKeys (s : String) : Option (List (List Nat)) :=
  if s = "-" then some [] else (s.splitOn ",").mapM parseKey

def showMapping (m : Mapping) : String := hexOfBytes m.pfx ++ "=" ++ hexOfBytes m.expanded

def showMaps (ms : List Mapping) : String := String.intercalate "," (ms.map showMapping)

def parseCurie (s : String) : Option CURIE :=
  match s.splitOn ":" with
  | [fl, p, r] =>
    match fl.toList with
    | [a, b] => do pure ⟨a = '1', b = '1', ← hexOpt p, ← hexOpt r⟩
    | _ => none
  | _ => none

def b01 (b : Bool) : String := if b then "1" else "0"

def showCurie (c : CURIE) : String :=
  b01 c.safe ++ b01 c.defaultPrefix ++ ":" ++ hexOfBytes c.pfx ++ ":" ++ hexOfBytes c.reference

/-- sorter that breaks ties in favour of the mapping with prefix `k` (harness hint: the choice the Go
    run made among equal-length namespaces); still a permutation sorted by descending length -/
def preferSorter (k : List Nat) : Sorter where
  sort l := isort (l.filter (fun m => m.pfx == k) ++ l.filter (fun m => !(m.pfx == k)))
  perm l := (isort_perm _).trans (List.filter_append_perm _ l)
  sorted _ := mergeSorter.sorted _

/-- all prefixes that a sorter may put first among the mappings with the winning namespace -/
def admissible (p : PM) (v : List Nat) : List (List Nat) :=
  match p.ordered.find? (fun m => decide (m.expanded.length ≤ v.length ∧ v.take m.expanded.length = m.expanded)) with
  | none => []
  | some w => (p.ordered.filter (fun m => m.expanded == w.expanded)).map (·.pfx)

/-- insertion sort of byte strings (for canonical `used` sets) -/
def strLt : List Nat → List Nat → Bool
  | [], [] => false
  | [], _ :: _ => true
  | _ :: _, [] => false
  | a :: as, b :: bs => if a < b then true else if b < a then false else strLt as bs

def insertSorted (x : List Nat) : List (List Nat) → List (List Nat)
  | [] => [x]
  | y :: ys => if x = y then y :: ys else if strLt x y then x :: y :: ys else y :: insertSorted x ys

def canonSet (xs : List (List Nat)) : List (List Nat) := xs.foldl (fun acc x => insertSorted x acc) []

abbrev St := List (PM × Usage)

def numOf (s : String) : Option Nat := s.toNat?

/-- split `X<h>:<payload>` (payload optional) -/
def headArg (rest : List Char) : Option (Nat × String) :=
  match (String.ofList rest).splitOn ":" with
  | [h] => do pure (← numOf h, "")
  | [h, p] => do pure (← numOf h, p)
  | _ => none

def runOps : List String → St → List String → Option String
  | [], _, outs => some (String.intercalate ";" outs.reverse)
  | tok :: toks, st, outs =>
    match tok.toList with
    | 'N' :: ':' :: rest => do
      let ms ← parseMaps (String.ofList rest)
      runOps toks (st ++ [(new mergeSorter ms, ⟨[]⟩)]) outs
    | 'K' :: rest => do
      let (h, _) ← headArg rest
      match st[h]? with
      | some (p, _) => runOps toks (st ++ [(clone p, ⟨[]⟩)]) outs
      | none => none
    | 'A' :: rest => do
      let (h, pl) ← headArg rest
      let ms ← parseMaps pl
      match st[h]? with
      | some (p, u) => runOps toks (st.set h (add mergeSorter p ms, u)) outs
      | none => none
    | 'D' :: rest => do
      let (h, pl) ← headArg rest
      let ks ← parseKeys pl
      match st[h]? with
      | some (p, u) =>
        match delete p ks with
        | some p' => runOps toks (st.set h (p', u)) outs
        | none => some (String.intercalate ";" ("!" :: outs).reverse)
      | none => none
    | 'G' :: rest => do
      let (h, _) ← headArg rest
      match st[h]? with
      | some (p, _) => runOps toks st (("G" ++ showMaps (getMappings p)) :: outs)
      | none => none
    | 'C' :: rest => do
      let (h, pl) ← headArg rest
      let v ← hexOpt pl
      match st[h]? with
      | some (p, u) =>
        let (r, u') := u.compact p v
        let o := match r with
          | none => "Cnone"
          | some pr => "C" ++ hexOfBytes pr.reference ++ "|" ++ String.intercalate "," ((admissible p v).map hexOfBytes)
        runOps toks (st.set h (p, u')) (o :: outs)
      | none => none
    | 'E' :: rest => do
      let (h, pl) ← headArg rest
      match pl.splitOn "=" with
      | [a, b] =>
        let pr : PrefixRef := ⟨← hexOpt a, ← hexOpt b⟩
        match st[h]? with
        | some (p, u) =>
          let (r, u') := u.expand p pr
          let o := match r with
            | none => "Enone"
            | some e => "E" ++ hexOfBytes e
          runOps toks (st.set h (p, u')) (o :: outs)
        | none => none
      | _ => none
    | 'U' :: rest => do
      let (h, _) ← headArg rest
      match st[h]? with
      | some (_, u) => runOps toks st (("U" ++ String.intercalate "," ((canonSet u.used).map hexOfBytes)) :: outs)
      | none => none
    | _ => none

def showOutcome : Outcome → String
  | .panic => "panic"
  | .none => "none"
  | .some r => "some:" ++ tokOfBytes r

def showIdx : Option Nat → String
  | none => "-1"
  | some n => toString n

def parseScope (safe dp dpe : String) : Option Scope := do
  let d ← bytesTok dp
  pure ⟨safe = "1", d, dpe = "1"⟩

def handle (op : String) (args : List String) : Option String :=
  match op, args with
  | "run", ops => runOps ops [] []
  | "rel", [b, v] => do
    let b ← bytesTok b
    let v ← bytesTok v
    pure (showOutcome (relativize b v))
  | "base", [b] => do
    let b ← bytesTok b
    let rb := newBaseIRI b
    pure (showIdx (rb.root.map (·.1)) ++ " " ++ showIdx (rb.root.map (·.2)) ++ " " ++ toString rb.resourceIndex ++ " " ++
      showIdx rb.queryIndex ++ " " ++ showIdx rb.fragmentIndex)
  | "resolve", [b, r] => do
    let b ← bytesTok b
    let r ← bytesTok r
    pure (tokOfBytes (goResolve b r))
  | "spec", [b, r] => do
    let b ← bytesTok b
    let r ← bytesTok r
    pure (tokOfBytes (Spec.RFC3986Lite.resolve b r))
  | "ccompact", [safe, dp, dpe, maps, v, hint] => do
    let sc ← parseScope safe dp dpe
    let ms ← parseMaps maps
    let v ← bytesTok v
    let k ← bytesTok hint
    pure (showCurie (compactCURIE sc (new (preferSorter k) ms) v))
  | "cexpand", [safe, dp, dpe, maps, c] => do
    let sc ← parseScope safe dp dpe
    let ms ← parseMaps maps
    let c ← parseCurie c
    match expandCURIE sc (new mergeSorter ms) c with
    | none => pure "none"
    | some e => pure (tokOfBytes e)
  | "cstring", [c] => do
    let c ← parseCurie c
    pure (tokOfBytes c.string ++ " " ++ tokOfBytes c.safeString)
  | "cparse", [s] => do
    let s ← bytesTok s
    match parseCURIE s with
    | none => pure "none"
    | some c => pure (showCurie c)
  | _, _ => none

end RdfModel.Driver.Prefix
