/-
  C20 (date/time family): same-fields part of the canonicalisation clause. Frame of the parse loop
  (a field changes only when its layout element occurs), the state reached when a sibling layout
  reads a written text (`cross_state`), and `canon_of2` = `canon_of` with equality of fields.
-/
import RdfModel.Proofs.C20TimeRT
namespace RdfModel.Proofs.C20Time
open RdfModel RdfModel.GoTime
open RdfModel.Xsd (Tok Bytes layoutToks nextIsFrac)

def isFrac : Tok → Bool
  | .frac0 _ _ => true
  | _ => false

/-- relation between two states of the parse loop over the elements `toks`: a field is unchanged
    unless its element occurs; without fraction element a non-zero nsec is flagged `fracDropped` -/
def Frame (toks : List Tok) (st stf : PS) : Prop :=
  (Tok.year ∉ toks → stf.t.year = st.t.year) ∧ (Tok.month ∉ toks → stf.t.month = st.t.month) ∧
  (Tok.day ∉ toks → stf.t.day = st.t.day) ∧ (Tok.hour ∉ toks → stf.t.hour = st.t.hour) ∧
  (Tok.minute ∉ toks → stf.t.min = st.t.min) ∧ (Tok.second ∉ toks → stf.t.sec = st.t.sec) ∧
  (Tok.tz ∉ toks → stf.t.zone = st.t.zone) ∧
  (toks.any isFrac = false → (st.n.fracDropped = false → st.t.nsec = 0) → (stf.n.fracDropped = false → stf.t.nsec = 0))

theorem step_frame {ts : List Tok} {tok : Tok} {st st' : PS} {v r : Bytes} (h : step ts tok st v = some (st', r)) :
    Frame [tok] st st' := by
  cases tok with
  | lit b => rw [step_lit_iff] at h; rw [h.2]; simp [Frame]
  | year => rw [step_year_iff] at h; obtain ⟨y, _, rfl⟩ := h; simp [Frame]
  | month => rw [step_month_iff] at h; obtain ⟨m, _, _, _, rfl⟩ := h; simp [Frame]
  | day => rw [step_day_iff] at h; obtain ⟨d, _, rfl⟩ := h; simp [Frame]
  | hour => rw [step_hour_iff] at h; obtain ⟨hh, one, _, _, rfl⟩ := h; simp [Frame]
  | minute => rw [step_minute_iff] at h; obtain ⟨m, _, _, rfl⟩ := h; simp [Frame]
  | second =>
    obtain ⟨s, r1, _, _, hc⟩ := step_second_inv h
    rcases hc with ⟨_, rfl⟩ | ⟨_, p, d, r2, f, _, _, _, _, rfl⟩
    · simp [Frame]
    · simp [Frame]
  | frac0 n sep => obtain ⟨_, f, _, _, rfl⟩ := step_frac0_inv h; simp [Frame, isFrac]
  | tz =>
    rcases step_tz_inv h with rfl | ⟨hr, mm, o, _, _, _, rfl⟩
    · simp [Frame, isFrac]
    · simp [Frame, isFrac]
  | unknown => simp [step] at h

theorem nm1 {x tok : Tok} {ts : List Tok} (h : x ∉ tok :: ts) : x ∉ [tok] := by
  intro m; apply h; simp only [List.mem_singleton] at m; simp [m]
theorem nm2 {x tok : Tok} {ts : List Tok} (h : x ∉ tok :: ts) : x ∉ ts := fun m => h (List.mem_cons_of_mem _ m)
theorem any1 {p : Tok → Bool} {tok : Tok} {ts : List Tok} (h : (tok :: ts).any p = false) : [tok].any p = false := by
  simp only [List.any_cons, Bool.or_eq_false_iff] at h; simp [h.1]
theorem any2 {p : Tok → Bool} {tok : Tok} {ts : List Tok} (h : (tok :: ts).any p = false) : ts.any p = false := by
  simp only [List.any_cons, Bool.or_eq_false_iff] at h; exact h.2

theorem frame_trans {tok : Tok} {ts : List Tok} {a b c : PS} (h1 : Frame [tok] a b) (h2 : Frame ts b c) :
    Frame (tok :: ts) a c := by
  obtain ⟨a1, a2, a3, a4, a5, a6, a7, a8⟩ := h1
  obtain ⟨b1, b2, b3, b4, b5, b6, b7, b8⟩ := h2
  refine ⟨?_, ?_, ?_, ?_, ?_, ?_, ?_, ?_⟩
  · intro h; rw [b1 (nm2 h), a1 (nm1 h)]
  · intro h; rw [b2 (nm2 h), a2 (nm1 h)]
  · intro h; rw [b3 (nm2 h), a3 (nm1 h)]
  · intro h; rw [b4 (nm2 h), a4 (nm1 h)]
  · intro h; rw [b5 (nm2 h), a5 (nm1 h)]
  · intro h; rw [b6 (nm2 h), a6 (nm1 h)]
  · intro h; rw [b7 (nm2 h), a7 (nm1 h)]
  · intro h h0; exact b8 (any2 h) (a8 (any1 h) h0)

theorem parseToks_frame : ∀ (toks : List Tok) (st stf : PS) (a : Bytes), parseToks toks st a = some stf → Frame toks st stf := by
  intro toks
  induction toks with
  | nil =>
    intro st stf a h
    obtain ⟨_, rfl⟩ := end_inv (by simpa [parseToks] using h)
    simp [Frame]
  | cons tok ts ih =>
    intro st stf a h
    simp only [parseToks, Option.bind_eq_some_iff, Prod.exists] at h
    obtain ⟨s1, r1, hs, hrest⟩ := h
    exact frame_trans (step_frame hs) (ih _ _ _ hrest)
theorem fmt_tz_ne_nil {nw : Bool} {v : PT} (hz : ZoneOK nw v.zone) : fmtTok v .tz ≠ [] := by
  rcases fmt_tz_cases hz with ⟨e, _⟩ | ⟨sg, hr, mm, _, _, _, _, e, _⟩ <;> simp [e]

theorem fmt_tz_Z {nw : Bool} {v : PT} (hz : ZoneOK nw v.zone) (h : fmtTok v .tz = [0x5A]) : v.zone.getD 0 = 0 := by
  rcases fmt_tz_cases hz with ⟨_, e0⟩ | ⟨sg, hr, mm, hs, _, _, _, e, _⟩
  · exact e0
  · rw [e] at h; simp [pad2] at h

/-- the state reached when `pre ++ tl'` reads the text written with `pre ++ tl` -/
theorem cross_state (v : PT) (pre : List Tok) (tl tl' : Tail)
    (hwf : ∀ ts2, WF v ts2 (formatWith tl.toks v) pre) (hz : ZoneOK true v.zone)
    (hzn : (foldSt v pre {}).t.zone = none)
    {st'' : PS} (h : parseWith (pre ++ tl'.toks) (formatWith (pre ++ tl.toks) v) = some st'') :
    ∃ zo, st''.t = { (foldSt v pre {}).t with zone := zo } ∧
      (tl = .tz → zo.getD 0 = v.zone.getD 0) ∧ (tl ≠ .tz → zo.getD 0 = 0) := by
  obtain ⟨hp, _⟩ := parseWith_inv h
  rw [formatWith_append, rt_prefix v tl'.toks (formatWith tl.toks v) pre {} (hwf _)] at hp
  have etz : formatWith Tail.tz.toks v = fmtTok v .tz := by simp [toks_tz, formatWith]
  cases tl' with
  | none =>
    simp only [toks_none, parseToks] at hp
    obtain ⟨he, rfl⟩ := end_inv hp
    refine ⟨(foldSt v pre {}).t.zone, rfl, ?_, fun _ => by rw [hzn]; rfl⟩
    intro e; subst e; rw [etz] at he; exact absurd he (fmt_tz_ne_nil hz)
  | z =>
    simp only [toks_z] at hp
    unfold_parse at hp
    obtain ⟨s2, r2, ⟨he, rfl⟩, hend⟩ := hp
    obtain ⟨rfl, rfl⟩ := end_inv hend
    refine ⟨(foldSt v pre {}).t.zone, rfl, ?_, fun _ => by rw [hzn]; rfl⟩
    intro e; subst e; rw [etz] at he; rw [hzn, fmt_tz_Z hz he]; rfl
  | tz =>
    simp only [toks_tz] at hp
    unfold_parse at hp
    obtain ⟨s2, r2, htz, hend⟩ := hp
    obtain ⟨rfl, rfl⟩ := end_inv hend
    cases tl with
    | none => simp [toks_none, formatWith, step] at htz
    | z =>
      have e : formatWith Tail.z.toks v = 0x5A :: [] := by simp [toks_z, formatWith, fmtTok]
      rw [e, sf_tz_Z] at htz
      simp only [Option.some.injEq, Prod.mk.injEq, and_true] at htz
      subst htz
      exact ⟨some 0, rfl, (fun e => by cases e), fun _ => rfl⟩
    | tz =>
      obtain ⟨w, hw, _⟩ := rt_tz v [] (foldSt v pre {}) [] hz
      rw [etz] at htz
      have : fmtTok v .tz = fmtTok v .tz ++ [] := by simp
      rw [this, hw] at htz
      simp only [Option.some.injEq, Prod.mk.injEq, and_true] at htz
      subst htz
      exact ⟨some (v.zone.getD 0), rfl, fun _ => rfl, fun h => absurd rfl h⟩

/-- what `cross_state` says about the zone read back -/
def ZoneSame (tl : Tail) (v : PT) (zo : Option Int) : Prop :=
  (tl = .tz → zo.getD 0 = v.zone.getD 0) ∧ (tl ≠ .tz → zo.getD 0 = 0)

theorem same_D {tl : Tail} {v : PT} {n : Notes} (hfr : Frame (preD ++ tl.toks) {} { t := v, n := n })
    (hfd : n.fracDropped = false) (zo : Option Int) (hzs : ZoneSame tl v zo) :
    PT.same { (foldSt v preD {}).t with zone := zo } v = true := by
  obtain ⟨hz1, hz2⟩ := hzs
  cases tl <;> simp [Frame, preD, toks_none, toks_z, toks_tz, isFrac, hfd] at hfr hz1 hz2 <;>
    simp [PT.same, preD, foldSt, stepSt, setT, hfr, hz1, hz2]
theorem same_C {tl : Tail} {v : PT} {n : Notes} (hfr : Frame (preC ++ tl.toks) {} { t := v, n := n })
    (hfd : n.fracDropped = false) (zo : Option Int) (hzs : ZoneSame tl v zo) :
    PT.same { (foldSt v preC {}).t with zone := zo } v = true := by
  obtain ⟨hz1, hz2⟩ := hzs
  cases tl <;> simp [Frame, preC, toks_none, toks_z, toks_tz, isFrac, hfd] at hfr hz1 hz2 <;>
    simp [PT.same, preC, foldSt, stepSt, setT, hfr, hz1, hz2]
theorem same_DT {tl : Tail} {v : PT} {n : Notes} (hfr : Frame (preDT ++ tl.toks) {} { t := v, n := n })
    (hfd : n.fracDropped = false) (zo : Option Int) (hzs : ZoneSame tl v zo) :
    PT.same { (foldSt v preDT {}).t with zone := zo } v = true := by
  obtain ⟨hz1, hz2⟩ := hzs
  cases tl <;> simp [Frame, preDT, toks_none, toks_z, toks_tz, isFrac, hfd] at hfr hz1 hz2 <;>
    simp [PT.same, preDT, foldSt, stepSt, setT, hfr, hz1, hz2]
theorem same_GD {tl : Tail} {v : PT} {n : Notes} (hfr : Frame (preGD ++ tl.toks) {} { t := v, n := n })
    (hfd : n.fracDropped = false) (zo : Option Int) (hzs : ZoneSame tl v zo) :
    PT.same { (foldSt v preGD {}).t with zone := zo } v = true := by
  obtain ⟨hz1, hz2⟩ := hzs
  cases tl <;> simp [Frame, preGD, toks_none, toks_z, toks_tz, isFrac, hfd] at hfr hz1 hz2 <;>
    simp [PT.same, preGD, foldSt, stepSt, setT, hfr, hz1, hz2]
theorem same_GM {tl : Tail} {v : PT} {n : Notes} (hfr : Frame (preGM ++ tl.toks) {} { t := v, n := n })
    (hfd : n.fracDropped = false) (zo : Option Int) (hzs : ZoneSame tl v zo) :
    PT.same { (foldSt v preGM {}).t with zone := zo } v = true := by
  obtain ⟨hz1, hz2⟩ := hzs
  cases tl <;> simp [Frame, preGM, toks_none, toks_z, toks_tz, isFrac, hfd] at hfr hz1 hz2 <;>
    simp [PT.same, preGM, foldSt, stepSt, setT, hfr, hz1, hz2]
theorem same_GMD {tl : Tail} {v : PT} {n : Notes} (hfr : Frame (preGMD ++ tl.toks) {} { t := v, n := n })
    (hfd : n.fracDropped = false) (zo : Option Int) (hzs : ZoneSame tl v zo) :
    PT.same { (foldSt v preGMD {}).t with zone := zo } v = true := by
  obtain ⟨hz1, hz2⟩ := hzs
  cases tl <;> simp [Frame, preGMD, toks_none, toks_z, toks_tz, isFrac, hfd] at hfr hz1 hz2 <;>
    simp [PT.same, preGMD, foldSt, stepSt, setT, hfr, hz1, hz2]
theorem same_GY {tl : Tail} {v : PT} {n : Notes} (hfr : Frame (preGY ++ tl.toks) {} { t := v, n := n })
    (hfd : n.fracDropped = false) (zo : Option Int) (hzs : ZoneSame tl v zo) :
    PT.same { (foldSt v preGY {}).t with zone := zo } v = true := by
  obtain ⟨hz1, hz2⟩ := hzs
  cases tl <;> simp [Frame, preGY, toks_none, toks_z, toks_tz, isFrac, hfd] at hfr hz1 hz2 <;>
    simp [PT.same, preGY, foldSt, stepSt, setT, hfr, hz1, hz2]
theorem same_GYM {tl : Tail} {v : PT} {n : Notes} (hfr : Frame (preGYM ++ tl.toks) {} { t := v, n := n })
    (hfd : n.fracDropped = false) (zo : Option Int) (hzs : ZoneSame tl v zo) :
    PT.same { (foldSt v preGYM {}).t with zone := zo } v = true := by
  obtain ⟨hz1, hz2⟩ := hzs
  cases tl <;> simp [Frame, preGYM, toks_none, toks_z, toks_tz, isFrac, hfd] at hfr hz1 hz2 <;>
    simp [PT.same, preGYM, foldSt, stepSt, setT, hfr, hz1, hz2]

theorem canon_of2 {ls : List Bytes} {pre : List Tok}
    (hls : ∀ l' ∈ ls, ∃ tl' : Tail, layoutToks l' = pre ++ tl'.toks ∨ layoutToks l' = pre ++ (.frac0 9 0x2E :: tl'.toks))
    {v : PT} (hpre : PreOK v pre) (hz : ZoneOK true v.zone) {tl : Tail} {l : Bytes} (hl : l ∈ ls)
    (hlt : layoutToks l = pre ++ tl.toks) (hzn : (foldSt v pre {}).t.zone = none)
    (hsame : ∀ zo, ZoneSame tl v zo → PT.same { (foldSt v pre {}).t with zone := zo } v = true) :
    ∃ v' n', firstParse ls (timeFormat l v) = some (v', n') ∧ lexTime v' = timeFormat l v ∧ n'.clean = true ∧
      v'.t.same v = true := by
  have hwf : ∀ ts2, WF v ts2 (formatWith tl.toks v) pre := fun ts2 => hpre.wf ts2 _ (tailHead_tail hz tl)
  have hw : timeFormat l v = formatWith (pre ++ tl.toks) v := by simp [timeFormat, hlt]
  apply firstParse_good
  · refine ⟨l, hl, ?_⟩
    obtain ⟨w, hw', _⟩ := rt_layout v pre tl (hwf _) hz hpre.day
    simp [timeParse, hlt, timeFormat, hw']
  · intro l' hl' st hst
    obtain ⟨tl', h' | h'⟩ := hls l' hl'
    · rw [timeParse, h', hw] at hst
      have := cross_plain v pre tl tl' hwf hz hpre.fmt hpre.fmt0 hpre.notes hst
      obtain ⟨zo, hzo, hz1, hz2⟩ := cross_state v pre tl tl' hwf hz hzn hst
      refine ⟨?_, this.2, ?_⟩
      · simp only [lexTime, timeFormat, h', hlt]; exact this.1
      · show PT.same st.t v = true
        rw [hzo]; exact hsame zo ⟨hz1, hz2⟩
    · rw [timeParse, h', hw, cross_frac v pre tl tl' hwf hz] at hst
      cases hst

end RdfModel.Proofs.C20Time
