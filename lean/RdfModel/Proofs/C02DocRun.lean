/-
  Proofs.C02DocRun — a fuel-free, `Next()`-boundary-free view of the Turtle statement machine
  (Model/TurtleDoc.lean) for proofs that *follow* the machine over a document of known shape
  (property C02, document level).

  `Run C e st out st'`: starting in `st` (no pending statements, no error; the frame that runs next is
  the top of the stack) the machine makes scan-function calls, none of which fails, emits `out` in this
  order and reaches `st'`.  `run_of_Run`: if `st'` is the end state (stack dropped, as after
  `terminate()`), then `runLoop` with any sufficient fuel — in particular `run`'s own — yields exactly
  `out` and a clean verdict.  The fuel is handled once, here: `nextLoop` / `runLoop` are monotone in the
  fuel (`c02_nextLoop_mono`, `c02_runLoop_mono`) and the built-in fuel never runs out (`next_fuel`,
  `runLoop_fuel`, Proofs/TtlDocFuel.lean).
-/
import RdfModel.Proofs.TtlDocFuel
namespace RdfModel.TtlDoc
open RdfModel

variable {C : Cfg} {e : End}

/-- more fuel does not change a result that was reached -/
theorem c02_nextLoop_mono : ∀ (a : Nat) (cur : Option Frame) (st : St) (b : Nat), a ≤ b →
    nextLoop C e a cur st ≠ .outOfFuel → nextLoop C e b cur st = nextLoop C e a cur st := by
  intro a
  induction a with
  | zero => intro cur st b _ h; exact absurd rfl h
  | succ a ih =>
    intro cur st b hab h
    obtain ⟨b', rfl⟩ : ∃ b', b = b' + 1 := ⟨b - 1, by omega⟩
    unfold nextLoop at h ⊢
    cases he : st.err.isSome
    · simp only [he, Bool.false_eq_true, ↓reduceIte] at h ⊢
      cases hs : (!st.stmts.isEmpty)
      · simp only [hs, Bool.false_eq_true, ↓reduceIte] at h ⊢
        cases hp : popFrame cur st with
        | none => simp only [hp]
        | some p =>
          obtain ⟨f, st1⟩ := p
          simp only [hp] at h ⊢
          cases hsc : scan C e f st1 with
          | panic => simp only [hsc]
          | err k =>
            simp only [hsc] at h ⊢
            exact ih none _ b' (by omega) h
          | ok cur' st2 =>
            simp only [hsc] at h ⊢
            exact ih cur' st2 b' (by omega) h
      · simp only [hs, ↓reduceIte]
    · simp only [he, ↓reduceIte]

theorem c02_nextLoop_det {a b : Nat} {cur : Option Frame} {st : St}
    (ha : nextLoop C e a cur st ≠ .outOfFuel) (hb : nextLoop C e b cur st ≠ .outOfFuel) :
    nextLoop C e a cur st = nextLoop C e b cur st := by
  rcases Nat.le_total a b with h | h
  · exact (c02_nextLoop_mono a cur st b h ha).symm
  · exact c02_nextLoop_mono b cur st a h hb

/-- `rsNext` may as well sit on the stack (as long as no error is latched) -/
theorem nextLoop_fold (n : Nat) (cur : Option Frame) (st : St) (he : st.err = none) :
    nextLoop C e n cur st = nextLoop C e n none (pushCur cur st) := by
  cases cur with
  | none => rfl
  | some f =>
    cases n with
    | zero => rfl
    | succ n =>
      obtain ⟨stack, inp, env, err, stmts⟩ := st
      simp only at he
      subst he
      unfold nextLoop
      simp only [pushCur, popFrame, Option.isSome_none, Bool.false_eq_true, ↓reduceIte]
      rfl

/-- the state `Next()` works on: the statement handed out by the previous call is dropped -/
def St.dropped (st : St) : St := { st with stmts := st.stmts.drop 1 }

theorem next_eq (st : St) : next C e st = nextLoop C e (st.dropped.cost + 1) none st.dropped := rfl

/-- `Next()` depends on the state only through `dropped` -/
theorem next_congr {st st' : St} (h : st.dropped = st'.dropped) : next C e st = next C e st' := by
  rw [next_eq, next_eq, h]

theorem runLoop_congr {st st' : St} (h : next C e st = next C e st') (n : Nat) :
    runLoop C e n st = runLoop C e n st' := by
  cases n with
  | zero => rfl
  | succ n => unfold runLoop; rw [h]

/-- One successful scan-function call, in the folded view (no `rsNext`). -/
structure Step1 (C : Cfg) (e : End) (st : St) (em : List Stmt) (st' : St) : Prop where
  nostmts : st.stmts = []
  noerr : st.err = none
  ex : ∃ f stk cur' st2, st.stack = f :: stk ∧ scan C e f { st with stack := stk } = .ok cur' st2 ∧
        em = st2.stmts ∧ st' = pushCur cur' { st2 with stmts := [] }

/-- see the file header -/
inductive Run (C : Cfg) (e : End) : St → List Stmt → St → Prop where
  | refl (st : St) : Run C e st [] st
  | step {st st1 st' : St} {em out : List Stmt} : Step1 C e st em st1 → Run C e st1 out st' → Run C e st (em ++ out) st'

theorem Run.trans {a b c : St} {o1 o2 : List Stmt} (h1 : Run C e a o1 b) (h2 : Run C e b o2 c) :
    Run C e a (o1 ++ o2) c := by
  induction h1 with
  | refl => simpa using h2
  | step hs _ ih => rw [List.append_assoc]; exact Run.step hs (ih h2)

theorem Run.one {a b : St} {em : List Stmt} (h : Step1 C e a em b) : Run C e a em b := by
  simpa using Run.step h (Run.refl b)

/-- the clean end: everything dropped by `terminate()`, nothing pending -/
def St.Ended (st : St) : Prop := st.stack = [] ∧ st.err = none ∧ st.stmts = []

theorem scan_stmts {f : Frame} {st : St} {cur' : Option Frame} {st2 : St} (h : scan C e f st = .ok cur' st2) :
    ∃ o : Out, st2.stmts = st.stmts ++ o.emit.toList ∧ st2.err = st.err := by
  unfold scan at h
  cases hf : scanFn C e f st.inp st.env with
  | panic => rw [hf] at h; exact absurd h (by simp)
  | err k => rw [hf] at h; exact absurd h (by simp)
  | ok o =>
    rw [hf] at h
    simp only [ScanRes.ok.injEq] at h
    exact ⟨o, by rw [← h.2]; rfl, by rw [← h.2]; rfl⟩

theorem dropped_of_nil {st : St} (h : st.stmts = []) : st.dropped = st := by
  cases st; simp_all [St.dropped]

/-- one iteration of the loop of `Next()` -/
theorem nextLoop_one {stk : List Frame} {f : Frame} {inp : List Nat} {env : Env} {cur' : Option Frame} {st2 : St}
    (hscan : scan C e f { stack := stk, inp := inp, env := env } = .ok cur' st2) (n : Nat) :
    nextLoop C e (n + 1) none { stack := f :: stk, inp := inp, env := env } =
      nextLoop C e n none (pushCur cur' st2) := by
  obtain ⟨o, _, herr⟩ := scan_stmts hscan
  conv => lhs; unfold nextLoop
  simp only [Option.isSome_none, Bool.false_eq_true, ↓reduceIte, List.isEmpty_nil, Bool.not_true, popFrame, hscan]
  exact nextLoop_fold _ _ _ herr

/-- `Next()` answers true as soon as a statement is pending -/
theorem nextLoop_yes_of_stmts {q : St} {s : Stmt} (he : q.err = none) (hs : q.stmts = [s]) (n : Nat) :
    nextLoop C e (n + 1) none q = .yes q := by
  unfold nextLoop
  simp [he, hs, pushCur]

/-- a step without emission is invisible to `Next()` -/
theorem next_step_silent (hC : C.P.Consumes) {st st1 : St} (h : Step1 C e st [] st1) :
    next C e st = next C e st1 := by
  obtain ⟨hn, he, f, stk, cur', st2, hstk, hscan, hem, rfl⟩ := h
  obtain ⟨stack, inp, env, err, stmts⟩ := st
  simp only at hn he hstk
  subst hn he hstk
  have h2 : st2.stmts = [] := hem.symm
  have hst2 : ({ st2 with stmts := [] } : St) = st2 := by cases st2; simp_all
  rw [hst2]
  have hd1 : (pushCur cur' st2).stmts = [] := by cases cur' <;> simp [pushCur, h2]
  have e1 := next_eq (C := C) (e := e) { stack := f :: stk, inp := inp, env := env }
  have e2 := next_eq (C := C) (e := e) (pushCur cur' st2)
  rw [dropped_of_nil rfl] at e1
  rw [dropped_of_nil hd1] at e2
  have n1 := (next_fuel (e := e) hC { stack := f :: stk, inp := inp, env := env }).1
  have n2 := (next_fuel (e := e) hC (pushCur cur' st2)).1
  rw [e1, nextLoop_one hscan] at n1 ⊢
  rw [e2] at n2 ⊢
  exact c02_nextLoop_det n1 n2

/-- a step that emits makes `Next()` answer true, with the emitted statement first -/
theorem next_step_emit (hC : C.P.Consumes) {st st1 : St} {s : Stmt} (h : Step1 C e st [s] st1) :
    ∃ sy, next C e st = .yes sy ∧ sy.stmts = [s] ∧ sy.dropped = st1.dropped := by
  obtain ⟨hn, he, f, stk, cur', st2, hstk, hscan, hem, rfl⟩ := h
  obtain ⟨stack, inp, env, err, stmts⟩ := st
  simp only at hn he hstk
  subst hn he hstk
  obtain ⟨o, ho, herr⟩ := scan_stmts hscan
  have h2 : st2.stmts = [s] := hem.symm
  have herr2 : st2.err = none := herr
  have e1 := next_eq (C := C) (e := e) { stack := f :: stk, inp := inp, env := env }
  rw [dropped_of_nil rfl] at e1
  have n1 := (next_fuel (e := e) hC { stack := f :: stk, inp := inp, env := env }).1
  rw [e1, nextLoop_one hscan] at n1
  have hp_err : (pushCur cur' st2).err = none := by cases cur' <;> simp [pushCur, herr2]
  have hp_st : (pushCur cur' st2).stmts = [s] := by cases cur' <;> simp [pushCur, h2]
  have hyes : nextLoop C e (St.cost { stack := f :: stk, inp := inp, env := env }) none (pushCur cur' st2)
      = .yes (pushCur cur' st2) := by
    cases hc : St.cost { stack := f :: stk, inp := inp, env := env } with
    | zero => rw [hc] at n1; exact absurd rfl n1
    | succ k => exact nextLoop_yes_of_stmts hp_err hp_st k
  refine ⟨pushCur cur' st2, by rw [e1, nextLoop_one hscan, hyes], hp_st, ?_⟩
  cases cur' <;> simp [St.dropped, pushCur, h2]

theorem c02_runLoop_mono : ∀ (a : Nat) (st : St) (b : Nat), a ≤ b → (runLoop C e a st).2 ≠ .outOfFuel →
    runLoop C e b st = runLoop C e a st := by
  intro a
  induction a with
  | zero => intro st b _ h; exact absurd rfl h
  | succ a ih =>
    intro st b hab h
    obtain ⟨b', rfl⟩ : ∃ b', b = b' + 1 := ⟨b - 1, by omega⟩
    unfold runLoop at h ⊢
    split
    · rfl
    · rfl
    · rfl
    · next st' hy =>
      simp only [hy] at h
      split
      · rfl
      · next s rest hs =>
        simp only [hs] at h
        have := ih st' b' (by omega) h
        rw [this]

/-- `Step1` lifted to `runLoop`, for every fuel -/
theorem runLoop_step_silent (hC : C.P.Consumes) {st st1 : St} (h : Step1 C e st [] st1) (n : Nat) :
    runLoop C e n st = runLoop C e n st1 :=
  runLoop_congr (next_step_silent hC h) n

theorem runLoop_step_emit (hC : C.P.Consumes) {st st1 : St} {s : Stmt} (h : Step1 C e st [s] st1) (n : Nat) :
    runLoop C e (n + 1) st = (s :: (runLoop C e n st1).1, (runLoop C e n st1).2) := by
  obtain ⟨sy, hy, hs, hd⟩ := next_step_emit hC h
  conv => lhs; unfold runLoop
  simp only [hy, hs]
  rw [runLoop_congr (next_congr hd) n]

theorem step1_emit_cases {st st1 : St} {em : List Stmt} (h : Step1 C e st em st1) : em = [] ∨ ∃ s, em = [s] := by
  obtain ⟨hn, _, f, stk, cur', st2, _, hscan, hem, _⟩ := h
  obtain ⟨o, ho, _⟩ := scan_stmts hscan
  rw [hem, ho]
  simp only [hn, List.nil_append]
  cases o.emit <;> simp

/-- with enough fuel `runLoop` yields exactly what `Run` emits -/
theorem runLoop_of_Run (hC : C.P.Consumes) {st st' : St} {out : List Stmt} (h : Run C e st out st')
    (hend : st'.Ended) : ∃ N, ∀ n, N ≤ n → runLoop C e n st = (out, .clean) := by
  induction h with
  | refl st =>
    refine ⟨1, fun n hn => ?_⟩
    obtain ⟨n', rfl⟩ : ∃ n', n = n' + 1 := ⟨n - 1, by omega⟩
    obtain ⟨h1, h2, h3⟩ := hend
    have hnx : next C e st = .no st := by
      rw [next_eq, dropped_of_nil h3]
      unfold nextLoop
      simp [h2, h3, popFrame, h1]
    unfold runLoop
    simp [hnx, h2]
  | step hs _ ih =>
    obtain ⟨N, hN⟩ := ih hend
    rcases step1_emit_cases hs with rfl | ⟨s, rfl⟩
    · exact ⟨N, fun n hn => by rw [runLoop_step_silent hC hs n]; simpa using hN n hn⟩
    · refine ⟨N + 1, fun n hn => ?_⟩
      obtain ⟨n', rfl⟩ : ∃ n', n = n' + 1 := ⟨n - 1, by omega⟩
      rw [runLoop_step_emit hC hs n', hN n' (by omega)]
      rfl

/-- … in particular with the fuel `run` starts with -/
theorem run_of_Run (hC : C.P.Consumes) (base : Option (List Nat)) (pf : List (List Nat × List Nat)) (inp : List Nat)
    {st' : St} {out : List Stmt} (h : Run C e (init base pf inp) out st') (hend : st'.Ended) :
    run C e base pf inp = (out, .clean) := by
  obtain ⟨N, hN⟩ := runLoop_of_Run hC h hend
  unfold run
  simp only
  have hf := runLoop_fuel (e := e) hC ((init base pf inp).cost + 1) (init base pf inp) (Nat.lt_succ_self _)
  have := c02_runLoop_mono ((init base pf inp).cost + 1) (init base pf inp) (max N ((init base pf inp).cost + 1))
    (Nat.le_max_right _ _) hf
  rw [← this]
  exact hN _ (Nat.le_max_left _ _)

end RdfModel.TtlDoc
