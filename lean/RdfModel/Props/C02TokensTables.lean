/-
  Properties C02 / C08, token layer — the table facts for the tables regenerated from /repo on this
  run (T1). Every proof is `decide` on a Boolean check over the table *entries* (never over code
  points); checkers and soundness lemmas are in `Proofs/C02TokCheck.lean`.
-/
import RdfModel.Props.C02TokensDefs
import RdfModel.Gen.TtlTables
import RdfModel.Proofs.C02TokCheck
namespace RdfModel.C02
open RdfModel RdfModel.Ttl

theorem gen_turtle_ok : TablesOK Gen.turtle :=
  Proofs.C02Tok.tablesOK_of_chk _ (by decide)

theorem gen_trig_ok : TablesOK Gen.trig :=
  Proofs.C02Tok.tablesOK_of_chk _ (by decide)

/-- The extractor found `prefixLocalNameMustEscapeRune(r, pos, length)` to depend on `(pos == 0,
    pos == length-1)` only, on every probed instance (the model's `localEsc` has that shape). -/
theorem gen_localEsc_consistent : Gen.turtle_localEsc_consistent = true := by decide

end RdfModel.C02
