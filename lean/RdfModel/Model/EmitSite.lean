/-
  Data model of the T2 table `Gen.EmitSites`: one record per composite literal of type
  `rdf.Triple` / `rdf.Quad` (and per assignment to a field of such a value) in a decoder package of
  the repository, with the *static* class of the expression in each position.

  `value`     the expression's static type is rdf.IRI, rdf.BlankNode or rdf.Literal: a concrete
              value type, which cannot be nil;
  `iface`     the static type is one of the closed position interfaces (rdf.SubjectValue, …): the
              kind is restricted statically but the value may be nil;
  `absent`    the field is not given in the literal (zero value: nil);
  `nilLit`    the literal `nil`;
  `copy`      a whole rdf.Triple copied from another expression;
  `untouched` (assignments only) the position is not written by this statement;
  `unknown`   a shape the extractor does not understand — never acceptable.
-/
namespace RdfModel.EmitSite

inductive FieldClass where
  | value | iface | absent | nilLit | copy | untouched | unknown
  deriving DecidableEq, Repr

inductive SiteKind where
  | triple | quad | assign
  deriving DecidableEq, Repr

structure Site where
  pkg : String
  func : String
  ord : Nat
  kind : SiteKind
  s : FieldClass
  p : FieldClass
  o : FieldClass
  g : FieldClass
  exprs : String
  deriving Repr

/-- subject, predicate, object cannot be nil for a static reason; the graph name may be nil (default graph). -/
def nonNil (c : FieldClass) : Bool := c == .value || c == .untouched

def Site.allFieldsValueTyped (x : Site) : Bool :=
  nonNil x.s && nonNil x.p && nonNil x.o && x.g != .unknown

/-- short rendering of the four classes, used as the reviewed pattern of a dynamic site -/
def FieldClass.code : FieldClass → String
  | .value => "v" | .iface => "i" | .absent => "a" | .nilLit => "n" | .copy => "c" | .untouched => "-" | .unknown => "?"

def Site.pattern (x : Site) : String := x.s.code ++ x.p.code ++ x.o.code ++ x.g.code

def Site.hasUnknown (x : Site) : Bool :=
  x.s == .unknown || x.p == .unknown || x.o == .unknown || x.g == .unknown

end RdfModel.EmitSite
