/-
  RdfModel.Spec.MicrodataPatterns — the candidate builder the harness uses with `Microdata.write`. Not trusted by
  the theorems (candidates are validated against `Microdata.denote`).

  Choices: one item element per subject (top level, or nested inside its referrer when `nest` says so and the
  subject is a blank node), `itemref` to items and to detached property elements, `itemtype` for rdf:type
  triples with property names spelt relative to the type, the element used for each property value
  (meta/span/data/time/div for strings; link/a/area/img/object/audio/video/embed/iframe/source/track for URLs),
  noise between elements.
-/
import RdfModel.Spec.MicrodataFragment
namespace RdfModel.Spec.Microdata
open RdfModel RdfModel.Spec.Html RdfModel.Desc

structure MdPat where
  /-- nest blank-node objects inside their referrer (else: top level + itemref) -/
  nest : Nat := 0
  /-- express `rdf:type` triples with IRI objects through `itemtype` -/
  useType : Nat := 0
  /-- per triple (index in the graph): element form for the value -/
  form : List Nat := []
  /-- per triple: alternative spelling of the property name -/
  names : List (Option Str) := []
  /-- per triple: alternative spelling of an IRI object / of the subject's itemid -/
  objs : List (Option Str) := []
  ids : List (Option Str) := []
  /-- per triple: put the property element outside the item and reach it by itemref -/
  detach : List Nat := []
  tags : List Nat := []
  junk : Nat := 0
  /-- `id` attributes that nothing refers to, on ancestors of what the items and `itemref` need (bit 0: body,
      bit 1: html, bit 2: a wrapper around each detached property element, bit 3: a wrapper around each top-level
      item): where an element is in the tree of ids must not matter to `itemref` -/
  wrapId : Nat := 0
  deriving Repr, DecidableEq, Inhabited

section
variable {β : Type} [DecidableEq β]

def natStr (k : Nat) : Str := (Nat.toDigits 10 k).map Char.toNat

/-- wrap `t` in `<div id=name>` -/
def idWrap (on : Bool) (name : Str) (t : Tree) : Tree :=
  if on then .elem .div { id := some name } [t] else t

def bit (n k : Nat) : Bool := n / 2 ^ k % 2 == 1

def mnth (l : List Nat) (i : Nat) : Nat := l.getD i 0
def onth (l : List (Option Str)) (i : Nat) : Option Str := (l.getD i none)

def mctag (n : Nat) : Tag :=
  match n % 4 with
  | 0 => .div | 1 => .span | 2 => .sect | _ => .em

def mnoise (junk k : Nat) : List Tree :=
  match (junk + k) % 4 with
  | 0 => []
  | 1 => [.text (asc "\n  ")]
  | 2 => [.elem .span {} [.text (asc "filler")]]
  | _ => [.elem .div { id := some (asc "unrelated") } []]

def mwithNoise (junk : Nat) : Nat → List Tree → List Tree
  | k, [] => mnoise junk k
  | k, x :: xs => mnoise junk k ++ x :: mwithNoise junk (k + 1) xs

/-- property element for a string or URL value -/
def leafFor (form : Nat) (name : Str) (oAlt : Option Str) (eid : Option Str) : Term β → Tree
  | .lit lex _ _ =>
    match form % 6 with
    | 0 => .elem .metaEl { itemprop := some name, content := some lex, id := eid } []
    | 1 => .elem .span { itemprop := some name, id := eid } [.text lex]
    | 2 => .elem .data { itemprop := some name, value := some lex, id := eid } [.text (asc "shown")]
    | 3 => .elem .div { itemprop := some name, id := eid } [.text (lex.take (lex.length / 2)), .elem .b {} [.text (lex.drop (lex.length / 2))]]
    | 4 => .elem .time { itemprop := some name, id := eid } [.text lex]
    | _ => .elem .em { itemprop := some name, id := eid, content := some (asc "not-used") } [.text lex]
  | .iri i =>
    let u := oAlt.getD i
    match form % 11 with
    | 0 => .elem .link { itemprop := some name, href := some u, id := eid } []
    | 1 => .elem .a { itemprop := some name, href := some u, id := eid } [.text (asc "link text")]
    | 2 => .elem .img { itemprop := some name, src := some u, id := eid } []
    | 3 => .elem .object { itemprop := some name, data := some u, id := eid } []
    | 4 => .elem .audio { itemprop := some name, src := some u, id := eid } []
    | 5 => .elem .video { itemprop := some name, src := some u, id := eid } []
    | 6 => .elem .embed { itemprop := some name, src := some u, id := eid } []
    | 7 => .elem .iframe { itemprop := some name, src := some u, id := eid } []
    | 8 => .elem .source { itemprop := some name, src := some u, id := eid } []
    | 9 => .elem .track { itemprop := some name, src := some u, id := eid } []
    | _ => .elem .area { itemprop := some name, href := some u, id := eid } []
  | .bnode _ => .text []

def joinSp : List Str → Str
  | [] => []
  | [x] => x
  | x :: xs => x ++ 32 :: joinSp xs

def isTypeTriple (t : Triple β) : Bool := t.p == rdfType && (match t.o with | .iri _ => true | _ => false)

def idxTriples (g : List (Triple β)) : List (Nat × Triple β) := g.zipIdx.map (fun x => (x.2, x.1))

def detachedId (k : Nat) : Str := asc "d" ++ (Nat.toDigits 10 k).map Char.toNat

/-- is triple `k` written as a detached property element? (never for item-valued or type-by-itemtype triples) -/
def isDetached (P : MdPat) (k : Nat) (t : Triple β) : Bool :=
  mnth P.detach k % 3 == 1 && (match t.o with | .bnode _ => false | _ => true) && !(P.useType % 2 == 1 && isTypeTriple t)

/-- is blank node `b` nested in its referrer? -/
def isNested (P : MdPat) (g : List (Triple β)) (b : β) : Bool :=
  P.nest % 2 == 1 && (g.filter (fun t => t.o == .bnode b)).length == 1

/-- the item element of subject `s`; `inProp`: the names under which it is a property of its referrer -/
def itemFor (lbl : β → Str) (P : MdPat) (g : List (Triple β)) : Nat → Term β → Tree
  | 0, _ => .text []
  | fuel + 1, s =>
    let mine := (idxTriples g).filter (fun x => x.2.s == s)
    let types := if P.useType % 2 == 1 then mine.filter (fun x => isTypeTriple x.2) else []
    let rest := mine.filter (fun x => !(types.any (fun y => y.1 == x.1)))
    let inProp : List Str := match s with
      | .bnode b => udedup ((g.filter (fun t => t.o == .bnode b)).map (·.p))
      | _ => []
    let firstIdx := match mine with | x :: _ => x.1 | [] => 0
    let leaves := rest.filterMap (fun x =>
      match x.2.o with
      | .bnode b => if isNested P g b then some (itemFor lbl P g fuel (.bnode b)) else none
      | o => if isDetached P x.1 x.2 then none
             else some (leafFor (mnth P.form x.1) ((onth P.names x.1).getD x.2.p) (onth P.objs x.1) none o))
    let refs := rest.filterMap (fun x =>
      match x.2.o with
      | .bnode b => if isNested P g b then none else some (lbl b)
      | _ => if isDetached P x.1 x.2 then some (detachedId x.1) else none)
    .elem (mctag (mnth P.tags firstIdx))
      { itemscope := true,
        itemid := (match s with | .iri i => some ((onth P.ids firstIdx).getD i) | _ => none),
        id := (match s with | .bnode b => some (lbl b) | _ => none),
        itemprop := (if inProp.isEmpty then none else some (joinSp inProp)),
        itemtype := (if types.isEmpty then none else some (joinSp (types.map (fun x => match x.2.o with | .iri i => i | _ => [])))),
        itemref := (if refs.isEmpty then none else some (joinSp (udedup refs))) }
      (mwithNoise P.junk firstIdx leaves)

def subjectsOf (g : List (Triple β)) : List (Term β) :=
  (udedup (g.map (·.s)).reverse).reverse ++
  (bnodesOf g).filterMap (fun b => if g.any (fun t => t.s == .bnode b) then none else some (.bnode b))

/-- candidate document and where it puts each blank node -/
def MdPat.build (lbl : β → Str) (P : MdPat) (g : List (Triple β)) : Tree × (β → Path) :=
  let tops := (subjectsOf g).filter (fun s => match s with | .bnode b => !isNested P g b | _ => true)
  let items := tops.zipIdx.map (fun x =>
    idWrap (bit P.wrapId 3) (asc "iw" ++ natStr x.2) (itemFor lbl P g (g.length + 2) x.1))
  let detached := (idxTriples g).filterMap (fun x =>
    if isDetached P x.1 x.2 then
      some (idWrap (bit P.wrapId 2) (asc "dw" ++ natStr x.1)
        (leafFor (mnth P.form x.1) ((onth P.names x.1).getD x.2.p) (onth P.objs x.1) (some (detachedId x.1)) x.2.o))
    else none)
  let kids := mwithNoise P.junk 0 (if P.junk % 2 == 0 then items ++ detached else detached ++ items)
  let doc : Tree :=
    .elem .html { id := if bit P.wrapId 1 then some (asc "top") else none }
      [.elem .head {} [], .elem .body { id := if bit P.wrapId 0 then some (asc "page") else none } kids]
  (doc, fun b => (findIdNode (lbl b) [] doc).getD [])

end
end RdfModel.Spec.Microdata
