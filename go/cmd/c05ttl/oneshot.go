package main

// Token-boundary cuts and one-shot reader errors (builder-ttlmiss, round 3e; seed C15r3-3).
//
// Seed C15r3-3 (TriG reader_scan_Object emits the string literal when the one-rune look-ahead after the closing
// quote FAILS, and drops the read error) was visible only as a T3 disagreement, because
//
//	(a) the prefix-monotonicity oracle of c15cuts granted "the last statement may stem from the token that was
//	    cut" to EVERY cut; a cut right after a closing quote does not cut the string token, so since this round it
//	    gets no allowance (`strictCut`): the statements of such a prefix must be, in order, statements of the
//	    whole document.  The generator records the position after every closing quote that is followed by
//	    @lang / ^^datatype (docGen.quoteCuts) and those cuts are always taken, with both decoders; strTagCutDocs
//	    adds fixed documents (every quoting style x @lang / ^^<iri> / ^^pname x plain object, collection,
//	    blank-node property list, graph block) with every proper prefix;
//	(b) every injected reader failure was sticky (vh.EndReader fails forever).  bufio.Reader hands a read error
//	    out once and then reads on, so a reader that fails ONCE (timeout, reset, iotest.TimeoutReader) and then
//	    carries on is a different schedule: oneShotReader.  Oracle (C15 "the reader fails with an error => the
//	    decoder reports an error, never a clean end"): the run must not end cleanly, and its statements obey the
//	    same prefix rule as a cut at that offset.  The one-shot kind is outside the model (its reader assumption
//	    is "a sticky terminal error"); how often the one-shot run equals the sticky run on doc[:k] (which T3
//	    covers) is reported in the histogram `oneshot:same-as-sticky` / `oneshot:differs-from-sticky`.

import (
	"fmt"
	"io"
	"strings"

	"verifharness/vh"
)

// oneShotReader yields B[:At], then fails once with vh.ErrInjected, then yields the rest and io.EOF.
type oneShotReader struct {
	B     []byte
	At    int
	Chunk int
	pos   int
	fired bool
}

func (r *oneShotReader) Read(p []byte) (int, error) {
	if !r.fired && r.pos >= r.At {
		r.fired = true
		return 0, vh.ErrInjected
	}
	if r.pos >= len(r.B) {
		return 0, io.EOF
	}
	end := len(r.B)
	if !r.fired && r.At < end {
		end = r.At
	}
	n := len(p)
	if r.Chunk > 0 && n > r.Chunk {
		n = r.Chunk
	}
	if n > end-r.pos {
		n = end - r.pos
	}
	copy(p, r.B[r.pos:r.pos+n])
	r.pos += n
	return n, nil
}

// strictCut: the byte before the cut is a quote that is not backslash-escaped (`\'` is a PN_LOCAL_ESC: a cut after
// it shortens a prefixed name): the cut does not shorten a token that could still yield a statement — a string is
// either closed by that quote (and nothing of its tag / datatype has been read) or still open.
func strictCut(doc []byte, k int) bool {
	return k > 0 && k <= len(doc) && (doc[k-1] == '"' || doc[k-1] == '\'') && !(k > 1 && doc[k-2] == '\\')
}

// c15oneshot: the reader fails once after k bytes and then delivers the rest of the document.
func (g *gen) c15oneshot(pkg, base string, doc []byte, k int, full, sticky result) {
	chunk := vh.Pick(g.r, []int{0, 0, 1, 7})
	op := fmt.Sprintf("oneshot %s at=%d chunk=%d %s %s", pkg, k, chunk, baseTok(base), vh.X(doc))
	o := goDecodeRd(pkg, base, doc, &oneShotReader{B: append([]byte(nil), doc...), At: k, Chunk: chunk}, op)
	g.judge(op, o)
	g.rep.Count("c15:oneshot-runs")
	g.rep.Eval(op, len(o.stmts) > 0)
	after := doc[:k]
	if len(after) > 24 {
		after = after[len(after)-24:]
	}
	if o.verdict == "clean" {
		g.violation("C15", op, fmt.Sprintf("the reader failed once at offset %d (after %q) and then carried on: the %s decoder ended cleanly with %d statements (%s); a sticky failure at the same offset gives %s -- default base %q, document %q", k, after, pkg, len(o.stmts), o.wire, sticky.wire, base, doc))
		return
	}
	n := len(o.stmts)
	okPrefix := isPrefixOf(o.stmts, full.stmts) || (!strictCut(doc, k) && n > 0 && isPrefixOf(o.stmts[:n-1], full.stmts))
	if !okPrefix && !(doc[k-1] == '.' && n >= 2 && isPrefixOf(o.stmts[:n-2], full.stmts)) {
		g.violation("C15", op, fmt.Sprintf("the reader failed once at offset %d (after %q): statements before the error are not statements of the document: %s vs %s -- document %q", k, after, o.wire, full.wire, doc))
	}
	if o.wire == sticky.wire {
		g.rep.Count("oneshot:same-as-sticky")
	} else {
		g.rep.Count("oneshot:differs-from-sticky")
		g.rep.Count("oneshot:differs-from-sticky:" + sticky.verdict + "->" + o.verdict)
	}
}

// strTagCutDocs: fixed documents with a tagged / typed string in every context; every proper prefix, both endings.
func (g *gen) strTagCutDocs() {
	quotes := [][2]string{{"\"", "\""}, {"'", "'"}, {"\"\"\"", "\"\"\""}, {"'''", "'''"}}
	suffixes := []string{"", "@en", "@en-Latn-GB", "^^<http://e/dt>", "^^x:dt", "^^<#d>"}
	n := 0
	for qi, q := range quotes {
		for si, sfx := range suffixes {
			lit := q[0] + "ab" + q[1] + sfx
			ttl := []string{
				"<http://e/s> <http://e/p> " + lit + " .",
				"<http://e/s> <http://e/p> 1 , " + lit + " ; <http://e/q> ( " + lit + " 2 ) , [ <http://e/r> " + lit + " ] .",
			}
			tg := []string{
				"<http://e/g> { <http://e/s> <http://e/p> " + lit + " }",
				"GRAPH <http://e/g> { <http://e/s> <http://e/p> ( " + lit + " ) . } <http://e/s> <http://e/q> " + lit + " .",
			}
			hdr := "@prefix x: <http://e/x#> .\n"
			for di, d := range ttl {
				doc := []byte(hdr + d)
				spans := []span{{len(hdr), len(doc) - 1}}
				for _, pkg := range []string{"turtle", "trig"} {
					g.cutsOf(pkg, "http://e/d/f", doc, spans, -1)
					n++
				}
				_ = di
			}
			for _, d := range tg {
				doc := []byte(hdr + d)
				g.cutsOf("trig", "http://e/d/f", doc, nil, -1)
				n++
			}
			_, _ = qi, si
		}
	}
	g.rep.Hist["c15:str-tag-cut-docs"] += n
	g.rep.Exhaustive = append(g.rep.Exhaustive, fmt.Sprintf("every proper prefix (end of input, sticky reader failure, one-shot reader failure) of %d fixed document x decoder pairs with a plain / tagged / typed string: 4 quoting styles x {plain, @en, @en-Latn-GB, ^^<iri>, ^^pname, ^^<#rel>} x {plain object, object list + collection + blank-node property list, graph block, GRAPH block + collection + top-level triples}; cuts after a closing quote get no last-statement allowance", n))
}

// quoteCutsOf: the recorded positions (after the closing quote of a string, tagged / typed or plain) as cut points.
func (g *gen) quoteCutsOf(trigDoc bool, base string, doc []byte, spans []span, cuts []int) {
	if len(cuts) == 0 {
		return
	}
	if len(cuts) > 6 {
		cuts = cuts[:6]
	}
	g.rep.Hist["c15:quote-boundary-cuts"] += len(cuts)
	if !trigDoc {
		g.c15cuts("turtle", base, doc, spans, cuts)
	}
	g.c15cuts("trig", base, doc, spans, cuts)
}

var _ = strings.Join
