/-
  Part C09D2, protocol-level facts about the RDF/XML decoder model (new file; imports Model/RdfXmlDecoder.lean):
    * a model of `Decoder.Next / Err / Triple` (decoder.go lines 83-101) on top of `RXD.decode`, and its latch;
    * the terminator is never lost: a reader error / a truncated document is never a clean end (C15).
-/
import RdfModel.Model.RdfXmlDecoder
import RdfModel.Proofs.C09DecNoPanic
namespace RdfModel.RXD
open RdfModel RdfModel.Desc RdfModel.RX

/-! ## Next / Err / Triple -/

/-- the `Decoder` struct as far as `Next` is concerned: the reader (token stream + terminator), `statements`,
    `statementsIdx` (starts at -1), `err` -/
structure Dec where
  base : Option Str
  toks : List Tok
  fin : Fin
  stmts : List T := []
  idx : Int := -1
  err : Option E := none
  deriving Repr

inductive NextOut where
  | yes | no | panic
  deriving Repr, DecidableEq

/-- `func (d *Decoder) Next() bool` -/
def Dec.next (P : Params) (d : Dec) : NextOut × Dec :=
  if d.err.isSome then (.no, d)
  else if d.idx = -1 then
    -- d.parseAll()
    match decode P d.base d.toks d.fin with
    | .panic => (.panic, d)
    | .err e _ => (.no, { d with err := some e })
    | .ok ts =>
      let d1 := { d with stmts := ts, idx := d.idx + 1 }
      (if d1.idx < (ts.length : Int) then .yes else .no, d1)
  else
    let d1 := { d with idx := d.idx + 1 }
    (if d1.idx < (d.stmts.length : Int) then .yes else .no, d1)

/-- `func (r *Decoder) Triple() rdf.Triple`: `r.statements[r.statementsIdx]` (`none` = index out of range = panic) -/
def Dec.triple (d : Dec) : Option T := if d.idx < 0 then none else d.stmts[d.idx.toNat]?

def Dec.init (base : Option Str) (toks : List Tok) (fin : Fin) : Dec := { base := base, toks := toks, fin := fin }

/-- the terminal condition: an error is latched, or the index has run past the statements -/
def Dec.Done (d : Dec) : Prop := d.err.isSome ∨ (0 ≤ d.idx ∧ (d.stmts.length : Int) ≤ d.idx)

theorem next_of_done (P : Params) (d : Dec) (h : d.Done) :
    (d.next P).1 = .no ∧ (d.next P).2.Done ∧ (d.next P).2.err = d.err ∧ (d.next P).2.stmts = d.stmts := by
  by_cases he : d.err.isSome
  · have : d.next P = (.no, d) := by simp [Dec.next, he]
    rw [this]; exact ⟨rfl, h, rfl, rfl⟩
  · rcases h with h | ⟨h1, h2⟩
    · exact absurd h he
    · have hi : d.idx ≠ -1 := by omega
      have hlt : ¬(d.idx + 1 < (d.stmts.length : Int)) := by omega
      have : d.next P = (.no, { d with idx := d.idx + 1 }) := by simp [Dec.next, he, hi, hlt]
      rw [this]
      refine ⟨rfl, .inr ⟨?_, ?_⟩, rfl, rfl⟩
      · show 0 ≤ d.idx + 1; omega
      · show (d.stmts.length : Int) ≤ d.idx + 1; omega

theorem done_of_no (P : Params) (d : Dec) (h : (d.next P).1 = .no) : (d.next P).2.Done := by
  by_cases he : d.err.isSome
  · have : d.next P = (.no, d) := by simp [Dec.next, he]
    rw [this]; exact .inl he
  · by_cases hi : d.idx = -1
    · cases hd : decode P d.base d.toks d.fin with
      | panic => simp [Dec.next, he, hi, hd] at h
      | err e ts =>
        have : d.next P = (.no, { d with err := some e }) := by simp [Dec.next, he, hi, hd]
        rw [this]; exact .inl rfl
      | ok ts =>
        by_cases hts : ts = []
        · have : d.next P = (.no, { d with stmts := ts, idx := d.idx + 1 }) := by simp [Dec.next, he, hi, hd, hts]
          rw [this]
          refine .inr ⟨?_, ?_⟩
          · show 0 ≤ d.idx + 1; omega
          · show (ts.length : Int) ≤ d.idx + 1; simp [hts, hi]
        · simp [Dec.next, he, hi, hd, hts] at h
    · by_cases hlt : d.idx + 1 < (d.stmts.length : Int)
      · simp [Dec.next, he, hi, hlt] at h
      · have : d.next P = (.no, { d with idx := d.idx + 1 }) := by simp [Dec.next, he, hi, hlt]
        rw [this]
        have h0 : -1 ≤ d.idx ∨ d.idx < -1 := by omega
        rcases h0 with h0 | h0
        · refine .inr ⟨?_, ?_⟩
          · show 0 ≤ d.idx + 1; omega
          · show (d.stmts.length : Int) ≤ d.idx + 1; omega
        · exfalso; apply hlt; omega

/-- `n` further calls of `Next` -/
def Dec.nextN (P : Params) : Nat → Dec → List NextOut × Dec
  | 0, d => ([], d)
  | n + 1, d => let r := d.next P; let rs := Dec.nextN P n r.2; (r.1 :: rs.1, rs.2)

theorem nextN_of_done (P : Params) (n : Nat) (d : Dec) (h : d.Done) :
    (∀ o ∈ (Dec.nextN P n d).1, o = .no) ∧ (Dec.nextN P n d).2.err = d.err ∧ (Dec.nextN P n d).2.stmts = d.stmts := by
  induction n generalizing d with
  | zero => simp [Dec.nextN]
  | succ n ih =>
    obtain ⟨h1, h2, h3, h4⟩ := next_of_done P d h
    obtain ⟨i1, i2, i3⟩ := ih (d.next P).2 h2
    simp only [Dec.nextN]
    refine ⟨?_, by rw [i2, h3], by rw [i3, h4]⟩
    intro o ho
    simp only [List.mem_cons] at ho
    rcases ho with rfl | ho
    · exact h1
    · exact i1 o ho

/-- `Next` returned true: `Triple()` is usable (index in range) -/
theorem triple_of_yes (P : Params) (d : Dec) (hd : -1 ≤ d.idx) (h : (d.next P).1 = .yes) : ((d.next P).2.triple).isSome := by
  by_cases he : d.err.isSome
  · simp [Dec.next, he] at h
  · by_cases hi : d.idx = -1
    · cases hdec : decode P d.base d.toks d.fin with
      | panic => simp [Dec.next, he, hi, hdec] at h
      | err e ts => simp [Dec.next, he, hi, hdec] at h
      | ok ts =>
        by_cases hts : ts = []
        · simp [Dec.next, he, hi, hdec, hts] at h
        · have : d.next P = (.yes, { d with stmts := ts, idx := d.idx + 1 }) := by simp [Dec.next, he, hi, hdec, hts]
          rw [this]
          have hl : 0 < ts.length := List.length_pos_iff.mpr hts
          have h0 : ¬(d.idx + 1 < 0) := by omega
          have h1 : (d.idx + 1).toNat < ts.length := by omega
          simp [Dec.triple, h0, h1]
    · by_cases hlt : d.idx + 1 < (d.stmts.length : Int)
      · have : d.next P = (.yes, { d with idx := d.idx + 1 }) := by simp [Dec.next, he, hi, hlt]
        rw [this]
        have h0 : ¬(d.idx + 1 < 0) := by omega
        have h1 : (d.idx + 1).toNat < d.stmts.length := by omega
        simp [Dec.triple, h0, h1]
      · simp [Dec.next, he, hi, hlt] at h

/-! ## The terminator is never lost (C15) -/

theorem run_io (P : Params) (ctx0 : Ctx) (stk : List Frame) (st : St) (toks : List Tok) :
    (∀ ts, run P ctx0 stk st toks .io ≠ .ok ts) ∧
    (∀ ts, run P ctx0 stk st toks .eof = .ok ts → run P ctx0 stk st toks .io = .err .io ts) ∧
    (∀ e ts, run P ctx0 stk st toks .eof = .err e ts → e ≠ .eofInside → run P ctx0 stk st toks .io = .err e ts) := by
  induction toks generalizing stk st with
  | nil =>
    refine ⟨by intro ts; simp [run, finish], ?_, ?_⟩
    · intro ts h
      simp only [run, finish] at h ⊢
      split at h
      · simp only [Result.ok.injEq] at h; rw [h]
      · simp at h
    · intro e ts h hne
      simp only [run, finish] at h
      split at h
      · simp at h
      · simp only [Result.err.injEq] at h; exact absurd h.1.symm hne
  | cons tok rest ih =>
    simp only [run]
    cases hs : step P ctx0 stk st tok with
    | panic => simp
    | fail e st1 => simp
    | cont stk1 st1 => exact ih stk1 st1

/-! ### truncation: nesting depth of the token list = height of the frame stack -/

def Frame.height : Frame → Nat
  | .lit _ _ _ _ depth _ => depth + 1
  | _ => 1

def height (stk : List Frame) : Nat := (stk.map Frame.height).sum

/-- open elements after one more token (an end tag at depth 0 is ignored by `decodeRoot`; `encoding/xml` never
    delivers one) -/
def tokDepth (d : Nat) : Tok → Nat
  | .start _ _ _ => d + 1
  | .end_ _ _ => d - 1
  | _ => d

def depthAfter (d : Nat) (toks : List Tok) : Nat := toks.foldl tokDepth d

theorem nodeEntry_frame {P : Params} {ctx : Ctx} {ns name : Str} {as : List Attr} {st st1 : St} {f : Frame}
    (h : nodeEntry P ctx ns name as st = .ok f st1) : f.height = 1 := by
  unfold nodeEntry at h
  cases hc : processCommonAttr P ctx as st with
  | panic => rw [hc] at h; simp at h
  | fail e s1 => rw [hc] at h; simp at h
  | ok c s1 =>
    rw [hc] at h
    simp only at h
    cases hs : subjLoop P c.ctx c.rdfAttrs none 0 s1 with
    | panic => rw [hs] at h; simp at h
    | fail e s2 => rw [hs] at h; simp at h
    | ok r s2 =>
      rw [hs] at h
      simp only at h
      split at h
      · simp at h
      · generalize nodeRdfLoop P c.ctx _ c.rdfAttrs [] _ = x at h
        cases x with
        | panic => simp at h
        | fail e s5 => simp at h
        | ok extra s5 => simp only [Res.ok.injEq] at h; rw [← h.1]; rfl

theorem peltEntry_frame {P : Params} {ctx : Ctx} {s : Term BN} {li : Nat} {ns name : Str} {as : List Attr} {st st1 : St}
    {r : Nat × Frame} (h : peltEntry P ctx s li ns name as st = .ok r st1) : r.2.height = 1 := by
  unfold peltEntry at h
  cases hi : peltAttrLoop as {} with
  | none => rw [hi] at h; simp at h
  | some i =>
    rw [hi] at h
    simp only at h
    split at h
    · simp at h
    · generalize processCommonAttr P ctx as st = pc at h
      cases pc with
      | panic =>
        repeat' split at h
        all_goals simp_all
      | fail e s1 =>
        repeat' split at h
        all_goals simp_all
      | ok c s1 =>
        simp only at h
        split at h
        · simp only [Res.ok.injEq] at h; rw [← h.1]; rfl
        · split at h
          · generalize reifyEachID P _ _ _ = x at h
            cases x with
            | panic => simp at h
            | fail e s3 => simp at h
            | ok u s3 => simp only [Res.ok.injEq] at h; rw [← h.1]; rfl
          · split at h <;> (simp only [Res.ok.injEq] at h; rw [← h.1]; rfl)

theorem callNode_height {P : Params} {ctx : Ctx} {ns name : Str} {as : List Attr} {stk stk' : List Frame} {st st' : St}
    (h : callNode P ctx ns name as stk st = .cont stk' st') : height stk' = height stk + 1 := by
  unfold callNode at h
  cases hn : nodeEntry P ctx ns name as st with
  | panic => rw [hn] at h; simp at h
  | fail e st1 => rw [hn] at h; simp at h
  | ok f st1 =>
    rw [hn] at h
    simp only [Step.cont.injEq] at h
    rw [← h.1]
    simp [height, nodeEntry_frame hn]; omega

theorem nodeReturn_height {P : Params} {s : Term BN} {stk stk' : List Frame} {st st' : St}
    (h : nodeReturn P s stk st = .cont stk' st') : height stk' = height stk := by
  unfold nodeReturn at h
  split at h
  · generalize optReify P _ _ _ _ = x at h
    cases x with
    | panic => simp at h
    | fail e s1 => simp at h
    | ok u s1 => simp only [Step.cont.injEq] at h; rw [← h.1]; simp [height, Frame.height]
  · simp only at h
    split at h
    · generalize optReify P _ _ _ _ = x at h
      cases x with
      | panic => simp at h
      | fail e s1 => simp at h
      | ok u s1 => simp only [Step.cont.injEq] at h; rw [← h.1]; simp [height, Frame.height]
    · simp only [Step.cont.injEq] at h; rw [← h.1]; simp [height, Frame.height]
  · simp only [Step.cont.injEq] at h; rw [← h.1]

theorem step_height {P : Params} {ctx0 : Ctx} {stk stk' : List Frame} {st st' : St} {tok : Tok}
    (h : step P ctx0 stk st tok = .cont stk' st') : height stk' = tokDepth (height stk) tok := by
  cases stk with
  | nil =>
    cases tok with
    | start ns name attrs =>
      simp only [step] at h
      split at h
      · repeat' split at h
        all_goals first | (simp only [Step.cont.injEq] at h; rw [← h.1]; simp [height, Frame.height, tokDepth]) | simp at h
      · rw [callNode_height h]; rfl
    | directive s => simp [step] at h
    | end_ a b => simp only [step, Step.cont.injEq] at h; rw [← h.1]; rfl
    | chars s => simp only [step, Step.cont.injEq] at h; rw [← h.1]; rfl
    | comment s => simp only [step, Step.cont.injEq] at h; rw [← h.1]; rfl
    | procInst a b => simp only [step, Step.cont.injEq] at h; rw [← h.1]; rfl
  | cons f below =>
    cases f with
    | rdf ctx =>
      cases tok with
      | start ns name attrs =>
        simp only [step] at h
        split at h
        · simp at h
        · rw [callNode_height h]; rfl
      | end_ a b => simp only [step, Step.cont.injEq] at h; rw [← h.1]; simp [height, Frame.height, tokDepth]
      | directive s => simp only [step, Step.cont.injEq] at h; rw [← h.1]; rfl
      | chars s => simp only [step, Step.cont.injEq] at h; rw [← h.1]; rfl
      | comment s => simp only [step, Step.cont.injEq] at h; rw [← h.1]; rfl
      | procInst a b => simp only [step, Step.cont.injEq] at h; rw [← h.1]; rfl
    | props ctx subj li ret =>
      cases tok with
      | start ns name attrs =>
        simp only [step] at h
        split at h
        · simp at h
        · cases hp : peltEntry P ctx subj li ns name attrs st with
          | panic => rw [hp] at h; simp at h
          | fail e st1 => rw [hp] at h; simp at h
          | ok r st1 =>
            rw [hp] at h
            simp only [Step.cont.injEq] at h
            rw [← h.1]
            have := peltEntry_frame hp
            simp only [height, List.map_cons, List.sum_cons, this, tokDepth]
            simp only [Frame.height]; omega
      | end_ a b =>
        simp only [step, propsReturn] at h
        cases ret with
        | resource => simp only [Step.cont.injEq] at h; rw [← h.1]; simp [height, Frame.height, tokDepth]
        | node s => simp only at h; rw [nodeReturn_height h]; simp [height, Frame.height, tokDepth]
      | directive s => simp only [step, Step.cont.injEq] at h; rw [← h.1]; rfl
      | chars s => simp only [step, Step.cont.injEq] at h; rw [← h.1]; rfl
      | comment s => simp only [step, Step.cont.injEq] at h; rw [← h.1]; rfl
      | procInst a b => simp only [step, Step.cont.injEq] at h; rw [← h.1]; rfl
    | pelt ctx nctx subj pred attrs rdfID found chars child =>
      cases tok with
      | start ns name cattrs =>
        simp only [step] at h
        split at h
        · simp at h
        · split at h
          · simp at h
          · rw [callNode_height h]; simp [height, Frame.height, tokDepth]
      | end_ a b =>
        simp only [step] at h
        split at h
        all_goals first | (simp only [Step.cont.injEq] at h; rw [← h.1]; simp [height, Frame.height, tokDepth]) | simp at h
      | chars s => simp only [step, Step.cont.injEq] at h; rw [← h.1]; simp [height, Frame.height, tokDepth]
      | directive s => simp only [step, Step.cont.injEq] at h; rw [← h.1]; rfl
      | comment s => simp only [step, Step.cont.injEq] at h; rw [← h.1]; rfl
      | procInst a b => simp only [step, Step.cont.injEq] at h; rw [← h.1]; rfl
    | lit ctx subj pred rdfAttrs depth content =>
      cases tok with
      | end_ a b =>
        simp only [step] at h
        repeat' split at h
        all_goals first
          | (simp only [Step.cont.injEq] at h; rw [← h.1]; simp_all [height, Frame.height, tokDepth]; done)
          | (simp only [Step.cont.injEq] at h; rw [← h.1]; simp [height, Frame.height, tokDepth]; omega)
          | simp at h
      | start ns name cattrs =>
        simp only [step] at h
        split at h
        · simp at h
        · simp only [Step.cont.injEq] at h; rw [← h.1]; simp [height, Frame.height, tokDepth]; omega
      | chars s => simp only [step] at h; split at h; simp at h; simp only [Step.cont.injEq] at h; rw [← h.1]; simp [height, Frame.height, tokDepth]
      | directive s => simp only [step] at h; split at h; simp at h; simp only [Step.cont.injEq] at h; rw [← h.1]; simp [height, Frame.height, tokDepth]
      | comment s => simp only [step] at h; split at h; simp at h; simp only [Step.cont.injEq] at h; rw [← h.1]; simp [height, Frame.height, tokDepth]
      | procInst a b => simp only [step] at h; split at h; simp at h; simp only [Step.cont.injEq] at h; rw [← h.1]; simp [height, Frame.height, tokDepth]
    | coll ctx subj pred rdfID last =>
      cases tok with
      | start ns name attrs =>
        simp only [step] at h
        split at h
        · simp at h
        · rw [callNode_height h]; rfl
      | end_ a b =>
        simp only [step] at h
        repeat' split at h
        all_goals first | (simp only [Step.cont.injEq] at h; rw [← h.1]; simp [height, Frame.height, tokDepth]) | simp at h
      | directive s => simp only [step, Step.cont.injEq] at h; rw [← h.1]; rfl
      | chars s => simp only [step, Step.cont.injEq] at h; rw [← h.1]; rfl
      | comment s => simp only [step, Step.cont.injEq] at h; rw [← h.1]; rfl
      | procInst a b => simp only [step, Step.cont.injEq] at h; rw [← h.1]; rfl

theorem run_ok_depth (P : Params) (ctx0 : Ctx) (stk : List Frame) (st : St) (toks : List Tok) (fin : Fin) (ts : List T)
    (h : run P ctx0 stk st toks fin = .ok ts) : depthAfter (height stk) toks = 0 ∧ fin = .eof := by
  induction toks generalizing stk st with
  | nil =>
    simp only [run, finish] at h
    split at h
    · simp at h
    · simp at h
    · split at h
      · exact ⟨by simp [depthAfter, height], rfl⟩
      · simp at h
  | cons tok rest ih =>
    simp only [run] at h
    cases hs : step P ctx0 stk st tok with
    | panic => rw [hs] at h; simp at h
    | fail e st1 => rw [hs] at h; simp at h
    | cont stk1 st1 =>
      rw [hs] at h
      obtain ⟨h1, h2⟩ := ih stk1 st1 h
      rw [step_height hs] at h1
      exact ⟨by simpa [depthAfter] using h1, h2⟩

end RdfModel.RXD
