package main

// Whole-document formats (RDF/JSON, RDF/XML, JSON-LD, RDFa, Microdata, HTML-embedded JSON-LD, combined
// HTML decoder): format-specific part (3) of the C16 oracle, the "may this range be absent" rules, and
// the grammar-directed generators / corner documents. Files: whole.go (this: what is checked, dispatch,
// shared helpers), whole_json.go, whole_xml.go, whole_html.go, whole_gen.go, whole_corner.go.
//
// What a reported range covers, learnt from the decoders (checked slot by slot by wholeSlice):
//
// RDF/JSON (encoding/rdfjson/decoder.go; tokens of inspectjson, strict JSON)
//   subject    the member-name string token of the root object, quotes included: `"http://…"` / `"_:b"`
//   predicate  the member-name string token of the subject object, quotes included
//   object     the whole value object `{ … }` from its `{` to its `}` (BeginObject.From – EndObject.Until)
//   absent     never: every statement carries all three ranges
//   checked    subject/predicate: a JSON string literal followed by `:` whose decoded text is the IRI,
//              resp. "_:"+label; object: a flat JSON object of string members whose "type"/"value"/
//              "lang"/"datatype" (last duplicate wins, as in the decoder) give exactly the term
//
// RDF/XML (encoding/rdfxml/decoder.go; positions from inspectxml, which re-finds names and attributes in
// the raw bytes of each start tag with regular expressions: only `name="non-empty"` attributes written
// with double quotes and no layout around `=` are located)
//   subject    the value of the rdf:about / rdf:ID / rdf:nodeID attribute of the node element, double
//              quotes included; for the statements of property attributes on an empty property element
//              the value of its rdf:resource / rdf:nodeID. Absent for node elements without such an
//              attribute (generated blank node) and for attributes inspectxml could not locate
//   predicate  property element: the tag name as written (`ex:p`, also `rdf:li` for rdf:_n), between `<`
//              and the first layout / `>` / `/`; property attribute (and rdf:type attribute): the attribute
//              name as written. Absent for the rdf:type statement of a typed node element, rdf:first /
//              rdf:rest / the list head statement and the rdf:type/subject/predicate/object statements of
//              a reification
//   object     typed node element: its tag name; property attribute: the attribute value with quotes;
//              rdf:resource / rdf:nodeID: the attribute value with quotes; literal property element with
//              character data: everything between the end of the start tag and the start of the end tag
//              (comments, CDATA sections and references included). Absent for a nested node element
//              ("TODO" in the decoder), parseType Literal/Resource/Collection, the empty literal of
//              `<p/>`/`<p></p>`, collection cells. Reification (rdf:ID on a property element): the
//              rdf:subject/rdf:predicate/rdf:object statements carry, as their object range, the
//              subject/predicate/object range of the reified statement
//   checked    the slice is exactly a tag name, an attribute name or an attribute value (with quotes) of
//              a start tag found by an independent scanner, or the content between a start tag and the
//              next end tag; names expand (through the xmlns declarations of the document) to the IRI;
//              attribute values relate to the term: rdf:about/resource/type → reference text of the
//              IRI, rdf:ID → "#"+value, rdf:nodeID → label, property attribute → lexical form; content →
//              the character data (references, CDATA, comments, newline normalisation) is the lexical form
//
// JSON-LD (encoding/jsonld/decoder.go over internal/jsonldinternal expansion; tokens of inspectjson)
//   subject    the string token of the `@id` value (or of the key of an id map), quotes included; for a
//              node object without `@id` the whole object `{ … }`. Absent for list cells
//   predicate  the string token of the member name the value was found under (`"@type"` or its alias
//              for rdf:type; the `@index` mapping value of the context for property-valued indexes).
//              Absent for `@reverse` properties, rdf:rest, rdf:first of value objects in a list
//              (rdf:first of a node object in a list carries the key of the list property: reported
//              as slice/jsonld-list-first-has-property-key)
//   object     the value token: string / number / true / false token of `@value` (or of the plain
//              value), the `@id` string, the `@type` string, `{ … }` for a node object without `@id`;
//              any JSON value for `@json` literals. Absent for rdf:nil and list cells
//   graph      the subject range of the object that has the `@graph` member
//   checked    the slice is exactly one JSON value (lax JSON for the combined HTML decoder, which enables
//              the lax tokenizer); string tokens decode to the lexical form / "_:"+label; numbers and
//              booleans agree with the lexical form; generated blank nodes have `{ … }` ranges and
//              only they; without any `@context` in the document: absolute IRIs are equal to the decoded
//              text, predicates are member names (followed by `:`), rdf:type is written `@type`
//
// RDFa (encoding/htmlrdfa/decoder.go) and Microdata (encoding/htmlmicrodata/decoder.go); positions from
// inspecthtml (x/net/html tokenizer on the original bytes, attributes re-found by regular expressions)
//   subject    RDFa: the value of about / resource / href / src (quotes included when written); for the
//              blank node generated by typeof: the whole element from `<` of the start tag to `>` of the
//              end tag (the start tag only when no end is known); inherited from the parent otherwise.
//              Microdata: the itemid value, else the whole itemscope element
//   predicate  RDFa: the whole value of property / rel / rev (all space-separated names, with quotes); for
//              rdf:type the attribute NAME `typeof`. Microdata: the whole itemprop value; rdf:type: the
//              attribute name `itemtype`
//   object     attribute value (content, datetime, resource, href, src, data, value; the whole typeof /
//              itemtype value for rdf:type), or the element content between start tag and end tag for
//              text, or the range of the nested subject. RDFa gives the blank node of a hanging rel/rev
//              the range of the rel/rev value
//   absent     base-IRI subjects (root element), list statements (inlist), copied patterns
//              (rdfa:copy), rdfa:usesVocabulary, empty text content, elements without metadata
//   checked    the slice is exactly an attribute name / attribute value (as delimited by the HTML
//              tokenizer rules) of a start tag, a start tag, an element from the `<` of its start tag to
//              the end of a later token, or the content from the end of a start tag to the start of a
//              later token / the end of the document (implied end tags and unclosed elements: inspecthtml
//              derives those ends from the last child or next sibling); the attribute is one the decoder
//              reads for that slot; plain values relate to the term (literal: the value as the tokenizer
//              decodes it is the lexical form, except the canonicalised datetime / meter values; IRI:
//              its letters and digits end with those of the reference / CURIE reference / term; blank
//              node `_:x`: label); content: when it and the whole document are well nested, its text is
//              the lexical form (not for XMLLiteral / HTML literals and html/head/body, which the tree
//              builder merges); an empty range is accepted only for the empty literal of an empty element
//
// HTML-embedded JSON-LD (encoding/htmljsonld): the JSON-LD ranges, the embedded decoder starting at the
// end of the `<script>` start tag: as JSON-LD, and the slice lies in the text of a script element.
// Combined HTML decoder (encoding/html/htmldefaults): union of the three (JSON-LD in lax mode).
// decode() gives the blank node factory to rdfjson, rdfxml, jsonld and rdfa only: for the other formats a
// labelled blank node cannot be told from a generated one and both forms of range are accepted.
//
// Sub-keys. Root causes found so far have their own sub-key (zero-range, xml-tagname-slash,
// xml-attrname-overreach, xml-subject-of-other-node, html-unquoted-value-range,
// jsonld-list-first-has-property-key); any other sub-key raised on a document with a known root-cause
// trait (wholeDocTraits in whole_html.go: unquoted-attr, attr-nospace, attr-slash, attr-soup, dup-attr,
// script-cr, json-comment, short-comment, unquoted-slash-end, unclosed-formatting, xml-attr) is written
// "<sub>@<traits>". Missing-range reasons start with a stable key followed by ": ".
// Development aids (environment): C16X_DUMP=1|bad, C16X_SKIP=sub,…, C16X_SKIPTRAITS=1.

import (
	"fmt"
	"os"
	"regexp"
	"strconv"
	"strings"
	"unicode"

	"verifharness/vh"

	"github.com/dpb587/rdfkit-go/rdf"
)

const (
	rdfSubject   = rdfNS + "subject"
	rdfPredicate = rdfNS + "predicate"
	rdfObject    = rdfNS + "object"
	rdfStatement = rdfNS + "Statement"
	rdfJSON      = rdfNS + "JSON"
	rdfLangStr   = rdfNS + "langString"
	rdfXMLLit    = rdfNS + "XMLLiteral"
	rdfHTMLLit   = rdfNS + "HTML"
	rdfaNS       = "http://www.w3.org/ns/rdfa#"
)

var specificSubs = map[string]bool{
	"zero-range": true, "xml-tagname-slash": true, "xml-attrname-overreach": true, "xml-subject-of-other-node": true,
	"html-unquoted-value-range": true, "jsonld-list-first-has-property-key": true,
}

var dumpSlices = os.Getenv("C16X_DUMP") != ""
var skipTraits = os.Getenv("C16X_SKIPTRAITS") != ""
var dumpBadOnly = os.Getenv("C16X_DUMP") == "bad"

// development aid: C16X_SKIPTRAITS=1 silences slice and missing-range violations of documents with a
// known root-cause trait (wholeDocTraits). C16X_SKIP=sub,sub,… silences slice sub-keys (and "range-missing") so that rarer
// classes fit in the report's case list.
var skipSubs = func() map[string]bool {
	m := map[string]bool{}
	for _, k := range strings.Split(os.Getenv("C16X_SKIP"), ",") {
		if k != "" {
			m[k] = true
		}
	}
	return m
}()

func wholeSlice(sc sliceCtx) (sub, msg string) {
	if dumpSlices {
		defer func() {
			if dumpBadOnly {
				if sub != "" && !skipSubs[sub] {
					fmt.Fprintf(os.Stderr, "BAD %s/%s stmt %d (%s) %s [%d,%d) %q: %s -- base=%q doc %q\n", sc.c.format, sub, sc.i, sc.res.stmts[sc.i].wire, slotName[sc.slot], sc.fb, sc.ub, clip(sc.slice, 120), msg, sc.c.base, clip(string(sc.doc), 1500))
				}
				return
			}
			fmt.Fprintf(os.Stderr, "DUMP %s stmt %d %s [%d,%d) %q term=%v => %s %s\n", sc.c.format, sc.i, slotName[sc.slot], sc.fb, sc.ub, clip(sc.slice, 120), sc.term, sub, msg)
		}()
	}
	if len(skipSubs) > 0 {
		defer func() {
			if skipSubs[sub] {
				sub, msg = "", ""
			}
		}()
	}
	if skipTraits && wholeDocTraits(sc.c.format, sc.doc) != "" {
		return "", ""
	}
	// a violation in a document with a known root-cause trait is keyed "<sub>@<traits>" (unless the
	// sub-key names a root cause itself), so that the findings can be told apart
	defer func() {
		if sub != "" && !specificSubs[sub] {
			if tr := wholeDocTraits(sc.c.format, sc.doc); tr != "" {
				sub += "@" + tr
			}
		}
	}()
	if sc.slice == "" {
		if sc.fb == 0 && sc.res.stmts[sc.i].r[sc.slot].from == (off{}) {
			return "zero-range", "the range is the zero value 0.0.0-0.0.0 (no position was recorded)"
		}
		if l, ok := sc.term.(rdf.Literal); ok && l.LexicalForm == "" && htmlFamily[sc.c.format] {
			// the empty content of an element, at the end of its start tag: where the empty literal is
			toks := scanDoc(sc.doc, true)
			if p := tokEndingAt(toks, int(sc.fb)); p >= 0 && toks[p].kind == 'S' {
				return "", ""
			}
		}
		return "empty", "empty slice"
	}
	switch sc.c.format {
	case "rdfjson":
		return rdfjsonSlice(sc)
	case "rdfxml":
		return rdfxmlSlice(sc)
	case "jsonld":
		return jsonldSlice(sc, false)
	case "rdfa", "microdata", "htmljsonld", "html":
		return htmlSlice(sc)
	}
	return "format", "no slice check for format " + sc.c.format
}

// wholeMissingRangeOK: "" when the absence of the range is what the decoder intends. The reason
// strings start with a stable key followed by ": ".
func wholeMissingRangeOK(c cfg, res *result, i, slot int) string {
	if skipSubs["range-missing"] {
		return ""
	}
	if d := docOf(res); skipTraits && d != nil && wholeDocTraits(c.format, d) != "" {
		return ""
	}
	r := ""
	switch c.format {
	case "rdfjson":
		r = "rdfjson-always: every RDF/JSON statement is read from three tokens"
	case "rdfxml":
		return rdfxmlMissing(c, res, i, slot)
	case "jsonld":
		r = jsonldMissing(c, res, i, slot, docOf(res))
	case "rdfa", "microdata", "htmljsonld", "html":
		r = htmlMissing(c, res, i, slot)
	}
	if r != "" {
		if tr := wholeDocTraits(c.format, docOf(res)); tr != "" {
			if k := strings.Index(r, ": "); k > 0 {
				r = r[:k] + "@" + tr + r[k:]
			}
		}
	}
	return r
}

// ---------------------------------------------------------------- shared helpers

// labelsKnown: does decode() hand the decoder of this format the blank node factory whose labels
// result.label reports? (htmljsonld, microdata and the combined decoder take none: a labelled blank
// node is indistinguishable from a generated one there.)
func labelsKnown(format string) bool {
	switch format {
	case "rdfjson", "rdfxml", "jsonld", "rdfa":
		return true
	}
	return false
}

func termIRI(t rdf.Term) (string, bool) {
	v, ok := t.(rdf.IRI)
	return string(v), ok
}

func predIRI(res *result, i int) string {
	p, _ := termIRI(res.stmts[i].quad.Triple.Predicate)
	return p
}

// labelOf: written label of a labelled blank node ("" and false for generated ones and other terms).
func labelOf(res *result, t rdf.Term) (string, bool) {
	b, ok := t.(rdf.BlankNode)
	if !ok {
		return "", false
	}
	l := res.label(b)
	if strings.HasPrefix(l, "?anon") {
		return "", false
	}
	return l, true
}

var reScheme = regexp.MustCompile(`^[A-Za-z][A-Za-z0-9+.\-]*:`)

func hasScheme(s string) bool { return reScheme.MatchString(s) }

func pctDecode(s string) string {
	if !strings.Contains(s, "%") {
		return s
	}
	var sb strings.Builder
	for i := 0; i < len(s); i++ {
		if s[i] == '%' && i+2 < len(s) {
			if v, err := strconv.ParseUint(s[i+1:i+3], 16, 8); err == nil {
				sb.WriteByte(byte(v))
				i += 2
				continue
			}
		}
		sb.WriteByte(s[i])
	}
	return sb.String()
}

// skeleton: lower-cased letters and digits of s (after percent-decoding): what survives every IRI
// normalisation the decoders apply (percent-encoding of hosts, dropped empty authorities, …).
func skeleton(s string) string {
	var sb strings.Builder
	for _, r := range strings.ToValidUTF8(pctDecode(s), "") {
		if unicode.IsLetter(r) || unicode.IsDigit(r) {
			sb.WriteRune(unicode.ToLower(r))
		}
	}
	return sb.String()
}

// iriRefOK: may `ref` (a possibly relative reference, already unescaped) have resolved to `iri`
// against some base? Compared on skeletons: the IRI must end with the reference (with its fragment
// when the reference contains dot segments, which resolution removes).
func iriRefOK(iri, ref string) bool {
	if iri == ref {
		return true
	}
	ref = strings.TrimSpace(ref)
	if ref == "" {
		return true
	}
	if strings.Contains(ref, "/.") || strings.HasPrefix(ref, ".") {
		if k := strings.IndexByte(ref, '#'); k >= 0 {
			return strings.HasSuffix(skeleton(iri), skeleton(ref[k:]))
		}
		return true
	}
	return strings.HasSuffix(skeleton(iri), skeleton(ref))
}

// docOf: the document a result was decoded from.
func docOf(res *result) []byte { return res.doc }

func quoteClip(s string) string { return fmt.Sprintf("%q", clip(s, 80)) }

var _ = vh.Pick[int]
