import RdfModel.Driver.Wire
import RdfModel.Model.NQuads
import RdfModel.Model.GoUrl
import RdfModel.Model.IriUnify
import RdfModel.Gen.NQTables
import RdfModel.Spec.NQuadsGrammar
namespace RdfModel.Driver.NQ
open RdfModel RdfModel.Wire RdfModel.NQ

def tablesOf (pkg : String) : Option (Tables × Bool) :=
  if pkg = "nq" then some (Gen.nquads, true)
  else if pkg = "nt" then some (Gen.ntriples, false)
  else none

def showClass : EClass → String
  | .eof => "eof" | .io => "io" | .syntax => "syntax" | .url => "url"

def showVerdict : Verdict → String
  | .clean => "clean"
  | .error e => "err:" ++ showClass e
  | .outOfFuel => "out-of-fuel"

/-- option list on the wire: `a1p0;a-p2;…` (`a` ∈ 1,0,-  `p` ∈ digit,-) -/
def parseOpts (s : String) : Option (List EncOpt) :=
  (s.splitOn ";").filter (· ≠ "") |>.mapM (fun t =>
    match t.toList with
    | ['a', a, 'p', p] =>
      let av := if a = '1' then some (some true) else if a = '0' then some (some false) else if a = '-' then some none else none
      let pv := if p = '-' then some none else if p.isDigit then some (some (p.toNat - 48)) else none
      match av, pv with
      | some a, some p => some ⟨a, p⟩
      | _, _ => none
    | _ => none)

def handle (op : String) (args : List String) : Option String :=
  match op, args with
  | "opts", [o] => do
    let os ← parseOpts o
    pure (s!"{if effectiveAscii os then 1 else 0} {match effectiveProv os with | some p => toString p | none => "-"}")
  | "enc", [pkg, ascii, s, p, o, g] => do
    let (T, quads) ← tablesOf pkg
    let s ← (← parseTerm s)
    let p ← (← parseTerm p)
    let o ← (← parseTerm o)
    let g ← parseTerm g
    match encodeQuad T (ascii = "1") id quads ⟨s, p, o, g⟩ with
    | some rs => pure (tokOfRunes rs)
    | none => pure "none"
  | "dec", [pkg, e, inp] => do
    let (T, quads) ← tablesOf pkg
    let e ← (if e = "eof" then some End.eof else if e = "io" then some End.ioerr else none)
    let rs ← runesTok inp
    -- urlOk = the full net/url model (Model/GoUrlFull.lean, tied exactly by `piri.*`) on the UTF-8 bytes of the
    -- runes; equal to `GoUrl.parseAbsOk` on those bytes for every input: Props/IriUnify.lean
    let (qs, v) := run T IriUnify.urlOk e quads rs
    pure (String.intercalate ";" (qs.map showQuad) ++ "|" ++ showVerdict v)
  | "accepts", [pkg, inp] => do
    let (T, quads) ← tablesOf pkg
    let rs ← runesTok inp
    pure (toString (Spec.NQG.accepts (inRanges T.pnCharsU) (inRanges T.pnChars) quads rs))
  | "url", [s] => do
    let rs ← runesTok s
    pure (if IriUnify.urlOk rs then "abs" else if GoUrl.parseOk rs then "rel" else "bad")
  | _, _ => none

end RdfModel.Driver.NQ
