/-
  Part IRIU (serves C01, C12, C13) — the IRI models unified on the ONE model tied exactly to the code.

  1. `goUrl_accepts_eq_full_partial`: the acceptance model of net/url that the N-Triples / N-Quads driver used
     as `urlOk` (Model/GoUrl.lean, `parseAbsOk`) IS the acceptance of the full net/url model
     (Model/GoUrlFull.lean, tied exactly by the `piri.*` ops: `(parse s).isOk ∧ IsAbs`) on every input the full
     model covers; the single excluded class is `PErr.unmodelled` ('%' inside an IP literal — RFC 6874 zones),
     with a kernel-evaluated witness; `urlOk_unified`: the `urlOk` the driver now runs (`IriUnify.urlOk`,
     the full model on the UTF-8 bytes, GoUrl only inside the excluded class) equals the old acceptance model
     on those bytes for EVERY input.
  2. `relativize_sound_code`: what `BaseIRI.RelativizeIRI` offers for an absolute base resolves back to
     exactly the IRI under the model of the resolver the code itself calls (`PIRI.resolveStr` =
     `ParseIRI(b).Parse(r).String()`), for every base — no domain restriction; `relativize_sound_rfc_partial`:
     the RFC 3986 version on gourl's sub-language (`C12W.resolve_eq_rfc_partial`).
  Lemmas: Proofs/IriUnifyAccept.lean, Proofs/IriUnifyUtf8.lean, Proofs/IriUnifyRel.lean.
-/
import RdfModel.Proofs.IriUnifyAccept
import RdfModel.Proofs.IriUnifyUtf8
import RdfModel.Proofs.IriUnifyRel
namespace RdfModel.IRIU
open RdfModel RdfModel.GoUrlFull RdfModel.PIRI RdfModel.IriUnify
open RdfModel.Prefix (Outcome)
open RdfModel.Proofs.IriUnify (baseIsAbs)

def S (s : String) : Str := s.toUTF8.toList.map (·.toNat)

instance : DecidableEq (Except PErr (Option Str)) := fun a b =>
  match a, b with
  | .ok x, .ok y => if h : x = y then isTrue (by rw [h]) else isFalse (fun e => h (by injection e))
  | .error x, .error y => if h : x = y then isTrue (by rw [h]) else isFalse (fun e => h (by injection e))
  | .ok _, .error _ => isFalse (fun e => by cases e)
  | .error _, .ok _ => isFalse (fun e => by cases e)

/-! ## 1. one model of net/url acceptance -/

/-- Full statement: the two models of `url.Parse` + `IsAbs` agree on every byte string. NOT provable as it
    stands only because the full model declines one class (`fullUnmodelled`, witness below) — on that class the
    acceptance model answers (zones are modelled there) and the full model says "no". -/
def GoUrlAcceptsEqFull : Prop := ∀ s : Str, GoUrl.parseAbsOk s = fullAbsOk s

/-- Proved part: for EVERY list `s` (bytes or not) on which the full model does not answer `unmodelled`,
    `Model.GoUrl`'s acceptance (the function the NQ driver used as `urlOk`) = `(GoUrlFull.parse s).isOk ∧ IsAbs`,
    and likewise for plain acceptance (`url.Parse` succeeds, relative references included).
    Exactly excluded: inputs whose host is an IP literal `[…]` whose port is well formed and whose text between
    the brackets contains '%' (`parseHost` reaches `PErr.unmodelled`). -/
theorem goUrl_accepts_eq_full_partial (s : Str) (h : fullUnmodelled s = false) :
    GoUrl.parseAbsOk s = fullAbsOk s ∧ GoUrl.parseOk s = fullOk s :=
  ⟨Proofs.IriUnify.parseAbsOk_eq_full s h, Proofs.IriUnify.parseOk_eq_full s h⟩

-- non-trivial members of the hypothesis: userinfo, port, IPv6 with embedded IPv4 (the class on which the
-- acceptance model was WRONG before this part: it rejected `[::1.2.3.4]`, Go accepts), non-ASCII host bytes,
-- escapes; accepted and rejected inputs
example : fullUnmodelled (S "a://u:p@[::ffff:1.2.3.4]:80/p%41?q#f") = false ∧
    GoUrl.parseAbsOk (S "a://u:p@[::ffff:1.2.3.4]:80/p%41?q#f") = true := by decide +kernel
example : fullUnmodelled (S "http://é.example/%zz") = false ∧ GoUrl.parseAbsOk (S "http://é.example/%zz") = false ∧
    fullUnmodelled (S "a/b:c") = false ∧ GoUrl.parseAbsOk (S "a/b:c") = false ∧ GoUrl.parseOk (S "a/b:c") = true := by
  decide +kernel

/-- the excluded class is real and is where the full statement fails: a zone identifier — Go accepts
    (replayed: `url.Parse("a://[::1%25eth0]")` succeeds), the acceptance model accepts, the full model declines -/
theorem goUrl_accepts_eq_full_witness : ¬ GoUrlAcceptsEqFull := by
  intro h
  have := h (S "a://[::1%25eth0]")
  revert this
  decide +kernel

example : fullUnmodelled (S "a://[::1%25eth0]") = true ∧ GoUrl.parseAbsOk (S "a://[::1%25eth0]") = true ∧
    fullUnmodelled (S "a://[::1%25]") = true ∧ GoUrl.parseAbsOk (S "a://[::1%25]") = false := by decide +kernel

/-- The `urlOk` parameter as the NT/NQ driver instantiates it since this part (`IriUnify.urlOk`: runes →
    UTF-8 bytes → full model, the acceptance model only inside the excluded class) is, for EVERY rune list,
    the old acceptance model on those bytes: switching the driver changed no answer, and outside the excluded
    class the answer is the full model's. -/
theorem urlOk_unified (rs : List Nat) :
    IriUnify.urlOk rs = GoUrl.parseAbsOk (utf8Encode rs) ∧
    (fullUnmodelled (utf8Encode rs) = false → IriUnify.urlOk rs = fullAbsOk (utf8Encode rs)) := by
  refine ⟨Proofs.IriUnify.absOkBytes_eq _, fun h => ?_⟩
  unfold IriUnify.urlOk
  rw [Proofs.IriUnify.absOkBytes_eq, Proofs.IriUnify.parseAbsOk_eq_full _ h]

/-- The acceptance model does not care whether it sees the runes of `string(decoded)` or their UTF-8 bytes
    (every delimiter it looks for is ASCII; any element ≥ 0x80 is in the same class as the bytes of its
    encoding; non-scalar values are encoded as U+FFFD like Go's `string(rune)`), hence the switch of the
    NT/NQ driver from `GoUrl.parseAbsOk` on runes to `IriUnify.urlOk` changed NO answer, for every rune list:
    all C01/C05/C06/C07/C15/C16 runs of the driver are the runs they were. -/
theorem urlOk_switch_noop (rs : List Nat) :
    IriUnify.urlOk rs = GoUrl.parseAbsOk rs ∧ GoUrl.parseAbsOk (utf8Encode rs) = GoUrl.parseAbsOk rs ∧
    GoUrl.parseOk (utf8Encode rs) = GoUrl.parseOk rs :=
  ⟨Proofs.IriUnify.urlOk_eq_goUrl rs, Proofs.IriUnify.parseAbsOk_utf8 rs, Proofs.IriUnify.parseOk_utf8 rs⟩

/-! ## 2. `RelativizeIRI` against the resolver the code calls -/

/-- For every base `b` that `ParseBaseIRI` accepts as absolute and every `v`: whatever `RelativizeIRI` offers
    resolves back — `ParseIRI(b).Parse(r).String()`, in the exact model of the code — to exactly `v`, and never
    starts with "//". No restriction on the shape of the base (upper-case scheme, userinfo, IP literals,
    non-ASCII or escaped host, opaque / rootless, dot segments, empty query or fragment: all included; these are
    the bases on which the resolver deviates from RFC 3986 and on which `C13.relativize_checked`, stated for
    `goResolve`, says nothing about the code). -/
theorem relativize_sound_code (b v r : Str) (h : relativizeCode b v = .res (.some r))
    (habs : baseIsAbs b = true) :
    resolveStr b r = .ok (some v) ∧ [0x2f, 0x2f].isPrefixOf r = false :=
  Proofs.IriUnify.relativize_sound_code_core b v r h habs

-- bases outside C13's domain: upper-case scheme (printed lower-case), userinfo + IPv6, an opaque base, and a
-- base whose resolver deviates from RFC 3986 (empty fragment is sticky)
example : relativizeCode (S "HTTP://E/a/b") (S "http://E/a/c#f") = .res (.some (S "c#f")) ∧
    baseIsAbs (S "HTTP://E/a/b") = true := by decide +kernel
example : relativizeCode (S "x://u@[::1]:8/a/b?q") (S "x://u@[::1]:8/a/") = .res (.some (S "./")) ∧
    baseIsAbs (S "x://u@[::1]:8/a/b?q") = true := by decide +kernel
example : relativizeCode (S "urn:a/b") (S "urn:a/c") = .res (.some (S "c")) ∧ baseIsAbs (S "urn:a/b") = true := by
  decide +kernel
example : relativizeCode (S "http://e/a#") (S "http://e/a#f") = .res (.some (S "#f")) ∧
    relativizeCode (S "http://e/a#") (S "http://e/b#") = .res .none := by decide +kernel

/-- The hypothesis `baseIsAbs` cannot be dropped: for a relative base the code does not verify (it cannot: its
    resolver roots relative base paths), and the suffix it offers does not resolve back in the code's resolver. -/
theorem relativize_sound_code_relative_witness :
    relativizeCode (S "a/b") (S "a/b#f") = .res (.some (S "#f")) ∧ baseIsAbs (S "a/b") = false ∧
    resolveStr (S "a/b") (S "#f") = .ok (some (S "/a/b#f")) := by decide +kernel

/-- What holds for a base that is not absolute: only the "#…" / "?…" suffix forms are offered, and the IRI is
    literally the printed base followed by the offered reference. -/
theorem relativize_relative_suffix (b v r : Str) (p : ParsedIRI) (hp : parseIRI b = .ok p) (hna : p.isAbs = false)
    (h : relativizeCode b v = .res (.some r)) :
    v = p.str ++ r ∧ (r.head? = some 0x23 ∨ r.head? = some 0x3f) :=
  Proofs.IriUnify.relativize_rel_suffix_core b v r p hp hna h

example : relativizeCode (S "a/b?q") (S "a/b?q#f") = .res (.some (S "#f")) := by decide +kernel

/-- RFC 3986 version (C13's `relativize_sound`), as a corollary of the code-level theorem and gourl's
    `C12W.resolve_eq_rfc_partial`: when base and offered reference lie in `ResolveLang` (base
    `scheme://host[:port]/path[?query]` without fragment, both in `InLang` with '%'-free paths, outside the
    classes base-dot-segments-empty-path-reference and dotdot-then-empty-segment) the offered reference resolves
    to `v` under `Spec.RFC3986.resolve`. Partial: outside `ResolveLang` (bases with a fragment, '%' or non-ASCII
    in paths, userinfo, IP literals, no authority) only the code-level statement is proved; `baseIsAbs` is
    implied by `ResolveLang` but kept as a hypothesis (decidable, checked by the examples). -/
theorem relativize_sound_rfc_partial (b v r : Str) (h : relativizeCode b v = .res (.some r))
    (habs : baseIsAbs b = true)
    (hl : C12W.ResolveLang (Spec.RFC3986.split b) (Spec.RFC3986.split r) = true) :
    Spec.RFC3986.resolve b r = v :=
  Proofs.IriUnify.relativize_sound_rfc_core b v r h habs hl

example : relativizeCode (S "http://e/a/b?q") (S "http://e/a/") = .res (.some (S "./")) ∧
    baseIsAbs (S "http://e/a/b?q") = true ∧
    C12W.ResolveLang (Spec.RFC3986.split (S "http://e/a/b?q")) (Spec.RFC3986.split (S "./")) = true := by decide +kernel
example : relativizeCode (S "x-y://h:80/a/b/c") (S "x-y://h:80/a/d?y#s") = .res (.some (S "/a/d?y#s")) ∧
    C12W.ResolveLang (Spec.RFC3986.split (S "x-y://h:80/a/b/c")) (Spec.RFC3986.split (S "/a/d?y#s")) = true := by
  decide +kernel

/-- `ParseBaseIRI` never panics in `NewBaseIRI` (`baseRoot.String()` on a nil result): "/" and "./" always parse
    and `ResolveReference` never panics (C12W). -/
theorem relativize_no_base_panic (b v : Str) : relativizeCode b v ≠ .basePanic :=
  Proofs.IriUnify.relativizeCode_no_basePanic_core b v

/-- Model witness of the defect repaired by patches/c13-fix-relativize-bounds.patch: for the base "http:/a/b"
    the directory index (length of "http:///a/") exceeds the length of the base; the unrepaired code sliced
    `rb.original[0:10]` (replayed on the code: panic); the repaired code, which `candidateCode` follows, declines. -/
theorem relativize_special_no_authority_witness :
    (match parseIRI (S "http:/a/b") with
      | .ok p => (baseIndices p).map (fun ix => (p.str.length, ix.root, ix.directory))
      | .error _ => none) = some (9, some 8, some 10) ∧
    relativizeCode (S "http:/a/b") (S "http:/a/ab") = .res .none := by decide +kernel

end RdfModel.IRIU
