/-
  Driver component "xsdf": Model.XsdFloat (value side of xsd:decimal / double / float) and
  Spec.XsdDecimal behind the line protocol. <type> ∈ decimal | double | float; <v> is a Go float as
  `nan` or the hexadecimal IEEE bit pattern (float32 pattern for xsd:float).
    xsdf.map <type> x<hex>                   → ok x<lex> <v> | err | unmodelled   (Map*, AsObjectValue lexical form, value;
                                               `unmodelled` also when GF.outChecked does not validate the expansion)
    xsdf.teq <type> x<hex> L x<dt> x<lex>    → true | false | err | unknown
    xsdf.teq <type> x<hex> N                 → same, non-literal term
    xsdf.round <bits> x<hex>                 → ok <v> | err        (model of strconv.ParseFloat incl. the value)
    xsdf.short <bits> <v>                    → <neg> x<digits> <dp> | nan | inf <neg>   (shortest expansion, not validated)
    xsdf.fmt <type> <neg> x<digits> <dp>     → x<lex>              (formatter of the type on a given expansion)
    xsdf.fmt <type> nan | inf0 | inf1        → x<lex>
    xsdf.wf <neg> x<digits> <dp>             → true | false        (strconv post-conditions `Dec.WF`)
    xsdf.declex x<hex>                       → some <neg> <n> <scale> | none     (Spec ·decimalLexicalMap·)
    xsdf.canon x<hex>                        → true | false        (Spec: shape of ·decimalCanonicalMap·)
-/
import RdfModel.Driver.Wire
import RdfModel.Model.XsdFloat
import RdfModel.Spec.XsdDecimal
import RdfModel.Props.C20FloatDefs
import RdfModel.Gen.XsdFacts
namespace RdfModel.Driver.XsdFloat
open RdfModel RdfModel.Wire RdfModel.Xsd RdfModel.XsdF

def tyOf : String → Option FloatTy
  | "decimal" => some .decimal | "double" => some .double | "float" => some .float | _ => none

def hexNat (s : String) : Option Nat :=
  s.toList.foldl (fun acc c => do let a ← acc; let d ← hexVal c; pure (a * 16 + d)) (some 0)

def natHex (n : Nat) : String := String.ofList (Nat.toDigits 16 n)

def showGF (I : FmtInfo) : GF → String
  | .nan => "nan"
  | x => natHex (x.toBits I)

def readGF (I : FmtInfo) (s : String) : Option GF :=
  if s = "nan" then some .nan else (hexNat s).map (GF.ofBits I)

def b01 (b : Bool) : String := if b then "1" else "0"
def read01 : String → Option Bool | "0" => some false | "1" => some true | _ => none

def showTeq : TeqRes → String
  | .val b => toString b
  | .mapErr => "err"
  | .unknown => "unknown"

def handle (op : String) (args : List String) : Option String :=
  match op, args with
  | "map", [ty, inp] => do
    let T ← tyOf ty
    let bs ← bytesTok inp
    let f := Gen.xsdFacts.float T
    pure (match mapFloatX f bs with
      | .ok x =>
        (match lexGF f.objFmt f.objBits x with
         | some l => "ok " ++ tokOfBytes l ++ " " ++ showGF (fmtInfo f.bitSize) x
         | none => "unmodelled")
      | .error .unmodelled => "unmodelled"
      | .error _ => "err")
  | "teq", [ty, inp, "L", dt, lex] => do
    let T ← tyOf ty
    let bs ← bytesTok inp
    let d ← bytesTok dt
    let l ← bytesTok lex
    pure (showTeq (termEqualsX Gen.xsdFacts T bs (.literal d l)))
  | "teq", [ty, inp, "N"] => do
    let T ← tyOf ty
    let bs ← bytesTok inp
    pure (showTeq (termEqualsX Gen.xsdFacts T bs .notLiteral))
  | "round", [bits, inp] => do
    let b ← bits.toNat?
    let bs ← bytesTok inp
    pure (match parseFloat bs b with
      | .ok v => (match roundFV b v with | .ok x => "ok " ++ showGF (fmtInfo b) x | .error _ => "err")
      | .error _ => "err")
  | "short", [bits, v] => do
    let b ← bits.toNat?
    let x ← readGF (fmtInfo b) v
    pure (match x.out (fmtInfo b) with
      | some .nan => "nan"
      | some (.inf neg) => "inf " ++ b01 neg
      | some (.fin d) => b01 d.neg ++ " " ++ tokOfBytes d.ds ++ " " ++ toString d.dp
      | none => "none")
  | "fmt", [ty, sp] => do
    let T ← tyOf ty
    let o ← (match sp with
      | "nan" => some FOut.nan | "inf0" => some (.inf false) | "inf1" => some (.inf true) | _ => none)
    let l ← fmtOut (Gen.xsdFacts.float T).objFmt o
    pure (tokOfBytes l)
  | "fmt", [ty, neg, ds, dp] => do
    let T ← tyOf ty
    let n ← read01 neg
    let d ← bytesTok ds
    let p ← dp.toInt?
    let l ← fmtOut (Gen.xsdFacts.float T).objFmt (.fin ⟨n, d, p⟩)
    pure (tokOfBytes l)
  | "wf", [neg, ds, dp] => do
    let n ← read01 neg
    let d ← bytesTok ds
    let p ← dp.toInt?
    pure (toString (C20F.decWF ⟨n, d, p⟩))
  | "declex", [inp] => do
    let bs ← bytesTok inp
    pure (match Spec.Xsd.decimalLex bs with
      | some (neg, n, k) => "some " ++ b01 neg ++ " " ++ toString n ++ " " ++ toString k
      | none => "none")
  | "canon", [inp] => do
    let bs ← bytesTok inp
    pure (toString (Spec.Xsd.isCanonDecimal bs))
  | _, _ => none

end RdfModel.Driver.XsdFloat
