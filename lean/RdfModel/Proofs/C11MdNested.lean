/-
  Proofs/C11MdNested — model side of the nested-items refinement (part C11MD): on every embedded fragment tree
  WITHOUT itemref the decoder model emits exactly the streaming semantics `Stream.swP` (Proofs/C11MdStream), with
  the blank node of the item at path `p` renamed to `rank doc p` = the number of blank-node items before `p` in
  document order (= the decoder's counter when it reaches that item).  Items nested to any depth, every
  element-specific value rule, multi-token itemprop with duplicates, arbitrary non-item wrapper elements and text.
-/
import RdfModel.Proofs.C11MdStream
set_option linter.unusedSimpArgs false
set_option linter.unusedSectionVars false
namespace RdfModel.Mdd.Nested
open RdfModel RdfModel.Desc RdfModel.Spec.Html RdfModel.Spec.Microdata RdfModel.Mdd RdfModel.Mdd.Typed RdfModel.Mdd.Stream

/-! ## the renaming: rank of an item in document order among the blank-node items -/

def selfBn (a : Attrs) : Nat := if a.itemscope && isBnItem a then 1 else 0

mutual
def bnCount : Tree → Nat
  | .text _ => 0
  | .elem _ a ks => selfBn a + bnCountL ks
def bnCountL : List Tree → Nat
  | [] => 0
  | k :: ks => bnCount k + bnCountL ks
end

mutual
/-- number of blank-node items of `t` that come before the (relative) position `p` in document order -/
def rank : Tree → Path → Nat
  | .text _, _ => 0
  | .elem _ a ks, p =>
    match p with
    | [] => 0
    | i :: rest => selfBn a + rankKids ks i rest
def rankKids : List Tree → Nat → Path → Nat
  | [], _, _ => 0
  | k :: ks, j, rest =>
    match j with
    | 0 => rank k rest
    | j + 1 => bnCount k + rankKids ks j rest
end

theorem rank_nil (t : Tree) : rank t [] = 0 := by cases t <;> simp [rank]

/-- `σ` agrees with `rank` (shifted by `cnt`) on the subtree `t` at `here` -/
def SOk (σ : Path → Nat) (here : Path) (cnt : Nat) (t : Tree) : Prop := ∀ p, σ (here ++ p) = cnt + rank t p
def SOkK (σ : Path → Nat) (here : Path) (i cnt : Nat) (ks : List Tree) : Prop :=
  ∀ j p, σ (here ++ (i + j) :: p) = cnt + rankKids ks j p

theorem sok_here {σ : Path → Nat} {here : Path} {cnt : Nat} {t : Tree} (h : SOk σ here cnt t) : σ here = cnt := by
  have := h []; simpa [rank_nil] using this

theorem sok_kids {σ : Path → Nat} {here : Path} {cnt : Nat} {tag : Tag} {a : Attrs} {ks : List Tree}
    (h : SOk σ here cnt (.elem tag a ks)) : SOkK σ here 0 (cnt + selfBn a) ks := by
  intro j p
  have := h (j :: p)
  simp only [rank] at this
  rw [Nat.zero_add, this]; omega

theorem sokK_head {σ : Path → Nat} {here : Path} {i cnt : Nat} {k : Tree} {ks : List Tree}
    (h : SOkK σ here i cnt (k :: ks)) : SOk σ (here ++ [i]) cnt k := by
  intro p
  have := h 0 p
  simp only [rankKids, Nat.add_zero] at this
  rw [List.append_assoc]; simpa using this

theorem sokK_tail {σ : Path → Nat} {here : Path} {i cnt : Nat} {k : Tree} {ks : List Tree}
    (h : SOkK σ here i cnt (k :: ks)) : SOkK σ here (i + 1) (cnt + bnCount k) ks := by
  intro j p
  have := h (j + 1) p
  simp only [rankKids] at this
  rw [show i + 1 + j = i + (j + 1) by omega, this]; omega

mutual
/-- the positions of the items whose subject is a blank node, in document order -/
def bnItems (here : Path) : Tree → List Path
  | .text _ => []
  | .elem _ a ks => (if a.itemscope && isBnItem a then [here] else []) ++ bnItemsK here 0 ks
def bnItemsK (here : Path) (i : Nat) : List Tree → List Path
  | [] => []
  | k :: ks => bnItems (here ++ [i]) k ++ bnItemsK here (i + 1) ks
end

mutual
theorem bnItems_map (σ : Path → Nat) : ∀ (t : Tree) (here : Path) (cnt : Nat), SOk σ here cnt t →
    (bnItems here t).map σ = List.range' cnt (bnCount t)
  | .text _, _, _, _ => by simp [bnItems, bnCount]
  | .elem tag a ks, here, cnt, h => by
    have hk := bnItemsK_map σ ks here 0 (cnt + selfBn a) (sok_kids h)
    simp only [bnItems, bnCount, List.map_append, hk]
    rw [← List.range'_append_1]
    congr 1
    unfold selfBn
    split <;> simp [sok_here h]
theorem bnItemsK_map (σ : Path → Nat) : ∀ (ks : List Tree) (here : Path) (i cnt : Nat), SOkK σ here i cnt ks →
    (bnItemsK here i ks).map σ = List.range' cnt (bnCountL ks)
  | [], _, _, _, _ => by simp [bnItemsK, bnCountL]
  | k :: ks, here, i, cnt, h => by
    simp only [bnItemsK, bnCountL, List.map_append,
      bnItems_map σ k (here ++ [i]) cnt (sokK_head h), bnItemsK_map σ ks here (i + 1) (cnt + bnCount k) (sokK_tail h)]
    rw [List.range'_append_1]
end

theorem rank_inj (doc : Tree) (p q : Path) (hp : p ∈ bnItems [] doc) (hq : q ∈ bnItems [] doc)
    (h : rank doc p = rank doc q) : p = q := by
  have hm := bnItems_map (rank doc) doc [] 0 (by intro p; simp)
  have hnd : ((bnItems [] doc).map (rank doc)).Nodup := by rw [hm]; exact List.nodup_range'
  exact nodup_map_inj (rank doc) (bnItems [] doc) hnd hp hq h

/-! ## attribute look-ups, text content, element kinds on embedded elements -/

theorem findAttr_append (k : Bytes) (l1 l2 : List Attr) :
    findAttr k (l1 ++ l2) = (match findAttr k l1 with | some v => some v | none => findAttr k l2) := by
  induction l1 with
  | nil => rfl
  | cons a l1 ih =>
    simp only [List.cons_append, findAttr]
    split
    · exact ih
    · split
      · rfl
      · exact ih

theorem findAttr_opt (k : Bytes) (key : String) (v : Option Str) :
    findAttr k (optAttr key v) = if asc key = k then v else none := by
  cases v <;> simp [optAttr, findAttr]

theorem findAttr_scope (k : Bytes) (b : Bool) (h : asc "itemscope" ≠ k) :
    findAttr k (if b then [(⟨[], asc "itemscope", []⟩ : Attr)] else []) = none := by
  cases b <;> simp [findAttr, h]

macro "find_attr" f:term : tactic => `(tactic|
  (unfold attrsOf
   simp only [findAttr_append, findAttr_opt]
   rw [findAttr_scope _ _ (by decide)]
   simp (config := { decide := true }) only [↓reduceIte]
   generalize $f = o
   cases o <;> rfl))

theorem find_content (a : Attrs) : findAttr (asc "content") (attrsOf a) = a.content := by find_attr a.content
theorem find_href (a : Attrs) : findAttr (asc "href") (attrsOf a) = a.href := by find_attr a.href
theorem find_src (a : Attrs) : findAttr (asc "src") (attrsOf a) = a.src := by find_attr a.src
theorem find_data (a : Attrs) : findAttr (asc "data") (attrsOf a) = a.data := by find_attr a.data
theorem find_value (a : Attrs) : findAttr (asc "value") (attrsOf a) = a.value := by find_attr a.value
theorem find_datetime (a : Attrs) : findAttr (asc "datetime") (attrsOf a) = a.datetime := by
  unfold attrsOf
  simp only [findAttr_append, findAttr_opt]
  rw [findAttr_scope _ _ (by decide)]
  simp (config := { decide := true }) only [↓reduceIte]

def kindOfTag : Tag → ValueKind
  | .metaEl => .content
  | .audio | .embed | .iframe | .img | .source | .track | .video => .src
  | .a | .area | .link => .href
  | .object => .data
  | .data => .value
  | .meter => .meter
  | .time => .time
  | _ => .other

theorem kind_atomOf (tag : Tag) : kindOfAtom (atomOf tag) = kindOfTag tag := by cases tag <;> decide

mutual
theorem text_relabel : ∀ (m : Nat) (n : Node), textContent (relabelFrom m n).1 = textContent n
  | m, .mk i t ns a d as ks => by
    simp only [relabelFrom, textContent]
    rw [textL_relabel (m + 1) ks]
theorem textL_relabel : ∀ (m : Nat) (ks : List Node), textContentL (relabelL m ks).1 = textContentL ks
  | _, [] => by simp [relabelL, textContentL]
  | m, k :: ks => by
    simp only [relabelL, textContentL]
    rw [text_relabel m k, textL_relabel _ ks]
end

mutual
theorem text_ofSpec : ∀ t : Tree, textContent (ofSpec t) = textOf t
  | .text s => by simp [ofSpec, textContent, textContentL, textOf]
  | .elem tag a ks => by
    simp only [ofSpec, textContent, textOf]
    rw [textL_ofSpec ks]; simp
theorem textL_ofSpec : ∀ ks : List Tree, textContentL (ofSpecL ks) = textOfList ks
  | [] => by simp [ofSpecL, textContentL, textOfList]
  | k :: ks => by
    simp only [ofSpecL, textContentL, textOfList]
    rw [text_ofSpec k, textL_ofSpec ks]
end

/-! ## property names: Go's `knownItemprops` set is the fragment's `uniq` -/

theorem fields_ne (v : Str) : ∀ tok ∈ Spec.Html.fields v, tok ≠ [] := by
  rw [← typeTokens_eq_fields]; exact typeTokens_ne v

theorem propNamesGo_uniq (base : Str) (tm mm : List (Bytes → Option (Term Nat))) (types : List Str)
    (toks known : List Str) (hne : ∀ t ∈ toks, t ≠ []) :
    propNamesGo (specEnv base tm mm) types toks known =
      ((uniq toks).filter (fun t => !known.contains t)).map (predicate types) := by
  induction toks generalizing known with
  | nil => simp [propNamesGo, uniq]
  | cons tok rest ih =>
    have h0 : tok.isEmpty = false := by
      have := hne tok (by simp)
      cases tok <;> simp_all
    have ih' := fun k => ih k (fun t ht => hne t (by simp [ht]))
    unfold propNamesGo
    simp only [h0, Bool.false_eq_true, ↓reduceIte, uniq, List.filter_cons]
    by_cases hk : known.contains tok = true
    · simp only [hk, ↓reduceIte, Bool.not_true, Bool.false_eq_true]
      rw [ih', List.filter_filter]
      congr 1
      apply List.filter_congr
      intro x _
      by_cases hx : known.contains x = true
      · have hm : x ∈ known := by simpa using hx
        simp [hx, hm]
      · have hx' : known.contains x = false := by simpa using hx
        have : x ≠ tok := by intro e; subst e; rw [hk] at hx'; cases hx'
        simp [hx', this]
    · have hk' : known.contains tok = false := by simpa using hk
      simp only [hk', Bool.false_eq_true, ↓reduceIte, Bool.not_false, specEnv, List.map_cons]
      congr 1
      have := ih' (tok :: known)
      simp only [specEnv] at this
      rw [this, List.filter_filter]
      congr 1
      apply List.filter_congr
      intro x _
      simp only [List.contains_cons, Bool.not_or, bne]
      rw [Bool.and_comm]

theorem propNames_names (base : Str) (tm mm : List (Bytes → Option (Term Nat))) (types : List Str) (v : Str)
    (htok : Mdd.fields (trimSpace v) = Spec.Html.fields v) :
    propNames (specEnv base tm mm) types v = (uniq (Spec.Html.fields v)).map (predicate types) := by
  unfold propNames
  rw [htok, propNamesGo_uniq base tm mm types _ [] (fields_ne v)]
  congr 1
  apply List.filter_eq_self.mpr
  intro x _
  simp

theorem emitAll_out (s : Subj) (o : Term Nat) (ps : List Bytes) (st : St) :
    emitAll s o ps st = { st with out := (ps.map (fun p => (⟨s.term, p, o⟩ : Stmt))).reverse ++ st.out } := by
  induction ps generalizing st with
  | nil => rfl
  | cons p ps ih => simp [emitAll, ih, St.emit]

/-! ## element-specific values -/

theorem firstMap_decline (v : Bytes) (fs : List (Bytes → Option (Term Nat))) (h : ∀ f ∈ fs, f v = none) :
    firstMap v fs = Mdd.strLit v := by
  induction fs with
  | nil => rfl
  | cons f fs ih =>
    unfold firstMap
    rw [h f (by simp)]
    exact ih (fun g hg => h g (by simp [hg]))

theorem laxOrText_spec (base : Str) (tm mm : List (Bytes → Option (Term Nat))) (n : Node) :
    laxOrText (specEnv base tm mm) n = (Mdd.strLit (textContent n), false) := by
  simp [laxOrText, specEnv]

theorem itemValue_spec (base : Str) (tm mm : List (Bytes → Option (Term Nat))) (σ : Path → Nat) (id : Nat) (tag : Tag)
    (a : Attrs) (ks : List Tree) (kids' : List Node) (here : Path)
    (hs : a.itemscope = false) (htext : textContentL kids' = textOfList ks)
    (hmeter : tag = .meter → ∀ v, a.value = some v → ∀ f ∈ mm, f v = none)
    (htime : tag = .time → ∀ v, a.datetime = some v → ∀ f ∈ tm, f v = none) :
    itemValue (specEnv base tm mm) (.mk id 3 [] (atomOf tag) [] (attrsOf a) kids') =
      (Term.map σ (value base here (.elem tag a ks)), false) := by
  have htxt : textContent (.mk id 3 [] (atomOf tag) [] (attrsOf a) kids') = textOfList ks := by
    simp [textContent, htext]
  have hstr : ∀ o : Option Str, (match o with
      | some v => (Mdd.strLit v, false)
      | none => (Mdd.strLit [], false)) = (Term.map σ (Spec.Microdata.strLit (o.getD [])), false) := by
    intro o; cases o <;> rfl
  have hurl : ∀ o : Option Str, (match o with
      | some v => (iriValue (specEnv base tm mm) v, false)
      | none => (Mdd.strLit [], false)) =
      (Term.map σ (match o with | some u => .iri (resolveUrl base u) | none => Spec.Microdata.strLit []), false) := by
    intro o; cases o
    · rfl
    · simp [iriValue_spec, Term.map]
  have hmet : ∀ o : Option Str, (∀ v, o = some v → ∀ f ∈ mm, f v = none) → (match o with
      | some v => (firstMap v mm, false)
      | none => (Mdd.strLit [], false)) = (Term.map σ (Spec.Microdata.strLit (o.getD [])), false) := by
    intro o h; cases o
    · rfl
    · simp only [firstMap_decline _ mm (h _ rfl)]; rfl
  have htim : ∀ (o : Option Str) (txt : Str), (∀ v, o = some v → ∀ f ∈ tm, f v = none) → (match o with
      | some v => (firstMap v tm, false)
      | none => (Mdd.strLit txt, false)) =
      (Term.map σ (match o with | some v => Spec.Microdata.strLit v | none => Spec.Microdata.strLit txt), false) := by
    intro o txt h; cases o
    · rfl
    · simp only [firstMap_decline _ tm (h _ rfl)]; rfl
  unfold itemValue
  simp only [Node.atom, Node.attrs, kind_atomOf, find_content, find_src, find_href, find_data, find_value, find_datetime,
    laxOrText_spec, htxt]
  cases tag <;> simp only [kindOfTag, value, hs, Bool.false_eq_true, ↓reduceIte, hstr, hurl]
  all_goals first
    | rfl
    | exact hstr _
    | exact hurl _
    | exact hmet _ (hmeter rfl)
    | exact htim _ _ (htime rfl)

/-! ## the statements an element gives the enclosing item -/

/-- the decoder's evaluation context corresponds to the enclosing item of the streaming semantics -/
def CtxRel (σ : Path → Nat) (ctx : Ctx) (cur : Cur) : Prop :=
  match cur, ctx.subj with
  | none, none => True
  | some c, some s => Term.map σ c.1 = s.term ∧ ctx.types = c.2
  | _, _ => False

theorem fields_nil : Spec.Html.fields [] = [] := by simp [Spec.Html.fields, fieldsAux]

theorem link_spec (base : Str) (tm mm : List (Bytes → Option (Term Nat))) (σ : Path → Nat) (ctx : Ctx) (cur : Cur)
    (here : Path) (tag : Tag) (a : Attrs) (ks : List Tree) (o : Term Nat)
    (ho : o = Term.map σ (value base here (.elem tag a ks)))
    (htok : ∀ v, a.itemprop = some v → Mdd.fields (trimSpace v) = Spec.Html.fields v)
    (hrel : CtxRel σ ctx cur) (st : St) :
    (if a.itemprop.getD [] ≠ [] then
      (match ctx.subj with
       | none => st
       | some cs => emitAll cs o (propNames (specEnv base tm mm) ctx.types (a.itemprop.getD [])) st)
     else st) =
    { st with out := ((linkOf base cur here (.elem tag a ks)).map (Triple.map σ)).reverse ++ st.out } := by
  cases cur with
  | none =>
    cases hs : ctx.subj with
    | none => simp only [linkOf]; split <;> rfl
    | some cs => simp [CtxRel, hs] at hrel
  | some c =>
    cases hs : ctx.subj with
    | none => simp [CtxRel, hs] at hrel
    | some cs =>
      simp only [CtxRel, hs] at hrel
      obtain ⟨h1, h2⟩ := hrel
      cases hp : a.itemprop with
      | none => simp [linkOf, names, hp]
      | some v =>
        by_cases hv : v = []
        · subst hv; simp [linkOf, names, hp, fields_nil, uniq]
        · simp only [Option.getD_some, ne_eq, hv, not_false_eq_true, ↓reduceIte, linkOf, names, hp]
          rw [propNames_names base tm mm ctx.types v (htok v hp), emitAll_out, h2]
          congr 2
          simp only [List.map_map]
          congr 1
          apply List.map_congr_left
          intro nm _
          simp [Triple.map, h1, ho]

theorem propElem_spec (base : Str) (tm mm : List (Bytes → Option (Term Nat))) (σ : Path → Nat) (ctx : Ctx) (cur : Cur)
    (here : Path) (id : Nat) (tag : Tag) (a : Attrs) (ks : List Tree) (kids' : List Node)
    (hs : a.itemscope = false) (htext : textContentL kids' = textOfList ks)
    (hmeter : tag = .meter → ∀ v, a.value = some v → ∀ f ∈ mm, f v = none)
    (htime : tag = .time → ∀ v, a.datetime = some v → ∀ f ∈ tm, f v = none)
    (htok : ∀ v, a.itemprop = some v → Mdd.fields (trimSpace v) = Spec.Html.fields v)
    (hrel : CtxRel σ ctx cur) (a' : ItemAttrs) (ha' : a'.itemprop = a.itemprop.getD []) (st : St) :
    propElem (specEnv base tm mm) ctx (.mk id 3 [] (atomOf tag) [] (attrsOf a) kids') a' st =
      { st with out := ((linkOf base cur here (.elem tag a ks)).map (Triple.map σ)).reverse ++ st.out } := by
  unfold propElem
  rw [itemValue_spec base tm mm σ id tag a ks kids' here hs htext hmeter htime, ha']
  simp only [Bool.false_eq_true, ↓reduceIte]
  exact link_spec base tm mm σ ctx cur here tag a ks _ rfl htok hrel st

/-! ## an element with itemscope -/

theorem itemSubject_spec (base : Str) (tm mm : List (Bytes → Option (Term Nat))) (a : Attrs) (a' : ItemAttrs)
    (ha' : a'.itemid = a.itemid.getD []) (hid : ∀ v, a.itemid = some v → trimSpace v = trimWs v) (st0 : St) :
    itemSubject (specEnv base tm mm) a' none st0 =
      ((subjN base a st0.nextBn).1, { st0 with nextBn := (subjN base a st0.nextBn).2 }) := by
  unfold itemSubject subjN
  rw [ha']
  cases hv : a.itemid with
  | none => simp
  | some v =>
    by_cases hv0 : v = []
    · simp [hv0]
    · have := hid v hv
      simp [hv0, specEnv, resolveUrl]
      by_cases hb : base = [] <;> simp [hb]

theorem types_spec (base : Str) (tm mm : List (Bytes → Option (Term Nat))) (a : Attrs) (next : Subj) (s0 : St) :
    (if a.itemtype.getD [] ≠ [] then
      emitTypes (specEnv base tm mm) next (typeTokens (a.itemtype.getD [])) s0 else ([], s0)) =
    (typesOf a, { s0 with out := ((typesOf a).map (fun ty => (⟨next.term, Mdd.rdfType, .iri ty⟩ : Stmt))).reverse ++ s0.out }) := by
  cases hv : a.itemtype with
  | none => simp [typesOf, hv]
  | some v =>
    by_cases hv0 : v = []
    · subst hv0; simp [typesOf, hv, Spec.Html.fields, fieldsAux]
    · simp only [Option.getD_some, ne_eq, hv0, not_false_eq_true, ↓reduceIte]
      rw [emitTypes_spec base tm mm _ _ (typeTokens_ne v)]
      simp [typesOf, hv, typeTokens_eq_fields]

theorem subjN_snd (base : Str) (a : Attrs) (cnt : Nat) (hs : a.itemscope = true) :
    (subjN base a cnt).2 = cnt + selfBn a := by
  unfold subjN selfBn isBnItem
  cases hv : a.itemid with
  | none => simp [hs]
  | some v => by_cases h0 : v = [] <;> simp [hs, h0]

theorem visitItem_spec (base : Str) (tm mm : List (Bytes → Option (Term Nat))) (σ : Path → Nat)
    (w : Ctx → Node → St → St) (doc : Node) (ctx : Ctx) (cur : Cur) (here : Path) (m : Nat) (tag : Tag) (a : Attrs)
    (ks : List Tree) (kids' : List Node) (hs : a.itemscope = true) (href : a.itemref = none)
    (hid : ∀ v, a.itemid = some v → trimSpace v = trimWs v)
    (htok : ∀ v, a.itemprop = some v → Mdd.fields (trimSpace v) = Spec.Html.fields v)
    (hrel : CtxRel σ ctx cur) (st0 : St) (hσ : σ here = st0.nextBn) (hun : lookupR st0.resolved m = none) :
    visitItem (specEnv base tm mm) w doc ctx (.mk m 3 [] (atomOf tag) [] (attrsOf a) kids')
        { itemid := a.itemid.getD [], itemprop := a.itemprop.getD [], itemref := a.itemref.getD [],
          itemscope := a.itemscope, itemtype := a.itemtype.getD [] } st0 =
      walkKidsWith w { ctx with subj := some (subjN base a st0.nextBn).1, types := typesOf a } kids'
        { st0 with resolved := (m, (subjN base a st0.nextBn).1) :: st0.resolved, nextBn := (subjN base a st0.nextBn).2,
                   expansions := st0.expansions + 1,
                   out := ((typeStmts base a here).map (Triple.map σ)).reverse ++
                          (((linkOf base cur here (.elem tag a ks)).map (Triple.map σ)).reverse ++ st0.out) } := by
  have hnext : Term.map σ (subject base a here) = (subjN base a st0.nextBn).1.term :=
    subject_map base σ a here st0.nextBn hid hσ
  have hval : value base here (.elem tag a ks) = subject base a here := by simp [value, hs]
  have hl' : (List.find? (fun e => e.1 == m) st0.resolved) = none := by
    unfold lookupR at hun
    split at hun
    · simp at hun
    · assumption
  unfold visitItem
  simp only [St.lookup, Node.id, hl']
  rw [itemSubject_spec base tm mm a _ rfl hid st0]
  have hlink := link_spec base tm mm σ ctx cur here tag a ks (subjN base a st0.nextBn).1.term (by rw [hval, hnext]) htok hrel
    { st0 with nextBn := (subjN base a st0.nextBn).2 }
  have hL : linkItem (specEnv base tm mm) ctx
      { itemid := a.itemid.getD [], itemprop := a.itemprop.getD [], itemref := a.itemref.getD [],
        itemscope := a.itemscope, itemtype := a.itemtype.getD [] } (subjN base a st0.nextBn).1
      { st0 with nextBn := (subjN base a st0.nextBn).2 } = _ := hlink
  rw [hL]
  unfold expandItem
  simp only [href, Option.getD_none, ne_eq, not_true_eq_false, ↓reduceIte, Node.kids, Node.id]
  have ht := types_spec base tm mm a (subjN base a st0.nextBn).1
  simp only [ne_eq] at ht
  rw [ht]
  simp only
  congr 1
  simp only [typeStmts, List.map_map]
  congr 3
  apply List.map_congr_left
  intro ty _
  simp only [Function.comp, Triple.map, hnext]
  rfl

/-! ## the walk over an embedded tree -/

mutual
/-- Go's tokenisation (Unicode spaces) of every itemprop / itemid agrees with HTML's (ASCII spaces) -/
def tokOk : Tree → Bool
  | .text _ => true
  | .elem _ a ks =>
    (match a.itemprop with | some v => Mdd.fields (trimSpace v) == Spec.Html.fields v | none => true) &&
    (match a.itemid with | some v => trimSpace v == trimWs v | none => true) && tokOkKids ks
def tokOkKids : List Tree → Bool
  | [] => true
  | k :: ks => tokOk k && tokOkKids ks
end

/-- the xsdobject mappers leave plain words alone (what `inFragment` relies on) -/
def Decline (tm mm : List (Bytes → Option (Term Nat))) : Prop :=
  ∀ f ∈ tm ++ mm, ∀ v, plainWord v = true → f v = none

/-- what a (partial) walk did: statements emitted, blank nodes made, hooks, identities resolved -/
structure Res (σ : Path → Nat) (stmts : List Tr) (n m' : Nat) (st r : St) : Prop where
  out : r.out = (stmts.map (Triple.map σ)).reverse ++ st.out
  bn : r.nextBn = st.nextBn + n
  hooks : r.hooks = st.hooks
  lt : ∀ e ∈ r.resolved, e.1 < m'

theorem relabel_next_ge (m : Nat) (n : Node) : m < (relabelFrom m n).2 := by
  rw [(relabel_ids m n).2, subnodes_eq]; simp

theorem relabelL_next_ge (m : Nat) (ks : List Node) : m ≤ (relabelL m ks).2 := by
  rw [(relabelL_ids m ks).2]; omega

mutual
theorem walk_tree (base : Str) (tm mm : List (Bytes → Option (Term Nat))) (hdec : Decline tm mm) (doc : Node)
    (σ : Path → Nat) : ∀ (t : Tree) (f : Nat) (ctx : Ctx) (cur : Cur) (here : Path) (m : Nat) (st : St),
    height (ofSpec t) ≤ f → noRef t = true → tokOk t = true → inFragment t = true →
    CtxRel σ ctx cur → SOk σ here st.nextBn t → (∀ e ∈ st.resolved, e.1 < m) →
    Res σ (swP base cur here t) (bnCount t) (relabelFrom m (ofSpec t)).2 st
      (walk (specEnv base tm mm) doc f ctx (relabelFrom m (ofSpec t)).1 st)
  | .text s, f, ctx, cur, here, m, st, hf, _, _, _, _, _, hlt => by
    obtain ⟨f', rfl⟩ : ∃ f', f = f' + 1 := ⟨f - 1, by simp [ofSpec, height, heightL] at hf; omega⟩
    have e0 : scanAttrs [] {} = ({} : ItemAttrs) := rfl
    simp only [ofSpec, relabelFrom, relabelL, walk_succ, walkStep, Node.ns, Node.attrs, Node.kids, e0, walkKidsWith,
      List.foldl_nil, propElem, ne_eq, not_true_eq_false, ↓reduceIte, Bool.false_eq_true, swP, bnCount]
    exact ⟨rfl, rfl, rfl, fun e he => Nat.lt_succ_of_lt (hlt e he)⟩
  | .elem tag a ks, f, ctx, cur, here, m, st, hf, hnr, htk, hif, hrel, hσ, hlt => by
    obtain ⟨f', rfl⟩ : ∃ f', f = f' + 1 := ⟨f - 1, by simp [ofSpec, height] at hf; omega⟩
    have hf' : heightL (ofSpecL ks) ≤ f' := by simp [ofSpec, height] at hf; omega
    simp only [noRef, Bool.and_eq_true, Option.isNone_iff_eq_none] at hnr
    simp only [tokOk, Bool.and_eq_true] at htk
    simp only [inFragment, Bool.and_eq_true] at hif
    have htokp : ∀ v, a.itemprop = some v → Mdd.fields (trimSpace v) = Spec.Html.fields v := by
      intro v hv; have := htk.1.1; rw [hv] at this; simpa using this
    have hid : ∀ v, a.itemid = some v → trimSpace v = trimWs v := by
      intro v hv; have := htk.1.2; rw [hv] at this; simpa using this
    have hmeter : tag = .meter → ∀ v, a.value = some v → ∀ f ∈ mm, f v = none := by
      intro ht v hv g hg
      subst ht
      have := hif.1; simp only [hv] at this
      exact hdec g (List.mem_append_right _ hg) v this
    have htime : tag = .time → ∀ v, a.datetime = some v → ∀ f ∈ tm, f v = none := by
      intro ht v hv g hg
      subst ht
      have := hif.1; simp only [hv] at this
      exact hdec g (List.mem_append_left _ hg) v this
    have htext : textContentL (relabelL (m + 1) (ofSpecL ks)).1 = textOfList ks := by
      rw [textL_relabel, textL_ofSpec]
    simp only [ofSpec, relabelFrom, walk_succ, walkStep, Node.ns, Node.attrs, Node.kids, scan_attrsOf,
      ne_eq, not_true_eq_false, ↓reduceIte, swP, bnCount]
    by_cases hs : a.itemscope = true
    · -- an item
      rw [if_pos hs, if_pos hs]
      rw [visitItem_spec base tm mm σ (walk (specEnv base tm mm) doc f') doc ctx cur here m tag a ks _ hs hnr.1 hid htokp
        hrel { st with steps := st.steps + 1 } (sok_here hσ) (lookupR_none_of_lt _ _ hlt)]
      have hsk := sok_kids hσ
      have ih := walk_trees base tm mm hdec doc σ ks f'
        { ctx with subj := some (subjN base a st.nextBn).1, types := typesOf a }
        (some (subject base a here, typesOf a)) here 0 (m + 1)
        { st with steps := st.steps + 1, resolved := (m, (subjN base a st.nextBn).1) :: st.resolved,
                  nextBn := (subjN base a st.nextBn).2, expansions := st.expansions + 1,
                  out := ((typeStmts base a here).map (Triple.map σ)).reverse ++
                         (((linkOf base cur here (.elem tag a ks)).map (Triple.map σ)).reverse ++ st.out) }
        hf' hnr.2 htk.2 hif.2
        (by simp [CtxRel, subject_map base σ a here st.nextBn hid (sok_here hσ)])
        (by simp only [subjN_snd base a st.nextBn hs]; exact hsk)
        (by
          intro e he
          simp only [List.mem_cons] at he
          rcases he with rfl | he
          · simp
          · exact Nat.lt_succ_of_lt (hlt e he))
      refine ⟨?_, ?_, ?_, ih.lt⟩
      · rw [ih.out]; simp [List.map_append, List.reverse_append, List.append_assoc]
      · rw [ih.bn]; simp only [subjN_snd base a st.nextBn hs]; omega
      · rw [ih.hooks]
    · -- not an item
      have hs0 : a.itemscope = false := by simpa using hs
      rw [if_neg hs, if_neg hs]
      rw [propElem_spec base tm mm σ ctx cur here m tag a ks _ hs0 htext hmeter htime htokp hrel _ rfl]
      have hsk := sok_kids hσ
      have hself : selfBn a = 0 := by simp [selfBn, hs0]
      rw [hself, Nat.add_zero] at hsk
      have ih := walk_trees base tm mm hdec doc σ ks f' ctx cur here 0 (m + 1)
        { st with steps := st.steps + 1,
                  out := ((linkOf base cur here (.elem tag a ks)).map (Triple.map σ)).reverse ++ st.out }
        hf' hnr.2 htk.2 hif.2 hrel hsk (fun e he => Nat.lt_succ_of_lt (hlt e he))
      refine ⟨?_, ?_, ?_, ih.lt⟩
      · rw [ih.out]; simp [List.map_append, List.reverse_append, List.append_assoc]
      · rw [ih.bn, hself]; simp
      · rw [ih.hooks]
theorem walk_trees (base : Str) (tm mm : List (Bytes → Option (Term Nat))) (hdec : Decline tm mm) (doc : Node)
    (σ : Path → Nat) : ∀ (ks : List Tree) (f : Nat) (ctx : Ctx) (cur : Cur) (here : Path) (i m : Nat) (st : St),
    heightL (ofSpecL ks) ≤ f → noRefKids ks = true → tokOkKids ks = true → inFragmentKids ks = true →
    CtxRel σ ctx cur → SOkK σ here i st.nextBn ks → (∀ e ∈ st.resolved, e.1 < m) →
    Res σ (swPKids base cur here i ks) (bnCountL ks) (relabelL m (ofSpecL ks)).2 st
      (walkKidsWith (walk (specEnv base tm mm) doc f) ctx (relabelL m (ofSpecL ks)).1 st)
  | [], f, ctx, cur, here, i, m, st, _, _, _, _, _, _, hlt => by
    simp only [ofSpecL, relabelL, walkKidsWith, List.foldl_nil, swPKids, bnCountL]
    exact ⟨rfl, rfl, rfl, hlt⟩
  | k :: ks, f, ctx, cur, here, i, m, st, hf, hnr, htk, hif, hrel, hσ, hlt => by
    simp only [noRefKids, Bool.and_eq_true] at hnr
    simp only [tokOkKids, Bool.and_eq_true] at htk
    simp only [inFragmentKids, Bool.and_eq_true] at hif
    simp only [ofSpecL, heightL] at hf
    have h1 := walk_tree base tm mm hdec doc σ k f ctx cur (here ++ [i]) m st (by omega) hnr.1 htk.1 hif.1 hrel
      (sokK_head hσ) hlt
    have h2 := walk_trees base tm mm hdec doc σ ks f ctx cur here (i + 1) (relabelFrom m (ofSpec k)).2
      (walk (specEnv base tm mm) doc f ctx (relabelFrom m (ofSpec k)).1 st) (by omega) hnr.2 htk.2 hif.2 hrel
      (by rw [h1.bn]; exact sokK_tail hσ) h1.lt
    simp only [ofSpecL, relabelL, walkKidsWith, List.foldl_cons, swPKids, bnCountL]
    unfold walkKidsWith at h2
    refine ⟨?_, ?_, ?_, h2.lt⟩
    · rw [h2.out, h1.out]; simp [List.map_append, List.reverse_append, List.append_assoc]
    · rw [h2.bn, h1.bn]; omega
    · rw [h2.hooks, h1.hooks]
end

/-- the fragment of this file: no itemref; Go tokenises names and itemids as HTML does; meter / time values are
    plain words (`Spec.Microdata.inFragment`) -/
def NestedFrag (doc : Tree) : Prop := noRef doc = true ∧ tokOk doc = true ∧ inFragment doc = true

/-- on every document of the fragment the model decoder emits exactly the streaming semantics, renamed by `rank` -/
theorem decode_nested (base : Str) (tm mm : List (Bytes → Option (Term Nat))) (hdec : Decline tm mm) (doc : Tree)
    (hfrag : NestedFrag doc) :
    decode (specEnv base tm mm) (ofSpecDoc doc) = .ok ((swP base none [] doc).map (Triple.map (rank doc))) [] := by
  obtain ⟨hnr, htk, hif⟩ := hfrag
  have hbad := run_bad_none (specEnv base tm mm) (relabel (ofSpecDoc doc))
  have hh : height (relabel (ofSpecDoc doc)) = height (ofSpec doc) + 1 := by
    rw [relabel_height]; simp [ofSpecDoc, height, heightL]
  obtain ⟨f, hf, hfh⟩ : ∃ f, fuelFor (relabel (ofSpecDoc doc)) = f + 1 ∧ height (ofSpec doc) ≤ f := by
    refine ⟨fuelFor (relabel (ofSpecDoc doc)) - 1, ?_, ?_⟩
    · unfold fuelFor
      have : 1 ≤ ((subnodes (relabel (ofSpecDoc doc))).length + 1) * (height (relabel (ofSpecDoc doc)) + 1) :=
        Nat.mul_pos (Nat.succ_pos _) (Nat.succ_pos _)
      omega
    · unfold fuelFor
      have : height (relabel (ofSpecDoc doc)) + 1 ≤
          ((subnodes (relabel (ofSpecDoc doc))).length + 1) * (height (relabel (ofSpecDoc doc)) + 1) :=
        Nat.le_mul_of_pos_left _ (Nat.succ_pos _)
      omega
  generalize hd : relabel (ofSpecDoc doc) = d at hbad hf
  have hshape : d = .mk 0 2 [] [] [] [] [(relabelFrom 1 (ofSpec doc)).1] := by
    rw [← hd]; simp [relabel, ofSpecDoc, relabelFrom, relabelL]
  have hw := walk_tree base tm mm hdec d (rank doc) doc f {} none [] 1 { steps := 1 } hfh hnr htk hif
    (by simp [CtxRel]) (by intro p; simp) (by intro e he; simp at he)
  unfold decode finish
  rw [hd, hbad]
  simp only
  unfold run
  rw [hf]
  have e0 : scanAttrs [] {} = ({} : ItemAttrs) := rfl
  have hrun : walk (specEnv base tm mm) d (f + 1) {} d {} =
      walk (specEnv base tm mm) d f {} (relabelFrom 1 (ofSpec doc)).1 { steps := 1 } := by
    conv => lhs; arg 5; rw [hshape]
    simp only [walk_succ, walkStep, Node.ns, Node.attrs, Node.kids, e0, walkKidsWith, List.foldl_cons, List.foldl_nil,
      propElem, ne_eq, not_true_eq_false, ↓reduceIte, Bool.false_eq_true]
  rw [hrun, hw.out, hw.hooks]
  simp

/-- … hence a permutation of the denotation, under a renaming that separates the blank-node items -/
theorem decode_nested_denote (base : Str) (tm mm : List (Bytes → Option (Term Nat))) (hdec : Decline tm mm) (doc : Tree)
    (hfrag : NestedFrag doc) :
    ∃ stmts, decode (specEnv base tm mm) (ofSpecDoc doc) = .ok stmts [] ∧
      stmts.Perm ((denote base doc).map (Triple.map (rank doc))) ∧
      ∀ p ∈ bnItems [] doc, ∀ q ∈ bnItems [] doc, rank doc p = rank doc q → p = q :=
  ⟨_, decode_nested base tm mm hdec doc hfrag, (swP_perm_denote base doc hfrag.1).map _,
    fun p hp q hq h => rank_inj doc p q hp hq h⟩

end RdfModel.Mdd.Nested
