package main

// Two further streams:
//
//   - name-character boundaries (exhaustive, both tiers): every end point of every range of
//     PN_CHARS_BASE / PN_CHARS_U / PN_CHARS and its outside neighbour, at the first / inner / last
//     position of prefix labels, local names and blank node labels, in subject, verb, object and
//     graph label position (the three rune classes are three separate switch statements per package);
//   - text mutations: the printed text of generated documents with one letter's case flipped or one
//     byte-level edit, decoded by the real decoder and by the model (`ttld.dec`, T3 on the reject
//     paths: `A` is not `a`, `@PREFIX` is not `@prefix`, `TRUE` is not `true` …) and, for the Turtle
//     decoder, by the TriG decoder too (C07).

import (
	"fmt"
	"os"
	"strconv"
	"strings"

	"verifharness/vh"
)

var pnBaseRanges = [][2]rune{{'A', 'Z'}, {'a', 'z'}, {0xC0, 0xD6}, {0xD8, 0xF6}, {0xF8, 0x2FF}, {0x370, 0x37D}, {0x37F, 0x1FFF}, {0x200C, 0x200D},
	{0x2070, 0x218F}, {0x2C00, 0x2FEF}, {0x3001, 0xD7FF}, {0xF900, 0xFDCF}, {0xFDF0, 0xFFFD}, {0x10000, 0xEFFFF}}
var pnExtraRanges = [][2]rune{{'_', '_'}, {'-', '-'}, {'0', '9'}, {0xB7, 0xB7}, {0x300, 0x36F}, {0x203F, 0x2040}}

func boundaryRunes() []rune {
	seen := map[rune]bool{}
	var out []rune
	add := func(c rune) {
		if c < 0x21 || c > 0x10FFFF || (0xD800 <= c && c <= 0xDFFF) || seen[c] {
			return
		}
		// runes with a syntactic role of their own make other documents, not boundary probes
		if strings.ContainsRune("<>\"'{}[]()#;,.:@^\\%", c) {
			return
		}
		seen[c] = true
		out = append(out, c)
	}
	for _, rs := range [][][2]rune{pnBaseRanges, pnExtraRanges} {
		for _, r := range rs {
			add(r[0])
			add(r[1])
			add(r[0] - 1)
			add(r[1] + 1)
		}
	}
	return out
}

func (h *harness) boundaries() {
	total := 0
	ns := "http://e/"
	s := obj{kind: oIRI, iri: ref("http://e/s")}
	p := po{v: ref("http://e/p")}
	o := obj{kind: oIRI, iri: ref("http://e/o")}
	stmt := func(s obj, v po, o obj) block {
		v.objs = []obj{o}
		return block{kind: bTriples, t: triples{s: s, pos: []po{v}}}
	}
	emit := func(d doc, trigOnly bool) {
		for _, pkg := range []string{"trig", "turtle"} {
			if trigOnly && pkg == "turtle" {
				continue
			}
			for _, spaced := range []bool{false, true} {
				var ch choices
				if spaced { // second spelling: every token followed by one space
					ch = make(choices, len(slotsOf(d)))
					for i := 1; i < len(ch); i++ {
						ch[i].lay = []litem{wsItem(0)}
					}
				}
				h.add(&kase{kind: "boundary", pkg: pkg, d: d, ch: ch})
				total++
			}
		}
	}
	for _, x := range boundaryRunes() {
		X := string(x)
		for _, name := range []string{X, "a" + X, "a" + X + "b", X + "a"} {
			// prefix label
			pre := block{kind: bDir, d: dir{kind: dPrefixAt, p: name, r: ns}}
			preKw := block{kind: bDir, d: dir{kind: dPrefixKw, p: name, r: ns}}
			q := obj{kind: oIRI, iri: pn(name, "x")}
			emit(doc{pre, stmt(q, p, o)}, false)
			emit(doc{preKw, stmt(s, po{v: q.iri}, o)}, false)
			emit(doc{pre, stmt(s, p, q)}, false)
			emit(doc{pre, {kind: bGraph, label: &q, body: []triples{stmt(s, p, o).t}}}, true)
			// local name
			std := block{kind: bDir, d: dir{kind: dPrefixAt, p: "ex", r: ns}}
			l := obj{kind: oIRI, iri: pn("ex", name)}
			emit(doc{std, stmt(l, p, o)}, false)
			emit(doc{std, stmt(s, po{v: l.iri}, o)}, false)
			emit(doc{std, stmt(s, p, l)}, false)
			emit(doc{std, stmt(s, p, obj{kind: oColl, items: []obj{l, l}})}, false)
			// blank node label
			b := obj{kind: oBN, label: name}
			emit(doc{stmt(b, p, o)}, false)
			emit(doc{stmt(s, p, b)}, false)
			emit(doc{stmt(s, p, obj{kind: oBnpl, pos: []po{{v: p.v, objs: []obj{b}}}})}, false)
			emit(doc{{kind: bGraph, kw: true, label: &b, body: []triples{stmt(b, p, b).t}}}, true)
		}
	}
	h.flush()
	h.rep.Exhaustive = append(h.rep.Exhaustive, fmt.Sprintf("name-character boundaries: the %d end points and outside neighbours of the ranges of PN_CHARS_BASE, '_', '-', [0-9], U+00B7, U+0300-036F, U+203F-2040 as X, aX, aXb, Xa in prefix labels, local names and blank node labels, each in subject / verb / object / collection item / property-list object / graph label position, without layout and with single spaces, both packages: %d cases", len(boundaryRunes()), total))
}

// ---------------------------------------------------------------- text mutations

var hotBytes = []byte("<>\"'\\ \t\n\r.;,:@^#()[]{}_-aAtfTFGgBbPp0eE+%")

type mutItem struct {
	pkg, base string
	text      []byte
	from      string
}

func (m mutItem) line() string {
	b := "-"
	if m.base != "" {
		b = vh.XS(m.base)
	}
	return "ttld.dec " + m.pkg + " eof " + b + " " + vh.X(m.text)
}

func flipCase(r *vh.Rng, b []byte) []byte {
	var idx []int
	for i, c := range b {
		if ('a' <= c && c <= 'z') || ('A' <= c && c <= 'Z') {
			idx = append(idx, i)
		}
	}
	out := append([]byte(nil), b...)
	if len(idx) == 0 {
		return out
	}
	i := vh.Pick(r, idx)
	out[i] ^= 0x20
	return out
}

func (h *harness) addMutation(k *kase, text []byte) {
	r := h.mutR
	var m []byte
	if r.Chance(55) {
		m = flipCase(r, text)
	} else {
		m = r.Mutate(text, hotBytes)
	}
	h.muts = append(h.muts, mutItem{pkg: k.pkg, base: k.base, text: m, from: k.kind})
}

// evalMutation: T3 on the mutated text (resp = answer of `ttld.dec`, "" = not asked) and C07.
func (h *harness) evalMutation(m mutItem, resp string) []finding {
	var fs []finding
	g := goDecode(m.pkg, m.base, m.text)
	quoted := strconv.Quote(string(m.text))
	h.rep.Count("go-verdict:mutated:" + m.pkg + ":" + g.verdict)
	if resp != "" && g.wire() != resp {
		i := strings.LastIndex(resp, "|")
		mv, run := "", ""
		if i >= 0 {
			run, mv = resp[:i], resp[i+1:]
		}
		if mv == "err:resolve" && isPrefixOf(splitStmts(run), g.stmts) {
			h.rep.Count("resolver-skip")
			h.rep.Count("resolver-skip:mutated")
		} else {
			var activeClass *vh.Finding
			for _, c := range textClasses(m.text) {
				if f, ok := h.active[c]; ok {
					activeClass = &f
					break
				}
			}
			if activeClass != nil {
				fs = append(fs, finding{kind: "known", key: activeClass.Key, goR: g.wire(), model: resp, detail: "T3 on a mutated text inside (the textual over-approximation of) known class " + activeClass.Predicate + ": " + activeClass.What})
			} else {
				fs = append(fs, finding{kind: "disagreement", goR: g.wire(), model: resp, detail: "T3 model run vs decoder on the mutated text " + quoted + " pkg=" + m.pkg + " base=" + strconv.Quote(m.base)})
			}
		}
	}
	if m.pkg == "turtle" {
		h.rep.Count("c07:turtle-vs-trig")
		q := goDecode("trig", m.base, m.text)
		if g.verdict == "clean" && (q.verdict != "clean" || strings.Join(q.stmts, ";") != strings.Join(g.stmts, ";")) {
			fs = append(fs, finding{kind: "violation", key: "C07", goR: g.wire(), model: q.wire(),
				detail: fmt.Sprintf("C07 text %s base=%q: Turtle decoder accepts with %d triples, TriG decoder: %s / %d quads (%s)", quoted, m.base, len(g.stmts), q.verdict, len(q.stmts), q.errText)})
		}
	}
	return fs
}

func (h *harness) flushMutations() {
	if len(h.muts) == 0 {
		return
	}
	lines := make([]string, len(h.muts))
	for i, m := range h.muts {
		lines[i] = m.line()
	}
	var res []string
	if !*nomodel {
		var err error
		res, err = runDriver(lines)
		if err != nil {
			fmt.Fprintln(os.Stderr, "c08:", err)
			os.Exit(2)
		}
	}
	for i, m := range h.muts {
		resp := ""
		if res != nil {
			resp = res[i]
			h.rep.Compared++
		}
		fs := h.evalMutation(m, resp)
		h.rep.Eval(lines[i], false)
		h.rep.Count("stream:mutated-text")
		h.record(lines[i], nil, fs)
	}
	h.muts = h.muts[:0]
}
