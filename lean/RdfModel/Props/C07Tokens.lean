/-
  Property C07, token level — "every N-Triples document is Turtle": an IRI reference / a string
  that the N-Triples / N-Quads scanners of `Model/NQuads.lean` accept is read by the Turtle / TriG
  producers of `Model/TurtleTokens.lean` with the same value and the same remaining input.
  (The decoders are separate Go code; both models are tied to their package by T3.)
  Hypothesis `hhex`: the two packages' `HexDecode` tables coincide — `C07.tables_agree` proves it for
  the tables regenerated from /repo.

  Not covered here (left to the statement-layer development): language tags and blank node labels.
  For blank node labels the inclusion is FALSE in general: N-Triples' PN_CHARS_U contains ':',
  Turtle's does not (`tables_agree`), so `_:a:b` is a label in N-Triples and not in Turtle.
-/
import RdfModel.Props.C02TokensDefs
import RdfModel.Proofs.C07Tok
namespace RdfModel.C07
open RdfModel RdfModel.Ttl RdfModel.C02

theorem nt_iriref_sub_ttl (Tn : NQ.Tables) (T : Tables) (hhex : Tn.hexDec = T.hexDec)
    (urlOk : List Nat → Bool) (e : End) (inp s r : List Nat)
    (h : NQ.captureIRI Tn urlOk e inp = .ok s r) :
    produceIRIREF T e (0x3c :: inp) = .ok s r := by
  unfold NQ.captureIRI at h
  cases hs : NQ.scanIRI Tn e .body inp [] with
  | err c => simp [hs] at h
  | ok dec rest =>
    simp only [hs] at h
    split at h
    · cases h
      simp only [produceIRIREF, if_true]
      exact Proofs.C07Tok.scanIRI_sub Tn T hhex e inp _ _ _ _ hs
    · cases h

/-- Strings. For the empty string the N-Triples scanner stops after `""` whatever follows, the
    Turtle producer looks one rune ahead (`"""` opens a long string): hence `EmptyStrStop`, which
    holds in every accepted N-Triples statement (a space, `@`, `^` or `.` follows). -/
theorem nt_string_sub_ttl (Tn : NQ.Tables) (T : Tables) (hhex : Tn.hexDec = T.hexDec) (e : End)
    (inp v r : List Nat) (h : NQ.scanLit Tn e .body inp [] = .ok v r)
    (hstop : v = [] → EmptyStrStop e r) :
    produceString T e (0x22 :: inp) = .ok (goString v) r := by
  cases inp with
  | nil => simp [NQ.scanLit] at h
  | cons c1 r1 =>
    by_cases hq : c1 = 0x22
    · subst hq
      rw [NQ.scanLit] at h
      simp only [if_true] at h
      cases h
      have hstop := hstop rfl
      cases r with
      | nil => simp only [EmptyStrStop] at hstop; subst hstop; simp [produceString, goString]
      | cons c2 r2 =>
        simp only [EmptyStrStop] at hstop
        simp [produceString, hstop, goString]
    · have := Proofs.C07Tok.scanLit_sub Tn T hhex e (c1 :: r1) _ _ _ _ h
      simp only [produceString, true_or, if_true]
      rw [if_neg hq]
      exact this

end RdfModel.C07
