/-
  The unrepaired decoder (unchecked type assertions) does not panic on token streams a JSON
  tokenizer can produce (`WellNested`): simulation between the parser state and the nesting stack.
-/
import RdfModel.Props.C01RJDefs
namespace RdfModel.Proofs.C01RJ
open RdfModel RdfModel.RJ RdfModel.C01RJ

/-- The nesting stacks a parser state can sit on while the token stream is well nested. -/
def Compat : PState → List Frame → Prop
  | .start, stk => stk = [.root]
  | .subjects, stk => stk = [.objName, .done] ∨ stk = [.objAfter, .done]
  | .subjColon _, stk => stk = [.objColon, .done]
  | .subjOpen _, stk => stk = [.objValue, .done]
  | .preds _, stk => stk = [.objName, .objAfter, .done] ∨ stk = [.objAfter, .objAfter, .done]
  | .predColon _ _, stk => stk = [.objColon, .objAfter, .done]
  | .predOpen _ _, stk => stk = [.objValue, .objAfter, .done]
  | .objs _ _, stk => stk = [.arr, .objAfter, .objAfter, .done]
  | .members _ _ _, stk =>
    stk = [.objName, .arr, .objAfter, .objAfter, .done] ∨ stk = [.objAfter, .arr, .objAfter, .objAfter, .done]
  | .memColon _ _ _ _, stk => stk = [.objColon, .arr, .objAfter, .objAfter, .done]
  | .memValue _ _ _ _, stk => stk = [.objValue, .arr, .objAfter, .objAfter, .done]
  | .trailing, stk => stk = [.done]

theorem parse_wellNested_no_panic (v : Variant) (e : TEnd) (toks : List Tok) :
    ∀ st stk acc, Compat st stk → wnFrom stk toks = true → parse v e st toks acc ≠ .panic := by
  induction toks with
  | nil => intro st stk acc _ _; cases st <;> cases e <;> simp [parse, Acc.fail]
  | cons t rest ih =>
    intro st stk acc hc hw
    cases st <;> simp only [Compat] at hc
    all_goals
      (try rcases hc with hc | hc) <;> (try subst hc) <;>
      cases t <;> simp [wnFrom, wnStep, Frame.afterValue] at hw <;>
      simp only [parse, Acc.fail] <;>
      (try split) <;>
      first
        | (intro h; cases h; done)
        | exact ih _ _ _ (by simp [Compat]) hw
        | (split <;> first | (intro h; cases h; done) | exact ih _ _ _ (by simp [Compat]) hw)

end RdfModel.Proofs.C01RJ
