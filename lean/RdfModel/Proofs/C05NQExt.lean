/-
  Proofs.C05NQExt — streaming facts (C15): a produced statement is stable under extension of the
  input and independent of how the stream ends. No table facts.
-/
import RdfModel.Proofs.C05NQLen
namespace RdfModel.Proofs.C05NQ
open RdfModel RdfModel.NQ

theorem scanIRI_ext (T : Tables) (e e' : End) (st : SState) (inp acc : List Nat) (v r more : List Nat)
    (h : scanIRI T e st inp acc = .ok v r) : scanIRI T e' st (inp ++ more) acc = .ok v (r ++ more) := by
  fun_induction scanIRI T e st inp acc <;> simp_all [scanIRI]

theorem captureIRI_ext (T : Tables) (urlOk : List Nat → Bool) (e e' : End) (inp v r more : List Nat)
    (h : captureIRI T urlOk e inp = .ok v r) :
    captureIRI T urlOk e' (inp ++ more) = .ok v (r ++ more) := by
  unfold captureIRI at h ⊢
  split at h
  · next dec rest hs =>
    rw [scanIRI_ext T e e' _ _ _ _ _ more hs]
    simp only at h ⊢
    split at h
    · next hu => simp only [R.ok.injEq] at h; obtain ⟨rfl, rfl⟩ := h; simp [hu]
    · simp at h
  · simp at h

theorem scanLit_ext (T : Tables) (e e' : End) (st : SState) (inp acc : List Nat) (v r more : List Nat)
    (h : scanLit T e st inp acc = .ok v r) : scanLit T e' st (inp ++ more) acc = .ok v (r ++ more) := by
  fun_induction scanLit T e st inp acc <;> simp_all [scanLit]

theorem langSecondary_ext (e e' : End) (inp acc v r more : List Nat)
    (h : langSecondary e inp acc = .ok v r) :
    langSecondary e' (inp ++ more) acc = .ok v (r ++ more) := by
  fun_induction langSecondary e inp acc
  all_goals (try (simp at h; done))
  all_goals (try (simp_all [langSecondary]; done))
  all_goals (try (simp only [R.ok.injEq] at h; obtain ⟨rfl, rfl⟩ := h; simp [langSecondary, *]; done))

theorem langPrimary_ext (e e' : End) (inp acc v r more : List Nat)
    (h : langPrimary e inp acc = .ok v r) :
    langPrimary e' (inp ++ more) acc = .ok v (r ++ more) := by
  fun_induction langPrimary e inp acc
  all_goals (try (simp at h; done))
  all_goals (try (simp_all [langPrimary]; done))
  all_goals (try (simp only [R.ok.injEq] at h; obtain ⟨rfl, rfl⟩ := h; simp [langPrimary, *]; done))
  · have := langSecondary_ext e e' _ _ _ _ more h
    simp_all [langPrimary]

theorem captureLiteral_ext (T : Tables) (urlOk : List Nat → Bool) (e e' : End) (inp : List Nat)
    (v : Term (List Nat)) (r more : List Nat) (h : captureLiteral T urlOk e inp = .ok v r)
    (hr : r ≠ []) :
    captureLiteral T urlOk e' (inp ++ more) = .ok v (r ++ more) := by
  unfold captureLiteral at h ⊢
  split at h
  · simp at h
  · next dec rest hs =>
    rw [scanLit_ext T e e' _ _ _ _ _ more hs]
    simp only at h ⊢
    split at h
    · split at h
      · simp only [R.ok.injEq] at h; exact absurd h.2.symm hr
      · simp at h
    · next c rest' =>
      simp only [List.cons_append]
      split at h
      · next hc =>
        rw [if_pos hc]
        split at h
        · next tag r' hl =>
          rw [langPrimary_ext e e' _ _ _ _ more hl]
          simp only [R.ok.injEq] at h ⊢; obtain ⟨rfl, rfl⟩ := h; exact ⟨rfl, rfl⟩
        · simp at h
      · next hc =>
        rw [if_neg hc]
        split at h
        · next hc2 =>
          rw [if_pos hc2]
          split at h
          · simp at h
          · next c1 r1 =>
            simp only [List.cons_append]
            split at h
            · simp at h
            · next hc1 =>
              rw [if_neg hc1]
              split at h
              · simp at h
              · next c2 r2 =>
                simp only [List.cons_append]
                split at h
                · simp at h
                · next hc3 =>
                  rw [if_neg hc3]
                  split at h
                  · next dt r' hi =>
                    rw [captureIRI_ext T urlOk e e' _ _ _ more hi]
                    simp only
                    split at h
                    · simp at h
                    · next hne =>
                      rw [if_neg hne]
                      simp only [R.ok.injEq] at h ⊢; obtain ⟨rfl, rfl⟩ := h; exact ⟨rfl, rfl⟩
                  · simp at h
        · next hc2 =>
          rw [if_neg hc2]
          simp only [R.ok.injEq] at h ⊢; obtain ⟨rfl, rfl⟩ := h; exact ⟨rfl, rfl⟩

theorem bnFinish_ext (T : Tables) (acc rest l r more : List Nat) (h : bnFinish T acc rest = .ok l r) :
    bnFinish T acc (rest ++ more) = .ok l (r ++ more) := by
  unfold bnFinish at h ⊢
  repeat' split at h
  all_goals (try (simp at h; done))
  all_goals (simp only [R.ok.injEq] at h; obtain ⟨rfl, rfl⟩ := h; simp_all)
  all_goals (intro hh; omega)

theorem bnLoop_ext (T : Tables) (e e' : End) (inp acc l r more : List Nat)
    (h : bnLoop T e inp acc = .ok l r) : bnLoop T e' (inp ++ more) acc = .ok l (r ++ more) := by
  fun_induction bnLoop T e inp acc
  · simp at h
  · next c rest acc hc ih =>
    simp only [List.cons_append, bnLoop]
    rw [if_pos hc]
    exact ih h
  · next c rest acc hc =>
    simp only [List.cons_append, bnLoop]
    rw [if_neg hc]
    exact bnFinish_ext T acc (c :: rest) l r more h

theorem captureBNode_ext (T : Tables) (e e' : End) (inp l r more : List Nat)
    (h : captureBNode T e inp = .ok l r) : captureBNode T e' (inp ++ more) = .ok l (r ++ more) := by
  unfold captureBNode at h
  split at h
  · simp at h
  · next c rest =>
    simp only [List.cons_append, captureBNode]
    split at h
    · next hc => rw [if_pos hc]; exact bnLoop_ext T e e' _ _ _ _ more h
    · simp at h

theorem captureTerm_ext (T : Tables) (urlOk : List Nat → Bool) (e e' : End) (pos : Pos) (b : Bool)
    (inp : List Nat) (v : Term (List Nat)) (r more : List Nat)
    (h : captureTerm T urlOk e pos b inp = .ok v r) (hr : r ≠ []) :
    captureTerm T urlOk e' pos b (inp ++ more) = .ok v (r ++ more) := by
  fun_induction captureTerm T urlOk e pos b inp
  all_goals (try (simp at h; done))
  all_goals (try (simp_all [captureTerm]; done))
  · next hi =>
    simp only [R.ok.injEq] at h; obtain ⟨rfl, rfl⟩ := h
    simp [captureTerm, captureIRI_ext T urlOk e e' _ _ _ more hi]
  · next c hc hp c1 r1 hc1 l r' hb =>
    simp only [R.ok.injEq] at h; obtain ⟨rfl, rfl⟩ := h
    have hc1' : c1 = 0x3a := by simpa using hc1
    subst hc1'
    simp only [List.cons_append, captureTerm]
    rw [if_neg hc, if_pos hp]
    simp [captureBNode_ext T e e' _ _ _ more hb]
  · next c rest hc hb hl =>
    simp only [List.cons_append, captureTerm]
    rw [if_neg hc, if_neg hb, if_pos hl]
    exact captureLiteral_ext T urlOk e e' _ _ _ more h hr
  · next c rest h1 h2 h3 h4 h5 ih =>
    simp only [List.cons_append, captureTerm]
    rw [if_neg h1, if_neg h2, if_neg h3, if_neg h4, if_pos h5]
    exact ih h


theorem afterObject_ext_none (T : Tables) (e e' : End) (b : Bool) (inp r more : List Nat)
    (h : afterObject T e b inp = .ok none r) :
    afterObject T e' b (inp ++ more) = .ok none (r ++ more) := by
  fun_induction afterObject T e b inp
  all_goals (try (simp at h; done))
  all_goals (try (simp_all [afterObject]; done))

theorem afterObject_ext_some (T : Tables) (e e' : End) (b : Bool) (inp x r more : List Nat)
    (h : afterObject T e b inp = .ok (some x) r) :
    ∃ x', afterObject T e' b (inp ++ more) = .ok (some x') (r ++ more) := by
  fun_induction afterObject T e b inp
  all_goals (try (simp at h; done))
  all_goals (try (simp_all [afterObject]; done))
  · next c rest h1 h2 h3 =>
    simp only [R.ok.injEq] at h; obtain ⟨_, rfl⟩ := h
    exact ⟨c :: rest ++ more, by simp [afterObject, h1, h2, h3]⟩

theorem expectDot_ext (T : Tables) (e e' : End) (b : Bool) (inp r more : List Nat)
    (h : expectDot T e b inp = .ok () r) :
    expectDot T e' b (inp ++ more) = .ok () (r ++ more) := by
  fun_induction expectDot T e b inp
  all_goals (try (simp at h; done))
  all_goals (try (simp_all [expectDot]; done))

theorem skipToStmt_ext (T : Tables) (b : Bool) (inp r more : List Nat)
    (h : skipToStmt T b inp = some r) : skipToStmt T b (inp ++ more) = some (r ++ more) := by
  fun_induction skipToStmt T b inp
  all_goals (try (simp at h; done))
  all_goals (try (simp_all [skipToStmt]; done))
  · next c rest h1 h2 =>
    simp only [Option.some.injEq] at h; subst h
    simp [skipToStmt, h1, h2]

theorem toEOL_ext (T : Tables) (e e' : End) (b : Bool) (inp r more : List Nat)
    (h : toEOL T e b inp = .start r) : toEOL T e' b (inp ++ more) = .start (r ++ more) := by
  fun_induction toEOL T e b inp
  all_goals (try (simp at h; done))
  all_goals (try (simp_all [toEOL]; done))

theorem captureTerm_ne {T : Tables} {urlOk : List Nat → Bool} {e : End} {pos : Pos} {b : Bool}
    {inp : List Nat} {v : Term (List Nat)} {r : List Nat}
    (h : captureTerm T urlOk e pos b inp = .ok v r) : inp ≠ [] := by
  rintro rfl; simp [captureTerm] at h

theorem afterObject_ne {T : Tables} {e : End} {b : Bool} {inp : List Nat} {v : Option (List Nat)}
    {r : List Nat} (h : afterObject T e b inp = .ok v r) : inp ≠ [] := by
  rintro rfl; simp [afterObject] at h

theorem expectDot_ne {T : Tables} {e : End} {b : Bool} {inp : List Nat}
    {r : List Nat} (h : expectDot T e b inp = .ok () r) : inp ≠ [] := by
  rintro rfl; simp [expectDot] at h

theorem statement_ext (T : Tables) (urlOk : List Nat → Bool) (e e' : End) (quads : Bool)
    (inp rest more : List Nat) (q : Quad (List Nat))
    (h : statement T urlOk e quads inp = .quad q rest) :
    statement T urlOk e' quads (inp ++ more) = .quad q (rest ++ more) := by
  obtain ⟨inp', s, r1, p, r2, o, r3, hsk, hs, hp, ho, hrest⟩ := statement_quad _ _ _ _ _ _ _ h
  unfold statement
  rw [skipToStmt_ext T _ _ _ more hsk]
  simp only
  rw [captureTerm_ext T urlOk e e' _ _ _ _ _ more hs (captureTerm_ne hp)]
  simp only
  rw [captureTerm_ext T urlOk e e' _ _ _ _ _ more hp (captureTerm_ne ho)]
  simp only
  rcases hrest with ⟨hq, ha, rfl⟩ | ⟨hq, x, r4, g, r5, ha, hg, hd, rfl⟩ | ⟨hq, hd, rfl⟩
  · rw [captureTerm_ext T urlOk e e' _ _ _ _ _ more ho (afterObject_ne ha)]
    simp only [hq, if_true]
    rw [afterObject_ext_none T e e' _ _ _ more ha]
  · rw [captureTerm_ext T urlOk e e' _ _ _ _ _ more ho (afterObject_ne ha)]
    simp only [hq, if_true]
    obtain ⟨x', hx'⟩ := afterObject_ext_some T e e' _ _ _ _ more ha
    rw [hx']
    simp only
    rw [captureTerm_ext T urlOk e e' _ _ _ _ _ more hg (expectDot_ne hd)]
    simp only
    rw [expectDot_ext T e e' _ _ _ more hd]
  · rw [captureTerm_ext T urlOk e e' _ _ _ _ _ more ho (expectDot_ne hd)]
    simp only [hq, Bool.false_eq_true, if_false]
    rw [expectDot_ext T e e' _ _ _ more hd]

theorem next_extend (T : Tables) (urlOk : List Nat → Bool) (e e' : End) (quads started : Bool)
    (inp rest more : List Nat) (q : Quad (List Nat))
    (h : next T urlOk e quads started inp = .quad q rest) :
    next T urlOk e' quads started (inp ++ more) = .quad q (rest ++ more) := by
  unfold next at h ⊢
  split at h
  · next hst =>
    rw [if_pos hst]
    split at h
    · simp at h
    · simp at h
    · next r ht =>
      rw [toEOL_ext T e e' _ _ _ more ht]
      exact statement_ext T urlOk e e' quads _ _ more q h
  · next hst =>
    rw [if_neg hst]
    exact statement_ext T urlOk e e' quads _ _ more q h

theorem runFuel_prefix (T : Tables) (urlOk : List Nat → Bool) (e e' : End) (quads : Bool)
    (more : List Nat) :
    ∀ (fuel fuel' : Nat) (started : Bool) (p : List Nat), (p ++ more).length + 1 ≤ fuel' →
      (runFuel T urlOk e quads fuel started p).1 <+:
        (runFuel T urlOk e' quads fuel' started (p ++ more)).1 := by
  intro fuel
  induction fuel with
  | zero => intro _ _ _ _; simp [runFuel]
  | succ f ih =>
    intro fuel' started p hf
    obtain ⟨f', rfl⟩ : ∃ f', fuel' = f' + 1 := ⟨fuel' - 1, by omega⟩
    rw [runFuel]
    split
    · simp
    · simp
    · next q rest hn =>
      have hsh := next_shrinks _ _ _ _ _ _ _ _ hn
      rw [runFuel, next_extend T urlOk e e' quads started p rest more q hn]
      simp only
      have := ih f' true rest (by simp only [List.length_append] at hf ⊢; omega)
      exact List.prefix_cons_inj q |>.2 this

theorem prefix_monotone (T : Tables) (urlOk : List Nat → Bool) (e e' : End) (quads : Bool)
    (p more : List Nat) :
    (run T urlOk e quads p).1 <+: (run T urlOk e' quads (p ++ more)).1 :=
  runFuel_prefix T urlOk e e' quads more _ _ false p (Nat.le_refl _)

end RdfModel.Proofs.C05NQ
