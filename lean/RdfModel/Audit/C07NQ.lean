/-
  Audit for C07 (decoder side): axioms of every theorem of Props/C07NQ.lean (expected: a subset of
  {propext, Classical.choice, Quot.sound}) and a non-vacuity example.
-/
import RdfModel.Props.C07NQ
open RdfModel RdfModel.NQ

#print axioms RdfModel.C07NQ.next_nt_quad
#print axioms RdfModel.C07NQ.next_nt_done
#print axioms RdfModel.C07NQ.nt_sub_nq
#print axioms RdfModel.C07NQ.nt_statements_default_graph
#print axioms RdfModel.C07NQ.run_congr
#print axioms RdfModel.C07NQ.gen_decoder_tables_equal
#print axioms RdfModel.C07NQ.gen_iriEsc_equal
#print axioms RdfModel.C07NQ.gen_tables_equal
#print axioms RdfModel.C07NQ.gen_writer_tables_differ
#print axioms RdfModel.C07NQ.nt_sub_nq_real

namespace RdfModel.C07NQ.Witness

/-- A two-statement N-Triples document (typed literal with a `\u` escape; blank nodes; a comment). -/
def doc : List Nat :=
  asc "<http://a/s> <http://a/p> \"\\u00e9x\"^^<http://a/dt> . # one\n_:b0 <http://a/p> _:b1 .\n"

def quads : List (Quad (List Nat)) :=
  [⟨.iri (asc "http://a/s"), .iri (asc "http://a/p"), .lit [0xe9, 0x78] (asc "http://a/dt") none, none⟩,
   ⟨.bnode (asc "b0"), .iri (asc "http://a/p"), .bnode (asc "b1"), none⟩]

/-- The hypothesis of `nt_sub_nq_real` holds for it … -/
theorem nt_accepts : run Gen.ntriples (fun _ => true) .eof false doc = (quads, .clean) := by decide

/-- … and (independently, by evaluation) so does the conclusion. -/
example : run Gen.nquads (fun _ => true) .eof true doc = (quads, .clean) := by decide

example : run Gen.nquads (fun _ => true) .eof true doc = (quads, .clean) :=
  nt_sub_nq_real _ _ _ _ nt_accepts

/-- The inclusion is strict: a graph label is an N-Triples syntax error and an N-Quads statement. -/
example :
    (run Gen.ntriples (fun _ => true) .eof false (asc "<http://a/s> <http://a/p> <http://a/o> <http://a/g> .\n")).2
      = .error .syntax ∧
    (run Gen.nquads (fun _ => true) .eof true (asc "<http://a/s> <http://a/p> <http://a/o> <http://a/g> .\n")).2
      = .clean := by decide

end RdfModel.C07NQ.Witness
