// Command c01rj: the RDF/JSON leg of C01 (round trip), C05 (decoder totality) and C06 (well-formed
// statements).
//
//   - T3 correspondence between Model/RdfJson.lean and encoding/rdfjson:
//     rj.enc  real AddTriple…/Close bytes, tokenised by the real inspectjson tokenizer  vs  the
//     model's token stream (validates "tokenise(json.Marshal v) = tokens of v, keys sorted");
//     rj.dec  real decoder on bytes  vs  the model on the real tokenizer's tokens of those bytes;
//     rj.wn   the model's WellNested predicate on every real token stream (the tokenizer guarantee
//     the panic-freedom theorem of the unrepaired code assumes).
//   - property oracles on the implementation: encode → decode → multiset comparison up to a
//     blank-node bijection (C01); no panic, sticky end state, Close succeeds (C05); every yielded
//     statement well-formed (C06); offset capture does not change the statements.
package main

import (
	"bytes"
	"context"
	"errors"
	"flag"
	"fmt"
	"io"
	"os"
	"sort"
	"strings"
	"unicode/utf8"

	"verifharness/vh"

	"github.com/dpb587/cursorio-go/cursorio"
	"github.com/dpb587/inspectjson-go/inspectjson"
	"github.com/dpb587/rdfkit-go/encoding/rdfjson"
	"github.com/dpb587/rdfkit-go/rdf"
	"github.com/dpb587/rdfkit-go/rdf/blanknodes"
)

var (
	tier     = flag.String("tier", "quick", "quick|thorough")
	driver   = flag.String("driver", "/verif/lean/.lake/build/bin/driver", "lean driver binary")
	out      = flag.String("out", "/verif/evidence/.c01rj.report.json", "report path")
	findings = flag.String("findings", "/verif/known-findings.json", "known findings")
	replay   = flag.String("replay", "", "replay file (one protocol line per line)")
	scale    = flag.Int("scale", 1, "multiply generated case counts (search mode uses 10)")
	nomodel  = flag.Bool("nomodel", false, "property oracles on the implementation only")
	hints    = flag.String("hints", "", "file of protocol lines that disagreed; their inputs are pushed through the oracles first")
)

// variant of decoder.go the model is asked to follow: checked assertions, literal checks,
// dirLangString check (see Model/RdfJson.lean `Variant`). Default: every repair applied.
var variant = "111"

const (
	rdfDirLangString = "http://www.w3.org/1999/02/22-rdf-syntax-ns#dirLangString"
)

type item struct {
	line string // protocol line for the model
	goR  string // implementation result, same canonical form
	kind string
	op   string // replayable form (bytes), for the report
}

// ---------------------------------------------------------------- tokens

func tokWire(t inspectjson.Token) string {
	switch v := t.(type) {
	case inspectjson.BeginObjectToken:
		return "O"
	case inspectjson.EndObjectToken:
		return "o"
	case inspectjson.BeginArrayToken:
		return "A"
	case inspectjson.EndArrayToken:
		return "a"
	case inspectjson.NameSeparatorToken:
		return "N"
	case inspectjson.ValueSeparatorToken:
		return "V"
	case inspectjson.StringToken:
		return "S" + vh.XS(v.Content)[1:]
	case inspectjson.NumberToken:
		return "X0"
	case inspectjson.TrueToken:
		return "X1"
	case inspectjson.FalseToken:
		return "X2"
	case inspectjson.NullToken:
		return "X3"
	case inspectjson.WhitespaceToken:
		return "X4"
	}
	return fmt.Sprintf("?%T", t)
}

func endClass(err error) string {
	switch {
	case errors.Is(err, vh.ErrInjected):
		return "io"
	case errors.Is(err, io.ErrUnexpectedEOF):
		return "ueof"
	case errors.Is(err, io.EOF):
		return "eof"
	}
	return "syntax"
}

// decOpts: one configuration of the decoder.
type decOpts struct {
	lax, ws, offsets, initOff, fail bool
	chunk                           int
	c1ok                            bool // harness-internal: LaxStringEscapeMissingEscape only (encoder correspondence)
}

// hasC1: a rune in U+0080..U+009F (the strict inspectjson tokenizer rejects these raw in strings,
// although RFC 8259 allows them and encoding/json writes them raw).
func hasC1(s string) bool {
	for _, c := range s {
		if c >= 0x80 && c <= 0x9f {
			return true
		}
	}
	return false
}

func (o decOpts) String() string {
	return fmt.Sprintf("l%sw%so%si%sf%sc%d", vh.B01(o.lax), vh.B01(o.ws), vh.B01(o.offsets), vh.B01(o.initOff), vh.B01(o.fail), o.chunk)
}

func parseDecOpts(s string) (o decOpts, ok bool) {
	var l, w, of, i, f int
	if n, _ := fmt.Sscanf(s, "l%1dw%1do%1di%1df%1dc%d", &l, &w, &of, &i, &f, &o.chunk); n != 6 {
		return o, false
	}
	o.lax, o.ws, o.offsets, o.initOff, o.fail = l == 1, w == 1, of == 1, i == 1, f == 1
	return o, true
}

func (o decOpts) tokenizerOptions() []inspectjson.TokenizerOption {
	var t []inspectjson.TokenizerOption
	if o.lax {
		t = append(t, inspectjson.TokenizerConfig{}.SetLax(true))
	}
	if o.ws {
		t = append(t, inspectjson.TokenizerConfig{}.SetEmitWhitespace(true))
	}
	if o.c1ok {
		t = append(t, inspectjson.TokenizerConfig{}.SetLaxBehavior(inspectjson.LaxStringEscapeMissingEscape, true))
	}
	return t
}

// tokenize runs the real tokenizer to its first error.
func tokenize(b []byte, o decOpts) (toks string, end string, panicked string) {
	defer func() {
		if p := recover(); p != nil {
			panicked = fmt.Sprint(p)
		}
	}()
	t := inspectjson.NewTokenizer(&vh.EndReader{B: b, Fail: o.fail, Chunk: o.chunk}, o.tokenizerOptions()...)
	var parts []string
	for {
		tok, err := t.Next()
		if err != nil {
			end = endClass(err)
			break
		}
		parts = append(parts, tokWire(tok))
		if len(parts) > 1<<22 {
			end = "runaway"
			break
		}
	}
	if len(parts) == 0 {
		return "-", end, ""
	}
	return strings.Join(parts, ","), end, ""
}

// ---------------------------------------------------------------- implementation side

func errClass(err error) string {
	switch {
	case err == nil:
		return "clean"
	case errors.Is(err, vh.ErrInjected):
		return "err:io"
	case errors.Is(err, io.EOF), errors.Is(err, io.ErrUnexpectedEOF):
		return "err:eof"
	}
	return "err:syntax"
}

type decResult struct {
	res     string // canonical: "t1;t2|verdict", or "panic:…"
	triples []rdf.Triple
	label   func(rdf.BlankNode) string
	c05     string // non-empty: C05 violation other than a panic (latch, Close)
	errText string
}

func tripleWire(t rdf.Triple, label func(rdf.BlankNode) string) string {
	return vh.TermWire(t.Subject, label) + "," + vh.TermWire(t.Predicate, label) + "," + vh.TermWire(t.Object, label)
}

// goDecode runs the real decoder over a full iteration, then probes the end state.
func goDecode(b []byte, o decOpts) (r decResult) {
	defer func() {
		if p := recover(); p != nil {
			r.res = fmt.Sprintf("panic:%v", p)
		}
	}()
	f := blanknodes.NewStringFactory()
	prov := f.(blanknodes.StringProviderProvider).GetStringProvider(blanknodes.NewInt64StringProvider("?anon%d"))
	r.label = prov.GetBlankNodeString
	cfg := rdfjson.DecoderConfig{}.SetBlankNodeStringFactory(f)
	if topts := o.tokenizerOptions(); len(topts) > 0 {
		cfg = cfg.SetTokenizerOptions(topts...)
	}
	if o.initOff {
		cfg = cfg.SetInitialTextOffset(cursorio.TextOffset{Byte: 7, LineColumn: cursorio.TextLineColumn{3, 4}})
	} else if o.offsets {
		cfg = cfg.SetCaptureTextOffsets(true)
	}
	d, err := rdfjson.NewDecoder(&vh.EndReader{B: b, Fail: o.fail, Chunk: o.chunk}, cfg)
	if err != nil {
		r.res = "newdecoder-error"
		return
	}
	var parts []string
	for d.Next() {
		t := d.Triple()
		_ = d.Statement()
		offs := d.StatementTextOffsets()
		if (o.offsets || o.initOff) && offs == nil {
			r.c05 = "StatementTextOffsets is nil although offset capture is on"
		}
		r.triples = append(r.triples, t)
		parts = append(parts, tripleWire(t, r.label))
		if len(parts) > 1<<22 {
			r.c05 = "runaway iteration"
			break
		}
	}
	e1 := d.Err()
	if e1 != nil {
		r.errText = e1.Error()
	}
	for k := 0; k < 3; k++ {
		if d.Next() {
			r.c05 = "Next returned true after it had returned false"
		}
		if fmt.Sprint(d.Err()) != fmt.Sprint(e1) {
			r.c05 = "Err changed after the end of the iteration"
		}
	}
	if cerr := d.Close(); cerr != nil {
		r.c05 = "Close failed: " + cerr.Error()
	}
	r.res = strings.Join(parts, ";") + "|" + errClass(e1)
	return
}

// wfClass: "" when the statement is well-formed in the sense of C06, else the class of the defect.
func wfClass(t rdf.Triple) string {
	switch s := t.Subject.(type) {
	case nil:
		return "nil-subject"
	case rdf.IRI:
	case rdf.BlankNode:
		if s.Identifier == nil {
			return "subject-bnode-without-identity"
		}
	default:
		return "subject-kind"
	}
	switch t.Predicate.(type) {
	case nil:
		return "nil-predicate"
	case rdf.IRI:
	default:
		return "predicate-kind"
	}
	switch o := t.Object.(type) {
	case nil:
		return "nil-object"
	case rdf.IRI:
	case rdf.BlankNode:
		if o.Identifier == nil {
			return "object-bnode-without-identity"
		}
	case rdf.Literal:
		switch {
		case o.Datatype == "":
			return "literal-without-datatype"
		case string(o.Datatype) == vh.RDFLangString:
			tag, ok := o.Tag.(rdf.LanguageLiteralTag)
			if !ok {
				return "langstring-without-language-tag"
			} else if tag.Language == "" {
				return "langstring-with-empty-language-tag"
			}
		case string(o.Datatype) == rdfDirLangString:
			tag, ok := o.Tag.(rdf.DirectionalLanguageLiteralTag)
			if !ok || tag.Language == "" {
				return "dirlangstring-without-direction"
			}
		default:
			if o.Tag != nil {
				return "tag-on-plain-datatype"
			}
		}
	default:
		return "object-kind"
	}
	return ""
}

// predicate names of the known-findings classes this harness implements
var wfPredicate = map[string]string{
	"dirlangstring-without-direction": "rj-dirlangstring-without-direction",
}

type encOpts struct {
	indent     bool
	escapeHTML int // 0 default, 1 on, 2 off
}

func goEncode(prov blanknodes.StringProvider, tbl *vh.BNTable, ts [][3]*vh.GTerm, o encOpts) ([]byte, int, error) {
	var buf bytes.Buffer
	cfg := rdfjson.EncoderConfig{}
	if prov != nil {
		cfg = cfg.SetBlankNodeStringProvider(prov)
	}
	if o.indent {
		cfg = cfg.SetIndent("", "  ")
	}
	if o.escapeHTML == 1 {
		cfg = cfg.SetEscapeHTML(true)
	} else if o.escapeHTML == 2 {
		cfg = cfg.SetEscapeHTML(false)
	}
	e, err := rdfjson.NewEncoder(&buf, cfg)
	if err != nil {
		return nil, 0, err
	}
	rejected := 0
	for _, t := range ts {
		var rt rdf.Triple
		if t[0] != nil {
			rt.Subject, _ = tbl.Term(*t[0]).(rdf.SubjectValue)
		}
		if t[1] != nil {
			rt.Predicate, _ = tbl.Term(*t[1]).(rdf.PredicateValue)
		}
		if t[2] != nil {
			rt.Object, _ = tbl.Term(*t[2]).(rdf.ObjectValue)
			if l, ok := rt.Object.(rdf.Literal); ok && t[2].Lang == nilTag {
				l.Tag = nil
				rt.Object = l
			}
		}
		if err := e.AddTriple(context.Background(), rt); err != nil {
			rejected++
		}
	}
	if err := e.Close(); err != nil {
		return nil, rejected, err
	}
	return buf.Bytes(), rejected, nil
}

// ---------------------------------------------------------------- generators

type gen struct {
	r     *vh.Rng
	rep   *vh.Report
	items []item
	known map[string]vh.Finding
}

func (g *gen) add(kind, line, goR, op string, nontrivial bool) {
	g.items = append(g.items, item{line: line, goR: goR, kind: kind, op: op})
	g.rep.Eval(line, nontrivial)
	g.rep.Count("op:" + kind)
}

func labelPlain(i int) string { return fmt.Sprintf("b%d", i) }

// labels RDF/JSON can carry: any non-empty string
var oddLabels = []string{"b0", "a.b", "x-", "_", "0", ":a", "a..b", "é", "a b", "q\"uote", "back\\slash", "_:x", "\U0001F41B", "<>&", "\u2028", "a\x00b"}

func oddLabel(r *vh.Rng) func(int) string {
	off := r.Intn(len(oddLabels))
	return func(i int) string { return oddLabels[(i+off)%len(oddLabels)] }
}

func ptr(t vh.GTerm) *vh.GTerm { return &t }

func triplesOf(qs []vh.GQuad) [][3]*vh.GTerm {
	ts := make([][3]*vh.GTerm, len(qs))
	for i, q := range qs {
		ts[i] = [3]*vh.GTerm{ptr(q.S), ptr(q.P), ptr(q.O)}
	}
	return ts
}

// nilTag as GTerm.Lang: an rdf:langString literal whose Tag is nil (the encoder's fallback branch).
const nilTag = "\x00nil-tag"

func wireTriple(t [3]*vh.GTerm, label func(int) string) string {
	w := func(x *vh.GTerm) string {
		if x == nil {
			return "-"
		}
		if x.Kind == vh.KLit && x.Lang == nilTag {
			return "L" + vh.XS(x.Lex)[1:] + "." + vh.XS(x.DT)[1:] + ".-"
		}
		return x.Wire(label)
	}
	return w(t[0]) + "," + w(t[1]) + "," + w(t[2])
}

func validTriple(t [3]*vh.GTerm) bool {
	for _, x := range t {
		if x != nil && !utf8.ValidString(x.IRI+x.Lex+x.DT+x.Lang) {
			return false
		}
	}
	return true
}

// encCases: encoder correspondence. Labellers may be non-injective or yield "" (the encoder does
// not care); positions may be nil or of the wrong kind; strings are arbitrary valid UTF-8.
func (g *gen) encCases(n int) {
	for i := 0; i < n; i++ {
		lab := labelPlain
		switch g.r.Intn(10) {
		case 0, 1, 2:
			lab = oddLabel(g.r)
		case 3:
			lab = func(int) string { return "same" }
		case 4:
			lab = func(i int) string { return []string{"", "x", ""}[i%3] }
		}
		tbl := vh.NewBNTable(lab)
		qs := g.r.Dataset(vh.DatasetOpts{MaxQuads: 7, NBNodes: 3, NIRIs: 3, Graphs: false, IRI: vh.IRIOpts{Exotic: g.r.Chance(30)}})
		ts := triplesOf(qs)
		for k := range ts {
			switch g.r.Intn(30) {
			case 0:
				ts[k][g.r.Intn(3)] = nil
			case 1: // IRI that looks like a blank-node key, or empty
				ts[k][0] = ptr(vh.GTerm{Kind: vh.KIRI, IRI: vh.Pick(g.r, []string{"_:b0", "_:", "", "_"})})
			case 2: // langString without a language tag, xsd:string spelled out, empty datatype
				ts[k][2] = ptr(vh.GTerm{Kind: vh.KLit, Lex: g.r.LexicalForm(), DT: vh.Pick(g.r, []string{"", vh.XSDString, rdfDirLangString})})
			case 3:
				ts[k][2] = ptr(vh.GTerm{Kind: vh.KLit, Lex: g.r.LexicalForm(), DT: vh.RDFLangString, Lang: vh.Pick(g.r, []string{"", nilTag})})
			case 4: // arbitrary strings as IRIs
				ts[k][g.r.Intn(3)] = ptr(vh.GTerm{Kind: vh.KIRI, IRI: g.r.LexicalForm()})
			}
		}
		ok := true
		for _, t := range ts {
			ok = ok && validTriple(t)
		}
		if !ok {
			continue
		}
		o := encOpts{indent: g.r.Chance(30), escapeHTML: g.r.Intn(3)}
		doc, _, err := goEncode(tbl, tbl, ts, o)
		var goR string
		if err != nil {
			goR = "close-error:" + err.Error()
		} else {
			// json.Marshal leaves U+0080..U+009F raw; the strict tokenizer refuses them (known finding
			// rj-c1-control-raw), so such documents are tokenised with that one check relaxed.
			c1 := hasC1(string(doc))
			if c1 {
				g.rep.Count("enc-with-c1-control")
			}
			toks, end, pan := tokenize(doc, decOpts{c1ok: c1})
			if pan != "" || end != "eof" {
				goR = "tokenizer:" + end + pan
			} else {
				goR = toks
			}
		}
		parts := make([]string, len(ts))
		for k, t := range ts {
			parts[k] = wireTriple(t, lab)
		}
		line := strings.TrimSpace("rj.enc " + strings.Join(parts, " "))
		g.add("enc", line, goR, line, len(ts) > 1)
		g.rep.Count(fmt.Sprintf("enc-triples:%d", len(ts)))
	}
}

// decDoc: one document through the real decoder (twice: with and without offset capture), the real
// tokenizer, and — later — the model.
func (g *gen) decDoc(kind string, b []byte, o decOpts, nontrivial bool) {
	op := fmt.Sprintf("rj.dec.bytes %s %s", o, vh.X(b))
	r := goDecode(b, o)
	g.rep.Count("dec-opts:" + fmt.Sprintf("lax=%v ws=%v offsets=%v fail=%v", o.lax, o.ws, o.offsets || o.initOff, o.fail))
	// C05
	if strings.HasPrefix(r.res, "panic") {
		g.violation("C05", "panic", op, r.res, "decoder panicked: "+r.res)
	} else if r.c05 != "" {
		g.violation("C05", "end-state", op, r.res, r.c05)
	}
	// C06
	for _, t := range r.triples {
		if c := wfClass(t); c != "" {
			g.violation("C06", c, op, r.res, "ill-formed statement ("+c+"): "+tripleWire(t, r.label))
			break
		}
	}
	// offset capture must not change the statements
	o2 := o
	o2.offsets, o2.initOff = !(o.offsets || o.initOff), false
	if r2 := goDecode(b, o2); r2.res != r.res {
		g.violation("C16", "offsets-change-statements", op, r.res, "with offsets toggled: "+r2.res)
	}
	if *nomodel {
		g.rep.Eval(op, nontrivial)
		g.rep.Count("op:" + kind)
		return
	}
	toks, end, pan := tokenize(b, o)
	if pan != "" {
		g.violation("C05", "tokenizer-panic", op, pan, "inspectjson tokenizer panicked: "+pan)
		return
	}
	g.add(kind, fmt.Sprintf("rj.dec %s %s %s", variant, end, toks), r.res, op, nontrivial)
	if !o.ws { // same input, second question: not counted as an evaluation of its own
		g.items = append(g.items, item{line: "rj.wn " + toks, goR: "true", kind: "wn", op: op})
		g.rep.Count("op:wn")
	}
	v := r.res
	if i := strings.LastIndex(v, "|"); i >= 0 {
		v = v[i+1:]
	} else if strings.HasPrefix(v, "panic") {
		v = "panic"
	}
	g.rep.Count("dec-verdict:" + v)
	g.rep.Count("dec-end:" + end)
}

func (g *gen) violation(prop, class, op, goR, detail string) {
	if f, ok := g.known[wfPredicate[class]]; ok && wfPredicate[class] != "" {
		g.addKnown(f, op, detail)
		return
	}
	// every hit is counted; the first few of each class are reported with their input
	g.rep.Count("violation:" + prop + ":" + class)
	if g.rep.Hist["violation:"+prop+":"+class] <= 5 {
		g.rep.Add(vh.Case{Kind: "violation", Op: op, Go: clip(goR, 2000), Detail: prop + ": " + detail})
	}
}

// addKnown records a hit of a listed finding (the first few with their input; all are counted).
func (g *gen) addKnown(f vh.Finding, op, detail string) {
	g.rep.Count("known:" + f.Key)
	if g.rep.Hist["known:"+f.Key] <= 3 {
		g.rep.Add(vh.Case{Kind: "known", Key: f.Key, Op: op, Detail: f.What + " — " + detail})
	}
}

func (g *gen) randOpts() decOpts {
	o := decOpts{lax: g.r.Chance(35), ws: g.r.Chance(8), fail: g.r.Chance(8)}
	switch g.r.Intn(4) {
	case 0:
		o.offsets = true
	case 1:
		o.initOff = true
	}
	if g.r.Chance(30) {
		o.chunk = 1 + g.r.Intn(7)
	}
	return o
}

var hotBytes = []byte("{}[],:\"\\_: \n\t/*0-9.eEtfn\x00\x1f\x7f\xc3\xa9\xf0\x9f\xff")

// ---- structured generator: RDF/JSON documents with local deviations

type docGen struct {
	r   *vh.Rng
	sb  strings.Builder
	lax bool
}

func (d *docGen) ws() {
	switch d.r.Intn(12) {
	case 0:
		d.sb.WriteString(" ")
	case 1:
		d.sb.WriteString("\n  ")
	case 2:
		d.sb.WriteString("\t")
	case 3:
		if d.lax && d.r.Chance(30) {
			d.sb.WriteString(vh.Pick(d.r, []string{"/* c */", "// c\n", "/**/"}))
		}
	}
}

func (d *docGen) str(s string) {
	d.ws()
	d.sb.WriteByte('"')
	for _, c := range s {
		switch {
		case c == '"' || c == '\\':
			d.sb.WriteByte('\\')
			d.sb.WriteRune(c)
		case c < 0x20 || d.r.Chance(3):
			if c > 0xFFFF {
				c -= 0x10000
				fmt.Fprintf(&d.sb, "\\u%04x\\u%04X", 0xD800+(c>>10), 0xDC00+(c&0x3FF))
			} else {
				fmt.Fprintf(&d.sb, "\\u%04x", c)
			}
		default:
			d.sb.WriteRune(c)
		}
	}
	d.sb.WriteByte('"')
	d.ws()
}

func (d *docGen) junkValue() {
	d.ws()
	d.sb.WriteString(vh.Pick(d.r, []string{"1", "-0.5e3", "true", "false", "null", "[]", "{}", "[1,\"a\"]", "{\"type\":\"uri\"}", "\"s\"", "\"\"", "tRue", "01", "\"\\ud800\"", "\"\\x\""}))
	d.ws()
}

func (d *docGen) sep(i int) {
	if i > 0 {
		if d.r.Chance(2) {
			return // missing comma
		}
		d.sb.WriteByte(',')
	}
	if d.lax && d.r.Chance(4) {
		d.sb.WriteByte(',')
	}
}

func (d *docGen) trailingComma() {
	if d.r.Chance(4) {
		d.sb.WriteByte(',')
	}
}

var (
	subjKeys  = []string{"http://e/s", "http://e/s2", "_:b0", "_:b1", "_:", "", "_", "s", "_:\u00e9 x", "urn:a:b"}
	predKeys  = []string{"http://e/p", "http://e/q", "p", "", "_:b0", "http://www.w3.org/1999/02/22-rdf-syntax-ns#type"}
	typeVals  = []string{"literal", "literal", "literal", "uri", "uri", "bnode", "bnode", "Literal", "", "zzz", "iri"}
	bnodeVals = []string{"_:b0", "_:b1", "_:x y", "_:", "_:", "b0", "", "_", "_:_:"}
	langVals  = []string{"en", "en-US", "de-Latn-CH-1996", "", "", "x", "EN", "e n"}
	dtVals    = []string{vh.XSDString, vh.RDFLangString, vh.RDFLangString, rdfDirLangString, "", vh.XSD + "integer", "x", "http://e/dt", "_:b0"}
	memberKey = []string{"type", "value", "lang", "datatype"}
)

func (d *docGen) record() {
	d.ws()
	d.sb.WriteByte('{')
	ty := vh.Pick(d.r, typeVals)
	keys := []string{"type", "value"}
	if ty == "literal" || d.r.Chance(10) {
		switch d.r.Intn(6) {
		case 0, 1:
			keys = append(keys, "lang")
		case 2, 3:
			keys = append(keys, "datatype")
		case 4:
			keys = append(keys, "lang", "datatype")
		}
	}
	if d.r.Chance(6) { // drop one
		k := d.r.Intn(len(keys))
		keys = append(keys[:k:k], keys[k+1:]...)
	}
	if d.r.Chance(6) { // duplicate / unknown
		keys = append(keys, vh.Pick(d.r, []string{"type", "value", "lang", "datatype", "foo", "Type", ""}))
	}
	for i := len(keys) - 1; i > 0; i-- {
		j := d.r.Intn(i + 1)
		keys[i], keys[j] = keys[j], keys[i]
	}
	for i, k := range keys {
		d.sep(i)
		if d.r.Chance(1) {
			d.junkValue() // a non-string where the member name should be
		} else {
			d.str(k)
		}
		if !d.r.Chance(1) {
			d.sb.WriteByte(':')
		}
		if d.r.Chance(3) {
			d.junkValue()
			continue
		}
		switch k {
		case "type":
			d.str(ty)
		case "value":
			if ty == "bnode" {
				d.str(vh.Pick(d.r, bnodeVals))
			} else if d.r.Chance(70) {
				d.str(d.r.LexicalForm())
			} else {
				d.str(d.r.AbsIRI(vh.IRIOpts{}))
			}
		case "lang":
			d.str(vh.Pick(d.r, langVals))
		case "datatype":
			d.str(vh.Pick(d.r, dtVals))
		default:
			d.str("v")
		}
	}
	d.trailingComma()
	d.sb.WriteByte('}')
	d.ws()
}

func (d *docGen) doc() []byte {
	d.ws()
	if d.r.Chance(3) {
		d.junkValue()
		return []byte(d.sb.String())
	}
	d.sb.WriteByte('{')
	for i, ns := 0, d.r.Intn(4); i < ns; i++ {
		d.sep(i)
		d.str(vh.Pick(d.r, subjKeys))
		if !d.r.Chance(1) {
			d.sb.WriteByte(':')
		}
		if d.r.Chance(3) {
			d.junkValue()
			continue
		}
		d.ws()
		d.sb.WriteByte('{')
		for j, np := 0, d.r.Intn(3); j < np; j++ {
			d.sep(j)
			if d.r.Chance(1) {
				d.junkValue()
			} else {
				d.str(vh.Pick(d.r, predKeys))
			}
			if !d.r.Chance(1) {
				d.sb.WriteByte(':')
			}
			if d.r.Chance(3) {
				d.junkValue()
				continue
			}
			d.ws()
			d.sb.WriteByte('[')
			for k, no := 0, d.r.Intn(4); k < no; k++ {
				d.sep(k)
				if d.r.Chance(3) {
					d.junkValue()
				} else {
					d.record()
				}
			}
			d.trailingComma()
			d.sb.WriteByte(']')
			d.ws()
		}
		d.trailingComma()
		d.sb.WriteByte('}')
		d.ws()
	}
	d.trailingComma()
	if !d.r.Chance(2) {
		d.sb.WriteByte('}')
	}
	d.ws()
	if d.r.Chance(3) {
		d.sb.WriteString(vh.Pick(d.r, []string{"x", "{}", ",", ";", "/", "//", "\"a\""}))
	}
	return []byte(d.sb.String())
}

func (g *gen) decCases(n int) {
	for i := 0; i < n; i++ {
		// (a) encoder output, plain or indented
		tbl := vh.NewBNTable(oddLabel(g.r))
		qs := g.r.Dataset(vh.DatasetOpts{MaxQuads: 5, NBNodes: 3, NIRIs: 3, Graphs: false, IRI: vh.IRIOpts{Exotic: g.r.Chance(20)}})
		doc, _, err := goEncode(tbl, tbl, triplesOf(qs), encOpts{indent: g.r.Bool(), escapeHTML: g.r.Intn(3)})
		if err == nil {
			g.decDoc("dec-valid", doc, g.randOpts(), len(qs) > 0)
			for k := 0; k < 2; k++ {
				g.decDoc("dec-mutated", g.r.Mutate(doc, hotBytes), g.randOpts(), true)
			}
			g.decDoc("dec-truncated", doc[:g.r.Intn(len(doc)+1)], g.randOpts(), true)
		}
		// (b) structured documents with deviations
		for k := 0; k < 4; k++ {
			o := g.randOpts()
			dg := &docGen{r: g.r, lax: o.lax}
			b := dg.doc()
			g.decDoc("dec-structured", b, o, true)
			if g.r.Chance(25) {
				g.decDoc("dec-structured-mutated", g.r.Mutate(b, hotBytes), g.randOpts(), true)
			}
		}
	}
}

// fixedDocs: hand-picked documents (each violation class found while building the check, and the
// corners of the iteration protocol); always run first.
var fixedDocs = []string{
	``, ` `, `{`, `{}`, `{} `, `{}x`, `[]`, `"a"`, `1`, `{"s":{}}`, `{"s":{"p":[]}}`, `{"s":1}`, `{"s":{"p":1}}`, `{"s":{"p":[1]}}`,
	`{"s":{ "p":[]}}`, `{"s":{"p":[{ "type":"uri","value":"x"}]}}`, `{ "s":{"p":[]}}`,
	`{"s":{"p":[{"type":"literal","value":"x","lang":""}]}}`,
	`{"s":{"p":[{"type":"literal","value":"x","lang":"en","datatype":"http://www.w3.org/1999/02/22-rdf-syntax-ns#langString"}]}}`,
	`{"s":{"p":[{"type":"literal","value":"x","datatype":"http://www.w3.org/1999/02/22-rdf-syntax-ns#langString"}]}}`,
	`{"s":{"p":[{"type":"literal","value":"x","datatype":"http://www.w3.org/1999/02/22-rdf-syntax-ns#dirLangString"}]}}`,
	`{"s":{"p":[{"type":"literal","value":"x","datatype":""}]}}`,
	`{"s":{"p":[{"type":"literal","value":"x","datatype":"","lang":""}]}}`,
	`{"s":{"p":[{"type":"literal","value":"x","datatype":"http://e/dt","lang":"en"}]}}`,
	`{"_:":{"p":[{"type":"bnode","value":"_:"},{"type":"bnode","value":"_:"}]},"_:a":{"p":[{"type":"bnode","value":"_:a"}]}}`,
	`{"s":{"p":[{"type":"uri","value":"x"},{"type":"uri","value":"y"},{"type":"zzz","value":"y"}]}}`,
	`{"s":{"p":[{"type":"uri","value":"x"}]}} x`,
	`{"s":{"p":[{"type":"uri","value":"x"}]},"t":{"p":[{"type":"uri","value":"x"}]}`,
	`{"s":{,"p":[{,"type":"uri",,"value":"x",},],},}`,
	`{"s":{"p":[{"type":"uri","value":"x"},]},"t":{"q":[{"value":"y","type":"uri"}]}}`,
	`{"s":{"p":[{"type":"uri","value":"x","type":"bnode"}]}}`,
	`{"s":{"p":[{"type":"uri"}]}}`, `{"s":{"p":[{"value":"x"}]}}`, `{"s":{"p":[{}]}}`, `{"s":{"p":[{"foo":"x"}]}}`,
	`{"s":{"p":[{"type":"bnode","value":"x"}]}}`, `{"s":{"p":[{"type":1,"value":"x"}]}}`, `{"s":{"p":[{"type":"uri","value":null}]}}`,
	"{\"s\":{\"p\":[{\"type\":\"uri\",\"value\":\"x\xff\"}]}}", "{\"s\":{\"p\":[{\"type\":\"uri\",\"value\":\"\\ud800\"}]}}",
	`{"s":{"p":[1.`, `{"s":{"p":[/`, `{"s":{"p":[{"type":"uri","value":"x"}]}}/`, `{"s":{"p":[{"type":"uri","value":"x"}]}}//`,
}

func (g *gen) fixedCases() {
	for _, s := range fixedDocs {
		for _, o := range []decOpts{{}, {lax: true}, {ws: true}, {lax: true, ws: true, offsets: true}, {offsets: true}, {initOff: true, chunk: 1}, {fail: true}} {
			g.decDoc("dec-fixed", []byte(s), o, false)
		}
	}
}

// ---------------------------------------------------------------- C01 oracle on the implementation

// canonTriples renders triples with blank nodes replaced through `name`, sorted (multiset).
func sortedCopy(xs []string) []string {
	ys := append([]string(nil), xs...)
	sort.Strings(ys)
	return ys
}

func permutations(n int, f func([]int) bool) bool {
	p := make([]int, n)
	for i := range p {
		p[i] = i
	}
	var rec func(k int) bool
	rec = func(k int) bool {
		if k == n {
			return f(p)
		}
		for i := k; i < n; i++ {
			p[k], p[i] = p[i], p[k]
			if rec(k + 1) {
				return true
			}
			p[k], p[i] = p[i], p[k]
		}
		return false
	}
	return rec(0)
}

// isoMultiset: is there a bijection input blank nodes ↔ decoded labels making the two multisets equal?
func isoMultiset(in [][3]*vh.GTerm, got []rdf.Triple, label func(rdf.BlankNode) string) bool {
	if len(in) != len(got) {
		return false
	}
	ids := map[int]bool{}
	for _, t := range in {
		for _, x := range t {
			if x.Kind == vh.KBNode {
				ids[x.BNode] = true
			}
		}
	}
	labs := map[string]bool{}
	for _, t := range got {
		for _, x := range []rdf.Term{t.Subject, t.Object} {
			if b, ok := x.(rdf.BlankNode); ok {
				labs[label(b)] = true
			}
		}
	}
	if len(ids) != len(labs) || len(ids) > 7 {
		return false
	}
	var idl []int
	for i := range ids {
		idl = append(idl, i)
	}
	sort.Ints(idl)
	labl := vh.SortedKeys(labs)
	gotW := make([]string, len(got))
	for i, t := range got {
		gotW[i] = tripleWire(t, label)
	}
	gotW = sortedCopy(gotW)
	return permutations(len(idl), func(p []int) bool {
		m := map[int]string{}
		for k, i := range idl {
			m[i] = labl[p[k]]
		}
		inW := make([]string, len(in))
		for i, t := range in {
			inW[i] = wireTriple(t, func(i int) string { return m[i] })
		}
		inW = sortedCopy(inW)
		for i := range inW {
			if inW[i] != gotW[i] {
				return false
			}
		}
		return true
	})
}

func (g *gen) oracleOne(ts [][3]*vh.GTerm, custom bool, eo encOpts, do decOpts) {
	lab := oddLabel(vh.NewRng(uint64(len(ts)) + 17))
	tbl := vh.NewBNTable(lab)
	var prov blanknodes.StringProvider
	if custom {
		prov = tbl
	}
	doc, rejected, err := goEncode(prov, tbl, ts, eo)
	desc := fmt.Sprintf("custom-labels=%v enc=%+v dec=%s triples=%d doc=%s", custom, eo, do, len(ts), vh.X(doc))
	g.rep.Eval("oracle "+desc, len(ts) > 1)
	g.rep.Count("op:oracle")
	fail := func(what string) {
		if f, ok := g.known["rj-c1-control-raw"]; ok && !do.lax && hasC1(string(doc)) && strings.Contains(what, "err:syntax") {
			g.addKnown(f, "", clip(desc, 300))
			return
		}
		parts := make([]string, len(ts))
		for k, t := range ts {
			parts[k] = wireTriple(t, lab)
		}
		class := what
		if i := strings.IndexAny(class, ":("); i > 0 {
			class = class[:i]
		}
		g.violation("C01", "roundtrip "+strings.TrimSpace(class), "rj.enc "+strings.Join(parts, " "), "", what+" — "+desc)
	}
	if err != nil || rejected > 0 {
		fail(fmt.Sprintf("encoder error (%v, %d triples rejected)", err, rejected))
		return
	}
	if !utf8.Valid(doc) {
		fail("output is not valid UTF-8")
		return
	}
	// grammaticality: the bytes must tokenise as strict JSON (real tokenizer) and the tokens must be
	// accepted by the Lean recogniser Spec.RJG.accepts
	toks, end, pan := tokenize(doc, decOpts{c1ok: hasC1(string(doc))})
	if pan != "" || end != "eof" {
		fail("output is not JSON: tokenizer ended with " + end + " " + pan)
		return
	}
	if !*nomodel {
		g.items = append(g.items, item{line: "rj.accepts " + toks, goR: "true", kind: "grammar", op: "rj.dec.bytes " + decOpts{}.String() + " " + vh.X(doc)})
	}
	r := goDecode(doc, do)
	if !strings.HasSuffix(r.res, "|clean") {
		fail("decoder verdict " + r.res[strings.LastIndex(r.res, "|")+1:] + " " + r.errText)
		return
	}
	if r.c05 != "" {
		fail(r.c05)
		return
	}
	if !isoMultiset(ts, r.triples, r.label) {
		fail("decoded dataset is not isomorphic to the input: " + r.res)
		return
	}
	if custom { // the theorem says more: the labels themselves come back
		inW := make([]string, len(ts))
		for i, t := range ts {
			inW[i] = wireTriple(t, lab)
		}
		gotW := make([]string, len(r.triples))
		for i, t := range r.triples {
			gotW[i] = tripleWire(t, r.label)
		}
		if strings.Join(sortedCopy(inW), ";") != strings.Join(sortedCopy(gotW), ";") {
			fail("custom labels not preserved: " + r.res)
		}
	}
}

func (g *gen) oracle(n int) {
	for i := 0; i < n; i++ {
		qs := g.r.Dataset(vh.DatasetOpts{MaxQuads: 8, NBNodes: 4, NIRIs: 4, Graphs: false, IRI: vh.IRIOpts{Exotic: g.r.Chance(25)}})
		do := g.randOpts()
		do.fail, do.ws = false, false
		g.oracleOne(triplesOf(qs), g.r.Chance(50), encOpts{indent: g.r.Chance(30), escapeHTML: g.r.Intn(3)}, do)
	}
}

// parseWireTerm reads back a term token (hints).
func parseWireTerm(tok string, bn map[string]int) (*vh.GTerm, bool) {
	un := func(h string) (string, bool) {
		b, err := vh.UnX("x" + h)
		return string(b), err == nil && utf8.Valid(b)
	}
	if len(tok) == 0 {
		return nil, false
	}
	switch tok[0] {
	case 'I':
		v, ok := un(tok[1:])
		return &vh.GTerm{Kind: vh.KIRI, IRI: v}, ok
	case 'B':
		if _, ok := bn[tok]; !ok {
			bn[tok] = len(bn)
		}
		return &vh.GTerm{Kind: vh.KBNode, BNode: bn[tok]}, true
	case 'L':
		f := strings.Split(tok[1:], ".")
		if len(f) != 3 {
			return nil, false
		}
		lex, ok1 := un(f[0])
		dt, ok2 := un(f[1])
		t := &vh.GTerm{Kind: vh.KLit, Lex: lex, DT: dt}
		if f[2] != "-" {
			t.Lang, _ = un(f[2])
		}
		return t, ok1 && ok2
	}
	return nil, false
}

// wellFormedInput: the hypothesis of the round-trip theorem, on a generated triple.
func wellFormedInput(t [3]*vh.GTerm) bool {
	s, p, o := t[0], t[1], t[2]
	if s == nil || p == nil || o == nil || p.Kind != vh.KIRI || s.Kind == vh.KLit {
		return false
	}
	if s.Kind == vh.KIRI && strings.HasPrefix(s.IRI, "_:") {
		return false
	}
	if o.Kind == vh.KLit {
		if o.DT == "" || o.DT == rdfDirLangString || (o.DT == vh.RDFLangString) != (o.Lang != "") {
			return false
		}
	}
	return true
}

func (g *gen) runHints(path string) {
	b, err := os.ReadFile(path)
	if err != nil {
		return
	}
	for _, l := range strings.Split(string(b), "\n") {
		f := strings.Fields(l)
		if len(f) == 3 && f[0] == "rj.dec.bytes" {
			if o, ok := parseDecOpts(f[1]); ok {
				if raw, err := vh.UnX(f[2]); err == nil {
					g.decDoc("hint", raw, o, true)
				}
			}
		} else if len(f) >= 1 && f[0] == "rj.enc" {
			bn := map[string]int{}
			var ts [][3]*vh.GTerm
			ok := true
			for _, w := range f[1:] {
				p := strings.Split(w, ",")
				if len(p) != 3 {
					ok = false
					break
				}
				var t [3]*vh.GTerm
				for k := range p {
					var okk bool
					if t[k], okk = parseWireTerm(p[k], bn); !okk {
						ok = false
					}
				}
				if ok && wellFormedInput(t) {
					ts = append(ts, t)
				}
			}
			if ok && len(ts) > 0 {
				g.oracleOne(ts, true, encOpts{}, decOpts{})
				g.oracleOne(ts, false, encOpts{}, decOpts{})
			}
		}
	}
}

// ---------------------------------------------------------------- main

func main() {
	flag.Parse()
	if v := os.Getenv("VERIF_RJ_VARIANT"); len(v) == 3 {
		variant = v
	}
	seed := vh.SeedFromEnv()
	rep := vh.NewReport("C01RJ", *tier, seed, "RDF/JSON: triples over RFC 3987 IRIs / hot-alphabet literals / shared blank nodes with plain, odd, colliding and empty labels, nil and wrong-kind positions (enc); encoder output plain and indented, byte mutations and truncations of it, grammar-directed RDF/JSON documents with local deviations (wrong value kinds, missing/duplicate/unknown keys, empty lang/datatype, rdf:langString / rdf:dirLangString datatypes, empty blank-node labels, extra commas, comments, trailing garbage) x tokenizer strict/lax/emit-whitespace x offset capture off/on/initial offset x reader chunking x failing reader (dec); non-trivial = more than one triple (enc, oracle), non-empty dataset or any deviating document (dec)")
	fs, err := vh.LoadFindings(*findings)
	if err != nil {
		fmt.Fprintln(os.Stderr, "findings:", err)
		os.Exit(2)
	}
	known := map[string]vh.Finding{}
	for _, p := range []string{"C01", "C05", "C06"} {
		for k, f := range vh.KnownKeys(fs, p) {
			known[k] = f
		}
	}
	g := &gen{r: vh.NewRng(seed), rep: rep, known: known}

	// flush runs the model on the protocol lines collected so far and compares
	flush := func() {
		if *nomodel || len(g.items) == 0 {
			g.items = g.items[:0]
			return
		}
		lines := make([]string, len(g.items))
		for i, it := range g.items {
			lines[i] = it.line
		}
		res, err := vh.Driver{Path: *driver}.RunParallel(lines)
		if err != nil {
			fmt.Fprintln(os.Stderr, err)
			os.Exit(2)
		}
		for i, it := range g.items {
			rep.Compared++
			goR := it.goR
			if strings.HasPrefix(goR, "panic:") { // the model has one panic outcome; the message stays in the report
				goR = "panic"
			}
			if res[i] == goR {
				continue
			}
			detail := it.kind + " model-line=" + clip(it.line, 600)
			if it.kind == "grammar" {
				rep.Count("violation:C01:not-grammatical")
				if rep.Hist["violation:C01:not-grammatical"] <= 5 {
					rep.Add(vh.Case{Kind: "violation", Op: it.op, Model: res[i], Detail: "C01: encoder output rejected by Spec.RJG.accepts — " + clip(it.line, 600)})
				}
				continue
			}
			if it.kind == "wn" {
				detail = "the real tokenizer produced a token stream that is not WellNested (assumption of rj_no_panic_legacy broken) — " + detail
			}
			rep.Count("disagreement:" + it.kind)
			if rep.Hist["disagreement:"+it.kind] <= 10 {
				rep.Add(vh.Case{Kind: "disagreement", Op: it.op, Go: clip(it.goR, 2000), Model: clip(res[i], 2000), Detail: detail})
			}
		}
		g.items = g.items[:0]
	}

	if *replay != "" {
		g.runHints(*replay)
		flush()
	} else {
		n := 12000 * *scale
		if *tier == "thorough" {
			n = 240000 * *scale
		}
		if *hints != "" {
			g.runHints(*hints)
		}
		g.fixedCases()
		flush()
		const batch = 4000
		for done := 0; done < n; done += batch {
			k := batch
			if n-done < k {
				k = n - done
			}
			if !*nomodel {
				g.encCases(4 * k)
			}
			g.decCases(k)
			g.oracle(4 * k)
			flush()
		}
	}

	if err := rep.Write(*out); err != nil {
		fmt.Fprintln(os.Stderr, err)
		os.Exit(2)
	}
	if *nomodel {
		fmt.Printf("c01rj (oracles only): %d evaluations, %d failures\n", rep.Evaluations, rep.Failures())
	} else {
		fmt.Printf("c01rj: %d evaluations, %d compared with the model, %d failures, %d known\n", rep.Evaluations, rep.Compared, rep.Failures(), len(rep.Cases)-rep.Failures())
	}
	if rep.Failures() > 0 {
		os.Exit(1)
	}
}

func clip(s string, n int) string {
	if len(s) > n {
		return s[:n] + "…"
	}
	return s
}
