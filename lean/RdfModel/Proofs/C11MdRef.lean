/-
  Proofs/C11MdRef — model side of the itemref refinement (part C11MD), fragment "PLAIN TARGETS" (Proofs/C11MdRefSpec):
  the decoder model emits exactly `Ref.swR` (at an item: link statements, rdf:type statements, the properties found
  in the subtrees its itemref tokens name — in token order, repeated tokens repeated —, then its children).
-/
import RdfModel.Proofs.C11MdRefSpec
import RdfModel.Proofs.C11MdNested
set_option linter.unusedSimpArgs false
set_option linter.unusedSectionVars false
namespace RdfModel.Mdd.Ref
open RdfModel RdfModel.Desc RdfModel.Spec.Html RdfModel.Spec.Microdata RdfModel.Mdd RdfModel.Mdd.Typed RdfModel.Mdd.Stream
  RdfModel.Mdd.Nested

/-! ## `Document.GetNodesByID` on the embedded document -/

theorem firstId_append (l1 l2 : List Attr) :
    firstIdAttr (l1 ++ l2) = (match firstIdAttr l1 with | some v => some v | none => firstIdAttr l2) := by
  induction l1 with
  | nil => rfl
  | cons a l1 ih =>
    simp only [List.cons_append, firstIdAttr]
    split
    · rfl
    · exact ih

theorem firstId_opt (key : String) (v : Option Str) :
    firstIdAttr (optAttr key v) = if asc key = kId then v else none := by
  cases v <;> simp [optAttr, firstIdAttr]

theorem firstId_scope (b : Bool) : firstIdAttr (if b then [(⟨[], asc "itemscope", []⟩ : Attr)] else []) = none := by
  have : ¬ asc "itemscope" = kId := by decide
  cases b <;> simp [firstIdAttr, this]

theorem firstId_attrsOf (a : Attrs) : firstIdAttr (attrsOf a) = a.id := by
  unfold attrsOf
  simp only [firstId_append, firstId_opt, firstId_scope]
  simp (config := { decide := true }) only [↓reduceIte]
  generalize a.id = o
  cases o <;> rfl

theorem hasId_elem (id : Str) (m : Nat) (atom : Bytes) (a : Attrs) (kids : List Node) :
    hasId id (.mk m 3 [] atom [] (attrsOf a) kids) = (a.id == some id) := by
  simp [hasId, Node.typ, Node.attrs, firstId_attrsOf]

mutual
theorem find_tree (id : Str) : ∀ (t : Tree) (m : Nat) (here : Path),
    (findIdNode id here t = none → (subnodes (relabelFrom m (ofSpec t)).1).find? (hasId id) = none) ∧
    (∀ q, findIdNode id here t = some q → ∃ rel t' m', q = here ++ rel ∧ nodeAt t rel = some t' ∧
      (subnodes (relabelFrom m (ofSpec t)).1).find? (hasId id) = some (relabelFrom m' (ofSpec t')).1)
  | .text s, m, here => by
    simp [findIdNode, ofSpec, relabelFrom, relabelL, subnodes, subnodesL, hasId, Node.typ]
  | .elem tag a ks, m, here => by
    have ih := find_kids id ks (m + 1) here 0
    simp only [findIdNode, ofSpec, relabelFrom, subnodes, List.find?_cons, hasId_elem]
    by_cases hid : a.id = some id
    · simp only [hid, ↓reduceIte, beq_self_eq_true]
      refine ⟨(by intro h; cases h), ?_⟩
      intro q hq
      simp only [Option.some.injEq] at hq
      subst hq
      exact ⟨[], .elem tag a ks, m, by simp, by simp [nodeAt], by simp [ofSpec, relabelFrom]⟩
    · have hb : (a.id == some id) = false := by simpa using hid
      simp only [hid, ↓reduceIte, hb]
      refine ⟨ih.1, ?_⟩
      intro q hq
      obtain ⟨j, rel, k, t', m', rfl, hk, hn, hf⟩ := ih.2 q hq
      refine ⟨j :: rel, t', m', by simp, ?_, hf⟩
      simp [nodeAt, kidAt_eq, hk, hn]
theorem find_kids (id : Str) : ∀ (ks : List Tree) (m : Nat) (here : Path) (i : Nat),
    (findIdKids id here i ks = none → (subnodesL (relabelL m (ofSpecL ks)).1).find? (hasId id) = none) ∧
    (∀ q, findIdKids id here i ks = some q → ∃ j rel k t' m', q = here ++ (i + j) :: rel ∧ ks[j]? = some k ∧
      nodeAt k rel = some t' ∧
      (subnodesL (relabelL m (ofSpecL ks)).1).find? (hasId id) = some (relabelFrom m' (ofSpec t')).1)
  | [], m, here, i => by simp [findIdKids, ofSpecL, relabelL, subnodesL]
  | k :: ks, m, here, i => by
    have ih1 := find_tree id k m (here ++ [i])
    have ih2 := find_kids id ks (relabelFrom m (ofSpec k)).2 here (i + 1)
    simp only [findIdKids, ofSpecL, relabelL, subnodesL, List.find?_append]
    cases hk : findIdNode id (here ++ [i]) k with
    | some p =>
      obtain ⟨rel, t', m', hp, hn, hf⟩ := ih1.2 p hk
      refine ⟨(by intro h; cases h), ?_⟩
      intro q hq
      simp only [Option.some.injEq] at hq
      subst hq
      exact ⟨0, rel, k, t', m', by simp [hp], by simp, hn, by simp [hf]⟩
    | none =>
      have h1 := ih1.1 hk
      simp only [h1, Option.none_or]
      refine ⟨ih2.1, ?_⟩
      intro q hq
      obtain ⟨j, rel, k', t', m', rfl, hk', hn, hf⟩ := ih2.2 q hq
      exact ⟨j + 1, rel, k', t', m', by simp [Nat.add_assoc, Nat.add_comm 1], by simpa using hk', hn, hf⟩
end

/-- `GetNodesByID` on the embedded, relabelled document agrees with the fragment's `findIdNode` -/
theorem findId_doc (doc : Tree) (id : Str) :
    (target doc id = none → findId (relabel (ofSpecDoc doc)) id = none) ∧
    (∀ q t, target doc id = some (q, t) → ∃ m', findId (relabel (ofSpecDoc doc)) id = some (relabelFrom m' (ofSpec t)).1) := by
  have hshape : relabel (ofSpecDoc doc) = .mk 0 2 [] [] [] [] [(relabelFrom 1 (ofSpec doc)).1] := by
    simp [relabel, ofSpecDoc, relabelFrom, relabelL]
  have hfind : findId (relabel (ofSpecDoc doc)) id = (subnodes (relabelFrom 1 (ofSpec doc)).1).find? (hasId id) := by
    rw [hshape]
    simp [findId, subnodes, subnodesL, hasId, Node.typ]
  have ht := find_tree id doc 1 []
  rw [hfind]
  constructor
  · intro h
    unfold target at h
    cases hq : findIdNode id [] doc with
    | none => exact ht.1 hq
    | some q =>
      obtain ⟨rel, t', m', hrel, hn, _⟩ := ht.2 q hq
      simp only [List.nil_append] at hrel
      subst hrel
      simp [hq, hn] at h
  · intro q t h
    obtain ⟨hq, hn⟩ := target_node doc id q t h
    obtain ⟨rel, t', m', hrel, hn', hf⟩ := ht.2 q hq
    simp only [List.nil_append] at hrel
    subst hrel
    rw [hn] at hn'
    cases hn'
    exact ⟨m', hf⟩

/-! ## subtrees inherit the fragment conditions -/

theorem nodeAt_ind (P : Tree → Prop) (hstep : ∀ tag a ks k, k ∈ ks → P (.elem tag a ks) → P k) :
    ∀ (q : Path) (doc t : Tree), nodeAt doc q = some t → P doc → P t := by
  intro q
  induction q with
  | nil => intro doc t h hp; rw [nodeAt_nil] at h; cases h; exact hp
  | cons i rest ih =>
    intro doc t h hp
    cases doc with
    | text s => simp [nodeAt] at h
    | elem tag a ks =>
      simp only [nodeAt, kidAt_eq] at h
      cases hk : ks[i]? with
      | none => simp [hk] at h
      | some k =>
        simp only [hk] at h
        exact ih k t h (hstep tag a ks k (List.mem_of_getElem? hk) hp)

theorem tokOkKids_mem (ks : List Tree) (k : Tree) (hk : k ∈ ks) (h : tokOkKids ks = true) : tokOk k = true := by
  induction ks with
  | nil => simp at hk
  | cons x xs ih =>
    simp only [tokOkKids, Bool.and_eq_true] at h
    rcases List.mem_cons.mp hk with rfl | hk
    · exact h.1
    · exact ih hk h.2

theorem inFragmentKids_mem (ks : List Tree) (k : Tree) (hk : k ∈ ks) (h : inFragmentKids ks = true) : inFragment k = true := by
  induction ks with
  | nil => simp at hk
  | cons x xs ih =>
    simp only [inFragmentKids, Bool.and_eq_true] at h
    rcases List.mem_cons.mp hk with rfl | hk
    · exact h.1
    · exact ih hk h.2

theorem heightL_mem (ks : List Tree) (k : Tree) (hk : k ∈ ks) : height (ofSpec k) ≤ heightL (ofSpecL ks) := by
  induction ks with
  | nil => simp at hk
  | cons x xs ih =>
    simp only [ofSpecL, heightL]
    rcases List.mem_cons.mp hk with rfl | hk
    · exact Nat.le_max_left _ _
    · exact Nat.le_trans (ih hk) (Nat.le_max_right _ _)

theorem sub_tokOk (doc t : Tree) (q : Path) (h : nodeAt doc q = some t) (hd : tokOk doc = true) : tokOk t = true :=
  nodeAt_ind (fun t => tokOk t = true) (by
    intro tag a ks k hk hp
    simp only [tokOk, Bool.and_eq_true] at hp
    exact tokOkKids_mem ks k hk hp.2) q doc t h hd

theorem sub_inFragment (doc t : Tree) (q : Path) (h : nodeAt doc q = some t) (hd : inFragment doc = true) :
    inFragment t = true :=
  nodeAt_ind (fun t => inFragment t = true) (by
    intro tag a ks k hk hp
    simp only [inFragment, Bool.and_eq_true] at hp
    exact inFragmentKids_mem ks k hk hp.2) q doc t h hd

theorem sub_height (doc t : Tree) (q : Path) (h : nodeAt doc q = some t) : height (ofSpec t) ≤ height (ofSpec doc) := by
  have := nodeAt_ind (fun t => ∀ H, height (ofSpec doc) ≤ H → height (ofSpec t) ≤ H) (by
    intro tag a ks k hk hp H hH
    have h1 := hp H hH
    have h2 := heightL_mem ks k hk
    simp only [ofSpec, height] at h1
    omega) q doc t h (fun H hH => hH)
  exact this _ (Nat.le_refl _)

/-! ## the walk over a plain subtree (an itemref target) -/

structure ResP (σ : Path → Nat) (stmts : List Tr) (st r : St) : Prop where
  out : r.out = (stmts.map (Triple.map σ)).reverse ++ st.out
  bn : r.nextBn = st.nextBn
  res : r.resolved = st.resolved
  hooks : r.hooks = st.hooks

mutual
theorem walk_plain (base : Str) (tm mm : List (Bytes → Option (Term Nat))) (hdec : Decline tm mm) (d : Node)
    (σ : Path → Nat) : ∀ (t : Tree) (f : Nat) (ctx : Ctx) (cur : Cur) (here : Path) (m : Nat) (st : St),
    height (ofSpec t) ≤ f → plain t = true → tokOk t = true → inFragment t = true → CtxRel σ ctx cur →
    ResP σ (propsOf base cur here t) st (walk (specEnv base tm mm) d f ctx (relabelFrom m (ofSpec t)).1 st)
  | .text s, f, ctx, cur, here, m, st, hf, _, _, _, _ => by
    obtain ⟨f', rfl⟩ : ∃ f', f = f' + 1 := ⟨f - 1, by simp [ofSpec, height, heightL] at hf; omega⟩
    have e0 : scanAttrs [] {} = ({} : ItemAttrs) := rfl
    simp only [ofSpec, relabelFrom, relabelL, walk_succ, walkStep, Node.ns, Node.attrs, Node.kids, e0, walkKidsWith,
      List.foldl_nil, propElem, ne_eq, not_true_eq_false, ↓reduceIte, Bool.false_eq_true, propsOf]
    exact ⟨rfl, rfl, rfl, rfl⟩
  | .elem tag a ks, f, ctx, cur, here, m, st, hf, hpl, htk, hif, hrel => by
    obtain ⟨f', rfl⟩ : ∃ f', f = f' + 1 := ⟨f - 1, by simp [ofSpec, height] at hf; omega⟩
    have hf' : heightL (ofSpecL ks) ≤ f' := by simp [ofSpec, height] at hf; omega
    simp only [plain, Bool.and_eq_true, Bool.not_eq_true', Option.isNone_iff_eq_none] at hpl
    simp only [tokOk, Bool.and_eq_true] at htk
    simp only [inFragment, Bool.and_eq_true] at hif
    have hs0 : a.itemscope = false := hpl.1.1
    have htokp : ∀ v, a.itemprop = some v → Mdd.fields (trimSpace v) = Spec.Html.fields v := by
      intro v hv; have := htk.1.1; rw [hv] at this; simpa using this
    have hmeter : tag = .meter → ∀ v, a.value = some v → ∀ f ∈ mm, f v = none := by
      intro ht v hv g hg
      subst ht
      have := hif.1; simp only [hv] at this
      exact hdec g (List.mem_append_right _ hg) v this
    have htime : tag = .time → ∀ v, a.datetime = some v → ∀ f ∈ tm, f v = none := by
      intro ht v hv g hg
      subst ht
      have := hif.1; simp only [hv] at this
      exact hdec g (List.mem_append_left _ hg) v this
    have htext : textContentL (relabelL (m + 1) (ofSpecL ks)).1 = textOfList ks := by
      rw [textL_relabel, textL_ofSpec]
    have hs : ¬ a.itemscope = true := by simp [hs0]
    simp only [ofSpec, relabelFrom, walk_succ, walkStep, Node.ns, Node.attrs, Node.kids, scan_attrsOf,
      ne_eq, not_true_eq_false, ↓reduceIte, propsOf]
    rw [if_neg hs, if_neg hs]
    rw [propElem_spec base tm mm σ ctx cur here m tag a ks _ hs0 htext hmeter htime htokp hrel _ rfl]
    have ih := walk_plains base tm mm hdec d σ ks f' ctx cur here 0 (m + 1)
      { st with steps := st.steps + 1,
                out := ((linkOf base cur here (.elem tag a ks)).map (Triple.map σ)).reverse ++ st.out }
      hf' hpl.2 htk.2 hif.2 hrel
    refine ⟨?_, ih.bn, ih.res, ih.hooks⟩
    rw [ih.out]; simp [List.map_append, List.reverse_append, List.append_assoc]
theorem walk_plains (base : Str) (tm mm : List (Bytes → Option (Term Nat))) (hdec : Decline tm mm) (d : Node)
    (σ : Path → Nat) : ∀ (ks : List Tree) (f : Nat) (ctx : Ctx) (cur : Cur) (here : Path) (i m : Nat) (st : St),
    heightL (ofSpecL ks) ≤ f → plainKids ks = true → tokOkKids ks = true → inFragmentKids ks = true → CtxRel σ ctx cur →
    ResP σ (propsOfKids base cur here i ks) st
      (walkKidsWith (walk (specEnv base tm mm) d f) ctx (relabelL m (ofSpecL ks)).1 st)
  | [], f, ctx, cur, here, i, m, st, _, _, _, _, _ => by
    simp only [ofSpecL, relabelL, walkKidsWith, List.foldl_nil, propsOfKids]
    exact ⟨rfl, rfl, rfl, rfl⟩
  | k :: ks, f, ctx, cur, here, i, m, st, hf, hpl, htk, hif, hrel => by
    simp only [plainKids, Bool.and_eq_true] at hpl
    simp only [tokOkKids, Bool.and_eq_true] at htk
    simp only [inFragmentKids, Bool.and_eq_true] at hif
    simp only [ofSpecL, heightL] at hf
    have h1 := walk_plain base tm mm hdec d σ k f ctx cur (here ++ [i]) m st (by omega) hpl.1 htk.1 hif.1 hrel
    have h2 := walk_plains base tm mm hdec d σ ks f ctx cur here (i + 1) (relabelFrom m (ofSpec k)).2
      (walk (specEnv base tm mm) d f ctx (relabelFrom m (ofSpec k)).1 st) (by omega) hpl.2 htk.2 hif.2 hrel
    simp only [ofSpecL, relabelL, walkKidsWith, List.foldl_cons, propsOfKids]
    unfold walkKidsWith at h2
    refine ⟨?_, by rw [h2.bn, h1.bn], by rw [h2.res, h1.res], by rw [h2.hooks, h1.hooks]⟩
    rw [h2.out, h1.out]; simp [List.map_append, List.reverse_append, List.append_assoc]
end

/-! ## an item with itemref -/

theorem visitItem_specR (base : Str) (tm mm : List (Bytes → Option (Term Nat))) (σ : Path → Nat)
    (w : Ctx → Node → St → St) (doc : Node) (ctx : Ctx) (cur : Cur) (here : Path) (m : Nat) (tag : Tag) (a : Attrs)
    (ks : List Tree) (kids' : List Node) (hs : a.itemscope = true)
    (hid : ∀ v, a.itemid = some v → trimSpace v = trimWs v)
    (htok : ∀ v, a.itemprop = some v → Mdd.fields (trimSpace v) = Spec.Html.fields v)
    (hrel : CtxRel σ ctx cur) (st0 : St) (hσ : σ here = st0.nextBn) (hun : lookupR st0.resolved m = none) :
    visitItem (specEnv base tm mm) w doc ctx (.mk m 3 [] (atomOf tag) [] (attrsOf a) kids')
        { itemid := a.itemid.getD [], itemprop := a.itemprop.getD [], itemref := a.itemref.getD [],
          itemscope := a.itemscope, itemtype := a.itemtype.getD [] } st0 =
      walkKidsWith w { ctx with subj := some (subjN base a st0.nextBn).1, types := typesOf a } kids'
        (if a.itemref.getD [] ≠ [] then
          itemrefsWith w doc { ctx with subj := some (subjN base a st0.nextBn).1, types := typesOf a }
            (.mk m 3 [] (atomOf tag) [] (attrsOf a) kids') (Mdd.fields (trimSpace (a.itemref.getD [])))
            { st0 with resolved := (m, (subjN base a st0.nextBn).1) :: st0.resolved, nextBn := (subjN base a st0.nextBn).2,
                       expansions := st0.expansions + 1,
                       out := ((typeStmts base a here).map (Triple.map σ)).reverse ++
                              (((linkOf base cur here (.elem tag a ks)).map (Triple.map σ)).reverse ++ st0.out) }
         else
            { st0 with resolved := (m, (subjN base a st0.nextBn).1) :: st0.resolved, nextBn := (subjN base a st0.nextBn).2,
                       expansions := st0.expansions + 1,
                       out := ((typeStmts base a here).map (Triple.map σ)).reverse ++
                              (((linkOf base cur here (.elem tag a ks)).map (Triple.map σ)).reverse ++ st0.out) }) := by
  have hnext : Term.map σ (subject base a here) = (subjN base a st0.nextBn).1.term :=
    subject_map base σ a here st0.nextBn hid hσ
  have hval : value base here (.elem tag a ks) = subject base a here := by simp [value, hs]
  have hout : (typesOf a).map (fun ty => (⟨(subjN base a st0.nextBn).1.term, Mdd.rdfType, .iri ty⟩ : Stmt)) =
      (typeStmts base a here).map (Triple.map σ) := by
    simp only [typeStmts, List.map_map]
    apply List.map_congr_left
    intro ty _
    simp only [Function.comp, Triple.map, hnext]
    rfl
  have hl' : (List.find? (fun e => e.1 == m) st0.resolved) = none := by
    unfold lookupR at hun
    split at hun
    · simp at hun
    · assumption
  unfold visitItem
  simp only [St.lookup, Node.id, hl']
  rw [itemSubject_spec base tm mm a _ rfl hid st0]
  have hlink := link_spec base tm mm σ ctx cur here tag a ks (subjN base a st0.nextBn).1.term (by rw [hval, hnext]) htok hrel
    { st0 with nextBn := (subjN base a st0.nextBn).2 }
  have hL : linkItem (specEnv base tm mm) ctx
      { itemid := a.itemid.getD [], itemprop := a.itemprop.getD [], itemref := a.itemref.getD [],
        itemscope := a.itemscope, itemtype := a.itemtype.getD [] } (subjN base a st0.nextBn).1
      { st0 with nextBn := (subjN base a st0.nextBn).2 } = _ := hlink
  rw [hL]
  unfold expandItem
  simp only [Node.kids, Node.id]
  have ht := types_spec base tm mm a (subjN base a st0.nextBn).1
  rw [ht]
  simp only [hout]

theorem plain_not_item (t : Tree) (m : Nat) (h : plain t = true) :
    (scanAttrs (relabelFrom m (ofSpec t)).1.attrs {}).itemscope = false := by
  cases t with
  | text s => simp [ofSpec, relabelFrom, Node.attrs, scanAttrs]
  | elem tag a ks =>
    simp only [plain, Bool.and_eq_true, Bool.not_eq_true'] at h
    simp [ofSpec, relabelFrom, Node.attrs, scan_attrsOf, h.1.1]

theorem itemrefs_spec (base : Str) (tm mm : List (Bytes → Option (Term Nat))) (hdec : Decline tm mm) (doc : Tree)
    (σ : Path → Nat) (htkD : tokOk doc = true) (hifD : inFragment doc = true) (f : Nat)
    (hK : height (ofSpec doc) ≤ f) (ctx : Ctx) (cur : T × List Str) (hrel : CtxRel σ ctx (some cur))
    (hrec : ctx.recursed = []) (n : Node) (hn : n ∈ subnodes (relabel (ofSpecDoc doc)))
    (hitem : (scanAttrs n.attrs {}).itemscope = true) :
    ∀ (toks : List Str), (∀ id ∈ toks, id ≠ [] ∧ ∀ qt, target doc id = some qt → plain qt.2 = true) → ∀ (S : St),
    ResP σ (refProps base doc cur toks) S
      (itemrefsWith (walk (specEnv base tm mm) (relabel (ofSpecDoc doc)) f) (relabel (ofSpecDoc doc)) ctx n toks S) := by
  intro toks
  induction toks with
  | nil => intro _ S; simp only [itemrefsWith, List.foldl_nil, refProps, List.flatMap_nil]; exact ⟨rfl, rfl, rfl, rfl⟩
  | cons ref rest ih =>
    intro htoks S
    obtain ⟨hne, hpl⟩ := htoks ref (by simp)
    have ih' := ih (fun id hid => htoks id (by simp [hid]))
    have h0 : ref.isEmpty = false := by cases ref <;> simp_all
    have hfd := findId_doc doc ref
    simp only [itemrefsWith, List.foldl_cons, refProps, List.flatMap_cons]
    have hstep : ResP σ (match target doc ref with | some qt => propsOf base (some cur) qt.1 qt.2 | none => []) S
        (itemrefStep (walk (specEnv base tm mm) (relabel (ofSpecDoc doc)) f) (relabel (ofSpecDoc doc)) ctx n S ref) := by
      unfold itemrefStep
      simp only [h0, Bool.false_eq_true, ↓reduceIte]
      cases htar : target doc ref with
      | none =>
        rw [hfd.1 htar]
        exact ⟨rfl, rfl, rfl, rfl⟩
      | some qt =>
        obtain ⟨q, t⟩ := qt
        obtain ⟨m', hf⟩ := hfd.2 q t htar
        rw [hf]
        simp only
        have hpt := hpl (q, t) htar
        obtain ⟨_, hnode⟩ := target_node doc ref q t htar
        have hneq : ¬ (relabelFrom m' (ofSpec t)).1.id = n.id := by
          intro heq
          have hmem := findId_mem hf
          have := nodup_map_inj Node.id _ (relabel_nodup (ofSpecDoc doc)) hmem hn heq
          have h1 := plain_not_item t m' hpt
          rw [this, hitem] at h1
          cases h1
        simp only [hneq, ↓reduceIte, hrec, List.contains_nil, Bool.false_eq_true]
        have hw := walk_plain base tm mm hdec (relabel (ofSpecDoc doc)) σ t f
          { ctx with recursed := [ref] } (some cur) q m' { S with copies := S.copies + 0 }
          (Nat.le_trans (sub_height doc t q hnode) hK) hpt (sub_tokOk doc t q hnode htkD) (sub_inFragment doc t q hnode hifD)
          (by
            cases hs : ctx.subj with
            | none => simp [CtxRel, hs] at hrel
            | some s => simp only [CtxRel, hs] at hrel ⊢; exact hrel)
        simp only [List.length_nil] at hw ⊢
        exact ⟨hw.out, hw.bn, hw.res, hw.hooks⟩
    have h2 := ih' (itemrefStep (walk (specEnv base tm mm) (relabel (ofSpecDoc doc)) f) (relabel (ofSpecDoc doc)) ctx n S ref)
    unfold itemrefsWith at h2
    unfold refProps at h2
    refine ⟨?_, by rw [h2.bn, hstep.bn], by rw [h2.res, hstep.res], by rw [h2.hooks, hstep.hooks]⟩
    rw [h2.out, hstep.out]
    simp only [List.map_append, List.reverse_append, List.append_assoc]
    rfl

/-! ## the walk over an embedded tree with itemref (plain targets) -/

mutual
/-- Go's tokenisation of every itemref agrees with HTML's -/
def tokOkRef : Tree → Bool
  | .text _ => true
  | .elem _ a ks =>
    (match a.itemref with | some v => Mdd.fields (trimSpace v) == Spec.Html.fields v | none => true) && tokOkRefKids ks
def tokOkRefKids : List Tree → Bool
  | [] => true
  | k :: ks => tokOkRef k && tokOkRefKids ks
end

mutual
theorem walk_treeR (base : Str) (tm mm : List (Bytes → Option (Term Nat))) (hdec : Decline tm mm) (doc : Tree)
    (σ : Path → Nat) (htkD : tokOk doc = true) (hifD : inFragment doc = true) :
    ∀ (t : Tree) (f : Nat) (ctx : Ctx) (cur : Cur) (here : Path) (m : Nat) (st : St),
    height (ofSpec t) + height (ofSpec doc) ≤ f → refsOk doc t = true → tokOk t = true → tokOkRef t = true →
    inFragment t = true → CtxRel σ ctx cur → ctx.recursed = [] → SOk σ here st.nextBn t →
    (∀ e ∈ st.resolved, e.1 < m) → (relabelFrom m (ofSpec t)).1 ∈ subnodes (relabel (ofSpecDoc doc)) →
    Res σ (swR base doc cur here t) (bnCount t) (relabelFrom m (ofSpec t)).2 st
      (walk (specEnv base tm mm) (relabel (ofSpecDoc doc)) f ctx (relabelFrom m (ofSpec t)).1 st)
  | .text s, f, ctx, cur, here, m, st, hf, _, _, _, _, _, _, _, hlt, _ => by
    obtain ⟨f', rfl⟩ : ∃ f', f = f' + 1 := ⟨f - 1, by simp [ofSpec, height, heightL] at hf; omega⟩
    have e0 : scanAttrs [] {} = ({} : ItemAttrs) := rfl
    simp only [ofSpec, relabelFrom, relabelL, walk_succ, walkStep, Node.ns, Node.attrs, Node.kids, e0, walkKidsWith,
      List.foldl_nil, propElem, ne_eq, not_true_eq_false, ↓reduceIte, Bool.false_eq_true, swR, bnCount]
    exact ⟨rfl, rfl, rfl, fun e he => Nat.lt_succ_of_lt (hlt e he)⟩
  | .elem tag a ks, f, ctx, cur, here, m, st, hf, hro, htk, htr, hif, hrel, hrec, hσ, hlt, hmem => by
    obtain ⟨f', rfl⟩ : ∃ f', f = f' + 1 := ⟨f - 1, by simp [ofSpec, height] at hf; omega⟩
    have hf' : heightL (ofSpecL ks) + height (ofSpec doc) ≤ f' := by simp [ofSpec, height] at hf; omega
    simp only [refsOk, Bool.and_eq_true, List.all_eq_true] at hro
    simp only [tokOk, Bool.and_eq_true] at htk
    simp only [tokOkRef, Bool.and_eq_true] at htr
    simp only [inFragment, Bool.and_eq_true] at hif
    have htokp : ∀ v, a.itemprop = some v → Mdd.fields (trimSpace v) = Spec.Html.fields v := by
      intro v hv; have := htk.1.1; rw [hv] at this; simpa using this
    have hid : ∀ v, a.itemid = some v → trimSpace v = trimWs v := by
      intro v hv; have := htk.1.2; rw [hv] at this; simpa using this
    have hmeter : tag = .meter → ∀ v, a.value = some v → ∀ f ∈ mm, f v = none := by
      intro ht v hv g hg
      subst ht
      have := hif.1; simp only [hv] at this
      exact hdec g (List.mem_append_right _ hg) v this
    have htime : tag = .time → ∀ v, a.datetime = some v → ∀ f ∈ tm, f v = none := by
      intro ht v hv g hg
      subst ht
      have := hif.1; simp only [hv] at this
      exact hdec g (List.mem_append_left _ hg) v this
    have htext : textContentL (relabelL (m + 1) (ofSpecL ks)).1 = textOfList ks := by
      rw [textL_relabel, textL_ofSpec]
    have hkidsmem : ∀ k' ∈ (relabelL (m + 1) (ofSpecL ks)).1, k' ∈ subnodes (relabel (ofSpecDoc doc)) := by
      intro k' hk'
      simp only [ofSpec, relabelFrom] at hmem
      exact kid_sub hmem (by simpa [Node.kids] using hk')
    simp only [ofSpec, relabelFrom, walk_succ, walkStep, Node.ns, Node.attrs, Node.kids, scan_attrsOf,
      ne_eq, not_true_eq_false, ↓reduceIte, swR, bnCount]
    by_cases hs : a.itemscope = true
    · -- an item
      rw [if_pos hs, if_pos hs]
      rw [visitItem_specR base tm mm σ (walk (specEnv base tm mm) (relabel (ofSpecDoc doc)) f') (relabel (ofSpecDoc doc))
        ctx cur here m tag a ks _ hs hid htokp hrel { st with steps := st.steps + 1 } (sok_here hσ)
        (lookupR_none_of_lt _ _ hlt)]
      -- the state after the itemref loop
      have hrefs : ResP σ (refProps base doc (subject base a here, typesOf a) (refsOf a))
          { st with steps := st.steps + 1, resolved := (m, (subjN base a st.nextBn).1) :: st.resolved,
                    nextBn := (subjN base a st.nextBn).2, expansions := st.expansions + 1,
                    out := ((typeStmts base a here).map (Triple.map σ)).reverse ++
                           (((linkOf base cur here (.elem tag a ks)).map (Triple.map σ)).reverse ++ st.out) }
          (if a.itemref.getD [] ≠ [] then
            itemrefsWith (walk (specEnv base tm mm) (relabel (ofSpecDoc doc)) f') (relabel (ofSpecDoc doc))
              { ctx with subj := some (subjN base a st.nextBn).1, types := typesOf a }
              (.mk m 3 [] (atomOf tag) [] (attrsOf a) (relabelL (m + 1) (ofSpecL ks)).1)
              (Mdd.fields (trimSpace (a.itemref.getD [])))
              { st with steps := st.steps + 1, resolved := (m, (subjN base a st.nextBn).1) :: st.resolved,
                        nextBn := (subjN base a st.nextBn).2, expansions := st.expansions + 1,
                        out := ((typeStmts base a here).map (Triple.map σ)).reverse ++
                               (((linkOf base cur here (.elem tag a ks)).map (Triple.map σ)).reverse ++ st.out) }
           else
              { st with steps := st.steps + 1, resolved := (m, (subjN base a st.nextBn).1) :: st.resolved,
                        nextBn := (subjN base a st.nextBn).2, expansions := st.expansions + 1,
                        out := ((typeStmts base a here).map (Triple.map σ)).reverse ++
                               (((linkOf base cur here (.elem tag a ks)).map (Triple.map σ)).reverse ++ st.out) }) := by
        cases hv : a.itemref with
        | none => simp only [Option.getD_none, ne_eq, not_true_eq_false, ↓reduceIte, refsOf, hv, refProps, List.flatMap_nil]
                  exact ⟨rfl, rfl, rfl, rfl⟩
        | some v =>
          by_cases hv0 : v = []
          · subst hv0
            simp only [Option.getD_some, ne_eq, not_true_eq_false, ↓reduceIte, refsOf, hv, fields_nil, refProps,
              List.flatMap_nil]
            exact ⟨rfl, rfl, rfl, rfl⟩
          · have htokr : Mdd.fields (trimSpace v) = Spec.Html.fields v := by
              have := htr.1; rw [hv] at this; simpa using this
            simp only [Option.getD_some, ne_eq, hv0, not_false_eq_true, ↓reduceIte, htokr]
            have hR : refsOf a = Spec.Html.fields v := by simp [refsOf, hv]
            rw [hR]
            apply itemrefs_spec base tm mm hdec doc σ htkD hifD f' (by omega)
              { ctx with subj := some (subjN base a st.nextBn).1, types := typesOf a } (subject base a here, typesOf a)
              (by simp [CtxRel, subject_map base σ a here st.nextBn hid (sok_here hσ)]) hrec _
              (by simpa [ofSpec, relabelFrom] using hmem) (by simp [Node.attrs, scan_attrsOf, hs])
            intro id hidm
            refine ⟨fields_ne v id hidm, ?_⟩
            intro qt hqt
            have := hro.1 id (by rw [hR]; exact hidm)
            rw [hqt] at this
            exact this
      generalize hS2 : (if a.itemref.getD [] ≠ [] then _ else _ : St) = S2 at hrefs
      have hsk := sok_kids hσ
      have ih := walk_treesR base tm mm hdec doc σ htkD hifD ks f'
        { ctx with subj := some (subjN base a st.nextBn).1, types := typesOf a }
        (some (subject base a here, typesOf a)) here 0 (m + 1) S2
        hf' hro.2 htk.2 htr.2 hif.2
        (by simp [CtxRel, subject_map base σ a here st.nextBn hid (sok_here hσ)]) hrec
        (by rw [hrefs.bn]; simp only [subjN_snd base a st.nextBn hs]; exact hsk)
        (by
          rw [hrefs.res]
          intro e he
          simp only [List.mem_cons] at he
          rcases he with rfl | he
          · simp
          · exact Nat.lt_succ_of_lt (hlt e he))
        hkidsmem
      refine ⟨?_, ?_, ?_, ih.lt⟩
      · rw [ih.out, hrefs.out]; simp [List.map_append, List.reverse_append, List.append_assoc]
      · rw [ih.bn, hrefs.bn]; simp only [subjN_snd base a st.nextBn hs]; omega
      · rw [ih.hooks, hrefs.hooks]
    · -- not an item
      have hs0 : a.itemscope = false := by simpa using hs
      rw [if_neg hs, if_neg hs]
      rw [propElem_spec base tm mm σ ctx cur here m tag a ks _ hs0 htext hmeter htime htokp hrel _ rfl]
      have hsk := sok_kids hσ
      have hself : selfBn a = 0 := by simp [selfBn, hs0]
      rw [hself, Nat.add_zero] at hsk
      have ih := walk_treesR base tm mm hdec doc σ htkD hifD ks f' ctx cur here 0 (m + 1)
        { st with steps := st.steps + 1,
                  out := ((linkOf base cur here (.elem tag a ks)).map (Triple.map σ)).reverse ++ st.out }
        hf' hro.2 htk.2 htr.2 hif.2 hrel hrec hsk (fun e he => Nat.lt_succ_of_lt (hlt e he)) hkidsmem
      refine ⟨?_, ?_, ?_, ih.lt⟩
      · rw [ih.out]; simp [List.map_append, List.reverse_append, List.append_assoc]
      · rw [ih.bn, hself]; simp
      · rw [ih.hooks]
theorem walk_treesR (base : Str) (tm mm : List (Bytes → Option (Term Nat))) (hdec : Decline tm mm) (doc : Tree)
    (σ : Path → Nat) (htkD : tokOk doc = true) (hifD : inFragment doc = true) :
    ∀ (ks : List Tree) (f : Nat) (ctx : Ctx) (cur : Cur) (here : Path) (i m : Nat) (st : St),
    heightL (ofSpecL ks) + height (ofSpec doc) ≤ f → refsOkKids doc ks = true → tokOkKids ks = true →
    tokOkRefKids ks = true → inFragmentKids ks = true → CtxRel σ ctx cur → ctx.recursed = [] →
    SOkK σ here i st.nextBn ks → (∀ e ∈ st.resolved, e.1 < m) →
    (∀ k' ∈ (relabelL m (ofSpecL ks)).1, k' ∈ subnodes (relabel (ofSpecDoc doc))) →
    Res σ (swRKids base doc cur here i ks) (bnCountL ks) (relabelL m (ofSpecL ks)).2 st
      (walkKidsWith (walk (specEnv base tm mm) (relabel (ofSpecDoc doc)) f) ctx (relabelL m (ofSpecL ks)).1 st)
  | [], f, ctx, cur, here, i, m, st, _, _, _, _, _, _, _, _, hlt, _ => by
    simp only [ofSpecL, relabelL, walkKidsWith, List.foldl_nil, swRKids, bnCountL]
    exact ⟨rfl, rfl, rfl, hlt⟩
  | k :: ks, f, ctx, cur, here, i, m, st, hf, hro, htk, htr, hif, hrel, hrec, hσ, hlt, hmem => by
    simp only [refsOkKids, Bool.and_eq_true] at hro
    simp only [tokOkKids, Bool.and_eq_true] at htk
    simp only [tokOkRefKids, Bool.and_eq_true] at htr
    simp only [inFragmentKids, Bool.and_eq_true] at hif
    simp only [ofSpecL, heightL] at hf
    simp only [ofSpecL, relabelL] at hmem
    have h1 := walk_treeR base tm mm hdec doc σ htkD hifD k f ctx cur (here ++ [i]) m st (by omega) hro.1 htk.1 htr.1
      hif.1 hrel hrec (sokK_head hσ) hlt (hmem _ (by simp))
    have h2 := walk_treesR base tm mm hdec doc σ htkD hifD ks f ctx cur here (i + 1) (relabelFrom m (ofSpec k)).2
      (walk (specEnv base tm mm) (relabel (ofSpecDoc doc)) f ctx (relabelFrom m (ofSpec k)).1 st) (by omega) hro.2 htk.2
      htr.2 hif.2 hrel hrec (by rw [h1.bn]; exact sokK_tail hσ) h1.lt (fun k' hk' => hmem k' (by simp [hk']))
    simp only [ofSpecL, relabelL, walkKidsWith, List.foldl_cons, swRKids, bnCountL]
    unfold walkKidsWith at h2
    refine ⟨?_, ?_, ?_, h2.lt⟩
    · rw [h2.out, h1.out]; simp [List.map_append, List.reverse_append, List.append_assoc]
    · rw [h2.bn, h1.bn]; omega
    · rw [h2.hooks, h1.hooks]
end

/-- the fragment of this file: every itemref token names nothing or a subtree without items and itemrefs; Go
    tokenises itemprop / itemid / itemref as HTML does; meter / time values are plain words -/
def RefFrag (doc : Tree) : Prop :=
  refsOk doc doc = true ∧ tokOk doc = true ∧ tokOkRef doc = true ∧ inFragment doc = true

theorem decode_ref (base : Str) (tm mm : List (Bytes → Option (Term Nat))) (hdec : Decline tm mm) (doc : Tree)
    (hfrag : RefFrag doc) :
    decode (specEnv base tm mm) (ofSpecDoc doc) = .ok ((swR base doc none [] doc).map (Triple.map (rank doc))) [] := by
  obtain ⟨hro, htk, htr, hif⟩ := hfrag
  have hbad := run_bad_none (specEnv base tm mm) (relabel (ofSpecDoc doc))
  have hh : height (relabel (ofSpecDoc doc)) = height (ofSpec doc) + 1 := by
    rw [relabel_height]; simp [ofSpecDoc, height, heightL]
  have hN : 2 ≤ (subnodes (relabel (ofSpecDoc doc))).length := by
    rw [relabel_size]
    have : 1 ≤ (subnodes (ofSpec doc)).length := by rw [subnodes_eq]; simp
    simp [ofSpecDoc, subnodes, subnodesL]; omega
  obtain ⟨f, hf, hfh⟩ : ∃ f, fuelFor (relabel (ofSpecDoc doc)) = f + 1 ∧
      height (ofSpec doc) + height (ofSpec doc) ≤ f := by
    have hmul : 3 * (height (relabel (ofSpecDoc doc)) + 1) ≤
        ((subnodes (relabel (ofSpecDoc doc))).length + 1) * (height (relabel (ofSpecDoc doc)) + 1) :=
      Nat.mul_le_mul_right _ (by omega)
    refine ⟨fuelFor (relabel (ofSpecDoc doc)) - 1, ?_, ?_⟩ <;> unfold fuelFor <;> omega
  have hshape : relabel (ofSpecDoc doc) = .mk 0 2 [] [] [] [] [(relabelFrom 1 (ofSpec doc)).1] := by
    simp [relabel, ofSpecDoc, relabelFrom, relabelL]
  have hmem : (relabelFrom 1 (ofSpec doc)).1 ∈ subnodes (relabel (ofSpecDoc doc)) := by
    rw [hshape]; exact kid_mem (by simp [Node.kids])
  have hw := walk_treeR base tm mm hdec doc (rank doc) htk hif doc f {} none [] 1 { steps := 1 } hfh hro htk htr hif
    (by simp [CtxRel]) rfl (by intro p; simp) (by intro e he; simp at he) hmem
  unfold decode finish
  rw [hbad]
  simp only
  unfold run
  rw [hf]
  have e0 : scanAttrs [] {} = ({} : ItemAttrs) := rfl
  have hrun : walk (specEnv base tm mm) (relabel (ofSpecDoc doc)) (f + 1) {} (relabel (ofSpecDoc doc)) {} =
      walk (specEnv base tm mm) (relabel (ofSpecDoc doc)) f {} (relabelFrom 1 (ofSpec doc)).1 { steps := 1 } := by
    conv => lhs; arg 5; rw [hshape]
    simp only [walk_succ, walkStep, Node.ns, Node.attrs, Node.kids, e0, walkKidsWith, List.foldl_cons, List.foldl_nil,
      propElem, ne_eq, not_true_eq_false, ↓reduceIte, Bool.false_eq_true]
  rw [hrun, hw.out, hw.hooks]
  simp

end RdfModel.Mdd.Ref
