/-
  Proofs.C02DocPlain — the Turtle statement machine on one `AddTriple` section, on the header
  directives, and on a whole plain document (property C02, `plain_doc_roundtrip`).
-/
import RdfModel.Proofs.C02DocSteps
namespace RdfModel.Proofs.C02Doc
open RdfModel RdfModel.Ttl RdfModel.TtlEnc RdfModel.C02 RdfModel.TtlDoc RdfModel.Desc

variable {C : Cfg} {T : Tables} {e : NQ.End}

/-- what the encoder writes after a term: a space or a line feed -/
def Follow (rest : List Nat) : Prop := ∃ r, rest = 0x20 :: r ∨ rest = 0x0a :: r

theorem follow_sp (r : List Nat) : Follow (0x20 :: r) := ⟨r, Or.inl rfl⟩
theorem follow_nl (r : List Nat) : Follow (0x0a :: r) := ⟨r, Or.inr rfl⟩

theorem follow_local (hT : TablesOK T) {rest : List Nat} (h : Follow rest) : LocalStop T e rest := by
  obtain ⟨r, rfl | rfl⟩ := h
  · exact localStop_sp hT r
  · exact localStop_nl hT r

theorem follow_label (hT : TablesOK T) {rest : List Nat} (h : Follow rest) : LabelStop T e rest := by
  obtain ⟨r, rfl | rfl⟩ := h
  · exact labelStop_sp hT r
  · exact labelStop_nl hT r

theorem follow_lang {rest : List Nat} (h : Follow rest) : LangStop e rest := by
  obtain ⟨r, rfl | rfl⟩ := h <;> simp only [LangStop] <;> decide

theorem follow_num {rest : List Nat} (h : Follow rest) : NumStop e rest := by
  obtain ⟨r, rfl | rfl⟩ := h <;> simp only [NumStop] <;> left <;> decide

theorem follow_head {rest : List Nat} (h : Follow rest) :
    ∃ c r, rest = c :: r ∧ c ≠ 0x40 ∧ c ≠ 0x5e ∧ c ≠ 0x22 := by
  obtain ⟨r, rfl | rfl⟩ := h
  · exact ⟨0x20, r, rfl, by decide, by decide, by decide⟩
  · exact ⟨0x0a, r, rfl, by decide, by decide, by decide⟩

variable {β : Type} {c : Ctx β} {base : Option (List Nat)}

/-- reading back what `writeIRI` wrote, in the three positions: the dispatch each scan function makes
    on the first rune picks the right producer -/
theorem written_cases (S : Setup C T c base) (env : Env) (henv : EnvOK env base c.pm) (v : List Nat)
    (hv : iriTermOK c base v) (w : Written) (hw : writeIRIForm c v = .ok w) (rest : List Nat) (hf : Follow rest) :
    (∃ p loc out, w = .pname p loc out ∧ labelSafe C.isSpace T p = true ∧
        iriPName C e env (p ++ 0x3a :: (out ++ rest)) = .ok v rest) ∨
    (∃ r, (w = .rel r ∨ w = .full r) ∧
        iriIRIREF C e env (0x3c :: (formatIRI T false r ++ 0x3e :: rest)) = .ok v rest) := by
  have hd := decode_writeIRI S.hT S.hC c S.cT base S.cb S.baseOK S.labels env henv v hv w hw e rest
    (follow_local S.hT.tok hf)
  cases w with
  | pname p loc out =>
    left
    refine ⟨p, loc, out, rfl, ?_, hd⟩
    -- the label is one of the manager's
    unfold writeIRIForm at hw
    cases hcl : compactLocal c.T c.pm v with
    | none =>
      rw [hcl] at hw
      simp only at hw
      split at hw
      · cases hw
      · split at hw <;> cases hw
    | some y =>
      obtain ⟨p', loc', out'⟩ := y
      rw [hcl] at hw
      simp only [Res.ok.injEq, Written.pname.injEq] at hw
      obtain ⟨rfl, rfl, rfl⟩ := hw
      unfold compactLocal at hcl
      cases hcp : Prefix.compact c.pm v with
      | none => rw [hcp] at hcl; cases hcl
      | some pr =>
        rw [hcp] at hcl
        simp only [Option.map_eq_some_iff, Prod.mk.injEq] at hcl
        obtain ⟨_, _, h1, _, _⟩ := hcl
        obtain ⟨m, hm, hmp, _⟩ := compactIn_spec v c.pm.ordered pr hcp
        rw [← h1, ← hmp]
        exact S.labels m hm
  | rel r => right; exact ⟨r, Or.inl rfl, hd⟩
  | full r => right; exact ⟨r, Or.inr rfl, hd⟩

theorem text_rel (r rest : List Nat) :
    (Written.rel r).text T ++ rest = 0x3c :: (formatIRI T false r ++ 0x3e :: rest) := by
  simp [Written.text]
theorem text_full (r rest : List Nat) :
    (Written.full r).text T ++ rest = 0x3c :: (formatIRI T false r ++ 0x3e :: rest) := by
  simp [Written.text]
theorem text_pname (p loc out rest : List Nat) :
    (Written.pname p loc out).text T ++ rest = p ++ 0x3a :: (out ++ rest) := by
  simp [Written.text]

/-! ### the three positions -/

theorem run_subject_term (S : Setup C T c base) (env : Env) (henv : EnvOK env base c.pm) (s : Term β)
    (hs : subjectOK c base s) (St : List Nat) (hS : writeSubject c s = .ok St) (x : Ectx) (K : List Frame) (k : Nat)
    (rest : List Nat) (hf : Follow rest) :
    Run C e (mk (⟨x, .statement⟩ :: K) (List.replicate k 0x0a ++ (St ++ rest)) env) []
      (mk (subjFrames x (dterm c.label s) K) rest env) := by
  cases s with
  | lit lex dt lang => cases hS
  | bnode b =>
    simp only [writeSubject, Res.ok.injEq] at hS
    subst hS
    have hl := S.lbl.ok b
    have := run_subject_bnode (e := e) S.hT S.hC x K k env (c.label b) rest hl.2 hl.1 (follow_label S.hT.tok hf)
    simpa [dterm, Term.map] using this
  | iri v =>
    simp only [writeSubject] at hS
    obtain ⟨w, hw, rfl⟩ := writeIRI_ok hS
    rw [S.cT]
    rcases written_cases (e := e) S env henv v hs w hw rest hf with ⟨p, loc, out, rfl, hp, h⟩ | ⟨r, hr, h⟩
    · rw [text_pname]
      exact run_subject_pname S.hT S.hC x K k env p out v rest hp h
    · rcases hr with rfl | rfl
      · rw [text_rel]; exact run_subject_iriref S.hC x K k env _ v rest h
      · rw [text_full]; exact run_subject_iriref S.hC x K k env _ v rest h

theorem run_pred_term (S : Setup C T c base) (env : Env) (henv : EnvOK env base c.pm) (p : List Nat)
    (hp : iriTermOK c base p) (Pt : List Nat) (hP : writePredicate c p = .ok Pt) (x : Ectx) (K : List Frame)
    (rest : List Nat) :
    ∃ ws, Lead ws ∧ Run C e (mk (⟨x, .polRequired⟩ :: K) (0x20 :: (Pt ++ 0x20 :: rest)) env) []
      (mk (predFrames x (.iri p) K) (ws ++ rest) env) := by
  unfold writePredicate at hP
  split at hP
  · next hty =>
    injection hP with hP
    subst hP hty
    exact ⟨[], lead_nil, by simpa [TtlEnc.rdfType, TtlDoc.rdfType, TtlEnc.rdfNS, TtlDoc.rdfNS] using run_pred_a S.hC x K env rest⟩
  · obtain ⟨w, hw, rfl⟩ := writeIRI_ok hP
    rw [S.cT]
    refine ⟨[0x20], lead_sp, ?_⟩
    rcases written_cases (e := e) S env henv p hp w hw (0x20 :: rest) (follow_sp rest) with ⟨q, loc, out, rfl, hq, h⟩ | ⟨r, hr, h⟩
    · rw [text_pname]
      exact run_pred_pname S.hT S.hC x K env q out p _ hq h
    · rcases hr with rfl | rfl
      · rw [text_rel]; exact run_pred_iriref S.hC x K env _ p _ h
      · rw [text_full]; exact run_pred_iriref S.hC x K env _ p _ h

theorem run_object_term (S : Setup C T c base) (env : Env) (henv : EnvOK env base c.pm) (o : Term β)
    (ho : objectOK c base o) (Ot : List Nat) (hO : writeObject c o = .ok Ot) (x : Ectx) (K : List Frame)
    (ws : List Nat) (hws : Lead ws) (rest : List Nat) (hf : Follow rest) :
    Run C e (mk (⟨x, .object⟩ :: K) (ws ++ (Ot ++ rest)) env) [mkStmt x (dterm c.label o)] (mk K rest env) := by
  cases o with
  | bnode b =>
    simp only [writeObject, Res.ok.injEq] at hO
    subst hO
    have hl := S.lbl.ok b
    have := run_obj_bnode (e := e) S.hT S.hC x K env ws (c.label b) rest hws hl.2 hl.1 (follow_label S.hT.tok hf)
    simpa [dterm, Term.map] using this
  | iri v =>
    simp only [writeObject] at hO
    obtain ⟨w, hw, rfl⟩ := writeIRI_ok hO
    rw [S.cT]
    rcases written_cases (e := e) S env henv v ho w hw rest hf with ⟨p, loc, out, rfl, hp, h⟩ | ⟨r, hr, h⟩
    · rw [text_pname]
      exact run_obj_pname S.hT S.hC x K env ws p out v rest hws hp h
    · rcases hr with rfl | rfl
      · rw [text_rel]; exact run_obj_iriref S.hC x K env ws _ v rest hws h
      · rw [text_full]; exact run_obj_iriref S.hC x K env ws _ v rest hws h
  | lit lex dt lang =>
    obtain ⟨hlex, hl⟩ := ho
    simp only [writeObject] at hO
    split at hO
    · next hsh =>
      -- bare token
      injection hO with hO
      subst hO
      have hnone : lang = none := by
        cases lang with
        | none => rfl
        | some t =>
          simp only at hl
          have hdt := C02.shorthand_datatypes dt lex hsh
          rw [hl.1] at hdt
          revert hdt; decide
      subst hnone
      by_cases hb : dt = xsdBoolean
      · subst hb
        exact run_obj_bool S.hC x K env ws lex rest hws hsh
      · exact run_obj_numeric S.hC x K env ws lex dt rest hws hsh hb (follow_num hf)
    · split at hO
      · next hdt =>
        -- rdf:langString
        injection hO with hO
        subst hO hdt
        cases lang with
        | none => simp only at hl; exact absurd rfl hl.1
        | some t =>
          simp only at hl
          rw [S.cT, List.append_assoc, List.cons_append]
          exact run_obj_lang S.hT S.hC x K env ws lex t rest hws hlex hl.2 (follow_lang hf)
      · next hnl =>
        cases lang with
        | some t => simp only at hl; exact absurd hl.1 hnl
        | none =>
          simp only at hl
          split at hO
          · next hstr =>
            injection hO with hO
            subst hO hstr
            obtain ⟨f, r, rfl, h1, h2, h3⟩ := follow_head hf
            rw [S.cT]
            exact run_obj_string S.hT S.hC x K env ws lex f r hws hlex h1 h2 h3
          · -- explicit datatype
            unfold Res.map Res.bind at hO
            cases hwd : writeIRI c dt with
            | err => rw [hwd] at hO; cases hO
            | panic => rw [hwd] at hO; cases hO
            | ok d =>
              rw [hwd] at hO
              injection hO with hO
              subst hO
              obtain ⟨w, hw, rfl⟩ := writeIRI_ok hwd
              rw [S.cT]
              have hgoal : ∀ dtText, dtText = w.text T →
                  (∃ c2 r2, dtText ++ rest = c2 :: r2 ∧
                    (if c2 = 0x3c then iriIRIREF C e env (c2 :: r2) else iriPName C e env (c2 :: r2)) = .ok dt rest) →
                  Run C e (mk (⟨x, .object⟩ :: K)
                    (ws ++ ((formatLiteralLexicalForm T false lex ++ 0x5e :: 0x5e :: dtText) ++ rest)) env)
                    [mkStmt x (dterm c.label (.lit lex dt none))] (mk K rest env) := by
                intro dtText _ h
                rw [List.append_assoc, List.cons_append, List.cons_append]
                exact run_obj_typed S.hT S.hC x K env ws lex dtText dt rest hws hlex ⟨hl.1, hl.2.1⟩ h
              apply hgoal _ rfl
              rcases written_cases (e := e) S env henv dt hl.2.2 w hw rest hf with ⟨p, loc, out, rfl, hp, h⟩ | ⟨r, hr, h⟩
              · rw [text_pname]
                obtain ⟨c0, r0, h0, _, hc0, _⟩ := pname_head S.hT S.hC hp (out ++ rest)
                refine ⟨c0, r0, h0, ?_⟩
                have n3c : c0 ≠ 0x3c := by
                  rcases hc0 with rfl | hb
                  · decide
                  · exact base_ne S.hT hb 0x3c (by decide) (by decide)
                rw [if_neg n3c, ← h0]
                exact h
              · refine ⟨0x3c, formatIRI T false r ++ 0x3e :: rest, ?_, by simpa using h⟩
                rcases hr with rfl | rfl
                · rw [text_rel]
                · rw [text_full]

end RdfModel.Proofs.C02Doc
