/-
  Proofs for part C10C: the prefix flag of the definition Create Term Definition STORES is the one of
  steps 14.2.5 and 25 evaluated on the inputs (link between `prefix_flag_spec` / `prefix_entry_spec` and
  the model's `ctdBody`).
-/
import RdfModel.Proofs.C10CtxFuel
namespace RdfModel.JLC
open RdfModel RdfModel.JL

variable {P : Type}

theorem Res.bind_eq_ok {α β : Type} {r : Res P α} {f : α → St P → Res P β} {b : β} {s' : St P}
    (h : r.bind f = .ok b s') : ∃ a s, r = .ok a s ∧ f a s = .ok b s' := by
  cases r <;> simp [Res.bind] at h
  exact ⟨_, _, rfl, h⟩

theorem Res.bind_eq_ok_iff {α β : Type} {r : Res P α} {f : α → St P → Res P β} {b : β} {s' : St P} :
    r.bind f = .ok b s' ↔ ∃ a s, r = .ok a s ∧ f a s = .ok b s' := by
  constructor
  · exact Res.bind_eq_ok
  · rintro ⟨a, s, rfl, h⟩
    exact h

theorem mget_mset_self {α : Type} (k : Str) (v : α) : ∀ (m : List (Str × α)), mget k (mset k v m) = some v
  | [] => by simp [mset, mget]
  | (k0, v0) :: r => by
    have ih := mget_mset_self k v r
    simp only [mset]
    split
    · simp [mget, List.lookup]
    · split
      · simp [mget, List.lookup]
      · rename_i hne _
        have : (k == k0) = false := by simpa using hne
        simp only [mget, List.lookup, this]
        simpa [mget] using ih

/-- steps 14.2.x for a definition with an `@id` string other than the term and not keyword-like: the step
    yields an IRI part whose prefix flag is the one of step 14.2.5 -/
theorem iriStep_str (mode : Mode) (expand : St P → Str → Bool → Res P SIri) (ctdCb : St P → Str → Res P Unit)
    (loc : List (Str × Json)) (term : Str) (vo : List (Str × Json)) (simple : Bool) (tm : Option SIri)
    (st st2 : St P) (ipo : Option IriPart) (i : Str)
    (h : iriStep mode expand ctdCb loc term vo simple tm st = .ok ipo st2)
    (hid : getKey kId vo = some (.str i)) (hne : i ≠ term)
    (hi : isKeyword i = true ∨ isKeywordForm i = false) :
    ∃ ip, ipo = some ip ∧ ip.pfx = prefixFlag145 mode term simple ip.iri := by
  unfold iriStep at h
  have hne' : (i == term) = false := by simpa using hne
  have hi' : (!isKeyword i && isKeywordForm i) = false := by
    rcases hi with hi | hi <;> simp [hi]
  simp only [hid, hne', Bool.false_eq_true, if_false, hi'] at h
  obtain ⟨e, st3, _, h⟩ := Res.bind_eq_ok h
  split at h
  · simp at h
  · obtain ⟨_, st4, _, h⟩ := Res.bind_eq_ok h
    simp only [Res.ok.injEq] at h
    exact ⟨_, h.1.symm, rfl⟩

/-- the prefix flag steps 14–18 leave behind: the one of step 14.2.5 for a definition with an `@id` string other
    than the term; `false` otherwise (`@id` null or equal to the term, no `@id`: steps 14.1, 15–18) -/
def basePfx (mode : Mode) (term : Str) (vo : List (Str × Json)) (simple : Bool) (iri : SIri) : Bool :=
  match getKey kId vo with
  | some (.str i) => if i == term then false else prefixFlag145 mode term simple iri
  | _ => false

/-- steps 15–18 (no usable `@id`): the prefix flag stays `false` -/
theorem iriStep_noid (mode : Mode) (expand : St P → Str → Bool → Res P SIri) (ctdCb : St P → Str → Res P Unit)
    (loc : List (Str × Json)) (term : Str) (vo : List (Str × Json)) (simple : Bool) (tm : Option SIri)
    (st st2 : St P) (ipo : Option IriPart)
    (h : iriStep mode expand ctdCb loc term vo simple tm st = .ok ipo st2)
    (hid : getKey kId vo = none ∨ ∃ i, getKey kId vo = some (.str i) ∧ (i == term) = true) :
    ∃ ip, ipo = some ip ∧ ip.pfx = false := by
  unfold iriStep at h
  rcases hid with hid | ⟨i, hid, heq⟩
  · simp only [hid] at h
    repeat' (first | (split at h) | (rw [Res.bind_eq_ok_iff] at h; obtain ⟨_, _, _, h⟩ := h))
    all_goals (first | (simp at h; done) | (simp only [Res.ok.injEq] at h; exact ⟨_, h.1.symm, rfl⟩))
  · simp only [hid, heq, if_true] at h
    repeat' (first | (split at h) | (rw [Res.bind_eq_ok_iff] at h; obtain ⟨_, _, _, h⟩ := h))
    all_goals (first | (simp at h; done) | (simp only [Res.ok.injEq] at h; exact ⟨_, h.1.symm, rfl⟩))

theorem iriStep_pfx (mode : Mode) (expand : St P → Str → Bool → Res P SIri) (ctdCb : St P → Str → Res P Unit)
    (loc : List (Str × Json)) (term : Str) (vo : List (Str × Json)) (simple : Bool) (tm : Option SIri)
    (st st2 : St P) (ipo : Option IriPart)
    (h : iriStep mode expand ctdCb loc term vo simple tm st = .ok ipo st2)
    (hi : ∀ i, getKey kId vo = some (.str i) → i ≠ term → isKeyword i = true ∨ isKeywordForm i = false) :
    ∃ ip, ipo = some ip ∧ ip.pfx = basePfx mode term vo simple ip.iri := by
  unfold basePfx
  cases hid : getKey kId vo with
  | none =>
    exact iriStep_noid mode expand ctdCb loc term vo simple tm st st2 ipo h (Or.inl hid)
  | some j =>
    cases j with
    | str i =>
      by_cases hne : i = term
      · have : (i == term) = true := by simpa using hne
        simp only [this, if_true]
        exact iriStep_noid mode expand ctdCb loc term vo simple tm st st2 ipo h (Or.inr ⟨i, hid, this⟩)
      · have hne' : (i == term) = false := by simpa using hne
        simp only [hne', Bool.false_eq_true, if_false]
        exact iriStep_str mode expand ctdCb loc term vo simple tm st st2 ipo i h hid hne (hi i hid hne)
    | null =>
      unfold iriStep at h
      simp only [hid] at h
      simp only [Res.ok.injEq] at h
      exact ⟨_, h.1.symm, rfl⟩
    | bool b => unfold iriStep at h; simp [hid] at h
    | int n => unfold iriStep at h; simp [hid] at h
    | dbl l => unfold iriStep at h; simp [hid] at h
    | arr xs => unfold iriStep at h; simp [hid] at h
    | obj ms => unfold iriStep at h; simp [hid] at h

/-- steps 22–26 as one `Except` block: when it succeeds the prefix step succeeded with that flag -/
theorem rest_ok {A B C : Type} (x : Except Err A) (y : Except Err B) (z : Except Err C) (w : Except Err Bool)
    (u : Except Err Unit) (a : A) (b : B) (c : C) (p : Bool)
    (h : (do
      let a ← x
      let b ← y
      let c ← z
      let p ← w
      u
      pure (a, b, c, p)) = Except.ok (a, b, c, p)) : w = .ok p := by
  cases x <;> cases y <;> cases z <;> cases w <;> cases u <;>
    simp [bind, Except.bind, pure, Except.pure] at h
  simp [h.2.2.2]

theorem equals_pfx_iri {d pd : TermDef} (h : d.equals pd = true) : pd.iri = d.iri ∧ pd.pfx = d.pfx := by
  unfold TermDef.equals at h
  simp only [Bool.and_eq_true, beq_iff_eq] at h
  exact ⟨h.1.1.1.1.1.1.1.1.1.1.symm, h.1.1.1.1.1.1.1.1.1.2.symm⟩

theorem isKeywordForm_kType : isKeywordForm kType = true := by decide

theorem prefix_flag_stored_aux (mode : Mode) (expand : St P → Str → Bool → Res P SIri) (ctdCb : St P → Str → Res P Unit)
    (nested : Context P → Json → Out (Context P)) (loc : List (Str × Json)) (st st' : St P) (term : Str)
    (baseStr : Option Str) (prot ov : Bool)
    (h : ctdBody mode expand ctdCb nested loc st term baseStr prot ov = .ok () st')
    (hnew : mget term st.defined = none) (hkf : isKeywordForm term = false)
    (value : Json) (vo : List (Str × Json)) (simple : Bool)
    (hv : getKey term loc = some value) (hn : normalizeValue value = .ok (vo, simple))
    (hrev : getKey kReverse vo = none)
    (hi : ∀ i, getKey kId vo = some (.str i) → i ≠ term → isKeyword i = true ∨ isKeywordForm i = false) :
    ∃ d, mget term st'.ctx.core.terms = some d ∧
      prefixStep mode term vo d.iri (basePfx mode term vo simple d.iri) = .ok d.pfx := by
  unfold ctdBody at h
  have hty : (term == kType) = false := by
    cases hk : term == kType with
    | false => rfl
    | true =>
      have : term = kType := by simpa using hk
      rw [this, isKeywordForm_kType] at hkf
      simp at hkf
  simp only [hnew, hv, hty, hkf, hn, hrev, Bool.false_eq_true, if_false] at h
  split at h
  · simp at h
  by_cases hk : isKeyword term = true
  · simp [hk] at h
  simp only [hk, Bool.false_eq_true, if_false] at h
  split at h
  · simp at h
  obtain ⟨tm, s1, _, h⟩ := Res.bind_eq_ok h
  obtain ⟨ipo, s2, hip, h⟩ := Res.bind_eq_ok h
  obtain ⟨ip, rfl, hpf⟩ := iriStep_pfx mode expand ctdCb loc term vo simple tm.1 s1 s2 ipo hip hi
  simp only at h
  split at h
  · simp at h
  split at h
  · simp at h
  obtain ⟨index, s3, _, h⟩ := Res.bind_eq_ok h
  obtain ⟨cx, s4, _, h⟩ := Res.bind_eq_ok h
  split at h
  · simp at h
  rename_i language direction nest pfx hrest
  have hps := rest_ok _ _ _ _ _ _ _ _ _ hrest
  split at h
  · simp at h
  rename_i d h27
  simp only [Res.ok.injEq, true_and] at h
  subst h
  refine ⟨d, mget_mset_self _ _ _, ?_⟩
  have hd : d.iri = ip.iri ∧ d.pfx = pfx := by
    split at h27
    · split at h27
      · split at h27
        · simp at h27
        · rename_i heq
          simp only [Except.ok.injEq] at h27
          subst h27
          have := equals_pfx_iri (by simpa using heq)
          exact this
      · simp only [Except.ok.injEq] at h27
        subst h27
        exact ⟨rfl, rfl⟩
    · simp only [Except.ok.injEq] at h27
      subst h27
      exact ⟨rfl, rfl⟩
  rw [hd.1, hd.2, ← hpf]
  exact hps

end RdfModel.JLC
