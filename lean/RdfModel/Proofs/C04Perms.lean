/-
  Proofs.C04Perms — admissible permutation enumerations: every longer prefix of the Go permuter's
  output agrees with the model's truncated enumeration wherever Go does not give up.
-/
import RdfModel.Props.C04Defs
namespace RdfModel.Proofs.C04
open RdfModel RdfModel.C04

set_option linter.unusedSectionVars false

variable {β : Type} [DecidableEq β]

theorem heapPermsFrom_stable : ∀ (n : Nat) (arr : List β) (c : List Nat),
    (Rdfcanon.heapPermsFrom n arr c).length < n →
    ∀ m, n ≤ m → Rdfcanon.heapPermsFrom m arr c = Rdfcanon.heapPermsFrom n arr c
  | 0, _, _, h, _, _ => by simp at h
  | n + 1, arr, c, h, m, hm => by
    obtain ⟨m', rfl⟩ : ∃ m', m = m' + 1 := ⟨m - 1, by omega⟩
    unfold Rdfcanon.heapPermsFrom at h ⊢
    cases hn : Rdfcanon.heapNext (arr.length + 1) arr c 0 with
    | none => rfl
    | some x =>
      obtain ⟨arr', c'⟩ := x
      simp only [hn, List.length_cons] at h ⊢
      rw [heapPermsFrom_stable n arr' c' (by omega) m' (by omega)]

/-- The untruncated-for-longer enumeration `heapPerms K` (any `K > maxPerm`) is admissible. -/
theorem permsAgree_heapPerms (maxPerm K : Nat) (hK : maxPerm < K) :
    PermsAgree maxPerm (Rdfcanon.heapPerms K : List β → List (List β)) := by
  intro l hl
  unfold Rdfcanon.heapPerms at hl ⊢
  exact heapPermsFrom_stable (maxPerm + 1) l _ (by omega) K (by omega)

end RdfModel.Proofs.C04
