/-
  Audit for the RDF/JSON leg of C01/C05/C06: axioms used by every theorem of Props/C01RJ.lean
  (expected: a subset of {propext, Classical.choice, Quot.sound}), and the round trip instantiated
  on the non-vacuity witness for both versions of the decoder.
-/
import RdfModel.Props.C01RJ
open RdfModel RdfModel.RJ RdfModel.C01RJ
open scoped List

#print axioms RdfModel.C01RJ.rdfjson_roundtrip
#print axioms RdfModel.C01RJ.rdfjson_roundtrip_run
#print axioms RdfModel.C01RJ.relabel_injective
#print axioms RdfModel.C01RJ.rdfjson_output_grammatical
#print axioms RdfModel.C01RJ.rj_no_panic
#print axioms RdfModel.C01RJ.rj_run_no_panic
#print axioms RdfModel.C01RJ.rj_no_panic_legacy
#print axioms RdfModel.C01RJ.rj_legacy_panics
#print axioms RdfModel.C01RJ.rj_legacy_panics_member
#print axioms RdfModel.C01RJ.rj_idx_inv
#print axioms RdfModel.C01RJ.rj_latch
#print axioms RdfModel.C01RJ.rj_accessor
#print axioms RdfModel.C01RJ.rj_run_closed_form
#print axioms RdfModel.C01RJ.rj_emits_wf
#print axioms RdfModel.C01RJ.rj_yields_wf
#print axioms RdfModel.C01RJ.legacy_empty_lang
#print axioms RdfModel.C01RJ.legacy_langString_datatype
#print axioms RdfModel.C01RJ.legacy_empty_datatype
#print axioms RdfModel.C01RJ.legacy_dirLangString
#print axioms RdfModel.C01RJ.Witness.wf
#print axioms RdfModel.C01RJ.Witness.labels_nonempty

/-- The round trip on the witness dataset, for the repaired and the unrepaired decoder. -/
theorem RdfModel.C01RJ.Witness.roundtrip (v : Variant) :
    ∃ out, run v (encodeTokens (addAll Witness.label Witness.triples)) .eof = .finished out none ∧
      out ~ Witness.triples.map (relabel Witness.label) :=
  rdfjson_roundtrip_run v Witness.label Witness.labels_nonempty Witness.triples Witness.wf

#print axioms RdfModel.C01RJ.Witness.roundtrip

/-- …and evaluated: the statements come back grouped by subject key (`_:b0` < `_:b1` < `h:s`). -/
example : run .current (encodeTokens (addAll Witness.label Witness.triples)) .eof
    = .finished
        [ ⟨.bnode (.named [0x62, 0x30]), .iri [0x70], .bnode (.named [0x62, 0x31])⟩,
          ⟨.bnode (.named [0x62, 0x30]), .iri [0x70], .lit [] [0x68, 0x3a, 0x64] none⟩,
          ⟨.bnode (.named [0x62, 0x30]), .iri [0x70], .bnode (.named [0x62, 0x31])⟩,
          ⟨.bnode (.named [0x62, 0x31]), .iri [0x71], .lit [0x78] rdfLangString (some [0x65, 0x6e, 0x2d, 0x55, 0x53])⟩,
          ⟨.iri [0x68, 0x3a, 0x73], .iri [0x70], .lit [0x22, 0x5c, 0x0a, 0x85, 0x1F41B] xsdString none⟩ ] none := by
  decide
