package main

// The implementation side: /repo's JSON-LD decoder and encoder, run in-process, no network.

import (
	"bytes"
	"context"
	"encoding/hex"
	"errors"
	"fmt"
	"runtime/debug"
	"strconv"
	"strings"
	"sync/atomic"

	"verifharness/vh"

	"github.com/dpb587/rdfkit-go/encoding/jsonld"
	"github.com/dpb587/rdfkit-go/encoding/jsonld/jsonldtype"
	"github.com/dpb587/rdfkit-go/iri"
	"github.com/dpb587/rdfkit-go/rdf"
	"github.com/dpb587/rdfkit-go/rdf/blanknodes"
)

// loaderCalls counts attempts of the decoder to dereference anything. The loader always fails:
// nothing in this harness may fetch (the decoder's default loader fails as well; this one is
// explicit so that an attempt is visible in the evidence).
var loaderCalls atomic.Int64

var refusingLoader = jsonldtype.DocumentLoaderFunc(func(ctx context.Context, url string, opts jsonldtype.DocumentLoaderOptions) (jsonldtype.RemoteDocument, error) {
	loaderCalls.Add(1)
	return jsonldtype.RemoteDocument{}, errors.New("c10 harness: document loading is disabled")
})

type decResult struct {
	quads    []rdf.Quad
	err      error
	panicked string // first /repo frame + message when the decoder panicked
}

// panicSite extracts "file.go:line" of the first frame inside the repository from a stack trace.
func panicSite(stack string) string {
	for _, l := range strings.Split(stack, "\n") {
		l = strings.TrimSpace(l)
		if i := strings.Index(l, "/encoding/jsonld/"); i >= 0 && strings.Contains(l, ".go:") {
			s := l[i+1:]
			if j := strings.IndexByte(s, ' '); j >= 0 {
				s = s[:j]
			}
			return s
		}
	}
	return "?"
}

func goDecode(doc []byte, mode11 bool, base string) (res decResult) {
	defer func() {
		if r := recover(); r != nil {
			res.panicked = fmt.Sprintf("%s: %v", panicSite(string(debug.Stack())), r)
		}
	}()
	cfg := jsonld.DecoderConfig{}.SetDocumentLoader(refusingLoader)
	if mode11 {
		cfg = cfg.SetProcessingMode("json-ld-1.1")
	} else {
		cfg = cfg.SetProcessingMode("json-ld-1.0")
	}
	if base != "" {
		cfg = cfg.SetDefaultBase(base)
	}
	d, err := jsonld.NewDecoder(bytes.NewReader(doc), cfg)
	if err != nil {
		res.err = err
		return
	}
	for d.Next() {
		res.quads = append(res.quads, d.Quad())
	}
	res.err = d.Err()
	return
}

// ---------------------------------------------------------------- quads of the model

// modelQuads parses "S,P,O,G;…" with B<hex> / F<n> blank nodes into rdf.Quad values.
func modelQuads(s string) ([]rdf.Quad, error) {
	if s == "-" {
		return nil, nil
	}
	f := rdf.NewBlankNodeFactory()
	nodes := map[string]rdf.BlankNode{}
	bn := func(k string) rdf.BlankNode {
		if n, ok := nodes[k]; ok {
			return n
		}
		n := f.NewBlankNode()
		nodes[k] = n
		return n
	}
	unhex := func(h string) (string, error) {
		b, err := hex.DecodeString(h)
		return string(b), err
	}
	term := func(tok string) (rdf.Term, error) {
		if tok == "-" {
			return nil, nil
		}
		switch tok[0] {
		case 'I':
			v, err := unhex(tok[1:])
			return rdf.IRI(v), err
		case 'B', 'F':
			return bn(tok), nil
		case 'L':
			p := strings.Split(tok[1:], ".")
			if len(p) != 3 {
				return nil, fmt.Errorf("literal token %q", tok)
			}
			lex, e1 := unhex(p[0])
			dt, e2 := unhex(p[1])
			if e1 != nil || e2 != nil {
				return nil, fmt.Errorf("literal token %q", tok)
			}
			l := rdf.Literal{LexicalForm: lex, Datatype: rdf.IRI(dt)}
			if p[2] != "-" {
				lang, err := unhex(p[2])
				if err != nil {
					return nil, err
				}
				l.Tag = rdf.LanguageLiteralTag{Language: lang}
			}
			return l, nil
		}
		return nil, fmt.Errorf("term token %q", tok)
	}
	var out []rdf.Quad
	for _, qs := range strings.Split(s, ";") {
		p := strings.Split(qs, ",")
		if len(p) != 4 {
			return nil, fmt.Errorf("quad %q", qs)
		}
		var ts [4]rdf.Term
		for i := range p {
			t, err := term(p[i])
			if err != nil {
				return nil, err
			}
			ts[i] = t
		}
		q := rdf.Quad{}
		var ok1, ok2, ok3 bool
		q.Triple.Subject, ok1 = ts[0].(rdf.SubjectValue)
		q.Triple.Predicate, ok2 = ts[1].(rdf.PredicateValue)
		q.Triple.Object, ok3 = ts[2].(rdf.ObjectValue)
		if !ok1 || !ok2 || !ok3 {
			return nil, fmt.Errorf("quad %q: term in a position RDF does not allow", qs)
		}
		if ts[3] != nil {
			g, ok := ts[3].(rdf.GraphNameValue)
			if !ok {
				return nil, fmt.Errorf("quad %q: graph name", qs)
			}
			q.GraphName = g
		}
		out = append(out, q)
	}
	return out, nil
}

// ---------------------------------------------------------------- datasets of the harness

// labelOf is the blank node labeller used everywhere: bnode i is "_:" + labelOf(i).
func labelOf(i int) string {
	if i < 0 {
		// the empty label (only drawn by the encoder stage, hypothesis lbl of encoder_roundtrip_natural_partial):
		// the StringProvider of the encoder is the caller's, nothing in /repo's API keeps it from answering ""
		return ""
	}
	if i == 0 {
		return "b" // a one-character label: boundary of the decoder's `len(s) > 2 && s[:2] == "_:"` tests
	}
	return "n" + strconv.Itoa(i)
}

func gquadsWire(qs []vh.GQuad) string {
	if len(qs) == 0 {
		return "-"
	}
	parts := make([]string, len(qs))
	for i, q := range qs {
		g := "-"
		if q.G != nil {
			g = q.G.Wire(labelOf)
		}
		parts[i] = q.S.Wire(labelOf) + "," + q.P.Wire(labelOf) + "," + q.O.Wire(labelOf) + "," + g
	}
	return strings.Join(parts, ";")
}

func gquadsRDF(qs []vh.GQuad) ([]rdf.Quad, *vh.BNTable) {
	tbl := vh.NewBNTable(labelOf)
	out := make([]rdf.Quad, len(qs))
	for i, q := range qs {
		out[i] = tbl.Quad(q)
	}
	return out, tbl
}

func showQuads(qs []rdf.Quad) string {
	labels := map[rdf.BlankNodeIdentifier]string{}
	bn := func(b rdf.BlankNode) string {
		if l, ok := labels[b.Identifier]; ok {
			return l
		}
		l := "g" + strconv.Itoa(len(labels))
		labels[b.Identifier] = l
		return l
	}
	var sb strings.Builder
	for i, q := range qs {
		if i > 0 {
			sb.WriteString(" ; ")
		}
		sb.WriteString(termText(q.Triple.Subject, bn) + " " + termText(q.Triple.Predicate, bn) + " " + termText(q.Triple.Object, bn))
		if q.GraphName != nil {
			sb.WriteString(" " + termText(q.GraphName, bn))
		}
	}
	return sb.String()
}

func termText(t rdf.Term, bn func(rdf.BlankNode) string) string {
	switch v := t.(type) {
	case rdf.IRI:
		return "<" + string(v) + ">"
	case rdf.BlankNode:
		return "_:" + bn(v)
	case rdf.Literal:
		s := strconv.Quote(v.LexicalForm)
		if tag, ok := v.Tag.(rdf.LanguageLiteralTag); ok {
			return s + "@" + tag.Language
		}
		return s + "^^<" + string(v.Datatype) + ">"
	}
	return fmt.Sprintf("?%v", t)
}

// ---------------------------------------------------------------- encoder

type encCfg struct {
	base     string // "" = none
	prefixes [][2]string
	buffered bool
}

func (c encCfg) wire() string {
	b := "-"
	if c.base != "" {
		b = vh.XS(c.base)
	}
	ps := "-"
	if len(c.prefixes) > 0 {
		parts := make([]string, len(c.prefixes))
		for i, p := range c.prefixes {
			parts[i] = hex.EncodeToString([]byte(p[0])) + "=" + hex.EncodeToString([]byte(p[1]))
		}
		ps = strings.Join(parts, ";")
	}
	return b + " " + ps + " " + vh.B01(c.buffered)
}

type encResult struct {
	doc      []byte
	err      error
	panicked string
}

func goEncode(cfg encCfg, quads []rdf.Quad, prov blanknodes.StringProvider) (res encResult) {
	defer func() {
		if r := recover(); r != nil {
			res.panicked = fmt.Sprintf("%s: %v", panicSite(string(debug.Stack())), r)
		}
	}()
	var buf bytes.Buffer
	ec := jsonld.EncoderConfig{}.SetBuffered(cfg.buffered).SetBlankNodeStringProvider(prov)
	if cfg.base != "" {
		ec = ec.SetBase(cfg.base)
	}
	if len(cfg.prefixes) > 0 {
		var pl iri.PrefixMappingList
		for _, p := range cfg.prefixes {
			pl = append(pl, iri.PrefixMapping{Prefix: p[0], Expanded: p[1]})
		}
		ec = ec.SetPrefixes(pl)
	}
	e, err := jsonld.NewEncoder(&buf, ec)
	if err != nil {
		res.err = fmt.Errorf("new: %w", err)
		return
	}
	for _, q := range quads {
		if err := e.AddQuad(context.Background(), q); err != nil {
			res.err = fmt.Errorf("add: %w", err)
			return
		}
	}
	if err := e.Close(); err != nil {
		res.err = fmt.Errorf("close: %w", err)
	}
	res.doc = buf.Bytes()
	return
}
