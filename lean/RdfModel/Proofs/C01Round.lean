/-
  Proofs.C01Round — term, statement and document level round trip.
-/
import RdfModel.Proofs.C01Scan
import RdfModel.Proofs.C01Enc
namespace RdfModel.Proofs.C01
open RdfModel RdfModel.NQ RdfModel.C01

variable {β : Type}

theorem captureTerm_sp (T : Tables) (hT : TablesOK T) (urlOk : List Nat → Bool) (e : End) (pos : Pos)
    (r : List Nat) :
    captureTerm T urlOk e pos false (0x20 :: r) = captureTerm T urlOk e pos false r := by
  simp [captureTerm, isSpace, hT.space_sp]

theorem captureTerm_iri (T : Tables) (hT : TablesOK T) (urlOk : List Nat → Bool) (e : End) (pos : Pos)
    (ascii : Bool) (v : List Nat) (hv : WFIri urlOk v) (rest : List Nat) :
    captureTerm T urlOk e pos false (writeIRI T ascii v ++ rest) = .ok (.iri v) rest := by
  simp only [writeIRI, List.cons_append, List.append_assoc, List.nil_append]
  simp [captureTerm, captureIRI_write T hT urlOk e ascii v hv rest]

theorem captureTerm_bnode (T : Tables) (hT : TablesOK T) (urlOk : List Nat → Bool) (e : End) (pos : Pos)
    (hpos : pos.bnode = true) (l : List Nat) (hl : labelOK T l = true) (rest : List Nat) :
    captureTerm T urlOk e pos false (0x5f :: 0x3a :: l ++ 0x20 :: rest)
      = .ok (.bnode l) (0x20 :: rest) := by
  simp only [List.cons_append]
  simp [captureTerm, hpos, captureBNode_write T hT e l rest hl]

theorem captureTerm_node (T : Tables) (hT : TablesOK T) (urlOk : List Nat → Bool) (e : End) (pos : Pos)
    (hpos : pos.bnode = true) (ascii : Bool) (label : β → List Nat) (hl : LabelsOK T label)
    (t : Term β) (ht : WFNode urlOk t) (rest : List Nat) :
    captureTerm T urlOk e pos false (nodeW T ascii label t ++ 0x20 :: rest)
      = .ok (t.map label) (0x20 :: rest) := by
  cases t with
  | iri v => exact captureTerm_iri T hT urlOk e pos ascii v ht _
  | bnode b => exact captureTerm_bnode T hT urlOk e pos hpos _ (hl.wf b) rest
  | lit l d t => exact ht.elim

theorem captureTerm_pred (T : Tables) (hT : TablesOK T) (urlOk : List Nat → Bool) (e : End) (pos : Pos)
    (ascii : Bool) (label : β → List Nat)
    (t : Term β) (ht : WFPredicate urlOk t) (rest : List Nat) :
    captureTerm T urlOk e pos false (nodeW T ascii label t ++ 0x20 :: rest)
      = .ok (t.map label) (0x20 :: rest) := by
  cases t with
  | iri v => exact captureTerm_iri T hT urlOk e pos ascii v ht _
  | bnode b => exact ht.elim
  | lit l d t => exact ht.elim

theorem xsd_ne_lang : xsdString ≠ rdfLangString := by decide

theorem captureTerm_lit (T : Tables) (hT : TablesOK T) (urlOk : List Nat → Bool) (e : End)
    (ascii : Bool) (lex dt : List Nat) (lang : Option (List Nat)) (h : WFLit urlOk lex dt lang)
    (rest : List Nat) :
    captureTerm T urlOk e posObject false (writeLiteral T ascii lex dt lang ++ 0x20 :: rest)
      = .ok (.lit lex dt lang) (0x20 :: rest) := by
  obtain ⟨hlex, hdt, hlang⟩ := h
  unfold writeLiteral
  simp only
  split
  · next hx =>
    subst hx
    have : lang = none := by
      cases lang with
      | none => rfl
      | some t => exact absurd hlang.1 xsd_ne_lang
    subst this
    simp only [List.cons_append, List.append_assoc, List.nil_append]
    simp [captureTerm, posObject, captureLiteral, scanLit_body T hT e ascii lex hlex,
      goString_id_of_scalar hlex]
  · next hx =>
    split
    · next hl =>
      subst hl
      cases lang with
      | none => exact absurd rfl hlang.1
      | some t =>
        simp only [List.cons_append, List.append_assoc, List.nil_append]
        simp [captureTerm, posObject, captureLiteral, scanLit_body T hT e ascii lex hlex,
          goString_id_of_scalar hlex, langPrimary_write e t rest hlang.2]
    · next hl =>
      have : lang = none := by
        cases lang with
        | none => rfl
        | some t => exact absurd hlang.1 hl
      subst this
      have hdir : ¬ dt = rdfDirLangString := hlang.2
      simp only [writeIRI, List.cons_append, List.append_assoc, List.nil_append]
      simp [captureTerm, posObject, captureLiteral, scanLit_body T hT e ascii lex hlex,
        goString_id_of_scalar hlex, captureIRI_write T hT urlOk e ascii dt hdt, hl, hdir]


theorem captureTerm_obj (T : Tables) (hT : TablesOK T) (urlOk : List Nat → Bool) (e : End)
    (ascii : Bool) (label : β → List Nat) (hl : LabelsOK T label)
    (t : Term β) (ht : WFObject urlOk t) (rest : List Nat) :
    captureTerm T urlOk e posObject false (objW T ascii label t ++ 0x20 :: rest)
      = .ok (t.map label) (0x20 :: rest) := by
  cases t with
  | iri v => exact captureTerm_iri T hT urlOk e _ ascii v ht _
  | bnode b => exact captureTerm_bnode T hT urlOk e _ rfl _ (hl.wf b) rest
  | lit l d t => exact captureTerm_lit T hT urlOk e ascii l d t ht rest

theorem afterObject_dot (T : Tables) (hT : TablesOK T) (e : End) (r : List Nat) :
    afterObject T e false (0x20 :: 0x2e :: r) = .ok none r := by
  simp [afterObject, isSpace, hT.space_sp]

theorem expectDot_dot (T : Tables) (hT : TablesOK T) (e : End) (r : List Nat) :
    expectDot T e false (0x20 :: 0x2e :: r) = .ok () r := by
  simp [expectDot, isSpace, hT.space_sp]

theorem afterObject_graph (T : Tables) (hT : TablesOK T) (e : End) (c : Nat) (r : List Nat)
    (hc : c = 0x3c ∨ c = 0x5f) :
    afterObject T e false (0x20 :: c :: r) = .ok (some (c :: r)) (c :: r) := by
  rcases hc with rfl | rfl
  · simp [afterObject, isSpace, hT.space_sp, hT.space_lt]
  · simp [afterObject, isSpace, hT.space_sp, hT.space_us]

/-- What the decoder returns for an encoded quad. -/
def outQuad (label : β → List Nat) (quads : Bool) (q : Quad β) : Quad (List Nat) :=
  if quads then q.map label else (Quad.dropGraph q).map label

theorem statement_write (T : Tables) (hT : TablesOK T) (urlOk : List Nat → Bool) (e : End)
    (ascii : Bool) (label : β → List Nat) (hl : LabelsOK T label) (quads : Bool)
    (q : Quad β) (h : WFQuad urlOk q) (rest : List Nat) :
    statement T urlOk e quads (quadBody T ascii label quads q ++ 0x0a :: rest)
      = .quad (outQuad label quads q) (0x0a :: rest) := by
  obtain ⟨s, p, o, g⟩ := q
  have hs := h.s; have hp := h.p; have ho := h.o; have hg := h.g
  simp only at hs hp ho hg
  unfold statement
  simp only [quadBody, List.append_assoc, List.cons_append, List.nil_append]
  obtain ⟨cs, rs, hcs, hcs'⟩ := nodeW_head T ascii label urlOk s hs
  have hskip : ∀ tl, skipToStmt T false (nodeW T ascii label s ++ tl)
      = some (nodeW T ascii label s ++ tl) := by
    intro tl
    rw [hcs]
    rcases hcs' with rfl | rfl
    · simp [skipToStmt, isSpace, hT.space_lt]
    · simp [skipToStmt, isSpace, hT.space_us]
  rw [hskip]
  simp only
  rw [captureTerm_node T hT urlOk e posSubject rfl ascii label hl s hs]
  simp only
  rw [captureTerm_sp T hT, captureTerm_pred T hT urlOk e posPredicate ascii label p hp]
  simp only
  rw [captureTerm_sp T hT]
  have hobj := captureTerm_obj T hT urlOk e ascii label hl o ho
  cases quads with
  | false =>
    have : graphW T ascii label false g = [] := by cases g <;> simp [graphW]
    simp only [this, List.nil_append, Bool.false_eq_true, if_false]
    rw [hobj]
    simp only
    rw [expectDot_dot T hT]
    simp [outQuad, Quad.map, Quad.dropGraph]
  | true =>
    simp only [if_true]
    cases g with
    | none =>
      simp only [graphW, List.nil_append]
      rw [hobj]
      simp only
      rw [afterObject_dot T hT]
      simp [outQuad, Quad.map]
    | some g =>
      have hg' := hg g rfl
      obtain ⟨c, r, hcr, hc⟩ := nodeW_head T ascii label urlOk g hg'
      have key := captureTerm_node T hT urlOk e posSubject rfl ascii label hl g hg'
        (0x2e :: 0x0a :: rest)
      simp only [graphW, if_true, List.cons_append]
      rw [hobj]
      simp only
      rw [hcr] at key ⊢
      simp only [List.cons_append] at key ⊢
      rw [afterObject_graph T hT e c _ hc]
      simp only
      rw [key]
      simp only
      rw [expectDot_dot T hT]
      simp [outQuad, Quad.map]


theorem statement_nil (T : Tables) (urlOk : List Nat → Bool) (quads : Bool) :
    statement T urlOk .eof quads [] = .done := by
  simp [statement, skipToStmt]

theorem encodeDoc_length (T : Tables) (urlOk : List Nat → Bool) (ascii : Bool)
    (label : β → List Nat) (quads : Bool) (qs : List (Quad β)) (hwf : ∀ q ∈ qs, WFQuad urlOk q) :
    qs.length ≤ (encodeDoc T ascii label quads qs).length := by
  induction qs with
  | nil => simp
  | cons q qs ih =>
    rw [encodeDoc_cons_wf T ascii label urlOk quads q qs (hwf q List.mem_cons_self)]
    have := ih (fun x hx => hwf x (List.mem_cons_of_mem _ hx))
    simp only [List.length_append, List.length_cons]
    omega

theorem runFuel_started (T : Tables) (hT : TablesOK T) (urlOk : List Nat → Bool) (ascii : Bool)
    (label : β → List Nat) (hl : LabelsOK T label) (quads : Bool) (qs : List (Quad β)) :
    ∀ fuel, qs.length + 1 ≤ fuel → (∀ q ∈ qs, WFQuad urlOk q) →
      runFuel T urlOk .eof quads fuel true (0x0a :: encodeDoc T ascii label quads qs)
        = (qs.map (outQuad label quads), .clean) := by
  induction qs with
  | nil =>
    intro fuel hf _
    obtain ⟨f, rfl⟩ : ∃ f, fuel = f + 1 := ⟨fuel - 1, by omega⟩
    simp [runFuel, next, toEOL, encodeDoc_nil, statement_nil]
  | cons q qs ih =>
    intro fuel hf hwf
    obtain ⟨f, rfl⟩ : ∃ f, fuel = f + 1 := ⟨fuel - 1, by omega⟩
    have hq := hwf q List.mem_cons_self
    rw [encodeDoc_cons_wf T ascii label urlOk quads q qs hq]
    rw [runFuel]
    have hn : next T urlOk .eof quads true
        (0x0a :: (quadBody T ascii label quads q ++ 0x0a :: encodeDoc T ascii label quads qs))
        = .quad (outQuad label quads q) (0x0a :: encodeDoc T ascii label quads qs) := by
      simp [next, toEOL, statement_write T hT urlOk .eof ascii label hl quads q hq]
    rw [hn]
    simp only
    rw [ih f (by simp at hf; omega) (fun x hx => hwf x (List.mem_cons_of_mem _ hx))]
    simp

theorem run_roundtrip (T : Tables) (hT : TablesOK T) (urlOk : List Nat → Bool) (ascii : Bool)
    (label : β → List Nat) (hl : LabelsOK T label) (quads : Bool) (qs : List (Quad β))
    (hwf : ∀ q ∈ qs, WFQuad urlOk q) :
    run T urlOk .eof quads (encodeDoc T ascii label quads qs)
      = (qs.map (outQuad label quads), .clean) := by
  unfold run
  cases qs with
  | nil => simp [encodeDoc_nil, runFuel, next, statement_nil]
  | cons q qs =>
    have hq := hwf q List.mem_cons_self
    have hwf' : ∀ x ∈ qs, WFQuad urlOk x := fun x hx => hwf x (List.mem_cons_of_mem _ hx)
    have hlen := encodeDoc_length T urlOk ascii label quads qs hwf'
    rw [encodeDoc_cons_wf T ascii label urlOk quads q qs hq]
    rw [runFuel]
    have hn : next T urlOk .eof quads false
        (quadBody T ascii label quads q ++ 0x0a :: encodeDoc T ascii label quads qs)
        = .quad (outQuad label quads q) (0x0a :: encodeDoc T ascii label quads qs) := by
      simp [next, statement_write T hT urlOk .eof ascii label hl quads q hq]
    rw [hn]
    simp only
    rw [runFuel_started T hT urlOk ascii label hl quads qs _
      (by simp only [List.length_append, List.length_cons]; omega) hwf']
    simp

end RdfModel.Proofs.C01
