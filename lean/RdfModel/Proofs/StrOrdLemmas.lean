/-
  Proofs.StrOrdLemmas — elementary facts about Model/StrOrd.lean: the code-point order is a total
  order, sorting is determined by the multiset, association-list bookkeeping, decimal numerals.
-/
import RdfModel.Model.StrOrd
namespace RdfModel.Proofs.StrOrd
open RdfModel

theorem strLe_refl : ∀ a : Str, strLe a a = true
  | [] => rfl
  | a :: as => by simp [strLe, strLe_refl as]

theorem strLe_total : ∀ a b : Str, strLe a b || strLe b a
  | [], _ => by simp [strLe]
  | _ :: _, [] => by simp [strLe]
  | a :: as, b :: bs => by
    unfold strLe
    by_cases h1 : a < b
    · simp [h1]
    · by_cases h2 : b < a
      · simp [h2]
      · have := strLe_total as bs
        simp [h1, h2]; simpa using this

theorem strLe_trans : ∀ a b c : Str, strLe a b = true → strLe b c = true → strLe a c = true
  | [], _, _, _, _ => by simp [strLe]
  | _ :: _, [], _, h, _ => by simp [strLe] at h
  | _ :: _, _ :: _, [], _, h => by simp [strLe] at h
  | a :: as, b :: bs, c :: cs, h1, h2 => by
    unfold strLe at h1 h2 ⊢
    by_cases hab : a < b
    · by_cases hbc : b < c
      · have : a < c := by omega
        simp [this]
      · by_cases hcb : c < b
        · simp [hbc, hcb] at h2
        · have : a < c := by omega
          simp [this]
    · by_cases hba : b < a
      · simp [hab, hba] at h1
      · have hab' : a = b := by omega
        subst hab'
        simp [hab] at h1
        by_cases hac : a < c
        · simp [hac]
        · by_cases hca : c < a
          · simp [hac, hca] at h2
          · simp [hac, hca] at h2 ⊢
            exact strLe_trans as bs cs h1 h2

theorem strLe_antisymm : ∀ a b : Str, strLe a b = true → strLe b a = true → a = b
  | [], [], _, _ => rfl
  | [], _ :: _, _, h => by simp [strLe] at h
  | _ :: _, [], h, _ => by simp [strLe] at h
  | a :: as, b :: bs, h1, h2 => by
    unfold strLe at h1 h2
    by_cases hab : a < b
    · have : ¬ b < a := by omega
      simp [hab, this] at h2
    · by_cases hba : b < a
      · simp [hab, hba] at h1
      · have : a = b := by omega
        subst this
        simp [hab] at h1 h2
        rw [strLe_antisymm as bs h1 h2]

theorem strLt_iff (a b : Str) : strLt a b = true ↔ strLe b a = false := by
  simp [strLt]

theorem strLt_irrefl (a : Str) : strLt a a = false := by simp [strLt, strLe_refl]

/-- `a < b` implies `a ≤ b`. -/
theorem strLe_of_strLt {a b : Str} (h : strLt a b = true) : strLe a b = true := by
  have := strLe_total a b
  simp [strLt] at h
  simpa [h] using this

theorem sortStr_pairwise (l : List Str) : (sortStr l).Pairwise (fun a b => strLe a b = true) :=
  List.pairwise_mergeSort (fun a b c => strLe_trans a b c) strLe_total l

theorem sortStr_perm (l : List Str) : (sortStr l).Perm l := List.mergeSort_perm l _

/-- Sorting depends only on the multiset. -/
theorem sortStr_eq_of_perm {l l' : List Str} (h : l.Perm l') : sortStr l = sortStr l' := by
  apply List.Perm.eq_of_pairwise (le := fun a b => strLe a b = true)
  · intro a b _ _ h1 h2; exact strLe_antisymm a b h1 h2
  · exact sortStr_pairwise l
  · exact sortStr_pairwise l'
  · exact (sortStr_perm l).trans (h.trans (sortStr_perm l').symm)

/-! ### association lists -/

variable {κ ν : Type} [DecidableEq κ]

theorem getList_addToMap (m : List (κ × List ν)) (k k' : κ) (v : ν) :
    getList (addToMap m k v) k' = if k = k' then getList m k' ++ [v] else getList m k' := by
  induction m with
  | nil =>
    by_cases h : k = k' <;> simp [addToMap, getList, h]
  | cons e rest ih =>
    obtain ⟨k0, vs⟩ := e
    by_cases h0 : k0 = k
    · subst h0
      by_cases h : k0 = k' <;> simp [addToMap, getList, h]
    · by_cases h : k = k'
      · subst h
        simp [addToMap, getList, h0, ih]
      · by_cases h1 : k0 = k'
        · subst h1
          have : ¬ k0 = k := h0
          simp [addToMap, getList, this, h]
        · simp [addToMap, getList, h0, h, h1, ih]

theorem keys_addToMap (m : List (κ × List ν)) (k : κ) (v : ν) :
    (addToMap m k v).map (·.1) = if k ∈ m.map (·.1) then m.map (·.1) else m.map (·.1) ++ [k] := by
  induction m with
  | nil => simp [addToMap]
  | cons e rest ih =>
    obtain ⟨k0, vs⟩ := e
    by_cases h0 : k0 = k
    · subst h0; simp [addToMap]
    · have h0' : ¬ k = k0 := fun h => h0 h.symm
      simp only [addToMap, h0, if_false, List.map_cons, ih, List.mem_cons, h0', false_or]
      split <;> simp

/-- Every value list of a map built with `addToMap` from non-empty lists is non-empty. -/
theorem addToMap_nonempty (m : List (κ × List ν)) (k : κ) (v : ν)
    (h : ∀ e ∈ m, e.2 ≠ []) : ∀ e ∈ addToMap m k v, e.2 ≠ [] := by
  induction m with
  | nil => intro e he; simp [addToMap] at he; subst he; simp
  | cons e0 rest ih =>
    obtain ⟨k0, vs⟩ := e0
    intro e he
    by_cases h0 : k0 = k
    · simp [addToMap, h0] at he
      rcases he with he | he
      · subst he; simp
      · exact h e (by simp [he])
    · simp [addToMap, h0] at he
      rcases he with he | he
      · exact h e (by simp [he])
      · exact ih (fun e he => h e (by simp [he])) e he

theorem assoc_append_of_none {ν' : Type} (l : List (κ × ν')) (k k' : κ) (v : ν') (h : assoc l k = none) :
    assoc (l ++ [(k, v)]) k' = if k = k' then some v else assoc l k' := by
  induction l with
  | nil => simp [assoc]
  | cons e rest ih =>
    obtain ⟨k0, v0⟩ := e
    by_cases h0 : k0 = k
    · simp [assoc, h0] at h
    · simp only [assoc, h0, if_false] at h
      by_cases h1 : k0 = k'
      · have : ¬ k = k' := fun hh => h0 (h1.trans hh.symm)
        simp [assoc, h1, this]
      · simp [assoc, h1, ih h]

/-! ### decimal numerals -/

/-- Value of a digit string. -/
def undec : Str → Nat → Nat
  | [], acc => acc
  | d :: ds, acc => undec ds (acc * 10 + (d - 0x30))

theorem undec_decimalAux : ∀ (fuel n : Nat) (acc : Str), n < 10 ^ fuel →
    undec (decimalAux fuel n acc) 0 = undec acc n
  | 0, n, acc, h => by
    have : n = 0 := by simpa using h
    subst this
    simp [decimalAux]
  | fuel + 1, n, acc, h => by
    unfold decimalAux
    split
    · next hlt => simp [undec]
    · next hge =>
      have : n / 10 < 10 ^ fuel := by
        rw [Nat.div_lt_iff_lt_mul (by omega)]; rw [Nat.pow_succ] at h; omega
      rw [undec_decimalAux fuel (n / 10) _ this]
      simp [undec]; congr 1; omega

theorem undec_decimal (n : Nat) : undec (decimal n) 0 = n := by
  unfold decimal
  rw [undec_decimalAux (n + 1) n [] (Nat.lt_trans (Nat.lt_pow_self (by omega)) (Nat.pow_lt_pow_right (by omega) (by omega)))]
  rfl

theorem decimal_injective : Function.Injective decimal := by
  intro a b h
  have := congrArg (fun s => undec s 0) h
  simpa [undec_decimal] using this

theorem decimalAux_digits : ∀ (fuel n : Nat) (acc : Str), (∀ c ∈ acc, 0x30 ≤ c ∧ c ≤ 0x39) →
    ∀ c ∈ decimalAux fuel n acc, 0x30 ≤ c ∧ c ≤ 0x39
  | 0, _, acc, h => by simpa [decimalAux] using h
  | fuel + 1, n, acc, h => by
    unfold decimalAux
    split
    · next hlt =>
      intro c hc
      simp only [List.mem_cons] at hc
      rcases hc with hc | hc
      · omega
      · exact h c hc
    · apply decimalAux_digits fuel
      intro c hc
      simp only [List.mem_cons] at hc
      rcases hc with hc | hc
      · omega
      · exact h c hc

theorem decimal_digits (n : Nat) : ∀ c ∈ decimal n, 0x30 ≤ c ∧ c ≤ 0x39 :=
  decimalAux_digits (n + 1) n [] (by simp)

theorem decimalAux_ne_nil : ∀ (fuel n : Nat) (acc : Str), (fuel ≠ 0 ∨ acc ≠ []) → decimalAux fuel n acc ≠ []
  | 0, _, acc, h => by simpa [decimalAux] using h
  | fuel + 1, n, acc, _ => by
    unfold decimalAux
    split
    · simp
    · exact decimalAux_ne_nil fuel _ _ (Or.inr (by simp))

theorem decimal_ne_nil (n : Nat) : decimal n ≠ [] := decimalAux_ne_nil (n + 1) n [] (Or.inl (by omega))

end RdfModel.Proofs.StrOrd
