/-
  C17 helper lemmas, part 4: termination of the export under `Acyclic1`, divergence on a cycle.
-/
import RdfModel.Proofs.C17Walk
namespace RdfModel.Proofs.C17
open RdfModel RdfModel.Desc RdfModel.C17

variable {β : Type} [DecidableEq β]

theorem climb_mono (T : List (Triple β)) : ∀ k x, climb T k x = true → climb T (k + 1) x = true := by
  intro k
  induction k with
  | zero =>
    intro x h
    cases x with
    | iri v => rfl
    | lit l d t => rfl
    | bnode b =>
      simp only [climb, Bool.not_eq_true', beq_eq_false_iff_ne, ne_eq] at h
      simp [climb, h]
  | succ k ih =>
    intro x h
    cases x with
    | iri v => rfl
    | lit l d t => rfl
    | bnode b =>
      simp only [climb] at h ⊢
      split
      · rename_i h1
        simp only [h1, if_true] at h
        split
        · rename_i s hs
          simp only [hs] at h
          exact ih s h
        · rfl
      · rfl

theorem climb_mono_le (T : List (Triple β)) {k k' : Nat} (hk : k ≤ k') (x : Term β)
    (h : climb T k x = true) : climb T k' x = true := by
  induction hk with
  | refl => exact h
  | step _ ih => exact climb_mono T _ x ih

theorem countP_one_unique {α : Type} (p : α → Bool) : ∀ (l : List α), l.countP p = 1 →
    ∀ a a', a ∈ l → p a = true → a' ∈ l → p a' = true → a = a' := by
  intro l
  induction l with
  | nil => intro h; simp at h
  | cons x l ih =>
    intro h a a' ha hpa ha' hpa'
    by_cases hx : p x = true
    · have hl : l.countP p = 0 := by
        rw [List.countP_cons_of_pos hx] at h; omega
      have hnone : ∀ z ∈ l, p z = true → False := by
        intro z hz hpz
        have : 0 < l.countP p := List.countP_pos_iff.2 ⟨z, hz, hpz⟩
        omega
      rcases List.mem_cons.1 ha with rfl | ha
      · rcases List.mem_cons.1 ha' with rfl | ha'
        · rfl
        · exact (hnone _ ha' hpa').elim
      · exact (hnone _ ha hpa).elim
    · rw [List.countP_cons_of_neg hx] at h
      rcases List.mem_cons.1 ha with rfl | ha
      · exact (hx hpa).elim
      · rcases List.mem_cons.1 ha' with rfl | ha'
        · exact (hx hpa').elim
        · exact ih h a a' ha hpa ha' hpa'

theorem parent_of_once (T : List (Triple β)) (b : β) (h1 : refs T b = 1) (t : Triple β) (ht : t ∈ T)
    (hto : t.o = Term.bnode b) : parent? T b = some t.s := by
  unfold parent?
  cases hf : T.find? (fun t => t.o = Term.bnode b) with
  | none =>
    have := List.find?_eq_none.1 hf t ht
    simp [hto] at this
  | some t' =>
    have hp := List.find?_some hf
    have hm := List.mem_of_find?_eq_some hf
    have : t' = t := countP_one_unique _ T h1 t' t hm hp ht (by simp [hto])
    simp [this]

/-- under `Acyclic1`, climbing from *any* term succeeds within `|T|` steps -/
theorem climb_all (T : List (Triple β)) (h : Acyclic1 T) : ∀ x, climb T T.length x = true := by
  intro x
  cases x with
  | iri v => cases hT : T.length <;> rfl
  | lit l d t => cases hT : T.length <;> rfl
  | bnode b =>
    by_cases h1 : refs T b = 1
    · have hpos : 0 < refs T b := by omega
      obtain ⟨t, ht, hto⟩ := List.countP_pos_iff.1 hpos
      simp only [decide_eq_true_eq] at hto
      have := h t ht
      rwa [hto] at this
    · cases hT : T.length with
      | zero => simp [climb, h1]
      | succ n => simp [climb, h1]

/-- Termination: with `Acyclic1`, `ExportResourceStatements` never nests deeper than `|T|+1` frames. -/
theorem export_isSome_aux (T : List (Triple β)) (opts : Opts) (h : Acyclic1 T) :
    ∀ f y j, (j = 0 ∨ climb T (j - 1) y = false) → T.length + 1 ≤ j + f →
      ((build T).exportStatements opts f y).isSome := by
  intro f
  induction f with
  | zero =>
    intro y j hj hle
    rcases hj with rfl | hj
    · omega
    · have := climb_mono_le T (k := T.length) (k' := j - 1) (by omega) y (climb_all T h y)
      rw [this] at hj; cases hj
  | succ f ih =>
    intro y j hj hle
    rw [exportStatements_succ]
    apply mapOpt_isSome
    intro po hpo
    unfold expStmt
    by_cases hin : (build T).isInl opts po.2 = true
    · simp only [hin, if_true, Option.isSome_map]
      obtain ⟨b, hb⟩ := isInl_bnode hin
      have hin' := hin
      rw [hb] at hin'
      simp only [Builder.isInl, refCount_build, Bool.and_eq_true, beq_iff_eq] at hin'
      -- the triple (y, p, b) is in T
      rw [stmts_build] at hpo
      simp only [List.mem_map, List.mem_filter, decide_eq_true_eq] at hpo
      obtain ⟨t, ⟨ht, hts⟩, htpo⟩ := hpo
      have hto : t.o = Term.bnode b := by rw [← hb, ← htpo]; rfl
      have hpar := parent_of_once T b hin'.2 t ht hto
      apply ih po.2 (j + 1) _ (by omega)
      right
      rw [hb]
      simp only [Nat.add_sub_cancel]
      cases j with
      | zero => simp [climb, hin'.2]
      | succ j' =>
        simp only [climb, hin'.2, beq_self_eq_true, if_true, hpar, hts]
        rcases hj with hj | hj
        · omega
        · simpa using hj
    · simp [hin]

theorem export_isSome_noinline (B : Builder β) (opts : Opts) (hi : opts.inline = false) (f : Nat) (y : Term β) :
    (B.exportStatements opts (f + 1) y).isSome := by
  rw [exportStatements_succ]
  apply mapOpt_isSome
  intro po _
  have : B.isInl opts po.2 = false := by
    cases h : po.2 <;> simp [Builder.isInl, hi]
  simp [expStmt, this]

theorem export_isSome (T : List (Triple β)) (opts : Opts) (h : opts.inline = true → Acyclic1 T) (y : Term β) :
    ((build T).exportStatements opts (T.length + 1) y).isSome := by
  cases hi : opts.inline with
  | false => exact export_isSome_noinline _ _ hi _ _
  | true => exact export_isSome_aux T opts (h hi) (T.length + 1) y 0 (Or.inl rfl) (by omega)

/-- fuel is irrelevant once sufficient -/
theorem export_mono (B : Builder β) (opts : Opts) :
    ∀ k y L, B.exportStatements opts k y = some L → B.exportStatements opts (k + 1) y = some L := by
  intro k
  induction k with
  | zero => intro y L h; simp [exportStatements_zero] at h
  | succ k ih =>
    intro y L h
    rw [exportStatements_succ] at h ⊢
    refine mapOpt_congr_some ?_ h
    intro po _ st hst
    unfold expStmt at hst ⊢
    by_cases hin : B.isInl opts po.2 = true
    · simp only [hin, if_true] at hst ⊢
      obtain ⟨L', hL', rfl⟩ := Option.map_eq_some_iff.1 hst
      exact Option.map_eq_some_iff.2 ⟨L', ih _ _ hL', rfl⟩
    · simpa [hin] using hst

theorem export_mono_le (B : Builder β) (opts : Opts) {k k' : Nat} (hk : k ≤ k') {y : Term β}
    {L : List (Stmt β)} (h : B.exportStatements opts k y = some L) : B.exportStatements opts k' y = some L := by
  induction hk with
  | refl => exact h
  | step _ ih => exact export_mono B opts _ _ _ ih

/-! ### divergence -/

/-- If every node of a set `C` has an inlined successor in `C`, the export of a node of `C` exceeds every depth. -/
theorem export_diverges_of_closed (B : Builder β) (opts : Opts) (C : Term β → Prop)
    (hC : ∀ y, C y → ∃ po ∈ B.stmts y, B.isInl opts po.2 = true ∧ C po.2) :
    ∀ fuel y, C y → B.exportStatements opts fuel y = none := by
  intro fuel
  induction fuel with
  | zero => intro y _; rfl
  | succ f ih =>
    intro y hy
    obtain ⟨po, hpo, hin, hc⟩ := hC y hy
    rw [exportStatements_succ]
    apply mapOpt_none_of_mem hpo
    simp [expStmt, hin, ih po.2 hc]

end RdfModel.Proofs.C17
