/-
  Line-protocol handler for the model of the JSON-LD decoder's deserialize-to-RDF stage
  (component `jld`, part C10D).

  Tree token (one token; produced by the hook encoding/jsonld/export_verif.go):
    exp  := N | A exp* ] | O (hex ; exp)* } | P pval jtxt
    pval := z | n | t | f | s hex ; | d bits : dec ; | o | a
    dec  := nan | (+|-) inf | (+|-) digits e [-] digits
    jtxt := j hex ; | e | p | -
  Options token: rdfDirection `-` | `i18n` | `compound` | `other`.
  Statements: S,P,O,G joined by `;` (`-` = nil term / default graph; B<hex> labelled blank node,
  F<n> generated blank node, I<hex>, L<hex>.<hex>.<hex|->), the empty list is `-`.

  Ops
    jld.run  <dir> <tree>   → done <statements> <error class|->   | panic      (Model.JsonLdToRdf.run)
    jld.all  <dir> <tree>   → ok <statements> <counter> | err <class> <statements> | panic   (decodeRoot)
    jld.inv  <tree>         → expok=<0|1> sorted=<0|1>
    jld.flat <quads>        → <tree>     (C10D.expandFlat (JL.writeFlat id quads)); quads as in Driver/JsonLd
    jld.num  <dt hex|-> <dec> → <datatype hex> <lexical hex>        (numberLiteral)
-/
import RdfModel.Driver.Wire
import RdfModel.Driver.JsonLd
import RdfModel.Model.JsonLdToRdf
import RdfModel.Props.C10DDefs
namespace RdfModel.Driver.JsonLdToRdf
open RdfModel RdfModel.Wire RdfModel.Desc RdfModel.JLD

def takeUntil (stop : Char) : List Char → Option (List Char × List Char)
  | [] => none
  | c :: cs =>
    if c = stop then some ([], cs)
    else (takeUntil stop cs).map fun (a, r) => (c :: a, r)

def parseNat (cs : List Char) : Option Nat :=
  if cs = [] ∨ !cs.all Char.isDigit then none
  else some (cs.foldl (fun (acc : Nat) d => acc * 10 + (d.toNat - 48)) 0)

/-- `nan | ±inf | ±digits e [-]digits` -/
def parseDec (cs : List Char) : Option Num :=
  match cs with
  | ['n', 'a', 'n'] => some .nan
  | ['+', 'i', 'n', 'f'] => some (.inf false)
  | ['-', 'i', 'n', 'f'] => some (.inf true)
  | sg :: rest =>
    if sg ≠ '+' ∧ sg ≠ '-' then none else
    match takeUntil 'e' rest with
    | some (ds, ex) =>
      if ds = [] ∨ !ds.all Char.isDigit then none else
      let e? : Option Int :=
        match ex with
        | '-' :: r => (parseNat r).map fun n => - Int.ofNat n
        | r => (parseNat r).map Int.ofNat
      e?.map fun e => .fin (sg = '-') (ds.map fun d => d.toNat - 48) e
    | none => none
  | [] => none

def parseJText (cs : List Char) : Option (JText × List Char) :=
  match cs with
  | '-' :: r => some (.absent, r)
  | 'e' :: r => some (.encErr, r)
  | 'p' :: r => some (.panics, r)
  | 'j' :: r => do
    let (a, r') ← takeUntil ';' r
    let b ← unhexChars a
    pure (.text b, r')
  | _ => none

def parsePVal (cs : List Char) : Option (PVal × List Char) :=
  match cs with
  | 'z' :: r => some (.nil, r)
  | 'n' :: r => some (.null, r)
  | 't' :: r => some (.bool true, r)
  | 'f' :: r => some (.bool false, r)
  | 'o' :: r => some (.object, r)
  | 'a' :: r => some (.array, r)
  | 's' :: r => do
    let (a, r') ← takeUntil ';' r
    let b ← unhexChars a
    pure (.str b, r')
  | 'd' :: r => do
    let (a, r') ← takeUntil ';' r
    let (_, dec) ← takeUntil ':' a
    let x ← parseDec dec
    pure (.num x, r')
  | _ => none

mutual
def parseExp : Nat → List Char → Option (Exp × List Char)
  | 0, _ => none
  | fuel + 1, cs =>
    match cs with
    | 'N' :: r => some (.nil, r)
    | 'A' :: r => do
      let (xs, r') ← parseExps fuel r
      pure (.arr xs, r')
    | 'O' :: r => do
      let (ms, r') ← parseMembers fuel r
      pure (.obj ms, r')
    | 'P' :: r => do
      let (v, r1) ← parsePVal r
      let (jt, r2) ← parseJText r1
      pure (.prim v jt, r2)
    | _ => none
def parseExps : Nat → List Char → Option (List Exp × List Char)
  | 0, _ => none
  | fuel + 1, cs =>
    match cs with
    | ']' :: r => some ([], r)
    | _ => do
      let (x, r) ← parseExp fuel cs
      let (xs, r') ← parseExps fuel r
      pure (x :: xs, r')
def parseMembers : Nat → List Char → Option (List (Str × Exp) × List Char)
  | 0, _ => none
  | fuel + 1, cs =>
    match cs with
    | '}' :: r => some ([], r)
    | _ => do
      let (a, r) ← takeUntil ';' cs
      let b ← unhexChars a
      let (v, r) ← parseExp fuel r
      let (ms, r') ← parseMembers fuel r
      pure ((b, v) :: ms, r')
end

def parseTree (s : String) : Option Exp :=
  match parseExp (s.length + 1) s.toList with
  | some (e, []) => some e
  | _ => none

def parseDir (s : String) : Option Cfg :=
  if s = "-" then some ⟨.none⟩
  else if s = "i18n" then some ⟨.i18n⟩
  else if s = "compound" then some ⟨.compound⟩
  else if s = "other" then some ⟨.other⟩
  else none

/-! ### showing -/

def showT : T → String
  | .bnode (.orig b) => "B" ++ hexOfBytes b
  | .bnode (.fresh n) => "F" ++ toString n
  | .iri v => "I" ++ hexOfBytes v
  | .lit l d t => "L" ++ hexOfBytes l ++ "." ++ hexOfBytes d ++ "." ++
      (match t with | some x => hexOfBytes x | none => "-")

def showOT : Option T → String
  | some t => showT t
  | none => "-"

def showRQ (q : RQ) : String :=
  showOT q.s ++ ",I" ++ hexOfBytes q.p ++ "," ++ showOT q.o ++ "," ++ showOT q.g

def showRQs (qs : List RQ) : String :=
  if qs = [] then "-" else String.intercalate ";" (qs.map showRQ)

def showTy : TyName → String
  | .nil => "nil" | .array => "array" | .object => "object" | .primitive => "primitive"
  | .jNull => "jnull" | .jString => "jstring" | .jNumber => "jnumber" | .jBoolean => "jboolean"
  | .jObject => "jobject" | .jArray => "jarray"

def showErr : Err → String
  | .shape k t => "shape:" ++ hexOfBytes k ++ ":" ++ showTy t
  | .valueType g => "vt:" ++ hexOfBytes g
  | .marshal => "marshal"
  | .listItem e => "li:" ++ showErr e

mutual
def showExp : Exp → String
  | .nil => "N"
  | .arr xs => "A" ++ showExps xs ++ "]"
  | .obj ms => "O" ++ showMembers ms ++ "}"
  | .prim v jt =>
    "P" ++ (match v with
      | .nil => "z" | .null => "n" | .bool true => "t" | .bool false => "f"
      | .str s => "s" ++ hexOfBytes s ++ ";"
      | .num _ => "d?;" | .object => "o" | .array => "a") ++
    (match jt with
      | .absent => "-" | .encErr => "e" | .panics => "p"
      | .text s => "j" ++ hexOfBytes s ++ ";")
def showExps : List Exp → String
  | [] => ""
  | x :: xs => showExp x ++ showExps xs
def showMembers : List (Str × Exp) → String
  | [] => ""
  | (k, v) :: ms => hexOfBytes k ++ ";" ++ showExp v ++ showMembers ms
end

def b01 (b : Bool) : String := if b then "1" else "0"

def handle (op : String) (args : List String) : Option String :=
  match op, args with
  | "run", [d, t] => do
    let cfg ← parseDir d
    let e ← parseTree t
    match run cfg e with
    | .panic => pure "panic"
    | .done qs er => pure ("done " ++ showRQs qs ++ " " ++ (match er with | some x => showErr x | none => "-"))
  | "all", [d, t] => do
    let cfg ← parseDir d
    let e ← parseTree t
    match decodeRoot cfg e with
    | .panic => pure "panic"
    | .ok qs n => pure ("ok " ++ showRQs qs ++ " " ++ toString n)
    | .err er qs => pure ("err " ++ showErr er ++ " " ++ showRQs qs)
  | "inv", [t] => do
    let e ← parseTree t
    pure ("expok=" ++ b01 (C10D.ExpOK e) ++ " sorted=" ++ b01 e.membersSorted)
  | "flat", [qs] => do
    let d ← Driver.JsonLd.parseQuads qs
    -- ASCII only (code points = bytes); the harness generates nothing else for this op
    if !(d.all fun q => (C10.quadIris q ++ (match q.t.o with | .lit l _ t => [l, t.getD []] | _ => []) ++
          (match q.t.s, q.t.o, q.g with | s, o, g => [s, o].flatMap (fun t => match t with | .bnode b => [b] | _ => []) ++
            (match g with | some (.bnode b) => [b] | _ => []))).all fun s => s.all (· < 0x80)) then none else
    let doc := JL.writeFlat (fun (l : List Nat) => l) d
    pure (showExp (C10D.expandFlat doc) ++ " " ++ Driver.JsonLd.showJson doc)
  | "num", [dt, dec] => do
    let dt0 ← (if dt = "-" then some [] else unhex dt)
    let x ← parseDec dec.toList
    let r := numberLiteral dt0 x
    pure (hexOfBytes r.1 ++ " " ++ hexOfBytes r.2)
  | _, _ => none

end RdfModel.Driver.JsonLdToRdf
