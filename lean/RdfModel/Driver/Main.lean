/-
  Line-protocol driver: one operation per input line, one result line per operation.
  `<component>.<op> <arg>…`; unknown or malformed lines answer `bad-op`.
  Core-only imports (no Mathlib) so that it links as a `lean_exe`.
-/
import RdfModel.Driver.NQ
import RdfModel.Driver.NQO
import RdfModel.Driver.BlankNodes
import RdfModel.Driver.Canon
import RdfModel.Driver.RdfJson
import RdfModel.Driver.Description
import RdfModel.Driver.Dataset
import RdfModel.Driver.Prefix
import RdfModel.Driver.Ttl
import RdfModel.Driver.TtlDoc
import RdfModel.Driver.TtlEnc
import RdfModel.Driver.TtlP
import RdfModel.Driver.Xsd
import RdfModel.Driver.XsdFloat
import RdfModel.Driver.GoTime
import RdfModel.Driver.IRI
import RdfModel.Driver.PIRI
import RdfModel.Driver.IriUnify
import RdfModel.Driver.JsonLd
import RdfModel.Driver.JsonLdToRdf
import RdfModel.Driver.JsonLdCtx
import RdfModel.Driver.RdfXml
import RdfModel.Driver.RdfXmlDec
import RdfModel.Driver.Pipe
import RdfModel.Driver.Html
import RdfModel.Driver.Latch
import RdfModel.Driver.Offx
import RdfModel.Driver.Mdd
import RdfModel.Driver.RdfaDec
import RdfModel.Driver.TtlDocO
open RdfModel

def dispatch (line : String) : String :=
  match (line.trimAscii.toString.splitOn " ") with
  | [] => "bad-op"
  | cmd :: args =>
    match cmd.splitOn "." with
    | [comp, op] =>
      let r : Option String :=
        if comp = "nq" then Driver.NQ.handle op args
        else if comp = "ds" then Driver.Dataset.handle op args
        else if comp = "desc" then Driver.Description.handle op args
        else if comp = "pm" then Driver.Prefix.handle op args
        else if comp = "jl" then Driver.JsonLd.handle op args
        else if comp = "jld" then Driver.JsonLdToRdf.handle op args
        else if comp = "ctx" then Driver.JsonLdCtx.handle op args
        else if comp = "rj" then Driver.RdfJson.handle op args
        else if comp = "canon" then Driver.Canon.handle op args
        else if comp = "ttl" then Driver.Ttl.handle op args
        else if comp = "ttld" then Driver.TtlDoc.handle op args
        else if comp = "ttle" then Driver.TtlEnc.handle op args
        else if comp = "ttlp" then Driver.TtlP.handle op args
        else if comp = "xsd" then Driver.Xsd.handle op args
        else if comp = "xsdf" then Driver.XsdFloat.handle op args
        else if comp = "xsdt" then Driver.GoTime.handle op args
        else if comp = "bn" then Driver.BlankNodes.handle op args
        else if comp = "nqo" then Driver.NQO.handle op args
        else if comp = "iri" then Driver.IRI.handle op args
        else if comp = "piri" then Driver.PIRI.handle op args
        else if comp = "iriu" then Driver.IriUnify.handle op args
        else if comp = "rx" then Driver.RdfXml.handle op args
        else if comp = "rxd" then Driver.RdfXmlDec.handle op args
        else if comp = "pipe" then Driver.Pipe.handle op args
        else if comp = "html" then Driver.Html.handle op args
        else if comp = "latch" then Driver.Latch.handle op args
        else if comp = "offx" then Driver.Offx.handle op args
        else if comp = "mdd" then Driver.Mdd.handle op args
        else if comp = "rdfa" then Driver.RdfaDec.handle op args
        else if comp = "ttlo" then Driver.TtlDocO.handle op args
        else none
      r.getD "bad-op"
    | _ => "bad-op"

partial def loop (hin hout : IO.FS.Stream) : IO Unit := do
  let line ← hin.getLine
  if line.isEmpty then return ()
  hout.putStrLn (dispatch line)
  loop hin hout

def main : IO Unit := do
  let hin ← IO.getStdin
  let hout ← IO.getStdout
  loop hin hout
  hout.flush
