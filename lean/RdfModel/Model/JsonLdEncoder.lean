/-
  RdfModel.Model.JsonLdEncoder — executable model of /repo/encoding/jsonld/encoder.go and
  encoder_config.go (as repaired by patches/c10-enc-*.patch), on top of Model.Description (the
  resource-list builder and its export) and Model.Prefix (PrefixManager, UsagePrefixMapper, BaseIRI).

    newEncoder      prefix table filtered by isPrefixTerm, base parsed by ParseBaseIRI
    AddQuad         DatasetResourceListBuilder.Add
    Close           export of the default graph's builder, buildResource per exported resource,
                    single item or {"@graph": [...]}, "@context" with "@base" and the used prefixes
    buildResource   the recursive construction of one node object

  Conventions
  * The result is the JSON *value* handed to encoding/json (the text layer is outside the model):
    `map[string]any` becomes a member list (order = construction order here; encoding/json sorts the
    names, the harness compares modulo member order), `json.Number(lex)` becomes `Json.int` when `lex`
    is an integer literal and `Json.dbl lex` otherwise (the harness compares numbers by value).
  * Go map iteration orders are parameters: `ord` = order in which `ExportResources` yields subjects.
    With `buffered` the items and multi-valued properties are sorted by their serialisation; the order
    of array elements does not matter to what the document denotes and is ignored by the model.
  * Strings of the configuration (base, prefixes) are Go strings; the Prefix model works on UTF-8 bytes
    (lengths and prefix tests are byte-wise in Go), IRIs of terms are code points: conversions are
    explicit (`utf8Encode` / `utf8Decode`).
  * Named graphs are dropped by the encoder ("TODO multi-graph support"); the model does the same.
  Core-only, executable.
-/
import RdfModel.Model.Description
import RdfModel.Model.Prefix
import RdfModel.Spec.JsonLdFragment
namespace RdfModel.JLEnc
open RdfModel RdfModel.Desc RdfModel.JL

/-- EncoderConfig: base, prefixes, buffered, blank node labels (`bnStringProvider`) -/
structure Cfg (β : Type) where
  base : Option Str
  prefixes : List (Str × Str)
  buffered : Bool
  label : β → Str

/-- `reKeywordForm` -/
def keywordForm (s : Str) : Bool := isKeywordForm s

/-- `isPrefixTerm(mapping)` -/
def isPrefixTerm (m : Str × Str) : Bool :=
  !(m.1 = [] || m.1 = [cUnderscore] || m.1.contains cColon || m.1.contains cSlash || keywordForm m.1) &&
  endsGenDelim m.2

/-- the encoder's state that matters: the prefix manager (on bytes), the base, the set of used prefixes -/
structure Enc where
  pm : Prefix.PM
  base : Option Prefix.BaseIRI

def mkEnc {β : Type} (cfg : Cfg β) : Enc :=
  { pm := Prefix.new Prefix.mergeSorter
      ((cfg.prefixes.filter isPrefixTerm).map fun m => ⟨utf8Encode m.1, utf8Encode m.2⟩)
    base := cfg.base.map fun b => Prefix.newBaseIRI (utf8Encode b) }

/-- `UsagePrefixMapper.CompactPrefix` on code points: the compact form and the prefix marked as used -/
def compactPrefix (E : Enc) (v : Str) : Option (Str × Str) :=
  (Prefix.compact E.pm (utf8Encode v)).map fun pr => (utf8Decode pr.pfx, utf8Decode pr.reference)

/-- `compactVocabIRI`: result and newly used prefix -/
def compactVocabIRI (E : Enc) (v : Str) : Str × List Str :=
  match compactPrefix E v with
  | some (p, r) => if r.take 2 = [cSlash, cSlash] then (v, [p]) else (p ++ [cColon] ++ r, [p])
  | none => (v, [])

/-- `compactDocumentIRI` (as repaired by c10-enc-5-rel-colon, commit ed9c0d1: a relative reference with a
    colon after its first character is not written; Go tests bytes, `rel[min(1,len):]`, which agrees with
    dropping the first code point since continuation bytes are never `:`) -/
def compactDocumentIRI (E : Enc) (v : Str) : Str × List Str :=
  match compactPrefix E v with
  | some (p, r) =>
    if r.take 2 ≠ [cSlash, cSlash] then (p ++ [cColon] ++ r, [p])
    else
      match E.base with
      | some b =>
        match Prefix.relativizeB b (utf8Encode v) with
        | .some rel => if keywordForm (utf8Decode rel) || colonAfterFirst (utf8Decode rel) then (v, [p]) else (utf8Decode rel, [p])
        | _ => (v, [p])
      | none => (v, [p])
  | none =>
    match E.base with
    | some b =>
      match Prefix.relativizeB b (utf8Encode v) with
      | .some rel => if keywordForm (utf8Decode rel) || colonAfterFirst (utf8Decode rel) then (v, []) else (utf8Decode rel, [])
      | _ => (v, [])
    | none => (v, [])

/-- `reNativeInteger`: `-?(0|[1-9][0-9]{0,14})` -/
def isNativeInteger (lex : Str) : Bool :=
  let ds := match lex with | 0x2d :: r => r | r => r
  match ds with
  | [0x30] => true
  | d :: rest => 0x31 ≤ d && d ≤ 0x39 && rest.all isDigit && rest.length ≤ 14
  | [] => false

/-- `(0|[1-9][0-9]*)` at the start: the rest after it -/
def dropIntPart : Str → Option Str
  | 0x30 :: r => some r
  | d :: r => if 0x31 ≤ d && d ≤ 0x39 then some (r.dropWhile isDigit) else none
  | [] => none

/-- `reNativeDouble` and the length bound: `-?(0|[1-9][0-9]*)(\.[0-9]+)?([eE][+-]?[0-9]{1,2})?`, ≤ 30 characters -/
def isNativeDouble (lex : Str) : Bool :=
  lex.length ≤ 30 &&
  (let body := match lex with | 0x2d :: r => r | r => r
   match dropIntPart body with
   | none => false
   | some r1 =>
     let r2 : Option Str :=
       match r1 with
       | 0x2e :: f => if (f.takeWhile isDigit) = [] then none else some (f.dropWhile isDigit)
       | r => some r
     match r2 with
     | none => false
     | some [] => true
     | some (e :: r3) =>
       if e = 0x65 || e = 0x45 then
         let ds := match r3 with
           | 0x2b :: r => r
           | 0x2d :: r => r
           | r => r
         ds ≠ [] && ds.length ≤ 2 && ds.all isDigit
       else false)

def parseDigits (ds : Str) : Nat := ds.foldl (fun a c => a * 10 + (c - 0x30)) 0

/-- `json.Number(lex)` as a JSON value of the model -/
def numberOf (lex : Str) : Json :=
  if isNativeInteger lex then
    match lex with
    | 0x2d :: r => .int (-(Int.ofNat (parseDigits r)))
    | r => .int (Int.ofNat (parseDigits r))
  else .dbl lex

/-- the literal branch of buildResource: value and used prefixes -/
def literalValue (E : Enc) (lex dt : Str) (lang : Option Str) : Json × List Str :=
  if dt = xsdString then (.str lex, [])
  else if (dt = xsdInteger && isNativeInteger lex) || (dt = xsdDouble && isNativeDouble lex) then (numberOf lex, [])
  else if dt = xsdBoolean && lex = asc "true" then (.bool true, [])
  else if dt = xsdBoolean && lex = asc "false" then (.bool false, [])
  else
    let t := compactVocabIRI E dt
    match (if dt = rdfLangString then lang else none) with
    | some l => (.obj [(kValue, .str lex), (kLanguage, .str l)], t.2)
    | none => (.obj [(kValue, .str lex), (kType, .str t.1)], t.2)

/-- `graphProperties[key] = append(graphProperties[key], v)` -/
def addProp (props : List (Str × List Json)) (k : Str) (v : Json) : List (Str × List Json) :=
  alUpd [] (fun l => l ++ [v]) props k

/-- the final loop over graphProperties: one value as is, several as an array -/
def propMembers (props : List (Str × List Json)) : List (Str × Json) :=
  props.filterMap fun e =>
    match e.2 with
    | [] => none
    | [v] => some (e.1, v)
    | vs => some (e.1, .arr vs)

variable {β : Type} [DecidableEq β]

mutual
/-- one iteration of the statement loop of buildResource: member name, value, used prefixes -/
def buildStmt (E : Enc) (label : β → Str) : Stmt β → List Str → Str × Json × List Str
  | .obj p (.iri v), used =>
    if p = rdfType then
      let t := compactVocabIRI E v
      (kType, .str t.1, used ++ t.2)
    else
      let t := compactDocumentIRI E v
      let k := compactVocabIRI E p
      (k.1, .obj [(kId, .str t.1)], used ++ t.2 ++ k.2)
  | .obj p (.bnode b), used =>
    let k := compactVocabIRI E p
    (k.1, .obj [(kId, .str ([cUnderscore, cColon] ++ label b))], used ++ k.2)
  | .obj p (.lit lex dt lang), used =>
    let v := literalValue E lex dt lang
    let k := compactVocabIRI E p
    (k.1, v.1, used ++ v.2 ++ k.2)
  | .anon p l, used =>
    -- buildResource(builder, statementT.AnonResource, false): an AnonResource has no subject
    let inner := buildStmts E label l [] used
    let k := compactVocabIRI E p
    (k.1, .obj (propMembers inner.1), inner.2 ++ k.2)
/-- the statement loop of buildResource: properties so far, used prefixes so far -/
def buildStmts (E : Enc) (label : β → Str) : List (Stmt β) → List (Str × List Json) → List Str →
    List (Str × List Json) × List Str
  | [], props, used => (props, used)
  | st :: rest, props, used =>
    let r := buildStmt E label st used
    buildStmts E label rest (addProp props r.1 r.2.1) r.2.2
end

/-- `buildResource(builder, resource, true)` for an exported (root) resource -/
def buildRoot (E : Enc) (label : β → Str) (B : Builder β) (r : Resource β) (used : List Str) : Json × List Str :=
  match r with
  | .anon st =>
    let inner := buildStmts E label st [] used
    (.obj (propMembers inner.1), inner.2)
  | .subject none st =>
    let inner := buildStmts E label st [] used
    (.obj (propMembers inner.1), inner.2)
  | .subject (some (.iri v)) st =>
    let inner := buildStmts E label st [] used
    let t := compactDocumentIRI E v
    (.obj ((kId, .str t.1) :: propMembers inner.1), inner.2 ++ t.2)
  | .subject (some (.bnode b)) st =>
    let inner := buildStmts E label st [] used
    if B.refCount b > 0 then (.obj ((kId, .str ([cUnderscore, cColon] ++ label b)) :: propMembers inner.1), inner.2)
    else (.obj (propMembers inner.1), inner.2)
  | .subject (some (.lit _ _ _)) st =>
    -- unreachable: rdf.SubjectValue is never a literal
    let inner := buildStmts E label st [] used
    (.obj (propMembers inner.1), inner.2)

def buildRoots (E : Enc) (label : β → Str) (B : Builder β) : List (Resource β) → List Str → List Json × List Str
  | [], used => ([], used)
  | r :: rs, used =>
    let a := buildRoot E label B r used
    let b := buildRoots E label B rs a.2
    (a.1 :: b.1, b.2)

def dedupStr : List Str → List Str
  | [] => []
  | a :: l => a :: (dedupStr l).filter (· ≠ a)

/-- `Close`: the value handed to `json.Encoder.Encode`; `ord` = iteration order of the default graph's
    subject map in the first pass of the repaired `ExportResources` (patch fix-c17-export-cycles), `ord2` in
    the second pass (which picks one node of every cycle of once-referenced blank nodes).
    `none` = deeper than the fuel (does not happen: the `inlined` set bounds the depth by the number of
    blank nodes; kept total). -/
def encode (cfg : Cfg β) (d : List (DQuad β)) (ord ord2 : List (Term β)) : Option Json :=
  let E := mkEnc cfg
  let D := dbuild d
  let hasDefault := D.graphNames.contains none
  let B := D.builder none
  match (if hasDefault then B.exportResourcesV Opts.default ord ord2 (d.length + 1) else some []) with
  | none => none
  | some rs =>
    let items := buildRoots E cfg.label B rs []
    let used := dedupStr items.2
    let ctxMembers : List (Str × Json) :=
      (match cfg.base with
       | some b => [(kBase, .str b)]
       | none => []) ++
      used.filterMap fun p =>
        (Prefix.expand E.pm ⟨utf8Encode p, []⟩).map fun e => (p, .str (utf8Decode e))
    let ctx : List (Str × Json) := if ctxMembers = [] then [] else [(kContext, .obj ctxMembers)]
    match items.1 with
    | [.obj ms] => some (.obj (ms ++ ctx))
    | js => some (.obj ((kGraph, .arr js) :: ctx))

/-- the subjects of the default graph in insertion order: the iteration order the driver uses -/
def defaultOrd (d : List (DQuad β)) : List (Term β) := ((dbuild d).builder none).subjects

end RdfModel.JLEnc
