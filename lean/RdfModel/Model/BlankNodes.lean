/-
  RdfModel.Model.BlankNodes — executable model of blank-node identity in rdfkit-go (property C14).

  Go code followed, function by function:
    rdf/blank_node.go                    BlankNode.TermEquals                    → `termEquals`
    rdf/blank_node_factory.go            bn.EqualsBlankNodeIdentifier, bnF       → `Ident.equals`, `fresh (.bnf i)`
    rdf/blank_node_factory_default.go    bnDefault, defaultBlankNodeFactory      → `Ident.equals`, `fresh .dflt`
    rdf/blanknodes/string_factory.go     bnString, bnStringF, stringIdentifierProvider → `.bnString`, `fresh (.strf j)`, `getLabel (.pass ..)`
    rdf/blanknodes/int64_string_provider.go                                      → `getLabel (.int64 i)`
    rdf/blanknodes/uuid_string_provider.go   (with the D15 repair: the stored value is returned) → `getLabel (.uuid i)`
    rdf/blanknodes/mapper.go                                                     → `mapNode`
    rdfio/rdfiotypes/encoder.go          PropagateDecoderPipeBlankNodeStringProvider → `Op.propagate`

  Conventions.
  * Go pointers (`*bnF`, `*bnStringF`, `*int64StringProvider`, …) are allocation indices into the lists
    of the `State`; pointer equality is index equality.
  * `int64` counters are `Nat` (assumption recorded in props/C14.json: fewer than 2^63 calls per counter).
  * Strings are byte lists (`Bytes`); Go string `==` is list equality.
  * A Go `map[K]V` is an association list; lookup is by Go's interface `==`, which for the three
    identifier struct types is field-wise equality, i.e. `DecidableEq` on `Option Ident`.
  * UUIDs: `crypto/rand` + `uuid.NewV7FromReader` are a process-global abstract stream `U : Nat → Bytes`
    (the canonical 36-character text of the k-th UUID drawn); `State.uuidPos` is how many were drawn.
  * `fmt.Sprintf(format, x)` is modelled for formats that contain exactly one `%`, directly followed by a
    verb that prints the value plainly (`%d`/`%v` for int64, `%s`/`%v` for UUID); any other format gives
    `Out.unsupported` (outside the model; the state is still updated as Go does before formatting).
  * Every API call is one `step` (atomicity: T2 `Gen/LockFacts.lean` + Go memory model, see DESIGN C14).
  Core-only imports.
-/
namespace RdfModel.BN

abbrev Bytes := List Nat

/-- `rdf.BlankNodeIdentifier` implementations of the repository. -/
inductive Ident where
  /-- `rdf.bn{v, s}`; `f` = allocation index of the `*bnF` in `s` -/
  | bn (f : Nat) (v : Nat)
  /-- `rdf.bnDefault{v}` -/
  | bnDefault (v : Nat)
  /-- `blanknodes.bnString{v, s}`; `f` = allocation index of the `*bnStringF` -/
  | bnString (f : Nat) (v : Bytes)
  deriving DecidableEq, Repr, Inhabited

/-- `rdf.BlankNode`; `none` is the zero value (nil `Identifier`). -/
abbrev Node := Option Ident

/-- `EqualsBlankNodeIdentifier` of the three types: type assertion on `other`, then field comparison. -/
def Ident.equals : Ident → Ident → Bool
  | .bn f v, .bn g w => g == f && w == v     -- otherT.s == bni.s && otherT.v == bni.v
  | .bn _ _, _ => false                          -- !ok
  | .bnDefault v, .bnDefault w => w == v
  | .bnDefault _, _ => false
  | .bnString f v, .bnString g w => g == f && w == v
  | .bnString _ _, _ => false

/-- `BlankNode.TermEquals` restricted to blank-node arguments (other term kinds give false). -/
def termEquals (t a : Node) : Bool :=
  match t with
  | none => false                       -- t.Identifier == nil
  | some ti =>
    match a with
    | none => false                     -- aBlankNode.Identifier == nil
    | some ai => ti.equals ai

/-- values of interface type `rdf.BlankNodeFactory` that the repository can produce -/
inductive FactoryRef where
  | dflt                 -- rdf.DefaultBlankNodeFactory
  | bnf (i : Nat)        -- *bnF
  | strf (j : Nat)       -- *bnStringF
  deriving DecidableEq, Repr, Inhabited

/-- values of interface type `blanknodes.StringProvider` -/
inductive ProvRef where
  | int64 (i : Nat)                               -- *int64StringProvider
  | uuid (i : Nat)                                -- *uuidStringProvider
  | pass (scope : Nat) (fallback : ProvRef)       -- stringIdentifierProvider{scope, fallback} (a value type)
  deriving DecidableEq, Repr, Inhabited

/-- Go map lookup. -/
def assoc {α β : Type} [DecidableEq α] (k : α) : List (α × β) → Option β
  | [] => none
  | (k', v) :: rest => if k' = k then some v else assoc k rest

structure Int64Prov where
  format : Bytes
  /-- `value.Load() + 1`: what the next `value.Add(1)` returns (initially 0: `Store(-1)`) -/
  next : Nat
  known : List (Node × Nat)
  deriving Repr, DecidableEq

structure UuidProv where
  format : Bytes
  /-- value: position in the UUID stream of the stored `uuid.UUID` -/
  known : List (Node × Nat)
  deriving Repr, DecidableEq

structure Mapper where
  factory : FactoryRef
  known : List (Node × Ident)
  deriving Repr, DecidableEq

structure State where
  /-- `rdf.DefaultBlankNodeFactory.a` (process-global) -/
  dfltCtr : Nat
  /-- `bnF.a` of every allocated `*bnF`, by allocation index -/
  bnfs : List Nat
  /-- every allocated `*bnStringF`: allocation index of its `anon` `*bnF` -/
  strfs : List Nat
  int64s : List Int64Prov
  uuids : List UuidProv
  mappers : List Mapper
  /-- number of UUIDs drawn so far (process-global source) -/
  uuidPos : Nat
  deriving Repr, DecidableEq

/-- process start, with the default factory's counter at an arbitrary value -/
def init (d : Nat := 0) : State :=
  { dfltCtr := d, bnfs := [], strfs := [], int64s := [], uuids := [], mappers := [], uuidPos := 0 }

inductive Op where
  | newFactory                                        -- rdf.NewBlankNodeFactory()
  | newStringFactory                                  -- blanknodes.NewStringFactory()
  | newBlankNode (f : FactoryRef)                     -- f.NewBlankNode()   (rdf.NewBlankNode() = .dflt)
  | newStringBlankNode (j : Nat) (label : Bytes)      -- (*bnStringF j).NewStringBlankNode(label)
  | newInt64Provider (format : Bytes)                 -- blanknodes.NewInt64StringProvider(format)
  | newUUIDProvider (format : Bytes)                  -- blanknodes.NewUUIDStringProvider(format, _)
  | getStringProvider (j : Nat) (fallback : ProvRef)  -- (*bnStringF j).GetStringProvider(fallback)
  | getLabel (p : ProvRef) (n : Node)                 -- p.GetBlankNodeString(n)
  | newMapper (f : Option FactoryRef)                 -- blanknodes.NewFactoryMapper(f)   (none = nil)
  | mapNode (m : Nat) (n : Node)                      -- (*factoryMapper m).MapBlankNode(n)
  | propagate (h : Option FactoryRef)                 -- rdfiotypes.PropagateDecoderPipeBlankNodeStringProvider(&DecoderHandle{DecoderBlankNodes: h})
  | termEquals (a b : Node)                           -- a.TermEquals(b)
  deriving DecidableEq, Repr, Inhabited

inductive Out where
  | factory (f : FactoryRef)
  | prov (p : ProvRef)
  | noProv                     -- nil StringProvider
  | mapper (m : Nat)
  | node (n : Node)
  | label (l : Bytes)
  | bool (b : Bool)
  | unsupported                -- format string outside the modelled fragment of fmt.Sprintf
  | bad                        -- dangling handle: cannot be expressed in Go
  deriving DecidableEq, Repr, Inhabited

/-- ASCII helper -/
def asc (s : String) : Bytes := s.toList.map Char.toNat

/-- `%d` of a non-negative int64 -/
def decimal (n : Nat) : Bytes := (Nat.toDigits 10 n).map Char.toNat

/-- Split a format at its only `%` (byte 37), which must be followed by one of `verbs`. -/
def splitVerb (verbs : List Nat) : Bytes → Option (Bytes × Bytes)
  | [] => none
  | c :: rest =>
    if c = 37 then
      match rest with
      | v :: suf => if v ∈ verbs ∧ 37 ∉ suf then some ([], suf) else none
      | [] => none
    else
      match splitVerb verbs rest with
      | some (pre, suf) => some (c :: pre, suf)
      | none => none

/-- `fmt.Sprintf(format, x)` where `arg` is the plain rendering of `x`. -/
def sprintf1 (format : Bytes) (verbs : List Nat) (arg : Bytes) : Out :=
  match splitVerb verbs format with
  | some (pre, suf) => .label (pre ++ arg ++ suf)
  | none => .unsupported

def int64Verbs : List Nat := [100, 118]   -- %d %v
def uuidVerbs : List Nat := [115, 118]    -- %s %v

/-- `f.NewBlankNode()`: one `a.Add(1)`; `none` for a dangling handle. -/
def fresh (s : State) : FactoryRef → Option (State × Ident)
  | .dflt => some ({ s with dfltCtr := s.dfltCtr + 1 }, .bnDefault (s.dfltCtr + 1))
  | .bnf i =>
    match s.bnfs[i]? with
    | some c => some ({ s with bnfs := s.bnfs.set i (c + 1) }, .bn i (c + 1))
    | none => none
  | .strf j =>
    match s.strfs[j]? with
    | some a =>       -- bnf.anon.NewBlankNode()
      match s.bnfs[a]? with
      | some c => some ({ s with bnfs := s.bnfs.set a (c + 1) }, .bn a (c + 1))
      | none => none
    | none => none

/-- `GetBlankNodeString` of the three provider types. -/
def getLabel (U : Nat → Bytes) (s : State) : ProvRef → Node → State × Out
  | .int64 i, n =>
    match s.int64s[i]? with
    | none => (s, .bad)
    | some p =>
      match assoc n p.known with
      | some index => (s, sprintf1 p.format int64Verbs (decimal index))
      | none =>
        let index := p.next       -- sp.value.Add(1)
        ({ s with int64s := s.int64s.set i { p with next := p.next + 1, known := (n, index) :: p.known } },
         sprintf1 p.format int64Verbs (decimal index))
  | .uuid i, n =>
    match s.uuids[i]? with
    | none => (s, .bad)
    | some p =>
      match assoc n p.known with
      | some pos => (s, sprintf1 p.format uuidVerbs (U pos))
      | none =>
        let pos := s.uuidPos      -- uuid.NewV7FromReader(rand.Reader)
        ({ s with uuidPos := s.uuidPos + 1, uuids := s.uuids.set i { p with known := (n, pos) :: p.known } },
         sprintf1 p.format uuidVerbs (U pos))
  | .pass scope fallback, n =>
    match n with
    | some (.bnString f v) => if f = scope then (s, .label v) else getLabel U s fallback n
    | _ => getLabel U s fallback n

def validFactory (s : State) : FactoryRef → Bool
  | .dflt => true
  | .bnf i => i < s.bnfs.length
  | .strf j => j < s.strfs.length

/-- `MapBlankNode` -/
def mapNode (s : State) (m : Nat) (n : Node) : State × Out :=
  match s.mappers[m]? with
  | none => (s, .bad)
  | some mp =>
    match assoc n mp.known with
    | some mapped => (s, .node (some mapped))
    | none =>
      match fresh s mp.factory with
      | none => (s, .bad)
      | some (s', id) =>
        ({ s' with mappers := s'.mappers.set m { mp with known := (n, id) :: mp.known } }, .node (some id))

def step (U : Nat → Bytes) (s : State) : Op → State × Out
  | .newFactory =>
    ({ s with bnfs := s.bnfs ++ [0] }, .factory (.bnf s.bnfs.length))
  | .newStringFactory =>
    ({ s with bnfs := s.bnfs ++ [0], strfs := s.strfs ++ [s.bnfs.length] }, .factory (.strf s.strfs.length))
  | .newBlankNode f =>
    match fresh s f with
    | some (s', id) => (s', .node (some id))
    | none => (s, .bad)
  | .newStringBlankNode j l =>
    if j < s.strfs.length then
      if l = [] then            -- len(identifier) == 0
        match fresh s (.strf j) with
        | some (s', id) => (s', .node (some id))
        | none => (s, .bad)
      else (s, .node (some (.bnString j l)))
    else (s, .bad)
  | .newInt64Provider format =>
    ({ s with int64s := s.int64s ++ [{ format := if format = [] then asc "b%d" else format, next := 0, known := [] }] },
     .prov (.int64 s.int64s.length))
  | .newUUIDProvider format =>
    ({ s with uuids := s.uuids ++ [{ format := if format = [] then asc "%s" else format, known := [] }] },
     .prov (.uuid s.uuids.length))
  | .getStringProvider j fallback =>
    if j < s.strfs.length then (s, .prov (.pass j fallback)) else (s, .bad)
  | .getLabel p n => getLabel U s p n
  | .newMapper f =>
    let f' := f.getD .dflt      -- if m.factory == nil { m.factory = rdf.DefaultBlankNodeFactory }
    if validFactory s f' then
      ({ s with mappers := s.mappers ++ [{ factory := f', known := [] }] }, .mapper s.mappers.length)
    else (s, .bad)
  | .mapNode m n => mapNode s m n
  | .propagate h =>
    match h with
    | some (.strf j) =>         -- the only StringProviderProvider
      if j < s.strfs.length then
        ({ s with uuids := s.uuids ++ [{ format := asc "%s", known := [] }] }, .prov (.pass j (.uuid s.uuids.length)))
      else (s, .bad)
    | some f => if validFactory s f then (s, .noProv) else (s, .bad)
    | none => (s, .noProv)      -- h == nil || h.DecoderBlankNodes == nil
  | .termEquals a b => (s, .bool (termEquals a b))

/-- a history: the operations with their results, and the final state -/
def trace (U : Nat → Bytes) : State → List Op → List (Op × Out)
  | _, [] => []
  | s, op :: ops => (op, (step U s op).2) :: trace U (step U s op).1 ops

def exec (U : Nat → Bytes) (s : State) (ops : List Op) : State :=
  ops.foldl (fun s op => (step U s op).1) s

/-! ### Operations whose arguments refer to earlier results (what a Go program can write; the driver's input) -/

inductive Arg where
  | res (k : Nat)     -- the result of operation k of this history
  | nil               -- nil / zero value
  | dflt              -- rdf.DefaultBlankNodeFactory (factory positions only)
  deriving DecidableEq, Repr, Inhabited

/-- a label argument: a literal, or the label returned by operation k -/
inductive LArg where
  | lit (l : Bytes)
  | res (k : Nat)
  deriving DecidableEq, Repr, Inhabited

inductive ROp where
  | newFactory | newStringFactory
  | newBlankNode (f : Arg)
  | newStringBlankNode (f : Arg) (label : LArg)
  | newInt64Provider (format : Bytes)
  | newUUIDProvider (format : Bytes)
  | getStringProvider (f : Arg) (fallback : Arg)
  | getLabel (p : Arg) (n : Arg)
  | newMapper (f : Arg)
  | mapNode (m : Arg) (n : Arg)
  | propagate (f : Arg)
  | termEquals (a b : Arg)
  deriving DecidableEq, Repr, Inhabited

def argFactory (outs : List Out) : Arg → Option FactoryRef
  | .dflt => some .dflt
  | .res k => match outs[k]? with | some (.factory f) => some f | _ => none
  | .nil => none

def argStrf (outs : List Out) (a : Arg) : Option Nat :=
  match argFactory outs a with | some (.strf j) => some j | _ => none

def argNode (outs : List Out) : Arg → Option Node
  | .nil => some none
  | .res k => match outs[k]? with | some (.node n) => some n | _ => none
  | .dflt => none

def argProv (outs : List Out) : Arg → Option ProvRef
  | .res k => match outs[k]? with | some (.prov p) => some p | _ => none
  | _ => none

def argLabel (outs : List Out) : LArg → Option Bytes
  | .lit l => some l
  | .res k => match outs[k]? with | some (.label l) => some l | _ => none

def argMapper (outs : List Out) : Arg → Option Nat
  | .res k => match outs[k]? with | some (.mapper m) => some m | _ => none
  | _ => none

/-- resolve references against the results so far; `none` = ill-typed reference -/
def resolve (outs : List Out) : ROp → Option Op
  | .newFactory => some .newFactory
  | .newStringFactory => some .newStringFactory
  | .newBlankNode f => (argFactory outs f).map .newBlankNode
  | .newStringBlankNode f l => do
      let j ← argStrf outs f
      let l ← argLabel outs l
      pure (.newStringBlankNode j l)
  | .newInt64Provider fmt => some (.newInt64Provider fmt)
  | .newUUIDProvider fmt => some (.newUUIDProvider fmt)
  | .getStringProvider f fb => do
      let j ← argStrf outs f
      let p ← argProv outs fb
      pure (.getStringProvider j p)
  | .getLabel p n => do
      let p ← argProv outs p
      let n ← argNode outs n
      pure (.getLabel p n)
  | .newMapper f =>
      match f with
      | .nil => some (.newMapper none)
      | _ => (argFactory outs f).map (fun x => .newMapper (some x))
  | .mapNode m n => do
      let m ← argMapper outs m
      let n ← argNode outs n
      pure (.mapNode m n)
  | .propagate f =>
      match f with
      | .nil => some (.propagate none)
      | _ => (argFactory outs f).map (fun x => .propagate (some x))
  | .termEquals a b => do
      let a ← argNode outs a
      let b ← argNode outs b
      pure (.termEquals a b)

/-- run a referential history from state `s`; `acc` = resolved history so far (in order) -/
def runRefs (U : Nat → Bytes) : State → List (Op × Out) → List ROp → Option (List (Op × Out))
  | _, acc, [] => some acc
  | s, acc, r :: rs =>
    match resolve (acc.map Prod.snd) r with
    | none => none
    | some op => runRefs U (step U s op).1 (acc ++ [(op, (step U s op).2)]) rs

/-- equality classes of the node results: each node result gets the index of the first earlier class
    whose representative it `termEquals`, or a new class -/
def classOf (reps : List Node) (n : Node) : Nat :=
  match reps.findIdx? (fun r => termEquals r n) with
  | some k => k
  | none => reps.length

def classify : List Node → List Out → List (Option Nat)
  | _, [] => []
  | reps, .node n :: rest =>
    let k := classOf reps n
    some k :: classify (if k = reps.length then reps ++ [n] else reps) rest
  | reps, _ :: rest => none :: classify reps rest

/-- the UUID text the driver uses for the k-th drawn UUID: `<Uk>` -/
def driverU (k : Nat) : Bytes := asc "<U" ++ decimal k ++ asc ">"

end RdfModel.BN
