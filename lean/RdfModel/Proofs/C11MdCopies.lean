/-
  Proofs/C11MdCopies — the cost of copying RecursedItemrefs (part C11MD, C05): before every itemref jump the Go
  decoder builds a fresh map and copies the current one into it.  The model counts the copied entries in `St.copies`.
  Total ≤ N · R (N nodes, R itemref tokens): the behaviour listed as C05X-microdata-itemref is QUADRATIC, not worse.

  Argument: a jump happens only while its item is being expanded (once per item: the potential `phiR` pays one unit
  per itemref token), and the map copied has at most as many entries as there are items under expansion on the call
  stack, i.e. at most N − (unresolved identities).
-/
import RdfModel.Proofs.C11MdSteps
namespace RdfModel.Mdd
open RdfModel RdfModel.Desc

/-- `st'` reachable from `st` with `b` copied entries beyond what the potential pays for; resolved only grows -/
def CostC (doc : Node) (b : Nat) (st st' : St) : Prop :=
  st'.copies + (subnodes doc).length * phiR doc st'.resolved ≤ st.copies + b + (subnodes doc).length * phiR doc st.resolved ∧
  unresR doc st'.resolved ≤ unresR doc st.resolved

/-- the RecursedItemrefs map is no larger than the number of identities already resolved -/
def InvC (doc : Node) (ctx : Ctx) (st : St) : Prop :=
  ctx.recursed.length + unresR doc st.resolved ≤ (subnodes doc).length

theorem costC_refl (doc : Node) (st : St) : CostC doc 0 st st := ⟨by omega, Nat.le_refl _⟩

theorem costC_trans {doc : Node} {b1 b2 : Nat} {a b c : St} (h1 : CostC doc b1 a b) (h2 : CostC doc b2 b c) :
    CostC doc (b1 + b2) a c := ⟨by have := h1.1; have := h2.1; omega, Nat.le_trans h2.2 h1.2⟩

theorem costC_skel {doc : Node} {a b : St} (h : b.skel = a.skel) : CostC doc 0 a b := by
  unfold CostC
  rw [skel_copies h, skel_resolved h]
  exact ⟨by omega, Nat.le_refl _⟩

theorem invC_mono {doc : Node} {ctx : Ctx} {a b : St} (h : unresR doc b.resolved ≤ unresR doc a.resolved)
    (i : InvC doc ctx a) : InvC doc ctx b := by unfold InvC at *; omega

def WCostC (w : Ctx → Node → St → St) (doc : Node) : Prop :=
  ∀ (ctx : Ctx) (n : Node) (st : St), n ∈ subnodes doc → InvC doc ctx st → CostC doc 0 st (w ctx n st)

theorem kids_costC {w : Ctx → Node → St → St} {doc : Node} (ih : WCostC w doc) (ctx : Ctx) (ks : List Node) (st : St)
    (hks : ∀ k ∈ ks, k ∈ subnodes doc) (hi : InvC doc ctx st) : CostC doc 0 st (walkKidsWith w ctx ks st) := by
  unfold walkKidsWith
  induction ks generalizing st with
  | nil => exact costC_refl doc st
  | cons k ks ihk =>
    simp only [List.foldl_cons]
    have h1 := ih ctx k st (hks k (by simp)) hi
    have h2 := ihk _ (fun x hx => hks x (by simp [hx])) (invC_mono h1.2 hi)
    exact costC_trans h1 h2

theorem itemrefs_costC {w : Ctx → Node → St → St} {doc : Node} (ih : WCostC w doc) (ctx : Ctx) (n : Node)
    (refs : List Bytes) (st : St)
    (hi : ctx.recursed.length + 1 + unresR doc st.resolved ≤ (subnodes doc).length) :
    CostC doc (refs.length * (subnodes doc).length) st (itemrefsWith w doc ctx n refs st) := by
  unfold itemrefsWith
  induction refs generalizing st with
  | nil => simpa using costC_refl doc st
  | cons ref refs ihr =>
    simp only [List.foldl_cons, List.length_cons]
    have hstep : CostC doc (subnodes doc).length st (itemrefStep w doc ctx n st ref) := by
      unfold itemrefStep
      split
      · exact ⟨by omega, Nat.le_refl _⟩
      · split
        · exact ⟨by omega, Nat.le_refl _⟩
        · rename_i target ht
          split
          · exact ⟨by omega, Nat.le_refl _⟩
          · split
            · exact ⟨by omega, Nat.le_refl _⟩
            · have := ih { ctx with recursed := ref :: ctx.recursed } target
                { st with copies := st.copies + ctx.recursed.length } (findId_mem ht)
                (by unfold InvC; simp only [List.length_cons]; omega)
              refine ⟨?_, this.2⟩
              have h1 := this.1
              simp only at h1
              omega
    have hi' : ctx.recursed.length + 1 + unresR doc (itemrefStep w doc ctx n st ref).resolved ≤ (subnodes doc).length := by
      have := hstep.2; omega
    have := costC_trans hstep (ihr _ hi')
    rw [Nat.succ_mul]
    exact ⟨by have := this.1; omega, this.2⟩

theorem expand_costC {E : Env} {w : Ctx → Node → St → St} {doc : Node} (ih : WCostC w doc) (ctx : Ctx) (n : Node)
    (a : ItemAttrs) (ha : a = scanAttrs n.attrs {}) (next : Subj) (st : St) (hn : n ∈ subnodes doc)
    (hun : lookupR st.resolved n.id = none) (hi : InvC doc ctx st) :
    CostC doc 0 st (expandItem E w doc ctx n a next st) := by
  unfold expandItem
  simp only
  generalize hR : (if a.itemtype ≠ [] then emitTypes E next (typeTokens a.itemtype) st else ([], st)) = R
  have hsk : R.2.skel = st.skel := by
    rw [← hR]; split
    · exact emitTypes_skel E _ _ st (typeTokens_ne _)
    · rfl
  have hun' : lookupR R.2.resolved n.id = none := by rw [skel_resolved hsk]; exact hun
  have hphi := phiR_cons doc n hn R.2.resolved next hun'
  have hlt := unresR_cons_lt doc n hn R.2.resolved next hun'
  generalize hS : ({ R.2 with resolved := (n.id, next) :: R.2.resolved, expansions := R.2.expansions + 1 } : St) = S
  have hSr : S.resolved = (n.id, next) :: R.2.resolved := by rw [← hS]
  have hSc : S.copies = R.2.copies := by rw [← hS]
  have hiS : ctx.recursed.length + 1 + unresR doc S.resolved ≤ (subnodes doc).length := by
    unfold InvC at hi
    rw [hSr]; rw [← skel_resolved hsk] at hi; omega
  have c1 : CostC doc 0 st (if a.itemref ≠ [] then
      itemrefsWith w doc { ctx with subj := some next, types := R.1 } n (fields (trimSpace a.itemref)) S else S) := by
    have hmul : (subnodes doc).length * (phiR doc S.resolved + refTok n) ≤ (subnodes doc).length * phiR doc R.2.resolved := by
      apply Nat.mul_le_mul_left; rw [hSr]; exact hphi
    rw [Nat.mul_add] at hmul
    have base : CostC doc ((subnodes doc).length * refTok n) S
        (if a.itemref ≠ [] then
          itemrefsWith w doc { ctx with subj := some next, types := R.1 } n (fields (trimSpace a.itemref)) S else S) := by
      split
      · have := itemrefs_costC ih { ctx with subj := some next, types := R.1 } n (fields (trimSpace a.itemref)) S hiS
        have hlen : (fields (trimSpace a.itemref)).length = refTok n := by rw [ha]; rfl
        rw [hlen, Nat.mul_comm] at this
        exact this
      · exact ⟨by omega, Nat.le_refl _⟩
    refine ⟨?_, ?_⟩
    · have := base.1
      rw [← skel_copies hsk, ← skel_resolved hsk]
      rw [hSc] at this
      omega
    · have := base.2
      rw [← skel_resolved hsk]
      rw [hSr] at this
      omega
  have c2 := kids_costC ih { ctx with subj := some next, types := R.1 } n.kids
    (if a.itemref ≠ [] then
      itemrefsWith w doc { ctx with subj := some next, types := R.1 } n (fields (trimSpace a.itemref)) S else S)
    (fun k hk => kid_sub hn hk) (invC_mono c1.2 hi)
  have := costC_trans c1 c2
  simpa using this

theorem step_costC {E : Env} {w : Ctx → Node → St → St} {doc : Node} (ih : WCostC w doc) : WCostC (walkStep E w doc) doc := by
  intro ctx n st hn hi
  have c0 : CostC doc 0 st { st with steps := st.steps + 1 } := ⟨by simp, Nat.le_refl _⟩
  have hi0 : InvC doc ctx { st with steps := st.steps + 1 } := hi
  unfold walkStep
  simp only
  generalize hS0 : ({ st with steps := st.steps + 1 } : St) = st0 at c0 hi0
  split
  · exact costC_trans c0 (kids_costC ih ctx n.kids st0 (fun k hk => kid_sub hn hk) hi0)
  · split
    · unfold visitItem
      simp only
      have hsub := itemSubject_skel E (scanAttrs n.attrs {}) (st0.lookup n.id) st0
      have hcop := itemSubject_copies E (scanAttrs n.attrs {}) (st0.lookup n.id) st0
      generalize hR : itemSubject E (scanAttrs n.attrs {}) (st0.lookup n.id) st0 = r at hsub hcop
      have hk := linkItem_skel E ctx (scanAttrs n.attrs {}) r.1 r.2
      have c1 : CostC doc 0 st0 (linkItem E ctx (scanAttrs n.attrs {}) r.1 r.2) := by
        unfold CostC
        rw [skel_copies hk, skel_resolved hk, hsub.1, hcop]
        exact ⟨by omega, Nat.le_refl _⟩
      split
      · exact costC_trans c0 c1
      · rename_i hnone
        have c2 := expand_costC (E := E) ih ctx n (scanAttrs n.attrs {}) rfl r.1 (linkItem E ctx (scanAttrs n.attrs {}) r.1 r.2) hn
          (by rw [skel_resolved hk, hsub.1]; exact hnone) (invC_mono c1.2 hi0)
        exact costC_trans (costC_trans c0 c1) c2
    · have c1 : CostC doc 0 st0 (propElem E ctx n (scanAttrs n.attrs {}) st0) := costC_skel (propElem_skel E ctx n _ st0)
      exact costC_trans (costC_trans c0 c1)
        (kids_costC ih ctx n.kids _ (fun k hk => kid_sub hn hk) (invC_mono c1.2 hi0))

theorem walk_costC (E : Env) (doc : Node) : ∀ f, WCostC (walk E doc f) doc := by
  intro f
  induction f with
  | zero =>
    intro ctx n st _ _
    show CostC doc _ st (st.fail .outOfFuel)
    exact ⟨by simp [St.fail], by simp [St.fail]⟩
  | succ f ih =>
    intro ctx n st hn hi
    show CostC doc _ st (walkStep E (walk E doc f) doc ctx n st)
    exact step_costC ih ctx n st hn hi

theorem run_copies_le (E : Env) (doc : Node) : (run E doc).copies ≤ (subnodes doc).length * refTokens doc := by
  have h := (walk_costC E doc (fuelFor doc) {} doc {} (self_mem doc)
    (by have := unres_init doc; unfold unres at this; unfold InvC; simpa using this)).1
  have h0 : ({} : St).resolved = [] := rfl
  have h1 : ({} : St).copies = 0 := rfl
  rw [h0, h1, phiR_nil] at h
  unfold run
  omega

end RdfModel.Mdd
