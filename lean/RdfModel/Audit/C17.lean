/-
  Audit for C17: axioms used by every theorem of Props/C17.lean
  (expected: a subset of {propext, Classical.choice, Quot.sound}).
-/
import RdfModel.Props.C17
open RdfModel RdfModel.C17

#print axioms RdfModel.C17.acyclic1_iff_no_cycle1
#print axioms RdfModel.C17.export_terminates_partial
#print axioms RdfModel.C17.export_fuel_irrelevant
#print axioms RdfModel.C17.export_diverges_of_cycle
#print axioms RdfModel.C17.export_diverges_witness
#print axioms RdfModel.C17.not_export_terminates_all
#print axioms RdfModel.C17.flatten_export_partial
#print axioms RdfModel.C17.two_cycle_dropped
#print axioms RdfModel.C17.not_flatten_export_all
#print axioms RdfModel.C17.dataset_flatten_export_partial
#print axioms RdfModel.C17.cross_graph_split
#print axioms RdfModel.C17.not_dataset_flatten_export_all
#print axioms RdfModel.C17.list_statement_flatten
#print axioms RdfModel.C17.list_statement_nil
#print axioms RdfModel.C17.export_terminates_repaired
#print axioms RdfModel.C17.flatten_export_repaired
#print axioms RdfModel.C17.dataset_flatten_export_repaired_partial
#print axioms RdfModel.C17.cross_graph_split_repaired
#print axioms RdfModel.C17.not_dataset_flatten_export_all_repaired
#print axioms RdfModel.C17.history_state
#print axioms RdfModel.C17.export_independent_of_history
#print axioms RdfModel.C17.abandoned_export_prefix
#print axioms RdfModel.C17.flatten_export_after_history
