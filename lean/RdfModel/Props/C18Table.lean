/-
  Property C18 (builder-c18miss): the label tables of the pipe's label providers are insert-only (T2).

  `Model/BlankNodes.lean` models `uuidStringProvider.known`, `int64StringProvider.known` and
  `factoryMapper.known` as association lists that only grow: `getLabel` / `mapNode` look a node up and, when it
  is absent, cons one entry (`model_uuid_table_grows` below states this for the model's UUID provider).
  `C18.pipe_labels_injective` (one source blank node never gets two labels) is a theorem about that model. The Go
  maps behave like the model's lists only while nothing removes entries; `Gen/TableFacts.lean` (regenerated from
  the Go source on every run by go/cmd/extract/gen_c18tbl.go, go/ast) lists every syntactic use of these map
  fields, and `label_tables_insert_only` decides that the only uses are `x.f[k]` reads and `x.f[k] = v` inserts.
  A `clear(sp.known)`, `delete`, `len`-driven eviction, `range`, or a re-made map changes the generated file
  and this theorem stops being provable (seeded defect C18r3-3: "table cleared at 4096 entries").
-/
import RdfModel.Gen.TableFacts
import RdfModel.Model.BlankNodes
namespace RdfModel.C18

/-- the tables the model has, as (struct, field) -/
def expectedTables : List (String × String) :=
  [ ("factoryMapper", "known"), ("int64StringProvider", "known"), ("uuidStringProvider", "known") ]

/-- insert-only: looked up, inserted into, initialised by exactly one composite literal (the constructor),
    and not used in any other way -/
def tableInsertOnly (t : Gen.TableFacts.TableFact) : Bool :=
  t.other == 0 && decide (t.reads ≥ 1) && decide (t.inserts ≥ 1) && t.inits == 1

/-- T2: every map-typed field of the label providers / the mapper is used insert-only, and these fields are
    exactly the tables of the model. -/
theorem label_tables_insert_only :
    Gen.TableFacts.tables.all tableInsertOnly = true ∧
    Gen.TableFacts.tables.map (fun t => (t.struct, t.field)) = expectedTables := by decide

open RdfModel.BN in
/-- Model side of the same fact: `GetBlankNodeString` never removes or changes an entry of a UUID provider's
    table — every provider that exists before the call exists after it, with the same format and a table that
    has the old one as a suffix. -/
theorem model_uuid_table_grows (U : Nat → Bytes) (s : State) (p : ProvRef) (n : Node) (i : Nat) (q : UuidProv)
    (h : s.uuids[i]? = some q) :
    ∃ q', (getLabel U s p n).1.uuids[i]? = some q' ∧ q'.format = q.format ∧ ∃ pre, q'.known = pre ++ q.known := by
  induction p generalizing s with
  | int64 j =>
    simp only [getLabel]
    split
    · exact ⟨q, h, rfl, [], rfl⟩
    · split
      · exact ⟨q, h, rfl, [], rfl⟩
      · exact ⟨q, h, rfl, [], rfl⟩
  | uuid j =>
    simp only [getLabel]
    split
    · exact ⟨q, h, rfl, [], rfl⟩
    · rename_i pj hj
      split
      · exact ⟨q, h, rfl, [], rfl⟩
      · by_cases hij : j = i
        · subst hij
          have hq : pj = q := by rw [hj] at h; exact Option.some.inj h
          subst hq
          have hlt : j < s.uuids.length := by
            rcases List.getElem?_eq_some_iff.mp hj with ⟨hl, _⟩; exact hl
          refine ⟨{ pj with known := (n, s.uuidPos) :: pj.known }, ?_, rfl, [(n, s.uuidPos)], rfl⟩
          simp [hlt]
        · refine ⟨q, ?_, rfl, [], rfl⟩
          simp [hij, h]
  | pass scope fallback ih =>
    simp only [getLabel]
    split
    · split
      · exact ⟨q, h, rfl, [], rfl⟩
      · exact ih s h
    · exact ih s h

open RdfModel.BN in
/-- non-vacuity of `model_uuid_table_grows`: a state with one UUID provider whose table already holds a node
    (the hypothesis `s.uuids[0]? = some q` with a non-empty `q.known`), asked for another node through the
    pass-through provider of a string factory — the table has two entries afterwards, the old one last. -/
example :
    let U : Nat → Bytes := fun k => [85, 48 + k]
    let s0 := exec U (init 0) [.newStringFactory, .propagate (some (.strf 0)),
      .getLabel (.pass 0 (.uuid 0)) (some (.bn 0 1))]
    s0.uuids[0]? = some { format := [37, 115], known := [(some (.bn 0 1), 0)] } ∧
    ((getLabel U s0 (.pass 0 (.uuid 0)) (some (.bn 0 2))).1.uuids[0]?).map (·.known) =
      some [(some (.bn 0 2), 1), (some (.bn 0 1), 0)] := by decide

end RdfModel.C18
