/-
  Part C12W — `ParsedIRI.ResolveReference` on a hierarchical base and a relative reference inside
  `ResolveLang`: the result is the `ParsedIRI` that `ParseIRI` builds from the RFC 3986 target.
-/
import RdfModel.Props.C12
import RdfModel.Proofs.C12WrapString
namespace RdfModel.C12W
open RdfModel.GoUrlFull RdfModel.PIRI
open RdfModel.Spec.RFC3986 (Parts recompose schemePart authorityPart queryPart fragmentPart resolveParts)

/-! ### the bytes and the first byte of `resolvePath` -/

theorem cutSlash_mem : ∀ (l : Str), (∀ x ∈ (RdfModel.IRI.cutSlash l).1, x ∈ l) ∧
    (∀ rest, (RdfModel.IRI.cutSlash l).2 = some rest → ∀ x ∈ rest, x ∈ l)
  | [] => by simp [RdfModel.IRI.cutSlash]
  | c :: l => by
    have ih := cutSlash_mem l
    unfold RdfModel.IRI.cutSlash
    split
    · simp only [List.not_mem_nil, false_imp_iff, implies_true, Option.some.injEq, true_and]
      intro rest hr x hx
      subst hr
      exact List.mem_cons_of_mem _ hx
    · refine ⟨?_, ?_⟩
      · intro x hx
        simp only [List.mem_cons] at hx ⊢
        rcases hx with hx | hx
        · exact Or.inl hx
        · exact Or.inr (ih.1 x hx)
      · intro rest hr x hx
        exact List.mem_cons_of_mem _ (ih.2 rest hr x hx)

theorem rpBody_mem (elem dst : Str) (first : Bool) :
    ∀ x ∈ (RdfModel.IRI.rpBody elem dst first).1, x ∈ dst ∨ x ∈ elem ∨ x = 0x2f := by
  intro x hx
  unfold RdfModel.IRI.rpBody at hx
  split at hx
  · exact Or.inl hx
  · split at hx
    · dsimp only at hx
      split at hx
      · simp only [List.mem_singleton] at hx; exact Or.inr (Or.inr hx)
      · simp only [List.mem_cons] at hx
        rcases hx with hx | hx
        · exact Or.inr (Or.inr hx)
        · exact Or.inl (List.mem_of_mem_drop (List.mem_of_mem_take hx))
    · simp only [List.mem_append] at hx
      rcases hx with hx | hx
      · cases first
        · simp only [Bool.false_eq_true, if_false, List.mem_append, List.mem_singleton] at hx
          rcases hx with hx | hx
          · exact Or.inl hx
          · exact Or.inr (Or.inr hx)
        · exact Or.inl (by simpa using hx)
      · exact Or.inr (Or.inl hx)

theorem rpLoop_mem : ∀ (fuel : Nat) (rem dst : Str) (first : Bool),
    ∀ x ∈ (RdfModel.IRI.rpLoop fuel rem dst first).1, x ∈ dst ∨ x ∈ rem ∨ x = 0x2f
  | 0, _, _, _ => by intro x hx; exact Or.inl (by simpa [RdfModel.IRI.rpLoop] using hx)
  | fuel + 1, rem, dst, first => by
    intro x hx
    unfold RdfModel.IRI.rpLoop at hx
    dsimp only at hx
    have hc := cutSlash_mem rem
    have hb := rpBody_mem (RdfModel.IRI.cutSlash rem).1 dst first
    split at hx
    · rename_i rest hr
      rcases rpLoop_mem fuel _ _ _ x hx with h | h | h
      · rcases hb x h with h | h | h
        · exact Or.inl h
        · exact Or.inr (Or.inl (hc.1 x h))
        · exact Or.inr (Or.inr h)
      · exact Or.inr (Or.inl (hc.2 rest hr x h))
      · exact Or.inr (Or.inr h)
    · rcases hb x hx with h | h | h
      · exact Or.inl h
      · exact Or.inr (Or.inl (hc.1 x h))
      · exact Or.inr (Or.inr h)

theorem rpFinish_mem (r : Str × Str) : ∀ x ∈ RdfModel.IRI.rpFinish r, x ∈ r.1 ∨ x = 0x2f := by
  intro x hx
  unfold RdfModel.IRI.rpFinish at hx
  dsimp only at hx
  have key : ∀ y ∈ (if r.2 = [0x2e] ∨ r.2 = [0x2e, 0x2e] then r.1 ++ [0x2f] else r.1), y ∈ r.1 ∨ y = 0x2f := by
    intro y hy
    split at hy
    · simpa using hy
    · exact Or.inl hy
  split at hx
  · exact key x (List.mem_of_mem_drop hx)
  · exact key x hx

theorem uptoLastSlash_mem (base : Str) : ∀ x ∈ RdfModel.IRI.uptoLastSlash base, x ∈ base := by
  intro x hx
  unfold RdfModel.IRI.uptoLastSlash at hx
  split at hx
  · exact List.mem_of_mem_take hx
  · simp at hx

theorem resolvePath_mem (base ref : Str) : ∀ x ∈ RdfModel.IRI.resolvePath base ref, x ∈ base ∨ x ∈ ref ∨ x = 0x2f := by
  intro x hx
  unfold RdfModel.IRI.resolvePath at hx
  dsimp only at hx
  split at hx
  · simp at hx
  · have hfull : ∀ y ∈ RdfModel.IRI.fullPath base ref, y ∈ base ∨ y ∈ ref := by
      intro y hy
      unfold RdfModel.IRI.fullPath at hy
      split at hy
      · exact Or.inl hy
      · split at hy
        · simp only [List.mem_append] at hy
          exact hy.imp (uptoLastSlash_mem base y) id
        · exact Or.inr hy
    rcases rpFinish_mem _ x hx with h | h
    · rcases rpLoop_mem _ _ _ _ x h with h | h | h
      · simp only [List.mem_singleton] at h; exact Or.inr (Or.inr h)
      · exact (hfull x h).imp id Or.inl
      · exact Or.inr (Or.inr h)
    · exact Or.inr (Or.inr h)

theorem rpBody_head (elem dst : Str) (first : Bool) (h : dst.head? = some 0x2f) :
    (RdfModel.IRI.rpBody elem dst first).1.head? = some 0x2f := by
  unfold RdfModel.IRI.rpBody
  split
  · exact h
  · split
    · dsimp only
      split <;> simp
    · cases dst with
      | nil => simp at h
      | cons c t => cases first <;> simpa using h

theorem rpLoop_head : ∀ (fuel : Nat) (rem dst : Str) (first : Bool), dst.head? = some 0x2f →
    (RdfModel.IRI.rpLoop fuel rem dst first).1.head? = some 0x2f
  | 0, _, _, _, h => by simpa [RdfModel.IRI.rpLoop] using h
  | fuel + 1, rem, dst, first, h => by
    unfold RdfModel.IRI.rpLoop
    have hb := rpBody_head (RdfModel.IRI.cutSlash rem).1 dst first h
    dsimp only
    split
    · exact rpLoop_head fuel _ _ _ hb
    · exact hb

theorem rpFinish_head (r : Str × Str) (h : r.1.head? = some 0x2f) : (RdfModel.IRI.rpFinish r).head? = some 0x2f := by
  unfold RdfModel.IRI.rpFinish
  dsimp only
  have key : (if r.2 = [0x2e] ∨ r.2 = [0x2e, 0x2e] then r.1 ++ [0x2f] else r.1).head? = some 0x2f := by
    split
    · cases hr : r.1 with
      | nil => rw [hr] at h; simp at h
      | cons c t => rw [hr] at h; simpa using h
    · exact h
  split
  · rename_i heq
    rw [heq]; simp
  · exact key

/-- `resolvePath` returns "" or a string starting with "/" -/
theorem resolvePath_head (base ref : Str) :
    RdfModel.IRI.resolvePath base ref = [] ∨ (RdfModel.IRI.resolvePath base ref).head? = some 0x2f := by
  unfold RdfModel.IRI.resolvePath
  dsimp only
  split
  · exact Or.inl rfl
  · exact Or.inr (rpFinish_head _ (rpLoop_head _ _ _ _ rfl))

end RdfModel.C12W
