/-
  C17 helper lemmas, part 13: histories on one builder — the state after any sequence of calls is
  `build` of the triples added, whatever exports (complete or abandoned) happened in between.
-/
import RdfModel.Proofs.C17VMain
namespace RdfModel.Proofs.C17
open RdfModel RdfModel.Desc RdfModel.C17

variable {β : Type} [DecidableEq β]

theorem add_append (B : Builder β) (t₁ t₂ : List (Triple β)) : (B.add t₁).add t₂ = B.add (t₁ ++ t₂) := by
  simp [Builder.add, List.foldl_append]

theorem run_eq_add (h : List (HStep β)) : ∀ B : Builder β, B.run h = B.add (addedBy h) := by
  induction h with
  | nil => intro B; rfl
  | cons st h ih =>
    intro B
    have : B.run (st :: h) = (B.hstep st).run h := rfl
    rw [this, ih]
    cases st with
    | add ts => simp [Builder.hstep, addedBy, HStep.added, add_append]
    | exportRs o a b k => simp [Builder.hstep, addedBy, HStep.added]
    | exportOne o s => simp [Builder.hstep, addedBy, HStep.added]

theorem run_empty (h : List (HStep β)) : Builder.empty.run h = build (addedBy h) := run_eq_add h _

end RdfModel.Proofs.C17
