/-
  Helper lemmas for C12: Appendix-B splitting and recomposition (`recompose (split s) = s`).
-/
import RdfModel.Spec.RFC3986
namespace RdfModel.Proofs.C12
open RdfModel.Spec.RFC3986

theorem dropWhile_head_false {p : Nat → Bool} : ∀ {l : Str} {c : Nat} {t : Str},
    l.dropWhile p = c :: t → p c = false := by
  intro l
  induction l with
  | nil => intro c t h; simp at h
  | cons x xs ih =>
    intro c t h
    by_cases hx : p x = true
    · rw [List.dropWhile_cons_of_pos hx] at h; exact ih h
    · rw [List.dropWhile_cons_of_neg hx] at h
      injection h with h1 _
      subst h1; simpa using hx

theorem splitScheme_some {s x r : Str} (h : splitScheme s = (some x, r)) :
    x ++ cColon :: r = s ∧ x ≠ [] ∧ x = s.takeWhile notGenDelim := by
  unfold splitScheme at h
  have ht := List.takeWhile_append_dropWhile (p := notGenDelim) (l := s)
  cases hd : s.dropWhile notGenDelim with
  | nil => rw [hd] at h; simp at h
  | cons c rest =>
    rw [hd] at h
    simp only at h
    by_cases hc : c = cColon ∧ s.takeWhile notGenDelim ≠ []
    · simp only [hc, ne_eq, not_false_eq_true, and_self, if_true] at h
      injection h with h1 h2
      injection h1 with h1
      subst h1 h2
      rw [hd, hc.1] at ht
      exact ⟨ht, hc.2, rfl⟩
    · rw [if_neg hc] at h; simp at h

theorem splitScheme_none {s r : Str} (h : splitScheme s = (none, r)) : r = s := by
  unfold splitScheme at h
  cases hd : s.dropWhile notGenDelim with
  | nil => rw [hd] at h; simp at h; exact h.symm
  | cons c rest =>
    rw [hd] at h
    simp only at h
    by_cases hc : c = cColon ∧ s.takeWhile notGenDelim ≠ []
    · rw [if_pos hc] at h; simp at h
    · rw [if_neg hc] at h; simp at h; exact h.symm

theorem splitAuthority_some {s a r : Str} (h : splitAuthority s = (some a, r)) :
    cSlash :: cSlash :: (a ++ r) = s := by
  unfold splitAuthority at h
  match s, h with
  | [], h => simp at h
  | [_], h => simp at h
  | x :: y :: rest, h =>
    simp only at h
    by_cases hc : x = cSlash ∧ y = cSlash
    · rw [if_pos hc] at h
      injection h with h1 h2
      injection h1 with h1
      subst h1 h2
      rw [List.takeWhile_append_dropWhile, hc.1, hc.2]
    · rw [if_neg hc] at h; simp at h

theorem splitAuthority_none {s r : Str} (h : splitAuthority s = (none, r)) : r = s := by
  unfold splitAuthority at h
  match s, h with
  | [], h => simp at h; exact h
  | [_], h => simp at h; exact h.symm
  | x :: y :: rest, h =>
    simp only at h
    by_cases hc : x = cSlash ∧ y = cSlash
    · rw [if_pos hc] at h; simp at h
    · rw [if_neg hc] at h; simp at h; exact h.symm

theorem splitQuery_some {s q r : Str} (h : splitQuery s = (some q, r)) :
    cQuest :: (q ++ r) = s ∧ (r = [] ∨ ∃ t, r = cHash :: t) := by
  unfold splitQuery at h
  match s, h with
  | [], h => simp at h
  | c :: rest, h =>
    simp only at h
    by_cases hc : c = cQuest
    · rw [if_pos hc] at h
      injection h with h1 h2
      injection h1 with h1
      subst h1 h2
      refine ⟨by rw [List.takeWhile_append_dropWhile, hc], ?_⟩
      cases hd : rest.dropWhile notH with
      | nil => left; rfl
      | cons c2 t =>
        right
        have h2 := dropWhile_head_false hd
        simp [notH] at h2
        exact ⟨t, by rw [h2]⟩
    · rw [if_neg hc] at h; simp at h

theorem splitQuery_none {s r : Str} (h : splitQuery s = (none, r)) :
    r = s ∧ s.head? ≠ some cQuest := by
  unfold splitQuery at h
  match s, h with
  | [], h => simp at h; exact ⟨h, by simp⟩
  | c :: rest, h =>
    simp only at h
    by_cases hc : c = cQuest
    · rw [if_pos hc] at h; simp at h
    · rw [if_neg hc] at h; simp at h; exact ⟨h.symm, by simpa using hc⟩

/-- after the path, what remains is empty or starts with `?` or `#` -/
theorem afterPath_shape (r2 : Str) :
    r2.dropWhile notQH = [] ∨ (∃ t, r2.dropWhile notQH = cQuest :: t) ∨ ∃ t, r2.dropWhile notQH = cHash :: t := by
  cases hd : r2.dropWhile notQH with
  | nil => left; rfl
  | cons c t =>
    have hc := dropWhile_head_false hd
    simp [notQH] at hc
    by_cases h1 : c = cQuest
    · right; left; exact ⟨t, by rw [h1]⟩
    · right; right; exact ⟨t, by rw [hc h1]⟩

theorem splitFragment_hash (t : Str) : splitFragment (cHash :: t) = some t := by simp [splitFragment]
theorem splitFragment_nil : splitFragment [] = none := rfl

theorem tail_recompose (r2 : Str) (qu : Option Str) (r4 : Str) :
    splitQuery (r2.dropWhile notQH) = (qu, r4) →
    queryPart qu ++ fragmentPart (splitFragment r4) = r2.dropWhile notQH := by
  intro hq
  cases qu with
  | some q =>
    obtain ⟨h1, h2⟩ := splitQuery_some hq
    rcases h2 with h2 | ⟨t, h2⟩
    · subst h2; simpa [splitFragment, queryPart, fragmentPart] using h1
    · subst h2; simpa [splitFragment, queryPart, fragmentPart] using h1
  | none =>
    obtain ⟨h1, h2⟩ := splitQuery_none hq
    subst h1
    rcases afterPath_shape r2 with h | ⟨t, h⟩ | ⟨t, h⟩
    · simp [h, splitFragment, queryPart, fragmentPart]
    · rw [h] at h2; simp at h2
    · simp [h, splitFragment, queryPart, fragmentPart]

/-- C12: parsing a reference into its five components and printing it again is the identity. -/
theorem recompose_split (s : Str) : recompose (split s) = s := by
  unfold split recompose
  simp only
  rcases hsc : splitScheme s with ⟨sc, r1⟩
  rcases hau : splitAuthority r1 with ⟨au, r2⟩
  rcases hq : splitQuery (r2.dropWhile notQH) with ⟨qu, r4⟩
  simp only
  have e3 := List.takeWhile_append_dropWhile (p := notQH) (l := r2)
  have e4 := tail_recompose r2 qu r4 hq
  simp only [List.append_assoc]
  rw [e4, e3]
  cases sc with
  | some x =>
    have h1 := (splitScheme_some hsc).1
    cases au with
    | some a => have h2 := splitAuthority_some hau; rw [← h1, ← h2]; simp [schemePart, authorityPart]
    | none => have h2 := splitAuthority_none hau; rw [← h1, h2]; simp [schemePart, authorityPart]
  | none =>
    have h1 := splitScheme_none hsc
    cases au with
    | some a => have h2 := splitAuthority_some hau; rw [← h1, ← h2]; simp [schemePart, authorityPart]
    | none => have h2 := splitAuthority_none hau; rw [← h1, h2]; simp [schemePart, authorityPart]

end RdfModel.Proofs.C12
