/-
  Properties C02 / C08, token layer — the table facts for the tables regenerated from /repo on this
  run (T1). Every proof is `decide` on a Boolean check over the table *entries* (never over code
  points); checkers and soundness lemmas are in `Proofs/C02TokCheck.lean`.
-/
import RdfModel.Props.C02TokensDefs
import RdfModel.Gen.TtlTables
import RdfModel.Proofs.C02TokCheck
namespace RdfModel.C02
open RdfModel RdfModel.Ttl

theorem gen_turtle_ok : TablesOK Gen.turtle :=
  Proofs.C02Tok.tablesOK_of_chk _ (by decide)

theorem gen_trig_ok : TablesOK Gen.trig :=
  Proofs.C02Tok.tablesOK_of_chk _ (by decide)

/-- The extractor found `prefixLocalNameMustEscapeRune(r, pos, length)` to depend on `(pos == 0,
    pos == length-1)` only, on every probed instance (the model's `localEsc` has that shape). -/
theorem gen_localEsc_consistent : Gen.turtle_localEsc_consistent = true := by decide

/-! ### Non-vacuity of the hypotheses, and the repaired behaviour at the defect witnesses (D4–D6) -/

/-- A local name exercising every rule: leading '-', inner '.', '%', ':', '~', final '.'. -/
example : PNLocalOK Gen.turtle (asc "-a.b%c:~d.") = true := by decide
example : format_PN_LOCAL Gen.turtle (asc "-a.b%c:~d.") = some (asc "\\-a.b\\%c:\\~d\\.") := by decide
example : prefixOK Gen.turtle (asc "a.b-c") = true ∧ prefixOK Gen.turtle [] = true := by decide
example : LocalStop Gen.turtle .eof [0x20, 0x2e] := by simp only [LocalStop]; decide
example : LocalStop Gen.turtle .eof [] := rfl
example : LocalStop Gen.trig .ioerr [0x0a] := by simp only [LocalStop]; decide
example : NumStop .eof [0x20, 0x2e] := by simp only [NumStop]; decide
example : NumStop .eof [0x2e, 0x20] := by simp only [NumStop]; decide
example : NumStop .ioerr [0x3b] := by simp only [NumStop]; decide
example : langOK (asc "en-Latn-US-x-a1") = true := by decide
example : labelOK Gen.turtle (asc "b0.x-1") = true := by decide

/-- D5, repaired: a leading '-' is escaped; a non-PN_CHARS rune that is an IRI character (U+00D7)
    makes the name unrepresentable (the encoder then writes `<…>`); a rune that is not an IRI
    character at all (space) is percent-encoded — the one place where the written name differs from
    the input, excluded by `PNLocalOK` (and by well-formedness of the IRI). -/
theorem d5_witness :
    format_PN_LOCAL Gen.turtle (asc "-a") = some (asc "\\-a") ∧
    format_PN_LOCAL Gen.turtle [0x61, 0xd7] = none ∧
    format_PN_LOCAL Gen.turtle [0xb7, 0x61] = none ∧
    format_PN_LOCAL Gen.turtle (asc "a b") = some (asc "a%20b") ∧
    PNLocalOK Gen.turtle (asc "a b") = false := by decide

/-- `r = .ok v rest`, as a Boolean (`Res` carries no decidable equality). -/
def okIs {α : Type} [BEq α] (r : Res α) (v : α) (rest : List Nat) : Bool :=
  match r with
  | .ok v' r' => v' == v && r' == rest
  | _ => false

/-- D6, repaired: `:\.` is the local name "." (the unrepaired code indexed a slice at −1 here);
    `:c\.` keeps its dot; an unescaped final '.' is handed back. Both packages. -/
theorem d6_witness :
    [Gen.turtle, Gen.trig].all (fun T =>
      okIs (producePrefixedName T .eof (asc ":\\. .")) ([], asc ".") (asc " .") &&
      okIs (producePrefixedName T .eof (asc ":c\\. .")) ([], asc "c.") (asc " .") &&
      okIs (producePrefixedName T .eof (asc "p:c. ")) (asc "p", asc "c") (asc ". ")) = true := by
  decide

/-- D4, repaired: no shorthand for xsd:long, none when the lexical form is not a token of the
    datatype's grammar rule. -/
theorem d4_witness :
    literalShorthand xsdLong (asc "5") = false ∧
    literalShorthand xsdDecimal (asc "5") = false ∧
    literalShorthand xsdBoolean (asc "1") = false ∧
    literalShorthand xsdInteger (asc "abc") = false ∧
    literalShorthand xsdDouble (asc "INF") = false ∧
    literalShorthand xsdInteger (asc "+5") = true ∧
    literalShorthand xsdDecimal (asc ".5") = true ∧
    literalShorthand xsdDouble (asc "5.e0") = true ∧
    literalShorthand xsdBoolean (asc "false") = true := by decide

end RdfModel.C02
