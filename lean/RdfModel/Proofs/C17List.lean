/-
  C17 helper lemmas, part 8: rdfdescriptionutil.NewObjectValueListStatement flattens to an RDF collection.
-/
import RdfModel.Proofs.C17Walk
namespace RdfModel.Proofs.C17
open RdfModel RdfModel.Desc RdfModel.C17

variable {β : Type}

/-- The collection triples for `v :: vs` with cells `fresh k, fresh (k+1), …` in the order the Go code
    emits them: a cell's rdf:first, then the rest of the list, then the cell's rdf:rest link. -/
def listTriples : Nat → Term β → List (Term β) → List (Triple (BN β))
  | k, v, [] =>
    [⟨Term.bnode (BN.fresh k), rdfFirst, v.map BN.orig⟩, ⟨Term.bnode (BN.fresh k), rdfRest, Term.iri rdfNil⟩]
  | k, v, w :: ws =>
    ⟨Term.bnode (BN.fresh k), rdfFirst, v.map BN.orig⟩ ::
      (listTriples (k + 1) w ws ++ [⟨Term.bnode (BN.fresh k), rdfRest, Term.bnode (BN.fresh (k + 1))⟩])

theorem listCells_flatten : ∀ (vs : List (Term β)) (v : Term β) (k : Nat),
    stmtsNewTriples (Term.bnode (BN.fresh k)) (listCells v vs) (k + 1) =
      (listTriples k v vs, k + 1 + vs.length) := by
  intro vs
  induction vs with
  | nil =>
    intro v k
    simp [listCells, listCell, stmtsNewTriples_cons, stmtsNewTriples_nil, newTriples_obj, listTriples, Term.map]
  | cons w ws ih =>
    intro v k
    simp only [listCells, listCell, stmtsNewTriples_cons, stmtsNewTriples_nil, newTriples_obj, newTriples_anon,
      ih w (k + 1), listTriples, List.length_cons, List.append_nil, List.cons_append, List.nil_append]
    refine Prod.ext rfl ?_
    simp only
    omega

theorem listStatement_flatten (x : Term (BN β)) (p : List Nat) (v : Term β) (vs : List (Term β)) (n : Nat) :
    Stmt.newTriples x (listStatement p (v :: vs)) n =
      (listTriples n v vs ++ [⟨x, p, Term.bnode (BN.fresh n)⟩], n + 1 + vs.length) := by
  simp [listStatement, newTriples_anon, listCells_flatten]

theorem listStatement_nil_flatten (x : Term (BN β)) (p : List Nat) (n : Nat) :
    Stmt.newTriples x (listStatement (β := β) p []) n = ([⟨x, p, Term.iri rdfNil⟩], n) := by
  simp [listStatement, newTriples_obj, Term.map]

end RdfModel.Proofs.C17
