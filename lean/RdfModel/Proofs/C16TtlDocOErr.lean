/-
  Proofs for Props/C16TtlDocO.lean, part 3: OFFSETS ATTACHED TO ERRORS lie inside the document, and the
  rune buffer's byte offset accounts for every rune (capture on or off).  Size-based: `EOff.bound`
  (Props/C16Defs.lean) is the byte position an error offset refers to (for a range: its larger end),
  relative to the start of the input.  Core tactics only.

  The seven `produceX_errP` lemmas are the top-level lemmas of Proofs/C16TtlErr.lean restated with the
  weaker hypothesis their proofs actually use (`Pend s 0`: the writer holds at most what the rune
  buffer has handed out) instead of `InStep s` (exactly that much): after the reader has ended the
  statement layer may have read white space that is never committed.
-/
import RdfModel.Props.C16TtlDocODefs
import RdfModel.Proofs.C16TtlErr
import RdfModel.Proofs.C16TtlDocOInv
namespace RdfModel.Proofs.C16TtlDocO
section producers
open RdfModel RdfModel.TW RdfModel.NQO RdfModel.TtlO
open RdfModel.Proofs.C16Ttl RdfModel.Proofs.C16 RdfModel.C16

theorem produceIRIREF_errP (T : Tables) (e : End) (s : S) (inp : List RP) (c : EClass) (o : EOff)
    (hp0 : Pend s 0) (h : TtlO.produceIRIREF T e s inp = .err c o) : EOff.bound o ≤ s.bo + size inp := by
  cases inp with
  | nil => simp [TtlO.produceIRIREF] at h; simp [← h.2, EOff.bound]
  | cons r rest =>
    simp only [TtlO.produceIRIREF] at h
    split at h
    · have := scanIRIREF_err _ _ _ _ _ _ _ _ _ (by pend_next hp0) h
      simp at this ⊢; omega
    · err_here h hp0

theorem produceString_errP (T : Tables) (e : End) (s : S) (inp : List RP) (c : EClass) (o : EOff)
    (hp0 : Pend s 0) (h : TtlO.produceString T e false s inp = .err c o) :
    EOff.bound o ≤ s.bo + size inp := by
  cases inp with
  | nil => simp [TtlO.produceString] at h; simp [← h.2, EOff.bound]
  | cons q r =>
    simp only [TtlO.produceString] at h
    split at h
    · cases r with
      | nil => err_here h hp0
      | cons c1 r1 =>
        simp only at h
        split at h
        · cases r1 with
          | nil =>
            cases e
            · simp [done] at h
            · err_here h hp0
          | cons c2 r2 =>
            simp only at h
            split at h
            · have := scanString_err _ _ _ _ _ _ _ _ _ _ _ (by pend_next hp0) h
              simp at this ⊢; omega
            · simp [done] at h
        · have := scanString_err _ _ _ _ _ _ _ _ _ _ _ (by pend_next hp0) h
          simp at this ⊢; omega
    · err_here h hp0

theorem produceLANGTAG_errP (e : End) (s : S) (inp : List RP) (c : EClass) (o : EOff)
    (hp0 : Pend s 0) (h : TtlO.produceLANGTAG e s inp = .err c o) : EOff.bound o ≤ s.bo + size inp := by
  cases inp with
  | nil => simp [TtlO.produceLANGTAG] at h; simp [← h.2, EOff.bound]
  | cons r rest =>
    simp only [TtlO.produceLANGTAG] at h
    split at h
    · have := langPrimary_err _ _ _ _ _ _ _ (by pend_next hp0) h
      simp at this ⊢; omega
    · err_here h hp0

theorem produceBlankNode_errP (T : Tables) (e : End) (labelOnly : Bool) (s : S) (inp : List RP)
    (c : EClass) (o : EOff) (hp0 : Pend s 0)
    (h : TtlO.produceBlankNode T e labelOnly s inp = .err c o) : EOff.bound o ≤ s.bo + size inp := by
  cases inp with
  | nil => simp [TtlO.produceBlankNode] at h; simp [← h.2, EOff.bound]
  | cons c0 r0 =>
    simp only [TtlO.produceBlankNode] at h
    split at h
    · err_here h hp0
    · cases r0 with
      | nil => err_here h hp0
      | cons c1 r1 =>
        simp only at h
        split at h
        · err_here h hp0
        · cases r1 with
          | nil => err_here h hp0
          | cons c2 r2 =>
            simp only at h
            split at h
            · have := bnLoop_err _ _ _ _ _ _ _ _ _ (by
                intro hh hd
                cases hd0 : s.doc with
                | none => simp [hd0] at hd
                | some h0 =>
                  have := hp0 h0 hd0
                  simp [hd0] at hd
                  subst hd
                  simp; omega) h
              simp at this ⊢; omega
            · err_here h hp0

theorem produceNumericLiteral_errP (e : End) (s : S) (inp : List RP) (c : EClass) (o : EOff)
    (hp0 : Pend s 0) (h : TtlO.produceNumericLiteral e s inp = .err c o) :
    EOff.bound o ≤ s.bo + size inp := by
  cases inp with
  | nil => simp [TtlO.produceNumericLiteral] at h; simp [← h.2, EOff.bound]
  | cons r rest =>
    simp only [TtlO.produceNumericLiteral] at h
    split at h
    · have := scanNum_err _ _ _ _ _ _ _ _ (by pend_next hp0) h
      simp at this ⊢; omega
    · split at h
      · have := scanNum_err _ _ _ _ _ _ _ _ (by pend_next hp0) h
        simp at this ⊢; omega
      · err_here h hp0

theorem producePNAME_NS_errP (T : Tables) (e : End) (trig : Bool) (s : S) (inp : List RP) (c : EClass)
    (o : EOff) (hp0 : Pend s 0) (h : TtlO.producePNAME_NS T e trig s inp = .err c o) :
    EOff.bound o ≤ s.bo + size inp := by
  cases inp with
  | nil => simp [TtlO.producePNAME_NS] at h; simp [← h.2, EOff.bound]
  | cons r rest =>
    simp only [TtlO.producePNAME_NS] at h
    split at h
    · simp [done] at h
    · split at h
      · have := pnameNsLoop_err _ _ _ _ _ _ _ _ _ (by pend_next hp0) h
        simp at this ⊢; omega
      · err_here h hp0

theorem producePrefixedName_errP (T : Tables) (e : End) (trig : Bool) (s : S) (inp : List RP)
    (c : EClass) (o : EOff) (hp0 : Pend s 0)
    (h : TtlO.producePrefixedName T e trig s inp = .err c o) : EOff.bound o ≤ s.bo + size inp := by
  unfold TtlO.producePrefixedName at h
  cases hn : TtlO.producePNAME_NS T e trig s inp with
  | err c' o' =>
    simp only [hn, TtlO.RO.err.injEq] at h
    obtain ⟨rfl, rfl⟩ := h
    exact producePNAME_NS_errP _ _ _ _ _ _ _ hp0 hn
  | panic => simp [hn] at h
  | ok nsv rgNs s1 rest1 =>
    simp only [hn] at h
    obtain ⟨ns, ⟨rfl, rfl, rfl⟩, -⟩ := producePNAME_NS_ok _ _ _ _ _ _ _ _ _ hn
    cases hl : TtlO.scanLocal T e .first ⟨s.bo + size ns, s.doc.map (fun h => ns :: h)⟩ rest1 [] false [] with
    | ok loc rgLoc s2 rest2 => simp [hl] at h
    | panic => simp [hl] at h
    | err c' o' =>
      simp only [hl, TtlO.RO.err.injEq] at h
      obtain ⟨rfl, rfl⟩ := h
      have := scanLocal_err _ _ _ _ _ _ _ _ _ _ (by
        intro hh hd
        cases hd0 : s.doc with
        | none => simp [hd0] at hd
        | some h0 =>
          have := hp0 h0 hd0
          simp [hd0] at hd
          subst hd
          simp; omega) hl
      simp at this ⊢; omega

end producers

section statements
open RdfModel RdfModel.TW RdfModel.NQO RdfModel.TtlDoc RdfModel.TtlDocO RdfModel.C16TtlDocO
open RdfModel.Proofs.C16Ttl RdfModel.Proofs.C16 RdfModel.C16

@[simp] theorem bo_read (s : S) (c : RP) : (s.read c).bo = s.bo + c.2 := rfl
@[simp] theorem bo_readL (s : S) (l : List RP) : (readL s l).bo = s.bo + size l := rfl
@[simp] theorem bo_commit (s : S) (ch : Chunk) : (s.commit ch).bo = s.bo := rfl
@[simp] theorem doc_read (s : S) (c : RP) : (s.read c).doc = s.doc := rfl
@[simp] theorem doc_readL (s : S) (l : List RP) : (readL s l).doc = s.doc := rfl

/-- bound of a range error -/
def RgB (rg : Rg) (n : Nat) : Prop := EOff.bound (rangeErr rg) ≤ n

theorem rgB_none (n : Nat) : RgB none n := Nat.zero_le _

/-- a producer call: byte accounting and `Pend` for a success, bound for an error -/
def ROB {α : Type} (s : S) (inp : List RP) (r : TtlO.RO α) : Prop :=
  (∀ v rg s' rest, r = .ok v rg s' rest →
    s'.bo + size rest = s.bo + size inp ∧ Pend s' 0 ∧ RgB rg (s.bo + size inp)) ∧
  (∀ c o, r = .err c o → EOff.bound o ≤ s.bo + size inp)

theorem oneChunk_B {s s' : S} {inp tok rest : List RP} {rg : Rg} (hP : Pend s 0)
    (h : OneChunk s inp tok rg s' rest) :
    s'.bo + size rest = s.bo + size inp ∧ Pend s' 0 ∧ RgB rg (s.bo + size inp) := by
  obtain ⟨rfl, rfl, rfl⟩ := h
  refine ⟨by simp; omega, ?_, ?_⟩
  · intro h' hd
    cases hs : s.doc with
    | none => simp [hs] at hd
    | some d =>
      simp only [hs, Option.map_some, Option.some.injEq] at hd
      subst hd
      have := hP d hs
      simp [histRunes]; omega
  · cases hs : s.doc with
    | none => simp [RgB, rangeErr, EOff.bound]
    | some d =>
      have := hP d hs
      simp [RgB, rangeErr, EOff.bound, histRunes]; omega

theorem twoChunk_B {w : Bool} {s s' : S} {inp pre body rest : List RP} {rg : Rg} (hP : Pend s 0)
    (h : TwoChunk w s inp pre body rg s' rest) :
    s'.bo + size rest = s.bo + size inp ∧ Pend s' 0 ∧ RgB rg (s.bo + size inp) := by
  obtain ⟨rfl, rfl, rfl⟩ := h
  refine ⟨by simp; omega, ?_, ?_⟩
  · intro h' hd
    cases hs : s.doc with
    | none => simp [hs] at hd
    | some d =>
      simp only [hs, Option.map_some, Option.some.injEq] at hd
      subst hd
      have := hP d hs
      simp [histRunes]; omega
  · cases hs : s.doc with
    | none => simp [RgB, rangeErr, EOff.bound]
    | some d =>
      have := hP d hs
      cases w <;> simp [RgB, rangeErr, EOff.bound, histRunes] <;> omega

theorem iriref_ROB (T : Ttl.Tables) (e : End) {s : S} (hP : Pend s 0) (inp : List RP) :
    ROB s inp (TtlO.produceIRIREF T e s inp) :=
  ⟨fun v rg s' rest h => by
      obtain ⟨tok, h1, _⟩ := produceIRIREF_ok _ _ _ _ _ _ _ _ h
      exact oneChunk_B hP h1,
   fun c o h => produceIRIREF_errP _ _ _ _ _ _ hP h⟩

theorem string_ROB (T : Ttl.Tables) (e : End) {s : S} (hP : Pend s 0) (inp : List RP) :
    ROB s inp (TtlO.produceString T e false s inp) :=
  ⟨fun v rg s' rest h => by
      obtain ⟨tok, q, h1, _⟩ := produceString_ok _ _ _ _ _ _ _ _ h
      exact oneChunk_B hP h1,
   fun c o h => produceString_errP _ _ _ _ _ _ hP h⟩

theorem pnameNS_ROB (T : Ttl.Tables) (e : End) (trig : Bool) {s : S} (hP : Pend s 0) (inp : List RP) :
    ROB s inp (TtlO.producePNAME_NS T e trig s inp) :=
  ⟨fun v rg s' rest h => by
      obtain ⟨tok, h1, _⟩ := producePNAME_NS_ok _ _ _ _ _ _ _ _ _ h
      exact oneChunk_B hP h1,
   fun c o h => producePNAME_NS_errP _ _ _ _ _ _ _ hP h⟩

theorem pname_ROB (T : Ttl.Tables) (e : End) (trig : Bool) {s : S} (hP : Pend s 0) (inp : List RP) :
    ROB s inp (TtlO.producePrefixedName T e trig s inp) :=
  ⟨fun v rg s' rest h => by
      obtain ⟨a, b, h1, _⟩ := producePrefixedName_ok _ _ _ _ _ _ _ _ _ h
      exact twoChunk_B hP h1,
   fun c o h => producePrefixedName_errP _ _ _ _ _ _ _ hP h⟩

theorem bnode_ROB (T : Ttl.Tables) (e : End) {s : S} (hP : Pend s 0) (inp : List RP) :
    ROB s inp (TtlO.produceBlankNode T e false s inp) :=
  ⟨fun v rg s' rest h => by
      obtain ⟨c0, c1, lab, h1, _⟩ := produceBlankNode_ok _ _ _ _ _ _ _ _ _ h
      exact twoChunk_B hP h1,
   fun c o h => produceBlankNode_errP _ _ _ _ _ _ _ hP h⟩

theorem langtag_ROB (e : End) {s : S} (hP : Pend s 0) (inp : List RP) :
    ROB s inp (TtlO.produceLANGTAG e s inp) :=
  ⟨fun v rg s' rest h => by
      obtain ⟨a0, tag, h1, _⟩ := produceLANGTAG_ok _ _ _ _ _ _ _ h
      exact twoChunk_B hP h1,
   fun c o h => produceLANGTAG_errP _ _ _ _ _ hP h⟩

theorem numeric_ROB (e : End) {s : S} (hP : Pend s 0) (inp : List RP) :
    ROB s inp (TtlO.produceNumericLiteral e s inp) :=
  ⟨fun v rg s' rest h => by
      obtain ⟨tok, h1, _⟩ := produceNumericLiteral_ok _ _ _ _ _ _ _ h
      exact oneChunk_B hP h1,
   fun c o h => produceNumericLiteral_errP _ _ _ _ _ hP h⟩

def IriB (s : S) (inp : List RP) (r : IriResO) : Prop :=
  (∀ i rg s' rest, r = .ok i rg s' rest → s'.bo + size rest = s.bo + size inp ∧ Pend s' 0) ∧
  (∀ c o, r = .err c o → EOff.bound o ≤ s.bo + size inp)

def TermB (s : S) (inp : List RP) (r : TermResO) : Prop :=
  (∀ t rg s' rest env', r = .ok t rg s' rest env' → s'.bo + size rest = s.bo + size inp ∧ Pend s' 0) ∧
  (∀ c o, r = .err c o → EOff.bound o ≤ s.bo + size inp)

/-- a scan function: byte accounting and `Pend` when it returns normally, bound when it fails -/
def StepB (s : S) (inp : List RP) (res : FnResO) : Prop :=
  (∀ o, res = .ok o → o.s.bo + size o.inp = s.bo + size inp ∧ Pend o.s 0) ∧
  (∀ k eo, res = .err k eo → EOff.bound eo ≤ s.bo + size inp)

theorem stepB_ok {s : S} {inp : List RP} {o : OutO} (h1 : o.s.bo + size o.inp = s.bo + size inp)
    (h2 : Pend o.s 0) : StepB s inp (.ok o) :=
  ⟨fun o' h => (by cases h; exact ⟨h1, h2⟩), fun k eo h => (by cases h)⟩

theorem stepB_err {s : S} {inp : List RP} {k : TtlDoc.EClass} {eo : EOff} (h : EOff.bound eo ≤ s.bo + size inp) :
    StepB s inp (.err k eo) :=
  ⟨fun o' h => (by cases h), fun k' eo' h' => (by cases h'; exact h)⟩

theorem stepB_errNone (s : S) (inp : List RP) (k : TtlDoc.EClass) : StepB s inp (.err k .none) :=
  stepB_err (Nat.zero_le _)

theorem stepB_panic (s : S) (inp : List RP) : StepB s inp .panic :=
  ⟨fun o' h => (by cases h), fun k' eo' h' => (by cases h')⟩

theorem iriIRIREFO_B (C : CfgO) (e : End) (env : Env) {s : S} (hP : Pend s 0) (inp : List RP) :
    IriB s inp (iriIRIREFO C e env s inp) := by
  obtain ⟨h1, h2⟩ := iriref_ROB C.T e hP inp
  unfold iriIRIREFO
  cases hp : TtlO.produceIRIREF C.T e s inp with
  | panic => exact ⟨fun _ _ _ _ h => (by cases h), fun _ _ h => (by cases h)⟩
  | err c o => exact ⟨fun _ _ _ _ h => (by cases h), fun _ _ h => (by cases h; exact h2 _ _ hp)⟩
  | ok v rg s' rest =>
    obtain ⟨g1, g2, g3⟩ := h1 _ _ _ _ hp
    simp only []
    cases resolveIRI C.base env v with
    | none => exact ⟨fun _ _ _ _ h => (by cases h), fun _ _ h => (by cases h; exact g3)⟩
    | some i => exact ⟨fun _ _ _ _ h => (by cases h; exact ⟨g1, g2⟩), fun _ _ h => (by cases h)⟩

theorem iriPNameO_B (C : CfgO) (e : End) (env : Env) {s : S} (hP : Pend s 0) (inp : List RP) :
    IriB s inp (iriPNameO C e env s inp) := by
  obtain ⟨h1, h2⟩ := pname_ROB C.T e C.trig hP inp
  unfold iriPNameO
  cases hp : TtlO.producePrefixedName C.T e C.trig s inp with
  | panic => exact ⟨fun _ _ _ _ h => (by cases h), fun _ _ h => (by cases h)⟩
  | err c o => exact ⟨fun _ _ _ _ h => (by cases h), fun _ _ h => (by cases h; exact h2 _ _ hp)⟩
  | ok v rg s' rest =>
    obtain ⟨ns, loc⟩ := v
    obtain ⟨g1, g2, g3⟩ := h1 _ _ _ _ hp
    simp only []
    cases env.expand ns loc with
    | none => exact ⟨fun _ _ _ _ h => (by cases h), fun _ _ h => (by cases h; exact g3)⟩
    | some i => exact ⟨fun _ _ _ _ h => (by cases h; exact ⟨g1, g2⟩), fun _ _ h => (by cases h)⟩

theorem toTerm_B {s : S} {inp : List RP} {r : IriResO} (h : IriB s inp r) (env : Env) :
    TermB s inp (r.toTerm env) := by
  cases r with
  | ok i rg s' rest => exact ⟨fun _ _ _ _ _ g => (by cases g; exact h.1 _ _ _ _ rfl), fun _ _ g => (by cases g)⟩
  | err c o => exact ⟨fun _ _ _ _ _ g => (by cases g), fun _ _ g => (by cases g; exact h.2 _ _ rfl)⟩
  | panic => exact ⟨fun _ _ _ _ _ g => (by cases g), fun _ _ g => (by cases g)⟩

theorem termIRIREFO_B (C : CfgO) (e : End) (env : Env) {s : S} (hP : Pend s 0) (inp : List RP) :
    TermB s inp (termIRIREFO C e env s inp) := toTerm_B (iriIRIREFO_B C e env hP inp) env

theorem termPNameO_B (C : CfgO) (e : End) (env : Env) {s : S} (hP : Pend s 0) (inp : List RP) :
    TermB s inp (termPNameO C e env s inp) := toTerm_B (iriPNameO_B C e env hP inp) env

theorem termBNodeO_B (C : CfgO) (e : End) (env : Env) {s : S} (hP : Pend s 0) (inp : List RP) :
    TermB s inp (termBNodeO C e env s inp) := by
  obtain ⟨h1, h2⟩ := bnode_ROB C.T e hP inp
  unfold termBNodeO
  cases hp : TtlO.produceBlankNode C.T e false s inp with
  | panic => exact ⟨fun _ _ _ _ _ h => (by cases h), fun _ _ h => (by cases h)⟩
  | err c o => exact ⟨fun _ _ _ _ _ h => (by cases h), fun _ _ h => (by cases h; exact h2 _ _ hp)⟩
  | ok v rg s' rest =>
    obtain ⟨g1, g2, _⟩ := h1 _ _ _ _ hp
    exact ⟨fun _ _ _ _ _ h => (by cases h; exact ⟨g1, g2⟩), fun _ _ h => (by cases h)⟩

/-- the continuation helpers: the result's bookkeeping is the token's -/
theorem ofTerm_B {s : S} {inp : List RP} {r : TermResO} (ht : TermB s inp r) (F : TermResO → FnResO)
    (hF : ∀ t rg s' rest env', ∃ o, F (.ok t rg s' rest env') = .ok o ∧ o.s = s' ∧ o.inp = rest)
    (hE : ∀ c o, F (.err c o) = .err c o) (hPn : F .panic = .panic) : StepB s inp (F r) := by
  cases r with
  | ok t rg s' rest env' =>
    obtain ⟨o, h1, h2, h3⟩ := hF t rg s' rest env'
    obtain ⟨g1, g2⟩ := ht.1 _ _ _ _ _ rfl
    rw [h1]
    exact stepB_ok (by rw [h2, h3]; exact g1) (by rw [h2]; exact g2)
  | err c o => rw [hE]; exact stepB_err (ht.2 _ _ rfl)
  | panic => rw [hPn]; exact stepB_panic _ _

theorem subjectOfO_B {s : S} {inp : List RP} (x : EctxO) {r : TermResO} (ht : TermB s inp r) :
    StepB s inp (subjectOfO x r) :=
  ofTerm_B ht (subjectOfO x) (fun _ _ _ _ _ => ⟨_, rfl, rfl, rfl⟩) (fun _ _ => rfl) rfl

theorem labelOrSubjectO_B {s : S} {inp : List RP} (x : EctxO) {r : TermResO} (ht : TermB s inp r) :
    StepB s inp (labelOrSubjectO x r) :=
  ofTerm_B ht (labelOrSubjectO x) (fun _ _ _ _ _ => ⟨_, rfl, rfl, rfl⟩) (fun _ _ => rfl) rfl

theorem polOfTermO_B {s : S} {inp : List RP} (x : EctxO) {r : TermResO} (ht : TermB s inp r) :
    StepB s inp (polOfTermO x r) :=
  ofTerm_B ht (polOfTermO x) (fun _ _ _ _ _ => ⟨_, rfl, rfl, rfl⟩) (fun _ _ => rfl) rfl

theorem emitOfTermO_B {s : S} {inp : List RP} (x : EctxO) {r : TermResO} (ht : TermB s inp r) :
    StepB s inp (emitOfTermO x r) :=
  ofTerm_B ht (emitOfTermO x) (fun _ _ _ _ _ => ⟨_, rfl, rfl, rfl⟩) (fun _ _ => rfl) rfl

/-- `Pend` after reading some runes and committing at most as many bytes -/
macro "pend_tac" hP:ident s:ident : tactic => `(tactic| (
  intro hh hd
  simp only [S.commit, S.read, readL, Option.map_map] at hd
  cases hs : S.doc $s with
  | none => simp [hs] at hd
  | some d =>
    have := $hP d hs
    simp only [hs, Option.map_some, Option.some.injEq, Function.comp] at hd
    subst hd
    simp [histRunes, S.commit, S.read, readL] at this ⊢
    omega))

/-- bound of an error raised right here by `newOffsetError` -/
macro "err_tac" hP:ident : tactic => `(tactic| (
  apply stepB_err
  apply bound_offErr
  · intro hh hd
    have := $hP hh (by simpa using hd)
    simp at this ⊢
    omega
  · simp
    try omega))

macro "ok_tac" hP:ident s:ident : tactic => `(tactic| (
  apply stepB_ok
  · simp
    try omega
  · first | exact $hP | pend_tac $hP $s))

theorem withSelfO_B {s : S} {inp : List RP} (x : EctxO) {r : FnResO} (h : StepB s inp r) :
    StepB s inp (withSelfO x r) := by
  cases r with
  | ok o => exact ⟨fun o' g => (by cases g; exact h.1 o rfl), fun _ _ g => (by cases g)⟩
  | err c o => exact h
  | panic => exact h

theorem kwFallbackO_B (C : CfgO) (e : End) (x : EctxO) (env : Env) {s : S} (hP : Pend s 0) (inp : List RP) :
    StepB s inp (kwFallbackO C e x env s inp) := by
  unfold kwFallbackO
  split
  · exact labelOrSubjectO_B x (termPNameO_B C e env hP inp)
  · ok_tac hP s

theorem stepWrappedGraphO_B (dbl : Bool) (e : End) (x : EctxO) (env : Env) {s : S} (hP : Pend s 0) (c : RP) (rest : List RP) :
    StepB s (c :: rest) (stepWrappedGraphO dbl e x env s (.rune c rest)) := by
  simp only [stepWrappedGraphO]
  split
  · err_tac hP
  · ok_tac hP s

theorem size_dropLast_le : ∀ (l : List RP), size l.dropLast ≤ size l
  | [] => by simp
  | [a] => by simp
  | a :: b :: l => by
    have := size_dropLast_le (b :: l)
    simp only [List.dropLast_cons_cons, size_cons] at this ⊢
    omega

theorem matchKwO_sz : ∀ (ks : List (Nat × Nat)) (inp acc : List RP),
    (∀ rd r, matchKwO ks inp acc = .ok rd r → size rd + size r = size acc + size inp) ∧
    (∀ rd, matchKwO ks inp acc = .eoi rd → size rd = size acc + size inp) ∧
    (∀ rd c, matchKwO ks inp acc = .mismatch rd c → size rd + c.2 ≤ size acc + size inp)
  | [], inp, acc => by
    refine ⟨?_, ?_, ?_⟩ <;> intros <;> simp_all [matchKwO] <;>
      (try (rename_i h; first | (obtain ⟨rfl, rfl⟩ := h; simp) | (subst h; simp)))
  | _ :: _, [], acc => by
    refine ⟨?_, ?_, ?_⟩ <;> intros <;> simp_all [matchKwO] <;>
      (try (rename_i h; first | (obtain ⟨rfl, rfl⟩ := h; simp) | (subst h; simp)))
  | (u, l) :: ks, c :: rest, acc => by
    have ih := matchKwO_sz ks rest (c :: acc)
    simp only [matchKwO]
    split
    · refine ⟨fun rd r h => ?_, fun rd h => ?_, fun rd c' h => ?_⟩
      · have := ih.1 rd r h; simp at this ⊢; omega
      · have := ih.2.1 rd h; simp at this ⊢; omega
      · have := ih.2.2 rd c' h; simp at this ⊢; omega
    · refine ⟨fun rd r h => (by cases h), fun rd h => (by cases h), fun rd c' h => ?_⟩
      simp only [KwO.mismatch.injEq] at h
      obtain ⟨rfl, rfl⟩ := h
      simp

theorem matchKeywordO_sz : ∀ (ks : List Nat) (inp acc : List RP),
    (∀ rd r, matchKeywordO ks inp acc = .ok rd r → size rd + size r = size acc + size inp) ∧
    (∀ rd, matchKeywordO ks inp acc = .eoi rd → size rd = size acc + size inp) ∧
    (∀ rd c, matchKeywordO ks inp acc = .mismatch rd c → size rd + c.2 ≤ size acc + size inp)
  | [], inp, acc => by
    refine ⟨?_, ?_, ?_⟩ <;> intros <;> simp_all [matchKeywordO] <;>
      (try (rename_i h; first | (obtain ⟨rfl, rfl⟩ := h; simp) | (subst h; simp)))
  | _ :: _, [], acc => by
    refine ⟨?_, ?_, ?_⟩ <;> intros <;> simp_all [matchKeywordO] <;>
      (try (rename_i h; first | (obtain ⟨rfl, rfl⟩ := h; simp) | (subst h; simp)))
  | k :: ks, c :: rest, acc => by
    have ih := matchKeywordO_sz ks rest (c :: acc)
    simp only [matchKeywordO]
    split
    · refine ⟨fun rd r h => ?_, fun rd h => ?_, fun rd c' h => ?_⟩
      · have := ih.1 rd r h; simp at this ⊢; omega
      · have := ih.2.1 rd h; simp at this ⊢; omega
      · have := ih.2.2 rd c' h; simp at this ⊢; omega
    · refine ⟨fun rd r h => (by cases h), fun rd h => (by cases h), fun rd c' h => ?_⟩
      simp only [KwO.mismatch.injEq] at h
      obtain ⟨rfl, rfl⟩ := h
      simp

theorem stepAtDirectiveO_B (e : End) (x : EctxO) (env : Env) {s : S} (hP : Pend s 0) (c0 : RP) (rest : List RP) :
    StepB s (c0 :: rest) (stepAtDirectiveO e x env s c0 rest) := by
  cases rest with
  | nil => exact stepB_errNone _ _ _
  | cons r1 rest1 =>
    simp only [stepAtDirectiveO]
    split
    · have hk := matchKwO_sz (kwExact "ase") rest1 []
      cases hm : matchKwO (kwExact "ase") rest1 [] with
      | eoi rd =>
        have := hk.2.1 _ hm; simp at this
        have hd := size_dropLast_le (r1 :: rd); simp only [size_cons] at hd
        err_tac hP
      | mismatch rd c => have := hk.2.2 _ _ hm; simp at this; err_tac hP
      | ok rd r => have := hk.1 _ _ hm; simp at this; ok_tac hP s
    · split
      · have hk := matchKwO_sz (kwExact "refix") rest1 []
        cases hm : matchKwO (kwExact "refix") rest1 [] with
        | eoi rd =>
        have := hk.2.1 _ hm; simp at this
        have hd := size_dropLast_le (r1 :: rd); simp only [size_cons] at hd
        err_tac hP
        | mismatch rd c => have := hk.2.2 _ _ hm; simp at this; err_tac hP
        | ok rd r => have := hk.1 _ _ hm; simp at this; ok_tac hP s
      · err_tac hP

theorem stepKwBaseO_B (C : CfgO) (e : End) (x : EctxO) (env : Env) {s : S} (hP : Pend s 0) (c : RP)
    (rest : List RP) : StepB s (c :: rest) (stepKwBaseO C e x env s c rest) := by
  simp only [stepKwBaseO]
  have hk := matchKwO_sz (kwCI "ASE") rest []
  cases hm : matchKwO (kwCI "ASE") rest [] with
  | eoi rd => have := hk.2.1 _ hm; simp at this; err_tac hP
  | mismatch rd c' => exact kwFallbackO_B C e x env hP _
  | ok rd r =>
    have := hk.1 _ _ hm; simp at this
    cases r with
    | nil => simp at this; err_tac hP
    | cons r4 rest4 =>
      simp only [size_cons] at this
      simp only []
      split
      · ok_tac hP s
      · split
        · exact kwFallbackO_B C e x env hP _
        · ok_tac hP s

theorem stepKwSpaceO_B (C : CfgO) (e : End) (x : EctxO) (env : Env) {s : S} (hP : Pend s 0)
    (kw : List (Nat × Nat)) (k : Cont) (c : RP) (rest : List RP) :
    StepB s (c :: rest) (stepKwSpaceO C e x env s kw k c rest) := by
  simp only [stepKwSpaceO]
  have hk := matchKwO_sz kw rest []
  cases hm : matchKwO kw rest [] with
  | eoi rd => have := hk.2.1 _ hm; simp at this; err_tac hP
  | mismatch rd c' => exact kwFallbackO_B C e x env hP _
  | ok rd r =>
    have := hk.1 _ _ hm; simp at this
    cases r with
    | nil => simp at this; err_tac hP
    | cons r6 rest6 =>
      simp only [size_cons] at this
      simp only []
      split
      · exact kwFallbackO_B C e x env hP _
      · ok_tac hP s

theorem stepSubjectStartO_B (C : CfgO) (e : End) (x : EctxO) (env : Env) {s : S} (hP : Pend s 0) (c : RP)
    (rest : List RP) : StepB s (c :: rest) (stepSubjectStartO C e x env s c rest) := by
  simp only [stepSubjectStartO]
  split
  · split
    · exact labelOrSubjectO_B x (termIRIREFO_B C e env hP _)
    · ok_tac hP s
  · split
    · split
      · exact labelOrSubjectO_B x (termBNodeO_B C e env hP _)
      · ok_tac hP s
    · split
      · split
        · ok_tac hP s
        · ok_tac hP s
      · split
        · ok_tac hP s
        · split
          · split
            · exact labelOrSubjectO_B x (termPNameO_B C e env hP _)
            · ok_tac hP s
          · err_tac hP

theorem stepStatementRuneO_B (C : CfgO) (e : End) (x : EctxO) (env : Env) {s : S} (hP : Pend s 0) (c : RP)
    (rest : List RP) : StepB s (c :: rest) (stepStatementRuneO C e x env s c rest) := by
  simp only [stepStatementRuneO]
  split
  · exact stepAtDirectiveO_B e x env hP c rest
  · split
    · exact stepKwBaseO_B C e x env hP c rest
    · split
      · exact stepKwSpaceO_B C e x env hP _ _ c rest
      · split
        · exact stepKwSpaceO_B C e x env hP _ _ c rest
        · split
          · exact stepWrappedGraphO_B C.dbl e x env hP c rest
          · exact stepSubjectStartO_B C e x env hP c rest

theorem stepCollectionO_B (x : EctxO) (env : Env) {s : S} (hP : Pend s 0) (c : RP) (rest : List RP) (o : T)
    (org : Rg) : StepB s (c :: rest) (stepCollectionO x env s c rest o org) := by
  simp only [stepCollectionO]
  split
  · ok_tac hP s
  · cases x.x.subj with
    | none => ok_tac hP s
    | some _ => ok_tac hP s

theorem stepPOLO_B (C : CfgO) (e : End) (x : EctxO) (env : Env) {s : S} (hP : Pend s 0) (c : RP)
    (rest : List RP) : StepB s (c :: rest) (stepPOLO C e x env s c rest) := by
  simp only [stepPOLO]
  split
  · exact polOfTermO_B x (termIRIREFO_B C e env hP _)
  · split
    · cases rest with
      | nil => err_tac hP
      | cons r1 rest1 =>
        simp only []
        split
        · exact polOfTermO_B x (termPNameO_B C e env hP _)
        · ok_tac hP s
    · split
      · exact polOfTermO_B x (termPNameO_B C e env hP _)
      · ok_tac hP s

theorem stepLiteralTailO_B (C : CfgO) (e : End) (x : EctxO) (env : Env) (lex : List Nat) (lrg : Rg) {s : S}
    (hP : Pend s 0) (rest : List RP) : StepB s rest (stepLiteralTailO C e x env lex lrg s rest) := by
  cases rest with
  | nil => err_tac hP
  | cons c rest0 =>
    simp only [stepLiteralTailO]
    split
    · obtain ⟨h1, h2⟩ := langtag_ROB e hP (c :: rest0)
      cases hp' : TtlO.produceLANGTAG e s (c :: rest0) with
      | panic => exact stepB_panic _ _
      | err k o => exact stepB_err (h2 _ _ hp')
      | ok tag rg' s' r =>
        obtain ⟨g1, g2, _⟩ := h1 _ _ _ _ hp'
        exact stepB_ok g1 g2
    · split
      · cases rest0 with
        | nil => err_tac hP
        | cons c1 rest1 =>
          simp only []
          split
          · err_tac hP
          · cases rest1 with
            | nil => err_tac hP
            | cons c2 rest2 =>
              simp only []
              have hP3 : Pend (((s.read c).read c1).commit [c, c1]) 0 := by pend_tac hP s
              have hI : IriB (((s.read c).read c1).commit [c, c1]) (c2 :: rest2)
                  (if c2.1 = 0x3c then iriIRIREFO C e env (((s.read c).read c1).commit [c, c1]) (c2 :: rest2)
                   else iriPNameO C e env (((s.read c).read c1).commit [c, c1]) (c2 :: rest2)) := by
                split
                · exact iriIRIREFO_B C e env hP3 _
                · exact iriPNameO_B C e env hP3 _
              generalize (if c2.1 = 0x3c then iriIRIREFO C e env (((s.read c).read c1).commit [c, c1]) (c2 :: rest2)
                   else iriPNameO C e env (((s.read c).read c1).commit [c, c1]) (c2 :: rest2)) = tr at hI
              cases tr with
              | panic => exact stepB_panic _ _
              | err k o =>
                have := hI.2 _ _ rfl
                exact stepB_err (by simp at this ⊢; omega)
              | ok dt rg' s' r =>
                obtain ⟨g1, g2⟩ := hI.1 _ _ _ _ rfl
                simp only []
                split
                · exact stepB_errNone _ _ _
                · exact stepB_ok (by simp at g1 ⊢; omega) g2
      · ok_tac hP s

theorem emitOfNumericO_B {s : S} {inp : List RP} (x : EctxO) (env : Env)
    {r : TtlO.RO (Ttl.NumKind × List Nat)} (ht : ROB s inp r) : StepB s inp (emitOfNumericO x env r) := by
  cases r with
  | err c o => exact stepB_err (ht.2 _ _ rfl)
  | panic => exact stepB_panic _ _
  | ok v rg s' rest =>
    obtain ⟨k, l⟩ := v
    obtain ⟨g1, g2, _⟩ := ht.1 _ _ _ _ rfl
    exact stepB_ok g1 g2

theorem scanBooleanO_sz (inp : List RP) :
    (∀ b rd r, scanBooleanO inp = .bool b rd r → ∃ c, inp.head? = some c ∧ c.2 + size rd + size r = size inp) ∧
    (∀ rd, scanBooleanO inp = .err rd → ∃ c, inp.head? = some c ∧ c.2 + size rd = size inp ∨ inp = []) := by
  cases inp with
  | nil => exact ⟨fun _ _ _ h => (by simp [scanBooleanO] at h), fun _ _ => ⟨(0, 0), Or.inr rfl⟩⟩
  | cons c rest =>
    simp only [scanBooleanO]
    have h1 := matchKeywordO_sz (asc "rue") rest []
    have h2 := matchKeywordO_sz (asc "alse") rest []
    split
    · cases hm : matchKeywordO (asc "rue") rest [] with
      | ok rd r =>
        have := h1.1 _ _ hm
        exact ⟨fun _ _ _ h => (by cases h; exact ⟨c, rfl, by simp at this ⊢; omega⟩), fun _ h => (by cases h)⟩
      | mismatch _ _ => exact ⟨fun _ _ _ h => (by cases h), fun _ h => (by cases h)⟩
      | eoi rd =>
        have := h1.2.1 _ hm
        exact ⟨fun _ _ _ h => (by cases h), fun _ h => (by cases h; exact ⟨c, Or.inl ⟨rfl, by simp at this ⊢; omega⟩⟩)⟩
    · split
      · cases hm : matchKeywordO (asc "alse") rest [] with
        | ok rd r =>
          have := h2.1 _ _ hm
          exact ⟨fun _ _ _ h => (by cases h; exact ⟨c, rfl, by simp at this ⊢; omega⟩), fun _ h => (by cases h)⟩
        | mismatch _ _ => exact ⟨fun _ _ _ h => (by cases h), fun _ h => (by cases h)⟩
        | eoi rd =>
          have := h2.2.1 _ hm
          exact ⟨fun _ _ _ h => (by cases h), fun _ h => (by cases h; exact ⟨c, Or.inl ⟨rfl, by simp at this ⊢; omega⟩⟩)⟩
      · exact ⟨fun _ _ _ h => (by cases h), fun _ h => (by cases h)⟩

theorem stepObjectO_B (C : CfgO) (e : End) (x : EctxO) (env : Env) {s : S} (hP : Pend s 0) (c : RP)
    (rest : List RP) : StepB s (c :: rest) (stepObjectO C e x env s c rest) := by
  simp only [stepObjectO]
  split
  · exact emitOfTermO_B x (termIRIREFO_B C e env hP _)
  · split
    · exact emitOfTermO_B x (termBNodeO_B C e env hP _)
    · split
      · ok_tac hP s
      · split
        · ok_tac hP s
        · split
          · obtain ⟨h1, h2⟩ := string_ROB C.T e hP (c :: rest)
            cases hp' : TtlO.produceString C.T e false s (c :: rest) with
            | panic => exact stepB_panic _ _
            | err k o => exact stepB_err (h2 _ _ hp')
            | ok lex lrg s' r =>
              obtain ⟨g1, g2, _⟩ := h1 _ _ _ _ hp'
              have := stepLiteralTailO_B C e x env lex lrg g2 r
              exact ⟨fun o ho => (by obtain ⟨k1, k2⟩ := this.1 o ho; exact ⟨by omega, k2⟩),
                fun k eo ho => (by have := this.2 k eo ho; omega)⟩
          · split
            · split
              · cases rest with
                | nil => err_tac hP
                | cons r1 rest1 =>
                  simp only []
                  split
                  · err_tac hP
                  · exact emitOfNumericO_B x env (numeric_ROB e hP _)
              · exact emitOfNumericO_B x env (numeric_ROB e hP _)
            · split
              · have hb := scanBooleanO_sz (c :: rest)
                cases hq : scanBooleanO (c :: rest) with
                | err rd =>
                  obtain ⟨c', hc⟩ := hb.2 _ hq
                  simp at hc
                  obtain ⟨rfl, hc⟩ := hc
                  err_tac hP
                | other => ok_tac hP s
                | bool b rd r =>
                  obtain ⟨c', hc1, hc2⟩ := hb.1 _ _ _ hq
                  simp at hc1 hc2
                  subst hc1
                  ok_tac hP s
              · split
                · ok_tac hP s
                · err_tac hP

theorem stepTriplesO_B (C : CfgO) (x : EctxO) (env : Env) {s : S} (hP : Pend s 0) (c : RP) (rest : List RP) :
    StepB s (c :: rest) (stepTriplesO C x env s c rest) := by
  simp only [stepTriplesO]
  split
  · ok_tac hP s
  · split
    · ok_tac hP s
    · split
      · ok_tac hP s
      · split
        · ok_tac hP s
        · split
          · ok_tac hP s
          · err_tac hP

theorem stepParenO_B (top : Bool) (x : EctxO) (env : Env) (bn : T) (rg : Rg) {s : S} (hP : Pend s 0) (a : ArgO) :
    StepB s (argInp a) (stepParenO top x env bn rg s a) := by
  rw [← orNul_argInp]
  simp only [stepParenO]
  split
  · ok_tac hP s
  · ok_tac hP s

theorem iriDirective_B (C : CfgO) (e : End) (env : Env) {s : S} (hP : Pend s 0) (inp : List RP)
    (f : List Nat → S → List RP → FnResO)
    (hf : ∀ b s' r, ∃ o, f b s' r = .ok o ∧ o.s = s' ∧ o.inp = r) :
    StepB s inp (match TtlO.produceIRIREF C.T e s inp with
      | .panic => FnResO.panic
      | .err t o => .err (ofTok t) o
      | .ok v rg s' r =>
        match resolveURL C.base env v with
        | none => .err .resolve (rangeErr rg)
        | some b => f b s' r) := by
  obtain ⟨h1, h2⟩ := iriref_ROB C.T e hP inp
  cases hp : TtlO.produceIRIREF C.T e s inp with
  | panic => exact stepB_panic _ _
  | err t o => exact stepB_err (h2 _ _ hp)
  | ok v rg s' r =>
    obtain ⟨g1, g2, g3⟩ := h1 _ _ _ _ hp
    simp only []
    cases resolveURL C.base env v with
    | none => exact stepB_err g3
    | some b =>
      obtain ⟨o, k1, k2, k3⟩ := hf b s' r
      simp only []
      rw [k1]
      exact stepB_ok (by rw [k2, k3]; exact g1) (by rw [k2]; exact g2)

theorem pnameNSDirective_B (C : CfgO) (e : End) {s : S} (hP : Pend s 0) (inp : List RP)
    (f : List Nat → S → List RP → FnResO)
    (hf : ∀ b s' r, ∃ o, f b s' r = .ok o ∧ o.s = s' ∧ o.inp = r) :
    StepB s inp (match TtlO.producePNAME_NS C.T e C.trig s inp with
      | .panic => FnResO.panic
      | .err t o => .err (ofTok t) o
      | .ok ns _ s' r => f ns s' r) := by
  obtain ⟨h1, h2⟩ := pnameNS_ROB C.T e C.trig hP inp
  cases hp : TtlO.producePNAME_NS C.T e C.trig s inp with
  | panic => exact stepB_panic _ _
  | err t o => exact stepB_err (h2 _ _ hp)
  | ok v rg s' r =>
    obtain ⟨g1, g2, _⟩ := h1 _ _ _ _ hp
    obtain ⟨o, k1, k2, k3⟩ := hf v s' r
    simp only []
    rw [k1]
    exact stepB_ok (by rw [k2, k3]; exact g1) (by rw [k2]; exact g2)

theorem stepFnO_B (C : CfgO) (e : End) (k : Cont) (r : Rg) (x : EctxO) (env : Env) {s : S} (hP : Pend s 0)
    (a : ArgO) (hna : ¬(k = .statement ∧ a = .fail)) :
    StepB s (argInp a) (stepFnO C e k r x env s a) := by
  cases k with
  | statement =>
    cases a with
    | fail => exact absurd ⟨rfl, rfl⟩ hna
    | rune c rest =>
      simp only [stepFnO, argInp]
      exact withSelfO_B x (stepStatementRuneO_B C e x env hP c rest)
  | atBaseIRI =>
    cases a with
    | fail => exact stepB_errNone _ _ _
    | rune c rest =>
      simp only [stepFnO, argInp]
      exact iriDirective_B C e env hP _ _ (fun _ _ _ => ⟨_, rfl, rfl, rfl⟩)
  | sparqlBaseIRI =>
    cases a with
    | fail => exact stepB_errNone _ _ _
    | rune c rest =>
      simp only [stepFnO, argInp]
      exact iriDirective_B C e env hP _ _ (fun _ _ _ => ⟨_, rfl, rfl, rfl⟩)
  | atBaseDot b =>
    cases a with
    | fail => simp only [stepFnO, argInp]; err_tac hP
    | rune c rest =>
      simp only [stepFnO, argInp]
      split
      · err_tac hP
      · ok_tac hP s
  | atPrefixNS =>
    cases a with
    | fail => exact stepB_errNone _ _ _
    | rune c rest =>
      simp only [stepFnO, argInp]
      exact pnameNSDirective_B C e hP _ _ (fun _ _ _ => ⟨_, rfl, rfl, rfl⟩)
  | sparqlPrefixNS =>
    cases a with
    | fail => exact stepB_errNone _ _ _
    | rune c rest =>
      simp only [stepFnO, argInp]
      exact pnameNSDirective_B C e hP _ _ (fun _ _ _ => ⟨_, rfl, rfl, rfl⟩)
  | atPrefixIRI ns =>
    cases a with
    | fail => exact stepB_errNone _ _ _
    | rune c rest =>
      simp only [stepFnO, argInp]
      exact iriDirective_B C e env hP _ _ (fun _ _ _ => ⟨_, rfl, rfl, rfl⟩)
  | sparqlPrefixIRI ns =>
    cases a with
    | fail => exact stepB_errNone _ _ _
    | rune c rest =>
      simp only [stepFnO, argInp]
      exact iriDirective_B C e env hP _ _ (fun _ _ _ => ⟨_, rfl, rfl, rfl⟩)
  | atPrefixDot ns b =>
    cases a with
    | fail => simp only [stepFnO, argInp]; err_tac hP
    | rune c rest =>
      simp only [stepFnO, argInp]
      split
      · err_tac hP
      · ok_tac hP s
  | subjAnonOrBNPL =>
    cases a with
    | fail => exact stepB_errNone _ _ _
    | rune c rest =>
      simp only [stepFnO, argInp]
      split
      · ok_tac hP s
      · ok_tac hP s
  | triplesEnd =>
    cases a with
    | fail => simp only [stepFnO, argInp]; err_tac hP
    | rune c rest =>
      simp only [stepFnO, argInp]
      split
      · ok_tac hP s
      · split
        · err_tac hP
        · err_tac hP
  | subjIRIREF =>
    cases a with
    | fail => exact stepB_errNone _ _ _
    | rune c rest => simp only [stepFnO, argInp]; exact subjectOfO_B x (termIRIREFO_B C e env hP _)
  | subjPName =>
    cases a with
    | fail => exact stepB_errNone _ _ _
    | rune c rest => simp only [stepFnO, argInp]; exact subjectOfO_B x (termPNameO_B C e env hP _)
  | subjBNode =>
    cases a with
    | fail => exact stepB_errNone _ _ _
    | rune c rest => simp only [stepFnO, argInp]; exact subjectOfO_B x (termBNodeO_B C e env hP _)
  | pol =>
    cases a with
    | fail => simp only [stepFnO, argInp]; err_tac hP
    | rune c rest => simp only [stepFnO, argInp]; exact stepPOLO_B C e x env hP c rest
  | polContinue =>
    cases a with
    | fail => simp only [stepFnO, argInp]; err_tac hP
    | rune c rest =>
      simp only [stepFnO, argInp]
      split
      · ok_tac hP s
      · ok_tac hP s
  | polRequired =>
    cases a with
    | fail => simp only [stepFnO, argInp]; err_tac hP
    | rune c rest =>
      simp only [stepFnO, argInp]
      have := stepPOLO_B C e x env hP c rest
      cases hq : stepPOLO C e x env s c rest with
      | panic => exact stepB_panic _ _
      | err k o => rw [hq] at this; exact this
      | ok o =>
        rw [hq] at this
        simp only []
        split
        · err_tac hP
        · exact this
  | objListContinue =>
    cases a with
    | fail => simp only [stepFnO, argInp]; err_tac hP
    | rune c rest =>
      simp only [stepFnO, argInp]
      split
      · ok_tac hP s
      · ok_tac hP s
  | object =>
    cases a with
    | fail => simp only [stepFnO, argInp]; err_tac hP
    | rune c rest => simp only [stepFnO, argInp]; exact stepObjectO_B C e x env hP c rest
  | objectPName =>
    cases a with
    | fail => exact stepB_errNone _ _ _
    | rune c rest => simp only [stepFnO, argInp]; exact emitOfTermO_B x (termPNameO_B C e env hP _)
  | collOpenObj =>
    cases a with
    | fail => exact stepB_errNone _ _ _
    | rune c rest => simp only [stepFnO, argInp]; exact stepCollectionO_B x _ hP c rest _ r
  | collOpenSubj o =>
    simp only [stepFnO]
    rw [← orNul_argInp]
    exact stepCollectionO_B x _ hP _ _ _ r
  | collContinue =>
    cases a with
    | fail => simp only [stepFnO, argInp]; err_tac hP
    | rune c rest =>
      simp only [stepFnO, argInp]
      split
      · ok_tac hP s
      · ok_tac hP s
  | bnplEnd =>
    cases a with
    | fail => simp only [stepFnO, argInp]; err_tac hP
    | rune c rest =>
      simp only [stepFnO, argInp]
      split
      · ok_tac hP s
      · err_tac hP
  | parenTop bn => exact stepParenO_B true x env bn r hP a
  | parenBlock bn => exact stepParenO_B false x env bn r hP a
  | graphLabel =>
    cases a with
    | fail => exact stepB_errNone _ _ _
    | rune c rest =>
      simp only [stepFnO, argInp]
      split
      · ok_tac hP s
      · have hT : TermB s (c :: rest) (if c.1 = 0x5f then termBNodeO C e env s (c :: rest)
              else if c.1 = 0x3c then termIRIREFO C e env s (c :: rest) else termPNameO C e env s (c :: rest)) := by
          split
          · exact termBNodeO_B C e env hP _
          · split
            · exact termIRIREFO_B C e env hP _
            · exact termPNameO_B C e env hP _
        generalize (if c.1 = 0x5f then termBNodeO C e env s (c :: rest)
              else if c.1 = 0x3c then termIRIREFO C e env s (c :: rest) else termPNameO C e env s (c :: rest)) = tr at hT
        cases tr with
        | panic => exact stepB_panic _ _
        | err t o => exact stepB_err (hT.2 _ _ rfl)
        | ok g rg s' rr env' =>
          obtain ⟨g1, g2⟩ := hT.1 _ _ _ _ _ rfl
          exact stepB_ok g1 g2
  | graphAnonClose =>
    simp only [stepFnO]
    rw [← orNul_argInp]
    split
    · err_tac hP
    · ok_tac hP s
  | wrappedGraph =>
    cases a with
    | fail => exact stepB_errNone _ _ _
    | rune c rest => exact stepWrappedGraphO_B C.dbl e x env hP c rest
  | wrappedGraphEnd =>
    cases a with
    | fail => exact stepB_errNone _ _ _
    | rune c rest =>
      simp only [stepFnO, argInp]
      split
      · err_tac hP
      · ok_tac hP s
  | triplesBlock =>
    cases a with
    | fail => exact stepB_errNone _ _ _
    | rune c rest =>
      simp only [stepFnO, argInp]
      split
      · ok_tac hP s
      · ok_tac hP s
  | triplesBlockQuest =>
    cases a with
    | fail => exact stepB_errNone _ _ _
    | rune c rest =>
      simp only [stepFnO, argInp]
      split
      · ok_tac hP s
      · split
        · ok_tac hP s
        · ok_tac hP s
  | triples =>
    cases a with
    | fail => exact stepB_errNone _ _ _
    | rune c rest => simp only [stepFnO, argInp]; exact stepTriplesO_B C x env hP c rest
  | tgE1 v =>
    simp only [stepFnO]
    rw [← orNul_argInp]
    split
    · ok_tac hP s
    · cases v with
      | lit l d t => exact stepB_panic _ _
      | iri i => ok_tac hP s
      | bnode b => ok_tac hP s
  | tgBracket bn =>
    simp only [stepFnO]
    rw [← orNul_argInp]
    split
    · ok_tac hP s
    · ok_tac hP s
  | triples2BNPL =>
    cases a with
    | fail => exact stepB_errNone _ _ _
    | rune c rest =>
      simp only [stepFnO, argInp]
      split
      · ok_tac hP s
      · ok_tac hP s

/-! ### scan, Next, run -/

def SkipB (s : S) (_unc : Chunk) (inp : List RP) : SkipO → Prop
  | .rune s' c rest => s'.bo + size (c :: rest) = s.bo + size inp ∧ Pend s' 0
  | .end_ s' => s'.bo = s.bo + size inp ∧ Pend s' 0
  | .commentIo => True

theorem skipWsO_B (C : CfgO) (e : End) : ∀ (inp : List RP) (b : Bool) (s : S) (unc : Chunk),
    Pend s (size unc) → SkipB s unc inp (skipWsO C e b s inp unc)
  | [], false, s, unc, hP => ⟨by simp, fun h hh => by have := hP h hh; omega⟩
  | [], true, s, unc, hP => by
    cases e
    · refine ⟨by simp, ?_⟩
      intro hh hd
      simp only [S.commit] at hd
      cases hs : s.doc with
      | none => simp [hs] at hd
      | some d =>
        have := hP d hs
        simp only [hs, Option.map_some, Option.some.injEq] at hd
        subst hd
        simp [histRunes]; omega
    · trivial
  | c :: rest, true, s, unc, hP => by
    have hP' : Pend (s.read c) (size (c :: unc)) := by
      intro h hh; have := hP h (by simpa using hh); simp; omega
    simp only [skipWsO]
    split
    · have := skipWsO_B C e rest false (s.read c) (c :: unc) hP'
      revert this
      cases skipWsO C e false (s.read c) rest (c :: unc) <;> simp [SkipB] <;> intros <;> (try constructor) <;>
        first | assumption | omega
    · have := skipWsO_B C e rest true (s.read c) (c :: unc) hP'
      revert this
      cases skipWsO C e true (s.read c) rest (c :: unc) <;> simp [SkipB] <;> intros <;> (try constructor) <;>
        first | assumption | omega
  | c :: rest, false, s, unc, hP => by
    have hP' : Pend (s.read c) (size (c :: unc)) := by
      intro h hh; have := hP h (by simpa using hh); simp; omega
    simp only [skipWsO]
    split
    · have := skipWsO_B C e rest true (s.read c) (c :: unc) hP'
      revert this
      cases skipWsO C e true (s.read c) rest (c :: unc) <;> simp [SkipB] <;> intros <;> (try constructor) <;>
        first | assumption | omega
    · split
      · have := skipWsO_B C e rest false (s.read c) (c :: unc) hP'
        revert this
        cases skipWsO C e false (s.read c) rest (c :: unc) <;> simp [SkipB] <;> intros <;> (try constructor) <;>
          first | assumption | omega
      · refine ⟨by simp, ?_⟩
        intro hh hd
        simp only [S.commit] at hd
        cases hs : s.doc with
        | none => simp [hs] at hd
        | some d =>
          have := hP d hs
          simp only [hs, Option.map_some, Option.some.injEq] at hd
          subst hd
          simp [histRunes]; omega

theorem scanFnO_B (C : CfgO) (e : End) (f : FrameO) (rest : List RP) (env : Env) (s : S) (n : Nat)
    (hb : s.bo + size rest = n) (hP : Pend s 0) :
    StepB s rest (scanFnO C e f rest env s) := by
  have hsk := skipWsO_B C e rest false s [] (by simpa using hP)
  unfold scanFnO
  cases hq : skipWsO C e false s rest [] with
  | commentIo => exact stepB_errNone _ _ _
  | end_ s' =>
    rw [hq] at hsk
    obtain ⟨h1, h2⟩ := hsk
    simp only []
    by_cases hk : f.k = .statement
    · rw [hk]
      cases e with
      | ioerr => exact stepB_errNone _ _ _
      | eof => exact stepB_ok (by simp [h1]) h2
    · have := stepFnO_B C e f.k f.r f.x env h2 .fail (by intro h; exact hk h.1)
      exact ⟨fun o ho => (by obtain ⟨k1, k2⟩ := this.1 o ho; simp [argInp] at k1; exact ⟨by omega, k2⟩),
        fun k eo ho => (by have := this.2 k eo ho; simp [argInp] at this; omega)⟩
  | rune s' c rest' =>
    rw [hq] at hsk
    obtain ⟨h1, h2⟩ := hsk
    simp only []
    have := stepFnO_B C e f.k f.r f.x env h2 (.rune c rest') (by intro h; cases h.2)
    exact ⟨fun o ho => (by obtain ⟨k1, k2⟩ := this.1 o ho; simp [argInp] at k1 h1; exact ⟨by omega, k2⟩),
      fun k eo ho => (by have := this.2 k eo ho; simp [argInp] at this h1; omega)⟩

/-- byte accounting of the decoder object for a document of `n` bytes: the rune buffer's offset plus
    the bytes still unread is `n`; the writer holds at most what the buffer handed out; the offset of a
    recorded error is at most `n` -/
def BInv (n : Nat) (st : StO) : Prop :=
  st.s.bo + size st.inp = n ∧ Pend st.s 0 ∧ ∀ k o, st.err = some (k, o) → EOff.bound o ≤ n

def NextB (n : Nat) : NextResO → Prop
  | .yes st => BInv n st
  | .no st => BInv n st
  | .panic => True
  | .outOfFuel => True

theorem nextLoopO_B (C : CfgO) (e : End) (n : Nat) : ∀ (fuel : Nat) (cur : Option FrameO) (st : StO),
    BInv n st → NextB n (nextLoopO C e fuel cur st)
  | 0, _, _, _ => trivial
  | fuel + 1, cur, st, h => by
    simp only [nextLoopO]
    split
    · exact h
    · split
      · cases cur <;> exact h
      · cases hq : popFrameO cur st with
        | none => exact h
        | some p =>
          obtain ⟨f, st1⟩ := p
          have hp : BInv n st1 := by
            cases cur with
            | some g =>
              simp only [popFrameO, Option.some.injEq, Prod.mk.injEq] at hq
              obtain ⟨_, rfl⟩ := hq
              exact h
            | none =>
              simp only [popFrameO] at hq
              cases hs : st.stack with
              | nil => rw [hs] at hq; cases hq
              | cons g rest =>
                rw [hs] at hq
                simp only [Option.some.injEq, Prod.mk.injEq] at hq
                obtain ⟨_, rfl⟩ := hq
                exact h
          simp only []
          have hB := scanFnO_B C e f st1.inp st1.env st1.s n hp.1 hp.2.1
          unfold scanO
          cases hs : scanFnO C e f st1.inp st1.env st1.s with
          | panic => trivial
          | err k o =>
            simp only []
            refine nextLoopO_B C e n fuel none _ ⟨hp.1, hp.2.1, ?_⟩
            intro k' o' hko
            simp only [Option.some.injEq, Prod.mk.injEq] at hko
            obtain ⟨_, rfl⟩ := hko
            have := hB.2 k o hs
            have hb := hp.1
            omega
          | ok o =>
            simp only []
            obtain ⟨k1, k2⟩ := hB.1 o hs
            have hb := hp.1
            exact nextLoopO_B C e n fuel o.cur _ ⟨by simp [applyOutO]; omega, by simpa [applyOutO] using k2,
              by simpa [applyOutO] using hp.2.2⟩

theorem nextO_B (C : CfgO) (e : End) (n : Nat) (st : StO) (h : BInv n st) : NextB n (nextO C e st) := by
  unfold nextO
  exact nextLoopO_B C e n _ none _ h

theorem runLoopO_B (C : CfgO) (e : End) (n : Nat) : ∀ (m : Nat) (st : StO), BInv n st →
    EOff.bound (runLoopO C e m st).eoff ≤ n
  | 0, _, _ => Nat.zero_le _
  | m + 1, st, h => by
    simp only [runLoopO]
    have hn := nextO_B C e n st h
    cases hq : nextO C e st with
    | panic => exact Nat.zero_le _
    | outOfFuel => exact Nat.zero_le _
    | no st' =>
      rw [hq] at hn
      simp only []
      cases he : st'.err with
      | none => exact Nat.zero_le _
      | some p => obtain ⟨k, o⟩ := p; exact hn.2.2 k o he
    | yes st' =>
      rw [hq] at hn
      simp only []
      cases hs : st'.stmts with
      | nil => exact Nat.zero_le _
      | cons s0 ss => exact runLoopO_B C e n m st' hn

theorem initO_B (capture : Bool) (base : Option (List Nat)) (prefixes : List (List Nat × List Nat))
    (inp : List RP) : BInv (size inp) (initO capture base prefixes inp) := by
  refine ⟨by simp [initO, S.init], ?_, fun k o h => (by cases h)⟩
  intro h hh
  cases capture <;> simp [initO, S.init] at hh
  subst hh
  simp [histRunes]

end statements

end RdfModel.Proofs.C16TtlDocO
