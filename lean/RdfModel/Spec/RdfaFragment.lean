/-
  RdfModel.Spec.RdfaFragment — RDFa Core 1.1 (§7.4 CURIE and IRI processing, §7.5 sequence) with the
  HTML+RDFa 1.1 §3.1 additional rules 7 (@property together with @rel/@rev) and 8 (head/body), as a
  denotation over abstract element trees (`Spec.HtmlTree`), and a writer from graphs to trees with
  markup choices.

  Written from the two W3C Recommendations, independent of the Go code. One reading is fixed here and
  documented: step 8 of §7.5 ("new subject … different from the parent object") is read as
  "different from the parent *subject*", which is what the W3C test suite requires (rdfa.info test 0226:
  a `@property @inlist` child of `<span rel resource>` starts its own list under the resource).

  Fragment (what the trees may contain): @about @resource @href @src @typeof @property @rel @rev @content
  @datatype @inlist @prefix @vocab @lang on any element; `html`/`head`/`body` as the root skeleton.
  Not in the fragment: xmlns: declarations, xml:lang, xml:base, <base>, <time>/@datetime, rdf:XMLLiteral and
  rdf:HTML literals, the `rdfa:copy` pattern expansion, processor-graph triples.

  Blank nodes of the output: `named l` for `_:l` in the document, `anon n` for the n-th blank node the
  processor makes itself.  Core-only, executable: the driver runs `denote` and `write`.
-/
import RdfModel.Spec.HtmlTree
import RdfModel.Spec.RFC3986
import RdfModel.Model.Description
namespace RdfModel.Spec.Rdfa
open RdfModel RdfModel.Spec.Html RdfModel.Desc

inductive BId where
  | named (l : Str)
  | anon (n : Nat)
  deriving DecidableEq, Repr, Inhabited

abbrev T := Term BId
abbrev Tr := Triple BId

def rdfType : Str := asc "http://www.w3.org/1999/02/22-rdf-syntax-ns#type"
def rdfFirst : Str := asc "http://www.w3.org/1999/02/22-rdf-syntax-ns#first"
def rdfRest : Str := asc "http://www.w3.org/1999/02/22-rdf-syntax-ns#rest"
def rdfNil : Str := asc "http://www.w3.org/1999/02/22-rdf-syntax-ns#nil"
def rdfXMLLiteral : Str := asc "http://www.w3.org/1999/02/22-rdf-syntax-ns#XMLLiteral"
def rdfHTML : Str := asc "http://www.w3.org/1999/02/22-rdf-syntax-ns#HTML"
def usesVocabulary : Str := asc "http://www.w3.org/ns/rdfa#usesVocabulary"
/-- the default prefix mapping of RDFa Core (`:next`) -/
def xhv : Str := asc "http://www.w3.org/1999/xhtml/vocab#"

/-- the part of the evaluation context that turns attribute values into terms -/
structure Env where
  base : Str
  /-- IRI mappings, most recent declaration first; prefixes are stored in lower case -/
  prefixes : List (Str × Str)
  /-- local default vocabulary -/
  vocab : Option Str
  /-- term mappings -/
  terms : List (Str × Str)
  deriving Repr, DecidableEq

/-! ### §7.4 CURIE and IRI processing -/

def isAlpha (c : Nat) : Bool := (65 ≤ c && c ≤ 90) || (97 ≤ c && c ≤ 122)
def isDigit (c : Nat) : Bool := 48 ≤ c && c ≤ 57
/-- NCNameStartChar (non-ASCII code points are all admitted: simplification of the XML ranges) -/
def isNameStart (c : Nat) : Bool := isAlpha c || c == 95 || 0x80 ≤ c
def isNameChar (c : Nat) : Bool := isNameStart c || isDigit c || c == 45 || c == 46
def isNCName : Str → Bool
  | [] => false
  | c :: r => isNameStart c && r.all isNameChar
/-- term ::= NCNameStartChar termChar*,  termChar ::= NameChar | '/' -/
def isTerm : Str → Bool
  | [] => false
  | c :: r => isNameStart c && r.all (fun x => isNameChar x || x == 47)

/-- RFC 3986 §5.2 reference resolution against the document base -/
def resolveRef (base ref : Str) : Str := RFC3986.resolve base ref

inductive CurieRes where
  | notCurie            -- the value is not a CURIE in this context
  | term (t : T)
  deriving Repr, DecidableEq

/-- §7.4.2: `prefix:reference` with a prefix in scope; `_:label`; `:reference` (default prefix). -/
def curie (E : Env) (s : Str) : CurieRes :=
  match splitColon s with
  | none => .notCurie
  | some (p, r) =>
    if p = [0x5f] then .term (.bnode (.named r))
    else if p = [] then .term (.iri (xhv ++ r))
    else if isNCName p then
      match alookup (toLowerAscii p) E.prefixes with
      | some ns => .term (.iri (ns ++ r))
      | none => .notCurie
    else .notCurie

/-- `[…]` -/
def safeInner : Str → Option Str
  | 0x5b :: rest =>
    match rest.reverse with
    | 0x5d :: mid => some mid.reverse
    | _ => none
  | _ => none

/-- SafeCURIEorCURIEorIRI (@about, @resource): `none` = the value is ignored -/
def resSCI (E : Env) (v : Str) : Option T :=
  match safeInner v with
  | some inner =>
    match curie E inner with
    | .term t => if inner = [] then none else some t
    | .notCurie => none
  | none =>
    match curie E v with
    | .term t => some t
    | .notCurie => some (.iri (resolveRef E.base v))

/-- IRI (@href, @src) -/
def resIRI (E : Env) (v : Str) : Option T := some (.iri (resolveRef E.base v))

def lookupCI (k : Str) : List (Str × Str) → Option Str
  | [] => none
  | (k', v) :: rest => if toLowerAscii k' = toLowerAscii k then some v else lookupCI k rest

/-- TERMorCURIEorAbsIRI (@property, @rel, @rev, @typeof, @datatype): `none` = ignored -/
def resTCA (E : Env) (v : Str) : Option Str :=
  match splitColon v with
  | none =>
    if isTerm v then
      match E.vocab with
      | some voc => some (voc ++ v)
      | none =>
        match alookup v E.terms with
        | some i => some i
        | none => lookupCI v E.terms
    else none
  | some _ =>
    match curie E v with
    | .term (.iri i) => some i
    | .term _ => none
    | .notCurie => some v

/-- the IRIs of a space-separated TERMorCURIEorAbsIRI list -/
def resTCAs (E : Env) (v : Str) : List Str := (fields v).filterMap (resTCA E)

/-! ### §7.5 -/

inductive Incomplete where
  | fwd (p : Str)
  | bwd (p : Str)
  | lst (p : Str)
  deriving Repr, DecidableEq

/-- list mapping: predicate ↦ items, in order of first use -/
abbrev LM := List (Str × List T)

def lmAdd (lm : LM) (p : Str) (x : T) : LM :=
  match lm with
  | [] => [(p, [x])]
  | (q, xs) :: rest => if q = p then (q, xs ++ [x]) :: rest else (q, xs) :: lmAdd rest p x

/-- make sure `p` has a (possibly empty) list -/
def lmTouch (lm : LM) (p : Str) : LM :=
  match lm with
  | [] => [(p, [])]
  | (q, xs) :: rest => if q = p then (q, xs) :: rest else (q, xs) :: lmTouch rest p

structure Ctx where
  env : Env
  parentSubject : T
  parentObject : T
  incomplete : List Incomplete
  lang : Option Str
  deriving Repr, DecidableEq

/-- step 3: `@prefix="p: iri q: iri"`; later declarations win; prefixes are lower-cased; `_` is not declarable -/
def prefixDecls : List Str → List (Str × Str)
  | p :: i :: rest =>
    match p.reverse with
    | 0x3a :: pr =>
      let name := toLowerAscii pr.reverse
      if name = [] || name = [0x5f] then prefixDecls rest else prefixDecls rest ++ [(name, i)]
    | _ => prefixDecls rest
  | _ => []

def plainLit (lex : Str) (lang : Option Str) : T :=
  match lang with
  | some l => .lit lex rdfLangString (some l)
  | none => .lit lex xsdString none

def fresh (n : Nat) : T := .bnode (.anon n)

/-- the results of steps 5 and 6 -/
structure Subj where
  newSubject : Option T
  cor : Option T
  typed : Option T
  skip : Bool
  next : Nat
  deriving Repr, DecidableEq

def orElse {α : Type} (a b : Option α) : Option α := match a with | some x => some x | none => b

/-- steps 5 and 6. `root`: the element is the root element; `hb`: it is `head` or `body` (HTML+RDFa rule 8);
    `hasRel`: @rel or @rev is present (after HTML+RDFa rule 7). -/
def subjStep (E : Env) (root hb hasRel : Bool) (a : Attrs) (parentObject : T) (n : Nat) : Subj :=
  let about := a.about.bind (resSCI E)
  let res3 := orElse (a.resource.bind (resSCI E)) (orElse (a.href.bind (resIRI E)) (a.src.bind (resIRI E)))
  let dflt : T := if root then .iri (resolveRef E.base []) else parentObject
  if hasRel then
    -- step 6
    let ns := about.getD dflt
    match res3 with
    | some o =>
      { newSubject := some ns, cor := some o,
        typed := if a.typeof.isSome then (if about.isSome then some ns else some o) else none,
        skip := false, next := n }
    | none =>
      if a.typeof.isSome && about.isNone then
        { newSubject := some ns, cor := some (fresh n), typed := some (fresh n), skip := false, next := n + 1 }
      else
        { newSubject := some ns, cor := none,
          typed := if a.typeof.isSome then some ns else none, skip := false, next := n }
  else if a.property.isSome && a.content.isNone && a.datatype.isNone then
    -- step 5.1
    let ns := about.getD dflt
    if a.typeof.isSome then
      if about.isSome || root then
        { newSubject := some ns, cor := none, typed := some ns, skip := false, next := n }
      else
        match res3 with
        | some o => { newSubject := some ns, cor := some o, typed := some o, skip := false, next := n }
        | none => { newSubject := some ns, cor := some (fresh n), typed := some (fresh n), skip := false, next := n + 1 }
    else { newSubject := some ns, cor := none, typed := none, skip := false, next := n }
  else
    -- step 5.2
    match orElse about res3 with
    | some s => { newSubject := some s, cor := none, typed := if a.typeof.isSome then some s else none, skip := false, next := n }
    | none =>
      if root || hb then
        { newSubject := some dflt, cor := none, typed := if a.typeof.isSome then some dflt else none, skip := false, next := n }
      else if a.typeof.isSome then
        { newSubject := some (fresh n), cor := none, typed := some (fresh n), skip := false, next := n + 1 }
      else
        { newSubject := some parentObject, cor := none, typed := none, skip := a.property.isNone, next := n }

/-- HTML+RDFa rule 7: with @property on the element, @rel/@rev values that are terms are dropped; an attribute
    left without values is treated as absent -/
def filterRel (hasProperty : Bool) (v : Option Str) : Option Str :=
  match v with
  | none => none
  | some s =>
    if hasProperty then
      let kept := (fields s).filter (fun t => (splitColon t).isSome)
      if kept.isEmpty then none else some (kept.foldr (fun t acc => t ++ (if acc.isEmpty then [] else 32 :: acc)) [])
    else some s

/-- step 11: the current property value (`none`: cannot happen in the fragment) -/
def propertyValue (E : Env) (a : Attrs) (hasRel : Bool) (typed : Option T) (lang : Option Str) (txt : Str) : T :=
  let lex := a.content.getD txt
  match a.datatype with
  | some d =>
    match (if d = [] then none else resTCA E d) with
    | some dt => .lit lex dt none
    | none => plainLit lex lang
  | none =>
    match a.content with
    | some c => plainLit c lang
    | none =>
      let res3 := orElse (a.resource.bind (resSCI E)) (orElse (a.href.bind (resIRI E)) (a.src.bind (resIRI E)))
      match (if hasRel then none else res3) with
      | some o => o
      | none =>
        match (if a.typeof.isSome && a.about.isNone then typed else none) with
        | some t => t
        | none => plainLit txt lang

/-- step 12 -/
def complete (parentSubject ns : T) : List Incomplete → LM → List Tr × LM
  | [], lm => ([], lm)
  | .fwd p :: rest, lm => let r := complete parentSubject ns rest lm; (⟨parentSubject, p, ns⟩ :: r.1, r.2)
  | .bwd p :: rest, lm => let r := complete parentSubject ns rest lm; (⟨ns, p, parentSubject⟩ :: r.1, r.2)
  | .lst p :: rest, lm => complete parentSubject ns rest (lmAdd lm p ns)

/-- step 14 for one list: `s p (items)` with fresh cells `anon n`, `anon (n+1)`, … -/
def listCells : Nat → List T → List Tr
  | _, [] => []
  | n, [x] => [⟨fresh n, rdfFirst, x⟩, ⟨fresh n, rdfRest, .iri rdfNil⟩]
  | n, x :: y :: rest => ⟨fresh n, rdfFirst, x⟩ :: ⟨fresh n, rdfRest, fresh (n + 1)⟩ :: listCells (n + 1) (y :: rest)

def emitLists (s : T) : LM → Nat → List Tr × Nat
  | [], n => ([], n)
  | (p, []) :: rest, n => let r := emitLists s rest n; (⟨s, p, .iri rdfNil⟩ :: r.1, r.2)
  | (p, x :: xs) :: rest, n =>
    let r := emitLists s rest (n + (x :: xs).length)
    (listCells n (x :: xs) ++ ⟨s, p, fresh n⟩ :: r.1, r.2)

/-- result of processing: triples in document order, the (possibly extended) list mapping of the context,
    the blank-node counter -/
structure Res where
  out : List Tr
  lm : LM
  next : Nat
  deriving Repr

/-- what steps 1–12 compute for one element, before its children are looked at -/
structure Local where
  /-- triples of steps 2, 7, 9, 11, 12 -/
  out : List Tr
  /-- the context's list mapping after step 12 -/
  lmCtx : LM
  /-- the local list mapping after step 12 -/
  lmLoc : LM
  /-- evaluation context for the children (step 13) -/
  kid : Ctx
  skip : Bool
  /-- step 8 made a new list mapping -/
  freshLM : Bool
  /-- new subject (or the parent subject when there is none): the subject of step 14 -/
  ns : T
  next : Nat
  deriving Repr

/-- steps 1–12 for an element with tag `tag`, attributes `a` and text content `txt` -/
def elemLocal (C : Ctx) (lm : LM) (n : Nat) (tag : Tag) (a : Attrs) (txt : Str) : Local :=
    let root := tag == .html
    let hb := tag == .head || tag == .body
    -- step 2
    let vocab' : Option Str :=
      match a.vocab with
      | none => C.env.vocab
      | some v => if v = [] then none else some v
    let out2 : List Tr :=
      match a.vocab with
      | some v => if v = [] then [] else [⟨.iri (resolveRef C.env.base []), usesVocabulary, .iri v⟩]
      | none => []
    -- step 3
    let prefixes' := (match a.pfx with | some p => prefixDecls (fields p) | none => []) ++ C.env.prefixes
    -- step 4
    let lang' : Option Str := match a.lang with | some l => (if l = [] then none else some l) | none => C.lang
    let E : Env := { C.env with prefixes := prefixes', vocab := vocab' }
    -- HTML+RDFa rule 7
    let rel := filterRel a.property.isSome a.rel
    let rev := filterRel a.property.isSome a.rev
    let hasRel := rel.isSome || rev.isSome
    -- steps 5, 6
    let S := subjStep E root hb hasRel a C.parentObject n
    -- step 7
    let out7 : List Tr :=
      match S.typed, a.typeof with
      | some t, some ty => (resTCAs E ty).map (fun i => ⟨t, rdfType, .iri i⟩)
      | _, _ => []
    -- step 8
    let freshLM : Bool := match S.newSubject with | some s => s != C.parentSubject | none => false
    let lm0 : LM := if freshLM then [] else lm
    let ns : T := S.newSubject.getD C.parentSubject
    let rels := match rel with | some r => resTCAs E r | none => []
    let revs := match rev with | some r => resTCAs E r | none => []
    -- steps 9, 10
    let r9 : List Tr × LM × Option T × List Incomplete × Nat :=
      match S.cor with
      | some o =>
        if a.inlist.isSome then
          (revs.map (fun p => ⟨o, p, ns⟩), rels.foldl (fun m p => lmAdd m p o) lm0, some o, [], S.next)
        else
          (rels.map (fun p => ⟨ns, p, o⟩) ++ revs.map (fun p => ⟨o, p, ns⟩), lm0, some o, [], S.next)
      | none =>
        if hasRel then
          let inc := (if a.inlist.isSome then rels.map Incomplete.lst else rels.map Incomplete.fwd) ++ revs.map Incomplete.bwd
          ([], (if a.inlist.isSome then rels.foldl lmTouch lm0 else lm0), some (fresh S.next), inc, S.next + 1)
        else ([], lm0, none, [], S.next)
    let out9 := r9.1
    let lm9 := r9.2.1
    let cor := r9.2.2.1
    let inc := r9.2.2.2.1
    let n9 := r9.2.2.2.2
    -- step 11
    let r11 : List Tr × LM :=
      match a.property with
      | none => ([], lm9)
      | some pv =>
        let v := propertyValue E a hasRel S.typed lang' txt
        let ps := resTCAs E pv
        if a.inlist.isSome then ([], ps.foldl (fun m p => lmAdd m p v) lm9)
        else (ps.map (fun p => ⟨ns, p, v⟩), lm9)
    let out11 := r11.1
    let lm11 := r11.2
    -- step 12 (the pending lists live in the list mapping of the context)
    let r12 : List Tr × LM × LM :=
      if !S.skip && S.newSubject.isSome then
        if freshLM then
          let r := complete C.parentSubject ns C.incomplete lm
          (r.1, r.2, lm11)
        else
          let r := complete C.parentSubject ns C.incomplete lm11
          (r.1, r.2, r.2)
      else (([] : List Tr), lm, lm11)
    -- step 13
    let kid : Ctx :=
      if S.skip then { C with env := E, lang := lang' }
      else
        { env := E, parentSubject := ns,
          parentObject := (match cor with | some o => o | none => ns),
          incomplete := inc, lang := lang' }
    { out := if S.skip then out2 else out2 ++ out7 ++ out9 ++ out11 ++ r12.1,
      lmCtx := r12.2.1, lmLoc := r12.2.2, kid := kid, skip := S.skip, freshLM := freshLM, ns := ns, next := n9 }

mutual
/-- §7.5 for one node. `lm` is the list mapping of the evaluation context. -/
def procNode (C : Ctx) (lm : LM) (n : Nat) : Tree → Res
  | .text _ => { out := [], lm := lm, next := n }
  | .elem tag a kids =>
    let L := elemLocal C lm n tag a (textOfList kids)
    if L.skip then
      -- step 13, skip element: the children see the context's own list mapping
      let rk := procKids L.kid lm L.next kids
      { out := L.out ++ rk.out, lm := rk.lm, next := rk.next }
    else
      let rk := procKids L.kid L.lmLoc L.next kids
      if L.freshLM then
        -- step 14: the lists made at or below this element
        let r14 := emitLists L.ns rk.lm rk.next
        { out := L.out ++ rk.out ++ r14.1, lm := L.lmCtx, next := r14.2 }
      else
        { out := L.out ++ rk.out, lm := rk.lm, next := rk.next }
def procKids (C : Ctx) (lm : LM) (n : Nat) : List Tree → Res
  | [] => { out := [], lm := lm, next := n }
  | k :: ks =>
    let r1 := procNode C lm n k
    let r2 := procKids C r1.lm r1.next ks
    { out := r1.out ++ r2.out, lm := r2.lm, next := r2.next }
end

def dropFragment (s : Str) : Str := s.takeWhile (· != 0x23)

/-- The graph an HTML+RDFa document denotes. `base`: the document base; `prefixes`, `terms`: the initial context. -/
def denote (base : Str) (prefixes terms : List (Str × Str)) (doc : Tree) : List Tr :=
  let b := dropFragment base
  let C : Ctx := { env := { base := b, prefixes := prefixes, vocab := none, terms := terms },
                   parentSubject := .iri (resolveRef b []), parentObject := .iri (resolveRef b []),
                   incomplete := [], lang := none }
  let r := procNode C [] 0 doc
  r.out ++ (emitLists (.iri (resolveRef b [])) r.lm r.next).1


/-! ## Writer: graph → HTML+RDFa tree, with markup choices

  The writer covers a graph by *blocks*, each the markup of the next one, two or three triples. A block comes
  from a candidate builder driven by the choices (`build`, arbitrary — the pattern library used by the
  harness is `Pat.build` below). A candidate is kept only if running the §7.5 sequence on it, in the context
  the block will stand in, yields exactly its triples (translation validation: `validBlock`); otherwise the
  writer falls back to the canonical one-element markup of a single triple (`canon`). The round-trip theorem
  (Props/C11.lean) therefore holds for every `build`, and rests on: the canonical block is right for every
  expressible triple, and blocks compose. -/

section Writer
variable {β : Type}

def bnodeRef (l : Str) : Str := 0x5f :: 0x3a :: l

/-- how a subject/object resource is spelt in @about/@resource when nothing shorter is chosen -/
def refOf (lbl : β → Str) : Term β → Option Str
  | .iri i => some i
  | .bnode b => some (bnodeRef (lbl b))
  | .lit _ _ _ => none

def sigma (lbl : β → Str) : β → BId := fun b => .named (lbl b)

/-- canonical markup of one triple: `<span about property content [datatype] lang>` for a literal object,
    `<span about rel resource>` otherwise -/
def canon (lbl : β → Str) (t : Triple β) : Tree :=
  match t.o with
  | .lit lex dt lang =>
    .elem .span { about := refOf lbl t.s, property := some t.p, content := some lex,
                  datatype := (if lang.isSome || dt == xsdString then none else some dt),
                  lang := some (lang.getD []) } []
  | o => .elem .span { about := refOf lbl t.s, rel := some t.p, resource := refOf lbl o } []

def expect (lbl : β → Str) (ts : List (Triple β)) : List Tr := ts.map (Triple.map (sigma lbl))

/-- does the block, standing among the children of an element whose child context is `C` (empty list
    mapping, counter `n`), denote exactly `exp`, leaving the list mapping as it was? (The counter may move: a
    hanging @rel makes a blank node even when no triple ever mentions it.) -/
def validBlock (C : Ctx) (n : Nat) (blk : Tree) (exp : List Tr) : Bool :=
  let r := procNode C [] n blk
  r.out.isPerm exp && r.lm == []

variable {κ : Type}

/-- cover the triples by blocks: choice `c` proposes markup for the next `take c + 1` triples; a proposal that
    does not validate is replaced by the canonical blocks of the same triples. `n`: the processor's blank-node
    counter when it reaches the block. -/
def writeBlocks (lbl : β → Str) (C : Ctx) (take : κ → Nat) (build : κ → List (Triple β) → Tree) :
    Nat → List κ → List (Triple β) → List Tree
  | _, _, [] => []
  | n, [], t :: ts => canon lbl t :: writeBlocks lbl C take build n [] ts
  | n, c :: cs, t :: ts =>
    let chunk := (t :: ts).take (take c + 1)
    let cand := build c chunk
    if validBlock C n cand (expect lbl chunk) then
      cand :: writeBlocks lbl C take build (procNode C [] n cand).next cs (ts.drop (take c))
    else
      chunk.map (canon lbl) ++ writeBlocks lbl C take build n cs (ts.drop (take c))
termination_by _ _ ts => ts.length
decreasing_by
  all_goals simp_wf
  all_goals (try (have := List.length_drop (i := take c) (l := ts))) <;> omega

/-- what the writer requires of a subject / object IRI, a predicate and a literal in the environment `E` of
    the blocks: written out in full they denote themselves -/
def okRes (E : Env) : Term β → Bool
  | .iri i => resSCI E i == some (.iri i)
  | .bnode _ => true
  | .lit _ _ _ => false

def okPred (E : Env) (p : Str) : Bool := resTCAs E p == [p]

def okObj (E : Env) : Term β → Bool
  | .iri i => resSCI E i == some (.iri i)
  | .bnode _ => true
  | .lit _ dt lang =>
    match lang with
    | some l => dt == rdfLangString && l != []
    | none => dt == xsdString ||
        (dt != rdfLangString && dt != rdfXMLLiteral && dt != rdfHTML && dt != [] && resTCA E dt == some dt)

/-- the graph can be written in RDFa under `E`: subjects are IRIs or blank nodes, and every IRI, written out in
    full, is read back as itself (it is absolute, its scheme is not a prefix in scope, it has no whitespace) -/
def expressible (E : Env) (g : List (Triple β)) : Bool :=
  g.all (fun t => okRes E t.s && okPred E t.p && okObj E t.o)

/-- the skeleton `<html prefix lang><head/><body prefix lang>` -/
structure Skel where
  htmlPfx : Option Str := none
  htmlLang : Option Str := none
  bodyPfx : Option Str := none
  bodyLang : Option Str := none
  deriving Repr, DecidableEq

def skelAttrs (p l : Option Str) : Attrs := { pfx := p, lang := l }

def langOf (l : Option Str) (inherited : Option Str) : Option Str :=
  match l with | some x => (if x = [] then none else some x) | none => inherited

def declsOf (p : Option Str) : List (Str × Str) := match p with | some v => prefixDecls (fields v) | none => []

/-- evaluation context of the children of `body` under skeleton `sk` -/
def bodyCtx (base : Str) (prefixes terms : List (Str × Str)) (sk : Skel) : Ctx :=
  let b := dropFragment base
  { env := { base := b, prefixes := declsOf sk.bodyPfx ++ (declsOf sk.htmlPfx ++ prefixes), vocab := none, terms := terms },
    parentSubject := .iri (resolveRef b []), parentObject := .iri (resolveRef b []), incomplete := [],
    lang := langOf sk.bodyLang (langOf sk.htmlLang none) }

def docOf (sk : Skel) (blocks : List Tree) : Tree :=
  .elem .html (skelAttrs sk.htmlPfx sk.htmlLang)
    [.elem .head {} [], .elem .body (skelAttrs sk.bodyPfx sk.bodyLang) blocks]

/-- The writer. `sk`: skeleton choice (dropped when the graph would not be expressible under its prefix
    declarations); `cs`: block choices. -/
def write (base : Str) (prefixes terms : List (Str × Str)) (lbl : β → Str) (take : κ → Nat)
    (build : Ctx → κ → List (Triple β) → Tree) (sk : Skel) (cs : List κ) (g : List (Triple β)) : Tree :=
  let sk' := if expressible (bodyCtx base prefixes terms sk).env g then sk else {}
  let C := bodyCtx base prefixes terms sk'
  docOf sk' (writeBlocks lbl C take (build C) 0 cs g)

end Writer

end RdfModel.Spec.Rdfa
