import RdfModel.Props.C02TokensDefs
namespace RdfModel.Proofs.C08Tok
open RdfModel RdfModel.Ttl RdfModel.C02 RdfModel.Spec.TtlPrint

/-! ### generalities -/

theorem isScalar_le {c : Nat} (h : IsScalar c) : c ≤ 0x10FFFF := by
  unfold IsScalar at h; omega

theorem hexD_dec (T : Tables) (hT : TablesOK T) (l : Bool) (d : Nat) (hd : d < 16) :
    lookup T.hexDec 0 (hexD l d) = d + 1 := by
  unfold hexD
  cases l
  · simpa using hT.hex d hd
  · simpa using hT.hex_lower d hd

theorem scalars_tail {c : Nat} {s : List Nat} (hs : Scalars (c :: s)) : Scalars s :=
  fun x hx => hs x (List.mem_cons_of_mem _ hx)

theorem scalars_head {c : Nat} {s : List Nat} (hs : Scalars (c :: s)) : IsScalar c :=
  hs c List.mem_cons_self

/-! ### IRIREF -/

theorem scanIRIREF_body_bs (T : Tables) (e : End) (r acc : List Nat) :
    scanIRIREF T e .body (0x5c :: r) acc = scanIRIREF T e .esc r acc := by
  simp [scanIRIREF]

theorem scanIRIREF_esc_u (T : Tables) (e : End) (r acc : List Nat) :
    scanIRIREF T e .esc (0x75 :: r) acc = scanIRIREF T e (.hex uchar4Maxs 0) r acc := by
  simp [scanIRIREF]

theorem scanIRIREF_esc_U (T : Tables) (e : End) (r acc : List Nat) :
    scanIRIREF T e .esc (0x55 :: r) acc = scanIRIREF T e (.hex uchar8Maxs 0) r acc := by
  simp [scanIRIREF]

theorem scanIRIREF_hex_more (T : Tables) (hT : TablesOK T) (e : End) (l : Bool) (m m' : Nat)
    (ms : List Nat) (v d : Nat) (hd : d < 16) (hm : d ≤ m) (r acc : List Nat) :
    scanIRIREF T e (.hex (m :: m' :: ms) v) (hexD l d :: r) acc
      = scanIRIREF T e (.hex (m' :: ms) (v * 16 + d)) r acc := by
  rw [scanIRIREF]
  rw [hexD_dec T hT l d hd]
  simp only
  rw [if_neg (by omega)]

theorem scanIRIREF_hex_last (T : Tables) (hT : TablesOK T) (e : End) (l : Bool) (m : Nat)
    (v d : Nat) (hd : d < 16) (hm : d ≤ m) (r acc : List Nat) :
    scanIRIREF T e (.hex [m] v) (hexD l d :: r) acc
      = scanIRIREF T e .body r ((v * 16 + d) :: acc) := by
  rw [scanIRIREF]
  rw [hexD_dec T hT l d hd]
  simp only
  rw [if_neg (by omega)]

theorem scanIRIREF_u4 (T : Tables) (hT : TablesOK T) (e : End) (l : Bool) (c : Nat)
    (hc : c ≤ 0xFFFF) (r acc : List Nat) :
    scanIRIREF T e .body (0x5c :: 0x75 :: (hex4c l c ++ r)) acc
      = scanIRIREF T e .body r (c :: acc) := by
  rw [scanIRIREF_body_bs, scanIRIREF_esc_u]
  simp only [hex4c, uchar4Maxs, NQ.uchar4Maxs, List.cons_append, List.nil_append]
  rw [scanIRIREF_hex_more T hT e _ _ _ _ _ _ (by omega) (by omega),
      scanIRIREF_hex_more T hT e _ _ _ _ _ _ (by omega) (by omega),
      scanIRIREF_hex_more T hT e _ _ _ _ _ _ (by omega) (by omega),
      scanIRIREF_hex_last T hT e _ _ _ _ (by omega) (by omega)]
  congr 2
  omega

theorem scanIRIREF_u8 (T : Tables) (hT : TablesOK T) (e : End) (l : Bool) (c : Nat)
    (hc : c ≤ 0x10FFFF) (r acc : List Nat) :
    scanIRIREF T e .body (0x5c :: 0x55 :: (hex8c l c ++ r)) acc
      = scanIRIREF T e .body r (c :: acc) := by
  rw [scanIRIREF_body_bs, scanIRIREF_esc_U]
  simp only [hex8c, uchar8Maxs, NQ.uchar8Maxs, List.cons_append, List.nil_append]
  rw [scanIRIREF_hex_more T hT e _ _ _ _ _ _ (by omega) (by omega),
      scanIRIREF_hex_more T hT e _ _ _ _ _ _ (by omega) (by omega),
      scanIRIREF_hex_more T hT e _ _ _ _ _ _ (by omega) (by omega),
      scanIRIREF_hex_more T hT e _ _ _ _ _ _ (by omega) (by omega),
      scanIRIREF_hex_more T hT e _ _ _ _ _ _ (by omega) (by omega),
      scanIRIREF_hex_more T hT e _ _ _ _ _ _ (by omega) (by omega),
      scanIRIREF_hex_more T hT e _ _ _ _ _ _ (by omega) (by omega),
      scanIRIREF_hex_last T hT e _ _ _ _ (by omega) (by omega)]
  congr 2
  omega

theorem scanIRIREF_uchar (T : Tables) (hT : TablesOK T) (e : End) (w l : Bool) (c : Nat)
    (hc : c ≤ 0x10FFFF) (r acc : List Nat) :
    scanIRIREF T e .body (uchar w l c ++ r) acc = scanIRIREF T e .body r (c :: acc) := by
  unfold uchar
  split
  · next h =>
    simp only [Bool.and_eq_true, Bool.not_eq_true', decide_eq_true_eq] at h
    simp only [List.cons_append]
    exact scanIRIREF_u4 T hT e l c h.2 r acc
  · simp only [List.cons_append]
    exact scanIRIREF_u8 T hT e l c hc r acc

theorem scanIRIREF_raw (T : Tables) (e : End) (c : Nat) (h : iriRawOK c = true) (r acc : List Nat) :
    scanIRIREF T e .body (c :: r) acc = scanIRIREF T e .body r (c :: acc) := by
  have h' : iriForbidden c = false ∧ c ≠ 0x3e ∧ c ≠ 0x5c := by
    simp only [iriRawOK, Bool.not_eq_true', Bool.or_eq_false_iff, decide_eq_false_iff_not] at h
    simp only [iriForbidden, Bool.or_eq_false_iff, decide_eq_false_iff_not]
    omega
  rw [scanIRIREF]
  rw [if_neg h'.2.1, if_neg h'.2.2, h'.1]
  simp

theorem scanIRIREF_rune (T : Tables) (hT : TablesOK T) (e : End) (ch : Choice) (c : Nat)
    (hc : c ≤ 0x10FFFF) (r acc : List Nat) :
    scanIRIREF T e .body (printIriRune ch c ++ r) acc = scanIRIREF T e .body r (c :: acc) := by
  have hraw : scanIRIREF T e .body ((if iriRawOK c then [c] else uchar false false c) ++ r) acc
      = scanIRIREF T e .body r (c :: acc) := by
    split
    · next h => exact scanIRIREF_raw T e c h r acc
    · exact scanIRIREF_uchar T hT e _ _ c hc r acc
  cases ch with
  | raw => exact hraw
  | echar => exact hraw
  | u4 l => exact scanIRIREF_uchar T hT e _ _ c hc r acc
  | u8 l => exact scanIRIREF_uchar T hT e _ _ c hc r acc

theorem scanIRIREF_printBody (T : Tables) (hT : TablesOK T) (e : End) (s : List Nat)
    (hs : Scalars s) (rest : List Nat) (chs : List Choice) (acc : List Nat) :
    scanIRIREF T e .body (printIriBody chs s ++ 0x3e :: rest) acc
      = .ok (goString (acc.reverse ++ s)) rest := by
  induction s generalizing chs acc with
  | nil => simp [printIriBody, scanIRIREF]
  | cons c s ih =>
    simp only [printIriBody, List.append_assoc]
    rw [scanIRIREF_rune T hT e _ c (isScalar_le (scalars_head hs)), ih (scalars_tail hs)]
    simp

/-- IRIREF: every choice of raw / \uXXXX / \UXXXXXXXX (either hex case) per rune. -/
theorem print_iriref (T : Tables) (hT : TablesOK T) (e : End) (chs : List Choice) (s : List Nat)
    (hs : Scalars s) (rest : List Nat) :
    produceIRIREF T e (printIRIREF chs s ++ rest) = .ok s rest := by
  simp only [printIRIREF, List.cons_append, List.append_assoc, List.nil_append, produceIRIREF,
    if_true]
  rw [scanIRIREF_printBody T hT e s hs rest chs []]
  simp [goString_id_of_scalar hs]

/-! ### PN_LOCAL -/

/-- Scanner state at the first / a later rune of the local name. -/
def stOf : Bool → LState
  | true => .first
  | false => .body

theorem localEscapable_eq (c : Nat) : localEscapable c = isLocalEsc c := rfl

theorem isHex_ne_pct {c : Nat} (h : isHex c = true) : c ≠ 0x25 := by
  intro hc; subst hc; simp [isHex] at h

theorem isHex_not_esc {c : Nat} (h : isHex c = true) : localEscapable c = false := by
  simp only [isHex, Bool.or_eq_true, Bool.and_eq_true, decide_eq_true_eq] at h
  simp only [localEscapable, Bool.or_eq_false_iff, decide_eq_false_iff_not]
  omega

/-- The raw-rune test of the scanner in state `stOf first`. -/
def rawTest (T : Tables) (first : Bool) (c : Nat) : Bool :=
  if first then inRanges T.pnCharsU c || c = 0x3a || isDigit c
  else inRanges T.pnChars c || c = 0x2e || c = 0x3a

theorem scanLocal_raw (T : Tables) (e : End) (first : Bool) (c : Nat)
    (h : rawTest T first c = true) (r acc : List Nat) (le : Bool) :
    scanLocal T e (stOf first) (c :: r) acc le = scanLocal T e .body r (c :: acc) false := by
  cases first
  · simp only [rawTest, Bool.false_eq_true, if_false] at h
    simp only [stOf]
    rw [scanLocal, if_pos h]
  · simp only [rawTest, if_true] at h
    simp only [stOf]
    rw [scanLocal, if_pos h]

theorem rawTest_bs (T : Tables) (hT : TablesOK T) (first : Bool) : rawTest T first 0x5c = false := by
  cases first <;> simp [rawTest, hT.pn_bs, hT.pnU_bs, isDigit, NQ.isDigit]

theorem rawTest_pct (T : Tables) (hT : TablesOK T) (first : Bool) : rawTest T first 0x25 = false := by
  cases first <;> simp [rawTest, hT.pn_pct, hT.pnU_pct, isDigit, NQ.isDigit]

theorem scanLocal_bs (T : Tables) (hT : TablesOK T) (e : End) (first : Bool)
    (r acc : List Nat) (le : Bool) :
    scanLocal T e (stOf first) (0x5c :: r) acc le = scanLocal T e .esc r acc le := by
  have h := rawTest_bs T hT first
  cases first
  · simp only [rawTest, Bool.false_eq_true, if_false] at h
    simp only [stOf]
    rw [scanLocal, h]
    simp
  · simp only [rawTest, if_true] at h
    simp only [stOf]
    rw [scanLocal, h]
    simp

theorem scanLocal_pct (T : Tables) (hT : TablesOK T) (e : End) (first : Bool)
    (r acc : List Nat) (le : Bool) :
    scanLocal T e (stOf first) (0x25 :: r) acc le = scanLocal T e .pct1 r acc le := by
  have h := rawTest_pct T hT first
  cases first
  · simp only [rawTest, Bool.false_eq_true, if_false] at h
    simp only [stOf]
    rw [scanLocal, h]
    simp
  · simp only [rawTest, if_true] at h
    simp only [stOf]
    rw [scanLocal, h]
    simp

theorem scanLocal_esc (T : Tables) (hT : TablesOK T) (e : End) (first : Bool) (c : Nat)
    (h : isLocalEsc c = true) (r acc : List Nat) (le : Bool) :
    scanLocal T e (stOf first) (0x5c :: c :: r) acc le = scanLocal T e .body r (c :: acc) true := by
  rw [scanLocal_bs T hT, scanLocal, if_pos h]

/-- A raw `%` followed by two hex digits: the scanner ends up where it would be had it taken the
    three runes one at a time as ordinary name characters. -/
theorem scanLocal_pct_raw (T : Tables) (hT : TablesOK T) (e : End) (first : Bool) (h1 h2 : Nat)
    (hh1 : isHex h1 = true) (hh2 : isHex h2 = true) (r acc : List Nat) (le : Bool) :
    scanLocal T e (stOf first) (0x25 :: h1 :: h2 :: r) acc le
      = scanLocal T e .body (h1 :: h2 :: r) (0x25 :: acc) false := by
  have p1 : scanLocal T e .pct1 (h1 :: h2 :: r) acc le = scanLocal T e (.pct2 h1) (h2 :: r) acc le := by
    rw [scanLocal, if_neg (hT.hex_all h1 hh1)]
  have p2 : scanLocal T e (.pct2 h1) (h2 :: r) acc le
      = scanLocal T e .body r (h2 :: h1 :: 0x25 :: acc) false := by
    rw [scanLocal, if_neg (hT.hex_all h2 hh2)]
  rw [scanLocal_pct T hT, p1, p2]
  have r1 : rawTest T false h1 = true := by simp [rawTest, hT.pn_hex h1 hh1]
  have r2 : rawTest T false h2 = true := by simp [rawTest, hT.pn_hex h2 hh2]
  have s1 := scanLocal_raw T e false h1 r1 (h2 :: r) (0x25 :: acc) false
  have s2 := scanLocal_raw T e false h2 r2 r (h1 :: 0x25 :: acc) false
  simp only [stOf] at s1 s2
  rw [s1, s2]

theorem localRawOK_rawTest (T : Tables) (first last : Bool) (c : Nat)
    (h : localRawOK T first last c = true) : rawTest T first c = true := by
  cases first
  · cases last
    · simp only [localRawOK, Bool.false_eq_true, if_false, Bool.or_eq_true, decide_eq_true_eq] at h
      simp only [rawTest, Bool.false_eq_true, if_false, Bool.or_eq_true, decide_eq_true_eq]
      rcases h with (h | h) | h
      · exact Or.inl (Or.inl h)
      · exact Or.inr h
      · exact Or.inl (Or.inr h)
    · simp only [localRawOK, Bool.false_eq_true, if_false, if_true, Bool.or_eq_true,
        decide_eq_true_eq] at h
      simp only [rawTest, Bool.false_eq_true, if_false, Bool.or_eq_true, decide_eq_true_eq]
      rcases h with h | h
      · exact Or.inl (Or.inl h)
      · exact Or.inr h
  · simpa [localRawOK, rawTest] using h

theorem localRawOK_last_ne_dot (T : Tables) (hT : TablesOK T) (first : Bool) (c : Nat)
    (h : localRawOK T first true c = true) : c ≠ 0x2e := by
  intro hc
  subst hc
  cases first <;> simp [localRawOK, hT.pn_dot, hT.pnU_dot, isDigit, NQ.isDigit] at h

/-- Case analysis of one printer step. -/
theorem printLocalFrom_cons (T : Tables) (first : Bool) (chs : List Choice) (c : Nat)
    (loc out : List Nat) (h : printLocalFrom T first chs (c :: loc) = some out) :
    ∃ t, printLocalFrom T false chs.tail loc = some t ∧
      ((out = c :: t ∧ localRawOK T first loc.isEmpty c = true)
       ∨ (out = 0x5c :: c :: t ∧ localEscapable c = true)
       ∨ (out = c :: t ∧ c = 0x25 ∧ ∃ h1 h2 r, loc = h1 :: h2 :: r ∧ isHex h1 = true ∧ isHex h2 = true)) := by
  unfold printLocalFrom at h
  simp only at h
  split at h
  · next hc =>
    have hesc : localEscapable c = true := by subst hc; decide
    split at h
    · next h1 h2 r _ =>
      split at h
      · next hh =>
        obtain ⟨t, ht, rfl⟩ := Option.map_eq_some_iff.1 h
        simp only [Bool.and_eq_true] at hh
        exact ⟨t, ht, Or.inr (Or.inr ⟨rfl, hc, h1, h2, r, rfl, hh.1, hh.2⟩)⟩
      · obtain ⟨t, ht, rfl⟩ := Option.map_eq_some_iff.1 h
        exact ⟨t, ht, Or.inr (Or.inl ⟨rfl, hesc⟩)⟩
    · obtain ⟨t, ht, rfl⟩ := Option.map_eq_some_iff.1 h
      exact ⟨t, ht, Or.inr (Or.inl ⟨rfl, hesc⟩)⟩
  · split at h
    · next hh =>
      obtain ⟨t, ht, rfl⟩ := Option.map_eq_some_iff.1 h
      simp only [Bool.and_eq_true] at hh
      exact ⟨t, ht, Or.inl ⟨rfl, hh.2⟩⟩
    · split at h
      · next hh =>
        obtain ⟨t, ht, rfl⟩ := Option.map_eq_some_iff.1 h
        exact ⟨t, ht, Or.inr (Or.inl ⟨rfl, hh⟩)⟩
      · split at h
        · next hh =>
          obtain ⟨t, ht, rfl⟩ := Option.map_eq_some_iff.1 h
          exact ⟨t, ht, Or.inl ⟨rfl, hh⟩⟩
        · exact absurd h (by simp)

/-- A hex digit is printed raw, whatever the choice. -/
theorem printLocalFrom_hex (T : Tables) (chs : List Choice) (c : Nat)
    (loc out : List Nat) (hc : isHex c = true) (h : printLocalFrom T false chs (c :: loc) = some out) :
    ∃ t, printLocalFrom T false chs.tail loc = some t ∧ out = c :: t := by
  obtain ⟨t, ht, h | h | h⟩ := printLocalFrom_cons T false chs c loc out h
  · exact ⟨t, ht, h.1⟩
  · rw [isHex_not_esc hc] at h
    exact absurd h.2 (by simp)
  · exact absurd h.2.1 (isHex_ne_pct hc)

theorem localDone_ok (acc : List Nat) (le : Bool) (rest : List Nat) (h1 : acc ≠ [])
    (h2 : acc.head? = some 0x2e → le = true) :
    localDone acc le rest = .ok (goString acc.reverse) rest := by
  cases acc with
  | nil => exact absurd rfl h1
  | cons l more =>
    simp only [localDone]
    split
    · next hh =>
      simp only [Bool.and_eq_true, decide_eq_true_eq, Bool.not_eq_true'] at hh
      have := h2 (by simp [hh.1])
      rw [this] at hh
      exact absurd hh.2 (by simp)
    · rfl

theorem scanLocal_stop (T : Tables) (e : End) (rest : List Nat) (hstop : LocalStop T e rest)
    (acc : List Nat) (le : Bool) :
    scanLocal T e .body rest acc le = localDone acc le rest := by
  cases rest with
  | nil =>
    simp only [LocalStop] at hstop
    subst hstop
    rw [scanLocal]
  | cons c r =>
    simp only [LocalStop] at hstop
    obtain ⟨a, _, _, b, c', d, f⟩ := hstop
    rw [scanLocal, a]
    simp [b, c', d, f]

theorem scanLocal_print (T : Tables) (hT : TablesOK T) (e : End) (rest : List Nat)
    (hstop : LocalStop T e rest) (loc : List Nat) :
    ∀ (first : Bool) (chs : List Choice) (out acc : List Nat) (le : Bool),
      printLocalFrom T first chs loc = some out →
      (loc = [] → first = false ∧ acc ≠ [] ∧ (acc.head? = some 0x2e → le = true)) →
      scanLocal T e (stOf first) (out ++ rest) acc le = .ok (goString (acc.reverse ++ loc)) rest := by
  induction loc with
  | nil =>
    intro first chs out acc le h hinv
    obtain ⟨rfl, h1, h2⟩ := hinv rfl
    simp only [printLocalFrom, Option.some.injEq] at h
    subst h
    simp only [stOf, List.nil_append, List.append_nil]
    rw [scanLocal_stop T e rest hstop, localDone_ok acc le rest h1 h2]
  | cons c loc ih =>
    intro first chs out acc le h _
    obtain ⟨t, ht, hcase⟩ := printLocalFrom_cons T first chs c loc out h
    rcases hcase with ⟨rfl, hraw⟩ | ⟨rfl, hesc⟩ | ⟨rfl, hc, h1, h2, r, rfl, hh1, hh2⟩
    · simp only [List.cons_append]
      rw [scanLocal_raw T e first c (localRawOK_rawTest T first _ c hraw)]
      have := ih false chs.tail t (c :: acc) false ht (by
        intro hl
        subst hl
        refine ⟨rfl, by simp, ?_⟩
        intro hd
        simp only [List.head?_cons, Option.some.injEq] at hd
        exact absurd hd (localRawOK_last_ne_dot T hT first c (by simpa using hraw)))
      simp only [stOf] at this
      rw [this]
      simp
    · simp only [List.cons_append]
      rw [scanLocal_esc T hT e first c (by rw [← localEscapable_eq]; exact hesc)]
      have := ih false chs.tail t (c :: acc) true ht (by
        intro hl
        exact ⟨rfl, by simp, fun _ => rfl⟩)
      simp only [stOf] at this
      rw [this]
      simp
    · obtain ⟨t1, ht1, rfl⟩ := printLocalFrom_hex T chs.tail h1 (h2 :: r) t hh1 ht
      obtain ⟨t2, _, rfl⟩ := printLocalFrom_hex T chs.tail.tail h2 r t1 hh2 ht1
      subst hc
      simp only [List.cons_append]
      rw [scanLocal_pct_raw T hT e first h1 h2 hh1 hh2]
      have := ih false chs.tail (h1 :: h2 :: t2) (0x25 :: acc) false ht (by
        intro hl
        exact absurd hl (by simp))
      simp only [stOf, List.cons_append] at this
      rw [this]
      simp

/-- PN_LOCAL: every choice of raw / `\x` per rune, `%XX` kept as PERCENT or written `\%XX`. -/
theorem print_local (T : Tables) (hT : TablesOK T) (e : End) (chs : List Choice) (loc out : List Nat)
    (hs : Scalars loc) (h : printLocal T chs loc = some out) (rest : List Nat)
    (hstop : LocalStop T e rest) :
    scanLocal T e .first (out ++ rest) [] false = .ok loc rest := by
  unfold printLocal at h
  cases loc with
  | nil =>
    simp only [printLocalFrom, Option.some.injEq] at h
    subst h
    simp only [List.nil_append]
    cases rest with
    | nil =>
      simp only [LocalStop] at hstop
      subst hstop
      rw [scanLocal]
    | cons c r =>
      simp only [LocalStop] at hstop
      obtain ⟨_, a, b, _, c', d, f⟩ := hstop
      rw [scanLocal, a, b]
      simp [c', d, f]
  | cons c loc =>
    have := scanLocal_print T hT e rest hstop (c :: loc) true chs out [] false h
      (fun hl => absurd hl (by simp))
    simp only [stOf] at this
    rw [this]
    simp [goString_id_of_scalar hs]

/-! ### String -/

/-! Unfolding lemmas (the generated equation lemmas are split by the look-ahead matches). -/

theorem scanString_body_cons (T : Tables) (e : End) (delim : Nat) (triple : Bool) (c : Nat) (rest acc : List Nat) :
  scanString T e delim triple .body (c :: rest) acc =
    if c = 0x22 ∨ c = 0x27 then
      if c = delim then
        if !triple then .ok (goString acc.reverse) rest
        else match rest with
          | [] => .err e.cls
          | c1 :: r1 =>
            if c1 = delim then
              match r1 with
              | [] => .err e.cls
              | c2 :: r2 =>
                if c2 = delim then .ok (goString acc.reverse) r2
                else scanString T e delim triple .body rest (c :: acc)
            else scanString T e delim triple .body rest (c :: acc)
      else scanString T e delim triple .body rest (c :: acc)
    else if c = 0x5c then scanString T e delim triple .esc rest acc
    else scanString T e delim triple .body rest (c :: acc) := by
  rw [scanString.eq_def]; rfl

theorem scanString_esc_cons (T : Tables) (e : End) (delim : Nat) (triple : Bool) (c : Nat) (rest acc : List Nat) :
  scanString T e delim triple .esc (c :: rest) acc =
    if c = 0x75 then scanString T e delim triple (.hex uchar4Maxs 0) rest acc
    else if c = 0x55 then scanString T e delim triple (.hex uchar8Maxs 0) rest acc
    else match echarDecode c with
      | some d => scanString T e delim triple .body rest (d :: acc)
      | none => .err .syntax := by
  rw [scanString.eq_def]; rfl

theorem produceString_cons (T : Tables) (e : End) (q : Nat) (rest : List Nat) :
  produceString T e (q :: rest) =
    if q = 0x22 ∨ q = 0x27 then
      match rest with
      | [] => .err e.cls
      | c1 :: r1 =>
        if c1 = q then
          match r1 with
          | [] => (match e with | .eof => .ok [] [] | .ioerr => .err .io)
          | c2 :: r2 =>
            if c2 = q then scanString T e q true .body r2 []
            else .ok [] (c2 :: r2)
        else scanString T e q false .body (c1 :: r1) []
    else .err .syntax := by
  rw [produceString.eq_def]; rfl


theorem scanString_body_bs (T : Tables) (e : End) (d : Nat) (tr : Bool) (r acc : List Nat) :
    scanString T e d tr .body (0x5c :: r) acc = scanString T e d tr .esc r acc := by
  simp [scanString]

theorem scanString_esc_u (T : Tables) (e : End) (d : Nat) (tr : Bool) (r acc : List Nat) :
    scanString T e d tr .esc (0x75 :: r) acc = scanString T e d tr (.hex uchar4Maxs 0) r acc := by
  simp [scanString]

theorem scanString_esc_U (T : Tables) (e : End) (d : Nat) (tr : Bool) (r acc : List Nat) :
    scanString T e d tr .esc (0x55 :: r) acc = scanString T e d tr (.hex uchar8Maxs 0) r acc := by
  simp [scanString]

theorem scanString_hex_more (T : Tables) (hT : TablesOK T) (e : End) (dl : Nat) (tr : Bool)
    (l : Bool) (m m' : Nat) (ms : List Nat) (v d : Nat) (hd : d < 16) (hm : d ≤ m)
    (r acc : List Nat) :
    scanString T e dl tr (.hex (m :: m' :: ms) v) (hexD l d :: r) acc
      = scanString T e dl tr (.hex (m' :: ms) (v * 16 + d)) r acc := by
  rw [scanString]
  rw [hexD_dec T hT l d hd]
  simp only
  rw [if_neg (by omega)]

theorem scanString_hex_last (T : Tables) (hT : TablesOK T) (e : End) (dl : Nat) (tr : Bool)
    (l : Bool) (m : Nat) (v d : Nat) (hd : d < 16) (hm : d ≤ m) (r acc : List Nat) :
    scanString T e dl tr (.hex [m] v) (hexD l d :: r) acc
      = scanString T e dl tr .body r ((v * 16 + d) :: acc) := by
  rw [scanString]
  rw [hexD_dec T hT l d hd]
  simp only
  rw [if_neg (by omega)]

theorem scanString_u4 (T : Tables) (hT : TablesOK T) (e : End) (dl : Nat) (tr : Bool) (l : Bool)
    (c : Nat) (hc : c ≤ 0xFFFF) (r acc : List Nat) :
    scanString T e dl tr .body (0x5c :: 0x75 :: (hex4c l c ++ r)) acc
      = scanString T e dl tr .body r (c :: acc) := by
  rw [scanString_body_bs, scanString_esc_u]
  simp only [hex4c, uchar4Maxs, NQ.uchar4Maxs, List.cons_append, List.nil_append]
  rw [scanString_hex_more T hT e _ _ _ _ _ _ _ _ (by omega) (by omega),
      scanString_hex_more T hT e _ _ _ _ _ _ _ _ (by omega) (by omega),
      scanString_hex_more T hT e _ _ _ _ _ _ _ _ (by omega) (by omega),
      scanString_hex_last T hT e _ _ _ _ _ _ (by omega) (by omega)]
  congr 2
  omega

theorem scanString_u8 (T : Tables) (hT : TablesOK T) (e : End) (dl : Nat) (tr : Bool) (l : Bool)
    (c : Nat) (hc : c ≤ 0x10FFFF) (r acc : List Nat) :
    scanString T e dl tr .body (0x5c :: 0x55 :: (hex8c l c ++ r)) acc
      = scanString T e dl tr .body r (c :: acc) := by
  rw [scanString_body_bs, scanString_esc_U]
  simp only [hex8c, uchar8Maxs, NQ.uchar8Maxs, List.cons_append, List.nil_append]
  rw [scanString_hex_more T hT e _ _ _ _ _ _ _ _ (by omega) (by omega),
      scanString_hex_more T hT e _ _ _ _ _ _ _ _ (by omega) (by omega),
      scanString_hex_more T hT e _ _ _ _ _ _ _ _ (by omega) (by omega),
      scanString_hex_more T hT e _ _ _ _ _ _ _ _ (by omega) (by omega),
      scanString_hex_more T hT e _ _ _ _ _ _ _ _ (by omega) (by omega),
      scanString_hex_more T hT e _ _ _ _ _ _ _ _ (by omega) (by omega),
      scanString_hex_more T hT e _ _ _ _ _ _ _ _ (by omega) (by omega),
      scanString_hex_last T hT e _ _ _ _ _ _ (by omega) (by omega)]
  congr 2
  omega

theorem scanString_uchar (T : Tables) (hT : TablesOK T) (e : End) (dl : Nat) (tr : Bool)
    (w l : Bool) (c : Nat) (hc : c ≤ 0x10FFFF) (r acc : List Nat) :
    scanString T e dl tr .body (uchar w l c ++ r) acc = scanString T e dl tr .body r (c :: acc) := by
  unfold uchar
  split
  · next h =>
    simp only [Bool.and_eq_true, Bool.not_eq_true', decide_eq_true_eq] at h
    simp only [List.cons_append]
    exact scanString_u4 T hT e dl tr l c h.2 r acc
  · simp only [List.cons_append]
    exact scanString_u8 T hT e dl tr l c hc r acc

/-- `echarOf` and `echarDecode` are inverse on the eight ECHAR runes. -/
theorem echarOf_decode {c x : Nat} (h : echarOf c = some x) :
    echarDecode x = some c ∧ x ≠ 0x75 ∧ x ≠ 0x55 := by
  unfold echarOf at h
  repeat' split at h
  all_goals first
    | (simp only [Option.some.injEq] at h; subst h; subst_vars; decide)
    | (simp at h)

theorem scanString_echar (T : Tables) (e : End) (dl : Nat) (tr : Bool) (x c : Nat)
    (h : echarOf c = some x) (r acc : List Nat) :
    scanString T e dl tr .body (0x5c :: x :: r) acc = scanString T e dl tr .body r (c :: acc) := by
  obtain ⟨h1, h2, h3⟩ := echarOf_decode h
  rw [scanString_body_bs, scanString_esc_cons]
  rw [if_neg h2, if_neg h3, h1]

theorem scanString_strEsc (T : Tables) (hT : TablesOK T) (e : End) (dl : Nat) (tr : Bool)
    (c : Nat) (hc : c ≤ 0x10FFFF) (r acc : List Nat) :
    scanString T e dl tr .body (strEsc c ++ r) acc = scanString T e dl tr .body r (c :: acc) := by
  unfold strEsc
  split
  · next x hx =>
    simp only [List.cons_append, List.nil_append]
    exact scanString_echar T e dl tr x c hx r acc
  · exact scanString_uchar T hT e dl tr _ _ c hc r acc

theorem scanString_raw (T : Tables) (e : End) (dl : Nat) (tr : Bool) (c : Nat)
    (h1 : c ≠ 0x5c) (h2 : c ≠ dl) (r acc : List Nat) :
    scanString T e dl tr .body (c :: r) acc = scanString T e dl tr .body r (c :: acc) := by
  rw [scanString_body_cons, if_neg h2, if_neg h1]
  split <;> rfl

theorem strRawOK_ne {st : Style} {c : Nat} (h : strRawOK st c = true) :
    c ≠ 0x5c ∧ c ≠ st.delim := by
  simp only [strRawOK, Bool.and_eq_true, bne_iff_ne, ne_eq] at h
  exact ⟨h.1.1, h.1.2⟩

theorem scanString_rune (T : Tables) (hT : TablesOK T) (e : End) (st : Style) (tr : Bool)
    (ch : Choice) (c : Nat) (hc : c ≤ 0x10FFFF) (r acc : List Nat) :
    scanString T e st.delim tr .body (printStrRune st ch c ++ r) acc
      = scanString T e st.delim tr .body r (c :: acc) := by
  cases ch with
  | raw =>
    simp only [printStrRune]
    split
    · next h =>
      obtain ⟨h1, h2⟩ := strRawOK_ne h
      exact scanString_raw T e _ tr c h1 h2 r acc
    · exact scanString_strEsc T hT e _ tr c hc r acc
  | echar => exact scanString_strEsc T hT e _ tr c hc r acc
  | u4 l => exact scanString_uchar T hT e _ tr _ _ c hc r acc
  | u8 l => exact scanString_uchar T hT e _ tr _ _ c hc r acc

theorem delim_quote (st : Style) : st.delim = 0x22 ∨ st.delim = 0x27 := by
  cases st <;> simp [Style.delim]

theorem uchar_head (w l : Bool) (c : Nat) : ∃ tl, uchar w l c = 0x5c :: tl := by
  unfold uchar; split <;> exact ⟨_, rfl⟩

theorem strEsc_head (c : Nat) : ∃ tl, strEsc c = 0x5c :: tl := by
  unfold strEsc; split
  · exact ⟨_, rfl⟩
  · exact uchar_head _ _ c

/-- No printed form of a single rune starts with the delimiter. -/
theorem printStrRune_head (st : Style) (ch : Choice) (c : Nat) :
    ∃ x tl, printStrRune st ch c = x :: tl ∧ x ≠ st.delim := by
  have hbs : (0x5c : Nat) ≠ st.delim := by cases st <;> simp [Style.delim]
  have hesc : ∃ x tl, strEsc c = x :: tl ∧ x ≠ st.delim := by
    obtain ⟨tl, h⟩ := strEsc_head c; exact ⟨_, tl, h, hbs⟩
  have hu : ∀ w l, ∃ x tl, uchar w l c = x :: tl ∧ x ≠ st.delim := by
    intro w l; obtain ⟨tl, h⟩ := uchar_head w l c; exact ⟨_, tl, h, hbs⟩
  cases ch with
  | raw =>
    simp only [printStrRune]
    split
    · next h => exact ⟨c, [], rfl, (strRawOK_ne h).2⟩
    · exact hesc
  | echar => exact hesc
  | u4 l => exact hu _ _
  | u8 l => exact hu _ _

/-- One printer step: a raw delimiter (long styles, fewer than two just written, not last), or the
    printed form of the rune. -/
theorem printStrBody_cons (st : Style) (k : Nat) (chs : List Choice) (c : Nat) (s : List Nat) :
    (st.long = true ∧ c = st.delim ∧ k < 2 ∧ s ≠ [] ∧
      printStrBody st k chs (c :: s) = st.delim :: printStrBody st (k + 1) chs.tail s)
    ∨ printStrBody st k chs (c :: s)
        = printStrRune st (chs.head?.getD .raw) c ++ printStrBody st 0 chs.tail s := by
  rw [printStrBody]
  split
  · next h =>
    simp only [Bool.and_eq_true, decide_eq_true_eq, Bool.not_eq_true', List.isEmpty_eq_false_iff]
      at h
    obtain ⟨⟨⟨⟨a, b⟩, _⟩, d⟩, f⟩ := h
    left
    refine ⟨a, b, d, f, ?_⟩
    rw [← b]
  · right; rfl

/-- With two raw delimiters just written, the next rune is not a delimiter. -/
theorem printStrBody_head2 (st : Style) (k : Nat) (hk : 2 ≤ k) (chs : List Choice) (c : Nat)
    (s tail : List Nat) :
    ∃ x tl, printStrBody st k chs (c :: s) ++ tail = x :: tl ∧ x ≠ st.delim := by
  rcases printStrBody_cons st k chs c s with ⟨_, _, h, _⟩ | h
  · omega
  · obtain ⟨x, tl, h1, h2⟩ := printStrRune_head st (chs.head?.getD .raw) c
    rw [h, h1]
    exact ⟨x, _, rfl, h2⟩

/-- With one raw delimiter just written, the next two runes are not both delimiters. -/
theorem printStrBody_head1 (st : Style) (k : Nat) (hk : 1 ≤ k) (chs : List Choice) (c : Nat)
    (s tail : List Nat) :
    ∃ x tl, printStrBody st k chs (c :: s) ++ tail = x :: tl ∧
      (x ≠ st.delim ∨ ∃ y tl', tl = y :: tl' ∧ y ≠ st.delim) := by
  rcases printStrBody_cons st k chs c s with ⟨_, _, _, hs, h⟩ | h
  · cases s with
    | nil => exact absurd rfl hs
    | cons c' s' =>
      obtain ⟨y, tl', h1, h2⟩ := printStrBody_head2 st (k + 1) (by omega) chs.tail c' s' tail
      rw [h]
      simp only [List.cons_append]
      exact ⟨_, _, rfl, Or.inr ⟨y, tl', h1, h2⟩⟩
  · obtain ⟨x, tl, h1, h2⟩ := printStrRune_head st (chs.head?.getD .raw) c
    rw [h, h1]
    exact ⟨x, _, rfl, Or.inl h2⟩

/-- A delimiter inside a long string that is not followed by two more is part of the value. -/
theorem scanString_delim_cont (T : Tables) (e : End) (d : Nat) (hd : d = 0x22 ∨ d = 0x27)
    (x : Nat) (tl : List Nat) (h : x ≠ d ∨ ∃ y tl', tl = y :: tl' ∧ y ≠ d) (acc : List Nat) :
    scanString T e d true .body (d :: x :: tl) acc = scanString T e d true .body (x :: tl) (d :: acc) := by
  rw [scanString_body_cons, if_pos hd]
  simp only [if_true, Bool.not_true, Bool.false_eq_true, if_false]
  by_cases hx : x = d
  · rcases h with h | ⟨y, tl', rfl, hy⟩
    · exact absurd hx h
    · rw [if_pos hx]
      simp only
      rw [if_neg hy]
  · rw [if_neg hx]

theorem scanString_close_short (T : Tables) (e : End) (d : Nat) (hd : d = 0x22 ∨ d = 0x27)
    (r acc : List Nat) :
    scanString T e d false .body (d :: r) acc = .ok (goString acc.reverse) r := by
  rw [scanString_body_cons, if_pos hd]
  simp

theorem scanString_close_long (T : Tables) (e : End) (d : Nat) (hd : d = 0x22 ∨ d = 0x27)
    (r acc : List Nat) :
    scanString T e d true .body (d :: d :: d :: r) acc = .ok (goString acc.reverse) r := by
  rw [scanString_body_cons, if_pos hd]
  simp

theorem scanString_printBody (T : Tables) (hT : TablesOK T) (e : End) (st : Style) (rest : List Nat)
    (s : List Nat) (hs : Scalars s) :
    ∀ (k : Nat) (chs : List Choice) (acc : List Nat),
      scanString T e st.delim st.long .body (printStrBody st k chs s ++ (quotes st ++ rest)) acc
        = .ok (goString (acc.reverse ++ s)) rest := by
  induction s with
  | nil =>
    intro k chs acc
    simp only [printStrBody, List.nil_append, List.append_nil, quotes]
    cases hl : st.long
    · simp only [Bool.false_eq_true, if_false, List.cons_append, List.nil_append]
      exact scanString_close_short T e _ (delim_quote st) rest acc
    · simp only [if_true, List.cons_append, List.nil_append]
      exact scanString_close_long T e _ (delim_quote st) rest acc
  | cons c s ih =>
    intro k chs acc
    have ih' := ih (scalars_tail hs)
    rcases printStrBody_cons st k chs c s with ⟨hl, hc, _, hne, h⟩ | h
    · rw [h, hl]
      cases s with
      | nil => exact absurd rfl hne
      | cons c' s' =>
        obtain ⟨x, tl, h1, h2⟩ :=
          printStrBody_head1 st (k + 1) (by omega) chs.tail c' s' (quotes st ++ rest)
        have ih2 := ih' (k + 1) chs.tail (st.delim :: acc)
        rw [hl, h1] at ih2
        simp only [List.cons_append]
        rw [h1, scanString_delim_cont T e _ (delim_quote st) x tl h2, ih2, hc]
        simp
    · rw [h, List.append_assoc,
        scanString_rune T hT e st _ _ c (isScalar_le (scalars_head hs)), ih']
      simp

/-- String: all four quoting styles, every choice of raw / ECHAR / UCHAR per rune, raw quotes inside long strings. -/
theorem print_string (T : Tables) (hT : TablesOK T) (e : End) (st : Style) (chs : List Choice)
    (s : List Nat) (hs : Scalars s) (rest : List Nat) (hstop : StrStop e st s rest) :
    produceString T e (printString st chs s ++ rest) = .ok s rest := by
  have hq := delim_quote st
  have hbody := scanString_printBody T hT e st rest s hs 0 chs []
  simp only [List.reverse_nil, List.nil_append, goString_id_of_scalar hs] at hbody
  simp only [printString, List.append_assoc]
  cases hl : st.long
  · -- short styles
    rw [hl] at hbody
    have hqs : quotes st = [st.delim] := by simp [quotes, hl]
    rw [hqs] at hbody ⊢
    simp only [List.cons_append, List.nil_append] at hbody ⊢
    rw [produceString_cons, if_pos hq]
    cases s with
    | nil =>
      simp only [printStrBody, List.nil_append]
      simp only [if_true]
      rcases hstop with h | h | h
      · rw [hl] at h; exact absurd h (by simp)
      · exact absurd rfl h
      · cases rest with
        | nil =>
          simp only at h
          subst h
          rfl
        | cons c2 r2 =>
          simp only at h
          simp only
          rw [if_neg h]
    | cons c s' =>
      rcases printStrBody_cons st 0 chs c s' with ⟨hl', _⟩ | h
      · rw [hl] at hl'; exact absurd hl' (by simp)
      · obtain ⟨x, tl, h1, h2⟩ := printStrRune_head st (chs.head?.getD .raw) c
        rw [h, h1] at hbody ⊢
        simp only [List.cons_append] at hbody ⊢
        rw [if_neg h2]
        exact hbody
  · -- long styles
    rw [hl] at hbody
    have hqs : quotes st = [st.delim, st.delim, st.delim] := by simp [quotes, hl]
    rw [hqs] at hbody ⊢
    simp only [List.cons_append, List.nil_append] at hbody ⊢
    rw [produceString_cons, if_pos hq]
    simp only [if_true]
    exact hbody

end RdfModel.Proofs.C08Tok
