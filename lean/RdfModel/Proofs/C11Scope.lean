/-
  C11, scoping facts of the two fragment semantics (helper lemmas for Props/C11.lean), about exactly the
  functions the driver runs:

    RDFa       * a `prefix:reference` value whose prefix is not in scope is an IRI (itself), one whose prefix is in
                 scope is the concatenation (`resTCA_undeclared`, `resTCA_declared`, `resSCI_undeclared`)
               * a bare term under a local default vocabulary is vocabulary ++ term, whatever the vocabulary IRI is
                 (`resTCA_vocab`); `@vocab="v"` (v ≠ "") makes `v` the local default vocabulary of the element and of
                 its children (`elemLocal_vocab`)
               * `@prefix` declarations extend the mappings of the element and its children (`elemLocal_prefixes`);
                 the following siblings are processed in the parent's own evaluation context (`procKids_cons`)
    Microdata  * which element an `itemref` token names does not depend on `id` attributes with other values, wherever
                 they are (on ancestors of the target included): `findIdNode_reId`
-/
import RdfModel.Spec.RdfaFragment
import RdfModel.Spec.MicrodataFragment
namespace RdfModel.Spec.Rdfa
open RdfModel RdfModel.Spec.Html RdfModel.Desc

theorem curie_undeclared (E : Env) (v p r : Str) (hs : splitColon v = some (p, r)) (h1 : p ≠ [0x5f]) (h2 : p ≠ [])
    (hl : alookup (toLowerAscii p) E.prefixes = none) : curie E v = .notCurie := by
  unfold curie
  simp only [hs, h1, h2, if_false]
  split
  · simp [hl]
  · rfl

theorem curie_declared (E : Env) (v p r ns : Str) (hs : splitColon v = some (p, r)) (h1 : p ≠ [0x5f]) (h2 : p ≠ [])
    (hn : isNCName p = true) (hl : alookup (toLowerAscii p) E.prefixes = some ns) :
    curie E v = .term (.iri (ns ++ r)) := by
  unfold curie
  simp [hs, h1, h2, hn, hl]

theorem resTCA_undeclared (E : Env) (v p r : Str) (hs : splitColon v = some (p, r)) (h1 : p ≠ [0x5f]) (h2 : p ≠ [])
    (hl : alookup (toLowerAscii p) E.prefixes = none) : resTCA E v = some v := by
  unfold resTCA
  simp [hs, curie_undeclared E v p r hs h1 h2 hl]

theorem resTCA_declared (E : Env) (v p r ns : Str) (hs : splitColon v = some (p, r)) (h1 : p ≠ [0x5f]) (h2 : p ≠ [])
    (hn : isNCName p = true) (hl : alookup (toLowerAscii p) E.prefixes = some ns) : resTCA E v = some (ns ++ r) := by
  unfold resTCA
  simp [hs, curie_declared E v p r ns hs h1 h2 hn hl]

theorem resSCI_undeclared (E : Env) (v p r : Str) (hsafe : safeInner v = none) (hs : splitColon v = some (p, r))
    (h1 : p ≠ [0x5f]) (h2 : p ≠ []) (hl : alookup (toLowerAscii p) E.prefixes = none) :
    resSCI E v = some (.iri (resolveRef E.base v)) := by
  unfold resSCI
  simp [hsafe, curie_undeclared E v p r hs h1 h2 hl]

theorem resTCA_vocab (E : Env) (voc v : Str) (hv : E.vocab = some voc) (hc : splitColon v = none) (ht : isTerm v = true) :
    resTCA E v = some (voc ++ v) := by
  unfold resTCA
  simp [hc, ht, hv]

/-- step 3: the children's mappings are the element's declarations in front of the inherited ones -/
theorem elemLocal_prefixes (C : Ctx) (lm : LM) (n : Nat) (tag : Tag) (a : Attrs) (txt : Str) :
    (elemLocal C lm n tag a txt).kid.env.prefixes =
      (match a.pfx with | some p => prefixDecls (fields p) | none => []) ++ C.env.prefixes := by
  unfold elemLocal
  dsimp only
  rw [apply_ite Ctx.env, apply_ite Env.prefixes]
  simp
  cases a.pfx <;> rfl

/-- step 2: a non-empty @vocab is the local default vocabulary handed to the children -/
theorem elemLocal_vocab (C : Ctx) (lm : LM) (n : Nat) (tag : Tag) (a : Attrs) (txt v : Str)
    (ha : a.vocab = some v) (hv : v ≠ []) : (elemLocal C lm n tag a txt).kid.env.vocab = some v := by
  unfold elemLocal
  dsimp only
  rw [apply_ite Ctx.env, apply_ite Env.vocab]
  simp [ha, hv]

/-- siblings: the evaluation context (prefix mappings, vocabulary, …) of the following siblings is the parent's
    own `C`; only the list mapping and the blank-node counter are threaded through -/
theorem procKids_cons (C : Ctx) (lm : LM) (n : Nat) (k : Tree) (ks : List Tree) :
    procKids C lm n (k :: ks) =
      { out := (procNode C lm n k).out ++ (procKids C (procNode C lm n k).lm (procNode C lm n k).next ks).out,
        lm := (procKids C (procNode C lm n k).lm (procNode C lm n k).next ks).lm,
        next := (procKids C (procNode C lm n k).lm (procNode C lm n k).next ks).next } := by
  rw [procKids]

end RdfModel.Spec.Rdfa

namespace RdfModel.Spec.Microdata
open RdfModel RdfModel.Spec.Html RdfModel.Desc

mutual
/-- rewrite the `id` attribute of every element: `f position old` is the new one -/
def reId (f : Path → Option Str → Option Str) (here : Path) : Tree → Tree
  | .text s => .text s
  | .elem tag a ks => .elem tag { a with id := f here a.id } (reIdKids f here 0 ks)
def reIdKids (f : Path → Option Str → Option Str) (here : Path) (i : Nat) : List Tree → List Tree
  | [] => []
  | k :: ks => reId f (here ++ [i]) k :: reIdKids f here (i + 1) ks
end

mutual
/-- every `itemref` token of the document -/
def refTokens : Tree → List Str
  | .text _ => []
  | .elem _ a ks => (match a.itemref with | some v => fields v | none => []) ++ refTokensKids ks
def refTokensKids : List Tree → List Str
  | [] => []
  | k :: ks => refTokens k ++ refTokensKids ks
end

mutual
theorem findIdNode_reId (f : Path → Option Str → Option Str) (r : Str)
    (hf : ∀ p o, f p o = some r ↔ o = some r) (here : Path) :
    ∀ t : Tree, findIdNode r here (reId f here t) = findIdNode r here t
  | .text _ => by simp [reId, findIdNode]
  | .elem tag a ks => by
    simp only [reId, findIdNode]
    by_cases h : a.id = some r
    · have : f here a.id = some r := (hf here a.id).mpr h
      rw [if_pos this, if_pos h]
    · have : ¬ f here a.id = some r := fun h' => h ((hf here a.id).mp h')
      rw [if_neg this, if_neg h, findIdKids_reId f r hf here 0 ks]
theorem findIdKids_reId (f : Path → Option Str → Option Str) (r : Str)
    (hf : ∀ p o, f p o = some r ↔ o = some r) (here : Path) (i : Nat) :
    ∀ ks : List Tree, findIdKids r here i (reIdKids f here i ks) = findIdKids r here i ks
  | [] => by simp [reIdKids, findIdKids]
  | k :: ks => by
    simp only [reIdKids, findIdKids]
    rw [findIdNode_reId f r hf (here ++ [i]) k, findIdKids_reId f r hf here (i + 1) ks]
end

end RdfModel.Spec.Microdata
