/-
  C17 — T2 tie: the structural facts regenerated from /repo/rdfdescription on this run
  (Gen/DescFacts.lean) are the ones the hand-written model Model/Description.lean encodes:

  * `isInl` tests `refCount == 1` under `opts.inline` (ExportResources and ExportResourceStatements);
    `exportResource` tests `refCount == 0` under `opts.useAnon`;
  * `Builder.add1` increments the count exactly once, for an object that is a blank node;
  * `Stmt.newTriples` builds `⟨s, p, o⟩` resp. `⟨s, p, descriptionSubject⟩`;
  * one `rdf.NewBlankNode()` per AnonResource / nil-subject SubjectResource;
  * the source is one of the two modelled variants: before patch `fix-c17-export-cycles` (no `inlined`
    set; model functions `exportResources` …) or after it (`inlined` read negated in the second loop of
    ExportResources and before inlining, written `true` at the top of exportResourceStatements; model
    functions `exportResourcesV` …).

  A change of any of these in the Go source changes the generated file and breaks `gen_desc_facts`
  (the check then reports the broken tie and searches for a failing input).
-/
import RdfModel.Gen.DescFacts
namespace RdfModel.C17
open RdfModel.Gen.DescFacts

/-- the source as it was before patch `fix-c17-export-cycles` -/
def SourceBefore : Prop :=
  cmps = [("ResourceListBuilder.ExportResources", "opts.Inline", "==", "1"),
          ("ResourceListBuilder.ExportResource", "opts.UseAnonResource", "==", "0"),
          ("ResourceListBuilder.ExportResourceStatements", "opts.Inline", "==", "1")] ∧
  marks = []

/-- the source after the patch -/
def SourceAfter : Prop :=
  cmps = [("ResourceListBuilder.ExportResources", "opts.Inline", "==", "1"),
          ("ResourceListBuilder.ExportResources", "opts.Inline", "==", "1"),
          ("ResourceListBuilder.exportResource", "opts.UseAnonResource", "==", "0"),
          ("ResourceListBuilder.exportResourceStatements", "opts.Inline", "==", "1")] ∧
  marks = [("ResourceListBuilder.ExportResources", "!read"),
           ("ResourceListBuilder.exportResourceStatements", "write=true"),
           ("ResourceListBuilder.exportResourceStatements", "!read")]

instance : Decidable SourceBefore := by unfold SourceBefore; exact inferInstance
instance : Decidable SourceAfter := by unfold SourceAfter; exact inferInstance

theorem gen_desc_facts :
    (SourceBefore ∨ SourceAfter) ∧
    incs = [("ResourceListBuilder.Add", "++", "t.Object", "rdf.BlankNode")] ∧
    triples = [("ObjectStatement.NewTriples", "Object=l.Object;Predicate=l.Predicate;Subject=s"),
               ("AnonResourceStatement.NewTriples", "Object=descriptionSubject;Predicate=l.Predicate;Subject=s")] ∧
    fresh = [("SubjectResource.statementList", 1), ("AnonResource.statementList", 1)] := by
  decide

end RdfModel.C17
