/-
  Axiom audit for the document-level corollaries of the Turtle/TriG token-producer erasure theorems
  of C16 (`Props/C16TtlDoc.lean`).
-/
import RdfModel.Props.C16TtlDoc

#print axioms RdfModel.C16Ttl.instrProducers_eq
#print axioms RdfModel.C16Ttl.doc_capture_irrelevant_producers_partial
#print axioms RdfModel.C16Ttl.doc_capture_on_eq_off_producers_partial
#print axioms RdfModel.C16Ttl.writer_is_write_only_T2
