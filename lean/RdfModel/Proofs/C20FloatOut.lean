/-
  C20F helper lemmas, output side: the shape and the value of strconv's `%f` rendering (`XsdF.fmtF`)
  of a decimal expansion, against Spec.XsdDecimal.
-/
import RdfModel.Props.C20FloatDefs
import RdfModel.Proofs.C20Str
namespace RdfModel.Proofs.C20F
open RdfModel RdfModel.XsdF RdfModel.C20F
open RdfModel.Xsd (Bytes)
open RdfModel.Spec.Xsd (isDigit spanDigits natValue decimalLex signSplit digits1 isCanonDecimal)
open RdfModel.Proofs.C20 (nv nv_eq natValue_eq_nv)

abbrev AllDigits (s : Bytes) : Prop := ∀ c ∈ s, isDigit c = true

theorem allDigits_iff (s : Bytes) : AllDigits s ↔ s.all isDigit = true := by
  simp [AllDigits, List.all_eq_true]

/-! ### digit runs -/

theorem span_run (ds rest : Bytes) (hd : AllDigits ds)
    (hr : ∀ c r, rest = c :: r → isDigit c = false) : spanDigits (ds ++ rest) = (ds, rest) := by
  induction ds with
  | nil =>
    cases rest with
    | nil => rfl
    | cons c r => simp [spanDigits, hr c r rfl]
  | cons c r ih =>
    have hc : isDigit c = true := hd c List.mem_cons_self
    have := ih (fun x hx => hd x (List.mem_cons_of_mem _ hx))
    simp [spanDigits, hc, this]

theorem natValue_append (a b : Bytes) : natValue (a ++ b) = natValue a * 10 ^ b.length + natValue b := by
  rw [natValue_eq_nv, natValue_eq_nv, natValue_eq_nv]
  unfold nv
  rw [List.foldl_append]
  exact nv_eq b _

theorem natValue_zeros (k : Nat) : natValue (List.replicate k 0x30) = 0 := by
  induction k with
  | zero => rfl
  | succ k ih => rw [List.replicate_succ, C20.natValue_cons]; simp [ih]

theorem allDigits_zeros (k : Nat) : AllDigits (List.replicate k 0x30) := by
  intro c hc
  rw [List.mem_replicate] at hc
  rw [hc.2]; decide

theorem digit_ne_sign {c : Nat} (h : isDigit c = true) : c ≠ 0x2D ∧ c ≠ 0x2B ∧ c ≠ 0x2E := by
  rw [C20.isDigit_iff] at h; omega

/-! ### the lexical mapping of a built numeral -/

/-- sign · integer digits · optional point and fraction digits -/
def build (neg : Bool) (ip fp : Bytes) (dot : Bool) : Bytes :=
  (if neg then [0x2D] else []) ++ ip ++ (if dot then 0x2E :: fp else [])

theorem decimalLex_build (neg : Bool) (ip fp : Bytes) (dot : Bool) (hi : AllDigits ip) (hf : AllDigits fp)
    (hne : ip ≠ []) (hfd : dot = false → fp = []) :
    decimalLex (build neg ip fp dot) = some (neg, natValue (ip ++ fp), fp.length) := by
  obtain ⟨c, r, rfl⟩ := List.exists_cons_of_ne_nil hne
  have hc := digit_ne_sign (hi c List.mem_cons_self)
  have hsign : signSplit (build neg (c :: r) fp dot) = (neg, (c :: r) ++ (if dot then 0x2E :: fp else [])) := by
    cases neg
    · simp [build, signSplit, hc.1, hc.2.1]
    · simp [build, signSplit]
  unfold decimalLex
  rw [hsign]
  cases dot with
  | false =>
    have := hfd rfl
    subst this
    have hs := span_run (c :: r) [] hi (by simp)
    simp only [Bool.false_eq_true, if_false, List.append_nil] at hs ⊢
    rw [hs]
    simp
  | true =>
    have hs := span_run (c :: r) (0x2E :: fp) hi (by intro c' r' h; simp at h; rw [← h.1]; decide)
    simp only [if_true]
    rw [hs]
    have hs2 := span_run fp [] hf (by simp)
    simp only [List.append_nil] at hs2
    simp [hs2]

/-! ### fmtF by cases -/

theorem decWF_elim {d : Dec} (h : decWF d = true) :
    AllDigits d.ds ∧ ((d.ds = [] ∧ d.dp = 0) ∨
      (∃ c r, d.ds = c :: r ∧ c ≠ 0x30 ∧ d.ds.getLast? ≠ some 0x30)) := by
  unfold decWF at h
  simp only [Bool.and_eq_true] at h
  refine ⟨(allDigits_iff _).2 h.1, ?_⟩
  cases hds : d.ds with
  | nil => rw [hds] at h; left; simpa using h.2
  | cons c r =>
    right
    refine ⟨c, r, rfl, ?_⟩
    have h2 := h.2
    rw [hds] at h2
    simpa using h2

/-- zero: `0` / `-0` -/
theorem fmtF_zero (neg : Bool) : fmtF ⟨neg, [], 0⟩ = build neg [0x30] [] false := by
  cases neg <;> rfl

/-- `dp ≤ 0`: `0.` zeros digits -/
theorem fmtF_small (neg : Bool) (ds : Bytes) (p : Nat) (hne : ds ≠ []) :
    fmtF ⟨neg, ds, -(p : Int)⟩ = build neg [0x30] (List.replicate p 0x30 ++ ds) true := by
  have hl : 0 < ds.length := List.length_pos_iff.mpr hne
  have hprec : (((ds.length : Int) - -(p : Int)).toNat > 0) := by omega
  unfold fmtF build
  have h1 : ¬ (-(p : Int) > 0) := by omega
  simp only [h1, if_false, hprec, if_true]
  by_cases hp : p = 0
  · subst hp; simp
  · have : 0 < p := by omega
    simp [this]

/-- `0 < dp < nd`: digits split by the point -/
theorem fmtF_mid (neg : Bool) (ds : Bytes) (p : Nat) (hp : 0 < p) (hlt : p < ds.length) :
    fmtF ⟨neg, ds, (p : Int)⟩ = build neg (ds.take p) (ds.drop p) true := by
  unfold fmtF build
  have h1 : ((p : Int) > 0) := by omega
  have h2 : (((ds.length : Int) - (p : Int)).toNat > 0) := by omega
  have h3 : ¬ ((p : Int) < 0) := by omega
  have h4 : p - ds.length = 0 := by omega
  have h5 : 0 < ds.length - p := by omega
  simp [hp, h3, h4, h5]

/-- `dp ≥ nd`: an integer, padded with zeros, no point -/
theorem fmtF_big (neg : Bool) (ds : Bytes) (p : Nat) (hp : 0 < p) (hge : ds.length ≤ p) :
    fmtF ⟨neg, ds, (p : Int)⟩ = build neg (ds ++ List.replicate (p - ds.length) 0x30) [] false := by
  unfold fmtF build
  have h1 : ((p : Int) > 0) := by omega
  have h5 : ds.length - p = 0 := by omega
  simp [hp, h5, List.take_of_length_le hge]


/-! ### shape and value of `fmtF` on a well-formed expansion -/

/-- what the output theorems need of a rendering `build neg ip fp dot` -/
structure Shape (d : Dec) (ip fp : Bytes) (dot : Bool) : Prop where
  eq : fmtF d = build d.neg ip fp dot
  hi : AllDigits ip
  hf : AllDigits fp
  hne : ip ≠ []
  hfd : dot = false → fp = []
  hdot : dot = true → fp ≠ [] ∧ fp.getLast? ≠ some 0x30
  hlead : ip.head? ≠ some 0x30 ∨ ip = [0x30]
  val : natValue (ip ++ fp) = (decValue d).1
  scale : fp.length = (decValue d).2
  zero : (ip = [0x30] ∧ dot = false) ↔ d.ds = []

theorem natValue_zero_cons (x : Bytes) : natValue (0x30 :: x) = natValue x := by
  rw [C20.natValue_cons]; simp

theorem fmtF_shape (d : Dec) (h : decWF d = true) : ∃ ip fp dot, Shape d ip fp dot := by
  obtain ⟨hall, hz | ⟨c, r, hds, hc, hlast⟩⟩ := decWF_elim h
  · -- zero
    cases d with
    | mk neg ds dp =>
      simp only at hz hall
      obtain ⟨rfl, rfl⟩ := hz
      refine ⟨[0x30], [], false, fmtF_zero neg, by intro c hc; simp at hc; subst hc; decide,
        by intro c hc; simp at hc, by simp, fun _ => rfl, by simp, Or.inr rfl, by simp [decValue, natValue], by simp [decValue], by simp⟩
  · cases d with
    | mk neg ds dp =>
      simp only at hds hall hlast
      have hne : ds ≠ [] := by rw [hds]; simp
      have hcd : isDigit c = true := hall c (by rw [hds]; exact List.mem_cons_self)
      obtain ⟨p, rfl | rfl⟩ := Int.eq_nat_or_neg dp
      · by_cases hp : p = 0
        · -- dp = 0: same as the small case with no padding
          subst hp
          refine ⟨[0x30], List.replicate 0 0x30 ++ ds, true, by simpa using fmtF_small neg ds 0 hne, ?_, ?_, by simp,
            by simp, ?_, Or.inr rfl, ?_, ?_, ?_⟩
          · intro c hc; simp at hc; subst hc; decide
          · simpa using hall
          · intro _; simpa using ⟨hne, hlast⟩
          · simp [decValue, natValue_zero_cons]
          · simp [decValue]
          · simp [hne]
        · have hp' : 0 < p := by omega
          by_cases hlt : p < ds.length
          · refine ⟨ds.take p, ds.drop p, true, fmtF_mid neg ds p hp' hlt, ?_, ?_, ?_, by simp, ?_, ?_, ?_, ?_, ?_⟩
            · intro x hx; exact hall x (List.mem_of_mem_take hx)
            · intro x hx; exact hall x (List.mem_of_mem_drop hx)
            · intro hnil
              rw [List.take_eq_nil_iff] at hnil
              rcases hnil with h0 | h0
              · omega
              · exact hne h0
            · intro _
              refine ⟨?_, ?_⟩
              · intro hnil
                have := congrArg List.length hnil
                simp only [List.length_drop, List.length_nil] at this; omega
              · rw [List.getLast?_drop]; simp [show ¬ ds.length ≤ p by omega, hlast]
            · left
              rw [hds]
              obtain ⟨q, rfl⟩ : ∃ q, p = q + 1 := ⟨p - 1, by omega⟩
              simp [hc]
            · have : (p : Int) - (ds.length : Int) ≤ 0 := by omega
              simp [decValue, List.take_append_drop, Int.toNat_of_nonpos this]
            · simp only [decValue, List.length_drop]; omega
            · simp only [hne, iff_false, not_and]; intro _; simp
          · have hge : ds.length ≤ p := by omega
            refine ⟨ds ++ List.replicate (p - ds.length) 0x30, [], false, fmtF_big neg ds p hp' hge, ?_, by intro c hc; simp at hc, ?_,
              fun _ => rfl, by simp, ?_, ?_, ?_, ?_⟩
            · intro x hx
              rcases List.mem_append.1 hx with hx | hx
              · exact hall x hx
              · exact allDigits_zeros _ x hx
            · simp [hne]
            · left; rw [hds]; simp [hc]
            · have : ((p : Int) - (ds.length : Int)).toNat = p - ds.length := by omega
              simp [decValue, natValue_append, natValue_zeros, this]
            · simp only [decValue, List.length_nil]; omega
            · simp only [hne, iff_false, not_and]
              intro habs
              have := congrArg List.head? habs
              rw [hds] at this
              simp at this
              exact absurd this hc
      · refine ⟨[0x30], List.replicate p 0x30 ++ ds, true, fmtF_small neg ds p hne, ?_, ?_, by simp, by simp, ?_, Or.inr rfl, ?_, ?_, ?_⟩
        · intro c hc; simp at hc; subst hc; decide
        · intro x hx
          rcases List.mem_append.1 hx with hx | hx
          · exact allDigits_zeros _ x hx
          · exact hall x hx
        · intro _
          refine ⟨by simp [hne], ?_⟩
          rw [List.getLast?_append]
          cases hgl : ds.getLast? with
          | none => rw [List.getLast?_eq_none_iff] at hgl; exact absurd hgl hne
          | some x => rw [hgl] at hlast; simpa using hlast
        · have : (-(p : Int) - (ds.length : Int)) ≤ 0 := by omega
          simp [decValue, natValue_zero_cons, natValue_append, natValue_zeros, Int.toNat_of_nonpos this]
        · simp only [decValue, List.length_append, List.length_replicate]; omega
        · simp [hne]


/-! ### lexical spaces and canonical shape of a built numeral -/

theorem dropSign_build (neg : Bool) (ip fp : Bytes) (dot : Bool) (hi : AllDigits ip) (hne : ip ≠ []) :
    Spec.Xsd.dropSign (build neg ip fp dot) = ip ++ (if dot then 0x2E :: fp else []) := by
  obtain ⟨c, r, rfl⟩ := List.exists_cons_of_ne_nil hne
  have hc := digit_ne_sign (hi c List.mem_cons_self)
  cases neg
  · simp [build, Spec.Xsd.dropSign, hc.1, hc.2.1]
  · simp [build, Spec.Xsd.dropSign]

theorem decimalLexOK_build (neg : Bool) (ip fp : Bytes) (dot : Bool) (hi : AllDigits ip) (hf : AllDigits fp)
    (hne : ip ≠ []) : Spec.Xsd.decimalLexOK (build neg ip fp dot) = true := by
  unfold Spec.Xsd.decimalLexOK Spec.Xsd.unsignedNumeral
  rw [dropSign_build neg ip fp dot hi hne]
  have hie : ip.isEmpty = false := by cases ip <;> simp_all
  cases dot with
  | false =>
    have hs := span_run ip [] hi (by simp)
    simp only [List.append_nil] at hs
    simp [hs, hie]
  | true =>
    have hs := span_run ip (0x2E :: fp) hi (by intro c' r' h; simp at h; rw [← h.1]; decide)
    have hs2 := span_run fp [] hf (by simp)
    simp only [List.append_nil] at hs2
    simp [hs, hs2, hie]

theorem doubleLexOK_of_decimal (s : Bytes) (h : Spec.Xsd.decimalLexOK s = true) :
    Spec.Xsd.doubleLexOK s = true := by
  unfold Spec.Xsd.doubleLexOK
  unfold Spec.Xsd.decimalLexOK at h
  split
  · rfl
  · split
    · rfl
    · split at h <;> simp_all

theorem isCanon_build (neg : Bool) (ip fp : Bytes) (dot : Bool) (hi : AllDigits ip) (hf : AllDigits fp)
    (hne : ip ≠ []) (hdot : dot = true → fp ≠ [] ∧ fp.getLast? ≠ some 0x30)
    (hlead : ip.head? ≠ some 0x30 ∨ ip = [0x30]) :
    isCanonDecimal (build neg ip fp dot) = (dot || !(neg && ip == [0x30])) := by
  obtain ⟨c, r, rfl⟩ := List.exists_cons_of_ne_nil hne
  have hc := digit_ne_sign (hi c List.mem_cons_self)
  have hd1 : digits1 (c :: r) = true := by
    simp only [digits1, List.isEmpty_cons, Bool.not_false, Bool.true_and]
    exact (allDigits_iff _).1 hi
  have hlead' : ((c :: r).head? != some 0x30 || (c :: r).length == 1) = true := by
    rcases hlead with h | h
    · simp at h; simp [h]
    · simp at h; simp [h.2]
  have hhead : ((build neg (c :: r) fp dot).head? == some 0x2D) = neg := by
    cases neg
    · simp [build, hc.1]
    · simp [build]
  have hrest : (if neg = true then (build neg (c :: r) fp dot).drop 1 else build neg (c :: r) fp dot)
      = (c :: r) ++ (if dot then 0x2E :: fp else []) := by
    cases neg <;> simp [build]
  unfold isCanonDecimal
  simp only [hhead, hrest]
  cases dot with
  | false =>
    have hs := span_run (c :: r) [] hi (by simp)
    simp only [Bool.false_eq_true, if_false, List.append_nil] at hs ⊢
    rw [hs]
    simp only [hd1, hlead', Bool.and_self, Bool.true_and, Bool.false_or]
  | true =>
    have hs := span_run (c :: r) (0x2E :: fp) hi (by intro c' r' h; simp at h; rw [← h.1]; decide)
    obtain ⟨hfn, hfl⟩ := hdot rfl
    have hd2 : digits1 fp = true := by
      simp only [digits1, Bool.and_eq_true, Bool.not_eq_true', List.isEmpty_eq_false_iff]
      exact ⟨hfn, (allDigits_iff _).1 hf⟩
    simp only [if_true]
    rw [hs]
    simp only [hd1, hd2, Bool.true_and, Bool.and_true, Bool.true_or, beq_self_eq_true]
    simp only [hlead', Bool.true_and]
    simpa using hfl

end RdfModel.Proofs.C20F
