package main

// Reader wrappers: chunking schedules and injected faults (C15).

import (
	"errors"
	"fmt"
	"io"
	"strings"
	"unicode/utf8"

	"verifharness/vh"
)

var errInjected = errors.New("c05x: injected reader failure")

// Sched describes how the bytes are handed to the decoder.
type Sched struct {
	Chunk   string // whole | 1 | 2 | 3 | 7 | midrune | rand; prefix "z": the first Read returns 0 bytes and no error; prefix "e": the Read that delivers the last bytes also returns io.EOF (n > 0, err != nil in one call)
	Seed    uint64 // for rand
	FaultAt int    // -1: none; else after that many bytes every Read fails
	Fault   string // inj | ueof; suffix "+": the failure is returned by the same Read call that delivers the last bytes before it
}

// chunkBase strips the schedule modifiers ("z", "e") from a chunking name.
func chunkBase(c string) string { return strings.TrimLeft(c, "ze") }

func (s Sched) String() string {
	return fmt.Sprintf("chunk=%s/%d fault=%s@%d", s.Chunk, s.Seed, s.Fault, s.FaultAt)
}

var wholeSched = Sched{Chunk: "whole", FaultAt: -1}

type schedReader struct {
	b         []byte
	pos       int
	sched     Sched
	rng       *vh.Rng
	cuts      map[int]bool // midrune: forced chunk ends (inside every multi-byte sequence)
	Delivered bool         // the fault was returned to the caller at least once
	Reads     int
}

func newSchedReader(b []byte, s Sched) *schedReader {
	r := &schedReader{b: b, sched: s}
	if chunkBase(s.Chunk) == "rand" {
		r.rng = vh.NewRng(s.Seed)
	}
	if chunkBase(s.Chunk) == "midrune" {
		r.cuts = map[int]bool{}
		for i := 0; i < len(b); {
			_, n := utf8.DecodeRune(b[i:])
			if n > 1 {
				for k := 1; k < n; k++ {
					r.cuts[i+k] = true
				}
			} else if b[i] == '\\' || b[i] == '&' || b[i] == '%' { // and inside escapes
				r.cuts[i+1] = true
			}
			i += n
		}
	}
	return r
}

func (r *schedReader) Read(p []byte) (int, error) {
	r.Reads++
	if r.Reads == 1 && strings.Contains(r.sched.Chunk[:len(r.sched.Chunk)-len(chunkBase(r.sched.Chunk))], "z") {
		return 0, nil // a Reader may return 0, nil; the first call of schedule "z…" does
	}
	end := len(r.b)
	if r.sched.FaultAt >= 0 && r.sched.FaultAt < end {
		end = r.sched.FaultAt
	}
	if r.pos >= end {
		if r.sched.FaultAt >= 0 {
			r.Delivered = true
			return 0, r.faultErr()
		}
		return 0, io.EOF
	}
	if len(p) == 0 {
		return 0, nil
	}
	n := len(p)
	switch chunkBase(r.sched.Chunk) {
	case "1":
		n = 1
	case "2":
		n = 2
	case "3":
		n = 3
	case "7":
		n = 7
	case "rand":
		n = 1 + r.rng.Intn(17)
		if r.rng.Chance(10) {
			n = 1 + r.rng.Intn(5000)
		}
	case "midrune":
		n = 1
		for r.pos+n < end && !r.cuts[r.pos+n] && n < 64 {
			n++
		}
	}
	if n > len(p) {
		n = len(p)
	}
	if r.pos+n > end {
		n = end - r.pos
	}
	copy(p, r.b[r.pos:r.pos+n])
	r.pos += n
	if r.pos >= end { // io.Reader allows the terminal condition to come with the last bytes
		switch {
		case r.sched.FaultAt >= 0 && strings.HasSuffix(r.sched.Fault, "+"):
			r.Delivered = true
			return n, r.faultErr()
		case r.sched.FaultAt < 0 && strings.Contains(r.sched.Chunk[:len(r.sched.Chunk)-len(chunkBase(r.sched.Chunk))], "e"):
			return n, io.EOF
		}
	}
	return n, nil
}

func (r *schedReader) faultErr() error {
	if strings.TrimSuffix(r.sched.Fault, "+") == "ueof" {
		return io.ErrUnexpectedEOF
	}
	return errInjected
}
